"""Shared machinery of the checks: repo selection, PRNG, bit-exact float transport, the Lean
driver, Lean build + axiom audit, evidence / replay / known-findings handling and the verdict.

See DESIGN.md section 4 for the decision procedure implemented by `Check.finish`.
"""
import os
import sys
import json
import time
import struct
import hashlib
import fcntl
import subprocess
import tempfile
import shutil
import re
import contextlib

VERIF = os.path.dirname(os.path.dirname(os.path.abspath(__file__)))
REPO = os.environ.get('IXPE_REPO', '/repo')
LEAN = os.path.join(VERIF, 'lean')
ALLOWED_AXIOMS = {'propext', 'Classical.choice', 'Quot.sound'}
FORBIDDEN = re.compile(r'\b(sorry|admit|native_decide|bv_decide|implemented_by|unsafe)\b|^axiom |maxHeartbeats 0')

# make sure the code under test is the working tree of REPO (not an installed copy)
if REPO not in sys.path:
    sys.path.insert(0, REPO)
os.environ.setdefault('IXPEOBSSIM_VERIF', '1')
os.environ.setdefault('MPLBACKEND', 'Agg')


def out(line=''):
    """Print on the real stdout (sys.stdout is redirected to /dev/null while the package under test runs)."""
    sys.__stdout__.write(str(line) + '\n')
    sys.__stdout__.flush()


def quiet_ixpe():
    """Silence the package: logger, `hdu_list.info()` and numpy warnings go nowhere; our own lines use `out`."""
    import logging
    import warnings
    warnings.filterwarnings('ignore')
    sys.stdout = open(os.devnull, 'w')
    try:
        import numpy
        numpy.seterr(all='ignore')
    except Exception:
        pass
    try:
        from ixpeobssim.utils.logging_ import logger
        logger.setLevel(logging.CRITICAL)
    except Exception:
        pass


def seed():
    try:
        return int(os.environ.get('VERIF_SEED', '0'))
    except ValueError:
        return 0


def rng(tag=''):
    import numpy
    h = int.from_bytes(hashlib.sha256(('%d/%s' % (seed(), tag)).encode()).digest()[:8], 'little')
    return numpy.random.Generator(numpy.random.PCG64(h))


def f2b(x):
    return struct.unpack('<Q', struct.pack('<d', float(x)))[0]


def b2f(b):
    return struct.unpack('<d', struct.pack('<Q', int(b)))[0]


def ulp_diff(a, b):
    """Distance in units in the last place between two doubles (inf if signs differ wildly / NaN mismatch)."""
    import math
    if math.isnan(a) or math.isnan(b):
        return 0 if (math.isnan(a) and math.isnan(b)) else float('inf')
    if a == b:
        return 0
    ia, ib = f2b(a), f2b(b)
    if ia >> 63:
        ia = (1 << 63) - ia
    if ib >> 63:
        ib = (1 << 63) - ib
    return abs(ia - ib)


# ----------------------------------------------------------------------------- Lean side

@contextlib.contextmanager
def lean_lock():
    os.makedirs(os.path.join(LEAN, '.lake'), exist_ok=True)
    with open(os.path.join(LEAN, '.lake', 'verif.lock'), 'w') as f:
        fcntl.flock(f, fcntl.LOCK_EX)
        try:
            yield
        finally:
            fcntl.flock(f, fcntl.LOCK_UN)


def run(cmd, cwd=None, timeout=3600, env=None):
    p = subprocess.run(cmd, cwd=cwd, stdout=subprocess.PIPE, stderr=subprocess.STDOUT, text=True, timeout=timeout, env=env)
    return p.returncode, p.stdout


def regenerate():
    """T-tie: regenerate lean/IxpeVerif/Gen from REPO. Returns the status dict."""
    env = dict(os.environ, PYTHONPATH=REPO + os.pathsep + os.environ.get('PYTHONPATH', ''))
    rc, out = run([sys.executable, os.path.join(VERIF, 'translator', 'gen.py')], env=env)
    st = {}
    try:
        st = json.load(open(os.path.join(VERIF, 'translator', 'gen_status.json')))
    except Exception:
        pass
    st['rc'], st['log'] = rc, out[-2000:]
    return st


PINS = os.path.join(VERIF, 'translator', 'source_pins.json')


def source_digests(pid=None):
    """sha256 of the parsed source (comments and layout do not count) of every python file the property is anchored in
    (`anchors.files` of properties.jsonl; a directory stands for the python files under it); all properties if pid is None"""
    import ast
    files = set()
    for line in open(os.path.join(VERIF, 'properties.jsonl')):
        d = json.loads(line)
        if pid is not None and d['id'] != pid:
            continue
        for f in d['anchors']['files']:
            full = os.path.join(REPO, f)
            if os.path.isdir(full):
                for root, _, names in os.walk(full):
                    files.update(os.path.relpath(os.path.join(root, n_), REPO) for n_ in names if n_.endswith('.py'))
            elif f.endswith('.py'):
                files.add(f)
    out = {}
    for f in sorted(files):
        try:
            out[f] = hashlib.sha256(ast.dump(ast.parse(open(os.path.join(REPO, f)).read())).encode()).hexdigest()[:20]
        except Exception as e:      # missing or unparsable: counts as drift
            out[f] = 'unreadable: %s' % type(e).__name__
    return out


def source_drift(pid):
    """anchored files whose parsed source differs from the committed pins (the tree on which the correspondence and the oracles were last
    calibrated): not a finding by itself — it directs a deeper search (Check.finish)"""
    try:
        pins = json.load(open(PINS))
    except Exception:
        return []
    return [f for f, h in source_digests(pid).items() if pins.get(f) != h]


def lake_build(target):
    rc, out = run(['lake', 'build', target], cwd=LEAN, timeout=3000)
    return rc == 0, out


def theorem_names(path):
    """Property theorems of a Props file: every `theorem` (namespace-qualified)."""
    names, ns = [], []
    for line in open(path):
        m = re.match(r'\s*namespace\s+(\S+)', line)
        if m:
            ns.append(m.group(1))
        m = re.match(r'\s*end\s+(\S+)', line)
        if m and ns and ns[-1] == m.group(1):
            ns.pop()
        m = re.match(r'\s*(?:@\[[^\]]*\]\s*)?(?:private\s+|protected\s+)?theorem\s+([^\s:({\[]+)', line)
        if m:
            names.append('.'.join(ns + [m.group(1)]))
    return names


def strip_comments(text):
    text = re.sub(r'/-.*?-/', '', text, flags=re.S)
    return re.sub(r'--.*', '', text)


def source_audit(files):
    bad = []
    for f in files:
        t = strip_comments(open(f).read())
        for i, line in enumerate(t.split('\n')):
            if FORBIDDEN.search(line):
                bad.append('%s: %s' % (os.path.relpath(f, VERIF), line.strip()[:100]))
    return bad


def lean_sources_of(module_file):
    """Transitive closure of project-local imports of a Lean file."""
    seen, todo = [], [module_file]
    while todo:
        f = todo.pop()
        if f in seen or not os.path.exists(f):
            continue
        seen.append(f)
        for m in re.findall(r'^import\s+(IxpeVerif\.[\w.]+)', open(f).read(), flags=re.M):
            todo.append(os.path.join(LEAN, *m.split('.')) + '.lean')
    return seen


def prove(prop_modules):
    """Build the given Props modules and audit the axioms of every theorem in them.

    Returns dict(ok, obligations=[{name, module, axioms, ok}], build_log, forbidden)."""
    res = dict(ok=True, obligations=[], build_log='', forbidden=[], modules=list(prop_modules))
    with lean_lock():
        for mod in prop_modules:
            path = os.path.join(LEAN, *mod.split('.')) + '.lean'
            ok, log = lake_build(mod)
            names = theorem_names(path)
            res['forbidden'] += source_audit(lean_sources_of(path))
            if not ok:
                res['ok'] = False
                res['build_log'] += log[-6000:]
                # which theorems failed: lake prints "error: <file>:<line>:<col>: ..."; map lines to theorems
                failed = failed_theorems(path, log)
                for n in names:
                    res['obligations'].append(dict(name=n, module=mod, axioms=None, ok=(n not in failed) and None))
                res.setdefault('failed_theorems', []).extend(sorted(failed))
                continue
            audit = os.path.join(LEAN, '.lake', 'audit_%s.lean' % mod.replace('.', '_'))
            with open(audit, 'w') as f:
                f.write('import %s\n' % mod + ''.join('#print axioms %s\n' % n for n in names))
            rc, out = run(['lake', 'env', 'lean', audit], cwd=LEAN)
            axioms = parse_axioms(out)
            for n in names:
                ax = axioms.get(n)
                good = ax is not None and set(ax) <= ALLOWED_AXIOMS
                res['obligations'].append(dict(name=n, module=mod, axioms=ax, ok=good))
                if not good:
                    res['ok'] = False
                    res.setdefault('failed_theorems', []).append(n)
        if res['ok'] and os.environ.get('VERIF_TIER_CUR') == 'thorough' and not _LEANCHECKED.issuperset(prop_modules):
            # independent re-check of the compiled modules by the toolchain's stand-alone kernel
            t0 = time.time()
            rc, out_ = run(['lake', 'env', 'leanchecker'] + list(prop_modules), cwd=LEAN, timeout=3000)
            res['leanchecker'] = dict(rc=rc, seconds=round(time.time() - t0, 1), output=out_[-500:])
            if rc != 0:
                res['ok'] = False
                res.setdefault('failed_theorems', []).append('leanchecker rejects %s' % ' '.join(prop_modules))
            else:
                _LEANCHECKED.update(prop_modules)
    if res['forbidden']:
        res['ok'] = False
    return res


_LEANCHECKED = set()


def failed_theorems(path, log):
    lines = open(path).read().split('\n')
    starts = []
    for i, l in enumerate(lines):
        m = re.match(r'\s*(?:@\[[^\]]*\]\s*)?(?:private\s+|protected\s+)?(?:theorem|lemma|def|example|instance)\s+([^\s:({\[]+)?', l)
        if m:
            starts.append((i + 1, m.group(1) or 'example'))
    failed = set()
    base = os.path.basename(path)
    for m in re.finditer(r'error: [^\n]*?%s:(\d+):\d+' % re.escape(base), log):
        ln = int(m.group(1))
        cur = None
        for s, n in starts:
            if s <= ln:
                cur = n
        if cur:
            failed.add(cur)
    if not failed:
        failed.add('<build of %s>' % base)
    return failed


def parse_axioms(out):
    res = {}
    for m in re.finditer(r"'([^']+)' depends on axioms: \[([^\]]*)\]", out.replace('\n', ' ')):
        res[m.group(1)] = [a.strip() for a in m.group(2).split(',') if a.strip()]
    for m in re.finditer(r"'([^']+)' does not depend on any axioms", out):
        res[m.group(1)] = []
    return res


class Driver:
    """Batch interface to `lake env lean --run Main.lean`."""

    def __init__(self):
        self.lines = []

    def ask(self, line):
        self.lines.append(line)
        return len(self.lines) - 1

    def run(self):
        if not self.lines:
            return []
        with lean_lock():
            ok, log = lake_build('IxpeVerif.Driver')
            ok2, log2 = lake_build('IxpeVerif.Gen.Dispatch')
        if not (ok and ok2):
            raise DriverError('driver build failed:\n' + (log + log2)[-3000:])
        with tempfile.NamedTemporaryFile('w', suffix='.txt', delete=False) as f:
            f.write('\n'.join(self.lines) + '\n')
            name = f.name
        try:
            with open(name) as fin:
                p = subprocess.run(['lake', 'env', 'lean', '--run', 'Main.lean'], cwd=LEAN, stdin=fin,
                                   stdout=subprocess.PIPE, stderr=subprocess.PIPE, text=True, timeout=3000)
        finally:
            os.unlink(name)
        out = p.stdout.split('\n')
        if out and out[-1] == '':
            out.pop()
        if p.returncode != 0 or len(out) != len(self.lines):
            raise DriverError('driver failed rc=%s, %d replies for %d requests\n%s' % (p.returncode, len(out), len(self.lines), p.stderr[-2000:]))
        self.lines = []
        return out


class DriverError(Exception):
    pass


# ----------------------------------------------------------------------------- verdict

def load_findings(pid):
    path = os.path.join(VERIF, 'known_findings.json')
    if not os.path.exists(path):
        return []
    return [e for e in json.load(open(path)) if e.get('property') == pid]


class Check:
    """Collects what one run of one property check did, then decides and writes the evidence."""

    def __init__(self, pid, tier):
        self.pid, self.tier = pid, tier
        os.environ['VERIF_TIER_CUR'] = tier
        self.t0 = time.time()
        self.violations = []          # dicts: kind ('impl'|'correspondence'|'proof'), what, replay (dict)
        self.cases = 0
        self.nontrivial = set()
        self.samples = []
        self.rule = ''
        self.assumptions = []
        self.extra = {}
        self.proof = None
        self.gen = None
        self.known_printed = []
        self.findings = load_findings(pid)
        self.programs = 0

    # -- coverage bookkeeping
    def case(self, desc, nontrivial=True, sample=False):
        self.cases += 1
        if nontrivial:
            self.nontrivial.add(hashlib.sha1(json.dumps(desc, sort_keys=True, default=str).encode()).hexdigest())
        if (sample or len(self.samples) < 5) and len(self.samples) < 12:
            self.samples.append(desc)

    def fail(self, kind, what, replay):
        self.violations.append(dict(kind=kind, what=what, replay=replay))

    def known_class(self, replay):
        """Is this failing input covered by a listed known finding (status known)?"""
        for e in self.findings:
            if e.get('status') != 'known':
                continue
            pred = e.get('match')
            if pred and all(replay.get(k) == v for k, v in pred.items()):
                return e
        return None

    def known_finding(self, entry, still_fails, observed=''):
        if still_fails and any(k['id'] == entry['id'] for k in self.known_printed):
            return                      # already reported in an earlier sweep of this run
        if still_fails:
            line = 'KNOWN-FINDING: property=%s %s' % (self.pid, entry['what'])
            out(line)
            self.known_printed.append(dict(id=entry['id'], observed=observed))

    # -- the Lean side
    def lean(self, modules, gen_names=()):
        self.gen = regenerate()
        self.gen_names = list(gen_names)
        prev = (self.proof or {}).get('leanchecker')
        self.proof = prove(modules)
        if prev and 'leanchecker' not in self.proof:
            self.proof['leanchecker'] = prev
        return self.proof

    # -- verdict
    def finish(self, level='proof', checker_cmd=None, trusted=None, search=None):
        """search: callable(budget_factor) -> None, run when a proof / correspondence broke and no
        implementation-level failing input is known yet (it may call self.fail('impl', ...))."""
        if getattr(self, 'replaying', False):          # ./check replay: collect only, write nothing
            return 1 if self.violations else 0
        impl = [v for v in self.violations if v['kind'] == 'impl']
        broken = [v for v in self.violations if v['kind'] != 'impl']
        if self.proof is not None and not self.proof['ok']:
            names = self.proof.get('failed_theorems', []) + self.proof['forbidden']
            broken.append(dict(kind='proof', what='proof obligations no longer check: %s' % ', '.join(map(str, names)),
                               replay=dict(theorems=names, build_log=self.proof['build_log'][-3000:],
                                           gen_status={k: v.get('tie') for k, v in (self.gen or {}).get('functions', {}).items() if v.get('tie') != 'translated'})))
        if self.gen is not None and self.gen.get('rc', 0) != 0:
            broken.append(dict(kind='proof', what='translator failed', replay=dict(log=self.gen.get('log'))))
        for part in ('cachesites', 'rngsites', 'masks', 'imp', 'impr', 'skel', 'fwd', 'hist', 'selecttrans', 'vectrans', 'lamtrans', 'lamtrans_img', 'strtrans', 'tables', 'specs'):
            st_ = (self.gen or {}).get(part)
            if isinstance(st_, str) and st_.startswith('failed'):
                broken.append(dict(kind='proof', what='translator (%s) %s: the generated table is stale' % (part, st_[:300]), replay=dict(part=part, status=st_)))
        for name in getattr(self, 'gen_names', []):
            st = (self.gen or {}).get('functions', {}).get(name, {})
            if st.get('tie') == 'abstract-call-changed':
                broken.append(dict(kind='correspondence', what='tie degraded for %s: %s' % (name, st.get('reason')),
                                   replay=dict(function=name, reason=st.get('reason'))))
            elif st and st.get('tie') != 'translated':
                # the source left the translated subset: the theorems were checked against the committed golden definition, not against the
                # current code, and only the sampled correspondence binds the two — the T-tie no longer checks
                broken.append(dict(kind='correspondence', what='T-tie lost for %s (%s): theorems about Gen.%s are about the golden definition, not the current source' % (
                    name, st.get('reason'), st.get('lean', name)), replay=dict(function=name, reason=st.get('reason'), tie=st.get('tie'))))
        drift = source_drift(self.pid)
        self.extra = dict(getattr(self, 'extra', {}) or {}, source_drift=drift)
        if broken and not impl and search is not None:
            search(10)
            impl = [v for v in self.violations if v['kind'] == 'impl']
        elif drift and not impl and search is not None and self.tier == 'quick':
            # the anchored source differs from the tree the checks were calibrated on and nothing has failed: look deeper before passing
            out('  source drift in %s: search budget raised' % ', '.join(drift[:6]))
            search(4)
            impl = [v for v in self.violations if v['kind'] == 'impl']
            broken = [v for v in self.violations if v['kind'] != 'impl']
        rc = 0
        os.makedirs(os.path.join(VERIF, 'replays'), exist_ok=True)
        if impl:
            v = impl[0]
            path = self._write_replay(v, broken)
            out('VIOLATION property=%s replay=%s' % (self.pid, path))
            out('  ' + v['what'][:400])
            rc = 1
        elif broken:
            v = broken[0]
            path = self._write_replay(v, broken[1:])
            out('  ' + v['what'][:400])
            out('VIOLATION property=%s replay=%s no-failing-input-found' % (self.pid, path))
            rc = 1
        self._write_evidence(level, checker_cmd, trusted, len(impl) + len(broken))
        dt = time.time() - self.t0
        out('%s %s tier=%s seed=%d cases=%d nontrivial=%d obligations=%s wall=%.1fs' % (
            'FAIL' if rc else 'OK', self.pid, self.tier, seed(), self.cases, len(self.nontrivial),
            ('%d/%d' % (sum(1 for o in self.proof['obligations'] if o['ok']), len(self.proof['obligations']))) if self.proof else '-', dt))
        return rc

    def _write_replay(self, v, others):
        body = dict(property=self.pid, tier=self.tier, seed=seed(), kind=v['kind'], what=v['what'], replay=v['replay'],
                    also=[dict(kind=o['kind'], what=o['what'][:500]) for o in others][:10],
                    how_to_replay='./check replay <this file>')
        h = hashlib.sha1(json.dumps(body, sort_keys=True, default=str).encode()).hexdigest()[:10]
        path = os.path.join(VERIF, 'replays', '%s-%s.json' % (self.pid, h))
        json.dump(body, open(path, 'w'), indent=1, default=str)
        return path

    def _write_evidence(self, level, checker_cmd, trusted, nviol):
        cov = dict(evaluations=self.cases, distinct_nontrivial=len(self.nontrivial), rule=self.rule,
                   samples=self.samples[:12] or ['(none)'])
        if self.proof is not None:
            obs = self.proof['obligations']
            cov.update(obligations=max(1, len(obs)), discharged=sum(1 for o in obs if o['ok']),
                       checker_cmd=checker_cmd or ('cd lean && lake build %s && lake env lean .lake/audit_*.lean  (#print axioms per theorem)' % ' '.join(self.proof['modules'])),
                       trusted_base=trusted or [], theorems=[dict(name=o['name'], axioms=o['axioms'], ok=o['ok']) for o in obs])
        if self.gen is not None:
            cov['translator'] = {k: v.get('tie') for k, v in self.gen.get('functions', {}).items()}
        if self.proof is not None and self.proof.get('leanchecker'):
            cov['leanchecker'] = self.proof['leanchecker']
        if self.programs:
            cov['programs'] = self.programs
        cov['known_findings_replayed'] = self.known_printed
        cov.update(self.extra)
        ev = dict(property_id=self.pid, tier=self.tier, seed=seed(), level=level, coverage=cov,
                  assumptions=self.assumptions, wall_s=round(time.time() - self.t0, 2), violations=nviol)
        os.makedirs(os.path.join(VERIF, 'evidence'), exist_ok=True)
        json.dump(ev, open(os.path.join(VERIF, 'evidence', '%s.json' % self.pid), 'w'), indent=1, default=str)


def replay_rerun(mod, body):
    """Replay of a failure whose input is a generated file or history: the exploration that produced it is deterministic in
    (seed, tier), so it is re-run with the recorded seed and tier against the current tree and the failures of the same oracle /
    operation are reported. Exit 1 if it still fails, 0 if not."""
    os.environ['VERIF_SEED'] = str(body.get('seed', 0))
    chk = Check(body['property'], body.get('tier', 'quick'))
    chk.replaying = True
    r = body.get('replay', {}) or {}
    key = (r.get('oracle'), r.get('op'))
    mod.main(chk)
    if body.get('kind') == 'proof':
        bad = [] if (chk.proof is None or chk.proof['ok']) else chk.proof.get('failed_theorems', ['build'])
        out('proof obligations that do not check now: %s' % (bad or 'none'))
        return 1 if bad else 0
    same = [v for v in chk.violations if v['kind'] == body.get('kind') and ((v['replay'] or {}).get('oracle'), (v['replay'] or {}).get('op')) == key]
    out('recorded: ' + body.get('what', '')[:300])
    for v in same[:5]:
        out('still fails: ' + v['what'][:300])
    if not same:
        out('no longer fails (seed %s, tier %s, %d other failures of this property in the re-run)' % (body.get('seed'), body.get('tier'), len(chk.violations)))
    return 1 if same else 0


@contextlib.contextmanager
def scratch():
    d = tempfile.mkdtemp(prefix='ixpeverif_')
    try:
        yield d
    finally:
        shutil.rmtree(d, ignore_errors=True)
