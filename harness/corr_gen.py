"""Correspondence of the *generated* Lean definitions (translator output, run on Float through the
driver) with the real Python functions on random inputs.  This validates the translator on every
run: a mistranslation, or a source change the translator silently mis-reads, shows up here."""
import types
import math
import numpy
from unittest import mock

from common import f2b, b2f, Driver, rng

PI = math.pi


def ns(**kw):
    return types.SimpleNamespace(**kw)


def _adapters():
    from ixpeobssim.evt import kislat2015, align, spurmrot, event
    from ixpeobssim.utils import math_
    from ixpeobssim.instrument import gpd, du, mma
    from ixpeobssim.core import stokes
    from ixpeobssim.irf import modf, ebounds, psf
    from ixpeobssim.srcmodel import spectrum, ephemeris, roi, polarization
    SA = kislat2015.xStokesAnalysis
    S = stokes.xModelStokesParameters
    AZ = modf.xAzimuthalResponseGenerator
    E = ephemeris.xEphemeris

    def with_patch(target, attr, value, fn):
        with mock.patch.object(target, attr, value):
            return fn()

    def du_rot(a):
        d = dict(du.__dict__['__DU_ROTATION_ANGLE'])
        # the table entry is the abstract parameter `base`: patch the dict entry of DU 1
        with mock.patch.dict(du.__dict__['__DU_ROTATION_ANGLE'], {1: a['base']}):
            return du.du_rotation_angle(1, a['roll_angle'])

    def vec_scalar(fn):
        def g(a):
            keys = list(a)
            n = len(a[keys[0]])
            out = [fn({k: float(a[k][i]) for k in keys}) for i in range(n)]
            if isinstance(out[0], tuple):
                return tuple(numpy.array([o[j] for o in out]) for j in range(len(out[0])))
            return numpy.array(out)
        return g

    from ixpeobssim.binning import base as bbase

    def wavg(a, b):
        mk = lambda v, w: ns(**{'_xBinnedFileBase__data_dict': {'V': v, 'W': w}})
        return bbase.xBinnedFileBase._weighted_average(mk(a['a'], a['a_2']), mk(a['b'], a['b_2']), 'V', 'W', 0., b['invert_w2'])

    from ixpeobssim.binning import misc as bmisc

    def lciadd(a):
        me = ns(EXPOSURE=a['self_EXPOSURE'].copy(), COUNTS=a['self_COUNTS'].copy(), ERROR=a['self_ERROR'].copy(), _check_iadd=lambda *x, **k: None)
        ot = ns(EXPOSURE=a['other_EXPOSURE'].copy(), COUNTS=a['other_COUNTS'].copy(), ERROR=a['other_ERROR'].copy())
        r = bmisc.xBinnedLightCurve.__iadd__(me, ot)
        return r.COUNTS, r.EXPOSURE, r.ERROR

    from ixpeobssim.binning import polarization as bpol

    def pcube(a):
        def mk(pref):
            o = ns(**{k: a['%s_%s' % (pref, k)].copy() for k in ('E_MEAN', 'MU', 'COUNTS', 'W2', 'I', 'Q', 'U')})
            setattr(o, '_xBinnedFileBase__data_dict', dict(E_MEAN=o.E_MEAN, MU=o.MU, I=o.I))
            return o
        me, ot = mk('self'), mk('other')
        setattr(me, '_xBinnedPolarizationCube__check_compat', lambda other: None)
        setattr(me, '_xBinnedPolarizationCube__recalculate_derived', lambda: None)
        me._weighted_average = lambda other, c, w, **k: bbase.xBinnedFileBase._weighted_average(me, other, c, w, **k)
        r = bpol.xBinnedPolarizationCube.__iadd__(me, ot)
        return r.E_MEAN, r.MU, r.COUNTS, r.W2, r.I, r.Q, r.U

    def ppiadd(a):
        me = ns(COUNTS=a['self_COUNTS'].copy(), ERROR=a['self_ERROR'].copy(), _check_iadd=lambda *x, **k: None)
        ot = ns(COUNTS=a['other_COUNTS'].copy(), ERROR=a['other_ERROR'].copy())
        r = bmisc.xBinnedPulseProfile.__iadd__(me, ot)
        return r.COUNTS, r.ERROR

    def pha1iadd(a):
        me = ns(RATE=a['self_RATE'].copy(), STAT_ERR=a['self_STAT_ERR'].copy(), _check_iadd=lambda *x, **k: None)
        ot = ns(RATE=a['other_RATE'].copy(), STAT_ERR=a['other_STAT_ERR'].copy())
        r = bpol.xBinnedCountSpectrum.__iadd__(me, ot)
        return r.RATE, r.STAT_ERR

    def mdpcube(a):
        def mk(pref):
            o = ns(**{k: a['%s_%s' % (pref, k)].copy() for k in ('E_MEAN', 'MU', 'COUNTS', 'W2', 'I')})
            setattr(o, '_xBinnedFileBase__data_dict', dict(E_MEAN=o.E_MEAN, MU=o.MU, I=o.I))
            return o
        me, ot = mk('self'), mk('other')
        me._check_iadd = lambda *x, **k: None
        me._weighted_average = lambda other, c, w, **k: bbase.xBinnedFileBase._weighted_average(me, other, c, w, **k)
        r = bpol.xBinnedMDPMapCube.__iadd__(me, ot)
        return r.E_MEAN, r.COUNTS, r.MU, r.W2, r.I, r.MDP_99, r.N_EFF, r.FRAC_W

    A = {
        'pp_iadd': ppiadd,
        'pha1_iadd': pha1iadd,
        'mdpcube_iadd': mdpcube,
        'pcube_iadd': pcube,
        'lc_iadd': lciadd,
        'weighted_average': wavg,
        'stokes_q': lambda a: SA.stokes_q(a['phi']),
        'stokes_u': lambda a: SA.stokes_u(a['phi'], None),
        'align_stokes_parameters': lambda a: align.align_stokes_parameters(a['q'], a['u'], a['q0'], a['u0']),
        'delta_phi_ampl': lambda a: spurmrot.delta_phi_ampl(a['phi'], a['amplitude'], a['phase'], a['harmonic']),
        'delta_phi_stokes': lambda a: spurmrot.delta_phi_stokes(a['phi'], a['qspur'], a['uspur']),
        'correct_phi_stokes': lambda a: spurmrot.correct_phi_stokes(a['phi'], a['qspur'], a['uspur']),
        'stokes_rotation_angle': lambda a: spurmrot.stokes_rotation_angle(a['q'], a['u'], a['qspur'], a['uspur']),
        'correct_stokes_parameters': lambda a: spurmrot.correct_stokes_parameters(a['q'], a['u'], a['qspur'], a['uspur']),
        'modulo_2pi': lambda a: math_.modulo_2pi(a['phi']),
        'fold_angle_rad': lambda a: math_.fold_angle_rad(a['phi']),
        'fold_angle_deg': lambda a: math_.fold_angle_deg(a['phi']),
        'du_rotation_angle': du_rot,
        'rotate_detxy': lambda a, b: with_patch(gpd, 'du_rotation_angle', lambda *x, **k: a['rho'],
                                                lambda: gpd.rotate_detxy(a['x'], a['y'], 1, 0., inverse=b['inverse'])),
        'phi_to_detphi': lambda a: with_patch(gpd, 'du_rotation_angle', lambda *x, **k: a['rho'],
                                              lambda: gpd.phi_to_detphi(a['phi'], 1, 0.)),
        'detphi_to_phi': lambda a: with_patch(gpd, 'du_rotation_angle', lambda *x, **k: a['rho'],
                                              lambda: gpd.detphi_to_phi(a['detphi'], 1, 0.)),
        'within_fiducial_rectangle': lambda a: gpd.within_fiducial_rectangle(a['x'], a['y'], a['half_side_x'], a['half_side_y']).astype(float),
        'sky_to_gpd_naive': lambda a: mma._sky_to_gpd_naive(a['ra'], a['dec'], a['ra_pnt'], a['dec_pnt']),
        'gpd_to_sky_naive': lambda a: mma._gpd_to_sky_naive(a['detx'], a['dety'], a['ra_pnt'], a['dec_pnt']),
        'sky_to_gpd_dither': lambda a: with_patch(mma, '_dithering_delta', lambda *x: (a['delta_ra'], a['delta_dec']), lambda:
                                                  with_patch(gpd, 'du_rotation_angle', lambda *x, **k: a['rho'], lambda:
                                                             mma.sky_to_gpd(a['ra'].copy(), a['dec'].copy(), None, a['ra_pnt'], a['dec_pnt'], 1, 0., dither_params=(1, 2, 3, 4)))),
        'gpd_to_sky_dither': lambda a: with_patch(mma, '_dithering_delta', lambda *x: (a['delta_ra'], a['delta_dec']), lambda:
                                                  with_patch(gpd, 'du_rotation_angle', lambda *x, **k: a['rho'], lambda:
                                                             mma.gpd_to_sky(a['detx'].copy(), a['dety'].copy(), None, a['ra_pnt'], a['dec_pnt'], 1, 0., dither_params=(1, 2, 3, 4)))),
        'apply_dithering': lambda a: with_patch(mma, '_dithering_delta', lambda *x: (a['delta_ra'], a['delta_dec']), lambda:
                                                mma.apply_dithering(None, a['ra_pnt'].copy(), a['dec_pnt'].copy(), dither_params=(1, 2, 3, 4))),
        'psf_smear': lambda a: psf.xPointSpreadFunctionBase.smear(ns(delta=lambda n: (a['delta_ra'], a['delta_dec'])), a['ra'], a['dec']),
        'model_q': lambda a: S.q(a['polarization_degree'], a['polarization_angle']),
        'model_u': lambda a: S.u(a['polarization_degree'], a['polarization_angle']),
        'model_pd': lambda a: S.polarization_degree(a['q'], a['u']),
        'model_pa': lambda a: S.polarization_angle(a['q'], a['u']),
        'pdpa_to_xy': lambda a: S.pdpa_to_xy(a['pol_deg'], a['pol_ang']),
        'az_pdf': lambda a: AZ.pdf(a['phi'], a['m']),
        'az_cdf': lambda a: AZ.cdf(a['phi'], a['m']),
        'az_rvs_phi': lambda a: AZ.rvs_phi(ns(rvs=lambda m: a['x']), None, a['phase']),
        'energy_to_channel': lambda a: ebounds.energy_to_channel(a['energy']),
        'channel_to_energy': lambda a: ebounds.channel_to_energy(a['channel']),
        'split_event_time': lambda a: tuple(x.astype(float) for x in event.xBaseEventList.split_event_time(a['time_'])),
        'pl_integral': vec_scalar(lambda a: spectrum.pl_integral(a['norm'], a['index'], a['emin'], a['emax'])),
        'pl_norm': vec_scalar(lambda a: spectrum.pl_norm(a['integral'], a['emin'], a['emax'], a['index'], a['energy_power'])),
        'eph_nu': lambda a: E.nu(ns(nu0=a['self_nu0'], nudot0=a['self_nudot0'], nuddot=a['self_nuddot'], _dt=lambda m: a['dt']), None),
        'eph_nudot': lambda a: E.nudot(ns(nudot0=a['self_nudot0'], nuddot=a['self_nuddot'], _dt=lambda m: a['dt']), None),
        'eph_met_to_phase': lambda a: E.met_to_phase(ns(nu0=a['self_nu0'], nudot0=a['self_nudot0'], nuddot=a['self_nuddot'], _dt=lambda m: a['dt']), None),
        'disk_rvs': lambda a: with_patch(numpy.random, 'sample', lambda n: a['u1'], lambda:
                                         with_patch(numpy.random, 'uniform', lambda lo, hi, n: a['theta'], lambda:
                                                    roi.xUniformDisk.rvs_sky_coordinates(ns(radius=a['self_radius'], ra=a['self_ra'], dec=a['self_dec']), len(a['u1'])))),
        'annulus_rvs': lambda a: with_patch(numpy.random, 'sample', lambda n: a['u1'], lambda:
                                            with_patch(numpy.random, 'uniform', lambda lo, hi, n: a['theta'], lambda:
                                                       roi.xUniformAnnulus.rvs_sky_coordinates(ns(rmin=a['self_rmin'], rmax=a['self_rmax'], ra=a['self_ra'], dec=a['self_dec']), len(a['u1'])))),
        'field_delta': lambda a: polarization.xPolarizationFieldBase._delta(ns(ra0=a['self_ra0'], dec0=a['self_dec0']), a['ra'], a['dec']),
        'radial_pa': lambda a: polarization.xRadialPolarizationField.polarization_angle(ns(_delta=lambda r, d: (a['dx'], a['dy'])), None, None),
        'tangential_pa': lambda a: polarization.xTangentialPolarizationField.polarization_angle(ns(_delta=lambda r, d: (a['dx'], a['dy'])), None, None),
    }
    return A


def domain(name, lean, g, n):
    """Sampling domain per parameter name (a few exact special values are mixed in)."""
    u = g.uniform
    special = None
    if name in ('phi', 'detphi', 'phase', 'x', 'theta', 'polarization_angle', 'pol_ang', 'rho', 'base'):
        v = u(-PI, PI, n) if lean not in ('fold_angle_deg',) else u(-180., 180., n)
        special = [0., PI, -PI, PI / 2, -PI / 2] if lean != 'fold_angle_deg' else [0., 180., -180., 90., -90.]
        if name in ('rho', 'base'):
            v = u(-2 * PI, 2 * PI, n)
        if name == 'theta':
            v = u(0, 2 * PI, n)
    elif name in ('q', 'u', 'q0', 'u0'):
        v = u(-2., 2., n)
    elif name in ('qspur', 'uspur', 'amplitude'):
        v = u(-0.3, 0.3, n)
    elif name in ('harmonic',):
        v = g.integers(1, 4, n).astype(float)
    elif name in ('m', 'polarization_degree', 'pol_deg', 'u1'):
        v = u(0., 1., n)
        special = [0., 1.] if name != 'u1' else [0.]
    elif name in ('ra', 'ra_pnt', 'self_ra', 'self_ra0'):
        v = u(0., 360., n)
    elif name in ('dec', 'dec_pnt', 'self_dec', 'self_dec0'):
        v = u(-80., 80., n)
    elif name in ('delta_ra', 'delta_dec'):
        v = u(-0.05, 0.05, n)
    elif name in ('detx', 'dety', 'x', 'y'):
        v = u(-8., 8., n)
    elif name in ('half_side_x', 'half_side_y'):
        v = u(5., 7.5, n)
    elif name in ('self_I', 'other_I') and lean in ('pcube_iadd', 'mdpcube_iadd'):          # total intensity of the bin in each file: positive, or exactly zero (empty bin)
        v = numpy.where(u(0, 1, n) < 0.75, u(0.5, 5000., n), 0.)
    elif name in ('self_EXPOSURE', 'other_EXPOSURE'):                   # exposures of the two light curves in a bin: positive or exactly zero
        v = numpy.where(u(0, 1, n) < 0.75, u(0.5, 2000., n), 0.)
    elif name in ('self_COUNTS', 'other_COUNTS') and lean == 'mdpcube_iadd':
        v = g.integers(1, 500, n).astype(float)
    elif name in ('self_COUNTS', 'other_COUNTS', 'self_ERROR', 'other_ERROR', 'self_RATE', 'other_RATE', 'self_STAT_ERR', 'other_STAT_ERR'):
        v = u(0., 500., n)
    elif name in ('self_W2', 'other_W2', 'self_MU', 'other_MU', 'self_E_MEAN', 'other_E_MEAN') and lean == 'mdpcube_iadd':
        v = u(0.05, 8., n)
    elif name in ('a_2', 'b_2') and lean == 'weighted_average':      # weights of the two files: positive, exactly zero (empty bin) or negative
        v = numpy.where(u(0, 1, n) < 0.6, u(0.01, 50., n), numpy.where(u(0, 1, n) < 0.6, 0., u(-5., -0.01, n)))
    elif name == 'roll_angle':
        v = u(0., 360., n)
    elif name == 'energy':
        v = u(0., 15., n)
    elif name == 'channel':
        v = g.integers(0, 375, n).astype(float)
    elif name == 'time_':
        v = numpy.round(u(0., 3.e8, n) * 2**20) / 2**20
        neg = u(0, 1, n) < 0.3                       # epochs before the mission reference date: negative MET
        v = numpy.where(neg, -numpy.round(u(0., 3.e7, n) * 2**20) / 2**20, v)
        v = numpy.where(u(0, 1, n) < 0.1, numpy.round(v), v)   # whole seconds of either sign
    elif name in ('norm', 'integral'):
        v = u(0.1, 20., n)
    elif name == 'index':
        v = numpy.where(u(0, 1, n) < 0.25, numpy.array([1., 2., 0., 3.])[g.integers(0, 4, n)], u(-1., 4., n))
    elif name == 'energy_power':
        v = g.integers(0, 3, n).astype(float)
    elif name == 'emin':
        v = u(0.5, 4., n)
    elif name == 'emax':
        v = u(5., 12., n)
    elif name == 'self_nu0':
        v = 10 ** u(-1, 2.8, n)
    elif name == 'self_nudot0':
        v = -10 ** u(-15, -9, n)
    elif name == 'self_nuddot':
        v = u(-1e-20, 1e-20, n)
    elif name == 'dt':
        v = u(-1e6, 1e6, n)
    elif name in ('self_radius', 'self_rmax'):
        v = u(0.01, 0.1, n)
    elif name == 'self_rmin':
        v = u(0.0, 0.01, n)
    elif name in ('dx', 'dy'):
        v = u(-0.1, 0.1, n)
        special = [0.]
    else:
        v = u(-3., 3., n)
    if special:
        k = min(len(special), n)
        v[:k] = special[:k]
    return v


def run(check, names, n=200, rtol=1e-12, atol=1e-12, tag='gen'):
    """Run the listed generated functions on n random inputs each. Records failures in `check`."""
    import json, os
    from common import VERIF
    status = json.load(open(os.path.join(VERIF, 'translator', 'gen_status.json')))['functions']
    A = _adapters()
    g = rng(tag)
    drv = Driver()
    jobs = []
    for lean in names:
        st = status[lean]
        fparams = st['params'] + st['selfattrs'] + st['absparams']
        bparams = st['bools']
        nb = max(1, 2 ** len(bparams))
        for bi in range(nb):
            b = {p: bool((bi >> j) & 1) for j, p in enumerate(bparams)}
            a = {p: domain(p, lean, g, n) for p in fparams}
            try:
                out = A[lean](a, b) if bparams else A[lean](a)
            except Exception as e:  # the real function raised on inputs inside the modelled domain
                check.fail('correspondence', 'generated %s: python function raised %s: %s' % (lean, type(e).__name__, e),
                           dict(function=lean, error=str(e)))
                continue
            outs = [numpy.broadcast_to(numpy.asarray(o, dtype=float), (n,)) for o in (out if isinstance(out, tuple) else (out,))]
            for i in range(n):
                line = 'gen %s %d %s %d %s' % (lean, len(fparams), ' '.join(str(f2b(a[p][i])) for p in fparams),
                                               len(bparams), ' '.join('1' if b[p] else '0' for p in bparams))
                drv.ask(line.strip())
                jobs.append((lean, {p: float(a[p][i]) for p in fparams}, b, [float(o[i]) for o in outs]))
    replies = drv.run()
    nbad = 0
    for (lean, a, b, py), rep in zip(jobs, replies):
        check.case(dict(op='gen', function=lean, args=a, bools=b), nontrivial=True, sample=False)
        if rep == 'bad-op':
            check.fail('correspondence', 'driver rejected op for %s (signature changed?)' % lean, dict(function=lean, args=a))
            continue
        lv = [b2f(x) for x in rep.split()]
        ok = len(lv) == len(py) and all(
            (math.isnan(x) and math.isnan(y)) or abs(x - y) <= atol + rtol * max(abs(x), abs(y)) for x, y in zip(lv, py))
        if not ok:
            nbad += 1
            if nbad <= 5:
                check.fail('correspondence', 'generated Lean %s disagrees with Python: lean=%s python=%s args=%s' % (lean, lv, py, a),
                           dict(function=lean, args=a, bools=b, lean=lv, python=py))
    check.programs += len(names)
    return nbad
