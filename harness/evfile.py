"""Synthetic level-2 event files from explicit rows, through the package's own classes and writer
(`xEventList`, `write_fits`), without the trajectory / ephemeris layer."""
import numpy

from ixpeobssim.evt.event import xEventList
from ixpeobssim.evt.gti import xGTIList
from ixpeobssim.evt.fmt import standard_radec_to_xy


class FakeSrc:
    def __init__(self, name, identifier):
        self.name, self.identifier = name, identifier


def FakeRoi(ra, dec, n=1):
    """a *real* `xROIModel` with n point sources (identifiers 0..n-1, names src0…): the writer may use any part of the public interface of the
    model it is handed (a stand-in with only the attributes used today would turn a harmless refactoring into an alarm)"""
    from ixpeobssim.srcmodel.roi import xROIModel, xPointSource
    from ixpeobssim.srcmodel.spectrum import power_law
    from ixpeobssim.srcmodel.polarization import constant
    srcs = [xPointSource('src%d' % i, ra, dec, power_law(1., 2.), constant(0.), constant(0.)) for i in range(n)]
    return xROIModel(ra, dec, *srcs)


def FakeIrf(du_id, irfname=None):
    """the real response set of the detector unit (cached by the package)"""
    from ixpeobssim.irf import load_irf_set, DEFAULT_IRF_NAME
    return load_irf_set(irfname or DEFAULT_IRF_NAME, du_id)


def obssim_kwargs(**over):
    from ixpeobssim.bin.xpobssim import PARSER
    kw = PARSER.parse_args(['--configfile', 'x.py']).__dict__
    kw.update(over)
    return kw


def make_event_list(time, pi=None, phi=None, ra=None, dec=None, w=None, src=0, detx=None, dety=None, mc_energy=None,
                    tag=None, ra0=30., dec0=45., energy=None, mc_ra=None, mc_dec=None):
    """An xEventList with every column filled. `tag` (int) is stored in both PHA and MC_PHA."""
    time = numpy.asarray(time, dtype=float)
    n = len(time)
    el = xEventList(time, src if numpy.isscalar(src) else numpy.asarray(src)) if n else xEventList()
    if n == 0:
        return el
    z = numpy.zeros(n)
    pi = numpy.full(n, 100) if pi is None else numpy.asarray(pi)
    energy = (0.04 * pi + 0.02) if energy is None else numpy.asarray(energy, dtype=float)
    phi = z if phi is None else numpy.asarray(phi, dtype=float)
    ra = numpy.full(n, ra0) if ra is None else numpy.asarray(ra, dtype=float)
    dec = numpy.full(n, dec0) if dec is None else numpy.asarray(dec, dtype=float)
    x, y = standard_radec_to_xy(ra, dec, ra0, dec0)
    mc_energy = energy if mc_energy is None else numpy.asarray(mc_energy, dtype=float)
    tag = pi.astype(int) if tag is None else numpy.asarray(tag, dtype=int)
    # true (Monte Carlo) sky positions: the measured ones unless given (a PSF displaces the measured position from the true one)
    mc_ra = ra if mc_ra is None else numpy.asarray(mc_ra, dtype=float)
    mc_dec = dec if mc_dec is None else numpy.asarray(mc_dec, dtype=float)
    mx, my = standard_radec_to_xy(mc_ra, mc_dec, ra0, dec0)
    el.set_seed_columns(mc_energy, tag, pi.astype(float), mc_ra, mc_dec, mx, my, phi, phi)
    el.set_rec_columns(tag, pi.astype(float), energy, ra, dec, x, y, z if detx is None else numpy.asarray(detx, dtype=float),
                       z if dety is None else numpy.asarray(dety, dtype=float))
    if w is not None:
        el.set_weights(numpy.asarray(w, dtype=float))
    return el


def write_event_list(el, path, gtis, tstart, tstop, nsrc=1, ra0=30., dec0=45., du_id=1, deadtime=0.,
                     irfname='ixpe:obssim20240101:v13', **over):
    kw = obssim_kwargs(outfile=path, irfname=irfname, start_met=tstart, duration=tstop - tstart, stop_met=tstop,
                       gti_list=xGTIList(tstart, tstop, *gtis), deadtime=deadtime, timelinedata=False, scdata=False,
                       onorbitcalib=False, charging=False, objname='synthetic')
    kw.update(over)
    el.write_fits('verif', FakeRoi(ra0, dec0, nsrc), FakeIrf(du_id, irfname), **kw)
    return path


def write_event_file(path, time, gtis=None, tstart=None, tstop=None, deadtime=0., du_id=1, ra0=30., dec0=45.,
                     irfname='ixpe:obssim20240101:v13', **cols):
    time = numpy.asarray(time, dtype=float)
    tstart = float(time.min()) if tstart is None else tstart
    tstop = float(time.max()) if tstop is None else tstop
    gtis = gtis or [(tstart, tstop)]
    el = make_event_list(time, ra0=ra0, dec0=dec0, **cols)
    src = cols.get('src', 0)
    nsrc = 1 if numpy.isscalar(src) else int(numpy.max(src)) + 1
    return write_event_list(el, path, gtis, tstart, tstop, nsrc, ra0, dec0, du_id, deadtime, irfname)
