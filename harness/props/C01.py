"""C01 — simulated photoelectron angles encode the model polarization (DESIGN.md section 7, C01)."""
import os
import math
import numpy

import corr_gen
import rngtap
from common import out, rng, scratch

GEN = ['az_pdf', 'az_cdf', 'az_rvs_phi', 'stokes_q', 'stokes_u']
TRUSTED = ['Lean 4.33 kernel + Mathlib (measure theory for the two integrals)', 'axioms: propext, Classical.choice, Quot.sound', 'translator (validated every run)',
           'the numerically inverted 200 × 200 ppf table (FITPACK) is not modelled: its inversion accuracy ε is measured on the real generator on every run and is the hypothesis of '
           'az_sampling_law (partial)', 'numpy.random uniformity', 'deterministic midpoint pushes of u through the real sampler instead of random samples; the file-level closure uses a fixed seed and a 6.5σ band']
EPS_MAX = 2e-4
BIAS_MAX = 1e-3


def o_table(a):
    """ε = sup |cdf(ppf(u, m), m) − u| on the real generator; monotone in u; range"""
    from ixpeobssim.irf.modf import xAzimuthalResponseGenerator
    gen = xAzimuthalResponseGenerator()
    u = numpy.linspace(0., 1., a['nu'])
    worst = 0.
    for m in numpy.linspace(0., 1., a['nm']):
        mm = numpy.full(u.shape, m)
        phi = gen.ppf(u, mm)
        e = float(numpy.abs(gen.cdf(phi, mm) - u).max())
        worst = max(worst, e)
        if (numpy.diff(phi) < -1e-12).any() or phi.min() < -math.pi - 1e-9 or phi.max() > math.pi + 1e-9:
            return False, dict(m=float(m), error='ppf not monotone or out of [−π, π]')
    return worst <= EPS_MAX, dict(eps=worst, threshold=EPS_MAX)


_IRF = {}


def modf_for(irf, du):
    from ixpeobssim.irf import load_modf
    if (irf, du) not in _IRF:
        _IRF[(irf, du)] = load_modf(irf, du)
    return _IRF[(irf, du)]


def o_push(a):
    """midpoint grid of u through the real xModulationFactor.rvs_phi: data flow = fold(ppf(u, μ(E)·P), PA); Stokes means = m cos 2φ₀, m sin 2φ₀"""
    modf = modf_for(a['irf'], a['du'])
    n = a['n']
    u = (numpy.arange(n) + 0.5) / n
    E = numpy.full(n, a['energy'])
    P = a['pd'] if a.get('pd_scalar') else numpy.full(n, a['pd'], dtype=(int if a.get('pd_int') else float))
    P0 = numpy.array(P, copy=True)
    tap = rngtap.Tap(); tap.feed(u)
    with rngtap.intercept(tap):
        phi = modf.rvs_phi(E, P, a['pa'])
    # the caller's degree array is left as it was, so that a second draw with the same arrays (another DU, another realisation) is the same draw
    untouched = bool(numpy.array_equal(P0, P))
    tap = rngtap.Tap(); tap.feed(u)
    with rngtap.intercept(tap):
        phi2 = modf.rvs_phi(E, P, a['pa'])
    repeat = bool(numpy.array_equal(phi, phi2))
    mu = float(modf(numpy.array([a['energy']]))[0])
    m = mu * float(a['pd'])
    exp = numpy.mod(modf.generator.ppf(u, numpy.full(n, m)) + a['pa'], 2 * math.pi) - math.pi
    flow = bool(numpy.array_equal(phi, exp))
    q, uu = float(numpy.mean(2 * numpy.cos(2 * phi))), float(numpy.mean(2 * numpy.sin(2 * phi)))
    bq, bu = q - m * math.cos(2 * a['pa']), uu - m * math.sin(2 * a['pa'])
    inrange = bool((phi >= -math.pi - 1e-12).all() and (phi <= math.pi + 1e-12).all())
    # shape: 64-bin histogram against the analytic cdf with phase
    edges = numpy.linspace(-math.pi, math.pi, 65)
    h = numpy.histogram(phi, bins=edges)[0] / n
    cdf = lambda x: 0.5 + (x + 0.5 * m * numpy.sin(2 * (x - a['pa'])) + 0.5 * m * math.sin(2 * (a['pa'] + math.pi)) * 0) / (2 * math.pi)
    # cumulative of (1 + m cos 2(φ − φ₀))/2π from −π: (φ + π)/2π + m [sin 2(φ − φ₀) − sin 2(−π − φ₀)]/4π
    F = lambda x: (x + math.pi) / (2 * math.pi) + m * (numpy.sin(2 * (x - a['pa'])) - math.sin(2 * (-math.pi - a['pa']))) / (4 * math.pi)
    dev = float(numpy.abs(h - numpy.diff(F(edges))).max())
    # closure through the package's own Stokes machinery, noise-free: the angles of the midpoint grid analysed with the responses of the same set
    # give back the input degree and angle (modulo 180°) at every energy of the response band
    closure = dict(pd=None, pa=None)
    close_ok = True
    if a.get('analysis') and float(a['pd']) > 0. and mu > 0.:
        from ixpeobssim.evt.kislat2015 import xStokesAnalysis
        from ixpeobssim.irf import load_arf
        aeff = _IRF.setdefault(('arf', a['irf'], a['du']), load_arf(a['irf'], a['du']))
        ana = xStokesAnalysis(2. * numpy.cos(2. * phi), 2. * numpy.sin(2. * phi), E.copy(), modf, aeff, 1000., acceptcorr=False)
        row = ana.polarization_table(numpy.array([a['energy'] - 0.05, a['energy'] + 0.05]), degrees=False)
        closure = dict(pd=float(row['PD'][0]), pa=float(row['PA'][0]), counts=float(row['COUNTS'][0]))
        dpa = (closure['pa'] - a['pa'] + math.pi / 2) % math.pi - math.pi / 2
        close_ok = abs(closure['pd'] - float(a['pd'])) < 2e-3 + 2 * BIAS_MAX / mu and (abs(dpa) < 2e-3 + BIAS_MAX / m) and closure['counts'] == n
    ok = flow and inrange and abs(bq) < BIAS_MAX and abs(bu) < BIAS_MAX and dev < 1.5e-3 and 0. <= mu <= 1. and untouched and repeat and close_ok
    return ok, dict(analysis_closure=closure, data_flow_exact=flow, m=m, mu=mu, bias_q=bq, bias_u=bu, hist_dev=dev, in_range=inrange, input_degree_array_untouched=untouched, second_call_identical=repeat)


def o_component(a):
    """a model component hands per-event polarization (constant / energy- / time- / position-dependent) to the sampler: mean Stokes = ⟨μ(E)P cos 2PA⟩"""
    from ixpeobssim.srcmodel.roi import xPointSource
    from ixpeobssim.srcmodel.spectrum import power_law
    from ixpeobssim.srcmodel.polarization import constant
    modf = modf_for(a['irf'], a['du'])
    n = a['n']
    g = numpy.random.default_rng(a['seed'])
    E = g.uniform(2., 8., n)
    t = g.uniform(0., 1000., n)
    ra, dec = numpy.full(n, 30.), numpy.full(n, 45.)
    kind = a['kind']
    if kind == 'const':
        pd, pa = constant(a['pd']), constant(a['pa'])
    elif kind == 'const_int':
        pd, pa = constant(1), constant(a['pa'])          # an integer-valued constant degree
    elif kind == 'energy':
        pd, pa = (lambda E_, t_=None, ra_=None, dec_=None: 0.1 + 0.08 * E_), (lambda E_, t_=None, ra_=None, dec_=None: 0.2 * E_ - 0.5)
    elif kind == 'time':
        pd, pa = (lambda E_, t_=None, ra_=None, dec_=None: 0.2 + 0.6 * t_ / 1000.), (lambda E_, t_=None, ra_=None, dec_=None: -1. + 2. * t_ / 1000.)
    elif kind == 'clip':          # exactly zero below 3 keV, rising above: some events unpolarized, the others not
        pd, pa = (lambda E_, t_=None, ra_=None, dec_=None: numpy.clip(0.15 * (E_ - 3.), 0., 1.)), constant(a['pa'])
    elif kind == 'step_time':     # unpolarized first half, polarized second half
        pd, pa = (lambda E_, t_=None, ra_=None, dec_=None: numpy.where(t_ < 500., 0., 0.7)), constant(a['pa'])
    elif kind == 'zero':
        pd, pa = constant(0.), constant(a['pa'])
    else:
        raise ValueError(kind)
    src = xPointSource('p', 30., 45., power_law(1., 2.), pd, pa)
    u = g.permutation((numpy.arange(n) + 0.5) / n)
    tap = rngtap.Tap(); tap.feed(u)
    with rngtap.intercept(tap):
        phi = src._rvs_phi(modf, E, t, ra, dec)
    P = numpy.broadcast_to(numpy.asarray(pd(E, t, ra, dec), dtype=float), (n,))
    A = numpy.broadcast_to(numpy.asarray(pa(E, t, ra, dec), dtype=float), (n,))
    m = modf(E) * P
    eq, eu = float(numpy.mean(m * numpy.cos(2 * A))), float(numpy.mean(m * numpy.sin(2 * A)))
    q, uu = float(numpy.mean(2 * numpy.cos(2 * phi))), float(numpy.mean(2 * numpy.sin(2 * phi)))
    # u is a permutation of a midpoint grid, but it is paired with random (E, t): the residual is statistical, ~ sqrt(2/n)
    tol = 6.5 * math.sqrt(2. / n)
    return abs(q - eq) < tol and abs(uu - eu) < tol, dict(mean_q=q, expected_q=eq, mean_u=uu, expected_u=eu, tolerance=tol)


def o_periodic(a):
    """a periodic source whose polarization depends on the pulse phase: in every phase bin the mean event Stokes parameters are
    ⟨μ(E) P(phase) cos 2PA(phase)⟩ evaluated at the fold of the event times (so the models must be evaluated at the phase, not at the time)"""
    import simdrive
    from ixpeobssim.irf import load_irf_set
    from ixpeobssim.srcmodel import import_roi
    from ixpeobssim.srcmodel.roi import xPeriodicPointSource
    cfg = simdrive.config_path('toy_periodic_source.py')
    roi = import_roi(cfg)
    src = [s for s in roi.values() if isinstance(s, xPeriodicPointSource)][0]
    src.polarization_degree = lambda E, ph, ra=None, dec=None: 0.5 + 0.4 * numpy.cos(2 * numpy.pi * ph) + 0. * E
    src.polarization_angle = lambda E, ph, ra=None, dec=None: numpy.radians(30. + 40. * numpy.sin(2 * numpy.pi * ph)) + 0. * E
    start = a['start']
    kwargs = simdrive.sim_kwargs(cfg, 'unused.fits', gtis=[(start, start + 0.4 * a['T']), (start + 0.5 * a['T'], start + a['T'])], start_met=start, duration=a['T'])
    irf_set = load_irf_set(kwargs['irfname'], a['du'])
    numpy.random.seed(a['seed'])
    el = src._rvs_seed_event_list(roi, irf_set, **kwargs)
    t = numpy.array(el.time(), dtype=float)
    phi = numpy.array(el['PHI'], dtype=float)
    E = numpy.array(el['MC_ENERGY'], dtype=float)
    ph = src.ephemeris.fold(t, start)
    m = irf_set.modf(E) * src.polarization_degree(E, ph)
    A = src.polarization_angle(E, ph)
    worst, bad = 0., []
    for b in range(8):
        k = (ph >= b / 8.) & (ph < (b + 1) / 8.)
        n = int(k.sum())
        if n < 200:
            continue
        tol = 6.5 * math.sqrt(2. / n)
        dq = abs(float(numpy.mean(2 * numpy.cos(2 * phi[k]))) - float(numpy.mean(m[k] * numpy.cos(2 * A[k]))))
        du_ = abs(float(numpy.mean(2 * numpy.sin(2 * phi[k]))) - float(numpy.mean(m[k] * numpy.sin(2 * A[k]))))
        worst = max(worst, dq / tol, du_ / tol)
        if dq > tol or du_ > tol:
            bad.append(dict(phase_bin=b, events=n, dq=dq, du=du_, tolerance=tol))
    return not bad and len(t) > 2000, dict(events=len(t), worst_over_tolerance=worst, bins_off=bad[:3])


def o_file(a):
    """closure through the package's own analysis: simulate, bin a polarization cube, compare PD/PA with the input model; Q, U columns"""
    import simdrive
    from astropy.io import fits
    from ixpeobssim.bin.xpbin import xpbin, PARSER
    from ixpeobssim.srcmodel import import_roi
    with scratch() as d:
        path = os.path.join(d, 'sim.fits')
        cfg = simdrive.config_path('toy_point_source.py')
        roi = import_roi(cfg)
        src = list(roi.values())[0]
        band = a.get('band')          # an energy window of the simulation other than the default: the closure must hold wherever the response is defined
        if a.get('pd') is not None:
            from ixpeobssim.srcmodel.polarization import constant
            src.polarization_degree = constant(a['pd'])
        irf = a.get('irf')            # a response set other than the default: the file records it (IRFNAME) and the analysis, left to its defaults, uses that one
        simdrive.simulate(cfg, path, du_id=a['du'], seed=a['seed'], roi_model=roi, duration=a['duration'], **(dict(emin=band[0], emax=band[1]) if band else {}),
                          **(dict(irfname=irf) if irf else {}), **(dict(lv1a=True) if a.get('lv1a') else {}))
        with fits.open(path) as h:
            ev = h['EVENTS'].data
            phi, q, u = (numpy.array(ev[k], dtype=float) for k in ('PHI', 'Q', 'U'))
        o = xpbin(**PARSER.parse_args([path, '--overwrite', 'True', '--algorithm', 'PCUBE', '--ebins', '1'] + ([] if irf else ['--irfname', 'ixpe:obssim20240101:v13']) + (
            ['--mc', 'True', '--emin', repr(band[0]), '--emax', repr(band[1])] if band else [])).__dict__)[0]
        with fits.open(o) as h:
            r = h[1].data
            pd, pde, pa, pae = float(r['PD'][0]), float(r['PD_ERR'][0]), float(r['PA'][0]), float(r['PA_ERR'][0])
        eqp = []
        if a.get('eqp'):
            # the same closure bin by bin with equipopulated energy bins on a file already restricted to the band (every event inside the bounds)
            from ixpeobssim.bin.xpselect import xpselect, PARSER as SPARSER
            sel = xpselect(**SPARSER.parse_args([path, '--emin', '2.', '--emax', '8.', '--overwrite', 'True']).__dict__)[0]
            o2 = xpbin(**PARSER.parse_args([sel, '--overwrite', 'True', '--algorithm', 'PCUBE', '--ebinalg', 'EQP', '--ebins', '3', '--emin', '2.', '--emax', '8.'] + (
                [] if irf else ['--irfname', 'ixpe:obssim20240101:v13'])).__dict__)[0]
            with fits.open(o2) as h:
                r = h[1].data
                eqp = [(float(r['ENERG_LO'][i]), float(r['ENERG_HI'][i]), float(r['PD'][i]), float(r['PD_ERR'][i]), float(r['PA'][i]), float(r['PA_ERR'][i])) for i in range(len(r))]
    bad = []
    if numpy.abs(q - 2 * numpy.cos(2 * phi)).max() > 1e-5 or numpy.abs(u - 2 * numpy.sin(2 * phi)).max() > 1e-5:
        bad.append('Q, U columns are not 2cos 2PHI, 2 sin 2PHI')
    if phi.min() < -math.pi - 1e-6 or phi.max() > math.pi + 1e-6:
        bad.append('PHI outside [−π, π]')
    E = numpy.array([4. if not band else 0.5 * (band[0] + band[1])])
    pd0 = float(numpy.atleast_1d(src.polarization_degree(E, 0., 0., 0.))[0])
    pa0 = math.degrees(float(numpy.atleast_1d(src.polarization_angle(E, 0., 0., 0.))[0]))
    if abs(pd - pd0) > 6.5 * pde:
        bad.append('PD = %.4f ± %.4f, input %.4f' % (pd, pde, pd0))
    dpa = (pa - pa0 + 90.) % 180. - 90.
    if abs(dpa) > 6.5 * pae:
        bad.append('PA = %.2f ± %.2f deg, input %.2f' % (pa, pae, pa0))
    for lo, hi, pd_, pde_, pa_, pae_ in eqp:
        if abs(pd_ - pd0) > 6.5 * pde_ or abs((pa_ - pa0 + 90.) % 180. - 90.) > 6.5 * pae_:
            bad.append('equipopulated bin %.2f–%.2f keV: PD = %.4f ± %.4f, PA = %.2f ± %.2f deg, input %.4f, %.2f' % (lo, hi, pd_, pde_, pa_, pae_, pd0, pa0))
    return not bad, dict(violated=bad, PD=pd, PD_ERR=pde, PA=pa, PA_ERR=pae, input=[pd0, pa0], events=len(phi))


def o_multi(a):
    """two point sources whose polarization angle switches at mid-observation, simulated together, written, read back: in each half and for
    each source the mean event Stokes parameters are those of the model at the events' own times (rows stay whole through the merge and sort)"""
    import simdrive
    from astropy.io import fits
    from ixpeobssim.srcmodel.roi import xPointSource, xROIModel
    from ixpeobssim.srcmodel.spectrum import power_law
    from ixpeobssim.srcmodel.polarization import constant
    from ixpeobssim.irf import load_irf_set, DEFAULT_IRF_NAME
    T = a['T']
    pa1 = lambda E, t, ra=None, dec=None: numpy.where(numpy.asarray(t) < 0.5 * T, numpy.radians(30.), numpy.radians(120.)) + 0. * E
    pa2 = lambda E, t, ra=None, dec=None: numpy.where(numpy.asarray(t) < 0.5 * T, numpy.radians(-60.), numpy.radians(10.)) + 0. * E
    roi = xROIModel(30., 45.)
    roi.add_sources(xPointSource('s1', 30., 45., power_law(8., 2.), constant(0.6), pa1), xPointSource('s2', 30.02, 45.01, power_law(5., 2.), constant(0.5), pa2))
    irf_set = load_irf_set(DEFAULT_IRF_NAME, a['du'])
    bad, worst = [], 0.
    with scratch() as d:
        path = os.path.join(d, 'multi.fits')
        kwargs = simdrive.sim_kwargs(simdrive.config_path('toy_point_source.py'), path, gtis=[(0., 0.45 * T), (0.5 * T, T)], start_met=0., duration=T)
        numpy.random.seed(a['seed'])
        el = roi.rvs_event_list(irf_set, **kwargs)
        el.write_fits('verif', roi, irf_set, **kwargs)
        with fits.open(path) as h:
            ev, mc = h['EVENTS'].data, h['MONTE_CARLO'].data
            t, phi, E, src = (numpy.array(x, dtype=float) for x in (ev['TIME'], ev['PHI'], mc['MC_ENERGY'], mc['SRC_ID']))
    for sid, (pd, paf) in enumerate(((0.6, pa1), (0.5, pa2))):
        for half in (0, 1):
            k = (src == sid) & ((t < 0.5 * T) if half == 0 else (t >= 0.5 * T))
            n = int(k.sum())
            if n < 500:
                bad.append('source %d, half %d: only %d events' % (sid, half, n))
                continue
            m = irf_set.modf(E[k]) * pd
            A = paf(E[k], t[k])
            tol = 6.5 * math.sqrt(2. / n)
            dq = abs(float(numpy.mean(2 * numpy.cos(2 * phi[k]))) - float(numpy.mean(m * numpy.cos(2 * A))))
            du_ = abs(float(numpy.mean(2 * numpy.sin(2 * phi[k]))) - float(numpy.mean(m * numpy.sin(2 * A))))
            worst = max(worst, dq / tol, du_ / tol)
            if dq > tol or du_ > tol:
                bad.append('source %d, %s half (%d events): mean Stokes off by %.4f, %.4f (tolerance %.4f)' % (sid, ['first', 'second'][half], n, dq, du_, tol))
    return not bad, dict(violated=bad, worst_over_tolerance=worst, events=len(t))


def o_chandra(a):
    """the Chandra-to-IXPE converter (xChandraROIModel + xChandraObservation on the photon list shipped with the tests) with a polarization that
    changes with time: in each half of the run the mean event Stokes parameters are ⟨μ(E) P(t) cos 2PA(t)⟩ at the events' own times"""
    import simdrive
    from ixpeobssim import IXPEOBSSIM_TEST
    from ixpeobssim.evt.gti import xSimpleGTIList
    from ixpeobssim.irf import load_irf_set
    from ixpeobssim.srcmodel.roi import xChandraObservation, xChandraROIModel
    path = os.path.join(IXPEOBSSIM_TEST, 'data', 'cena.fits')
    if not os.path.isfile(path):
        return True, dict(skipped='no Chandra photon list at %s' % path)
    T, start = a['T'], a['start']
    half = start + 0.5 * T
    pdf = lambda E, t, ra=None, dec=None: numpy.where(numpy.asarray(t) < half, a['pd'][0], a['pd'][1]) + 0. * E
    paf = lambda E, t, ra=None, dec=None: numpy.where(numpy.asarray(t) < half, a['pa'][0], a['pa'][1]) + 0. * E
    roi = xChandraROIModel(path, acis='I')
    roi.add_source(xChandraObservation('Cen A', pdf, paf))
    kwargs = simdrive.sim_kwargs(simdrive.config_path('toy_point_source.py'), 'unused.fits', gtis=None, start_met=start, duration=T, irfname=a['irf'])
    kwargs['gti_list'] = xSimpleGTIList(start, start + T)
    irf_set = load_irf_set(a['irf'], a['du'])
    numpy.random.seed(a['seed'])
    el = roi.rvs_event_list(irf_set, **kwargs)
    t, phi, E = (numpy.array(el[k], dtype=float) for k in ('TIME', 'PHI', 'MC_ENERGY'))
    bad, worst = [], 0.
    for h in (0, 1):
        k = (t < half) if h == 0 else (t >= half)
        n = int(k.sum())
        if n < 500:
            bad.append('half %d: only %d events' % (h, n))
            continue
        m = irf_set.modf(E[k]) * pdf(E[k], t[k])
        A = paf(E[k], t[k])
        tol = 6.5 * math.sqrt(2. / n)
        dq = abs(float(numpy.mean(2 * numpy.cos(2 * phi[k]))) - float(numpy.mean(m * numpy.cos(2 * A))))
        du_ = abs(float(numpy.mean(2 * numpy.sin(2 * phi[k]))) - float(numpy.mean(m * numpy.sin(2 * A))))
        worst = max(worst, dq / tol, du_ / tol)
        if dq > tol or du_ > tol:
            bad.append('%s half (%d events): mean Stokes off by %.4f, %.4f (tolerance %.4f)' % (['first', 'second'][h], n, dq, du_, tol))
    return not bad, dict(violated=bad, worst_over_tolerance=worst, events=len(t))


ORACLES = dict(chandra=o_chandra, table=o_table, push=o_push, component=o_component, file=o_file, periodic=o_periodic, multi=o_multi)


def run_oracle(chk, name, a, nontrivial=True):
    chk.case(dict(oracle=name, args=a), nontrivial=nontrivial)
    try:
        ok, obs = ORACLES[name](a)
    except BaseException as e:
        ok, obs = False, dict(exception='%s: %s' % (type(e).__name__, e))
    if not ok:
        chk.fail('impl', 'C01 %s: %s (args %s)' % (name, obs, a), dict(oracle=name, args=a, observed=obs))
    return obs


def irf_names():
    from ixpeobssim.irf.caldb import irf_folder_path        # noqa
    names = ['ixpe:obssim20240101:v13', 'ixpe:obssim20240101_alpha075:v13', 'ixpe:obssim:v12', 'ixpe:obssim20230702:v13']
    return names


def explore(chk, budget=1):
    g = rng('C01-%d' % budget)
    quick = chk.tier == 'quick'
    obs = run_oracle(chk, 'table', dict(nu=2001 if not quick else 801, nm=401 if not quick else 101))
    chk.extra['measured_eps'] = obs.get('eps')
    names = irf_names()
    for i in range((24 if quick else 400) * budget):
        irf = names[int(g.integers(0, len(names)))]
        du = int(g.integers(1, 4))
        pd = float(g.choice([1., 0., g.uniform(0, 1)], p=[0.15, 0.1, 0.75]))
        a = dict(irf=irf, du=du, energy=float(g.uniform(1.2, 11.5)), pd=pd, pa=float(g.uniform(-math.pi, math.pi)), n=100000 if quick else 200000)
        if i % 6 == 0:
            a.update(pd=1, pd_int=True)             # an integer-typed degree reaching the sampler
        if i % 6 == 3:
            a.update(pd=1, pd_scalar=True)
        if i % 3 == 1:
            # analysed with the package's own Stokes machinery; the low end of the band, where the modulation factor is a few per cent, included
            a.update(analysis=True, energy=float(g.choice([g.uniform(1.05, 1.6), g.uniform(1.6, 11.5)])))
        run_oracle(chk, 'push', a, nontrivial=pd not in (0.,))
    for kind in ('const', 'const_int', 'energy', 'time', 'clip', 'step_time', 'zero'):
        run_oracle(chk, 'component', dict(kind=kind, irf=names[0], du=int(g.integers(1, 4)), pd=float(g.uniform(0.2, 0.9)), pa=float(g.uniform(-1.5, 1.5)), n=200000,
                                          seed=int(g.integers(1, 10 ** 6))), nontrivial=kind != 'const')
    run_oracle(chk, 'periodic', dict(start=float(g.choice([0., 1.2e8])), T=20000., du=int(g.integers(1, 4)), seed=int(g.integers(1, 10 ** 6))))
    run_oracle(chk, 'chandra', dict(T=2000000., start=float(g.choice([0., 1.5e8])), du=int(g.integers(1, 4)), seed=int(g.integers(1, 10 ** 6)), irf=names[0],
                                    pd=[float(g.uniform(0.4, 0.9)), float(g.uniform(0.1, 0.4))], pa=[float(g.uniform(-1.5, 0.)), float(g.uniform(0., 1.5))]))
    run_oracle(chk, 'multi', dict(T=3000., du=int(g.integers(1, 4)), seed=int(g.integers(1, 10 ** 6))))
    run_oracle(chk, 'file', dict(du=int(g.integers(1, 4)), seed=int(g.integers(1, 10 ** 6)), duration=1500. if quick else 6000.))
    for irf in (names[1:2] if quick else names[1:]):
        run_oracle(chk, 'file', dict(du=int(g.integers(1, 4)), seed=int(g.integers(1, 10 ** 6)), duration=3000. if quick else 6000., irf=irf, pd=float(g.uniform(0.5, 0.9)), eqp=True))
    run_oracle(chk, 'file', dict(du=int(g.integers(1, 4)), seed=int(g.integers(1, 10 ** 6)), duration=1500., pd=float(g.uniform(0.5, 0.9)), lv1a=True))       # pseudo-Lv1a files carry the same Q, U


def main(chk):
    chk.rule = ('generated pdf/cdf/fold/Stokes formulas vs Python; ε of the real ppf table on a (u, m) grid; 10⁵-point midpoint grids of u pushed through the real '
                'xModulationFactor.rvs_phi (RNG intercepted) for random (energy, degree, angle) over four IRF sets × DU: exact data flow fold(ppf(u, μP), PA), Stokes means vs m cos 2φ₀ / '
                'm sin 2φ₀, 64-bin histogram vs the analytic law, integer-typed and scalar degrees; model components with constant / integer / energy- / time-dependent polarization; '
                'one simulate → PCUBE closure with a 6.5σ band. non-trivial = non-zero degree, model with a real dependence')
    chk.assumptions = TRUSTED
    chk.lean(['IxpeVerif.Props.C01', 'IxpeVerif.Props.Audit.C01'], GEN)
    corr_gen.run(chk, GEN, n=200 if chk.tier == 'quick' else 3000, tag='C01')
    explore(chk)
    return chk.finish(level='proof', trusted=TRUSTED, search=lambda k: explore(chk, 3))


def replay(body):
    r = body['replay']
    if r.get('oracle') in ORACLES:
        ok, obs = ORACLES[r['oracle']](r['args'])
        out('oracle %s on the recorded input: %s %s' % (r['oracle'], 'holds' if ok else 'FAILS', obs))
        return 0 if ok else 1
    import sys
    import common
    return common.replay_rerun(sys.modules[__name__], body)
