"""C02 — polarization cubes implement the Kislat et al. (2015) estimator (DESIGN.md section 7, C02)."""
import os
import math
import numpy

from common import out, rng, Driver, scratch, f2b, b2f

TRUSTED = ['Lean 4.33 kernel + Mathlib', 'axioms: propext, Classical.choice, Quot.sound',
           'hand-written model Kislat.* (RealLike) tied by correspondence on Float: static methods at 1e-11 relative, event level 1e-9 (numpy sums pairwise, the model folds left)',
           'SIGNIF = scipy.stats.norm.ppf(0.5·CONFID + 0.5) is an external function applied on the harness side',
           'the response functions enter as per-event values (FITPACK spline evaluation abstract)', 'float rounding outside the model; FITS columns are float32']
COLS = ['E_MEAN', 'MU', 'W2', 'N_EFF', 'MDP_99', 'I', 'I_ERR', 'Q', 'Q_ERR', 'U', 'U_ERR', 'QN', 'QN_ERR', 'UN', 'UN_ERR', 'QUN_COV',
        'PD', 'PD_ERR', 'PA', 'PA_ERR', 'P_VALUE', 'CONFID']


def close(a, b, rtol, atol=1e-13):
    if math.isnan(a) or math.isnan(b):
        return math.isnan(a) and math.isnan(b)
    if a == b:
        return True
    return abs(a - b) <= atol + rtol * max(abs(a), abs(b))


# ------------------------------------------------------------------ (a) static methods on bins
def gen_bin(g):
    kind = g.choice(['real', 'empty', 'single', 'identical', 'unpol', 'mu0', 'degenerate', 'random', 'axis'], p=[0.30, 0.08, 0.08, 0.08, 0.08, 0.08, 0.12, 0.10, 0.08])
    if kind == 'axis':            # polarization exactly along a Stokes axis: U = 0 with Q of either sign (PA = 0 or ±90 deg), Q = 0 with U of either sign (±45 deg)
        n = float(g.integers(2, 10 ** 5)); mu = g.uniform(0.05, 0.7); x = n * g.uniform(0.01, 1.)
        Q, U = [(x, 0.), (-x, 0.), (0., x), (0., -x), (-x, -0.)][int(g.integers(0, 5))]
        return n, Q, U, mu, n
    if kind == 'real':
        n = float(g.integers(2, 10 ** 6)); w = g.uniform(0.2, 1.)
        I = n * w; W2 = n * w * w * g.uniform(1., 1.3); mu = g.uniform(0.05, 0.7); pd = g.uniform(0, 1.2); a = g.uniform(-math.pi, math.pi)
        return I, I * pd * math.cos(a), I * pd * math.sin(a), mu, W2
    if kind == 'empty':
        return 0., 0., 0., float(g.choice([float('nan'), 0.3])), 0.
    if kind == 'single':
        a = g.uniform(-math.pi, math.pi); mu = g.uniform(0.1, 0.6)
        return 1., 2 * math.cos(a) / mu, 2 * math.sin(a) / mu, mu, 1.
    if kind == 'identical':
        k = float(g.integers(2, 5)); a = g.uniform(-math.pi, math.pi); mu = g.uniform(0.1, 0.6)
        return k, k * 2 * math.cos(a) / mu, k * 2 * math.sin(a) / mu, mu, k
    if kind == 'unpol':
        k = float(g.integers(2, 50))
        return k, 0., 0., g.uniform(0.1, 0.6), k
    if kind == 'mu0':
        k = float(g.integers(2, 50))
        return k, g.normal(), g.normal(), 0., k
    if kind == 'degenerate':      # I > 1 but (PD·mu)^2 >= 2
        k = float(g.integers(2, 6)); mu = g.uniform(0.5, 1.); pd = g.uniform(1.5, 4.) / mu; a = g.uniform(-math.pi, math.pi)
        return k, k * pd * math.cos(a), k * pd * math.sin(a), mu, k
    return g.uniform(0, 5), g.normal(0, 3), g.normal(0, 3), g.uniform(0, 1), g.uniform(0.01, 5)


def impl_bin(I, Q, U, mu, W2):
    from ixpeobssim.evt.kislat2015 import xStokesAnalysis as SA
    a = lambda x: numpy.array([x], dtype=float)
    e = SA.calculate_stokes_errors(a(I), a(Q), a(U), a(mu), a(W2))
    p = SA.calculate_polarization(a(I), a(Q), a(U), a(mu), a(W2), degrees=True)
    m = SA.calculate_mdp99(a(mu), a(I), a(W2))
    ne, _ = SA.calculate_n_eff(a(max(I, 1.)), a(I), a(W2))
    vals = [float(x[0]) for x in e[:10]] + [float(x[0]) for x in p] + [float(m[0]), float(ne[0])]
    return vals, float(e[10][0])


def statement_bin(I, Q, U, mu, W2, vals):
    """Ranges the statement promises for a bin with at least one event; defaults for an empty one."""
    names = ['QN', 'UN', 'dI', 'dQ', 'dU', 'dQN', 'dUN', 'cov', 'pval', 'conf', 'PD', 'PD_ERR', 'PA', 'PA_ERR', 'MDP', 'NEFF']
    v = dict(zip(names, vals))
    bad = []
    # μ = 0 with finite Q, U cannot come out of the constructor (it divides the event Stokes parameters by μ(E)): the bin
    # model is still compared there, but the finiteness clause of the statement is about bins inside the response band (μ > 0)
    if I > 0 and mu > 0:
        if not all(math.isfinite(x) for x in vals):
            bad.append('non-finite output')
        if v['PD'] < 0 or abs(v['PA']) > 90 + 1e-9 or not (0 <= v['MDP'] <= 1) or min(v['PD_ERR'], v['PA_ERR'], v['dI'], v['dQ'], v['dU'], v['dQN'], v['dUN']) < 0:
            bad.append('range')
        # the published point estimates (Kislat 2015 eqs. 21, 22 with the normalised parameters): PD = hypot(Q, U)/I, PA = atan2(U, Q)/2
        if (Q != 0 or U != 0) and math.isfinite(v['PD']) and v['PD'] > 0:
            pd = math.hypot(Q, U) / I
            pa = 0.5 * math.degrees(math.atan2(U, Q))
            if abs(v['PD'] - pd) > 1e-9 * max(1., pd):
                bad.append('PD = %r, published formula %r' % (v['PD'], pd))
            d = abs(v['PA'] - pa) % 180.
            if v['PD_ERR'] > 0 and min(d, 180. - d) > 1e-9:          # the angle is only filled for the bins passing the code's masks (the errors are non-zero there)
                bad.append('PA = %r deg, published formula %r deg' % (v['PA'], pa))
    if I == 0:
        if not (v['PD'] == 0 and v['PA'] == 0 and v['MDP'] == 1 and v['QN'] == 0 and v['UN'] == 0):
            bad.append('empty bin defaults')
    return bad


def run_bins(chk, n, tagname):
    g = rng(tagname)
    drv = Driver()
    jobs = []
    for _ in range(n):
        b = tuple(float(x) for x in gen_bin(g))
        drv.ask('kbin %s' % ' '.join(str(f2b(x)) for x in b))
        jobs.append(b)
        # the definitions the translator regenerates from the source (T-tie), on the same bin
        I_, Q_, U_, mu_, W2_ = (str(f2b(x)) for x in b)
        drv.ask('gen calculate_stokes_errors 5 %s %s %s %s %s 0' % (I_, Q_, U_, mu_, W2_))
        drv.ask('gen calculate_polarization 5 %s %s %s %s %s 1 1' % (I_, Q_, U_, mu_, W2_))
        drv.ask('gen calculate_mdp99 3 %s %s %s 1 1' % (mu_, I_, W2_))
        drv.ask('gen calculate_n_eff 3 %s %s %s 0' % (str(f2b(max(b[0], 1.))), I_, W2_))
    allrep = drv.run()
    replies = allrep[0::5]
    genrep = [allrep[5 * i + 1:5 * i + 5] for i in range(len(jobs))]
    for b, rep, grep_ in zip(jobs, replies, genrep):
        I, Q, U, mu, W2 = b
        nontriv = I > 1 and (Q != 0 or U != 0)
        chk.case(dict(op='bin', I=I, Q=Q, U=U, mu=mu, W2=W2), nontrivial=nontriv)
        try:
            impl, sig = impl_bin(*b)
        except BaseException as e:
            chk.fail('impl', 'xStokesAnalysis static methods raised %s: %s on I=%r Q=%r U=%r mu=%r W2=%r' % (type(e).__name__, e, I, Q, U, mu, W2),
                     dict(oracle='bin', args=b, error=str(e)))
            continue
        bad = statement_bin(I, Q, U, mu, W2, impl)
        if bad:
            chk.fail('impl', 'bin I=%r Q=%r U=%r mu=%r W2=%r: %s (outputs %s)' % (I, Q, U, mu, W2, bad, impl), dict(oracle='bin', args=b, violated=bad))
            continue
        if any(r == 'bad-op' for r in grep_):
            chk.fail('correspondence', 'driver rejected a generated Kislat function (signature changed?)', dict(op='gen-kislat', args=b))
        else:
            gvals = [b2f(x) for x in grep_[0].split()] + [b2f(x) for x in grep_[1].split()] + [b2f(grep_[2].split()[0]), b2f(grep_[3].split()[0])]
            for k, (x, y) in enumerate(zip(gvals, impl)):
                if not close(x, y, 1e-11, 1e-13):
                    chk.fail('correspondence', 'generated definition, output #%d: Lean %r vs implementation %r on I=%r Q=%r U=%r mu=%r W2=%r' % (k, x, y, I, Q, U, mu, W2),
                             dict(op='gen-kislat', args=b, index=k, model=x, impl=y))
                    break
        model = [b2f(x) for x in rep.split()]
        for k, (x, y) in enumerate(zip(model, impl)):
            if not close(x, y, 1e-11, 1e-13):
                chk.fail('correspondence', 'per-bin output #%d: model %r vs implementation %r on I=%r Q=%r U=%r mu=%r W2=%r' % (k, x, y, I, Q, U, mu, W2),
                         dict(op='kbin', args=b, index=k, model=x, impl=y))
                break


# ------------------------------------------------------------------ (b) event level with explicit response values
def run_events(chk, n, tagname):
    from ixpeobssim.evt.kislat2015 import xStokesAnalysis as SA
    import scipy.stats
    g = rng(tagname)
    drv = Driver()
    jobs = []
    for _ in range(n):
        k = int(g.choice([0, 1, 2, 3, 10, 60, 300]))
        e = numpy.round(g.uniform(1.5, 9., k), 3)
        if k > 4:
            e[:3] = [2., 4., 8.]               # energies exactly on the bin edges
            if g.uniform() < 0.6:
                e[3] = 15.5                    # outside 0–15 keV: filtered by the constructor (otherwise nothing is filtered)
            if g.uniform() < 0.5:
                e[4] = float(g.choice([0.4, 13.7]))    # inside 0–15 keV but outside the 1–12 keV band of the responses: kept, and used as it is
        phi = g.uniform(-math.pi, math.pi, k)
        if k in (2, 3) and g.uniform() < 0.5:
            phi[:] = phi[0]                    # identical events
        usew, acc = bool(g.integers(0, 2)), bool(g.integers(0, 2))
        w = g.uniform(0.05, 1., k)
        modf = lambda E: 0.1 + 0.05 * numpy.asarray(E)
        aeff = lambda E: 20. + 3. * numpy.asarray(E) ** 2
        q, u = SA.stokes_q(phi), SA.stokes_u(phi, None)       # as xpbin does: the Q, U columns are unweighted, the weights go in separately
        edges = [2., 4., 8.] if g.uniform() < 0.7 else [0.1, 4., 14.]
        # the caller's arrays are handed over as they are (xpbin hands over the columns of the open event file): an analysis must not
        # change them, and a second analysis of the same arrays must give the same table
        q_in, u_in, e_in, w_in = q.copy(), u.copy(), e.copy(), w.copy()
        an = SA(q_in, u_in, e_in, modf, aeff, 1000., w_in if usew else None, acc)
        try:
            tab = an.polarization_table(numpy.array(edges), degrees=True)
            if not (numpy.array_equal(q_in, q) and numpy.array_equal(u_in, u) and numpy.array_equal(e_in, e) and numpy.array_equal(w_in, w)):
                changed = [nm for nm, a_, b_ in (('q', q_in, q), ('u', u_in, u), ('energy', e_in, e), ('weights', w_in, w)) if not numpy.array_equal(a_, b_)]
                chk.fail('impl', 'xStokesAnalysis (events %d, weights %s, acceptcorr %s) modified the caller\'s %s array(s) in place' % (k, usew, acc, changed),
                         dict(oracle='events-aliasing', phi=phi.tolist(), energy=e.tolist(), w=w.tolist(), weights=usew, acceptcorr=acc, changed=changed))
            tab2 = SA(q_in, u_in, e_in, modf, aeff, 1000., w_in if usew else None, acc).polarization_table(numpy.array(edges), degrees=True)
            for c in COLS:
                a_, b_ = numpy.array(tab[c], dtype=float), numpy.array(tab2[c], dtype=float)
                if not numpy.array_equal(a_, b_, equal_nan=True):
                    chk.fail('impl', 'a second analysis of the same arrays gives a different %s: %s vs %s (events %d, weights %s, acceptcorr %s)' % (c, b_, a_, k, usew, acc),
                             dict(oracle='events-twice', column=c, phi=phi.tolist(), energy=e.tolist(), w=w.tolist(), weights=usew, acceptcorr=acc))
                    break
        except BaseException as ex:
            chk.case(dict(op='events', n=k), nontrivial=True)
            chk.fail('impl', 'polarization_table raised %s: %s (events %d, weights %s, acceptcorr %s)' % (type(ex).__name__, ex, k, usew, acc),
                     dict(oracle='events', phi=phi.tolist(), energy=e.tolist(), w=w.tolist(), weights=usew, acceptcorr=acc, error=str(ex)))
            continue
        # the model gets the *unweighted* event Stokes parameters and the weight separately, exactly as the constructor combines them
        q0, u0 = SA.stokes_q(phi), SA.stokes_u(phi, None)
        flat = []
        for i in range(k):
            flat += [f2b(q0[i]), f2b(u0[i]), f2b(e[i]), f2b(w[i]), f2b(float(modf(e[i]))), f2b(float(aeff(e[i])))]
        for j in range(2):
            drv.ask('krow %d %d %d %d %d %s' % (usew, acc, f2b(edges[j]), f2b(edges[j + 1]), len(flat), ' '.join(map(str, flat))))
            drv.ask('garow %d %d %d %d %d %s' % (usew, acc, f2b(edges[j]), f2b(edges[j + 1]), len(flat), ' '.join(map(str, flat))))
            jobs.append((dict(n=k, weights=usew, acceptcorr=acc, bin=j, phi=phi.tolist(), energy=e.tolist(), w=w.tolist()), tab[j]))
    replies = drv.run()
    for (desc, row), rep, grep_ in zip(jobs, replies[0::2], replies[1::2]):
        wds = rep.split()
        counts = int(wds[0])
        # the row regenerated from the vectorised source (constructor → reductions → row), in the order of the table's own columns
        gen = dict(zip(row.colnames, [b2f(x) for x in grep_.split()]))
        for c in row.colnames:
            if c == 'SIGNIF' or (int(row['COUNTS']) == 0 and c in ('E_MEAN', 'MU')):
                continue
            if len(gen) != len(row.colnames) or not close(gen[c], float(row[c]), 1e-8, 1e-10):
                chk.fail('correspondence', 'column %s: generated analysis %r vs implementation %r (%s)' % (c, gen.get(c), float(row[c]), {k: desc[k] for k in ('n', 'weights', 'acceptcorr', 'bin')}),
                         dict(op='garow', column=c, generated=gen.get(c), impl=float(row[c]), **desc))
                break
        model = dict(zip(COLS, [b2f(x) for x in wds[1:]]))
        chk.case(dict(op='events', **{k: v for k, v in desc.items() if k in ('n', 'weights', 'acceptcorr', 'bin')}, counts=counts), nontrivial=counts >= 3)
        if counts != int(row['COUNTS']):
            chk.fail('correspondence', 'COUNTS: model %d vs implementation %d (%s)' % (counts, row['COUNTS'], {k: desc[k] for k in ('n', 'weights', 'acceptcorr', 'bin')}),
                     dict(op='krow', **desc))
            continue
        for c in COLS:
            x, y = model[c], float(row[c])
            if counts == 0 and c in ('E_MEAN', 'MU'):
                continue        # 0/0 in both
            if not close(x, y, 1e-8, 1e-10):
                chk.fail('correspondence', 'column %s: model %r vs implementation %r (%s)' % (c, x, y, {k: desc[k] for k in ('n', 'weights', 'acceptcorr', 'bin')}),
                         dict(op='krow', column=c, model=x, impl=y, **desc))
                break
        # FRAC_W and SIGNIF: derived on the harness side from modelled columns
        if counts > 0 and not close(model['N_EFF'] / counts, float(row['FRAC_W']), 1e-8):
            chk.fail('impl', 'FRAC_W %r is not N_EFF/COUNTS %r' % (row['FRAC_W'], model['N_EFF'] / counts), dict(oracle='fracw', **desc))
        if model['CONFID'] >= 0:
            s = scipy.stats.norm.ppf(0.5 * model['CONFID'] + 0.5)
            if math.isfinite(s) and not close(s, float(row['SIGNIF']), 1e-6, 1e-8):
                chk.fail('impl', 'SIGNIF %r is not norm.ppf(0.5·CONFID+0.5) = %r' % (row['SIGNIF'], s), dict(oracle='signif', **desc))


# ------------------------------------------------------------------ (c) file level: real xpbin PCUBE against the published formulae
def published(q, u, e, w, mu, aeff, acceptcorr, emin, emax):
    """Kislat et al. (2015) with the package conventions, written independently with numpy."""
    keep = (e >= 0) & (e <= 15.)
    q, u, e, w, mu, aeff = (x[keep] for x in (q, u, e, w, mu, aeff))
    ww = w / aeff if acceptcorr else w
    m = (e > emin) & (e <= emax)
    n = int(m.sum())
    I = ww[m].sum(); Q = (q[m] * ww[m] / mu[m]).sum(); U = (u[m] * ww[m] / mu[m]).sum(); W2 = (ww[m] ** 2).sum()
    r = dict(COUNTS=n, I=I, Q=Q, U=U, W2=W2)
    if n == 0:
        r.update(PD=0., PA=0., MDP_99=1., PD_ERR=0., PA_ERR=0., QN=0., UN=0., N_EFF=0.)
        return r
    MU = (mu[m] * ww[m]).sum() / I
    r.update(MU=MU, E_MEAN=(e[m] * ww[m]).sum() / I, N_EFF=I * I / W2, I_ERR=math.sqrt(W2), QN=Q / I, UN=U / I,
             MDP_99=min(1., 4.29 * math.sqrt(W2) / (MU * I)))
    if I > 1:
        pd = math.hypot(Q, U) / I
        r['PD'] = pd
        mm = pd * MU
        if mm * mm < 2 and MU > 0:
            r['PD_ERR'] = math.sqrt(W2 / I) * math.sqrt((2 - mm * mm) / ((I - 1) * MU * MU))
            r['PA'] = math.degrees(0.5 * math.atan2(U, Q))
            if mm > 0:
                r['PA_ERR'] = math.degrees(math.sqrt(W2 / I) / (mm * math.sqrt(2 * (I - 1))))
    return r


def run_files(chk, tagname):
    import evfile
    from astropy.io import fits
    from ixpeobssim.irf import load_modf, load_arf
    from ixpeobssim.bin.xpbin import xpbin, PARSER
    g = rng(tagname)
    combos = [(1, 'False', 'True', 'False'), (2, 'True', 'True', 'False'), (3, 'True', 'False', 'True'), (1, 'False', 'False', 'True')]
    if chk.tier != 'quick':
        combos += [(d, w, a, m) for d in (1, 2, 3) for w in ('False', 'True') for a in ('False', 'True') for m in ('False', 'True')]
    combos = [c + ('LIST', 'W_MOM') for c in combos] + [(2, 'False', 'True', 'False', 'EQP', 'W_MOM'), (1, 'True', 'False', 'False', 'EQP', 'W_MOM')]
    # the weights are those of the column the user names (--weightcol): a second weight column with other values in the same file
    # (weights are positive, not bounded by one: an optimal-weight column has a free normalisation)
    combos += [(3, 'True', 'True', 'False', 'LIST', 'W_NN'), (1, 'True', 'False', 'True', 'LIST', 'W_NN'), (2, 'False', 'True', 'False', 'LIST', 'W_NN')]
    combos = [c + ('False',) for c in combos]
    # the gray filter in front of one detector unit: a history standard → gray → standard (and weighted) for the same DU in one process; the reference
    # responses are built from the files themselves, not through the package's loaders
    combos += [(2, 'False', 'True', 'False', 'LIST', 'W_MOM', 'True'), (2, 'False', 'True', 'False', 'LIST', 'W_MOM', 'False'), (2, 'True', 'True', 'False', 'LIST', 'W_MOM', 'True')]
    for du, weights, acc, mc, ebinalg, wcol, gray in combos:
        n = int(g.integers(300, 1500))
        pi = g.integers(30, 260, n)
        phi = g.uniform(-math.pi, math.pi, n)
        w = g.uniform(0.1, 1., n)
        mce = (0.04 * pi + 0.02) * g.uniform(0.85, 1.15, n)
        edges = sorted(float(x) for x in numpy.round(g.uniform(1.2, 11.5, 3), 2)) + [11.8, 11.9]     # the last bin is (almost surely) empty
        irf = 'ixpe:obssim20240101_alpha075:v13' if weights == 'True' else 'ixpe:obssim20240101:v13'
        with scratch() as d:
            path = os.path.join(d, 'ev.fits')
            evfile.write_event_file(path, numpy.sort(g.uniform(0., 1000., n)), pi=pi, phi=phi, w=w, mc_energy=mce, du_id=du, tstart=0., tstop=1000., irfname=irf)
            if wcol != 'W_MOM':
                with fits.open(path) as h:
                    evh = h['EVENTS']
                    cols = evh.columns + fits.ColDefs([fits.Column(name=wcol, format='E', array=g.uniform(0.05, 2.5, n).astype(numpy.float32))])
                    h['EVENTS'] = fits.BinTableHDU.from_columns(cols, header=evh.header, name='EVENTS')
                    h.writeto(path, overwrite=True)
            desc = dict(op='xpbin-PCUBE', du=du, weights=weights, acceptcorr=acc, mc=mc, edges=edges, events=n, ebinalg=ebinalg, weightcol=wcol, grayfilter=gray)
            ebargs = ['--ebinalg', 'LIST', '--ebinning', str(edges)] if ebinalg == 'LIST' else ['--ebinalg', 'EQP', '--ebins', '3', '--emin', '1.', '--emax', '12.']
            chk.case(desc, nontrivial=True)
            try:
                o = xpbin(**PARSER.parse_args([path, '--overwrite', 'True', '--algorithm', 'PCUBE'] + (['--irfname', irf] if wcol == 'W_MOM' else []) + [   # left to its default, the response set is the one the file names
                                               '--weights', weights, '--acceptcorr', acc,
                                               '--mc', mc, '--weightcol', wcol, '--grayfilter', gray] + ebargs).__dict__)[0]
            except BaseException as e:
                chk.fail('impl', 'xpbin PCUBE failed: %s: %s (%s)' % (type(e).__name__, e, desc), dict(oracle='pcube', args=desc, error=str(e)))
                continue
            with fits.open(o) as h:
                tab = h[1].data
                names = tab.columns.names
                rows = [{k: float(tab[k][i]) for k in names} for i in range(len(tab))]
                if ebinalg != 'LIST':       # equipopulated binning: the edges are what the file says (float32 columns of float32 energies: exact)
                    edges = [rows[0]['ENERG_LO']] + [r['ENERG_HI'] for r in rows]
            with fits.open(path) as h:
                ev, mcx = h['EVENTS'].data, h['MONTE_CARLO'].data
                q, u, wm = (numpy.array(ev[k], dtype=float) for k in ('Q', 'U', wcol))
                # the PI-channel centre in single precision (the PI column is float32 and numpy keeps that precision)
                e = numpy.array(mcx['MC_ENERGY'], dtype=float) if mc == 'True' else \
                    (numpy.array(ev['PI'], dtype=numpy.float32) * numpy.float32(0.04) + numpy.float32(0.02)).astype(float)
        # the reference responses are read from the CALDB files themselves (not through the package's loaders and their cache)
        from ixpeobssim.irf.caldb import irf_file_path
        from ixpeobssim.irf.arf import xEffectiveArea
        from ixpeobssim.irf.modf import xModulationFactor
        modf = xModulationFactor(irf_file_path(irf, du, 'modf'))
        aeff = xEffectiveArea(irf_file_path(irf, du, 'arf', simple_weighting=(weights == 'True'), gray_filter=(gray == 'True')))
        wt = wm if weights == 'True' else numpy.ones(n)
        for i, (a, b) in enumerate(zip(edges[:-1], edges[1:])):
            ref = published(q * wt / wt, u * wt / wt, e, wt, modf(e), aeff(e), acc == 'True', a, b)
            row = rows[i]
            vals = [v for k2, v in row.items() if k2 not in ('E_MEAN', 'MU', 'FRAC_W') or row['COUNTS'] > 0]
            bad = []
            if row['COUNTS'] > 0 and not all(math.isfinite(v) for v in vals):
                bad.append('non-finite column')
            if row['PD'] < 0 or abs(row['PA']) > 90.0001 or not (0 <= row['MDP_99'] <= 1) or min(row['PD_ERR'], row['PA_ERR'], row['I_ERR'], row['Q_ERR'], row['U_ERR']) < 0:
                bad.append('range')
            for k2, v in ref.items():
                tol = 2e-5 * max(1., abs(v)) + (1e-3 if k2 in ('PA',) else 0.)
                if abs(row[k2] - v) > tol:
                    bad.append('%s=%r, published formula gives %r' % (k2, row[k2], v))
            if bad:
                chk.fail('impl', 'PCUBE row %d (%.2f–%.2f keV, %s): %s' % (i, a, b, desc, '; '.join(bad[:4])), dict(oracle='pcube', args=desc, row=i, violated=bad))
                break


def weight_guard(chk):
    """weights requested with an arf that is not SIMPLE-weighted is refused"""
    import evfile
    from ixpeobssim.bin.xpbin import xpbin, PARSER
    g = numpy.random.default_rng(3)
    with scratch() as d:
        path = os.path.join(d, 'ev.fits')
        evfile.write_event_file(path, numpy.sort(g.uniform(0., 100., 50)), pi=g.integers(50, 200, 50), phi=g.uniform(-3, 3, 50), tstart=0., tstop=100.)
        chk.case(dict(op='weight-scheme-guard'), nontrivial=True)
        try:
            xpbin(**PARSER.parse_args([path, '--overwrite', 'True', '--algorithm', 'PCUBE', '--irfname', 'ixpe:obssim20240101:v13', '--weights', 'True']).__dict__)
            refused = False
        except BaseException:
            refused = True
        if not refused:
            chk.fail('impl', 'xpbin PCUBE --weights True with an unweighted response set (no SIMPLE arf) was not refused', dict(oracle='weight-guard'))


def main(chk):
    chk.rule = ('(a) random bins through the static methods (realistic, empty with NaN μ, single event, identical events, exactly unpolarized, μ = 0, degenerate bins with (PD·μ)² ≥ 2); '
                '(b) event lists with explicit response values through the constructor and polarization_table (0–300 events, energies on bin edges and outside 0–15 keV, weights and '
                'acceptance correction on/off) — all columns compared with the Lean model run on Float; (c) real xpbin PCUBE files (DU, weights, acceptcorr, MC energy; an empty bin) '
                'against the published formulae written independently with the response files named in the file; (d) the weight-scheme guard. non-trivial = I > 1 with a non-zero Stokes vector / ≥ 3 events')
    chk.assumptions = TRUSTED
    chk.lean(['IxpeVerif.Props.C02', 'IxpeVerif.Props.Audit.C02'], ['calculate_polarization', 'calculate_stokes_errors', 'calculate_mdp99', 'calculate_n_eff', 'calculate_n_eff_scalar',
                                                                        'ana_init', 'ana_energy_mask', 'ana_weighted_average', 'ana_average_energy', 'ana_effective_mu', 'ana_sum_stokes_parameters', 'ana_w2', 'ana_table_row'])
    run_bins(chk, 600 if chk.tier == 'quick' else 20000, 'C02-bins')
    run_events(chk, 40 if chk.tier == 'quick' else 800, 'C02-events')
    run_files(chk, 'C02-files')
    weight_guard(chk)

    def search(k):
        run_bins(chk, 6000, 'C02-search-bins')
        run_events(chk, 200, 'C02-search-events')
    return chk.finish(level='proof', trusted=TRUSTED, search=search)


def replay(body):
    r = body['replay']
    if r.get('oracle') == 'bin':
        b = r['args']
        try:
            vals, _ = impl_bin(*b)
            bad = statement_bin(*b, vals)
            out('bin %s -> %s; violated: %s' % (b, vals, bad or 'none'))
            return 1 if bad else 0
        except BaseException as e:
            out('implementation raises %s: %s on %s' % (type(e).__name__, e, b))
            return 1
    import sys
    import common
    return common.replay_rerun(sys.modules[__name__], body)
