"""C03 — event rates, times and energies follow spectrum × effective area (DESIGN.md section 7, C03)."""
import os
import math
import numpy

import rngtap
from common import out, rng, scratch

TRUSTED = ['Lean 4.33 kernel + Mathlib', 'axioms: propext, Classical.choice, Quot.sound',
           'hand model Rates.countSpectrum (pointwise composition) — responses and spectra are function parameters',
           'FITPACK integration / inversion (light_curve.norm(), ppf tables) is not modelled: compared with independent quadrature and measured ε on every run (partial)',
           'numpy.random.poisson has mean λ (library contract); numpy.random uniformity', 'GTI filter shared with C18', 'fixed-seed 6.5σ bands for row counts']
IRF = 'ixpe:obssim20240101:v13'
_C = {}


def aeff(du=1, irf=IRF):
    from ixpeobssim.irf import load_arf
    if (irf, du) not in _C:
        _C[(irf, du)] = load_arf(irf, du)
    return _C[(irf, du)]


def make_spectrum(kind, p):
    """(E, t) -> photons/cm2/s/keV; all strictly positive"""
    if kind == 'pl':
        return lambda E, t: p['norm'] * numpy.asarray(E, dtype=float) ** (-p['index']) + 0. * numpy.asarray(t, dtype=float)
    if kind == 'pl_t':          # normalisation decaying, index drifting with time
        return lambda E, t: p['norm'] * (1. + 0.5 * numpy.asarray(t) / p['T']) * numpy.asarray(E, dtype=float) ** (-(p['index'] + 0.6 * numpy.asarray(t) / p['T']))
    if kind == 'flare':         # spectral flare that returns to the initial spectrum at the end of the window
        return lambda E, t: p['norm'] * numpy.asarray(E, dtype=float) ** (-(p['index'] - 0.8 * numpy.sin(math.pi * numpy.asarray(t) / p['T']) ** 2))
    if kind == 'cutoff_line':
        return lambda E, t: p['norm'] * numpy.asarray(E, dtype=float) ** (-p['index']) * numpy.exp(-numpy.asarray(E) / 6.) + \
            0.05 * p['norm'] * numpy.exp(-0.5 * ((numpy.asarray(E) - 6.4) / 0.2) ** 2) + 0. * numpy.asarray(t, dtype=float)
    raise ValueError(kind)


def build(a):
    from ixpeobssim.srcmodel.spectrum import xCountSpectrum
    S = make_spectrum(a['kind'], a)
    t = numpy.linspace(a['t0'], a['t0'] + a['T'], a.get('nt', 50))
    kw = dict(column_density=a.get('nH', 0.), redshift=a.get('z', 0.))
    if a.get('emin') is not None:
        kw.update(emin=a['emin'], emax=a['emax'])
    Sabs = lambda E, tt: S(E, numpy.asarray(tt) - a['t0'])
    return xCountSpectrum(Sabs, aeff(a.get('du', 1)), t, **kw), Sabs, t


def reference(a, Sabs, E, t):
    """S(E(1+z), t) · T_nH(E) · Aeff(E), each factor evaluated independently"""
    from ixpeobssim.srcmodel.gabs import xInterstellarAbsorptionModel
    z = a.get('z', 0.)
    EE, TT = numpy.meshgrid(E, t, indexing='ij')
    ref = Sabs(EE * (1. + z), TT) * aeff(a.get('du', 1))(EE)
    if a.get('nH', 0.) > 0:
        if a['nH'] < 1e10:
            # a negligible column (σ is below 1e-19 cm² everywhere in the band): exp(−nH σ) = 1 to better than 1e-9, whatever the tabulation
            ref = ref * numpy.exp(-a['nH'] * xInterstellarAbsorptionModel()(EE))
        else:
            ref = ref * xInterstellarAbsorptionModel().transmission_factor(a['nH'])(EE)
    return ref


def simpson2(f, E, t):
    from scipy.integrate import simpson
    return float(simpson(simpson(f, x=t, axis=1), x=E))


def o_spectrum(a):
    """grid values, normalisation (independent quadrature), ε of the time and energy ppf tables, deterministic pushes"""
    cs, Sabs, t = build(a)
    bad = []
    E = numpy.array(cs.x)
    ref = reference(a, Sabs, E, t)
    rel = float(numpy.abs(cs.z - ref).max() / numpy.abs(ref).max())
    if rel > 2e-6:          # E(1+z)/(1+z) is not bit-identical to E
        bad.append('tabulated count spectrum differs from S(E(1+z),t)·T(E)·Aeff(E) by %.3g (relative to the maximum)' % rel)
    # normalisation
    Ef = numpy.linspace(E[0], E[-1], 4001)
    tf = numpy.linspace(t[0], t[-1], 801)
    quad = simpson2(reference(a, Sabs, Ef, tf), Ef, tf)
    norm = float(cs.light_curve.norm())
    if abs(norm - quad) > 2e-4 * quad:
        bad.append('light_curve.norm() = %.6g, independent quadrature of S·T·Aeff = %.6g' % (norm, quad))
    # time sampling: ε and deterministic push against the independent cumulative rate
    u = (numpy.arange(20000) + 0.5) / 20000
    tap = rngtap.Tap(); tap.feed(u)
    with rngtap.intercept(tap):
        times = cs.rvs_event_times(len(u))
    if not numpy.array_equal(times, numpy.sort(cs.light_curve.ppf(u))):
        bad.append('rvs_event_times is not sort(light_curve.ppf(u))')
    rate = numpy.array([simpson2_1d(reference(a, Sabs, Ef, numpy.array([tt]))[:, 0], Ef) for tt in tf])
    cum = numpy.concatenate([[0.], numpy.cumsum(0.5 * (rate[1:] + rate[:-1]) * numpy.diff(tf))]); cum /= cum[-1]
    eps_t = float(numpy.abs(numpy.interp(numpy.sort(times), tf, cum) - u).max())
    if eps_t > 2e-3:
        bad.append('event times do not follow the energy-integrated count rate: sup |F(t_i) − u_i| = %.3g' % eps_t)
    # energies at given times: slices at five times incl. both ends and the middle
    worst_e = 0.
    for tt in numpy.linspace(t[0], t[-1], 5):
        ue = (numpy.arange(4000) + 0.5) / 4000
        tap = rngtap.Tap(); tap.feed(ue)
        with rngtap.intercept(tap):
            en = cs.rvs(numpy.full(len(ue), tt))
        if not numpy.array_equal(en, cs.ppf(ue, numpy.full(len(ue), tt))):
            bad.append('cs.rvs(t) is not cs.ppf(u, t)')
            break
        sl = reference(a, Sabs, Ef, numpy.array([tt]))[:, 0]
        c = numpy.concatenate([[0.], numpy.cumsum(0.5 * (sl[1:] + sl[:-1]) * numpy.diff(Ef))]); c /= c[-1]
        worst_e = max(worst_e, float(numpy.abs(numpy.interp(numpy.sort(en), Ef, c) - ue).max()))
        if en.min() < E[0] - 1e-9 or en.max() > E[-1] + 1e-9:
            bad.append('energies outside the window')
    if worst_e > 6e-3:
        bad.append('true energies at fixed time do not follow the count spectrum at that time: sup |F_t(E_i) − u_i| = %.3g' % worst_e)
    return not bad, dict(violated=bad, grid_rel_err=rel, norm=norm, quadrature=quad, eps_time=eps_t, eps_energy=worst_e)


def simpson2_1d(f, x):
    from scipy.integrate import simpson
    return float(simpson(f, x=x))


def o_seed(a):
    """data flow of a point source: Poisson mean = norm, times = sort(ppf(u)) then GTI filter, energies = ppf(u', t)"""
    from ixpeobssim.srcmodel.roi import xPointSource
    from ixpeobssim.srcmodel.polarization import constant
    from ixpeobssim.irf import load_irf_set
    from ixpeobssim.evt.gti import xGTIList
    import simdrive
    S = make_spectrum(a['kind'], dict(a, t0=0.))
    src = xPointSource('p', 30., 45., lambda E, t: S(E, numpy.asarray(t) - a['t0']), constant(0.3), constant(0.5), column_density=a.get('nH', 0.), redshift=a.get('z', 0.))
    irf_set = load_irf_set(IRF, a.get('du', 1))
    gtis = [(a['t0'], a['t0'] + 0.3 * a['T']), (a['t0'] + 0.5 * a['T'], a['t0'] + 0.9 * a['T'])]
    if a.get('gti_layout') == 'late-first':          # good time neither starts with the observation nor ends with it
        gtis = [(a['t0'] + 0.2 * a['T'], a['t0'] + 0.4 * a['T']), (a['t0'] + 0.5 * a['T'], a['t0'] + 0.8 * a['T'])]
    elif a.get('gti_layout') == 'unordered':         # a list that is not in chronological order
        gtis = [gtis[1], gtis[0]]
    elif a.get('gti_layout') == 'empty':             # no good time at all (the whole window occulted): nothing survives
        gtis = []
    kwargs = simdrive.sim_kwargs(simdrive.config_path('toy_point_source.py'), 'unused.fits', gtis=gtis, start_met=a['t0'], duration=a['T'])
    roi = type('R', (), dict(ra=30., dec=45.))()
    tap = rngtap.Tap()
    with rngtap.intercept(tap):
        el = src._rvs_seed_event_list(roi, irf_set, **kwargs)
    lam = [x[2] for x in tap.log if x[0] == 'poisson']
    cs = src.create_count_spectrum(irf_set.aeff, src.sampling_time_grid(a['t0'], a['T']), **kwargs)
    norm = float(cs.light_curve.norm())
    bad = []
    if len(lam) != 1 or abs(lam[0] - norm) > 1e-9 * norm:
        bad.append('Poisson mean(s) %s, light_curve.norm() = %r' % (lam, norm))
    t = numpy.array(el.time(), dtype=float)
    ingti = numpy.zeros(len(t), bool)
    for x, y in gtis:
        ingti |= (t >= x) & (t <= y)
    if not ingti.all():
        bad.append('%d events outside the GTIs' % int((~ingti).sum()))
    n = int(numpy.rint(norm))
    # the share of the light curve inside the union of the intervals (the energy-integrated count rate, integrated)
    frac = sum(float(cs.light_curve.integral(x, y)) for x, y in gtis) / norm
    # the times are drawn with the live generator: a binomial band of 4.5 sigma (a fixed 0.02 was 1.7 sigma for 1400 events)
    if abs(len(t) / max(n, 1) - frac) > 4.5 * math.sqrt(max(frac * (1. - frac), 0.) / max(n, 1)) + 1.5 / max(n, 1):
        bad.append('%d of %d events kept by GTIs %s holding %.3f of the light curve' % (len(t), n, [(x - a['t0'], y - a['t0']) for x, y in gtis], frac))
    return not bad, dict(violated=bad, poisson_mean=lam, norm=norm, kept=len(t))


def o_history(a):
    """one source object asked for several energy windows in a row (a loop over windows in one process): each count spectrum is
    the one of *its* window — norm against an independent quadrature over [emin, emax], support of the table, sampled energies"""
    from ixpeobssim.srcmodel.roi import xPointSource
    from ixpeobssim.srcmodel.polarization import constant
    from ixpeobssim.srcmodel.spectrum import power_law
    from ixpeobssim.irf import load_irf_set
    import simdrive
    src = xPointSource('p', 30., 45., power_law(a['norm'], a['index']), constant(0.3), constant(0.5))
    roi = type('R', (), dict(ra=30., dec=45.))()
    bad = []
    # …and for several response sets in a row (the DU loop of xpobssim re-uses the ROI object; gray filter on the last step)
    dus = a.get('dus') or [a.get('du', 1)] * len(a['windows'])
    for step, (emin, emax) in enumerate(a['windows']):
        gray = bool(a.get('gray_last') and step == len(a['windows']) - 1)
        irf_set = load_irf_set(IRF, dus[step], gray_filter=gray)
        from ixpeobssim.irf import load_arf
        ref_aeff = load_arf(IRF, dus[step], gray_filter=gray)          # the effective area of the requested flavour, loaded on its own
        kwargs = simdrive.sim_kwargs(simdrive.config_path('toy_point_source.py'), 'unused.fits', start_met=0., duration=a['T'], emin=emin, emax=emax)
        cs = src.create_count_spectrum(irf_set.aeff, src.sampling_time_grid(0., a['T']), **kwargs)
        Ef = numpy.linspace(emin, emax, 6001)
        from scipy.integrate import simpson
        quad = float(simpson(a['norm'] * Ef ** (-a['index']) * ref_aeff(Ef), x=Ef)) * a['T']
        norm = float(cs.light_curve.norm())
        if abs(norm - quad) > 1e-3 * quad:
            bad.append('step %d, window %s-%s keV: light_curve.norm() = %.6g, ∫S·Aeff over the window = %.6g' % (step, emin, emax, norm, quad))
        if abs(float(cs.x[0]) - emin) > 1e-9 or abs(float(cs.x[-1]) - emax) > 1e-9:
            bad.append('step %d: the count spectrum is tabulated on %.3f-%.3f keV for the window %s-%s' % (step, cs.x[0], cs.x[-1], emin, emax))
        numpy.random.seed(a['seed'] + step)
        el = src._rvs_seed_event_list(roi, irf_set, **kwargs)
        E = numpy.array(el.mc_energy(), dtype=float) if len(el.time()) else numpy.array([])
        if len(E) and (E.min() < emin - 1e-6 or E.max() > emax + 1e-6):
            bad.append('step %d: true energies span %.3f-%.3f keV for the window %s-%s' % (step, E.min(), E.max(), emin, emax))
        if abs(len(E) - quad) > 6.5 * math.sqrt(quad) + 2e-3 * quad:
            bad.append('step %d: %d events for a Poisson mean of %.1f' % (step, len(E), quad))
    return not bad, dict(violated=bad)


def o_vign(a):
    """hit-or-miss vignetting: with fed uniforms the kept mask is exactly u ≤ vign(E, θ[arcmin])"""
    from ixpeobssim.irf import load_vign
    import evfile
    g = numpy.random.default_rng(a['seed'])
    n = 5000
    vign = load_vign(IRF, a['du'])
    ra0, dec0 = 30., 45.
    ra = ra0 + g.uniform(-0.12, 0.12, n) / math.cos(math.radians(dec0))
    dec = dec0 + g.uniform(-0.12, 0.12, n)
    E = g.uniform(1.5, 10., n)
    el = evfile.make_event_list(numpy.sort(g.uniform(0, 100., n)), ra=ra, dec=dec, mc_energy=E, tag=numpy.arange(n), ra0=ra0, dec0=dec0)
    # the cut uses the Monte Carlo position and energy
    u = g.uniform(0, 1, n)
    u[:5] = [0., 0.999999, 0.5, 1e-12, 0.25]
    tap = rngtap.Tap(); tap.feed(u)
    with rngtap.intercept(tap):
        el.apply_vignetting(vign, ra0, dec0)
    kept = set(int(x) for x in el.get('MC_PHA'))
    # independent separation (arcmin) and the response evaluated directly
    d = numpy.radians(dec); d0 = math.radians(dec0); dr = numpy.radians(ra - ra0)
    sep = numpy.degrees(2 * numpy.arcsin(numpy.sqrt(numpy.sin((d - d0) / 2) ** 2 + numpy.cos(d) * math.cos(d0) * numpy.sin(dr / 2) ** 2))) * 60.
    v = vign(E, sep)
    exp = set(int(i) for i in numpy.where(u <= v)[0])
    margin = numpy.abs(u - v) < 1e-9
    diff = [i for i in (kept ^ exp) if not margin[i]]
    onaxis = float(vign(numpy.array([3.]), numpy.array([0.]))[0])
    frac = len(kept) / n
    return not diff and abs(onaxis - 1.) < 1e-6, dict(mismatching_events=diff[:10], kept_fraction=frac, expected_fraction=float(numpy.minimum(1., v).mean()), on_axis=onaxis)


def o_vignflow(a):
    """the vignetting inside the simulation of a component: the off-axis angle handed to the hit-or-miss step is measured from where the
    telescope points *at the time of the event* (the dithered pointing, with the dithering parameters of the call), for the true positions and
    energies; dithering off: from the nominal pointing"""
    import simdrive
    from ixpeobssim.evt.event import xBaseEventList
    from ixpeobssim.srcmodel.roi import xPointSource, xROIModel
    from ixpeobssim.srcmodel.spectrum import power_law
    from ixpeobssim.srcmodel.polarization import constant
    from ixpeobssim.irf import load_irf_set
    ra0, dec0 = a['ra'], a['dec']
    roi = xROIModel(ra0, dec0)
    off = a['offaxis_arcmin'] / 60.
    roi.add_source(xPointSource('p', ra0 + off * math.cos(a['pa']) / math.cos(math.radians(dec0)), dec0 + off * math.sin(a['pa']), power_law(8., 2.), constant(0.2), constant(0.3)))
    irf_set = load_irf_set(IRF, a['du'])
    over = dict(start_met=a['t0'], duration=600., vignetting=True, dithering=a['dithering'])
    over.update(a.get('dither', {}))
    kwargs = simdrive.sim_kwargs(simdrive.config_path('toy_point_source.py'), 'unused.fits', **over)
    seen = []
    orig = xBaseEventList.apply_vignetting_base
    def spy(self, ra, dec, energy, vign, ra_pnt, dec_pnt):
        seen.append((numpy.array(self.time(), dtype=float), numpy.array(ra, dtype=float), numpy.array(dec, dtype=float), numpy.array(energy, dtype=float),
                     numpy.array(numpy.broadcast_to(ra_pnt, numpy.shape(ra)), dtype=float), numpy.array(numpy.broadcast_to(dec_pnt, numpy.shape(ra)), dtype=float)))
        return orig(self, ra, dec, energy, vign, ra_pnt, dec_pnt)
    xBaseEventList.apply_vignetting_base = spy
    try:
        numpy.random.seed(a['seed'])
        roi.rvs_event_list(irf_set, **kwargs)
    finally:
        xBaseEventList.apply_vignetting_base = orig
    bad = []
    if not seen:
        return False, dict(violated=['vignetting=True but the hit-or-miss step was never reached'])
    t, ra, dec, en, rp, dp = seen[0]
    if a['dithering']:
        A, pa_, px, py = [kwargs[k] for k in ('ditherampl', 'ditherpa', 'ditherpx', 'ditherpy')]
        w = lambda p: 2. * math.pi / p
        dx = A * numpy.cos(w(pa_) * t) * numpy.cos(w(px) * t) / 60.
        dy = A * numpy.sin(w(pa_) * t) * numpy.sin(w(py) * t) / 60.
        erp, edp = ra0 + dx / math.cos(math.radians(dec0)), dec0 + dy
    else:
        erp, edp = numpy.full(t.shape, ra0), numpy.full(t.shape, dec0)
    err = float(max(numpy.abs((rp - erp) * math.cos(math.radians(dec0))).max(), numpy.abs(dp - edp).max()) * 3600.) if len(t) else 0.
    if err > 0.05:
        bad.append('the pointing handed to the vignetting is up to %.2f arcsec from the pointing at the event time (dithering %s, parameters %s)' % (
            err, a['dithering'], a.get('dither', 'default')))
    return not bad, dict(violated=bad, events=int(len(t)), max_pointing_err_arcsec=err)


def fiducial_fraction(s, roi):
    """share of the source's solid angle that falls on the fiducial rectangle of the detector (on-axis point sources: 1; a uniform disk centred on the
    pointing: area of disk ∩ rectangle over the area of the disk — the rectangle is centred on the disk, so the DU rotation does not matter)"""
    from ixpeobssim.instrument import gpd, mma
    radius = getattr(s, 'radius', None)
    if radius is None or s.__class__.__name__ != 'xUniformDisk' or (s.ra, s.dec) != (roi.ra, roi.dec):
        return 1.
    R = math.tan(math.radians(radius)) * mma.FOCAL_LENGTH
    hx, hy = gpd.GPD_DEFAULT_FIDUCIAL_HALF_SIDE_X, gpd.GPD_DEFAULT_FIDUCIAL_HALF_SIDE_Y
    n = 1500
    x = (numpy.arange(n) + 0.5) / n * 2 * hx - hx
    y = (numpy.arange(n) + 0.5) / n * 2 * hy - hy
    inside = (x[:, None] ** 2 + y[None, :] ** 2) <= R * R
    return float(inside.mean() * 4 * hx * hy / (math.pi * R * R))


def o_counts(a):
    """simulated files: number of rows against the Poisson mean (live fraction, GTIs), times inside GTIs"""
    import simdrive
    from astropy.io import fits
    from ixpeobssim.srcmodel import import_roi
    from ixpeobssim.irf import load_irf_set
    cfg = simdrive.config_path(a['config'])
    gtis = [(0., 0.4 * a['T']), (0.55 * a['T'], a['T'])]
    with scratch() as d:
        path = os.path.join(d, 's.fits')
        roi = import_roi(cfg)
        simdrive.simulate(cfg, path, gtis=gtis, du_id=a['du'], seed=a['seed'], roi_model=roi, duration=a['T'], deadtime=0., vignetting=False)
        with fits.open(path) as h:
            t = numpy.array(h['EVENTS'].data['TIME'], dtype=float)
            src = numpy.array(h['MONTE_CARLO'].data['SRC_ID']).astype(int)
            mce = numpy.array(h['MONTE_CARLO'].data['MC_ENERGY'], dtype=float)
    irf_set = load_irf_set(IRF, a['du'])
    kwargs = simdrive.sim_kwargs(cfg, 'x.fits', gtis=gtis, duration=a['T'])
    bad = []
    for s in roi.values():
        if not hasattr(s, 'create_count_spectrum'):
            continue
        periodic = hasattr(s, 'ephemeris')
        grid = s.sampling_time_grid() if periodic else s.sampling_time_grid(0., a['T'])
        cs = s.create_count_spectrum(irf_set.aeff, grid, **kwargs)
        lam = float(cs.light_curve.norm()) * (a['T'] if periodic else 1.)
        # fraction of the expected events inside the GTIs (constant sources) and inside the fiducial area (point source on axis: ~1)
        exp = lam * sum(y - x for x, y in gtis) / a['T'] * fiducial_fraction(s, roi)
        got = int((src == s.identifier).sum())
        if abs(got - exp) > 6.5 * math.sqrt(exp) + 0.03 * exp:
            bad.append('%s: %d events, %.1f expected from ∫∫ S·Aeff over the good time' % (s.name, got, exp))
    ing = numpy.zeros(len(t), bool)
    for x, y in gtis:
        ing |= (t >= x) & (t <= y)
    if not ing.all():
        bad.append('%d events outside the GTIs' % int((~ing).sum()))
    return not bad, dict(violated=bad, events=len(t))


ORACLES = dict(spectrum=o_spectrum, seed=o_seed, vign=o_vign, vignflow=o_vignflow, counts=o_counts, history=o_history)


def run_oracle(chk, name, a, nontrivial=True):
    chk.case(dict(oracle=name, args=a), nontrivial=nontrivial)
    try:
        ok, obs = ORACLES[name](a)
    except BaseException as e:
        ok, obs = False, dict(exception='%s: %s' % (type(e).__name__, e))
    if not ok:
        chk.fail('impl', 'C03 %s: %s (args %s)' % (name, obs, a), dict(oracle=name, args=a, observed=obs))
    return obs


def gen_spec(g):
    kind = str(g.choice(['pl', 'pl_t', 'flare', 'cutoff_line']))
    a = dict(kind=kind, norm=float(g.uniform(0.5, 20.)), index=float(g.uniform(1., 3.)), t0=float(g.choice([0., 1.2e8])), T=float(g.choice([500., 2000., 20000.])),
             du=int(g.integers(1, 4)))
    r = g.uniform()
    if r < 0.25:
        a['nH'] = float(10 ** g.uniform(20.5, 22.7))
    elif r < 0.45:
        a['z'] = float(g.uniform(0.1, 1.5))
    elif r < 0.75:
        a['nH'], a['z'] = float(10 ** g.uniform(21.5, 22.7)), float(g.uniform(0.3, 1.2))
    elif r < 0.85:
        a['nH'] = float(10 ** g.uniform(-2., 2.5))       # a column density that is positive but negligible (a scan starting near zero): no absorption
    if g.uniform() < 0.35:
        a['emin'], a['emax'] = float(g.uniform(1.2, 3.)), float(g.uniform(6., 11.5))
    return a


def explore(chk, budget=1):
    g = rng('C03-%d' % budget)
    quick = chk.tier == 'quick'
    eps = []
    for i in range((10 if quick else 150) * budget):
        a = gen_spec(g)
        if i < 4:
            a['kind'] = ['pl', 'pl_t', 'flare', 'cutoff_line'][i]
        if i == 1:
            a.update(nH=3e22, z=0.8)
        if i == 2:
            a.pop('z', None)
            a.update(nH=float(g.choice([0.25, 2., 40., 700.])))          # positive, negligible
        obs = run_oracle(chk, 'spectrum', a, nontrivial=(a['kind'] != 'pl' or 'z' in a or 'nH' in a))
        if 'eps_time' in obs:
            eps.append((obs['eps_time'], obs['eps_energy']))
    if eps:
        chk.extra['measured_eps_time_max'] = max(e[0] for e in eps)
        chk.extra['measured_eps_energy_max'] = max(e[1] for e in eps)
    for i in range(4 if quick else 20):
        a = gen_spec(g)
        a['kind'] = str(g.choice(['pl', 'pl_t']))
        a['norm'] = float(g.uniform(5., 30.))
        a['gti_layout'] = ['default', 'late-first', 'unordered', 'empty'][i % 4]
        run_oracle(chk, 'seed', a)
    for du in ((int(g.integers(1, 4)),) if quick else (1, 2, 3)):
        run_oracle(chk, 'vign', dict(du=du, seed=int(g.integers(1, 10 ** 6))))
        for dith in (dict(dithering=True), dict(dithering=True, dither=dict(ditherampl=2.5, ditherpa=700., ditherpx=83., ditherpy=300.)), dict(dithering=False)):
            run_oracle(chk, 'vignflow', dict(du=du, seed=int(g.integers(1, 10 ** 6)), ra=float(g.uniform(5., 355.)), dec=float(g.uniform(-60., 60.)), t0=float(g.choice([0., 1.5e8])),
                                             offaxis_arcmin=float(g.uniform(0., 5.)), pa=float(g.uniform(0., 6.28)), **dith))
    for i in range(1 if quick else 6):
        wins = [(2., 8.), (1., 12.), (4., 6.), (2., 8.)] if i == 0 else [tuple(sorted(float(x) for x in numpy.round(g.uniform(1., 12., 2), 2))) for _ in range(4)]
        wins = [w for w in wins if w[1] - w[0] > 0.5]
        run_oracle(chk, 'history', dict(norm=float(g.uniform(1., 5.)), index=float(g.uniform(1.5, 2.5)), T=float(g.choice([200., 1000.])),
                                        du=int(g.integers(1, 4)), seed=int(g.integers(1, 10 ** 6)), windows=wins))
        # the same window for DU 1, 2, 3 and then the gray filter: what xpobssim does with one ROI object
        run_oracle(chk, 'history', dict(norm=float(g.uniform(1., 5.)), index=float(g.uniform(1.5, 2.5)), T=200., seed=int(g.integers(1, 10 ** 6)),
                                        windows=[(2., 8.)] * 4, dus=[1, 2, 3, 1], gray_last=True))
    for cfg in (['toy_point_source.py', 'toy_periodic_source.py'] if quick else ['toy_point_source.py', 'toy_periodic_source.py', 'toy_multiple_sources.py', 'toy_disk.py']):
        run_oracle(chk, 'counts', dict(config=cfg, du=int(g.integers(1, 4)), seed=int(g.integers(1, 10 ** 6)), T=1000.))


def known_findings(chk):
    ents = {e['id']: e for e in chk.findings if e.get('status') == 'known'}
    e = ents.get('C03-binary-source')
    if e is None:
        return
    try:
        import simdrive
        from astropy.io import fits
        with scratch() as d:
            path = os.path.join(d, 'b.fits')
            simdrive.simulate(simdrive.config_path('toy_binary.py'), path, gtis=[(0., 400.), (600., 1000.)], du_id=1, seed=1, duration=1000., deadtime=0.)
            with fits.open(path) as h:
                t = numpy.array(h['EVENTS'].data['TIME'], dtype=float)
        outside = int(((t > 400.) & (t < 600.)).sum())
        last = float(t.max()) if len(t) else 0.
        chk.known_finding(e, outside > 0 or last < 900., observed='%d events inside the GTI gap, last event at %.1f s of 1000 s' % (outside, last))
    except BaseException as ex:
        chk.extra['binary_source_replay'] = 'not runnable: %s: %s' % (type(ex).__name__, ex)


def main(chk):
    chk.rule = ('random spectra (power laws with constant or drifting parameters, a spectral flare returning to its initial shape, cut-off + line) with column densities, redshifts, '
                'both, and restricted energy windows: tabulated values vs S(E(1+z),t)·T(E)·Aeff(E) with independently evaluated factors, light_curve.norm() vs Simpson quadrature, '
                '2·10⁴-point midpoint grids of u through the real time and energy samplers (exact data flow; sup distance to the independent cumulative at five time slices); point-source '
                'seed lists (Poisson mean, GTI filter); vignetting with fed uniforms (kept ⇔ u ≤ vign(E, θ)); simulated files: row counts vs ∫∫ S·Aeff over the good time for stationary '
                'and periodic sources. non-trivial = time dependence, z ≠ 0 or nH > 0')
    chk.assumptions = TRUSTED
    chk.lean(['IxpeVerif.Props.C03', 'IxpeVerif.Props.Audit.C03'], ['filter_event_times', 'rates_source_pdf', 'rates_count_conv', 'rates_count_pdf', 'rates_vign_keep'])
    explore(chk)
    known_findings(chk)
    return chk.finish(level='proof', trusted=TRUSTED, search=lambda k: explore(chk, 3))


def replay(body):
    r = body['replay']
    if r.get('oracle') in ORACLES:
        ok, obs = ORACLES[r['oracle']](r['args'])
        out('oracle %s on the recorded input: %s %s' % (r['oracle'], 'holds' if ok else 'FAILS', obs))
        return 0 if ok else 1
    import sys
    import common
    return common.replay_rerun(sys.modules[__name__], body)
