"""C04 — simulated event lists are temporally well-formed (DESIGN.md section 7, C04)."""
import os
import numpy

from common import out, rng, Driver, scratch, f2b

TICK = 2.0 ** -20
TRUSTED = ['Lean 4.33 kernel (core only)', 'axioms ⊆ {propext, Quot.sound}',
           'hand-written model EvL.finalize tied by exact correspondence (rows with tags, dyadic times)',
           'numpy.argsort is not stable: generators avoid equal times (probability zero in the simulator)',
           'astropy FITS I/O; GTI filtering of components is C03/C18']


def gen_case(g):
    ngti = int(g.integers(1, 5))
    s0 = int(g.integers(0, 2 ** 28)) * 2 ** 20
    if g.uniform() < 0.15:              # an observation before the mission reference date: negative MET
        s0 = -int(g.integers(2 ** 16, 2 ** 26)) * 2 ** 20
    dead = int(g.choice([0, 0, 1, 1132, 2 ** 12, 2 ** 16, 2 ** 19]))
    t = s0
    gtis = []
    for _ in range(ngti):
        length = int(g.integers(1, 50)) * 2 ** int(g.integers(14, 21))
        gtis.append((t, t + length))
        t += length + max(dead, 1) + int(g.integers(1, 50)) * 2 ** int(g.integers(10, 20))
    stop = gtis[-1][1]
    ncomp = int(g.integers(1, 7))
    all_outside = g.uniform() < 0.04          # every event outside the fiducial rectangle: the cut empties the list (an empty file is written)
    used = set()
    comps = []
    tag = 1
    for c in range(ncomp):
        k = int(g.choice([0, 1, 3, 10, 40], p=[0.2, 0.1, 0.3, 0.25, 0.15]))
        rows = []
        dense = g.uniform() < 0.4      # rate well above 1/deadtime: cluster the events
        for _ in range(k):
            a, b = gtis[int(g.integers(0, ngti))]
            if dense and dead > 0:
                tt = int(g.integers(a + 1, min(b, a + 1 + 8 * dead) + 1))
            else:
                tt = int(g.integers(a + 1, b + 1))
            if tt in used:
                continue
            used.add(tt)
            r = g.uniform() if not all_outside else 0.8
            if all_outside:
                x, y = float(g.choice([-1., 1.]) * g.uniform(7., 8.)), float(g.uniform(-8, 8))
            elif r < 0.75:
                x, y = float(g.uniform(-6.5, 6.5)), float(g.uniform(-6.5, 6.5))
            elif r < 0.9:
                x, y = float(g.uniform(-8, 8)), float(g.uniform(-8, 8))
            else:
                x, y = 'edge', 'edge'
            rows.append([tt, c, x, y, tag])
            tag += 1
        comps.append(sorted(rows))      # a component's own list is time-ordered (the constructor insists)
    if ncomp >= 2 and not all_outside and g.uniform() < 0.35:
        # two events of different components one tick (0.95 µs) apart inside the same microsecond, the later one in the component that is
        # added first: the written rows must still be in time order (bright sources do this all the time when the dead time is switched off)
        a, b = gtis[int(g.integers(0, ngti))]
        for _ in range(40):
            tt = int(g.integers(a + 1, b))
            if tt not in used and tt + 1 not in used and (tt * 1000000) // 2 ** 20 == ((tt + 1) * 1000000) // 2 ** 20:
                used.update((tt, tt + 1))
                comps[0] = sorted(comps[0] + [[tt + 1, 0, 1.5, -2.5, tag]])
                comps[1] = sorted(comps[1] + [[tt, 1, -0.5, 3.5, tag + 1]])
                tag += 2
                if g.uniform() < 0.6:
                    dead = 0
                break
    return dict(s0=s0, stop=stop, gtis=gtis, dead=dead, comps=comps, order=list(range(ncomp)))


def fiducial():
    from ixpeobssim.instrument import gpd
    return float(gpd.GPD_DEFAULT_FIDUCIAL_HALF_SIDE_X), float(gpd.GPD_DEFAULT_FIDUCIAL_HALF_SIDE_Y)


def concrete(case):
    """resolve 'edge' coordinates to the exact half sides"""
    hx, hy = fiducial()
    comps = []
    for rows in case['comps']:
        rr = []
        for (t, c, x, y, tag) in rows:
            if x == 'edge':
                x, y = (hx if tag % 2 else -hx), (hy if tag % 3 else numpy.nextafter(hy, 10.))
            rr.append([t, c, float(x), float(y), tag])
        comps.append(rr)
    return comps


def impl_run(case):
    """Concatenate the components in the given order through xEventList.__add__, finalize and write; re-read."""
    import evfile
    from astropy.io import fits
    from ixpeobssim.evt.event import xEventList
    comps = concrete(case)
    total = xEventList()
    for ci in case['order']:
        rows = comps[ci]
        if rows:
            a = numpy.array(rows, dtype=object)
            el = evfile.make_event_list(numpy.array([r[0] for r in rows], dtype=float) * TICK, src=int(ci),
                                        detx=[r[2] for r in rows], dety=[r[3] for r in rows], tag=[r[4] for r in rows])
        else:
            el = xEventList()
        total = total + el
    with scratch() as d:
        path = os.path.join(d, 'ev.fits')
        if case.get('prewrite'):
            # the same list object written first with the dead time switched off (a user comparing settings): the second file obeys *its* dead time
            evfile.write_event_list(total, os.path.join(d, 'first.fits'), [(a * TICK, b * TICK) for a, b in case['gtis']], case['s0'] * TICK, case['stop'] * TICK,
                                    nsrc=len(comps), deadtime=0.)
        evfile.write_event_list(total, path, [(a * TICK, b * TICK) for a, b in case['gtis']], case['s0'] * TICK, case['stop'] * TICK,
                                nsrc=len(comps), deadtime=case['dead'] * TICK)
        with fits.open(path) as h:
            ev, mc = h['EVENTS'].data, h['MONTE_CARLO'].data
            res = dict(time=numpy.array(ev['TIME'], dtype=float), sec=numpy.array(ev['SEC'], dtype=numpy.int64), usec=numpy.array(ev['MICROSEC'], dtype=numpy.int64),
                       livetime=numpy.array(ev['LIVETIME'], dtype=numpy.int64), trg=numpy.array(ev['TRG_ID'], dtype=numpy.int64),
                       tag=numpy.array(ev['PHA'], dtype=numpy.int64), mctag=numpy.array(mc['MC_PHA'], dtype=numpy.int64),
                       src=numpy.array(mc['SRC_ID'], dtype=numpy.int64), detx=numpy.array(ev['DETX'], dtype=float), dety=numpy.array(ev['DETY'], dtype=float),
                       roi=[int(x) for x in h['ROITABLE'].data['SRCID']],
                       tstart=h['EVENTS'].header['TSTART'], tstop=h['EVENTS'].header['TSTOP'], nev=len(ev), nmc=len(mc))
    return res


def model_line(case):
    hx, hy = fiducial()
    comps = concrete(case)
    rows = [r for ci in case['order'] for r in comps[ci]]
    flat = []
    for (t, c, x, y, tag) in rows:
        flat += [t, c, f2b(x), f2b(y), tag]
    return 'finalizef %d %d %d %s %d %d %d %s' % (case['s0'], case['dead'], len(case['gtis']), ' '.join(str(a) for a, _ in case['gtis']),
                                                 f2b(hx), f2b(hy), len(flat), ' '.join(map(str, flat)))


def invariants(res, gtis_s, dead_s, hx, hy, check_gti=True, rows=None):
    """The property statement evaluated directly on a written file. Returns a list of violated clauses."""
    bad = []
    t = res['time']
    n = len(t)
    if res['nev'] != res['nmc']:
        bad.append('EVENTS has %d rows, MONTE_CARLO %d' % (res['nev'], res['nmc']))
    if n and (numpy.diff(t) < 0).any():
        bad.append('TIME not non-decreasing at row %d' % int(numpy.where(numpy.diff(t) < 0)[0][0] + 1))
    if n and ((t < res['tstart']).any() or (t > res['tstop']).any()):
        bad.append('TIME outside [TSTART, TSTOP]')
    if check_gti and n:
        ing = numpy.zeros(n, dtype=bool)
        for a, b in gtis_s:
            ing |= (t >= a) & (t <= b)
        if not ing.all():
            j = int(numpy.where(~ing)[0][0])
            bad.append('row %d TIME=%.6f outside every GTI' % (j, t[j]))
    if n > 1 and dead_s > 0 and (numpy.diff(t) < dead_s - 1e-12).any():
        j = int(numpy.where(numpy.diff(t) < dead_s - 1e-12)[0][0])
        bad.append('rows %d,%d closer (%.9f s) than the dead time %.9f' % (j, j + 1, t[j + 1] - t[j], dead_s))
    if n and not (res['trg'] == numpy.arange(1, n + 1)).all():
        bad.append('TRG_ID is not 1..N: %s…' % res['trg'][:8])
    if n:
        sec = numpy.floor(t)
        usec = numpy.floor((t - sec) * 1e6)
        if not ((res['sec'] == sec).all() and (res['usec'] == usec).all()):
            bad.append('SEC/MICROSEC are not the floor split of TIME')
        if ((numpy.abs(res['detx']) > hx * (1 + 1e-6)) | (numpy.abs(res['dety']) > hy * (1 + 1e-6))).any():
            bad.append('DETX/DETY outside the fiducial rectangle')
        if not set(int(s) for s in res['src']) <= set(res['roi']):
            bad.append('SRC_ID %s not in ROITABLE %s' % (sorted(set(res['src'])), res['roi']))
    if 'tag' in res and n and not (res['tag'] == res['mctag']).all():
        bad.append('EVENTS and MONTE_CARLO rows are not aligned')
    if rows is not None and n:
        # every written row is one of the rows that went in, whole: the tag (PHA / MC_PHA) still sits next to the time, the source
        # identifier and the detector position it was created with
        by_tag = {r[4]: r for r in rows}
        for i in range(n):
            r = by_tag.get(int(res['tag'][i]))
            if r is None:
                bad.append('row %d carries the tag %d that no input row had' % (i, int(res['tag'][i])))
                break
            if res['time'][i] != r[0] * TICK or int(res['src'][i]) != r[1] or abs(res['detx'][i] - r[2]) > 1e-5 or abs(res['dety'][i] - r[3]) > 1e-5:
                bad.append('row %d (tag %d): TIME, SRC_ID, DETX, DETY = %r, %d, %.4f, %.4f but the event with that tag was created with %r, %d, %.4f, %.4f' % (
                    i, int(res['tag'][i]), res['time'][i], int(res['src'][i]), res['detx'][i], res['dety'][i], r[0] * TICK, r[1], r[2], r[3]))
                break
    return bad


def run_cases(chk, n, tagname, budget=1):
    g = rng(tagname)
    hx, hy = fiducial()
    drv = Driver()
    cases = []
    for i in range(n * budget):
        c = gen_case(g)
        cases.append(c)
        drv.ask(model_line(c))
        if len(c['comps']) > 1 and i % 3 == 0:
            c2 = dict(c, order=[int(x) for x in g.permutation(len(c['comps']))])
            cases.append(c2)
            drv.ask(model_line(c2))
        if c['dead'] > 0 and i % 4 == 1:
            c3 = dict(c, prewrite=True)
            cases.append(c3)
            drv.ask(model_line(c3))
    replies = drv.run()
    for c, rep in zip(cases, replies):
        vals = [int(x) for x in rep.split()]
        m_tag, m_lt, m_trg = vals[0::3], vals[1::3], vals[2::3]
        nrows = sum(len(r) for r in c['comps'])
        nontriv = sum(1 for r in c['comps'] if r) >= 2 and len(m_tag) >= 2 and (len(m_tag) < nrows)
        short = dict(op='finalize' if not c.get('prewrite') else 'finalize after a first write of the same list without dead time', gtis=c['gtis'], dead=c['dead'], order=c['order'], rows_per_component=[len(r) for r in c['comps']], kept=len(m_tag))
        chk.case(dict(short, first_rows=[r for rows in c['comps'] for r in rows][:4]), nontrivial=nontriv)
        try:
            res = impl_run(c)
        except BaseException as e:
            chk.fail('impl', 'writing the event list failed: %s: %s on %s' % (type(e).__name__, e, short), dict(oracle='finalize', case=c, error=str(e)))
            continue
        bad = invariants(res, [(a * TICK, b * TICK) for a, b in c['gtis']], c['dead'] * TICK, hx, hy, rows=[r for comp in concrete(c) for r in comp])
        if bad:
            chk.fail('impl', 'written file violates: %s (case %s)' % ('; '.join(bad), short), dict(oracle='finalize', case=c, violated=bad))
            continue
        if [int(x) for x in res['tag']] != m_tag or [int(x) for x in res['livetime']] != m_lt or [int(x) for x in res['trg']] != m_trg:
            chk.fail('correspondence', 'finalize: model (tags %s… livetime %s…) vs implementation (tags %s… livetime %s…) on %s' % (
                m_tag[:6], m_lt[:6], res['tag'][:6].tolist(), res['livetime'][:6].tolist(), short),
                dict(op='finalize', case=c, model=dict(tag=m_tag, livetime=m_lt, trg=m_trg),
                     impl=dict(tag=res['tag'].tolist(), livetime=res['livetime'].tolist(), trg=res['trg'].tolist())))


CONFIGS = ['toy_point_source.py', 'toy_multiple_sources.py', 'toy_periodic_source.py', 'toy_disk.py', 'toy_gauss_disk.py',
           'toy_point_source_bkg.py', 'toy_rim.py']


def simulated(chk, tagname, budget=1):
    """End-to-end: real ROI models simulated on synthetic GTIs; invariants checked on the written files."""
    import simdrive
    from astropy.io import fits
    from ixpeobssim.bin.xpobssim import PARSER
    g = rng(tagname)
    hx, hy = fiducial()
    cfgs = CONFIGS[:3] if chk.tier == 'quick' else CONFIGS
    gtis = [(0., 120.), (200., 200.0004), (300., 700.)]
    layouts = {0: gtis}
    for k_, cfg in enumerate(cfgs):
        # GTI layouts: chronological with a very short interval; listed out of chronological order with a nested interval; many back-to-back
        # intervals (an observation cut at regular marks) — the statement does not depend on how the list is arranged
        gtis = [[(0., 120.), (200., 200.0004), (300., 700.)], [(300., 700.), (0., 120.), (320., 400.), (200., 200.0004)],
                [(0.25 * j, 0.25 * (j + 1)) for j in range(400)] + [(300., 700.)]][k_ % 3]
        for du in ((int(g.integers(1, 4)),) if chk.tier == 'quick' else (1, 2, 3)):
            for dead in ((PARSER.get_default('deadtime'),) if chk.tier == 'quick' else (0., PARSER.get_default('deadtime'), 0.05)):
                desc = dict(op='simulate', config=cfg, gtis=gtis, du=du, deadtime=dead, seed=int(g.integers(1, 10 ** 6)))
                chk.case(desc, nontrivial=True)
                with scratch() as d:
                    path = os.path.join(d, 'sim.fits')
                    try:
                        simdrive.simulate(simdrive.config_path(cfg), path, gtis=gtis, du_id=du, seed=desc['seed'], duration=700., deadtime=dead)
                    except BaseException as e:
                        chk.fail('impl', 'simulation of %s did not complete: %s: %s' % (cfg, type(e).__name__, e), dict(oracle='simulate', args=desc, error=str(e)))
                        continue
                    with fits.open(path) as h:
                        ev, mc = h['EVENTS'].data, h['MONTE_CARLO'].data
                        res = dict(time=numpy.array(ev['TIME'], dtype=float), sec=numpy.array(ev['SEC'], dtype=numpy.int64), usec=numpy.array(ev['MICROSEC'], dtype=numpy.int64),
                                   trg=numpy.array(ev['TRG_ID'], dtype=numpy.int64), src=numpy.array(mc['SRC_ID'], dtype=numpy.int64),
                                   detx=numpy.array(ev['DETX'], dtype=float), dety=numpy.array(ev['DETY'], dtype=float),
                                   roi=[int(x) for x in h['ROITABLE'].data['SRCID']], tstart=h['EVENTS'].header['TSTART'], tstop=h['EVENTS'].header['TSTOP'],
                                   nev=len(ev), nmc=len(mc))
                bad = invariants(res, gtis, dead, hx, hy)
                if bad:
                    chk.fail('impl', 'simulated file (%s, DU %d, dead time %g) violates: %s' % (cfg, du, dead, '; '.join(bad)),
                             dict(oracle='simulate', args=desc, violated=bad))


def roi_histories(chk, tagname):
    """ROI models built one after the other in the same process and sharing component objects (a source first on its own, then together with
    a background; two models summed): whichever is simulated and written, every SRC_ID of its file is listed in its ROITABLE, with its name"""
    import simdrive
    from astropy.io import fits
    from ixpeobssim.srcmodel.roi import xROIModel, xPointSource
    from ixpeobssim.srcmodel.bkg import xTemplateInstrumentalBkg
    from ixpeobssim.srcmodel.spectrum import power_law
    from ixpeobssim.srcmodel.polarization import constant
    g = rng(tagname)
    ra, dec = 30., 45.
    src = xPointSource('the source', ra, dec, power_law(5., 2.), constant(0.2), constant(0.3))
    src2 = xPointSource('another source', ra + 0.01, dec, power_law(3., 2.), constant(0.), constant(0.))
    bkg = xTemplateInstrumentalBkg()
    roi_src = xROIModel(ra, dec, src)
    roi_both = xROIModel(ra, dec, bkg, src)              # the same component object, now second in another model
    roi_sum = xROIModel(ra, dec, src2) + roi_src
    for label, roi in (('the source alone, built before a model that holds the same component second', roi_src), ('background + source', roi_both), ('sum of two models', roi_sum)):
        desc = dict(op='simulate-roi-history', model=label, du=int(g.integers(1, 4)), seed=int(g.integers(1, 10 ** 6)))
        chk.case(desc, nontrivial=True)
        with scratch() as d:
            path = os.path.join(d, 'sim.fits')
            try:
                simdrive.simulate(simdrive.config_path('toy_point_source.py'), path, gtis=[(0., 300.)], du_id=desc['du'], seed=desc['seed'], duration=300., roi_model=roi)
            except BaseException as e:
                chk.fail('impl', 'simulation of the model "%s" did not complete: %s: %s' % (label, type(e).__name__, e), dict(oracle='roi-history', args=desc, error=str(e)))
                continue
            with fits.open(path) as h:
                ids = sorted(set(int(x) for x in h['MONTE_CARLO'].data['SRC_ID']))
                table = {int(i): str(n_).strip() for i, n_ in zip(h['ROITABLE'].data['SRCID'], h['ROITABLE'].data['SRCNAME'])}
        names = {int(c.identifier): c.name for c in roi.values()}
        if any(i not in table for i in ids) or any(table.get(i) != (names.get(i) or '')[:20].strip() for i in ids):
            chk.fail('impl', 'model "%s": the file holds SRC_ID %s, its ROITABLE lists %s, the components of the model are %s' % (label, ids, table, names),
                     dict(oracle='roi-history', args=desc, src_ids=ids, roitable=table))


def float_regime(chk, tagname, budget=1):
    """the dead-time veto on realistic (non-dyadic) numbers: mission times of a few 1e8 s, where a double resolves 3-6e-8 s, the default
    1.08 ms dead time, kHz rates. The statement is evaluated in the arithmetic the file holds: the difference of two nearby doubles is exact,
    so `TIME[i+1] - TIME[i] >= deadtime` is an exact test; every vetoed event lies within one dead time of the last accepted one before it"""
    import evfile
    g = rng(tagname)
    for k in range((2 if chk.tier == 'quick' else 10) * budget):
        t0 = float(g.choice([2.0e8, 2.7e8, 3.0e8, 3.3e8])) + float(g.uniform(0., 1.e6))
        dead = float(g.choice([0.00108, 0.001, 0.00125]))
        n = 150000
        t = numpy.sort(t0 + g.uniform(0., n / 3000., n))
        el = evfile.make_event_list(t, tag=numpy.arange(n) % 30000)
        el.apply_dead_time(dead)
        kept = numpy.array(el.time(), dtype=float)
        chk.case(dict(op='apply_dead_time-float', met=t0, deadtime=dead, events=n, kept=len(kept)), nontrivial=True)
        d = numpy.diff(kept)
        short = numpy.where(d < dead)[0]
        if len(short):
            j = int(short[0])
            chk.fail('impl', 'dead time %r at MET %.1f: %d accepted pairs are closer than one dead time (rows %d, %d: %.10f s, short by %.2e s)' % (
                dead, t0, len(short), j, j + 1, d[j], dead - d[j]), dict(oracle='float-regime', met=t0, deadtime=dead, seed_index=k))
            continue
        # maximality: a vetoed event is within one dead time of the accepted event before it
        idx = numpy.searchsorted(kept, t, side='right') - 1
        vetoed = ~numpy.isin(t, kept)
        late = vetoed & (t - kept[numpy.maximum(idx, 0)] >= dead)
        if late.any():
            chk.fail('impl', 'dead time %r at MET %.1f: %d events were vetoed although a full dead time had elapsed since the last accepted event' % (dead, t0, int(late.sum())),
                     dict(oracle='float-regime-maximal', met=t0, deadtime=dead, seed_index=k))


def main(chk):
    chk.rule = ('crafted components (1–6 incl. empty ones, 0–40 rows each, distinct dyadic times inside 1–4 GTIs, dense clusters well above 1/deadtime, '
                'coordinates inside/outside/exactly on the fiducial boundary) concatenated through xEventList.__add__ in two orders, finalized and written by '
                'write_fits, re-read with astropy and compared exactly with the Lean model (tags, LIVETIME, TRG_ID) + the statement evaluated on the file; '
                'real ROI models simulated on synthetic GTIs. non-trivial = ≥ 2 non-empty components and at least one row removed (veto or fiducial cut)')
    chk.assumptions = TRUSTED
    chk.lean(['IxpeVerif.Props.C04', 'IxpeVerif.Props.Audit.C04'], ['within_fiducial_rectangle', 'split_event_time', 'apply_dead_time', 'fill_livetime', 'skel_finalize'])
    import corr_gen
    corr_gen.run(chk, ['within_fiducial_rectangle', 'split_event_time'], n=100 if chk.tier == 'quick' else 2000, tag='C04')
    n = 60 if chk.tier == 'quick' else 1500
    run_cases(chk, n, 'C04-corr')
    simulated(chk, 'C04-sim')
    roi_histories(chk, 'C04-roi')
    float_regime(chk, 'C04-float')
    return chk.finish(level='proof', trusted=TRUSTED, search=lambda k: run_cases(chk, n, 'C04-search', k))


def replay(body):
    r = body['replay']
    if 'case' in r:
        hx, hy = fiducial()
        c = r['case']
        c['gtis'] = [tuple(x) for x in c['gtis']]
        try:
            res = impl_run(c)
        except BaseException as e:
            out('implementation raised %s: %s' % (type(e).__name__, e))
            return 1
        bad = invariants(res, [(a * TICK, b * TICK) for a, b in c['gtis']], c['dead'] * TICK, hx, hy)
        out('invariants violated on the recorded case: %s' % (bad or 'none'))
        if 'model' in r:
            same = res['tag'].tolist() == r['model']['tag'] and res['livetime'].tolist() == r['model']['livetime']
            out('implementation %s the recorded model output' % ('matches' if same else 'DIFFERS from'))
            return 0 if (same and not bad) else 1
        return 1 if bad else 0
    import sys
    import common
    return common.replay_rerun(sys.modules[__name__], body)
