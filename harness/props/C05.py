"""C05 — livetime and dead-time bookkeeping is exact (DESIGN.md section 7, C05)."""
import os
import types
import numpy

from common import out, rng, Driver, scratch

TICK = 2.0 ** -20
TRUSTED = ['Lean 4.33 kernel (core only, no Mathlib)', 'axioms: propext only',
           'hand-written model Livetime.fillLivetimeW tied by exact correspondence on dyadic inputs',
           'numpy.searchsorted/diff/fancy assignment semantics as modelled', 'astropy FITS I/O',
           'float rounding on non-dyadic inputs (default dead time) is outside the model: checked within ±1 µs']


# ------------------------------------------------------------------ case generation
def gen_case(g, allow_outside=True):
    """Times in ticks. Returns dict(s0, stop, gtis, times, dead)."""
    s0 = int(g.integers(0, 2 ** 30)) * 2 ** 20 if g.uniform() < 0.5 else int(g.integers(0, 1000)) * 2 ** 18
    ngti = int(g.integers(1, 6))
    dead = int(g.choice([0, 1, 2 ** 10, 1132, 2 ** 17, 2 ** 20, 5 * 2 ** 20]))
    t = s0 + (int(g.integers(0, 3)) * 2 ** 19 if g.uniform() < 0.5 else 0)
    gtis = []
    for _ in range(ngti):
        length = int(g.integers(1, 200)) * 2 ** int(g.integers(10, 23))
        gtis.append((t, t + length))
        gap = max(dead, 1) + int(g.integers(0, 100)) * 2 ** int(g.integers(8, 22))
        if g.uniform() < 0.3:
            # a gap shorter than the dead time, down to none at all (back-to-back intervals): the known finding C05-gap-shorter-than-deadtime only
            # concerns an event less than one dead time before the next start — such events are removed below
            gap = int(g.choice([0, 0, 1, max(dead // 2, 1)]))
        t = t + length + gap
    stop = gtis[-1][1] + (int(g.integers(0, 3)) * 2 ** 19)
    # events: per GTI none / one / a few / many; optionally exactly on the start, exactly on the stop
    times = []
    for (a, b) in gtis:
        mode = g.choice(['none', 'one', 'few', 'many', 'edge'], p=[0.25, 0.15, 0.3, 0.15, 0.15])
        if mode == 'none':
            continue
        k = {'one': 1, 'few': int(g.integers(2, 6)), 'many': int(g.integers(6, 40)), 'edge': int(g.integers(1, 4))}[mode]
        # (an event exactly *on* a GTI start is the known finding C05-event-exactly-on-gti-start and is kept out of the main stream)
        ts = sorted(set(int(x) for x in g.integers(a + 1, b + 1, k)))
        if mode == 'edge':
            ts = sorted(set(ts + [a + 1 if g.uniform() < 0.5 else b] + ([a + 2] if g.uniform() < 0.3 else [])))
        times += ts
    if allow_outside and g.uniform() < 0.15 and len(gtis) > 1:
        # calibration-like events inside a gap
        a, b = gtis[0][1], gtis[1][0]
        if b - a > 2:
            times.append(int(g.integers(a + 1, b)))
    times = sorted(set(times))
    # keep the main stream out of the listed finding: no event in the dead time before the start of a later interval
    for (a, _) in gtis[1:]:
        times = [x for x in times if not (a - max(dead, 1) < x <= a)]      # (an event exactly on a start is the other listed finding)
    return dict(s0=s0, stop=stop, gtis=gtis, times=times, dead=dead)


def spaced(case):
    """apply the dead-time veto so that the events are what `_finalize` would hand to fill_livetime"""
    out, last = [], None
    for t in case['times']:
        if last is None or t - last >= case['dead']:
            out.append(t)
            last = t
    return dict(case, times=out)


# ------------------------------------------------------------------ the implementation
def impl_fill(case):
    from ixpeobssim.evt.event import xEventList
    from ixpeobssim.evt.gti import xGTIList
    if not case['times']:
        return []
    gl = xGTIList(case['s0'] * TICK, case['stop'] * TICK, *[(a * TICK, b * TICK) for a, b in case['gtis']])
    el = xEventList(numpy.array(case['times'], dtype=float) * TICK, 0)
    el.fill_livetime(gl, case['dead'] * TICK)
    return [int(x) for x in el.livetime()]


def spec_livetime(case):
    """The property statement, transcribed independently: µs since max(prev + dead, start of the event's GTI)."""
    out, prev = [], None
    for t in case['times']:
        g = max([a for a, b in case['gtis'] if a <= t], default=None)
        if g is None:
            return None
        ref = g if prev is None else max(prev + case['dead'], g)
        out.append(((t - ref) * 15625) // 16384)
        prev = t
    return out


def in_spec_domain(case):
    """Events strictly after a GTI start they belong to, inside GTIs, spaced by >= dead."""
    for t in case['times']:
        if not any(a < t <= b for a, b in case['gtis']):
            return False
    ts = case['times']
    return all(ts[i + 1] - ts[i] >= case['dead'] for i in range(len(ts) - 1))


def model_line(case):
    return 'livetime %d %d %d %s %d %s' % (case['s0'], case['dead'], len(case['gtis']), ' '.join(str(a) for a, _ in case['gtis']),
                                           len(case['times']), ' '.join(map(str, case['times'])))


# ------------------------------------------------------------------ file-level check (write_fits header)
def o_header(a):
    """Write a synthetic event list through write_fits and check column + keywords."""
    import evfile
    from astropy.io import fits
    case = a['case']
    with scratch() as d:
        path = os.path.join(d, 'ev.fits')
        times = numpy.array(case['times'], dtype=float) * TICK
        src = numpy.array(a.get('src') or [0] * len(times))
        el = evfile.make_event_list(times, src=src, tag=numpy.arange(len(times)))
        over = {}
        if a.get('onorbitcalib'):
            from ixpeobssim.instrument.fcw import xOnOrbitCalibrationPattern
            pat = xOnOrbitCalibrationPattern([], types.SimpleNamespace(identifier=1), 1)
            over = dict(onorbitcalib=True, calib_pattern=pat)
        evfile.write_event_list(el, path, [(x * TICK, y * TICK) for x, y in case['gtis']], case['s0'] * TICK, case['stop'] * TICK,
                                nsrc=2, deadtime=case['dead'] * TICK, **over)
        with fits.open(path) as h:
            col = numpy.array(h['EVENTS'].data['LIVETIME'], dtype=numpy.int64)
            t = numpy.array(h['EVENTS'].data['TIME'])
            srcid = numpy.array(h['MONTE_CARLO'].data['SRC_ID'])
            hdrs = [dict(h[n].header) for n in ('PRIMARY', 'EVENTS', 'GTI')]
    obs = {}
    ok = True
    sel = (srcid != 1) if a.get('onorbitcalib') else numpy.ones(len(col), dtype=bool)
    ontime = sum((y - x) for x, y in case['gtis']) * TICK
    for hd in hdrs:
        lt, on, dc = hd['LIVETIME'], hd['ONTIME'], hd['DEADC']
        ok &= abs(lt - 1e-6 * col[sel].sum()) <= 1e-9 * max(1., abs(lt))
        ok &= abs(on - ontime) <= 1e-9 * ontime
        ok &= abs(dc - lt / on) <= 1e-12
        if len(col[sel]) and col[sel].sum() > 0:
            ok &= 0. < dc <= 1.
        obs = dict(LIVETIME=lt, ONTIME=on, DEADC=dc, col_sum_us=int(col[sel].sum()), ontime_expected=ontime)
    # the column written by the whole chain (`write_fits` → `_finalize` → `fill_livetime` with the GTI list of the run) is the specification
    exp = spec_livetime(case)
    if len(col) == len(exp) and [int(x) for x in col] != exp:
        j = [i for i in range(len(exp)) if int(col[i]) != exp[i]][0]
        ok = False
        obs.update(column_row=j, column_observed=int(col[j]), column_expected=exp[j])
    return bool(ok), obs


def o_fill(a):
    case = a['case']
    got = impl_fill(case)
    exp = spec_livetime(case)
    return got == exp, dict(observed=got, expected=exp)


ORACLES = dict(fill=o_fill, header=o_header)


def run_cases(chk, n, tagname, budget=1):
    g = rng(tagname)
    drv = Driver()
    cases = []
    for i in range(n * budget):
        c = gen_case(g)
        if i % 2:
            c = spaced(c)
        cases.append(c)
        drv.ask(model_line(c))
    replies = drv.run()
    for c, rep in zip(cases, replies):
        model = [int(x) for x in rep.split()]
        nontriv = len(c['gtis']) >= 2 and len(c['times']) >= 2
        chk.case(dict(op='fill_livetime', **c), nontrivial=nontriv)
        try:
            impl = impl_fill(c)
            err = None
        except Exception as e:
            impl, err = None, '%s: %s' % (type(e).__name__, e)
        if err is not None:
            # "the simulation completes for any placement of events relative to the GTIs"
            chk.fail('impl', 'fill_livetime raised %s on %s' % (err, c), dict(oracle='fill', args=dict(case=c), error=err))
            continue
        if impl != model:
            chk.fail('correspondence', 'fill_livetime: model %s vs implementation %s on %s' % (model, impl, c),
                     dict(op='fill_livetime', case=c, model=model, impl=impl))
        # the specification itself, on the implementation, where it applies
        if in_spec_domain(c):
            exp = spec_livetime(c)
            if exp is not None and impl != exp:
                chk.fail('impl', 'LIVETIME column differs from the specification: observed %s expected %s on %s' % (impl, exp, c),
                         dict(oracle='fill', args=dict(case=c), observed=impl, expected=exp))
    return cases


def file_level(chk, n, tagname):
    g = rng(tagname)
    for i in range(n):
        c = spaced(gen_case(g, allow_outside=False))
        if not c['times']:
            continue
        a = dict(case=c)
        if i % 3 == 0:
            # on-orbit calibration events (SRC_ID 1) are excluded from the header LIVETIME
            a['onorbitcalib'] = True
            a['src'] = [int(x) for x in g.integers(0, 2, len(c['times']))]
        chk.case(dict(op='write_fits-header', **{k: v for k, v in a.items()}), nontrivial=len(c['gtis']) >= 2)
        try:
            ok, obs = o_header(a)
        except Exception as e:
            ok, obs = False, dict(exception='%s: %s' % (type(e).__name__, e))
        if not ok:
            chk.fail('impl', 'file written through write_fits: header LIVETIME/ONTIME/DEADC inconsistent with the LIVETIME column, or the column is not the specification: %s' % obs,
                     dict(oracle='header', args=a, observed=obs))


def simulated(chk, tagname):
    """End-to-end: real simulations on synthetic GTIs (including GTIs without events), default (non-dyadic) dead time."""
    import simdrive
    from astropy.io import fits
    g = rng(tagname)
    layouts = [[(0., 300.), (500., 900.), (1000., 1400.)],
               [(100., 300.), (500., 500.001), (900., 1500.)],       # middle GTI too short to hold events
               [(0., 400.), (1000., 1000.0005)]]                     # trailing GTI without events
    if chk.tier != 'quick':
        layouts += [[(50., 50.001), (200., 900.)], [(0., 1500.)]]
    from ixpeobssim.bin.xpobssim import PARSER
    # the default dead time, and one comparable with the mean spacing of the events (several events inside one dead-time window are common)
    runs = [(gtis, du, None) for gtis in layouts for du in ((1,) if chk.tier == 'quick' else (1, 2, 3))] + \
           [(layouts[0], 1, 0.05)] + ([(layouts[1], 2, 0.2), (layouts[-1], 3, 0.02)] if chk.tier != 'quick' else [])
    for i, (gtis, du, dt_) in enumerate(runs):
        if True:
            with scratch() as d:
                path = os.path.join(d, 'sim.fits')
                desc = dict(op='simulate', config='toy_point_source.py', gtis=gtis, du=du, seed=int(g.integers(1, 10 ** 6)), deadtime=dt_)
                chk.case(desc, nontrivial=len(gtis) > 1)
                over = dict(deadtime=dt_) if dt_ is not None else {}
                try:
                    simdrive.simulate(simdrive.config_path('toy_point_source.py'), path, gtis=gtis, du_id=du, seed=desc['seed'], duration=1500., **over)
                except Exception as e:
                    chk.fail('impl', 'simulation did not complete on GTIs %s: %s: %s' % (gtis, type(e).__name__, e),
                             dict(oracle='simulate', args=desc, error=str(e)))
                    continue
                with fits.open(path) as h:
                    ev = h['EVENTS'].data
                    t = numpy.array(ev['TIME'])
                    lt = numpy.array(ev['LIVETIME'], dtype=numpy.int64)
                    hd = h['EVENTS'].header
                    dead = 1.08e-3 if 'DEADTIME' not in hd else hd['DEADTIME']
                dead = PARSER.get_default('deadtime') if dt_ is None else dt_
                # dead-time bookkeeping: no event is recorded while the detector is dead from an earlier recorded event, no live time is negative
                if len(t) > 1 and (numpy.diff(t) < dead - 1e-9).any():
                    j = int(numpy.where(numpy.diff(t) < dead - 1e-9)[0][0])
                    chk.fail('impl', 'simulated file (dead time %r): rows %d, %d are %.6g s apart — recorded while the detector was dead' % (dead, j, j + 1, t[j + 1] - t[j]),
                             dict(oracle='simulate', args=desc, row=j))
                if (lt < 0).any():
                    j = int(numpy.where(lt < 0)[0][0])
                    chk.fail('impl', 'simulated file (dead time %r): LIVETIME[%d] = %d microseconds is negative' % (dead, j, lt[j]), dict(oracle='simulate', args=desc, row=j))
                exp = []
                prev = None
                for x in t:
                    gs = max(a for a, b in gtis if a <= x)
                    ref = gs if prev is None else max(prev + dead, gs)
                    exp.append(numpy.floor((x - ref) * 1e6))
                    prev = x
                exp = numpy.array(exp)
                bad = numpy.abs(exp - lt) > 1
                if bad.any():
                    j = int(numpy.where(bad)[0][0])
                    chk.fail('impl', 'simulated file: LIVETIME[%d]=%d, specification gives %d (t=%.6f)' % (j, lt[j], exp[j], t[j]),
                             dict(oracle='simulate', args=desc, row=j, observed=int(lt[j]), expected=float(exp[j])))
                ontime = sum(b - a for a, b in gtis)
                ok = abs(hd['ONTIME'] - ontime) < 1e-6 and abs(hd['LIVETIME'] - 1e-6 * lt.sum()) < 1e-6 and abs(hd['DEADC'] - hd['LIVETIME'] / hd['ONTIME']) < 1e-12 \
                    and (0 < hd['DEADC'] <= 1 if len(t) else True)
                if not ok:
                    chk.fail('impl', 'simulated file: header keywords inconsistent: LIVETIME=%s ONTIME=%s DEADC=%s (Σcol=%s, good time=%s)' % (
                        hd['LIVETIME'], hd['ONTIME'], hd['DEADC'], 1e-6 * lt.sum(), ontime), dict(oracle='simulate', args=desc))


def app_level(chk, tagname):
    """the real application: the three detector units of one run share the GTI list object; the LIVETIME column and the keywords of *every* file
    follow the statement (what finalising one unit does to the list must not show in the next)"""
    import simdrive
    from astropy.io import fits
    from ixpeobssim.bin.xpobssim import PARSER
    g = rng(tagname)
    dead = PARSER.get_default('deadtime')
    duration = 900.
    desc = dict(op='xpobssim-app', config='toy_point_source.py', seed=int(g.integers(1, 10 ** 6)), saa=[(300., 420.)], occ=[(0., 35.), (600., 700.)])
    chk.case(desc, nontrivial=True)
    with scratch() as d:
        try:
            files = simdrive.app_run(simdrive.config_path('toy_point_source.py'), os.path.join(d, 'sim'), duration=duration, seed=desc['seed'], saa=desc['saa'], occ=desc['occ'],
                                     extra=['--saa', 'True', '--occult', 'True'])
        except BaseException as e:
            chk.fail('impl', 'xpobssim did not complete: %s: %s' % (type(e).__name__, e), dict(oracle='app', args=desc, error=str(e)))
            return
        for du, path in enumerate(files, start=1):
            with fits.open(path) as h:
                t = numpy.array(h['EVENTS'].data['TIME'], dtype=float)
                lt = numpy.array(h['EVENTS'].data['LIVETIME'], dtype=numpy.int64)
                gtis = [(float(a), float(b)) for a, b in zip(h['GTI'].data['START'], h['GTI'].data['STOP'])]
                hd = dict(h['EVENTS'].header)
            exp, prev = [], None
            for x in t:
                gs = max(a for a, b in gtis if a <= x)
                ref = gs if prev is None else max(prev + dead, gs)
                exp.append(numpy.floor((x - ref) * 1e6))
                prev = x
            exp = numpy.array(exp)
            bad = numpy.abs(exp - lt) > 1
            if bad.any():
                j = int(numpy.where(bad)[0][0])
                chk.fail('impl', 'xpobssim, DU %d of one run: LIVETIME[%d] = %d µs, the statement gives %d (event %.6f s after the start of its GTI)' % (
                    du, j, lt[j], exp[j], t[j] - max(a for a, b in gtis if a <= t[j])), dict(oracle='app', args=desc, du=du, row=j))
                continue
            ontime = sum(b - a for a, b in gtis)
            if not (abs(hd['ONTIME'] - ontime) < 1e-6 and abs(hd['LIVETIME'] - 1e-6 * lt.sum()) < 1e-6 and abs(hd['DEADC'] - hd['LIVETIME'] / hd['ONTIME']) < 1e-12 and 0 < hd['DEADC'] <= 1):
                chk.fail('impl', 'xpobssim, DU %d: LIVETIME=%s ONTIME=%s DEADC=%s (Σcol=%s, good time=%s)' % (du, hd['LIVETIME'], hd['ONTIME'], hd['DEADC'], 1e-6 * lt.sum(), ontime),
                         dict(oracle='app', args=desc, du=du))


def known_findings(chk):
    for e in chk.findings:
        if e.get('status') != 'known':
            continue
        w = e['witness']
        if e['id'] in ('C05-gap-shorter-than-deadtime', 'C05-event-exactly-on-gti-start'):
            got = impl_fill(w)
            exp = spec_livetime(w)
            chk.known_finding(e, got != exp and got == e['observed_value'], observed=str(got))
        elif e['id'] == 'C05-livetime-int32-overflow':
            import evfile
            from astropy.io import fits
            with scratch() as d:
                path = os.path.join(d, 'ev.fits')
                evfile.write_event_file(path, w['times'], gtis=[tuple(x) for x in w['gtis']], tstart=w['tstart'], tstop=w['tstop'])
                with fits.open(path) as h:
                    col = [int(x) for x in h['EVENTS'].data['LIVETIME']]
            chk.known_finding(e, min(col) < 0, observed=str(col))


def incremental_gti(chk, tagname):
    """a GTI list built one interval at a time (orbit by orbit), looked at in between (total, printout): at every stage the total good time is
    the sum of the intervals it holds, and ONTIME of a file written with it is the sum of its GTI rows"""
    import evfile
    from astropy.io import fits
    from ixpeobssim.evt.gti import xGTIList
    g = rng(tagname)
    for k in range(3 if chk.tier == 'quick' else 30):
        n = int(g.integers(2, 6))
        cuts = numpy.sort(g.uniform(0., 5000., 2 * n))
        gtis = [(float(cuts[2 * i]), float(cuts[2 * i + 1])) for i in range(n)]
        gl = xGTIList(0., 5000.)
        look = [bool(g.integers(0, 2)) for _ in gtis]
        chk.case(dict(op='incremental-gti', gtis=len(gtis), queried_between=look), nontrivial=any(look[:-1]))
        ok = True
        for i, (a, b) in enumerate(gtis):
            gl.append_gti(a, b)
            if look[i]:
                tot, _ = gl.total_good_time(), str(gl)
                exp = sum(y - x for x, y in gtis[:i + 1])
                if abs(tot - exp) > 1e-9 * max(1., exp):
                    chk.fail('impl', 'xGTIList built incrementally: after %d intervals total_good_time() = %r, the intervals add up to %r (queried after each of %s)' % (
                        i + 1, tot, exp, [j + 1 for j in range(i + 1) if look[j]]), dict(oracle='incremental-gti', gtis=gtis, look=look))
                    ok = False
                    break
        if not ok:
            continue
        exp = sum(y - x for x, y in gtis)
        with scratch() as d:
            path = os.path.join(d, 'inc.fits')
            t = numpy.sort(numpy.concatenate([g.uniform(a, b, 20) for a, b in gtis]))
            el = evfile.make_event_list(t)
            kw = evfile.obssim_kwargs(outfile=path, irfname='ixpe:obssim20240101:v13', start_met=0., duration=5000., stop_met=5000., gti_list=gl, deadtime=0.00108,
                                      timelinedata=False, scdata=False, onorbitcalib=False, charging=False, objname='synthetic')
            el.write_fits('verif', evfile.FakeRoi(30., 45., 1), evfile.FakeIrf(1), **kw)
            with fits.open(path) as h:
                ontime = h[0].header['ONTIME']
                rows = float(numpy.sum(numpy.array(h['GTI'].data['STOP'], dtype=float) - numpy.array(h['GTI'].data['START'], dtype=float)))
                deadc = h[0].header['DEADC']
        if abs(ontime - rows) > 1e-9 * max(1., rows) or abs(rows - exp) > 1e-9 * max(1., exp) or not (0. < deadc <= 1.):
            chk.fail('impl', 'file written with an incrementally built GTI list: ONTIME = %r, GTI rows add up to %r (intervals %r), DEADC = %r' % (ontime, rows, exp, deadc),
                     dict(oracle='incremental-gti-file', gtis=gtis, look=look))


def main(chk):
    chk.rule = ('exact model-vs-implementation comparison of fill_livetime on dyadic times: 1–5 GTIs (gaps ≥ dead time), per GTI none/one/few/many '
                'events incl. events exactly on GTI start/stop and calibration-like events in gaps, dead time 0…5 s; independent specification '
                'evaluated on the implementation where events lie inside GTIs; header keywords through write_fits (with/without on-orbit '
                'calibration rows); real simulations on synthetic GTIs. non-trivial = ≥ 2 GTIs and ≥ 2 events')
    chk.assumptions = TRUSTED
    chk.lean(['IxpeVerif.Props.C05', 'IxpeVerif.Props.Audit.C05'], ['fill_livetime', 'total_good_time', 'skel_finalize'])
    n = 300 if chk.tier == 'quick' else 5000
    run_cases(chk, n, 'C05-corr')
    file_level(chk, 12 if chk.tier == 'quick' else 150, 'C05-file')
    simulated(chk, 'C05-sim')
    app_level(chk, 'C05-app')
    incremental_gti(chk, 'C05-inc')
    known_findings(chk)
    return chk.finish(level='proof', trusted=TRUSTED, search=lambda k: run_cases(chk, n, 'C05-search', k))


def replay(body):
    r = body['replay']
    if r.get('oracle') in ORACLES:
        try:
            ok, obs = ORACLES[r['oracle']](r['args'])
        except Exception as e:
            ok, obs = False, '%s: %s' % (type(e).__name__, e)
        out('oracle %s on the recorded input: %s  %s' % (r['oracle'], 'holds' if ok else 'FAILS', obs))
        return 0 if ok else 1
    if r.get('op') == 'fill_livetime':
        out('implementation now gives', impl_fill(r['case']), 'model gave', r['model'])
        return 1
    import sys
    import common
    return common.replay_rerun(sys.modules[__name__], body)
