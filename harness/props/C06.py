"""C06 — rotation covariance; Stokes and angle pictures agree (DESIGN.md section 7, C06)."""
import math
import numpy

import corr_gen
from common import out, rng

GEN = ['stokes_q', 'stokes_u', 'align_stokes_parameters', 'delta_phi_stokes', 'correct_phi_stokes',
       'stokes_rotation_angle', 'correct_stokes_parameters', 'modulo_2pi', 'du_rotation_angle',
       'phi_to_detphi', 'detphi_to_phi', 'model_pa', 'model_pd', 'fold_angle_rad', 'fold_angle_deg', 'delta_phi_ampl']
TRUSTED = ['Lean 4.33 kernel', 'Mathlib v4.33', 'axioms: propext, Classical.choice, Quot.sound',
           'translator/py2lean.py (validated by corr_gen on every run)',
           'Kislat.polarization hand model (tied by the C02 correspondence)',
           'floating-point rounding is outside the model (theorems over ℝ)']


def angdiff(a, b, period):
    d = (a - b) % period
    return min(d, period - d)


# ------------------------------------------------------------------ oracles on the implementation
def o_align(a):
    from ixpeobssim.evt.align import align_stokes_parameters
    from ixpeobssim.evt.kislat2015 import xStokesAnalysis as SA
    phi, phi0 = numpy.array(a['phi']), numpy.array(a['phi0'])
    q, u = align_stokes_parameters(SA.stokes_q(phi), SA.stokes_u(phi, None), SA.stokes_q(phi0), SA.stokes_u(phi0, None))
    eq, eu = SA.stokes_q(phi - phi0), SA.stokes_u(phi - phi0, None)
    err = float(max(numpy.abs(q - eq).max(), numpy.abs(u - eu).max()))
    return err < 1e-12, dict(max_abs_err=err)


def o_spurmrot(a):
    from ixpeobssim.evt import spurmrot
    from ixpeobssim.evt.kislat2015 import xStokesAnalysis as SA
    phi, qs, us = numpy.array(a['phi']), numpy.array(a['qs']), numpy.array(a['us'])
    q, u = spurmrot.correct_stokes_parameters(SA.stokes_q(phi), SA.stokes_u(phi, None), qs, us)
    phic = spurmrot.correct_phi_stokes(phi, qs, us)
    eq, eu = SA.stokes_q(phic), SA.stokes_u(phic, None)
    err = float(max(numpy.abs(q - eq).max(), numpy.abs(u - eu).max()))
    # the amplitude / phase flavour of the angle-space correction, at the amplitude and phase of the same spurious modulation — with either sign of
    # the amplitude (A, φ_s) and (−A, φ_s + π/2) describe the same (q_s, u_s)
    amp, ph = numpy.hypot(qs, us), 0.5 * numpy.arctan2(us, qs)
    sgn = numpy.where(numpy.arange(len(phi)) % 2 == 0, 1., -1.)
    pa = spurmrot.correct_phi_ampl(phi, sgn * amp, ph + numpy.where(sgn < 0, 0.5 * math.pi, 0.))
    err_ampl = float(max(numpy.abs(SA.stokes_q(pa) - eq).max(), numpy.abs(SA.stokes_u(pa, None) - eu).max()))
    return err < 1e-12 and err_ampl < 1e-11, dict(max_abs_err=err, max_abs_err_amplitude_flavour=err_ampl)


def o_detphi(a):
    from ixpeobssim.instrument.gpd import phi_to_detphi, detphi_to_phi
    phi = numpy.array(a['phi'])
    det = phi_to_detphi(phi, a['du'], a['roll'])
    back = detphi_to_phi(det, a['du'], a['roll'])
    err = float(numpy.abs(numpy.angle(numpy.exp(1j * (back - phi)))).max())
    inrange = bool((numpy.abs(det) <= math.pi + 1e-12).all() and (numpy.abs(back) <= math.pi + 1e-12).all())
    exact = float(numpy.abs(back - phi)[numpy.abs(phi) < math.pi - 1e-9].max(initial=0.))
    return err < 1e-12 and inrange and exact < 1e-12, dict(max_err_mod_2pi=err, in_range=inrange, max_err_interior=exact)


_IRF = {}


def irf(du):
    from ixpeobssim.irf import load_arf, load_modf, DEFAULT_IRF_NAME
    if du not in _IRF:
        _IRF[du] = (load_arf(DEFAULT_IRF_NAME, du), load_modf(DEFAULT_IRF_NAME, du))
    return _IRF[du]


def analyse(phi, energy, weights, du, acceptcorr, edges):
    from ixpeobssim.evt.kislat2015 import xStokesAnalysis as SA
    aeff, modf = irf(du)
    w = None if weights is None else (weights if isinstance(weights, numpy.ndarray) else numpy.array(weights, dtype=float))
    q, u = SA.stokes_q(phi), SA.stokes_u(phi, None)      # unweighted columns; the weights are passed separately, as xpbin does
    an = SA(q, u, numpy.array(energy, dtype=float), modf, aeff, 1000., w, acceptcorr)       # the caller's weight array itself, as a script re-using its arrays does
    return an.polarization_table(numpy.array(edges), degrees=True)


def o_rotation(a):
    """Cubes before/after rotating every PHI by d."""
    phi = numpy.array(a['phi'])
    wts = None if a['weights'] is None else numpy.array(a['weights'], dtype=float)      # one array object for both analyses
    t0 = analyse(phi, a['energy'], wts, a['du'], a['acceptcorr'], a['edges'])
    t1 = analyse(phi + a['d'], a['energy'], wts, a['du'], a['acceptcorr'], a['edges'])
    worst = {}
    ok = True
    for name in ('COUNTS', 'I', 'I_ERR', 'W2', 'MU', 'N_EFF', 'MDP_99', 'PD', 'PD_ERR', 'PA_ERR', 'E_MEAN'):
        x0, x1 = numpy.array(t0[name], dtype=float), numpy.array(t1[name], dtype=float)
        m = numpy.isfinite(x0) | numpy.isfinite(x1)
        err = float(numpy.max(numpy.abs(x0[m] - x1[m]) / numpy.maximum(1e-300, numpy.maximum(numpy.abs(x0[m]), 1.)), initial=0.))
        worst[name] = err
        ok &= err < 1e-9
    pa0, pa1 = numpy.array(t0['PA']), numpy.array(t1['PA'])
    pd = numpy.array(t0['PD'])
    # the angle is only defined where the bin has a measurable polarization and the masks are on
    defined = (numpy.array(t0['PA_ERR']) > 0) & (pd > 1e-6)
    dpa = [angdiff(float(x1), float(x0) + math.degrees(a['d']), 180.) for x0, x1 in zip(pa0[defined], pa1[defined])]
    worst['PA_shift_err_deg'] = max(dpa, default=0.)
    ok &= worst['PA_shift_err_deg'] < 1e-6
    ok &= bool((numpy.abs(pa1) <= 90. + 1e-9).all())
    return bool(ok), worst


def o_alignapp(a):
    """xpstokesalign on a list of files with different field centres: the Q, U written for every file are the Stokes parameters of
    PHI minus the model angle of *that* file's field (its own WCS reference unless --ra/--dec are given), whatever the position in the list"""
    import os
    import evfile
    from astropy.io import fits
    from common import scratch
    from ixpeobssim.bin.xpstokesalign import xpstokesalign, PARSER
    from ixpeobssim.evt.event import xEventFile
    from ixpeobssim.srcmodel.polarization import xRadialPolarizationField, xTangentialPolarizationField
    g = numpy.random.default_rng(a['seed'])
    worst, bad = 0., []
    with scratch() as d:
        paths = []
        for i, (ra0, dec0) in enumerate(a['centres']):
            n = 300
            p = os.path.join(d, 'f%d.fits' % i)
            evfile.write_event_file(p, numpy.sort(g.uniform(0., 1000., n)), tstart=0., tstop=1000., ra0=ra0, dec0=dec0,
                                    pi=g.integers(50, 200, n), phi=g.uniform(-math.pi, math.pi, n),
                                    ra=ra0 + g.normal(0, 0.02, n) / math.cos(math.radians(dec0)), dec=dec0 + g.normal(0, 0.02, n))
            paths.append(p)
        maps = None
        if a['mode'] in ('QU', 'PDA'):
            # model maps (64 x 64 pixels of 6") centred on the first field: polarized on one side, exactly unpolarized on the other, and
            # smaller than the field, so that some events fall where the model carries no polarization or outside its footprint
            from astropy.io import fits as _f
            ny = nx = 64
            yy, xx = numpy.mgrid[0:ny, 0:nx]
            pdm = numpy.where(xx < nx // 2, 0.2 + 0.5 * yy / ny, 0.)
            pam = numpy.radians(20. + 100. * xx / nx)
            qm, um = pdm * numpy.cos(2. * pam), pdm * numpy.sin(2. * pam)
            h = _f.Header()
            h['CTYPE1'], h['CTYPE2'] = 'RA---TAN', 'DEC--TAN'
            h['CRPIX1'], h['CRPIX2'] = 0.5 * (nx + 1), 0.5 * (ny + 1)
            h['CRVAL1'], h['CRVAL2'] = a['centres'][0]
            h['CDELT1'], h['CDELT2'] = -6. / 3600., 6. / 3600.
            maps = []
            for nm, arr in ((('q', qm), ('u', um)) if a['mode'] == 'QU' else (('pd', pdm), ('pa', pam))):
                mp = os.path.join(d, '%s.fits' % nm)
                _f.PrimaryHDU(data=arr, header=h).writeto(mp, overwrite=True)
                maps.append(mp)
        for order in a['orders']:
            args = [paths[i] for i in order] + ['--mode', a['mode'], '--overwrite', 'True'] + (['--modelfiles'] + maps if maps else [])
            if a.get('ra') is not None:
                args += ['--ra=%r' % a['ra'], '--dec=%r' % a['dec']]
            outs = xpstokesalign(**PARSER.parse_args(args).__dict__)
            for i, o in zip(order, outs):
                with fits.open(paths[i]) as f0, fits.open(o) as f1:
                    ev0, ev1 = f0['EVENTS'].data, f1['EVENTS'].data
                    q0, u0 = numpy.array(ev0['Q'], dtype=float), numpy.array(ev0['U'], dtype=float)
                    q1, u1 = numpy.array(ev1['Q'], dtype=float), numpy.array(ev1['U'], dtype=float)
                ra, dec = xEventFile(paths[i]).sky_position_data(False)      # the positions the application uses (from X, Y through the WCS)
                c = a['centres'][i] if a.get('ra') is None else (a['ra'], a['dec'])
                if a['mode'] in ('QU', 'PDA'):
                    from ixpeobssim.srcmodel.polarization import xStokesSkyMap
                    field = xStokesSkyMap.load_from_qu(*maps) if a['mode'] == 'QU' else xStokesSkyMap.load_from_pda(*maps)
                else:
                    field = (xRadialPolarizationField if a['mode'] == 'RAD' else xTangentialPolarizationField)(*c)
                phi0 = field.polarization_angle(ra, dec)
                phi = 0.5 * numpy.arctan2(u0, q0)
                eq, eu = 2. * numpy.cos(2. * (phi - phi0)), 2. * numpy.sin(2. * (phi - phi0))
                err = float(max(numpy.abs(q1 - eq).max(), numpy.abs(u1 - eu).max()))
                worst = max(worst, err)
                if err > 1e-4:            # Q, U are float32 columns
                    bad.append(dict(file=i, order=order, max_abs_err=err))
    return not bad, dict(max_abs_err=worst, mismatching=bad[:4])


def o_alignmaps(a):
    """xpstokesalign with uniform model maps (QU or PDA), rewritten at the same paths between runs with another angle and another overall scale of
    the Stokes maps (polarized surface brightness in physical units is ~1e-14): the reference angle is known without reading the maps back"""
    import os
    import evfile
    from astropy.io import fits
    from common import scratch
    from ixpeobssim.bin.xpstokesalign import xpstokesalign, PARSER
    g = numpy.random.default_rng(a['seed'])
    ra0, dec0 = a['centre']
    bad, worst = [], 0.
    with scratch() as d:
        n = 300
        p = os.path.join(d, 'f.fits')
        evfile.write_event_file(p, numpy.sort(g.uniform(0., 1000., n)), tstart=0., tstop=1000., ra0=ra0, dec0=dec0, pi=g.integers(50, 200, n),
                                phi=g.uniform(-math.pi, math.pi, n), ra=ra0 + g.normal(0, 0.015, n) / math.cos(math.radians(dec0)), dec=dec0 + g.normal(0, 0.015, n))
        ny = nx = 128
        h = fits.Header()
        h['CTYPE1'], h['CTYPE2'] = 'RA---TAN', 'DEC--TAN'
        h['CRPIX1'], h['CRPIX2'] = 0.5 * (nx + 1), 0.5 * (ny + 1)
        h['CRVAL1'], h['CRVAL2'] = ra0, dec0
        h['CDELT1'], h['CDELT2'] = -6. / 3600., 6. / 3600.
        for step, (ang, scale) in enumerate(a['steps']):
            A = math.radians(ang)
            if a['mode'] == 'QU':
                arrs = (('q', numpy.full((ny, nx), scale * 0.4 * math.cos(2. * A))), ('u', numpy.full((ny, nx), scale * 0.4 * math.sin(2. * A))))
            else:
                arrs = (('pd', numpy.full((ny, nx), 0.4)), ('pa', numpy.full((ny, nx), A)))
            maps = []
            for nm, arr in arrs:
                mp = os.path.join(d, '%s.fits' % nm)                      # the same paths at every step
                fits.PrimaryHDU(data=arr, header=h).writeto(mp, overwrite=True)
                maps.append(mp)
            o = xpstokesalign(**PARSER.parse_args([p, '--mode', a['mode'], '--overwrite', 'True', '--suffix', 'al%d' % step, '--modelfiles'] + maps).__dict__)[0]
            with fits.open(p) as f0, fits.open(o) as f1:
                q0, u0 = numpy.array(f0['EVENTS'].data['Q'], dtype=float), numpy.array(f0['EVENTS'].data['U'], dtype=float)
                q1, u1 = numpy.array(f1['EVENTS'].data['Q'], dtype=float), numpy.array(f1['EVENTS'].data['U'], dtype=float)
            phi = 0.5 * numpy.arctan2(u0, q0)
            eq, eu = 2. * numpy.cos(2. * (phi - A)), 2. * numpy.sin(2. * (phi - A))
            err = float(max(numpy.abs(q1 - eq).max(), numpy.abs(u1 - eu).max()))
            worst = max(worst, err)
            if err > 1e-4:
                bad.append(dict(step=step, model_angle_deg=ang, map_scale=scale, max_abs_err=err))
    return not bad, dict(max_abs_err=worst, mismatching=bad)


ORACLES = dict(alignmaps=o_alignmaps, align=o_align, spurmrot=o_spurmrot, detphi=o_detphi, rotation=o_rotation, alignapp=o_alignapp)


def oracle(chk, budget=1):
    g = rng('C06-oracle')
    n = 30 * budget if chk.tier == 'quick' else 300 * budget
    for i in range(n):
        k = int(g.integers(1, 200))
        a = dict(phi=g.uniform(-math.pi, math.pi, k).tolist(), phi0=g.uniform(-math.pi, math.pi, k).tolist())
        run_oracle(chk, 'align', a, nontrivial=True)
        # amplitudes over the whole disk, or all of them at the per-cent / per-mille level typical of the detector (in one call)
        r = numpy.sqrt(g.uniform(0, 1, k)) * 0.99 * float(g.choice([1., 1., 0.045, 0.01, 0.002]))
        t = g.uniform(0, 2 * math.pi, k)
        a = dict(phi=g.uniform(-math.pi, math.pi, k).tolist(), qs=(r * numpy.cos(t)).tolist(), us=(r * numpy.sin(t)).tolist())
        run_oracle(chk, 'spurmrot', a, nontrivial=bool((r > 0).any()))
    for du in (1, 2, 3):
        rolls = [0., 71., 251., 359.999] + g.uniform(0, 360, 4 * budget).tolist()
        for roll in rolls:
            phi = numpy.concatenate([g.uniform(-math.pi, math.pi, 50), [math.pi, -math.pi, 0., math.pi - 1e-12]])
            run_oracle(chk, 'detphi', dict(phi=phi.tolist(), du=du, roll=float(roll)), nontrivial=roll != 0.)
    for mode in ('QU', 'PDA'):
        run_oracle(chk, 'alignmaps', dict(seed=int(g.integers(1, 10 ** 6)), centre=(float(g.uniform(5., 355.)), float(g.uniform(-60., 60.))), mode=mode,
                                          steps=[(25., 1.), (70., 1e-2), (-40., 4e-14), (float(g.uniform(-85., 85.)), float(10 ** g.uniform(-16, 0)))]))
    for j in range(3 * budget if chk.tier == 'quick' else 12 * budget):
        centres = [(float(g.uniform(5., 355.)), float(g.uniform(-70., 70.))) for _ in range(3)]
        explicit = j % 3 == 2
        a = dict(seed=int(g.integers(1, 10 ** 6)), centres=centres, mode=['RAD', 'TAN'][j % 2], orders=[[0], [0, 1, 2], [2, 0, 1]],
                 ra=[None, None, 0.0][j % 3] if not explicit else float(g.choice([0.0, centres[1][0]])), dec=None)
        if a['ra'] is not None:
            a['dec'] = float(g.choice([0.0, centres[1][1]]))
            if a['ra'] == 0.0:                       # a centre exactly on RA = 0 (or Dec = 0): put the fields next to it
                a['centres'] = [(float(g.uniform(0.05, 0.3)), a['dec'] + float(g.uniform(-0.2, 0.2))) for _ in range(3)]
        run_oracle(chk, 'alignapp', a, nontrivial=True)
    for mode in ('QU', 'PDA'):
        c0 = (float(g.uniform(5., 355.)), float(g.uniform(-60., 60.)))
        run_oracle(chk, 'alignapp', dict(seed=int(g.integers(1, 10 ** 6)), centres=[c0, c0], mode=mode, orders=[[0], [1, 0]], ra=None, dec=None), nontrivial=True)
    m = 10 * budget if chk.tier == 'quick' else 80 * budget
    for i in range(m):
        k = int(g.integers(0, 400))
        pa = g.uniform(-math.pi / 2, math.pi / 2)
        mod = g.uniform(0, 0.6)
        # draw angles with a real modulation (rejection from the cos2 law on a grid: deterministic given g)
        phi = g.uniform(-math.pi, math.pi, 4 * k + 4)
        keep = g.uniform(0, 1 + mod, 4 * k + 4) < (1 + mod * numpy.cos(2 * (phi - pa)))
        phi = phi[keep][:k]
        k = len(phi)
        energy = g.uniform(1.5, 9., k)
        wts = None if g.uniform() < 0.5 else g.uniform(0.05, 1., k).tolist()
        if i % 4 == 1 and k > 0:
            # a mirror-symmetric sample {+b, -b}: ΣU cancels exactly, so the measured angle sits exactly on a Stokes axis
            # (0 deg, or ±90 deg when the excess is around ±π/2) before the rotation
            # the two members of a pair are adjacent, so that the (sequential) per-bin sums cancel exactly
            phi = numpy.column_stack([phi, -phi]).ravel()
            energy = numpy.column_stack([energy, energy]).ravel()
            wts = None if wts is None else numpy.column_stack([wts, wts]).ravel().tolist()
            k = len(phi)
        d = float(g.uniform(-math.pi, math.pi)) if i % 3 else float(g.choice([math.pi / 2, math.pi / 4, -math.pi]))
        a = dict(phi=phi.tolist(), energy=energy.tolist(), weights=wts, du=int(g.integers(1, 4)), acceptcorr=bool(g.integers(0, 2)),
                 edges=[2., 3., 4., 6., 8.], d=d)
        run_oracle(chk, 'rotation', a, nontrivial=(k > 3 and abs(math.sin(2 * d)) > 1e-9))


def run_oracle(chk, name, a, nontrivial=True):
    try:
        ok, obs = ORACLES[name](a)
    except Exception as e:   # the implementation raised on a valid input
        ok, obs = False, dict(exception='%s: %s' % (type(e).__name__, e))
    short = {k: (v if not isinstance(v, list) or len(v) <= 6 else v[:6] + ['… %d values' % len(v)]) for k, v in a.items()}
    chk.case(dict(oracle=name, args=short), nontrivial=nontrivial)
    if not ok:
        chk.fail('impl', 'C06 oracle %s failed: %s' % (name, obs), dict(oracle=name, args=a, observed=obs))
    return ok


def main(chk):
    chk.rule = ('generated-formula correspondence cases (random args incl. ±π, ±π/2) + implementation oracles: align vs re-computed '
                'Stokes, Stokes-space vs angle-space spurious-modulation correction, detphi round trip for DU×roll, polarization table '
                'before/after rotating every PHI; non-trivial = rotation angle not a multiple of π/2, non-zero spurious (q,u), roll ≠ 0, > 3 events')
    chk.assumptions = TRUSTED
    chk.lean(['IxpeVerif.Props.C06', 'IxpeVerif.Props.C06Gen', 'IxpeVerif.Props.Audit.C06'], GEN + ['ana_init', 'ana_energy_mask', 'ana_sum_stokes_parameters', 'ana_w2', 'ana_effective_mu', 'ana_average_energy', 'ana_table_row'])
    n = 100 if chk.tier == 'quick' else 2000
    corr_gen.run(chk, GEN, n=n, tag='C06')
    oracle(chk)
    return chk.finish(level='proof', trusted=TRUSTED, search=lambda k: oracle(chk, k))


def replay(body):
    r = body['replay']
    if 'oracle' in r:
        ok, obs = ORACLES[r['oracle']](r['args'])
        out('oracle %s on the recorded input: %s  observed=%s' % (r['oracle'], 'holds' if ok else 'FAILS', obs))
        return 0 if ok else 1
    import sys
    import common
    return common.replay_rerun(sys.modules[__name__], body)
