"""C07 — binned products are additive: summing files equals binning merged events (DESIGN.md section 7, C07)."""
import os
import math
import itertools
import numpy
from unittest import mock

from common import out, rng, Driver, scratch, f2b, b2f

TRUSTED = ['Lean 4.33 kernel + Mathlib', 'axioms: propext, Classical.choice, Quot.sound',
           'hand models Add.iadd / lcIadd / quad tied by correspondence on Float through the real xBinned* classes (files written by the real xpbin)',
           'derived columns are recomputed by the C02 model', 'float32 FITS columns: comparisons at 3e-5 relative', 'astropy I/O']
IRF = 'ixpe:obssim20240101:v13'
RA0, DEC0 = 30., 45.
T0, T1 = 220000000., 220001024.


def write_part(g, d, name, rows, gtis, livetime):
    """one event file from a subset of the master rows, same time keywords for every part"""
    import evfile
    from astropy.io import fits
    path = os.path.join(d, name)
    evfile.write_event_file(path, rows['time'], pi=rows['pi'], phi=rows['phi'], ra=rows['ra'], dec=rows['dec'], w=rows['w'], gtis=gtis,
                            tstart=T0, tstop=T1, tag=rows['tag'], ra0=RA0, dec0=DEC0, irfname=IRF)
    with fits.open(path) as h:
        cols = h['EVENTS'].data.columns + fits.ColDefs([fits.Column(name='PHASE', array=rows['phase'].astype(numpy.float32), format='E')])
        h['EVENTS'] = fits.BinTableHDU.from_columns(cols, header=h['EVENTS'].header)
        for ext in ('PRIMARY', 'EVENTS', 'GTI'):
            h[ext].header['LIVETIME'] = livetime          # rates are only additive over parts that share the exposure
            h[ext].header['DEADC'] = livetime / h[ext].header['ONTIME']
        h.writeto(path, overwrite=True)
    return path


def master(g, n):
    t = numpy.sort(g.choice(numpy.arange(1, 2 ** 16), n, replace=False)) / 2 ** 6 + T0
    pi = g.integers(40, 240, n)
    phi = g.uniform(-math.pi, math.pi, n)
    if n > 2000:
        # a strongly (and physically) polarized high-energy band next to unpolarized ones: one bin of the cube is detected at very high
        # significance (where the significance is evaluated by another formula), the others are not
        al = numpy.where(pi >= 150)[0]
        m, phi0 = 0.5, float(g.uniform(-1.5, 1.5))
        cand = g.uniform(-math.pi, math.pi, 4 * len(al))
        keep = cand[g.uniform(0., 1. + m, len(cand)) < 1. + m * numpy.cos(2. * (cand - phi0))]
        phi[al] = keep[:len(al)]
    return dict(time=t, pi=pi, phi=phi, w=g.uniform(0.1, 1., n),
                ra=RA0 + g.normal(0, 0.03, n) / math.cos(math.radians(DEC0)), dec=DEC0 + g.normal(0, 0.03, n),
                phase=g.integers(0, 256, n) / 256., tag=numpy.arange(1, n + 1))


def subset(rows, m):
    return {k: v[m] for k, v in rows.items()}


def xpbin(path, alg, *args):
    from ixpeobssim.bin.xpbin import xpbin as run, PARSER
    return run(**PARSER.parse_args([path, '--overwrite', 'True', '--algorithm', alg, '--irfname', IRF] + [str(a) for a in args]).__dict__)[0]


def as_iterable(paths, k):
    """the same paths handed over as a list, a tuple, a generator, an iterator or a `map` object: `from_file_list` takes any iterable of paths"""
    kind = ['list', 'tuple', 'generator', 'iterator', 'map'][k % 5]
    return {'list': lambda: list(paths), 'tuple': lambda: tuple(paths), 'generator': lambda: (p for p in paths), 'iterator': lambda: iter(list(paths)),
            'map': lambda: map(str, paths)}[kind](), kind


def close_arr(a, b, rtol=3e-5, atol=1e-6):
    a, b = numpy.asarray(a, dtype=float), numpy.asarray(b, dtype=float)
    if a.shape != b.shape:
        return False
    both_nan = numpy.isnan(a) & numpy.isnan(b)
    return bool(numpy.all(both_nan | (numpy.abs(a - b) <= atol + rtol * numpy.maximum(numpy.abs(a), numpy.abs(b)))))


def explore(chk, budget=1):
    from astropy.io import fits
    from ixpeobssim.binning.polarization import xBinnedPolarizationCube, xBinnedCountSpectrum, xBinnedPolarizationMapCube, xBinnedMDPMapCube
    from ixpeobssim.binning.misc import xBinnedMap, xBinnedLightCurve, xBinnedPulseProfile
    from ixpeobssim.binning import base as bbase
    g = rng('C07-%d' % budget)
    drv = Driver()
    jobs = []
    with scratch() as d:
        n = int(g.integers(600, 1500)) if budget % 2 == 0 else int(g.integers(5000, 7000))       # odd rounds: the large list with a highly significant band
        rows = master(g, n)
        nparts = int(g.integers(2, 5))
        # partition: random assignment; one part is confined to low energies so that it is empty in the upper energy bins
        assign = g.integers(0, nparts, n)
        lowonly = int(g.integers(0, nparts))
        assign[(assign == lowonly) & (rows['pi'] > 110)] = (lowonly + 1) % nparts
        # one more part holds every event below 2 keV and nothing else: its polarization cubes and map cubes over 2-8 keV are blank, and it comes
        # first in some of the orders (a band, a time slice or a detector unit without events in the product is an ordinary addend)
        blank = nparts
        assign[rows['pi'] < 50] = blank
        nparts += 1
        gtis = [(T0, T1)]
        livetime = 1000.
        merged = write_part(g, d, 'merged.fits', rows, gtis, livetime)
        parts = [write_part(g, d, 'part%d.fits' % i, subset(rows, assign == i), gtis, livetime) for i in range(nparts)]
        sizes = [int((assign == i).sum()) for i in range(nparts)]
        orders = list(itertools.permutations(range(nparts))) if nparts <= 3 else [tuple(int(x) for x in g.permutation(nparts)) for _ in range(6)]
        if not any(o[0] == blank for o in orders):
            orders[1] = (blank,) + tuple(i for i in orders[1] if i != blank)
        orders = sorted(orders, key=lambda o: (o[0] != blank, ))[:1] + [o for o in orders if o[0] != blank] + sorted(orders, key=lambda o: (o[0] != blank, ))[1:]
        orders = list(dict.fromkeys(orders))
        edges = '[2., 3., 4.5, 6., 8.]'

        # ---------------------------------------------------------------- PCUBE
        for wflag, irf in (('False', IRF), ('True', 'ixpe:obssim20240101_alpha075:v13')):
            args = ['--ebinalg', 'LIST', '--ebinning', edges, '--weights', wflag, '--irfname', irf]
            pf = [xpbin(p, 'PCUBE', *args) for p in parts]
            mf = xpbin(merged, 'PCUBE', *args)
            ref = xBinnedPolarizationCube(mf)
            names = ['COUNTS', 'I', 'Q', 'U', 'W2', 'MU', 'E_MEAN', 'QN', 'UN', 'I_ERR', 'Q_ERR', 'U_ERR', 'PD', 'PD_ERR', 'PA', 'PA_ERR', 'MDP_99', 'N_EFF', 'SIGNIF']
            first = None
            for ko, o in enumerate(orders):
                files, container = as_iterable([pf[i] for i in o], ko)
                chk.case(dict(op='PCUBE-sum', parts=sizes, order=list(o), weights=wflag, empty_bins_in_part=lowonly, paths_as=container), nontrivial=nparts >= 3)
                try:
                    s = xBinnedPolarizationCube.from_file_list(files)
                except BaseException as e:
                    chk.fail('impl', 'PCUBE from_file_list failed: %s: %s' % (type(e).__name__, e), dict(oracle='pcube-sum', order=list(o), weights=wflag))
                    break
                got = {k: numpy.array(getattr(s, k), dtype=float) for k in names}
                bad = [k for k in names if not close_arr(got[k], getattr(ref, k), 3e-5, 2e-5 if k in ('PA',) else 1e-6)]
                if bad:
                    k = bad[0]
                    chk.fail('impl', 'PCUBE: summing %d files (order %s, weights %s) differs from binning the merged events in %s: %s vs %s' % (
                        nparts, list(o), wflag, bad, got[k], numpy.array(getattr(ref, k))), dict(oracle='pcube-sum', order=list(o), weights=wflag, columns=bad, parts=sizes))
                    break
                if first is None:
                    first = got
                elif any(not close_arr(first[k], got[k], 3e-5, 2e-5 if k == 'PA' else 1e-6) for k in names):     # float32 column arithmetic
                    chk.fail('impl', 'PCUBE sum depends on the order of the files (order %s)' % (list(o),), dict(oracle='pcube-order', order=list(o)))
                    break
            # model: the per-file rows summed by Add.sumAll in the first order
            o = orders[0]
            flat = []
            for i in o:
                c = xBinnedPolarizationCube(pf[i])
                for j in range(len(c.I)):
                    flat += [int(c.COUNTS[j])] + [f2b(float(getattr(c, k)[j])) for k in ('I', 'Q', 'U', 'W2', 'MU', 'E_MEAN')]
            nb = len(ref.I)
            k = drv.ask('cubesum %d %d %d %s' % (nb, len(o), len(flat), ' '.join(map(str, flat))))
            s = xBinnedPolarizationCube.from_file_list([pf[i] for i in o])
            jobs.append(('cube', k, {kk: numpy.array(getattr(s, kk), dtype=float) for kk in ('COUNTS', 'I', 'Q', 'U', 'W2', 'MU', 'E_MEAN', 'QN', 'UN', 'I_ERR', 'Q_ERR', 'U_ERR', 'PD', 'PD_ERR', 'PA', 'PA_ERR', 'MDP_99', 'N_EFF')}))

        # ---------------------------------------------------------------- PHA1 (unweighted), PP, CMAP, map cubes
        def additive(alg, cls, cols, args=(), tol=3e-5):
            pf = [xpbin(p, alg, *args) for p in parts]
            ref = cls(xpbin(merged, alg, *args))
            for ko, o in enumerate(orders[:3]):
                files, container = as_iterable([pf[i] for i in o], ko + 2)
                chk.case(dict(op='%s-sum' % alg, parts=sizes, order=list(o), paths_as=container), nontrivial=nparts >= 3)
                try:
                    s = cls.from_file_list(files)
                except BaseException as e:
                    chk.fail('impl', '%s from_file_list failed: %s: %s' % (alg, type(e).__name__, e), dict(oracle='%s-sum' % alg, order=list(o)))
                    return None
                for c in cols:
                    a, b = (numpy.array(x.fits_image.data, dtype=float) if c == 'IMAGE' else numpy.array(getattr(x, c), dtype=float) for x in (s, ref))
                    if not close_arr(a, b, tol, 1e-6):
                        chk.fail('impl', '%s: column %s of the sum of %d files (order %s) differs from binning the merged events (max diff %.4g)' % (
                            alg, c, nparts, list(o), float(numpy.nanmax(numpy.abs(a - b)))), dict(oracle='%s-sum' % alg, order=list(o), column=c, parts=sizes))
                        return None
            return pf
        additive('PHA1', xBinnedCountSpectrum, ['RATE', 'STAT_ERR'])
        additive('PHA1Q', xBinnedCountSpectrum, ['RATE', 'STAT_ERR'])
        additive('PP', xBinnedPulseProfile, ['COUNTS', 'ERROR'], ['--phasebins', 16])
        cm = additive('CMAP', xBinnedMap, ['IMAGE'], ['--npix', 40, '--pixsize', 12.])
        if cm:   # the written sum is the sum (repaired defect C07-map-sum-not-written)
            s = xBinnedMap.from_file_list(cm)
            o = os.path.join(d, 'cmap_sum.fits')
            s.write(o)
            with fits.open(o) as h, fits.open(xpbin(merged, 'CMAP', '--npix', 40, '--pixsize', 12.)) as m:
                chk.case(dict(op='CMAP-write'), nontrivial=True)
                if not numpy.array_equal(numpy.array(h[0].data), numpy.array(m[0].data)):
                    chk.fail('impl', 'xBinnedMap: the file written after from_file_list is not the summed map', dict(oracle='cmap-write'))
        margs = ['--npix', 12, '--pixsize', 60., '--ebinalg', 'LIST', '--ebinning', '[2., 4., 8.]']
        additive('MDPMAPCUBE', xBinnedMDPMapCube, ['COUNTS', 'I', 'W2', 'MU', 'E_MEAN', 'MDP_99', 'N_EFF'], margs, tol=1e-4)
        additive('PMAPCUBE', xBinnedPolarizationMapCube, ['COUNTS', 'I', 'Q', 'U', 'W2', 'MU', 'PD', 'PD_ERR', 'MDP_99'], margs, tol=2e-4)

        # ---------------------------------------------------------------- LC: equal exposures (exact additivity of counts), then unequal / zero exposures (rate additivity)
        additive('LC', xBinnedLightCurve, ['COUNTS', 'EXPOSURE'], ['--tbins', 16])
        gt2 = [(T0, T0 + 400.), (T0 + 640., T1)]            # one file with a GTI hole covering whole time bins
        lt = [1000., 700., 900., 800., 950., 850.]
        lparts = []
        for i in range(nparts):
            r = subset(rows, assign == i)
            if i == 0:
                keep = (r['time'] <= gt2[0][1]) | (r['time'] >= gt2[1][0])
                r = subset(r, keep)
            lparts.append(write_part(g, d, 'lc%d.fits' % i, r, gt2 if i == 0 else gtis, lt[i]))
        lf = [xpbin(p, 'LC', '--tbins', 16) for p in lparts]
        per = [xBinnedLightCurve(f) for f in lf]
        with numpy.errstate(divide='ignore', invalid='ignore'):
            rate_ref = sum(numpy.where(p.EXPOSURE > 0, p.COUNTS / numpy.where(p.EXPOSURE > 0, p.EXPOSURE, 1.), 0.) for p in per)
        for o in orders:
            chk.case(dict(op='LC-rate', parts=sizes, order=list(o), exposures='unequal, one file with zero-exposure bins'), nontrivial=True)
            s = xBinnedLightCurve.from_file_list([lf[i] for i in o])
            with numpy.errstate(divide='ignore', invalid='ignore'):
                rate = numpy.where(s.EXPOSURE > 0, s.COUNTS / numpy.where(s.EXPOSURE > 0, s.EXPOSURE, 1.), 0.)
            if not close_arr(rate, rate_ref, 1e-5, 1e-9):
                j = int(numpy.argmax(numpy.abs(rate - rate_ref)))
                chk.fail('impl', 'LC: the rate of the sum (order %s) is not the sum of the rates: bin %d has %.6f, Σ rates = %.6f' % (list(o), j, rate[j], rate_ref[j]),
                         dict(oracle='lc-rate', order=list(o), bin=j))
                break
        o = orders[0]
        flat = []
        for i in o:
            p = xBinnedLightCurve(lf[i])
            for j in range(len(p.COUNTS)):
                flat += [f2b(float(p.COUNTS[j])), f2b(float(p.EXPOSURE[j])), f2b(float(p.ERROR[j]))]
        k = drv.ask('lcsum %d %d %d %s' % (16, len(o), len(flat), ' '.join(map(str, flat))))
        s = xBinnedLightCurve.from_file_list([lf[i] for i in o])
        jobs.append(('lc', k, dict(COUNTS=numpy.array(s.COUNTS, dtype=float), EXPOSURE=numpy.array(s.EXPOSURE, dtype=float), ERROR=numpy.array(s.ERROR, dtype=float))))

        # ---------------------------------------------------------------- the compatibility guard refuses misaligned grids
        r2 = dict(rows)
        r2['time'] = rows['time'] + 37.
        import evfile
        shifted = os.path.join(d, 'shifted.fits')
        evfile.write_event_file(shifted, r2['time'], pi=rows['pi'], phi=rows['phi'], tstart=T0 + 37., tstop=T1 + 37., ra0=RA0, dec0=DEC0, irfname=IRF)
        a, b = xpbin(merged, 'LC', '--tbins', 16), xpbin(shifted, 'LC', '--tbins', 16)
        chk.case(dict(op='guard', what='LC grids offset by 37 s at MET 2.2e8'), nontrivial=True)
        refused = False
        with mock.patch.object(bbase, 'abort', side_effect=RuntimeError('abort')):
            try:
                xBinnedLightCurve.from_file_list([a, b])
            except RuntimeError:
                refused = True
        if not refused:
            chk.fail('impl', 'light curves on time grids offset by 37 s (same number of bins) were summed instead of refused', dict(oracle='guard'))
        c1 = xpbin(merged, 'PCUBE', '--ebinalg', 'LIST', '--ebinning', '[2., 4., 8.]')
        c2 = xpbin(parts[0], 'PCUBE', '--ebinalg', 'LIST', '--ebinning', '[2., 4.00001, 8.]')
        chk.case(dict(op='guard', what='PCUBE energy bounds differing by 1e-5 keV'), nontrivial=True)
        refused = False
        with mock.patch.object(bbase, 'abort', side_effect=RuntimeError('abort')):
            try:
                xBinnedPolarizationCube.from_file_list([c1, c2])
            except RuntimeError:
                refused = True
        if not refused:
            chk.fail('impl', 'polarization cubes with different energy bounds were summed instead of refused', dict(oracle='guard'))

    replies = drv.run()
    for kind, k, impl in jobs:
        bins = replies[k].split(' | ')
        if kind == 'cube':
            cols = ['I', 'Q', 'U', 'W2', 'MU', 'E_MEAN', 'QN', 'UN', 'I_ERR', 'Q_ERR', 'U_ERR', 'PD', 'PD_ERR', 'PA', 'PA_ERR', 'MDP_99', 'N_EFF']
            for j, b in enumerate(bins):
                w = b.split()
                model = dict(zip(cols, [b2f(x) for x in w[1:]]))
                if int(w[0]) != int(impl['COUNTS'][j]):
                    chk.fail('correspondence', 'cube sum bin %d: COUNTS model %s vs implementation %s' % (j, w[0], impl['COUNTS'][j]), dict(op='cubesum', bin=j))
                    break
                bad = [c for c in cols if not close_arr([model[c]], [impl[c][j]], 3e-5, 2e-5 if c == 'PA' else 1e-6) and not (int(w[0]) == 0 and c in ('MU', 'E_MEAN'))]
                if bad:
                    chk.fail('correspondence', 'cube sum bin %d: model and implementation differ in %s: %s vs %s' % (j, bad, [model[c] for c in bad], [float(impl[c][j]) for c in bad]),
                             dict(op='cubesum', bin=j, columns=bad))
                    break
        else:
            for j, b in enumerate(bins):
                m = [b2f(x) for x in b.split()]
                got = [float(impl['COUNTS'][j]), float(impl['EXPOSURE'][j]), float(impl['ERROR'][j])]
                if not close_arr(m, got, 3e-6, 1e-6):       # the implementation adds float32/float64 columns
                    chk.fail('correspondence', 'light-curve sum bin %d: model %s vs implementation %s' % (j, m, got), dict(op='lcsum', bin=j, model=m, impl=got))
                    break


def known_findings(chk):
    """weighted PHA1 rates are not additive (per-file Σw/Σw² normalisation); LC EXPOSURE/COUNTS depend on the grouping — replayed, listed"""
    from ixpeobssim.binning.polarization import xBinnedCountSpectrum
    from ixpeobssim.binning.misc import xBinnedLightCurve
    g = numpy.random.default_rng(11)
    ents = {e['id']: e for e in chk.findings if e.get('status') == 'known'}
    if not ents:
        return
    with scratch() as d:
        rows = master(g, 900)
        assign = g.integers(0, 3, 900)
        rows['w'][assign == 0] *= 0.3        # parts with different weight distributions
        gtis = [(T0, T1)]
        merged = write_part(g, d, 'm.fits', rows, gtis, 1000.)
        parts = [write_part(g, d, 'p%d.fits' % i, subset(rows, assign == i), gtis, 1000.) for i in range(3)]
        if 'C07-weighted-pha1-not-additive' in ents:
            args = ['--weights', 'True', '--irfname', 'ixpe:obssim20240101_alpha075:v13']
            s = xBinnedCountSpectrum.from_file_list([xpbin(p, 'PHA1', *args) for p in parts])
            m = xBinnedCountSpectrum(xpbin(merged, 'PHA1', *args))
            tot_s, tot_m = float(numpy.sum(s.RATE)), float(numpy.sum(m.RATE))
            chk.known_finding(ents['C07-weighted-pha1-not-additive'], abs(tot_s - tot_m) > 1e-3 * tot_m, observed='Σ RATE %.5f (sum of files) vs %.5f (merged)' % (tot_s, tot_m))
        if 'C07-lc-exposure-grouping' in ents:
            lt = [1000., 600., 800.]
            lp = [write_part(g, d, 'l%d.fits' % i, subset(rows, assign == i), gtis, lt[i]) for i in range(3)]
            lf = [xpbin(p, 'LC', '--tbins', 8) for p in lp]
            a = xBinnedLightCurve.from_file_list([lf[0], lf[1], lf[2]])
            b = xBinnedLightCurve.from_file_list([lf[2], lf[1], lf[0]])
            chk.known_finding(ents['C07-lc-exposure-grouping'], abs(float(a.EXPOSURE[0]) - float(b.EXPOSURE[0])) > 1e-6,
                              observed='EXPOSURE[0] %.3f vs %.3f for two orders of the same three files' % (a.EXPOSURE[0], b.EXPOSURE[0]))


def explore_bright(chk, budget=1):
    """a bright compact source on coarse pixels: tens of thousands of counts in one pixel of each part, more than 2¹⁵ (and, thorough, 2¹⁶) in the sum —
    the summed count map equals the map of the merged events whatever the integer type each file was stored in"""
    from astropy.io import fits
    from ixpeobssim.binning.misc import xBinnedMap
    g = rng('C07-bright-%d' % budget)
    with scratch() as d:
        n = 72000 if chk.tier == 'quick' else int(g.choice([72000, 140000]))
        t = numpy.sort(g.choice(numpy.arange(1, 2 ** 20), n, replace=False)) / 2 ** 10 + T0
        rows = dict(time=t, pi=g.integers(40, 240, n), phi=g.uniform(-math.pi, math.pi, n), w=numpy.ones(n),
                    ra=RA0 + g.normal(0, 0.0008, n) / math.cos(math.radians(DEC0)), dec=DEC0 + g.normal(0, 0.0008, n), phase=g.integers(0, 256, n) / 256., tag=numpy.arange(1, n + 1))
        nparts = 3
        assign = g.integers(0, nparts, n)
        gtis = [(T0, T1)]
        merged = write_part(g, d, 'bmerged.fits', rows, gtis, 1000.)
        parts = [write_part(g, d, 'bpart%d.fits' % i, subset(rows, assign == i), gtis, 1000.) for i in range(nparts)]
        args = ['--npix', 5, '--pixsize', 40.]      # an odd number of pixels: the source sits inside the central one
        pf = [xpbin(p, 'CMAP', *args) for p in parts]
        with fits.open(xpbin(merged, 'CMAP', *args)) as m:
            ref = numpy.array(m[0].data, dtype=float)
        for o in itertools.permutations(range(nparts)):
            chk.case(dict(op='CMAP-sum-bright', events=n, max_pixel=float(ref.max()), order=list(o)), nontrivial=ref.max() > 2 ** 15)
            s = xBinnedMap.from_file_list([pf[i] for i in o])
            got = numpy.array(s.fits_image.data, dtype=float)
            if not numpy.array_equal(got, ref):
                chk.fail('impl', 'CMAP of a bright source (%d events, %.0f in the brightest pixel): the sum of %d files in order %s differs from the map of the merged events '
                         '(brightest pixel of the sum %.0f)' % (n, ref.max(), nparts, list(o), got.max()), dict(oracle='cmap-bright', order=list(o), events=n))
                break
            out_ = os.path.join(d, 'bsum.fits')
            s.write(out_)
            with fits.open(out_) as h:
                if not numpy.array_equal(numpy.array(h[0].data, dtype=float), ref):
                    chk.fail('impl', 'CMAP of a bright source: the written sum differs from the map of the merged events', dict(oracle='cmap-bright-write', order=list(o)))
                    break


def main(chk):
    chk.rule = ('a master event list partitioned at random into 2–4 files (one part empty in the upper energy bins), binned by the real xpbin and summed with from_file_list in all '
                'orders (n ≤ 3) or 6 random orders: PCUBE weighted and unweighted (all additive and derived columns vs the cube of the merged events and vs the Lean model), '
                'PHA1/PHA1Q, PP, CMAP (and the written sum), MDPMAPCUBE, PMAPCUBE, LC with equal exposures, LC rates with unequal exposures and zero-exposure bins; the compatibility '
                'guard on misaligned grids. non-trivial = ≥ 3 parts')
    chk.assumptions = TRUSTED
    chk.lean(['IxpeVerif.Props.C07', 'IxpeVerif.Props.Audit.C07'], ['weighted_average', 'lc_iadd', 'pcube_iadd', 'pp_iadd', 'pha1_iadd', 'mdpcube_iadd'])
    import corr_gen
    corr_gen.run(chk, ['weighted_average', 'lc_iadd', 'pcube_iadd', 'pp_iadd', 'pha1_iadd', 'mdpcube_iadd'], n=200 if chk.tier == 'quick' else 3000, tag='C07')
    explore(chk)
    explore(chk, 2)
    explore_bright(chk)
    if chk.tier != 'quick':
        for b in range(3, 10):
            explore(chk, b)
        explore_bright(chk, 2)
    known_findings(chk)
    return chk.finish(level='proof', trusted=TRUSTED, search=lambda k: [explore(chk, 100 + j) for j in range(3)] + [explore_bright(chk, 100)])


def replay(body):
    import sys
    import common
    return common.replay_rerun(sys.modules[__name__], body)
