"""C08 — binning conserves events and is consistent under bin refinement (DESIGN.md section 7, C08)."""
import os
import numpy

from common import out, rng, Driver, scratch, f2b

TRUSTED = ['Lean 4.33 kernel (core + two Mathlib list lemmas)', 'axioms: propext, Classical.choice, Quot.sound',
           'hand-written numpy.histogram model on order-preserving keys, tied by exact correspondence (events on and next to every edge)',
           'astropy.wcs projection is a library (abstract): the model starts from the pixel coordinates it returns', 'numpy.linspace/logspace produce the edges',
           'astropy FITS I/O']
IRF = 'ixpe:obssim20240101:v13'
RA0, DEC0 = 30., 45.


def build_file(g, d, n=1500, with_edges=None, name='ev.fits', energy_inside=None):
    import evfile
    from astropy.io import fits
    t = numpy.sort(g.choice(numpy.arange(1, 2 ** 16), n, replace=False)) / 2 ** 6 + 5000.
    tstart, tstop = 5000., 5000. + 1024.
    if with_edges:      # times exactly on the LIN bin edges that will be requested
        e = numpy.linspace(tstart, tstop, with_edges + 1)
        t = numpy.sort(numpy.unique(numpy.concatenate([t, e, numpy.nextafter(e, 0.)[1:], numpy.nextafter(e, 1e9)[:-1]])))
    n = len(t)
    pi = g.integers(3, 372, n)                       # measured energies from 0.14 to 14.9 keV: also outside the 1-12 keV band of the response tables
    if energy_inside is not None:
        pi = g.integers(int(energy_inside[0] / 0.04) + 1, int(energy_inside[1] / 0.04) - 1, n)
    else:
        pi[:6] = [375, 376, 374, 0, 375, 374]          # first invalid channels, last and first valid ones
    ra = RA0 + g.normal(0, 0.04, n) / numpy.cos(numpy.radians(DEC0))
    dec = DEC0 + g.normal(0, 0.04, n)
    path = os.path.join(d, name)
    # the true (Monte Carlo) energies are not the measured ones: another energy layer for most events when a product is asked for `--mc True`
    evfile.write_event_file(path, t, pi=pi, phi=g.uniform(-3.1, 3.1, n), ra=ra, dec=dec, w=g.uniform(0.1, 1., n), mc_energy=g.uniform(1.2, 9.5, n),
                            tstart=tstart, tstop=tstop, tag=numpy.arange(1, n + 1), ra0=RA0, dec0=DEC0, irfname=IRF)
    phase = (g.integers(0, 2 ** 8 + 1, n) / 2 ** 8).astype(numpy.float32)      # multiples of 1/256 incl. exactly 0 and 1: on the edges of 2^k phase bins
    with fits.open(path) as h:
        cols = h['EVENTS'].data.columns + fits.ColDefs([fits.Column(name='PHASE', array=phase, format='E')])
        h['EVENTS'] = fits.BinTableHDU.from_columns(cols, header=h['EVENTS'].header)
        h.writeto(path, overwrite=True)
    return path


def xpbin(path, alg, *args):
    from ixpeobssim.bin.xpbin import xpbin as run, PARSER
    return run(**PARSER.parse_args([path, '--overwrite', 'True', '--algorithm', alg, '--irfname', IRF] + [str(a) for a in args]).__dict__)[0]


def file_cols(path):
    from ixpeobssim.evt.event import xEventFile
    f = xEventFile(path)
    ra, dec = f.sky_position_data(False)
    c = dict(time=numpy.array(f.time_data(), dtype=float), phase=numpy.array(f.phase_data(), dtype=float), pi=numpy.array(f.pi_data(), dtype=float),
             energy=numpy.array(f.energy_data(), dtype=float), ra=numpy.array(ra, dtype=float), dec=numpy.array(dec, dtype=float),
             q=numpy.array(f.q_data(), dtype=float), u=numpy.array(f.u_data(), dtype=float), w=numpy.array(f.event_data['W_MOM'], dtype=float),
             mc_energy=numpy.array(f.energy_data(True), dtype=float),
             livetime=f.livetime(), n=f.num_events())
    f.close()
    return c


def ask_hist(drv, edges, values):
    return drv.ask('hist %d %s %d %s' % (len(edges), ' '.join(str(f2b(x)) for x in edges), len(values), ' '.join(str(f2b(x)) for x in values)))


def counts_from(idx, nb):
    c = numpy.zeros(nb, dtype=int)
    for i in idx:
        if i >= 0:
            c[i] += 1
    return c


def explore(chk, budget=1):
    from astropy.io import fits
    from astropy import wcs as awcs
    from ixpeobssim.binning.base import xEventBinningBase
    g = rng('C08-%d' % budget)
    drv = Driver()
    jobs = []       # (description, expected-from-implementation, builder of the model's answer from the reply)
    with scratch() as d:
        nlc = int(g.choice([8, 16, 64]))
        path = build_file(g, d, with_edges=nlc)
        c = file_cols(path)
        n = c['n']
        # ---------------------------------------------------------------- LC
        for tb in sorted(set([nlc, 1, int(g.integers(2, 40))])):
            o = xpbin(path, 'LC', '--tbins', tb)
            with fits.open(o) as h:
                cnt = numpy.array(h['RATE'].data['COUNTS']).astype(int)
                hd = h[0].header
            edges = numpy.linspace(hd['TSTART'], hd['TSTOP'], tb + 1)
            k = ask_hist(drv, edges, c['time'])
            on_edge = int(numpy.isin(c['time'], edges).sum())
            chk.case(dict(op='LC', tbins=tb, events=n, events_on_edges=on_edge), nontrivial=on_edge > 0)
            jobs.append((dict(op='LC', tbins=tb), cnt, k, lambda idx, nb=tb: counts_from(idx, nb)))
            if cnt.sum() != int(((c['time'] >= edges[0]) & (c['time'] <= edges[-1])).sum()):
                chk.fail('impl', 'LC tbins=%d: Σ COUNTS = %d but %d events lie in the time range' % (tb, cnt.sum(), n), dict(oracle='LC', tbins=tb))
        # the same events in a file whose rows are not time-ordered (halves swapped, a few neighbours exchanged): binning is per event
        path2 = os.path.join(d, 'unsorted.fits')
        with fits.open(path) as h:
            m = len(h['EVENTS'].data)
            perm = numpy.concatenate([numpy.arange(m // 2, m), numpy.arange(0, m // 2)])
            sw = 2 * g.choice((m - 1) // 2, min(10, (m - 1) // 2), replace=False)          # disjoint neighbour pairs
            perm[sw], perm[sw + 1] = perm[sw + 1].copy(), perm[sw].copy()
            for ext in ('EVENTS', 'MONTE_CARLO'):
                if ext in h:
                    h[ext].data = h[ext].data[perm]
            h.writeto(path2, overwrite=True)
        for alg, args, ext, col in (('LC', ('--tbins', nlc), 'RATE', 'COUNTS'), ('PP', ('--phasebins', 16), 1, 'COUNTS'), ('PHA1', (), 'SPECTRUM', None)):
            o1, o2 = xpbin(path, alg, *args), xpbin(path2, alg, *args)
            with fits.open(o1) as h1, fits.open(o2) as h2:
                name = col or [n_ for n_ in h1[ext].columns.names if n_ in ('COUNTS', 'RATE')][0]
                c1, c2 = numpy.array(h1[ext].data[name], dtype=float), numpy.array(h2[ext].data[name], dtype=float)
            chk.case(dict(op=alg + ' unsorted rows', events=m), nontrivial=True)
            if c1.shape != c2.shape or not numpy.allclose(c1, c2, rtol=1e-6, atol=0):
                j = int(numpy.argmax(numpy.abs(c1 - c2))) if c1.shape == c2.shape else -1
                chk.fail('impl', '%s of the same events with rows not in time order: %s differs (bin %d: %r vs %r; totals %r vs %r)' % (
                    alg, name, j, float(c2[j]) if j >= 0 else None, float(c1[j]) if j >= 0 else None, float(c2.sum()), float(c1.sum())), dict(oracle='unsorted', alg=alg))
        # ---------------------------------------------------------------- PP
        for pb in (4, 16, int(g.integers(3, 30))):
            o = xpbin(path, 'PP', '--phasebins', pb)
            with fits.open(o) as h:
                cnt = numpy.array(h[1].data['COUNTS']).astype(int)
            edges = numpy.linspace(0., 1., pb + 1)
            k = ask_hist(drv, edges, c['phase'])
            chk.case(dict(op='PP', phasebins=pb, events_on_edges=int(numpy.isin(c['phase'], edges).sum())), nontrivial=True)
            jobs.append((dict(op='PP', phasebins=pb), cnt, k, lambda idx, nb=pb: counts_from(idx, nb)))
            if cnt.sum() != n:
                chk.fail('impl', 'PP phasebins=%d: Σ COUNTS = %d, events with a phase in [0, 1]: %d' % (pb, cnt.sum(), n), dict(oracle='PP', phasebins=pb))
        # ---------------------------------------------------------------- PHA1 family
        valid = (c['pi'] >= 0) & (c['pi'] <= 374)
        for alg in ('PHA1', 'PHA1Q', 'PHA1U'):
            o = xpbin(path, alg)
            with fits.open(o) as h:
                rate = numpy.array(h['SPECTRUM'].data['RATE'], dtype=float)
                chan = numpy.array(h['SPECTRUM'].data['CHANNEL']).astype(int)
                expo = h['SPECTRUM'].header['EXPOSURE']
            sw = dict(PHA1=numpy.ones(n), PHA1Q=c['q'], PHA1U=c['u'])[alg]
            exp = numpy.array([sw[(c['pi'] == ch)].sum() for ch in chan])
            chk.case(dict(op=alg, invalid_channel_events=int((~valid).sum())), nontrivial=True)
            if numpy.abs(rate * expo - exp).max() > 1e-3 or len(chan) != 375:
                j = int(numpy.argmax(numpy.abs(rate * expo - exp)))
                chk.fail('impl', '%s: channel %d holds %.3f (rate × exposure), the events with PI = %d give %.3f; Σ = %.2f vs %d events with a valid channel' % (
                    alg, chan[j], rate[j] * expo, chan[j], exp[j], (rate * expo).sum(), valid.sum()), dict(oracle=alg, channel=int(chan[j])))
        edges = numpy.linspace(0, 375, 376) - 0.5
        k = ask_hist(drv, edges, c['pi'])
        with fits.open(xpbin(path, 'PHA1')) as h:
            cnt = numpy.rint(numpy.array(h['SPECTRUM'].data['RATE'], dtype=float) * h['SPECTRUM'].header['EXPOSURE']).astype(int)
        jobs.append((dict(op='PHA1-channels'), cnt, k, lambda idx: counts_from(idx, 375)))
        # ---------------------------------------------------------------- CMAP
        for npix, pixsize in ((int(g.choice([40, 64, 101])), float(g.choice([6., 11., 20.]))), (200, None)):
            args = ['--npix', npix] + (['--pixsize', pixsize] if pixsize else [])
            o = xpbin(path, 'CMAP', *args)
            with fits.open(o) as h:
                img = numpy.array(h[0].data)
                hw = awcs.WCS(h[0].header)
            kw = dict(xref=RA0, yref=DEC0, npix=npix, pixsize=pixsize, proj='TAN')
            w = xEventBinningBase._build_image_wcs(**kw)
            pix = w.wcs_world2pix(numpy.vstack((c['ra'], c['dec'])).transpose(), 0)
            k = drv.ask('cmap %d %d %s' % (npix, 2 * n, ' '.join('%d %d' % (f2b(a), f2b(b)) for a, b in pix)))
            # independent: the header WCS of the written image maps each event to the pixel that counts it
            px, py = hw.wcs_world2pix(c['ra'], c['dec'], 0)
            ix, iy = numpy.rint(px).astype(int), numpy.rint(py).astype(int)
            inside = (ix >= 0) & (ix < npix) & (iy >= 0) & (iy < npix) & (numpy.abs(px - numpy.rint(px)) < 0.499) & (numpy.abs(py - numpy.rint(py)) < 0.499)
            exp_img = numpy.zeros((npix, npix), dtype=int)
            numpy.add.at(exp_img, (iy[inside], ix[inside]), 1)
            n_in = int(((px > -0.5) & (px < npix - 0.5) & (py > -0.5) & (py < npix - 0.5)).sum())
            chk.case(dict(op='CMAP', npix=npix, pixsize=pixsize, inside=n_in, of=n), nontrivial=n_in < n)
            if int(img.sum()) != n_in or (img < exp_img).any():
                chk.fail('impl', 'CMAP npix=%d pixsize=%s: image total %d, events inside the image %d; pixels with fewer counts than the events the header WCS puts there: %d' % (
                    npix, pixsize, img.sum(), n_in, int((img < exp_img).sum())), dict(oracle='CMAP', npix=npix, pixsize=pixsize))
            jobs.append((dict(op='CMAP', npix=npix, pixsize=pixsize), img.astype(int), k,
                         lambda idx, m=npix: _img(idx, m)))
        # ---------------------------------------------------------------- PCUBE: counts per bin, merging adjacent bins, EQP vs LIST
        evals = numpy.unique(c['energy'])
        inner = sorted(float(x) for x in g.choice(evals[(evals > 2.2) & (evals < 7.8)], 3, replace=False))
        fine = [2.] + inner + [8.]                 # inner edges exactly equal to event energies (float32 centre values)
        def cube(*args):
            with fits.open(xpbin(path, 'PCUBE', *args)) as h:
                return {k2: numpy.array(h[1].data[k2], dtype=float) for k2 in ('COUNTS', 'I', 'Q', 'U', 'W2', 'ENERG_LO', 'ENERG_HI')}
        for wflag in ('False', 'True'):
            extra = ['--weights', wflag] + (['--irfname', 'ixpe:obssim20240101_alpha075:v13'] if wflag == 'True' else [])
            cf = cube('--ebinalg', 'LIST', '--ebinning', str(fine), *extra)
            cm = cube('--ebinalg', 'LIST', '--ebinning', '[2., 8.]', *extra)
            chk.case(dict(op='PCUBE-merge', edges=fine, weights=wflag), nontrivial=True)
            for col in ('COUNTS', 'I', 'Q', 'U', 'W2'):
                if abs(cf[col].sum() - cm[col][0]) > 2e-5 * max(1., abs(cm[col][0]), numpy.abs(cf[col]).sum()):
                    chk.fail('impl', 'PCUBE (weights=%s): %s summed over the adjacent bins %s = %.6f, merged bin = %.6f' % (wflag, col, fine, cf[col].sum(), cm[col][0]),
                             dict(oracle='PCUBE-merge', edges=fine, weights=wflag, column=col))
            # counts per bin against the (emin, emax] mask on the channel-centre energies
            exp = numpy.array([((c['energy'] > a) & (c['energy'] <= b)).sum() for a, b in zip(fine[:-1], fine[1:])])
            if not numpy.array_equal(cf['COUNTS'].astype(int), exp):
                chk.fail('impl', 'PCUBE COUNTS %s differ from the events in each (emin, emax] bin %s' % (cf['COUNTS'], exp), dict(oracle='PCUBE-counts', edges=fine))
        # a binning that reaches beyond the 1-12 keV band of the response tables: measured energies span the whole 0-15 keV channel range
        wide = [0.1, 1., 2., 8., 12., 14.9]
        cw = cube('--ebinalg', 'LIST', '--ebinning', str(wide))
        expw = numpy.array([((c['energy'] > a) & (c['energy'] <= b)).sum() for a, b in zip(wide[:-1], wide[1:])])
        chk.case(dict(op='PCUBE-wide', edges=wide, events_per_bin=[int(x) for x in expw]), nontrivial=bool(expw[0] > 0 and expw[-1] > 0))
        if not numpy.array_equal(cw['COUNTS'].astype(int), expw):
            chk.fail('impl', 'PCUBE COUNTS %s on the edges %s differ from the events in each (emin, emax] bin %s' % (cw['COUNTS'], wide, expw), dict(oracle='PCUBE-wide', edges=wide))
        # a fine binning over the sparse high-energy tail: many bins hold a single event (or none) — each event still sits in exactly one bin
        cfine = cube('--ebinalg', 'LIN', '--emin', 8., '--emax', 13., '--ebins', 125)
        cone = cube('--ebinalg', 'LIST', '--ebinning', '[8., 13.]')
        ef = [float(cfine['ENERG_LO'][0])] + [float(x) for x in cfine['ENERG_HI']]
        expf = numpy.array([((c['energy'] > a) & (c['energy'] <= b)).sum() for a, b in zip(ef[:-1], ef[1:])])
        chk.case(dict(op='PCUBE-fine', bins=125, single_event_bins=int((expf == 1).sum()), empty_bins=int((expf == 0).sum())), nontrivial=bool((expf == 1).any()))
        if not numpy.array_equal(cfine['COUNTS'].astype(int), expf):
            j = int(numpy.where(cfine['COUNTS'].astype(int) != expf)[0][0])
            chk.fail('impl', 'PCUBE with 125 bins over 8–13 keV: bin %d (%.3f–%.3f keV) reports %d counts, %d events have their energy there' % (
                j, ef[j], ef[j + 1], cfine['COUNTS'][j], expf[j]), dict(oracle='PCUBE-fine', bin=j))
        for col in ('COUNTS', 'I', 'Q', 'U', 'W2'):
            if abs(cfine[col].sum() - cone[col][0]) > 2e-5 * max(1., abs(cone[col][0]), numpy.abs(cfine[col]).sum()):
                chk.fail('impl', 'PCUBE: %s summed over 125 adjacent bins = %.6f, merged bin = %.6f' % (col, cfine[col].sum(), cone[col][0]), dict(oracle='PCUBE-fine-merge', column=col))
        # EQP: same edges through LIST must give the same cube; all energies inside [emin, emax] (pre-selected file) and not
        for inside in (None, (2., 8.)):
            p2 = build_file(g, d, n=900, name='eqp%s.fits' % ('in' if inside else ''), energy_inside=inside)
            with fits.open(xpbin(p2, 'PCUBE', '--ebinalg', 'EQP', '--ebins', 4)) as h:
                ce = {k2: numpy.array(h[1].data[k2], dtype=float) for k2 in ('COUNTS', 'I', 'Q', 'U', 'ENERG_LO', 'ENERG_HI')}
            edges = [float(ce['ENERG_LO'][0])] + [float(x) for x in ce['ENERG_HI']]
            with fits.open(xpbin(p2, 'PCUBE', '--ebinalg', 'LIST', '--ebinning', str(edges))) as h:
                cl = {k2: numpy.array(h[1].data[k2], dtype=float) for k2 in ('COUNTS', 'I', 'Q', 'U')}
            chk.case(dict(op='PCUBE-EQP-vs-LIST', all_energies_inside=bool(inside), edges=edges), nontrivial=True)
            for col in ('COUNTS', 'I', 'Q', 'U'):
                if numpy.abs(ce[col] - cl[col]).max() > 1e-4 * max(1., numpy.abs(cl[col]).max()):
                    chk.fail('impl', 'PCUBE with EQP binning differs from the LIST cube on the same edges %s in column %s: %s vs %s' % (edges, col, ce[col], cl[col]),
                             dict(oracle='PCUBE-EQP', edges=edges, column=col, all_energies_inside=bool(inside)))
            c2 = file_cols(p2)
            if abs(ce['COUNTS'].sum() - ((c2['energy'] > edges[0]) & (c2['energy'] <= edges[-1])).sum()) > 0:
                chk.fail('impl', 'EQP cube loses events: Σ COUNTS %d' % ce['COUNTS'].sum(), dict(oracle='PCUBE-EQP-total', edges=edges))
        # ---------------------------------------------------------------- map cubes: totals
        for alg, mcflag in (('PMAPCUBE', False), ('MDPMAPCUBE', False), ('PMAPCUBE', True), ('MDPMAPCUBE', True)):
            o = xpbin(path, alg, '--npix', 30, '--pixsize', 30., '--ebinalg', 'LIST', '--ebinning', '[2.01, 3.99, 7.97]', '--mc', str(mcflag))
            with fits.open(o) as h:
                cnt = numpy.array(h['COUNTS'].data, dtype=float)
                hw = awcs.WCS(h[0].header).celestial if h[0].header.get('NAXIS', 0) else awcs.WCS(h['COUNTS'].header).celestial
            kw = dict(xref=RA0, yref=DEC0, npix=30, pixsize=30., proj='TAN')
            w = xEventBinningBase._build_image_wcs(**kw)
            pix = w.wcs_world2pix(numpy.vstack((c['ra'], c['dec'])).transpose(), 0)
            inimg = (pix[:, 0] > -0.5) & (pix[:, 0] < 29.5) & (pix[:, 1] > -0.5) & (pix[:, 1] < 29.5)
            en = c['mc_energy'] if mcflag else c['energy']          # `--mc True`: the layer of an event is that of its true energy
            per_layer = [int((inimg & (en > a) & (en < b)).sum()) for a, b in ((2.01, 3.99), (3.99, 7.97))]
            chk.case(dict(op=alg, mc=mcflag, per_layer=per_layer), nontrivial=True)
            got = [int(round(cnt[i].sum())) for i in range(cnt.shape[0])]
            if got != per_layer:
                chk.fail('impl', '%s (mc=%s): COUNTS per energy layer %s, events inside image and layer %s' % (alg, mcflag, got, per_layer), dict(oracle=alg, mc=mcflag))
        # ---------------------------------------------------------------- the same path, another file: a pipeline that overwrites its selection
        # (same suffix) and bins it again in the same process gets the map of the file that is there now
        for n2 in (int(g.integers(150, 400)),):
            xpbin(path, 'CMAP', '--npix', 40, '--pixsize', 15.)
            n = file_cols(path)['n']
            path2 = build_file(g, d, n=n2, name=os.path.basename(path))
            c2 = file_cols(path2)
            o = xpbin(path2, 'CMAP', '--npix', 40, '--pixsize', 15.)
            with fits.open(o) as h:
                img = numpy.array(h[0].data)
                hw = awcs.WCS(h[0].header)
            px, py = hw.wcs_world2pix(c2['ra'], c2['dec'], 0)
            n_in = int(((px > -0.5) & (px < 39.5) & (py > -0.5) & (py < 39.5)).sum())
            with fits.open(path2) as h2:
                nrows = len(h2['EVENTS'].data)           # read with astropy, not through the package
            chk.case(dict(op='CMAP of a file rewritten at the same path', events=c2['n'], inside=n_in, previous_events=n), nontrivial=True)
            if int(img.sum()) != n_in or int(img.sum()) > nrows or c2['n'] != nrows:
                chk.fail('impl', 'CMAP of a file rewritten at the same path (%d rows, %d inside the image; the file binned before at that path had %d): image total %d' % (
                    nrows, n_in, n, int(img.sum())), dict(oracle='CMAP-rewritten', events=c2['n'], previous=n))
    replies = drv.run()
    for desc, impl, k, build in jobs:
        idx = [int(x) for x in replies[k].split()]
        model = build(idx)
        if not numpy.array_equal(numpy.asarray(model), numpy.asarray(impl)):
            diff = numpy.argwhere(numpy.asarray(model) != numpy.asarray(impl))[:3].tolist()
            chk.fail('correspondence', '%s: per-bin counts of the model and of the file written by xpbin differ at %s' % (desc, diff), dict(op=desc, where=diff))


def _img(idx, m):
    img = numpy.zeros((m, m), dtype=int)
    for ix, iy in zip(idx[0::2], idx[1::2]):
        if ix >= 0 and iy >= 0:
            img[ix, iy] += 1      # histogram2d(x, y): first axis is x (= pix[:,1] + 0.5)
    return img


def main(chk):
    chk.rule = ('real xpbin on synthetic files: LC (times exactly on, just below and just above every edge), PP (float32 phases on the edges incl. 0 and 1), PHA1/PHA1Q/PHA1U '
                '(PI 0, 374 and the invalid 375, 376), CMAP (two image geometries, events outside the image; header WCS of the written image as independent reference), PCUBE '
                '(inner edges equal to event energies, weighted and unweighted, adjacent bins vs merged bin, EQP vs LIST on the same edges with all / not all energies inside '
                'the range), PMAPCUBE/MDPMAPCUBE layer totals; per-bin counts compared exactly with the Lean numpy.histogram model. non-trivial = events on edges / outside the domain')
    chk.assumptions = TRUSTED
    chk.lean(['IxpeVerif.Props.C08', 'IxpeVerif.Props.C08Gen', 'IxpeVerif.Props.Audit.C08'], ['ana_init', 'ana_energy_mask', 'ana_sum_stokes_parameters', 'ana_w2', 'ana_table_row'])
    explore(chk)
    if chk.tier != 'quick':
        for b in range(2, 12):
            explore(chk, b)
    return chk.finish(level='proof', trusted=TRUSTED, search=lambda k: [explore(chk, 100 + j) for j in range(3)])


def replay(body):
    import sys
    import common
    return common.replay_rerun(sys.modules[__name__], body)
