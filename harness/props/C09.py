"""C09 — xpselect keeps exactly the rows that satisfy the requested predicate (DESIGN.md section 7, C09)."""
import os
import numpy

from common import out, rng, Driver, scratch, f2b

TRUSTED = ['Lean 4.33 kernel (core only)', 'axioms ⊆ {propext, Quot.sound}',
           'hand-written model Sel.mask/select/validate tied by exact correspondence (row tags, bounds on event values ± 1 ulp)',
           'order-preserving key map of IEEE values and the float32 evaluation of the generated channel_to_energy in the driver',
           'angular separations and region membership are supplied per row by the library (astropy WCS, regions): abstract in the model',
           'astropy FITS I/O']

CENTRES = [(30., 45.), (0.012, 0.01)]     # the second field straddles RA = 0 / 360 and DEC = 0: a quarter of the events have RA ≈ 359.99, and cone centres with a coordinate exactly 0.0 occur
RA0, DEC0 = CENTRES[0]
T0S = [1000.]


def set_centre(i):
    global RA0, DEC0
    RA0, DEC0 = CENTRES[i]
    T0S[0] = [1000., 167000000.][i]


NREG = [1]


def reg_circles(n=None):
    """(ra, dec, radius in arcsec) of the regions of a file: the selection is their union. The main flow uses the first circle (the BACKSCAL
    estimate of the package costs seconds per region); `three_regions` uses all three"""
    return [(RA0 + 0.004, DEC0 - 0.003, 55.), (RA0 - 0.012, DEC0 + 0.006, 30.), (RA0 + 0.002, DEC0 + 0.015, 25.)][:(n or NREG[0])]


def reg_text(n=None):
    return '# Region file format: DS9 version 4.1\nfk5\n' + ''.join('circle(%.6f,%.6f,%.1f")\n' % c for c in reg_circles(n))


class Abort(Exception):
    pass


SHUFFLE = [False]


def build_file(g, d, n=160):
    """Synthetic level-2 file with a PHASE column; rows carry a tag in PHA/MC_PHA."""
    import evfile
    from astropy.io import fits
    # the first field uses small times on a 1/16 s grid; the second one realistic mission times (1.67e8 s) on a 1/1024 s grid, i.e.
    # bounds that need 15 significant digits to be written down
    T0 = T0S[0]
    t = numpy.sort(g.choice(numpy.arange(1, 2 ** 14), n, replace=False)) / 2 ** 4 + T0 if T0 < 1e6 else \
        numpy.sort(g.choice(numpy.arange(1, 2 ** 20), n, replace=False)) / 2 ** 10 + T0
    pi = g.integers(20, 250, n)
    ra = RA0 + g.normal(0, 0.02, n) / numpy.cos(numpy.radians(DEC0))
    dec = DEC0 + g.normal(0, 0.02, n)
    ra[0], dec[0] = RA0, DEC0                      # an event exactly at the cone centre
    mce = (0.04 * pi + 0.02) * g.uniform(0.8, 1.2, n)
    src = g.integers(0, 3, n)
    path = os.path.join(d, 'sel.fits')
    evfile.write_event_file(path, t, pi=pi, phi=g.uniform(-3, 3, n), ra=ra, dec=dec, src=src, mc_energy=mce, tag=numpy.arange(1, n + 1),
                            mc_ra=ra + g.normal(0, 0.006, n) / numpy.cos(numpy.radians(DEC0)), mc_dec=dec + g.normal(0, 0.006, n),   # true positions differ from the measured ones (PSF)
                            tstart=T0, tstop=T0 + 1024., ra0=RA0, dec0=DEC0)
    # PHASE column as xpphase writes it (format E)
    phase = (g.integers(0, 2 ** 10, n) / 2 ** 10).astype(numpy.float32)
    # a double-precision phase within 3e-8 of a full turn is stored as exactly 1.0 in the single-precision column: two such rows
    phase[[int(g.integers(0, n)), int(g.integers(0, n))]] = numpy.float32(1.0)
    with fits.open(path) as h:
        cols = h['EVENTS'].data.columns + fits.ColDefs([fits.Column(name='PHASE', array=phase, format='E')])
        h['EVENTS'] = fits.BinTableHDU.from_columns(cols, header=h['EVENTS'].header)
        # a few events recorded the very microsecond the detector came back to life: LIVETIME = 0 (legal; about rate × 1e-6 of the events of a real file)
        lt = numpy.array(h['EVENTS'].data['LIVETIME'])
        lt[g.choice(n, 6, replace=False)] = 0
        h['EVENTS'].data['LIVETIME'] = lt
        h.writeto(path, overwrite=True)
    if SHUFFLE[0]:
        # a file whose rows are not in time order (segments merged in another order, rows sorted by another column): the predicate is per row
        perm = numpy.concatenate([numpy.arange(n // 2, n), numpy.arange(0, n // 2)])
        sw = 2 * g.choice((n - 1) // 2, 10, replace=False)          # disjoint neighbour pairs
        perm[sw], perm[sw + 1] = perm[sw + 1].copy(), perm[sw].copy()
        with fits.open(path) as h:
            for ext in ('EVENTS', 'MONTE_CARLO'):
                h[ext].data = h[ext].data[perm]
            h.writeto(path, overwrite=True)
    reg = os.path.join(d, 'circle.reg')
    open(reg, 'w').write(reg_text())
    return path, reg


def read_rows(path, reg):
    """Per-row quantities the selection looks at, taken from the file through the package's own reader."""
    from ixpeobssim.evt.event import xEventFile
    f = xEventFile(path)
    ev, mc = f.event_data, f.mc_data
    ra, dec = f.sky_position_data(False)
    mra, mdec = f.sky_position_data(True)
    rows = dict(time=numpy.array(ev['TIME'], dtype=float), phase=numpy.array(ev['PHASE'], dtype=numpy.float32), pi=numpy.array(ev['PI']).astype(int),
                mce=numpy.array(mc['MC_ENERGY'], dtype=numpy.float32), ra=numpy.array(ra, dtype=float), dec=numpy.array(dec, dtype=float),
                mra=numpy.array(mra, dtype=float), mdec=numpy.array(mdec, dtype=float), src=numpy.array(mc['SRC_ID']).astype(int),
                tag=numpy.array(ev['PHA']).astype(int), inreg=numpy.array(f.ds9_region_file_mask(reg, mc=False), dtype=bool),
                minreg=numpy.array(f.ds9_region_file_mask(reg, mc=True), dtype=bool),
                tstart=f.primary_header['TSTART'], tstop=f.primary_header['TSTOP'])
    f.close()
    # the boolean array of a direct selection (`--mask`): one file per event file, at a fixed path, written once and used by every selection
    # of the run that asks for it (what one selection does to the array it loaded must not show in the next one, nor on disk)
    gm = numpy.random.default_rng(len(rows['time']) * 7919 + int(rows['pi'].sum()))
    rows['inmask'] = gm.uniform(size=len(rows['time'])) < 0.55
    rows['maskfile'] = path.replace('.fits', '_mask.npy')
    if not os.path.exists(rows['maskfile']):
        numpy.save(rows['maskfile'], rows['inmask'])
    return rows


def haversine_arcmin(ra, dec, ra0, dec0):
    """independent great-circle separation (arcmin)"""
    r, d, r0, d0 = (numpy.radians(x) for x in (ra, dec, ra0, dec0))
    a = numpy.sin((d - d0) / 2) ** 2 + numpy.cos(d) * numpy.cos(d0) * numpy.sin((r - r0) / 2) ** 2
    return numpy.degrees(2 * numpy.arcsin(numpy.sqrt(a))) * 60.


def gen_cfg(g, rows, malformed=False):
    kw = {}
    T, E, P = rows['time'], None, rows['phase']
    from ixpeobssim.irf.ebounds import channel_to_energy
    E = channel_to_energy(rows['pi'].astype(numpy.float32))
    nudge = lambda x: float(x) if g.uniform() < 0.6 else float(numpy.nextafter(x, x + (1 if g.uniform() < 0.5 else -1)))
    first = g.choice(['time', 'phase', 'none'], p=[0.45, 0.3, 0.25])
    if first == 'time':
        a, b = sorted(g.choice(T, 2, replace=False))
        if g.uniform() < 0.25:
            a, b = sorted(g.uniform(T.min(), T.max(), 2))
        r = g.uniform()
        if r < 0.6:
            kw['tmin'], kw['tmax'] = nudge(a), nudge(b)
        elif r < 0.8:
            kw['tmin'] = nudge(a)
        else:
            kw['tmax'] = nudge(b)
        if g.uniform() < 0.35:
            kw['tinvert'] = True
    elif first == 'phase':
        a, b = sorted(g.choice(numpy.unique(P), 2, replace=False))
        r = g.uniform()
        if r < 0.6:
            kw['phasemin'], kw['phasemax'] = float(a), float(b)
        elif r < 0.8:
            kw['phasemin'] = float(a)
        else:
            kw['phasemax'] = float(b)
        if g.uniform() < 0.35:
            kw['phaseinvert'] = True
    elif g.uniform() < 0.2:
        kw['tinvert'] = True          # invert flag without bounds: ignored by the code
    elif g.uniform() < 0.6:
        kw['mask'] = 'MASK'           # direct selection with a boolean array
    if first in ('time', 'phase') and g.uniform() < 0.35:
        kw['ltimeupdate'] = True          # the keyword update must not touch the rows
    if g.uniform() < 0.6:
        mcflag = g.uniform() < 0.3
        pool = numpy.unique(rows['mce'] if mcflag else E)
        a, b = sorted(g.choice(pool, 2, replace=False))
        if g.uniform() < 0.4:                  # generic bounds, anywhere inside a channel
            a, b = sorted(g.uniform(1., 10., 2))
            nudge = float
        r = g.uniform()
        # bounds equal to event values (float32 -> Python float) and ± 1 float64 ulp around them
        if r < 0.6:
            kw['emin'], kw['emax'] = nudge(a), nudge(b)
        elif r < 0.8:
            kw['emin'] = nudge(a)
        else:
            kw['emax'] = nudge(b)
        if g.uniform() < 0.35:
            kw['einvert'] = True
        if mcflag:
            kw['mc'] = True
    r = g.uniform()
    if r < 0.35:
        kw['rad'] = float(g.uniform(0.3, 2.5))
        if g.uniform() < 0.4:
            kw['innerrad'] = float(g.choice([0., g.uniform(0.05, 0.3)]))
        if g.uniform() < 0.5:
            kw['ra'], kw['dec'] = RA0 + float(g.choice([0., 0.003, -0.01])), DEC0 + float(g.choice([0., 0.002]))
            if RA0 < 1.:                       # explicit centres with a coordinate exactly equal to 0.0
                kw['ra'] = float(g.choice([0., kw['ra']]))
                kw['dec'] = float(g.choice([0., kw['dec']]))
    elif r < 0.45:
        kw['innerrad'] = float(g.uniform(0.2, 1.))
    elif r < 0.6:
        kw['regfile'] = 'REG'
        if g.uniform() < 0.4:
            kw['reginvert'] = True
    if g.uniform() < 0.3:
        kw['mcsrcid'] = [int(g.integers(0, 3))] + ([int(g.integers(0, 3))] if g.uniform() < 0.15 else [])
    if g.uniform() < 0.15 and 'mc' not in kw:
        kw['mc'] = True
    if malformed:
        m = g.integers(0, 6)
        if m == 0:
            kw.update(tmin=float(T[3]), phasemin=0.25)
        elif m == 1:
            kw.update(tmin=float(rows['tstart'] - 5.))
        elif m == 2:
            kw.update(tmin=float(T[9]), tmax=float(T[4]))
            kw.pop('phasemin', None); kw.pop('phasemax', None)
        elif m == 3:
            kw.update(phasemax=1.5)
            kw.pop('tmin', None); kw.pop('tmax', None)
        elif m == 4:
            kw.update(rad=1., regfile='REG')
        else:
            kw.update(tmax=float(rows['tstop'] + 1.))
            kw.pop('phasemin', None); kw.pop('phasemax', None)
    return kw


def boundary_cfgs(g, rows):
    """Every criterion alone, direct and inverted, two-sided / min only / max only, bounds exactly on event values."""
    from ixpeobssim.irf.ebounds import channel_to_energy
    E = numpy.unique(channel_to_energy(rows['pi'].astype(numpy.float32)))
    pools = dict(t=(rows['time'], 'tmin', 'tmax', 'tinvert', {}), p=(numpy.unique(rows['phase']), 'phasemin', 'phasemax', 'phaseinvert', {}),
                 e=(E, 'emin', 'emax', 'einvert', {}), m=(numpy.unique(rows['mce']), 'emin', 'emax', 'einvert', dict(mc=True)))
    outl = []
    for key, (pool, kmin, kmax, kinv, extra) in pools.items():
        for inv in (False, True):
            for side in ('both', 'min', 'max'):
                a, b = sorted(g.choice(pool, 2, replace=False))
                kw = dict(extra)
                if side in ('both', 'min'):
                    kw[kmin] = float(a)
                if side in ('both', 'max'):
                    kw[kmax] = float(b)
                if inv:
                    kw[kinv] = True
                outl.append(kw)
    return outl


_ENTRY = [0]


def impl_select(path, reg, kw, outname='out'):
    """Run the real xEventSelect.select(); returns ('ok', tags, mctags, outfile) or ('err', code)."""
    from ixpeobssim.bin.xpselect import PARSER
    from ixpeobssim.evt import subselect
    from astropy.io import fits
    from unittest import mock
    kwargs = PARSER.parse_args([path]).__dict__
    sub = lambda v: reg if v == 'REG' else (path.replace('.fits', '_mask.npy') if v == 'MASK' else v)      # noqa
    kwargs.update({k: sub(v) for k, v in kw.items()})
    kwargs['suffix'] = outname

    def _abort(msg=''):
        raise Abort(str(msg))
    _ENTRY[0] += 1
    with mock.patch.object(subselect, 'abort', _abort):
        try:
            if _ENTRY[0] % 3 == 1 and 'mcsrcid' not in kw:
                # through the pipeline wrapper (keyword arguments turned into command-line switches and parsed again), as the example pipelines do
                from ixpeobssim.core import pipeline
                o = pipeline.xpselect(path, overwrite=True, suffix=outname, **{k: sub(v) for k, v in kw.items()})
                o = o[0] if isinstance(o, (list, tuple)) else o
            else:
                o = subselect.xEventSelect(path, **kwargs).select()
        except Abort as e:
            return ('err', classify(str(e)))
    with fits.open(o) as h:
        return ('ok', [int(x) for x in h['EVENTS'].data['PHA']], [int(x) for x in h['MONTE_CARLO'].data['MC_PHA']], o)


def classify(msg):
    if 'time and phase' in msg:
        return 'timeAndPhase'
    if 'circle/annulus and ds9' in msg:
        return 'coneAndReg'
    if msg.startswith('tmin') and 'outside' in msg:
        return 'tminOut'
    if msg.startswith('tmax') and 'outside' in msg:
        return 'tmaxOut'
    if msg.startswith('tmin') and '>=' in msg:
        return 'tminGeTmax'
    if msg.startswith('phasemin') and 'outside' in msg:
        return 'pminOut'
    if msg.startswith('phasemax') and 'outside' in msg:
        return 'pmaxOut'
    if msg.startswith('phasemin') and '>=' in msg:
        return 'pminGePmax'
    return 'other:' + msg[:40]


def seps(rows, kw):
    ra0, dec0 = kw.get('ra', RA0), kw.get('dec', DEC0)
    # the WCS reference of the synthetic file is (RA0, DEC0): that is what a missing --ra/--dec defaults to
    return haversine_arcmin(rows['ra'], rows['dec'], ra0, dec0), haversine_arcmin(rows['mra'], rows['mdec'], ra0, dec0)


def model_line(rows, kw):
    o = lambda k: 'N' if kw.get(k) is None else str(f2b(kw[k]))
    b = lambda k: '1' if kw.get(k) else '0'
    s, ms = seps(rows, kw)
    src = kw.get('mcsrcid', [])
    flat = []
    for i in range(len(rows['time'])):
        flat += [f2b(rows['time'][i]), f2b(float(rows['phase'][i])), int(rows['pi'][i]), f2b(float(rows['mce'][i])), f2b(s[i]), f2b(ms[i]),
                 int(rows['inreg'][i]) + 2 * int(rows['inmask'][i]), int(rows['minreg'][i]), int(rows['src'][i]), int(rows['tag'][i])]
    return 'select %s %s %s %s %s %s %s %s %s %s %s %s %s %s %d %d %d %s %d %s' % (
        o('tmin'), o('tmax'), b('tinvert'), o('phasemin'), o('phasemax'), b('phaseinvert'), o('emin'), o('emax'), b('einvert'), b('mc'),
        o('rad'), o('innerrad'), str((1 if kw.get('regfile') else 0) + (2 if kw.get('mask') else 0)), b('reginvert'), f2b(rows['tstart']), f2b(rows['tstop']),
        len(src), ' '.join(map(str, src)), len(flat), ' '.join(map(str, flat)))


def ref_mask(rows, kw):
    """The documented predicate (docs/filtering.rst), transcribed independently in float64. Returns (mask, care): rows whose
    energy / separation lies within rounding distance of a bound are "don't care" here (the exact float32 / library behaviour
    on those is decided by the model correspondence, not by this oracle)."""
    n = len(rows['time'])
    m = numpy.ones(n, bool)
    care = numpy.ones(n, bool)
    T, P = rows['time'], rows['phase'].astype(float)
    if kw.get('tmin') is not None or kw.get('tmax') is not None:
        tm = numpy.ones(n, bool)
        if kw.get('tmin') is not None:
            tm &= T >= kw['tmin']
        if kw.get('tmax') is not None:
            tm &= T < kw['tmax']
        m &= ~tm if kw.get('tinvert') else tm
    elif kw.get('phasemin') is not None or kw.get('phasemax') is not None:
        pm = numpy.ones(n, bool)
        if kw.get('phasemin') is not None:
            pm &= P >= kw['phasemin']
        if kw.get('phasemax') is not None:
            pm &= P < kw['phasemax']
        m &= ~pm if kw.get('phaseinvert') else pm
    elif kw.get('mask'):
        m &= rows['inmask']
    en = rows['mce'].astype(float) if kw.get('mc') else (rows['pi'] * 0.04 + 0.02)
    em = numpy.ones(n, bool)
    for k, op in (('emin', numpy.greater_equal), ('emax', numpy.less)):
        if kw.get(k) is not None:
            em &= op(en, kw[k])
            care &= numpy.abs(en - kw[k]) > 1e-5
    m &= ~em if kw.get('einvert') else em
    if kw.get('rad') is not None or kw.get('innerrad') is not None:
        s, ms = seps(rows, kw)
        x = ms if kw.get('mc') else s
        # the true positions are single-precision columns and the package computes their separation in single precision (~1e-4 arcmin)
        eps = 5e-4 if kw.get('mc') else 1e-6
        if kw.get('rad') is not None:
            m &= x <= kw['rad']
            care &= numpy.abs(x - kw['rad']) > eps
        if kw.get('innerrad') is not None:
            m &= x >= kw['innerrad']
            care &= (numpy.abs(x - kw['innerrad']) > eps) | (kw['innerrad'] == 0.)
    if kw.get('regfile'):
        # the regions of the synthetic file are three circles (their union is selected): membership computed independently from the (measured or true) sky position;
        # rows within 0.6" of the edge are "don't care" (the regions library works in pixel space)
        r = numpy.zeros(len(m), dtype=bool)
        for (cra, cdec, crad) in reg_circles():
            x = haversine_arcmin(rows['mra'] if kw.get('mc') else rows['ra'], rows['mdec'] if kw.get('mc') else rows['dec'], cra, cdec)
            r |= x <= crad / 60.
            care &= numpy.abs(x - crad / 60.) > 0.01
        m &= ~r if kw.get('reginvert') else r
    for sid in kw.get('mcsrcid', []):
        m &= rows['src'] == sid
    return m, care


def near_boundary(rows, kw, eps=1e-7):
    eps = 5e-4 if kw.get('mc') else eps
    """a cone radius within eps of some row's separation: float noise of the independent separation, skip exactness"""
    s, ms = seps(rows, kw)
    x = ms if kw.get('mc') else s
    for k in ('rad', 'innerrad'):
        if kw.get(k) is not None and numpy.any(numpy.abs(x - kw[k]) < eps) and kw[k] != 0.:
            return True
    return False


def file_rows_equal(path, outpath, keep_tags):
    """all columns of the kept rows are untouched, EVENTS and MONTE_CARLO filtered identically"""
    from astropy.io import fits
    with fits.open(path) as a, fits.open(outpath) as b:
        for ext, tagcol in (('EVENTS', 'PHA'), ('MONTE_CARLO', 'MC_PHA')):
            A, B = a[ext].data, b[ext].data
            idx = {int(t): i for i, t in enumerate(A[tagcol])}
            sel = [idx[t] for t in keep_tags]
            if len(B) != len(sel):
                return '%s has %d rows, expected %d' % (ext, len(B), len(sel))
            for name in A.columns.names:
                x, y = numpy.array(A[name])[sel], numpy.array(B[name])
                if not (numpy.array_equal(x, y) or (x.dtype.kind == 'f' and numpy.array_equal(x, y, equal_nan=True))):
                    return 'column %s of %s changed' % (name, ext)
    return None


def mask_correspondence(chk, g, path, rows, n):
    """the *generated* `_time_selection_mask` / `_phase_selection_mask` (translator/masks.py), run by the driver on order-preserving keys,
    against the boolean masks the real methods return on the synthetic file — bounds on event values and one ulp off, one- and two-sided, inverted"""
    from ixpeobssim.bin.xpselect import PARSER
    from ixpeobssim.evt import subselect
    drv, jobs = Driver(), []
    T, P = rows['time'], rows['phase']
    for i in range(n):
        kind = 'time' if i % 2 == 0 else 'phase'
        vals = T if kind == 'time' else P
        a, b = sorted(float(x) for x in g.choice(numpy.unique(vals), 2, replace=False))
        if kind == 'time' and g.uniform() < 0.4:
            a, b = float(numpy.nextafter(a, a + g.choice([-1., 1.]))), float(numpy.nextafter(b, b + g.choice([-1., 1.])))
        r = g.uniform()
        lo, hi = (a, b) if r < 0.5 else (a, None) if r < 0.75 else (None, b)
        inv = bool(g.uniform() < 0.4)
        kwargs = PARSER.parse_args([path]).__dict__
        kwargs.update({('tmin' if kind == 'time' else 'phasemin'): lo, ('tmax' if kind == 'time' else 'phasemax'): hi, ('tinvert' if kind == 'time' else 'phaseinvert'): inv})
        sel = subselect.xEventSelect(path, **kwargs)
        impl = [int(x) for x in (sel._time_selection_mask() if kind == 'time' else sel._phase_selection_mask())]
        sel.event_file.close()
        o = lambda v: 'N' if v is None else str(f2b(v))
        drv.ask('gmask %s %s %s %d %d %s' % (kind, o(lo), o(hi), int(inv), len(vals), ' '.join(str(f2b(float(v))) for v in vals)))
        jobs.append((kind, lo, hi, inv, impl))
    for (kind, lo, hi, inv, impl), rep in zip(jobs, drv.run()):
        model = [int(x) for x in rep.split()]
        chk.case(dict(op='generated-mask', kind=kind, lo=lo, hi=hi, invert=inv, kept=sum(impl)), nontrivial=0 < sum(impl) < len(impl))
        if model != impl:
            k = [i for i, (x, y) in enumerate(zip(model, impl)) if x != y]
            chk.fail('correspondence', 'generated %s mask (bounds %r, %r, invert %s) differs from the implementation on %d rows (first: value %r)' % (
                kind, lo, hi, inv, len(k), float((rows['time'] if kind == 'time' else rows['phase'])[k[0]])), dict(op='gmask', kind=kind, lo=lo, hi=hi, invert=inv))


_THREE_DONE = [False]


def three_regions(chk, g, path, rows, d):
    """a region file listing three regions: the selection is their union (and its complement with --reginvert)"""
    reg3 = os.path.join(d, 'three.reg')
    open(reg3, 'w').write(reg_text(3))
    NREG[0] = 3
    try:
        for kw in (dict(regfile='REG'), dict(regfile='REG', reginvert=True, mc=bool(g.integers(0, 2)))):
            res = impl_select(path, reg3, kw, 'three%d' % len(kw))
            m, care = ref_mask(rows, kw)
            kept = len(res[1]) if res[0] == 'ok' else -1
            chk.case(dict(op='select', kwargs=kw, regions=3, kept=kept, of=len(rows['time'])), nontrivial=0 < kept < len(rows['time']))
            if res[0] != 'ok':
                chk.fail('impl', 'xpselect with a three-region file failed: %s' % (res,), dict(oracle='predicate-three-regions', kwargs=kw, centre=[RA0, DEC0]))
                continue
            kept_set = set(res[1])
            wrong = [int(t) for t, mm, cc in zip(rows['tag'], m, care) if cc and ((int(t) in kept_set) != bool(mm))]
            if wrong or res[1] != res[2]:
                chk.fail('impl', 'xpselect %s with a region file of three circles: rows with tags %s are kept/dropped although they are %s the union of the regions (kept %d rows, expected %d)' % (
                    kw, wrong[:8], 'outside/inside', len(res[1]), int(m.sum())), dict(oracle='predicate-three-regions', kwargs=kw, centre=[RA0, DEC0], wrong_tags=wrong[:50]))
    finally:
        NREG[0] = 1


def run_cases(chk, n, tagname, budget=1):
    g = rng(tagname)
    for centre in (0, 1):
        set_centre(centre)
        _run_cases(chk, g, max(1, n * budget // 2))
    set_centre(0)
    SHUFFLE[0] = True
    try:
        _run_cases(chk, g, max(1, n * budget // 4))
    finally:
        SHUFFLE[0] = False


def _run_cases(chk, g, n):
    with scratch() as d:
        path, reg = build_file(g, d)
        rows = read_rows(path, reg)
        mask_correspondence(chk, g, path, rows, 20 if chk.tier == 'quick' else 200)
        if not _THREE_DONE[0] or chk.tier != 'quick':
            _THREE_DONE[0] = True
            three_regions(chk, g, path, rows, d)
        drv = Driver()
        jobs = []
        for kw in boundary_cfgs(g, rows) + [gen_cfg(g, rows, malformed=(i % 7 == 6)) for i in range(n)]:
            drv.ask(model_line(rows, kw))
            jobs.append(kw)
        replies = drv.run()
        for i, (kw, rep) in enumerate(zip(jobs, replies)):
            ncrit = sum(1 for k in ('tmin', 'tmax', 'phasemin', 'phasemax', 'emin', 'emax', 'rad', 'innerrad', 'regfile', 'mcsrcid', 'mask') if kw.get(k) not in (None, []))
            try:
                res = impl_select(path, reg, kw, 'o%d' % i)
            except BaseException as e:
                chk.case(dict(op='select', kwargs=kw), nontrivial=False)
                chk.fail('impl', 'xEventSelect.select raised %s: %s for %s' % (type(e).__name__, e, kw), dict(oracle='select', kwargs=kw, error=str(e)))
                continue
            if rep.startswith('err'):
                model = ('err', rep.split()[1])
            else:
                model = ('ok', [int(x) for x in rep.split()[1:]])
            kept = len(res[1]) if res[0] == 'ok' else -1
            chk.case(dict(op='select', kwargs=kw, kept=kept, of=len(rows['time'])), nontrivial=(ncrit >= 2 and 0 < kept < len(rows['time'])))
            if res[0] == 'ok' and res[1] != res[2]:
                chk.fail('impl', 'EVENTS and MONTE_CARLO are not filtered identically for %s' % kw, dict(oracle='select', kwargs=kw))
                continue
            if res[0] == 'ok':
                # the documented predicate, evaluated independently on the implementation's output
                m, care = ref_mask(rows, kw)
                kept_set = set(res[1])
                wrong = [int(t) for t, mm, cc in zip(rows['tag'], m, care) if cc and ((int(t) in kept_set) != bool(mm))]
                if wrong:
                    chk.fail('impl', 'xpselect %s: rows with tags %s are %s although the documented predicate says otherwise (kept %d rows, expected %d)' % (
                        kw, wrong[:8], 'kept/dropped', len(res[1]), int(m.sum())), dict(oracle='predicate', kwargs=kw, centre=[RA0, DEC0], wrong_tags=wrong[:50]))
                    continue
            if near_boundary(rows, kw):
                continue
            if model[:2] != res[:2]:
                chk.fail('correspondence', 'select %s: model %s vs implementation %s' % (kw, str(model)[:200], str(res[:2])[:200]),
                         dict(op='select', kwargs=kw, model=model, impl=res[:2]))
                continue
            if res[0] == 'ok':
                bad = file_rows_equal(path, res[3], res[1])
                if bad:
                    chk.fail('impl', 'selected file for %s: %s' % (kw, bad), dict(oracle='select', kwargs=kw, observed=bad))
                # a selection and its inverse partition the input (time / phase / energy), evaluated on the implementation
                for flag, needs in (('tinvert', ('tmin', 'tmax')), ('phaseinvert', ('phasemin', 'phasemax')), ('einvert', ('emin', 'emax'))):
                    if any(kw.get(k) is not None for k in needs) and i % 4 == 0:
                        kw2 = dict(kw); kw2[flag] = not kw.get(flag, False)
                        r2 = impl_select(path, reg, kw2, 'p%d' % i)
                        kw3 = {k: v for k, v in kw.items() if k not in needs + (flag,)}
                        r3 = impl_select(path, reg, kw3, 'q%d' % i)
                        if r2[0] == 'ok' and r3[0] == 'ok':
                            chk.case(dict(op='invert-partition', kwargs=kw, flag=flag), nontrivial=True)
                            if sorted(res[1] + r2[1]) != sorted(r3[1]) or set(res[1]) & set(r2[1]):
                                chk.fail('impl', 'selection %s and its inverse (%s) do not partition the rows selected by the other criteria' % (kw, flag),
                                         dict(oracle='partition', kwargs=kw, flag=flag, a=res[1], b=r2[1], all=r3[1]))
                # chaining equals conjunction: apply a second selection to the output
                if i % 5 == 0 and kept > 5:
                    kwb = {k: v for k, v in gen_cfg(g, rows).items() if k in ('emin', 'emax', 'einvert', 'mc', 'mcsrcid')}
                    if kwb and not (('mc' in kwb) != ('mc' in kw) and ('rad' in kw or 'innerrad' in kw or 'regfile' in kw)):
                        rb = impl_select(res[3], reg, kwb, 'c')
                        both = dict(kw)
                        ra = impl_select(path, reg, kwb, 'b%d' % i)
                        if rb[0] == 'ok' and ra[0] == 'ok':
                            chk.case(dict(op='chain', first=kw, second=kwb), nontrivial=True)
                            if rb[1] != [t for t in res[1] if t in set(ra[1])]:
                                chk.fail('impl', 'chaining %s then %s differs from the conjunction' % (kw, kwb), dict(oracle='chain', first=kw, second=kwb))
        # the boolean array of the direct selections is an input: the file must still hold what was written
        if not numpy.array_equal(numpy.load(rows['maskfile']), rows['inmask']):
            chk.fail('impl', 'the array file of --mask was modified by the selections', dict(oracle='maskfile'))


def main(chk):
    chk.rule = ('real xEventSelect.select() on a synthetic 160-row file with tags, PHASE column, three source ids, a ds9 circle region; configurations '
                'combine time/phase/energy (measured or MC)/cone/annulus/region/source-id criteria and invert flags, bounds are event values and their ±1-ulp '
                'neighbours, 1 in 7 configurations is invalid (validation enum compared); kept tags compared exactly with the Lean model, all columns of kept rows '
                'compared with the input, inverse partitions and chained selections run on the implementation. non-trivial = ≥ 2 criteria, some rows kept and some dropped')
    chk.assumptions = TRUSTED
    chk.lean(['IxpeVerif.Props.C09', 'IxpeVerif.Props.Audit.C09'], ['channel_to_energy', 'time_selection_mask', 'phase_selection_mask', 'select_row'])
    import corr_gen
    corr_gen.run(chk, ['channel_to_energy', 'energy_to_channel'], n=100, tag='C09')
    n = 80 if chk.tier == 'quick' else 1500
    run_cases(chk, n, 'C09-corr')
    return chk.finish(level='proof', trusted=TRUSTED, search=lambda k: run_cases(chk, n, 'C09-search', 3))


def replay(body):
    import sys
    import common
    return common.replay_rerun(sys.modules[__name__], body)
