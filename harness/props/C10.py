"""C10 — xpselect propagates time keywords as documented (DESIGN.md section 7, C10)."""
import os
import math
import numpy

from common import out, rng, Driver, scratch, f2b, b2f

TRUSTED = ['Lean 4.33 kernel + Mathlib', 'axioms: propext, Classical.choice, Quot.sound',
           'hand-written model SelKw.keywords (RealLike) tied by correspondence on Float at 1e-9 relative',
           'the row mask is decided under C09; astropy FITS header I/O; float rounding outside the model']
KEYS = ('TSTART', 'TSTOP', 'ONTIME', 'LIVETIME', 'DEADC')


def build_file(g, d, two_gti=True, long_=False, t0=10000.):
    """Synthetic file through the package writer with real LIVETIME column and keywords, two GTIs with a gap, PHASE column.
    long_: an observation whose summed LIVETIME column exceeds 2^31 microseconds (no single entry does)."""
    import evfile
    from astropy.io import fits
    gtis = [(t0, t0 + 800.), (t0 + 1200., t0 + 2000.)] if two_gti else [(t0, t0 + 2000.)]
    n = int(g.integers(300, 900))
    if long_:
        gtis = [(t0, t0 + 3200.), (t0 + 3700., t0 + 6400.)]
        n = int(g.integers(1500, 2500))
    t = numpy.sort(numpy.concatenate([g.uniform(a, b, n // len(gtis)) for a, b in gtis]))
    path = os.path.join(d, 'kw%d.fits' % int(g.integers(0, 10 ** 9)))
    evfile.write_event_file(path, t, gtis=gtis, tstart=t0, tstop=gtis[-1][1], deadtime=float(g.choice([0.00108, 0.05, 0.3])), tag=numpy.arange(1, len(t) + 1))
    with fits.open(path) as h:
        m = len(h['EVENTS'].data)
        phase = g.uniform(0, 1, m).astype(numpy.float32)
        cols = h['EVENTS'].data.columns + fits.ColDefs([fits.Column(name='PHASE', array=phase, format='E')])
        h['EVENTS'] = fits.BinTableHDU.from_columns(cols, header=h['EVENTS'].header)
        h.writeto(path, overwrite=True)
    return path, gtis


def headers(path):
    from astropy.io import fits
    with fits.open(path) as h:
        hd = {ext: {k: h[ext].header.get(k) for k in KEYS} for ext in ('PRIMARY', 'EVENTS', 'GTI')}
        t = numpy.array(h['EVENTS'].data['TIME'], dtype=float)
        ph = numpy.array(h['EVENTS'].data['PHASE'], dtype=numpy.float32)
        lt = numpy.array(h['EVENTS'].data['LIVETIME'], dtype=float)
    return hd, t, ph, lt


_ENTRY = [0]


def run_select(path, kw, suffix):
    """the selection through the three entry points users have: the class, the pipeline wrapper (bounds as numpy scalars, as the
    package's own examples pass them) and the command line (bounds as text)"""
    from ixpeobssim.bin.xpselect import PARSER, xpselect as app
    from ixpeobssim.evt import subselect
    _ENTRY[0] += 1
    entry = _ENTRY[0] % 3
    if entry == 0:
        kwargs = PARSER.parse_args([path]).__dict__
        kwargs.update(kw)
        kwargs.update(ltimeupdate=True, suffix=suffix)
        return subselect.xEventSelect(path, **kwargs).select()
    if entry == 1:
        from ixpeobssim.core import pipeline
        kws = {k: (numpy.float64(v) if isinstance(v, float) else v) for k, v in kw.items()}
        out_ = pipeline.xpselect(path, ltimeupdate=True, suffix=suffix, overwrite=True, **kws)
        return out_[0] if isinstance(out_, (list, tuple)) else out_
    argv = [path, '--ltimeupdate', 'True', '--suffix', suffix, '--overwrite', 'True']
    for k, v in kw.items():
        argv.append('--%s=%s' % (k, repr(v) if isinstance(v, float) else v))
    out_ = app(**PARSER.parse_args(argv).__dict__)
    return out_[0] if isinstance(out_, (list, tuple)) else out_


def documented(hd0, t, ph, lt, kw):
    """docs/filtering.rst + the property statement, transcribed independently."""
    H = hd0['PRIMARY']
    if kw.get('tmin') is not None or kw.get('tmax') is not None:
        tstart = max(H['TSTART'], kw['tmin']) if kw.get('tmin') is not None else H['TSTART']
        tstop = min(H['TSTOP'], kw['tmax']) if kw.get('tmax') is not None else H['TSTOP']
        ontime = tstop - tstart
        m = numpy.ones(len(t), bool)
        if kw.get('tmin') is not None:
            m &= t >= kw['tmin']
        if kw.get('tmax') is not None:
            m &= t < kw['tmax']
    else:
        tstart, tstop = H['TSTART'], H['TSTOP']
        pmin = kw['phasemin'] if kw.get('phasemin') is not None else 0.
        pmax = kw['phasemax'] if kw.get('phasemax') is not None else 1.
        ontime = H['ONTIME'] * (pmax - pmin)
        m = (ph >= numpy.float32(pmin)) & (ph < numpy.float32(pmax))
    nsel = int(m.sum())
    if kw.get('ltimealg', 'LTSCALE') == 'LTSUM':
        livetime = 1e-6 * lt[m].sum()
    else:
        livetime = ontime - (H['ONTIME'] - H['LIVETIME']) / len(t) * nsel
    return dict(TSTART=tstart, TSTOP=tstop, ONTIME=ontime, LIVETIME=livetime, DEADC=livetime / ontime), m


def gen_kw(g, t, gtis, tstart=None, tstop=None):
    kw = {'ltimealg': str(g.choice(['LTSUM', 'LTSCALE']))}
    mode = g.uniform()
    if mode < 0.6:
        r = g.uniform()
        if r > 0.88 and tstart is not None and t.min() > tstart and t.max() < tstop:
            # a window strictly inside [TSTART, TSTOP] whose edges fall in the event-free margins: every event is kept, the keywords still change
            a, b = float((tstart + t.min()) / 2.), float((t.max() + tstop) / 2.)
            side = g.uniform()
            if side < 0.4:
                kw['tmin'], kw['tmax'] = a, b
            elif side < 0.7:
                kw['tmin'] = a
            else:
                kw['tmax'] = b
            return kw
        gap_ok = len(gtis) > 1 and (tstart is None or (gtis[0][1] + 1. >= tstart and gtis[1][0] - 1. <= tstop))   # the file may have been narrowed by an earlier selection: a window outside [TSTART, TSTOP] is (rightly) refused
        if r < 0.12 and gap_ok:     # a window entirely inside the gap between two GTIs: selects no event
            a, b = sorted(g.uniform(gtis[0][1] + 1., gtis[1][0] - 1., 2))
        else:
            a, b = sorted(g.uniform(t.min(), t.max(), 2))
        if t.min() < 0. < t.max() and g.uniform() < 0.5:
            # an observation that straddles the mission reference time: a bound exactly at MET 0.0 is a bound like any other
            if g.uniform() < 0.5:
                a = 0.0
                b = b if b > 0. else float(g.uniform(0., t.max()))
            else:
                b = 0.0
                a = a if a < 0. else float(g.uniform(t.min(), 0.))
        side = g.uniform()
        if side < 0.4:
            kw['tmin'], kw['tmax'] = float(a), float(b)
        elif side < 0.7:
            kw['tmin'] = float(a)
        else:
            kw['tmax'] = float(b)
    else:
        a, b = sorted(g.integers(0, 1025, 2) / 1024.)
        if a == b:
            b = min(1., a + 1 / 64.)
            a = b - 1 / 64.
        side = g.uniform()
        if side < 0.4:
            kw['phasemin'], kw['phasemax'] = float(a), float(b)
        elif side < 0.7:
            kw['phasemin'] = float(a) if a < 1. else 0.5
        else:
            kw['phasemax'] = float(b) if b > 0. else 0.5
        if g.uniform() < 0.1:
            kw.pop('phasemax', None)
            kw['phasemin'] = 0.9990234375           # narrow one-sided window: few or no events
    return kw


def close(a, b, tol=1e-9):
    if a is None or b is None:
        return a is b
    if isinstance(a, float) and (math.isnan(a) or math.isinf(a)) or isinstance(b, float) and (math.isnan(b) or math.isinf(b)):
        return (math.isnan(a) and math.isnan(b)) or a == b
    return abs(a - b) <= tol * max(1., abs(a), abs(b))


def one_step(chk, g, drv, jobs, path, gtis, step=0):
    hd0, t, ph, lt = headers(path)
    kw = gen_kw(g, t, gtis, hd0['PRIMARY']['TSTART'], hd0['PRIMARY']['TSTOP'])
    desc = dict(op='select --ltimeupdate', kwargs=kw, step=step, n_gti=len(gtis))
    try:
        o = run_select(path, kw, 's%d_%d' % (step, len(jobs)))
    except BaseException as e:
        chk.case(desc, nontrivial=True)
        chk.fail('impl', 'xpselect --ltimeupdate True raised %s: %s for %s' % (type(e).__name__, e, kw), dict(oracle='keywords', kwargs=kw, error=str(e)))
        return None
    hd1, _, _, _ = headers(o)
    exp, m = documented(hd0, t, ph, lt, kw)
    one_sided = sum(1 for k in ('tmin', 'tmax', 'phasemin', 'phasemax') if kw.get(k) is not None) == 1
    chk.case(dict(desc, selected=int(m.sum()), of=len(t)), nontrivial=one_sided or len(gtis) > 1)
    # 1. the documented values, in all three headers
    for ext in ('PRIMARY', 'EVENTS', 'GTI'):
        bad = [k for k in KEYS if not close(hd1[ext][k], exp[k])]
        if bad:
            chk.fail('impl', 'xpselect %s (step %d): %s header has %s, documented values are %s' % (
                kw, step, ext, {k: hd1[ext][k] for k in bad}, {k: exp[k] for k in bad}),
                dict(oracle='keywords', kwargs=kw, step=step, header=ext, observed=hd1[ext], expected=exp))
            break
    # 2. the model
    H = hd0['PRIMARY']
    o_ = lambda k: 'N' if kw.get(k) is None else str(f2b(kw[k]))
    drv.ask('selkw %d %d %d %d %d %d %d %s %s %s %s %s' % (
        f2b(H['TSTART']), f2b(H['TSTOP']), f2b(H['ONTIME']), f2b(H['LIVETIME']), f2b(float(len(t))), f2b(float(m.sum())), f2b(1e-6 * lt[m].sum()),
        o_('tmin'), o_('tmax'), o_('phasemin'), o_('phasemax'), '1' if kw['ltimealg'] == 'LTSCALE' else '0'))
    jobs.append((kw, hd0['PRIMARY'], hd1['PRIMARY'], step))
    return o


def multi_file(chk, g, d, rounds=2):
    """one xpselect call on several files whose observations do not start and end at the same time (the detector units of an observation, or
    several observations), with a one-sided window: every output carries the keywords of *its own* input"""
    from ixpeobssim.bin.xpselect import PARSER, xpselect as app
    for r in range(rounds):
        files = [build_file(g, d, bool(g.integers(0, 2)), t0=10000. + float(off)) for off in (0., -float(g.integers(3, 9)), float(g.integers(2, 7)))]
        order = [int(x) for x in g.permutation(3)]
        side = ['tmax', 'tmin'][r % 2]
        bound = 10000. + float(numpy.round(g.uniform(300., 1700.), 3))
        kw = {side: bound, 'ltimealg': str(g.choice(['LTSUM', 'LTSCALE']))}
        argv = [files[i][0] for i in order] + ['--ltimeupdate', 'True', '--suffix', 'multi%d' % r, '--overwrite', 'True', '--%s=%r' % (side, bound), '--ltimealg', kw['ltimealg']]
        desc = dict(op='select --ltimeupdate, several files in one call', kwargs=kw, order=order)
        chk.case(desc, nontrivial=True)
        try:
            outs = app(**PARSER.parse_args(argv).__dict__)
        except BaseException as e:
            chk.fail('impl', 'xpselect on three files with %s raised %s: %s' % (kw, type(e).__name__, e), dict(oracle='keywords-multi', kwargs=kw, order=order, error=str(e)))
            continue
        for i, o in zip(order, outs):
            hd0, t, ph, lt = headers(files[i][0])
            hd1, _, _, _ = headers(o)
            exp, _m = documented(hd0, t, ph, lt, kw)
            for ext in ('PRIMARY', 'EVENTS', 'GTI'):
                bad = [k for k in KEYS if not close(hd1[ext][k], exp[k])]
                if bad:
                    chk.fail('impl', 'xpselect %s on three files (order %s): file %d (TSTART %.3f, TSTOP %.3f): %s header has %s, documented values are %s' % (
                        kw, order, i, hd0['PRIMARY']['TSTART'], hd0['PRIMARY']['TSTOP'], ext, {k: hd1[ext][k] for k in bad}, {k: exp[k] for k in bad}),
                        dict(oracle='keywords-multi', kwargs=kw, order=order, file=i, header=ext, observed=hd1[ext], expected=exp))
                    break


def run_cases(chk, n, tagname, budget=1):
    g = rng(tagname)
    with scratch() as d:
        drv = Driver()
        jobs = []
        files = [build_file(g, d, True), build_file(g, d, False), build_file(g, d, True, long_=True), build_file(g, d, bool(g.integers(0, 2)), t0=-float(g.choice([700., 1000., 1500.])))]
        for i in range(n * budget):
            path, gtis = files[i % 4]
            o = one_step(chk, g, drv, jobs, path, gtis, 0)
            # a second selection on the output of the first (multi-step history)
            if o is not None and i % 4 == 0:
                hd, t, _, _ = headers(o)
                if len(t) > 20:
                    one_step(chk, g, drv, jobs, o, gtis, 1)
        multi_file(chk, g, d, 2 * budget)
        replies = drv.run()
        for (kw, h0, h1, step), rep in zip(jobs, replies):
            if rep == 'none':
                chk.fail('correspondence', 'model returns no keywords for %s' % kw, dict(op='selkw', kwargs=kw))
                continue
            w = rep.split()
            model = dict(TSTART=None if w[0] == 'N' else b2f(w[0]), TSTOP=None if w[1] == 'N' else b2f(w[1]),
                         ONTIME=b2f(w[2]), LIVETIME=b2f(w[3]), DEADC=b2f(w[4]))
            for k in KEYS:
                mv = model[k] if model[k] is not None else h0[k]       # keyword not written: the original value stays
                if not close(mv, h1[k]):
                    chk.fail('correspondence', 'keywords for %s (step %d): model %s=%r, implementation %r' % (kw, step, k, mv, h1[k]),
                             dict(op='selkw', kwargs=kw, key=k, model=mv, impl=h1[k]))
                    break


def main(chk):
    chk.rule = ('real xEventSelect.select(ltimeupdate=True) on synthetic one- and two-GTI files written by the package (real LIVETIME column, three dead times; one observation long enough for the summed LIVETIME column to exceed 2^31 microseconds): '
                'one- and two-sided time and phase windows, windows inside a GTI gap (no event selected), both livetime algorithms, a second selection applied to the '
                'output of the first; TSTART/TSTOP/ONTIME/LIVETIME/DEADC of PRIMARY, EVENTS and GTI compared with the documented values and with the Lean model '
                'run on Float. non-trivial = one-sided window or two GTIs')
    chk.assumptions = TRUSTED
    chk.lean(['IxpeVerif.Props.C10', 'IxpeVerif.Props.Audit.C10'], ['time_header_keywords', 'time_selected', 'phase_selected', 'average_deadtime_per_event'])
    n = 40 if chk.tier == 'quick' else 800
    run_cases(chk, n, 'C10-corr')
    return chk.finish(level='proof', trusted=TRUSTED, search=lambda k: run_cases(chk, n, 'C10-search', 3))


def replay(body):
    import sys
    import common
    return common.replay_rerun(sys.modules[__name__], body)
