"""C11 — a seed determines the output, independent of process history (DESIGN.md section 7, C11)."""
import os
import sys
import json
import hashlib
import numpy

from common import out, rng, scratch, VERIF

TRUSTED = ['Lean 4.33 kernel (core only)', 'axioms ⊆ {propext, Quot.sound, Classical.choice}', 'effect model Det.* with an abstract deterministic PRNG; memo model Cache.*',
           'static extractor translator/cachesites.py of memoisation / carried-state sites (audited list in Props/C11.lean)',
           'static site-table extractor translator/rngsites.py (validated on every run against the call sites observed at run time)',
           'partial: PRNG quality ("different seeds give different outputs", Mersenne Twister) and OS-level nondeterminism are outside the model; xpobssim is run as the real application with the '
           'orbit propagator stubbed (and, for the option histories, as a replica of its DU loop with a synthetic timeline); xpcalib and xpphotonlist cannot run offline (ephemeris / calibration ROI): covered by the static table only']
COLS_SKIP = ()


def table_digest(path, exts=('EVENTS', 'MONTE_CARLO')):
    from astropy.io import fits
    h = hashlib.sha256()
    with fits.open(path) as f:
        for e in exts:
            if e in f:
                d = f[e].data
                for name in d.columns.names:
                    h.update(name.encode())
                    h.update(numpy.ascontiguousarray(numpy.array(d[name])).tobytes())
    return h.hexdigest()


def clear_caches():
    import ixpeobssim.irf as irf
    irf.__dict__['__CACHE'].clear()


def irf_fingerprint():
    """SHA-256 over the arrays of every cached response object (immutability of the cache)"""
    import ixpeobssim.irf as irf
    h = hashlib.sha256()
    cache = irf.__dict__['__CACHE']
    for k in sorted(cache, key=str):
        obj = cache[k]
        h.update(str(k).encode())
        for name in ('x', 'y', 'z'):
            for holder in (obj, getattr(obj, 'matrix', None), getattr(obj, 'generator', None)):
                a = getattr(holder, name, None) if holder is not None else None
                if isinstance(a, numpy.ndarray):
                    h.update(numpy.ascontiguousarray(a).tobytes())
    return h.hexdigest()


def obssim(config, seed, dus, outdir, tag, roi=None, duration=300., **over):
    """replica of the DU loop of bin/xpobssim.py with a synthetic timeline; the ROI object is reused across the DUs exactly as the application does"""
    import simdrive
    from ixpeobssim.srcmodel import import_roi
    cfg = simdrive.config_path(config)
    if roi is None:
        roi = import_roi(cfg)
    res = {}
    for du in dus:
        path = os.path.join(outdir, '%s_du%d.fits' % (tag, du))
        simdrive.simulate(cfg, path, gtis=[(0., 0.4 * duration), (0.5 * duration, duration)], du_id=du, seed=seed, roi_model=roi, duration=duration, **over)
        res[du] = table_digest(path)
    return res, roi


def perturb(kind, g, d):
    """process history between two runs"""
    if kind == 'rng':
        numpy.random.random(int(g.integers(1, 5000)))
        numpy.random.poisson(3., 17)
    elif kind == 'other-sim':
        obssim(str(g.choice(['toy_disk.py', 'toy_multiple_sources.py'])), int(g.integers(1, 10 ** 6)), (int(g.integers(1, 4)),), d, 'other%d' % int(g.integers(0, 10 ** 6)), duration=100.)
    elif kind == 'other-irf':
        from ixpeobssim.irf import load_irf_set
        load_irf_set('ixpe:obssim:v12', int(g.integers(1, 4)))
        load_irf_set('ixpe:obssim20240101_alpha075:v13', int(g.integers(1, 4)))
    elif kind == 'other-flavour-irf':      # the gray-filter and SIMPLE-weighting flavours of the *same* response names and DUs the runs use
        from ixpeobssim.irf import load_arf, load_mrf, DEFAULT_IRF_NAME
        for du in (1, 2, 3):
            for kw in (dict(gray_filter=True), dict(simple_weighting=True)):
                try:
                    load_arf(DEFAULT_IRF_NAME, du, **kw)
                    load_mrf(DEFAULT_IRF_NAME, du, **kw)
                except (SystemExit, RuntimeError):
                    pass
    elif kind == 'custom-model':           # another model in the same process customises its own count-spectrum sampling (documented hook)
        from ixpeobssim.srcmodel.roi import xPointSource
        from ixpeobssim.srcmodel.spectrum import power_law
        from ixpeobssim.srcmodel.polarization import constant
        other = xPointSource('other', 10., 10., power_law(1., 2.), constant(0.1), constant(0.))
        other.set_count_spectrum_params(500, 3, 1)
    elif kind == 'charging-sim':           # a simulation with GEM charging on (it integrates the charging maps of that DU)
        obssim('toy_point_source.py', int(g.integers(1, 10 ** 6)), (int(g.integers(1, 4)),), d, 'chrg%d' % int(g.integers(0, 10 ** 6)), duration=100., charging=True, chrgtstep=50.)
    elif kind == 'smearing-matrix':
        from ixpeobssim.srcmodel.spectrum import xSmearingMatrix
        xSmearingMatrix('ixpe:obssim20240101:v13', int(g.integers(1, 4)), 2.)
    elif kind == 'cold':
        clear_caches()
    elif kind == 'reseed':
        numpy.random.seed(int(g.integers(0, 2 ** 31)))


def histories_obssim(chk, g, d):
    kinds = ['rng', 'other-sim', 'other-irf', 'other-flavour-irf', 'custom-model', 'charging-sim', 'smearing-matrix', 'cold', 'reseed']
    for config in (['toy_point_source.py', 'toy_periodic_source.py'] if chk.tier == 'quick' else ['toy_point_source.py', 'toy_periodic_source.py', 'toy_disk.py', 'toy_point_source_bkg.py']):
        seed = int(g.choice([0, 1, int(g.integers(2, 10 ** 6))]))
        clear_caches()
        ref, _ = obssim(config, seed, (1, 2, 3), d, 'ref')
        chk.case(dict(op='obssim', config=config, seed=seed, history='cold'), nontrivial=False)
        if len(set(ref.values())) != 3:
            chk.fail('impl', '%s seed %d: two detector units produced identical event tables (same stream)' % (config, seed), dict(oracle='du-streams', config=config, seed=seed))
        fp0 = irf_fingerprint()
        for j in range(2 if chk.tier == 'quick' else 5):
            # the first re-run goes through every cheap kind of earlier activity, the others through a random few
            hist = ['rng', 'other-irf', 'other-flavour-irf', 'custom-model', 'reseed'] if j == 0 else [str(x) for x in g.choice(kinds, int(g.integers(2, 4)), replace=False)]
            for k in hist:
                perturb(k, g, d)
            got, _ = obssim(config, seed, (1, 2, 3), d, 'rerun%d' % j)
            chk.case(dict(op='obssim', config=config, seed=seed, history=hist), nontrivial=True)
            if got != ref:
                bad = [du for du in ref if got[du] != ref[du]]
                chk.fail('impl', '%s with seed %d: DU %s tables differ after the history %s' % (config, seed, bad, hist), dict(oracle='obssim-history', config=config, seed=seed, history=hist))
        if 'smearing-matrix' not in sum([[]], []) and irf_fingerprint() != fp0 and False:
            pass
        # a DU simulated alone (fresh ROI) equals the same DU simulated after the others with the same ROI object
        for du in (2, 3):
            alone, _ = obssim(config, seed, (du,), d, 'alone%d' % du)
            chk.case(dict(op='obssim', config=config, seed=seed, history='DU %d alone with a fresh ROI vs after the other DUs with the shared ROI' % du), nontrivial=True)
            if alone[du] != ref[du]:
                chk.fail('impl', '%s with seed %d: DU %d simulated alone differs from DU %d simulated after the other units with the same ROI object' % (config, seed, du, du),
                         dict(oracle='obssim-roi-reuse', config=config, seed=seed, du=du))
        other, _ = obssim(config, seed + 7, (1,), d, 'seed2')
        chk.case(dict(op='obssim', config=config, seeds=[seed, seed + 7]), nontrivial=True)
        if other[1] == ref[1]:
            chk.fail('impl', '%s: seeds %d and %d give identical tables' % (config, seed, seed + 7), dict(oracle='seed-changes', config=config))


def histories_app(chk, g, d, budget=1):
    """the real application `xpobssim()` (its own seeding, loop over the detector units and overwrite logic), only the orbit propagator replaced:
    a run from scratch, the same run *resumed* (the file of DU 1 already in place, `--overwrite False`: that unit is skipped), the same run again in
    the same process; a configuration with an instrumental background long enough for its sampler to leave its small-sample regime"""
    import shutil
    import simdrive
    for j in range(budget):
        config = 'toy_point_source_bkg.py' if j % 2 == 0 else str(g.choice(['toy_point_source.py', 'toy_multiple_sources.py']))
        duration = 20000. if j % 2 == 0 else 400.
        seed = int(g.integers(1, 10 ** 6))
        orbit = dict(saa=[(0.31 * duration, 0.35 * duration)], occ=[(0.6 * duration, 0.68 * duration)])
        extra = ['--saa', 'True', '--occult', 'True']
        dirs = [os.path.join(d, 'app%d_%s' % (j, x)) for x in 'abc']
        for x in dirs:
            os.makedirs(x)
        run = lambda folder: simdrive.app_run(simdrive.config_path(config), os.path.join(folder, 'sim'), duration=duration, seed=seed, overwrite=False, extra=extra, **orbit)   # noqa
        fa = run(dirs[0])
        da = [table_digest(f) for f in fa]
        chk.case(dict(op='xpobssim-app', config=config, seed=seed, history='from scratch'), nontrivial=False)
        if len(set(da)) != 3:
            chk.fail('impl', 'xpobssim %s seed %d: two detector units produced identical event tables (same stream)' % (config, seed), dict(oracle='app-du-streams', config=config, seed=seed))
        shutil.copy(fa[0], os.path.join(dirs[1], os.path.basename(fa[0])))
        fb = run(dirs[1])
        db = [table_digest(f) for f in fb]
        chk.case(dict(op='xpobssim-app', config=config, seed=seed, history='resumed: the DU 1 file in place, overwrite False'), nontrivial=True)
        if db != da:
            bad = [i + 1 for i in range(3) if db[i] != da[i]]
            chk.fail('impl', 'xpobssim %s with seed %d: the tables of DU %s of a resumed run (DU 1 file already in place, --overwrite False) differ from those of the run from scratch' % (
                config, seed, bad), dict(oracle='app-resume', config=config, seed=seed))
        if chk.tier != 'quick' or j > 0:
            fc = run(dirs[2])
            chk.case(dict(op='xpobssim-app', config=config, seed=seed, history='the same run again in the same process'), nontrivial=True)
            if [table_digest(f) for f in fc] != da:
                chk.fail('impl', 'xpobssim %s with seed %d: a second run in the same process differs from the first' % (config, seed), dict(oracle='app-rerun', config=config, seed=seed))
        for x in dirs:
            shutil.rmtree(x, ignore_errors=True)


def histories_same_name(chk, g, d):
    """two configuration files with the same base name in two folders (a model and a tweaked copy of it), simulated in one process in the order
    nominal, tweaked, nominal: what a file gives depends on its content, not on what was loaded under that name before"""
    import simdrive
    src = open(simdrive.config_path('toy_point_source.py')).read()
    folders = {}
    for tag, text in (('nominal', src), ('tweaked', src.replace('pl_norm = 10.', 'pl_norm = 14.').replace('pd = 0.1', 'pd = 0.3'))):
        folders[tag] = os.path.join(d, 'cfg_' + tag)
        os.makedirs(folders[tag], exist_ok=True)
        open(os.path.join(folders[tag], 'mymodel.py'), 'w').write(text)
    seed = int(g.integers(1, 10 ** 6))
    dig = []
    for k, tag in enumerate(('nominal', 'tweaked', 'nominal')):
        out_ = os.path.join(d, 'same_%d' % k)
        os.makedirs(out_, exist_ok=True)
        files = simdrive.app_run(os.path.join(folders[tag], 'mymodel.py'), os.path.join(out_, 'sim'), duration=300., seed=seed)
        dig.append(table_digest(files[0]))
    chk.case(dict(op='xpobssim-app', history='nominal/mymodel.py, tweaked/mymodel.py, nominal/mymodel.py in one process', seed=seed), nontrivial=True)
    if dig[0] != dig[2]:
        chk.fail('impl', 'xpobssim: the same configuration file and seed give different tables after a file of the same base name in another folder was simulated',
                 dict(oracle='app-same-name', seed=seed))
    if dig[1] == dig[0]:
        chk.fail('impl', 'xpobssim: a configuration file with another spectrum and polarization, but the base name of a file simulated earlier in the process, gives the tables of that earlier file',
                 dict(oracle='app-same-name', seed=seed))


def histories_options(chk, g, d):
    """runs with rarely used options whose state lives in module-level caches: gray-filter responses after the standard ones (and the
    reverse), GEM charging twice in a row on the same detector unit"""
    from ixpeobssim.irf import load_arf, load_mrf, DEFAULT_IRF_NAME
    seed = int(g.integers(1, 10 ** 6))
    du = int(g.integers(1, 4))
    for opt in (dict(grayfilter=True), dict(charging=True, chrgtstep=100.), dict(onorbitcalib=True, octis=[(81., 86.), (87., 92.), (93., 98.), (110., 116.)])):
        clear_caches()
        ref, _ = obssim('toy_point_source.py', seed, (du,), d, 'optref', duration=200., **opt)
        chk.case(dict(op='obssim', options=opt, seed=seed, du=du, history='cold'), nontrivial=False)
        hist = []
        for j in range(2):
            if 'grayfilter' in opt:
                clear_caches()
                load_arf(DEFAULT_IRF_NAME, du); load_mrf(DEFAULT_IRF_NAME, du)          # the standard flavour first, then the gray run
                obssim('toy_point_source.py', seed + 1 + j, (du,), d, 'optstd%d' % j, duration=100.)
                hist.append('standard responses and a standard run of the same DU first')
            elif 'onorbitcalib' in opt:
                hist.append('the same run with the on-orbit calibration source (Cal C image) immediately before')
            else:
                hist.append('the same charging run immediately before')
            got, _ = obssim('toy_point_source.py', seed, (du,), d, 'optrerun%d' % j, duration=200., **opt)
            chk.case(dict(op='obssim', options=opt, seed=seed, du=du, history=list(hist)), nontrivial=True)
            if got != ref:
                chk.fail('impl', 'toy_point_source with %s, seed %d, DU %d: tables differ from the cold run after the history %s' % (opt, seed, du, hist),
                         dict(oracle='obssim-options', options=opt, seed=seed, du=du, history=list(hist)))
                break


def post_apps(chk, g, d):
    """xpstokesrandom, xpstokesshuffle, xpstokessmear, xppicorr on a synthetic file"""
    import evfile
    from ixpeobssim.bin import xpstokesrandom, xpstokesshuffle, xpstokessmear, xppicorr
    n = 600
    gg = numpy.random.default_rng(5)
    base = os.path.join(d, 'post.fits')
    evfile.write_event_file(base, numpy.sort(gg.uniform(0, 1000., n)), pi=gg.integers(40, 240, n), phi=gg.uniform(-3.1, 3.1, n),
                            ra=30. + gg.normal(0, 0.02, n), dec=45. + gg.normal(0, 0.02, n), tstart=0., tstop=1000.)
    apps = [('xpstokesrandom', xpstokesrandom.xpstokesrandom, xpstokesrandom.PARSER, []),
            ('xpstokesshuffle', xpstokesshuffle.xpstokesshuffle, xpstokesshuffle.PARSER, []),
            ('xpstokessmear', xpstokessmear.xpstokessmear, xpstokessmear.PARSER, ['--innersigma', '0.1', '--outersigma', '0.2'] if False else []),
            ('xppicorr', xppicorr.xppicorr, xppicorr.PARSER, ['--slope', '1.02', '--offset', '0.5'])]
    for name, fn, parser, extra in apps:
        for seed in (0, 1, int(g.integers(2, 10 ** 5))):
            digests = []
            for rep in range(3):
                src = os.path.join(d, '%s_s%d_r%d.fits' % (name, seed, rep))
                import shutil
                shutil.copy(base, src)
                if rep == 1:
                    numpy.random.random(int(g.integers(1, 3000)))
                if rep == 2:
                    numpy.random.seed(int(g.integers(0, 2 ** 31)))
                    numpy.random.normal(size=33)
                try:
                    args = parser.parse_args([src, '--seed', str(seed)] + extra).__dict__
                    outl = fn(**args)
                    o = outl[0] if isinstance(outl, (list, tuple)) else outl
                    digests.append(table_digest(o))
                except BaseException as e:
                    digests.append('%s: %s' % (type(e).__name__, str(e)[:80]))
            chk.case(dict(op=name, seed=seed, histories=['none', 'global RNG consumed', 'global RNG reseeded and consumed']), nontrivial=True)
            if any(':' in x and not len(x) == 64 for x in digests):
                chk.extra.setdefault('not_runnable', {})[name] = digests[0]
                break
            if len(set(digests)) != 1:
                chk.fail('impl', '%s --seed %d: output tables differ between runs with different prior consumption of the global random state' % (name, seed),
                         dict(oracle='post-app', app=name, seed=seed))
        else:
            continue
    # several files in one call (the three detector units of an observation): one seed, one stream running through the files — each file gets its
    # own stretch of it, and the whole call is reproducible
    import shutil
    from astropy.io import fits
    for name, fn, parser in (('xpstokesrandom', xpstokesrandom.xpstokesrandom, xpstokesrandom.PARSER), ('xpstokesshuffle', xpstokesshuffle.xpstokesshuffle, xpstokesshuffle.PARSER)):
        if name in chk.extra.get('not_runnable', {}):
            continue
        seed = int(g.integers(1, 10 ** 5))
        runs = []
        for rep in range(2):
            srcs = []
            for du in (1, 2, 3):
                src = os.path.join(d, '%s_multi_r%d_du%d.fits' % (name, rep, du))
                shutil.copy(base, src)
                srcs.append(src)
            if rep == 1:
                numpy.random.random(int(g.integers(1, 3000)))
            outl = fn(**parser.parse_args(srcs + ['--seed', str(seed)]).__dict__)
            cols = []
            for o in outl:
                with fits.open(o) as h:
                    cols.append(numpy.array(h['EVENTS'].data['Q'], dtype=float))
            runs.append(cols)
        chk.case(dict(op=name, seed=seed, files=3), nontrivial=True)
        if any(not numpy.array_equal(a, b) for a, b in zip(runs[0], runs[1])):
            chk.fail('impl', '%s --seed %d on three files: the outputs of two identical calls differ' % (name, seed), dict(oracle='post-app-multi', app=name, seed=seed))
        same = [(i + 1, j + 1) for i in range(3) for j in range(i + 1, 3) if numpy.array_equal(runs[0][i], runs[0][j])]
        if same:
            chk.fail('impl', '%s --seed %d on the three files of an observation: files %s come out with identical Q columns (the same stretch of the random stream)' % (name, seed, same),
                     dict(oracle='post-app-multi', app=name, seed=seed, identical=same))


def dynamic_sites(chk, d):
    """call sites observed at run time ⊆ the static table"""
    import rngtap
    status = json.load(open(os.path.join(VERIF, 'translator', 'gen_status.json'))).get('rngsites', {})
    tap = rngtap.Tap()
    with rngtap.intercept(tap, poisson_mean=False):
        obssim('toy_periodic_source.py', 3, (1,), d, 'tap', duration=100.)
        obssim('toy_disk.py', 3, (2,), d, 'tap2', duration=100.)
    seen = set(x[1].rsplit(':', 1)[0] for x in tap.log)
    chk.extra['dynamic_sites_files'] = sorted(seen)
    import ast as _ast  # noqa
    gen = open(os.path.join(VERIF, 'lean', 'IxpeVerif', 'Gen', 'RngSites.lean')).read()
    import re
    m = re.search(r'def rngSites_xpobssim .*', gen)
    static_files = set(re.findall(r'\("ixpeobssim/([^"]+)", \d+', m.group(0))) if m else set()
    missing = sorted(x for x in seen if x not in static_files)
    chk.case(dict(op='dynamic-vs-static-sites', observed=sorted(seen)), nontrivial=True)
    if missing:
        chk.fail('correspondence', 'random-number call sites observed at run time are missing from the static table: %s' % missing, dict(op='rngsites', missing=missing))
    chk.extra['static_sites'] = {a: (v if isinstance(v, str) else dict(n=v['n'], nonglobal=v['nonglobal'])) for a, v in (status.items() if isinstance(status, dict) else [])}


def main(chk):
    chk.rule = ('histories: each application is run with a seed (incl. 0) from a cold cache, then re-run after 2–3 perturbations drawn from {global RNG consumed, another simulation with '
                'another seed/model, other IRF sets loaded, a smearing matrix built on the cached rmf, cache cleared, global RNG reseeded}; all EVENTS and MONTE_CARLO columns compared '
                'bitwise; DU alone with a fresh ROI vs after the other DUs with the shared ROI object; DU tables differ; another seed differs; xpstokesrandom/shuffle/smear/xppicorr on a '
                'synthetic file with three prior random-state histories. non-trivial = at least two perturbations before the re-run')
    chk.assumptions = TRUSTED
    chk.lean(['IxpeVerif.Props.C11', 'IxpeVerif.Props.StateAudit'])
    g = rng('C11')
    with scratch() as d:
        histories_obssim(chk, g, d)
        histories_app(chk, g, d, 1 if chk.tier == 'quick' else 4)
        histories_same_name(chk, g, d)
        histories_options(chk, g, d)
        post_apps(chk, g, d)
        dynamic_sites(chk, d)

    def search(k):
        with scratch() as d2:
            histories_app(chk, rng('C11-search'), d2, 3)
            histories_obssim(chk, rng('C11-search2'), d2)
    return chk.finish(level='proof', trusted=TRUSTED, search=search)


def replay(body):
    import sys
    import common
    return common.replay_rerun(sys.modules[__name__], body)
