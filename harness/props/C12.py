"""C12 — every shipped response set is internally consistent and loadable (DESIGN.md section 7, C12)."""
import os
import re
import glob
import numpy

from common import scratch, out, rng, Driver, REPO

TRUSTED = ['Lean 4.33 kernel (core only)', 'axioms ⊆ {propext, Quot.sound}', 'kernel evaluation (decide +kernel) of the name-composition model over the generated CALDB listing',
           'hand model IrfName.fileName tied by *exhaustive* comparison with irf_file_name over all IRF names × DU × types × flags',
           'the table generator (directory listing, constants) — witness tables are untrusted and checked by the kernel',
           'numerical relations between response tables are facts about data files: decided by enumeration on the loaded objects (partial); float32 storage (2e-6)',
           'FITPACK splines of the loaders']
TYPES = ['arf', 'mrf', 'modf', 'rmf', 'vign', 'psf']


def caldb_root():
    return os.path.join(REPO, 'ixpeobssim', 'caldb', 'ixpe')


def irf_names():
    """every `base:intent:vN` present, from the plain arf files"""
    from ixpeobssim.irf import caldb
    d = caldb.irf_folder_path('arf')
    names = set()
    for f in os.listdir(d):
        m = re.match(r'^(ixpe)_d1_(.+)_v(\d+)\.arf$', f)
        if m and 'simple' not in m.group(2) and 'gray' not in m.group(2):
            names.add('%s:%s:v%d' % (m.group(1), m.group(2), int(m.group(3))))
    return sorted(names)


def corr_names(chk, g):
    """exhaustive: model vs irf_file_name over the whole configuration space (+ made-up intents and versions)"""
    from ixpeobssim.irf import caldb
    drv = Driver()
    jobs = []
    consts = '%s %s %s' % (','.join(caldb.VALID_WEIGHT_NAMES), ','.join(caldb.SUPPORTED_SIMPLE_IRF_TYPES), ','.join(caldb.SUPPORTED_GRAY_IRF_TYPES))
    space = [caldb.parse_irf_name(n) for n in irf_names()]
    space += [('ixpe', 'obssim_alpha075', v) for v in (12, 13, 14)] + [('ixpe', 'legacy_stdcut', 6), ('ixpe', 'obssim_alpha075_x', 13), ('ixpe', 'obssimsimple_alpha075', 12),
                                                                    ('xx', 'a_b_alpha075', 13), ('ixpe', 'alpha075', 12), ('ixpe', 'obssim__alpha075', 12)]
    for (base, intent, version) in space:
        for du in (1, 2, 3):
            for t in TYPES + ['tow', 'qe']:
                for sflag in (False, True):
                    for gflag in (False, True):
                        try:
                            impl = 'ok ' + caldb.irf_file_name(base, du, t, intent, version, sflag, gflag)
                        except RuntimeError as e:
                            msg = str(e.args[0]) if e.args else ''
                            impl = 'err ' + ('simpleType' if 'simple weighting available for %s files' in msg else 'simpleIntent' if 'simple weighting' in msg else 'grayType')
                        drv.ask('irfname %s %d %s %s %d %d %d %s' % (base, du, t, intent, version, sflag, gflag, consts))
                        jobs.append((dict(base=base, du=du, type=t, intent=intent, version=version, simple=sflag, gray=gflag), impl))
    replies = drv.run()
    nbad = 0
    for (cfg, impl), rep in zip(jobs, replies):
        chk.case(dict(op='irf_file_name', **cfg), nontrivial=cfg['simple'] or cfg['gray'])
        if rep != impl:
            nbad += 1
            if nbad <= 3:
                chk.fail('correspondence', 'irf_file_name%s: model "%s" vs implementation "%s"' % (cfg, rep, impl), dict(op='irfname', cfg=cfg, model=rep, impl=impl))


def o_reach(a):
    """conversely: every file under the six loader folders is what some public loader call returns (and of the flavour asked)"""
    from ixpeobssim import irf
    loaders = dict(arf=irf.load_arf, mrf=irf.load_mrf, modf=irf.load_modf, rmf=irf.load_rmf, vign=irf.load_vign, psf=irf.load_psf)
    want = set()
    for t in TYPES:
        want |= set(os.path.abspath(p) for p in glob.glob(os.path.join(irf.caldb.irf_folder_path(t), '*')))
    got = {}
    bad = []
    for name in a['names']:
        for du in (1, 2, 3):
            for t in TYPES:
                flags = [dict()] if t not in ('arf', 'mrf') else [dict(simple_weighting=s, gray_filter=gf) for s in (False, True) for gf in (False, True)]
                for kw in flags:
                    try:
                        p = irf.caldb.irf_file_path(name, du, t, check_file=False, **kw)
                    except RuntimeError:
                        continue
                    if os.path.exists(p):
                        key = os.path.abspath(p)
                        if key in got:
                            bad.append('%s is composed by two configurations: %s and %s' % (os.path.basename(p), got[key], (name, du, t, kw)))
                        got[key] = (name, du, t, kw)
                        fn = os.path.basename(p)
                        if ('simple' in fn) != bool(kw.get('simple_weighting')) or ('gray' in fn) != bool(kw.get('gray_filter')):
                            bad.append('%s composed for %s' % (fn, kw))
    orphans = sorted(os.path.basename(p) for p in want - set(got))
    if orphans:
        bad.append('%d files are not reachable through the loaders: %s…' % (len(orphans), orphans[:4]))
    return not bad, dict(violated=bad[:6], reachable=len(got), shipped=len(want))


def o_set(a):
    """one configuration: objects returned by the loaders are of the requested flavour and mutually consistent"""
    from ixpeobssim import irf
    from ixpeobssim.irf import ebounds
    name, du, sflag, gflag = a['name'], a['du'], a['simple'], a['gray']
    bad = []
    try:
        aeff = irf.load_arf(name, du, simple_weighting=sflag, gray_filter=gflag)
        mrf = irf.load_mrf(name, du, simple_weighting=sflag, gray_filter=gflag)
    except SystemExit:
        return True, dict(skipped='files of this flavour are not shipped')      # e.g. gray filter for v10/v11: the loader aborts, which is correct
    except RuntimeError:
        return True, dict(skipped='flavour not supported for this name')
    modf = irf.load_modf(name, du)
    # the cache switch is not part of the choice of the file: with cache=False the same files come back (or the same refusal)
    for loader, ref, t in (((irf.load_arf, aeff, 'arf'), (irf.load_mrf, mrf, 'mrf')) if a.get('nocache') else ()):
        try:
            fresh = loader(name, du, cache=False, simple_weighting=sflag, gray_filter=gflag)
            if os.path.abspath(fresh.file_path) != os.path.abspath(ref.file_path):
                bad.append('%s loader with cache=False returned %s, with the cache %s' % (t, os.path.basename(fresh.file_path), os.path.basename(ref.file_path)))
        except (SystemExit, RuntimeError) as e:
            bad.append('%s loader with cache=False refuses (%s) what it serves with the cache' % (t, type(e).__name__))
    for obj, t in ((aeff, 'arf'), (mrf, 'mrf')):
        fn = os.path.basename(obj.file_path)
        exp = irf.caldb.irf_file_path(name, du, t, check_file=False, simple_weighting=sflag, gray_filter=gflag)
        if os.path.abspath(obj.file_path) != os.path.abspath(exp):
            bad.append('%s loader returned %s, requested %s' % (t, fn, os.path.basename(exp)))
        if ('simple' in fn) != sflag or ('gray' in fn) != gflag or not fn.endswith('.' + t) or ('_d%d_' % du) not in fn:
            bad.append('%s loader returned a file of another flavour/DU: %s for simple=%s gray=%s du=%d' % (t, fn, sflag, gflag, du))
    ws = aeff.weighting_scheme()
    if (ws == 'SIMPLE') != sflag:
        bad.append('arf weighting scheme %s for simple_weighting=%s' % (ws, sflag))
    E = numpy.array(aeff.x)
    E = E[(E >= 1.02) & (E <= 11.98)]
    a_, m_, f_ = aeff(E), mrf(E), modf(E)
    rel = float((numpy.abs(m_ - a_ * f_) / numpy.abs(m_)).max())             # pointwise: the gray-filter responses span ten decades
    if rel > 5e-6:
        j = int((numpy.abs(m_ - a_ * f_) / numpy.abs(m_)).argmax())
        bad.append('mrf differs from arf × modf by a factor %.6g at %.2f keV (mrf %.4g, arf × modf %.4g)' % (m_[j] / (a_[j] * f_[j]), E[j], m_[j], a_[j] * f_[j]))
    # the loaded objects are the tables of the files they name
    from astropy.io import fits as _fits
    for obj, t in ((aeff, 'arf'), (mrf, 'mrf')):
        with _fits.open(obj.file_path) as h:
            dd = h['SPECRESP'].data
            Ec, tab = 0.5 * (numpy.array(dd['ENERG_LO'], dtype=float) + numpy.array(dd['ENERG_HI'], dtype=float)), numpy.array(dd['SPECRESP'], dtype=float)
        k = (Ec >= 1.02) & (Ec <= 11.98) & (tab != 0)
        r2 = numpy.abs(obj(Ec[k]) - tab[k]) / numpy.abs(tab[k])
        if r2.max() > 1e-4:            # an interpolating spline through the table (a few 1e-6 where the table has a kink)
            j = int(r2.argmax())
            bad.append('%s evaluated at the tabulated energy %.2f keV gives %.6g, the SPECRESP column of %s has %.6g' % (t, Ec[k][j], obj(Ec[k])[j], os.path.basename(obj.file_path), tab[k][j]))
    if (a_ <= 0).any():
        bad.append('effective area not positive')
    if (f_ < -1e-9).any() or (f_ > 1 + 1e-9).any():
        bad.append('modulation factor outside [0, 1]: [%g, %g]' % (f_.min(), f_.max()))
    if a.get('full'):
        rmf, vign, psf = irf.load_rmf(name, du), irf.load_vign(name, du), irf.load_psf(name, du)
        for obj, t in ((modf, 'mfact'), (rmf, 'rmf'), (vign, 'vign'), (psf, 'psf')):
            fn = os.path.basename(obj.file_path)
            if ('_d%d_' % du) not in fn or t not in fn or 'gray' in fn or 'simple' in fn:
                bad.append('%s loader returned %s' % (t, fn))
        z = numpy.array(rmf.hdu_list['MATRIX'].data['MATRIX'], dtype=float)
        rs = z.sum(axis=1)
        if numpy.abs(rs - 1.).max() > 2e-5:
            bad.append('energy-dispersion rows sum to [%g, %g]' % (rs.min(), rs.max()))
        eb = rmf.hdu_list['EBOUNDS'].data
        ch = numpy.arange(ebounds.NUM_CHANNELS)
        if len(eb) != ebounds.NUM_CHANNELS or numpy.abs(eb['E_MIN'] - ch * ebounds.ENERGY_STEP).max() > 2e-6 or numpy.abs(eb['E_MAX'] - (ch + 1) * ebounds.ENERGY_STEP).max() > 2e-6:
            bad.append('channel bounds differ from the 375-channel definition')
        v0 = vign(numpy.linspace(1.5, 11., 30), numpy.zeros(30))
        if numpy.abs(v0 - 1.).max() > 1e-6:
            bad.append('on-axis vignetting is not 1: [%g, %g]' % (v0.min(), v0.max()))
        r = numpy.linspace(0., float(psf.eef.xmax()) if hasattr(psf, 'eef') else 100., 400)
        if hasattr(psf, 'eef'):
            e = psf.eef(r)
            if e[0] > 1e-6 or (numpy.diff(e) < -1e-9).any() or e.min() < -1e-9 or e.max() > 1 + 1e-6:
                bad.append('PSF encircled-energy fraction not monotone from 0 within [0, 1]')
    return not bad, dict(violated=bad)


def o_irfset(a):
    """load_irf_set: every member is of the requested flavour and the set is self-consistent"""
    from ixpeobssim import irf
    try:
        s = irf.load_irf_set(a['name'], a['du'], gray_filter=a['gray'])
    except SystemExit:
        return True, dict(skipped='not shipped')
    bad = []
    for attr, t in (('aeff', 'arf'), ('mrf', 'mrf')):
        fn = os.path.basename(getattr(s, attr).file_path)
        if ('gray' in fn) != a['gray'] or ('_d%d_' % a['du']) not in fn:
            bad.append('irf_set.%s is %s for gray_filter=%s' % (attr, fn, a['gray']))
    for attr in ('modf', 'edisp', 'psf', 'vign'):
        fn = os.path.basename(getattr(s, attr).file_path)
        if ('_d%d_' % a['du']) not in fn:
            bad.append('irf_set.%s is %s for DU %d' % (attr, fn, a['du']))
    # every member comes from the file of the requested name: same intent (weighting flavour included), same version
    intent, version = a['name'].split(':')[1], int(a['name'].split(':')[2].lstrip('v'))
    for attr in ('aeff', 'mrf', 'modf', 'edisp', 'psf', 'vign'):
        fn = os.path.basename(getattr(s, attr).file_path)
        if ('alpha075' in fn) != ('alpha075' in intent) or ('_%s_' % intent.split('_')[0]) not in fn or ('_v%03d.' % version) not in fn:
            bad.append('irf_set.%s is %s for the name %s' % (attr, fn, a['name']))
    E = numpy.array(s.aeff.x)                       # the relation holds at the tabulated energies (between them three different splines interpolate)
    E = E[(E >= 1.02) & (E <= 11.98)]
    rel = float((numpy.abs(s.mrf(E) - s.aeff(E) * s.modf(E)) / numpy.abs(s.mrf(E))).max())
    if rel > 5e-6:
        bad.append('within the set mrf differs from aeff × modf by a relative %.3g at some tabulated energy' % rel)
    return not bad, dict(violated=bad)


def o_used(a):
    """a response set after it has been *used*: the loaders hand out shared objects, so what a simulation or a conversion did with them must not
    show in what the next caller gets. Uses: energy → channel conversions with energies inside and beyond the last channel; a photon list and an
    event list drawn with the set. Then the set (loaded again, and the instance that was used) is compared with the files."""
    import simdrive
    from astropy.io import fits
    from ixpeobssim import irf
    from ixpeobssim.irf.caldb import irf_file_path
    from ixpeobssim.irf.arf import xEffectiveArea
    from ixpeobssim.srcmodel import import_roi
    name, du = a['name'], a['du']
    s0 = irf.load_irf_set(name, du)
    energies = numpy.array([0.3, 2.001, 7.5, 14.99, 15.0, 17.3])
    for fn in ('energy_to_channel',):
        try:
            getattr(s0.edisp.ebounds, fn)(energies.copy())
        except BaseException:
            pass
    try:
        s0.edisp.pha_analysis(energies.copy())
    except BaseException:
        pass
    with scratch() as d:
        roi = import_roi(simdrive.config_path('toy_point_source.py'))
        simdrive.photon_list(roi, os.path.join(d, 'pl.fits'), du_id=du, seed=a['seed'], duration=20., argv=['--irfname', name], irf_set=s0)
        simdrive.simulate(simdrive.config_path('toy_point_source.py'), os.path.join(d, 'ev.fits'), du_id=du, seed=a['seed'], duration=20., irfname=name)
    bad = []
    for label, s in (('the set that was used', s0), ('the set loaded afterwards', irf.load_irf_set(name, du))):
        with fits.open(irf_file_path(name, du, 'rmf')) as h:
            eb = h['EBOUNDS'].data
            emin, emax = numpy.array(eb['E_MIN'], dtype=float), numpy.array(eb['E_MAX'], dtype=float)
        if not (numpy.array_equal(numpy.array(s.edisp.ebounds.emin, dtype=float), emin) and numpy.array_equal(numpy.array(s.edisp.ebounds.emax, dtype=float), emax)):
            k = int(numpy.argmax(numpy.abs(numpy.array(s.edisp.ebounds.emax, dtype=float) - emax)))
            bad.append('%s: channel bounds differ from the EBOUNDS of the file (channel %d: E_MAX %r, file %r)' % (label, k, float(s.edisp.ebounds.emax[k]), float(emax[k])))
        ref = xEffectiveArea(irf_file_path(name, du, 'arf'))
        E = numpy.array(ref.x)
        E = E[(E >= 1.02) & (E <= 11.98)]
        if not hasattr(s.aeff, 'file_path') or type(s.aeff) is not type(ref):
            bad.append('%s: aeff is a %s%s' % (label, type(s.aeff).__name__, '' if hasattr(s.aeff, 'file_path') else ' without a file'))
        rel = float((numpy.abs(s.aeff(E) - ref(E)) / ref(E)).max())
        if rel > 1e-9:
            bad.append('%s: aeff differs from the arf file by a relative %.3g' % (label, rel))
        rel = float((numpy.abs(s.mrf(E) - s.aeff(E) * s.modf(E)) / numpy.abs(s.mrf(E))).max())
        if rel > 5e-6:
            bad.append('%s: mrf differs from aeff × modf by a relative %.3g' % (label, rel))
    return not bad, dict(violated=bad)


ORACLES = dict(reach=o_reach, set=o_set, irfset=o_irfset, used=o_used)


def run_oracle(chk, name, a, nontrivial=True):
    short = {k: (v if not isinstance(v, list) or len(v) <= 6 else v[:6] + ['…']) for k, v in a.items()}
    chk.case(dict(oracle=name, args=short), nontrivial=nontrivial)
    try:
        ok, obs = ORACLES[name](a)
    except BaseException as e:
        ok, obs = False, dict(exception='%s: %s' % (type(e).__name__, e))
    if not ok:
        chk.fail('impl', 'C12 %s: %s (args %s)' % (name, obs, short), dict(oracle=name, args=a, observed=obs))


def explore(chk, budget=1):
    from ixpeobssim.irf.legacy import _LEGACY_IRF_NAME_DICT
    g = rng('C12-%d' % budget)
    quick = chk.tier == 'quick' and budget == 1
    names = irf_names()
    corr_names(chk, g)
    run_oracle(chk, 'reach', dict(names=names))
    for name in names:
        for du in (1, 2, 3):
            for sflag in (False, True):
                for gflag in (False, True):
                    if quick and not (du == 1 or g.uniform() < 0.34):
                        continue
                    # the uncached path re-reads the files: in the quick tier for the flagged configurations of one detector unit per name
                    nocache = (not quick) or ((sflag or gflag) and du == 1 + names.index(name) % 3)
                    run_oracle(chk, 'set', dict(name=name, du=du, simple=sflag, gray=gflag, full=not (sflag or gflag), nocache=nocache), nontrivial=sflag or gflag)
            for gflag in (False, True):
                if quick and du != int(g.integers(1, 4)):
                    continue
                run_oracle(chk, 'irfset', dict(name=name, du=du, gray=gflag), nontrivial=gflag)
    for name in (names[:1] if quick else names[:3]):
        run_oracle(chk, 'used', dict(name=name, du=int(g.integers(1, 4)), seed=int(g.integers(1, 10 ** 6))))
    chk.extra['irf_names'] = names
    chk.extra['exhaustive'] = not quick


def main(chk):
    chk.rule = ('exhaustive comparison of the Lean name-composition model with irf_file_name over every IRF name in the CALDB (+ made-up intents/versions) × DU × 8 types × simple × gray; '
                'on the implementation: every file under the six loader folders is composed by exactly one configuration of the right flavour; every name × DU × flags loaded through the '
                'public loaders (quick: DU 1 and a seeded third of the rest; thorough: all): returned file = requested flavour, weighting scheme, mrf = arf × modf, aeff > 0, 0 ≤ modf ≤ 1, '
                'rmf rows sum to 1, 375-channel bounds, on-axis vignetting 1, PSF EEF monotone in [0, 1]; load_irf_set members and self-consistency with and without gray filter. '
                'non-trivial = a flag set')
    chk.assumptions = TRUSTED
    chk.lean(['IxpeVerif.Props.C12', 'IxpeVerif.Props.Audit.C12'], ['irf_file_name', 'supports_simple_weighting', 'fwd_irf_file_path', 'fwd_load_irf_base', 'fwd_load_arf', 'fwd_load_vign', 'fwd_load_psf', 'fwd_load_modf', 'fwd_load_mrf', 'fwd_load_rmf', 'fwd_irf_set', 'fwd_load_irf_set'])
    explore(chk)
    return chk.finish(level='proof', trusted=TRUSTED, search=lambda k: explore(chk, 2))


def replay(body):
    r = body['replay']
    if r.get('oracle') in ORACLES:
        ok, obs = ORACLES[r['oracle']](r['args'])
        out('oracle %s on the recorded input: %s %s' % (r['oracle'], 'holds' if ok else 'FAILS', obs))
        return 0 if ok else 1
    import sys
    import common
    return common.replay_rerun(sys.modules[__name__], body)
