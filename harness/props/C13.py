"""C13 — energy, pulse height and channel columns form one consistent chain (DESIGN.md section 7, C13)."""
import os
import glob
import hashlib
import numpy

import corr_gen
from common import out, rng, Driver, scratch, f2b, REPO

TRUSTED = ['Lean 4.33 kernel + Mathlib (real part), core only (discrete part)', 'axioms: propext, Classical.choice, Quot.sound',
           'generated ebounds constants/formulas (translator, validated every run)', 'searchsorted model on integer keys tied by exact correspondence',
           'the EBOUNDS tables of the CALDB are data: compared exhaustively with the generated grid', 'FITPACK linear spline of the channel centres', 'astropy I/O']


def rmf_files():
    return sorted(glob.glob(os.path.join(REPO, 'ixpeobssim', 'caldb', '**', '*.rmf'), recursive=True))


def o_rmf(a):
    """All 375 channels of one response matrix: inverses, bounds = package grid, package and rmf centre agree."""
    from ixpeobssim.irf.rmf import xEnergyDispersion
    from ixpeobssim.irf import ebounds
    ed = xEnergyDispersion(a['path'])
    n = ebounds.NUM_CHANNELS
    ch = numpy.arange(n)
    bad = []
    if ed.ebounds.num_channels() != n or not numpy.array_equal(ed.ebounds.chans, ch):
        bad.append('channel column is not 0..%d' % (n - 1))
        return False, dict(violated=bad)
    if numpy.abs(ed.ebounds.emin - ch * ebounds.ENERGY_STEP).max() > 2e-6 or numpy.abs(ed.ebounds.emax - (ch + 1) * ebounds.ENERGY_STEP).max() > 2e-6:
        bad.append('EBOUNDS differ from the package-wide %d-channel grid' % n)
    e_rmf = ed.channel_to_energy(ch)
    e_pkg = ebounds.channel_to_energy(ch)
    if numpy.abs(e_rmf - e_pkg).max() > 2e-6:
        bad.append('rmf and package channel_to_energy differ by %g' % numpy.abs(e_rmf - e_pkg).max())
    if not numpy.array_equal(ed.energy_to_channel(e_rmf), ch):
        bad.append('rmf energy_to_channel(channel_to_energy(c)) != c')
    if not numpy.array_equal(numpy.floor(ebounds.energy_to_channel(e_pkg)).astype(int), ch):
        bad.append('package floor(energy_to_channel(channel_to_energy(c))) != c')
    if not numpy.array_equal(ebounds.digitize_channel(ebounds.energy_to_channel(e_pkg) - 0.5), ch):
        bad.append('package digitize(energy_to_channel(centre) - 1/2) != c')
    pha, pi = ed.pha_analysis(e_pkg)
    if not (numpy.array_equal(pha, ch) and numpy.array_equal(pi, ch.astype(float))):
        bad.append('pha_analysis(channel centre) != (c, c)')
    return not bad, dict(violated=bad)


def corr_search(chk, g, paths):
    """searchsorted model vs the real energy_to_channel at and next to every bound."""
    from ixpeobssim.irf.rmf import xEnergyDispersion
    drv = Driver()
    jobs = []
    for p in paths:
        ed = xEnergyDispersion(p)
        emax = numpy.array(ed.ebounds.emax, dtype=float)       # float32 bounds as doubles
        es = numpy.concatenate([emax, numpy.nextafter(emax, 100.), numpy.nextafter(emax, -100.), g.uniform(0., 15.2, 400), [0., 15.0, 15.00001, 16.]])
        impl = [int(x) for x in ed.energy_to_channel(es)]
        drv.ask('e2c %d %s %d %s' % (len(emax), ' '.join(str(f2b(x)) for x in emax), len(es), ' '.join(str(f2b(x)) for x in es)))
        jobs.append((p, es, impl))
    # the ideal grid on integer eV vs the real search (energies away from the float32 rounding of a bound)
    ev = numpy.concatenate([g.integers(1, 15000, 600), numpy.arange(40, 15001, 40) - 1, numpy.arange(40, 15001, 40) + 1])
    ev = ev[(ev % 40 != 0) & (ev < 15000)]       # exactly on a bound the float32 rounding of the stored bound decides: covered by the key-exact comparison above
    drv.ask('e2cgrid %d %s' % (len(ev), ' '.join(str(int(x)) for x in ev)))
    ed0 = xEnergyDispersion(paths[0])
    jobs.append(('grid', ev, [int(x) for x in ed0.energy_to_channel(ev / 1000.)]))
    # rint
    halves = list(range(-6, 760)) + [int(x) for x in g.integers(0, 760, 50)]
    for t in halves:
        drv.ask('rint %d' % t)
        jobs.append(('rint', t, [int(numpy.rint(t / 2.))]))
    replies = drv.run()
    for (p, es, impl), rep in zip(jobs, replies):
        model = [int(x) for x in rep.split()]
        chk.case(dict(op='energy_to_channel' if p not in ('grid', 'rint') else p, rmf=os.path.basename(str(p)), n=len(impl)), nontrivial=True)
        if model != impl:
            j = next(i for i, (a, b) in enumerate(zip(model, impl)) if a != b)
            chk.fail('correspondence', 'channel search (%s): model %s vs implementation %s at input %r' % (os.path.basename(str(p)), model[j], impl[j],
                     es[j] if p != 'rint' else es), dict(op='e2c', rmf=str(p), index=j))


def o_file(a):
    """The chain on a simulated file."""
    import simdrive
    from astropy.io import fits
    from ixpeobssim.irf import load_rmf, ebounds
    from ixpeobssim.evt.event import xEventFile
    with scratch() as d:
        path = os.path.join(d, 'sim.fits')
        over = dict(duration=a['duration'])
        if a.get('charging'):
            over.update(charging=True, chrgtstep=500.)
        if a.get('lv1a'):          # pseudo level-1 columns next to the level-2 ones: the level-2 chain is what it is without them
            over.update(lv1a=True)
        if a.get('band'):          # the energy window of the simulation may be wider than the band the response matrix tabulates
            over.update(emin=a['band'][0], emax=a['band'][1])
        if a.get('bkg_convolve'):
            # the instrumental background with its (optional) energy smearing switched on: the Monte Carlo leg of the chain holds for those rows too
            from ixpeobssim.srcmodel import import_roi
            from ixpeobssim.srcmodel.bkg import xInstrumentalBkg
            roi = import_roi(simdrive.config_path(a['config']))
            for s_ in roi.values():
                if isinstance(s_, xInstrumentalBkg):
                    s_._convolve_energy = True
            over.update(roi_model=roi)
        simdrive.simulate(simdrive.config_path(a['config']), path, du_id=a['du'], seed=a['seed'], **over)
        with fits.open(path) as h:
            ev, mc = h['EVENTS'].data, h['MONTE_CARLO'].data
            pha, pi, en = numpy.array(ev['PHA']).astype(int), numpy.array(ev['PI'], dtype=float), numpy.array(ev['ENERGY'], dtype=float)
            mpha, mpi, men = numpy.array(mc['MC_PHA']).astype(int), numpy.array(mc['MC_PI'], dtype=float), numpy.array(mc['MC_ENERGY'], dtype=float)
            irfname = h['MONTE_CARLO'].header['IRFNAME']
        f = xEventFile(path)
        e_used = numpy.array(f.energy_data(), dtype=float)
        f.close()
    ed = load_rmf(irfname, a['du'])
    lo, hi = numpy.array(ed.ebounds.emin, dtype=float), numpy.array(ed.ebounds.emax, dtype=float)
    bad = []
    n = len(pha)
    if n == 0:
        return False, dict(violated=['no events'])
    tol = 3e-6      # float32 storage of ENERGY / bounds
    if not numpy.array_equal(pi, pha.astype(float)):
        bad.append('PI != PHA')
    if not numpy.array_equal(mpi, mpha.astype(float)):
        bad.append('MC_PI != MC_PHA')
    for name, c in (('PHA', pha), ('MC_PHA', mpha)):
        if c.min() < 0 or c.max() > ebounds.TLMAX:
            bad.append('%s outside 0..%d: [%d, %d]' % (name, ebounds.TLMAX, c.min(), c.max()))
    ok = (pha >= 0) & (pha <= ebounds.TLMAX)
    w = ~((en[ok] >= lo[pha[ok]] - tol) & (en[ok] <= hi[pha[ok]] + tol))
    if w.any():
        j = int(numpy.where(ok)[0][numpy.where(w)[0][0]])
        bad.append('%d events: PI channel does not contain ENERGY (e.g. ENERGY=%.6f PI=%d bounds [%.2f, %.2f])' % (w.sum(), en[j], pha[j], lo[pha[j]], hi[pha[j]]))
    okm = (mpha >= 0) & (mpha <= ebounds.TLMAX)
    w = ~((men[okm] > lo[mpha[okm]] - tol) & (men[okm] <= hi[mpha[okm]] + tol))
    if w.any():
        j = int(numpy.where(okm)[0][numpy.where(w)[0][0]])
        bad.append('%d events: MC_PI channel does not contain MC_ENERGY (e.g. %.6f in channel %d)' % (w.sum(), men[j], mpha[j]))
    if numpy.abs(e_used - (0.04 * pi + 0.02)).max() > 1e-5:
        bad.append('xEventFile.energy_data() is not the centre of the PI channel')
    return not bad, dict(violated=bad, n_events=n)


def o_tools(a):
    """xpselect, xpbin (PCUBE) and the polarization analysis attribute the same energy (the PI-channel centre) to an event."""
    import evfile
    from astropy.io import fits
    from ixpeobssim.bin.xpbin import xpbin, PARSER as BP
    from ixpeobssim.bin.xpselect import xpselect, PARSER as SP
    g = numpy.random.default_rng(a['seed'])
    n = 3000
    pi = g.integers(5, 372, n)            # measured energies over the whole channel range (0.2–14.9 keV), as with an unconvolved background
    t = numpy.sort(g.uniform(0., 1000., n))
    bad = []
    with scratch() as d:
        path = os.path.join(d, 'ev.fits')
        evfile.write_event_file(path, t, pi=pi, phi=g.uniform(-3.1, 3.1, n), tstart=0., tstop=1000., tag=numpy.arange(1, n + 1))
        for emin, emax in a['windows']:
            ref = int(((0.04 * pi + 0.02 >= emin) & (0.04 * pi + 0.02 < emax)).sum())
            o = xpselect(**SP.parse_args([path, '--overwrite', 'True', '--emin', repr(emin), '--emax', repr(emax)]).__dict__)[0]
            with fits.open(o) as h:
                nsel = len(h['EVENTS'].data)
            o = xpbin(**BP.parse_args([path, '--overwrite', 'True', '--algorithm', 'PCUBE', '--ebinalg', 'LIST', '--ebinning', '[%r, %r]' % (emin, emax),
                                       '--irfname', 'ixpe:obssim20240101:v13']).__dict__)[0]
            with fits.open(o) as h:
                ncube = int(h[1].data['COUNTS'][0])
            # PCUBE masks (emin, emax]; windows are chosen off the channel centres so that both conventions agree
            if not (nsel == ref == ncube):
                bad.append('window [%.3f, %.3f): xpselect %d, PCUBE %d, channel-centre reference %d' % (emin, emax, nsel, ncube, ref))
    return not bad, dict(violated=bad)


ORACLES = dict(rmf=o_rmf, file=o_file, tools=o_tools)


def run_oracle(chk, name, a, nontrivial=True):
    chk.case(dict(oracle=name, args=a), nontrivial=nontrivial)
    try:
        ok, obs = ORACLES[name](a)
    except BaseException as e:
        ok, obs = False, dict(exception='%s: %s' % (type(e).__name__, e))
    if not ok:
        chk.fail('impl', 'C13 %s: %s (args %s)' % (name, obs, a), dict(oracle=name, args=a, observed=obs))


def unique_rmfs():
    seen, outl = set(), []
    for p in rmf_files():
        h = hashlib.sha1(open(p, 'rb').read()).hexdigest()
        if h not in seen:
            seen.add(h)
            outl.append(p)
    return outl


def explore(chk, budget=1):
    g = rng('C13-%d' % budget)
    paths = unique_rmfs()
    sel = paths if chk.tier != 'quick' else [paths[0]] + [paths[int(i)] for i in g.choice(len(paths), min(5, len(paths)), replace=False)]
    for p in sel:
        run_oracle(chk, 'rmf', dict(path=p))
    corr_search(chk, g, sel[:3] if chk.tier == 'quick' else sel)
    run_oracle(chk, 'file', dict(config='toy_point_source.py', charging=False, du=int(g.integers(1, 4)), seed=int(g.integers(1, 10 ** 6)), duration=300.,
                                 band=(float(g.choice([0.5, 0.7])), float(g.choice([13., 14.5]))))) 
    run_oracle(chk, 'file', dict(config='toy_point_source_bkg.py', charging=False, du=int(g.integers(1, 4)), seed=int(g.integers(1, 10 ** 6)), duration=300., lv1a=True))
    run_oracle(chk, 'file', dict(config='toy_point_source_bkg.py', charging=False, du=int(g.integers(1, 4)), seed=int(g.integers(1, 10 ** 6)), duration=3000., bkg_convolve=True))
    cfgs = [('toy_point_source.py', False), ('toy_point_source_bkg.py', False), ('toy_point_source.py', True)]
    if chk.tier != 'quick':
        cfgs += [('toy_multiple_sources.py', False), ('toy_disk.py', True)]
    for cfg, chrg in cfgs:
        for du in ((int(g.integers(1, 4)),) if chk.tier == 'quick' else (1, 2, 3)):
            run_oracle(chk, 'file', dict(config=cfg, charging=chrg, du=du, seed=int(g.integers(1, 10 ** 6)), duration=300.))
    wins = [(2.0, 8.0), (2.01, 7.99), (3.01, 5.05), (2.49, 6.03), (4.0, 6.0), (0.51, 2.0), (8.0, 12.0), (8.0, 13.6), (0.4, 1.0)] + [tuple(sorted(numpy.round(g.uniform(1.5, 9., 2), 3))) for _ in range(3 * budget)]
    wins = [(float(a), float(b)) for a, b in wins if b - a > 0.1]
    run_oracle(chk, 'tools', dict(seed=int(g.integers(1, 10 ** 6)), windows=wins))


def main(chk):
    chk.rule = ('all 375 channels of every distinct response matrix in the CALDB (quick: 6 of them) for the inverse pairs and the grid; the channel search at, just below '
                'and just above every bound and on random energies, compared exactly with the Lean searchsorted model; numpy.rint vs the half-to-even model on all half-integers; '
                'the PHA/PI/ENERGY/MC_* chain on simulated files with and without energy convolution (background component) and with GEM charging; the energy used by '
                'xpselect / xpbin PCUBE on windows with bounds inside channels. non-trivial = all')
    chk.assumptions = TRUSTED
    gen = ['energy_to_channel', 'channel_to_energy']
    chk.lean(['IxpeVerif.Props.C13', 'IxpeVerif.Props.Audit.C13'], gen)
    corr_gen.run(chk, gen, n=375 if chk.tier == 'quick' else 3000, tag='C13')
    explore(chk)
    return chk.finish(level='proof', trusted=TRUSTED, search=lambda k: explore(chk, 3))


def replay(body):
    r = body['replay']
    if r.get('oracle') in ORACLES:
        ok, obs = ORACLES[r['oracle']](r['args'])
        out('oracle %s on the recorded input: %s %s' % (r['oracle'], 'holds' if ok else 'FAILS', obs))
        return 0 if ok else 1
    import sys
    import common
    return common.replay_rerun(sys.modules[__name__], body)
