"""C14 — sky, detector and pixel coordinates of an event agree in every frame (DESIGN.md section 7, C14)."""
import os
import math
import numpy

import corr_gen
from common import out, rng, scratch

GEN = ['sky_to_gpd_naive', 'gpd_to_sky_naive', 'rotate_detxy', 'sky_to_gpd_dither', 'gpd_to_sky_dither', 'apply_dithering', 'psf_smear', 'du_rotation_angle']
TRUSTED = ['Lean 4.33 kernel + Mathlib', 'axioms: propext, Classical.choice, Quot.sound', 'translator (validated every run)',
           'astropy.wcs / wcslib projection is a library: its round trip is measured (partial)', 'float32 storage of the coordinate columns',
           'independent reference in the harness: IXPE DU clocking 109°/229°/349°, focal length 3997 mm, dithering pattern formula']
DU_ANGLE = {1: 109., 2: 229., 3: 349.}
FOCAL = 3997.


def dither_delta(t, ampl, pa, px, py):
    """independent transcription of the dithering pattern (arcmin -> degrees)"""
    wa, wx, wy = (2 * math.pi / p for p in (pa, px, py))
    return ampl * numpy.cos(wa * t) * numpy.cos(wx * t) / 60., ampl * numpy.sin(wa * t) * numpy.sin(wy * t) / 60.


def ref_gpd_to_sky(detx, dety, t, ra0, dec0, du, roll, dither):
    """independent: undo the DU rotation, invert the tangent plane about the (dithered) pointing"""
    rho = math.radians(DU_ANGLE[du] + roll)
    c, s = math.cos(rho), math.sin(rho)
    x = c * detx + s * dety
    y = -s * detx + c * dety
    if dither is not None:
        dra, ddec = dither_delta(t, *dither)
        rap, decp = ra0 + dra / math.cos(math.radians(dec0)), dec0 + ddec
    else:
        rap, decp = ra0, dec0
    return rap - numpy.degrees(x / FOCAL / numpy.cos(numpy.radians(decp))), decp + numpy.degrees(y / FOCAL)


def sep_arcsec(ra1, dec1, ra2, dec2):
    d = ((ra1 - ra2 + 180.) % 360. - 180.) * numpy.cos(numpy.radians(0.5 * (dec1 + dec2)))
    return numpy.hypot(d, dec1 - dec2) * 3600.


def o_roundtrip(a):
    """mma.sky_to_gpd / gpd_to_sky are mutual inverses (dithering as a parameter of both)"""
    from ixpeobssim.instrument.mma import sky_to_gpd, gpd_to_sky
    g = numpy.random.default_rng(a['seed'])
    n = 200
    ra0, dec0 = a['ra0'], a['dec0']
    off = a['fov_deg']
    ra = ra0 + g.uniform(-off, off, n) / math.cos(math.radians(dec0))
    dec = dec0 + g.uniform(-off, off, n)
    t = g.uniform(0., 1e5, n)
    detx, dety = sky_to_gpd(ra.copy(), dec.copy(), t, ra0, dec0, a['du'], a['roll'], a['dither'])
    ra2, dec2 = gpd_to_sky(detx.copy(), dety.copy(), t, ra0, dec0, a['du'], a['roll'], a['dither'])
    e1 = float(sep_arcsec(ra, dec, ra2, dec2).max())
    x2, y2 = sky_to_gpd(ra2.copy(), dec2.copy(), t, ra0, dec0, a['du'], a['roll'], a['dither'])
    e2 = float(numpy.hypot(x2 - detx, y2 - dety).max())
    # independent inverse
    ra3, dec3 = ref_gpd_to_sky(detx, dety, t, ra0, dec0, a['du'], a['roll'], None)
    if a['dither'] is not None:
        dra, ddec = dither_delta(t, *a['dither'])
        ra3, dec3 = ra3 + dra / math.cos(math.radians(dec0)), dec3 + ddec
    e3 = float(sep_arcsec(ra, dec, ra3, dec3).max())
    return e1 < 1e-5 and e2 < 1e-8 and e3 < 1e-5, dict(sky_roundtrip_arcsec=e1, det_roundtrip_mm=e2, independent_inverse_arcsec=e3)


def o_pixels(a):
    from ixpeobssim.evt.fmt import standard_radec_to_xy, standard_xy_to_radec, build_standard_wcs
    g = numpy.random.default_rng(a['seed'])
    ra0, dec0 = a['ra0'], a['dec0']
    ra = ra0 + g.uniform(-0.1, 0.1, 300) / math.cos(math.radians(dec0))
    dec = dec0 + g.uniform(-0.1, 0.1, 300)
    x, y = standard_radec_to_xy(ra, dec, ra0, dec0)
    ra2, dec2 = standard_xy_to_radec(x, y, ra0, dec0)
    e = float(sep_arcsec(ra % 360., dec, numpy.asarray(ra2) % 360., numpy.asarray(dec2)).max())
    xc, yc = standard_radec_to_xy(numpy.array([ra0]), numpy.array([dec0]), ra0, dec0)
    # the reference (ROI centre) is the centre of the 600 × 600 grid in FITS convention: pixel 300.5; 2.6 arcsec pixels; RA grows to the left
    x1, y1 = standard_radec_to_xy(numpy.array([ra0 + 2.6 / 3600. / math.cos(math.radians(dec0))]), numpy.array([dec0 + 2.6 / 3600.]), ra0, dec0)
    ok = e < 1e-6 and abs(xc[0] - 300.5) < 1e-9 and abs(yc[0] - 300.5) < 1e-9 and abs((xc[0] - x1[0]) - 1.) < 2e-3 and abs((y1[0] - yc[0]) - 1.) < 2e-3
    return ok, dict(roundtrip_arcsec=e, centre=[float(xc[0]), float(yc[0])], step=[float(xc[0] - x1[0]), float(y1[0] - yc[0])])


def o_file(a):
    """every frame of a simulated file"""
    import simdrive
    from astropy.io import fits
    from astropy import wcs as awcs
    from ixpeobssim.srcmodel import import_roi
    with scratch() as d:
        path = os.path.join(d, 'sim.fits')
        roi = import_roi(simdrive.config_path(a['config']))
        roi.ra, roi.dec = a['ra0'], a['dec0']
        for src in roi.values():
            if hasattr(src, 'ra') and src.ra is not None:
                src.ra, src.dec = a['ra0'] + a['src_off'][0] / math.cos(math.radians(a['dec0'])), a['dec0'] + a['src_off'][1]
        dith = a['dither']
        over = dict(duration=a['duration'], roll=a['roll'], dithering=dith is not None)
        if a.get('vignetting') is False:
            over.update(vignetting=False)
        if dith is not None:
            over.update(ditherampl=dith[0], ditherpa=dith[1], ditherpx=dith[2], ditherpy=dith[3])
        simdrive.simulate(simdrive.config_path(a['config']), path, du_id=a['du'], seed=a['seed'], roi_model=roi, **over)
        with fits.open(path) as h:
            ev, mc = h['EVENTS'].data, h['MONTE_CARLO'].data
            hdr = h['EVENTS'].header
            c = {k: numpy.array(ev[k], dtype=float) for k in ('TIME', 'RA', 'DEC', 'X', 'Y', 'DETX', 'DETY')}
            c.update({k: numpy.array(mc[k], dtype=float) for k in ('MC_RA', 'MC_DEC')})
            src = numpy.array(mc['SRC_ID']).astype(int)
            w = awcs.WCS(hdr, keysel=['pixel'])
            roira, roidec = h['ROITABLE'].header.get('ROIRA'), h['ROITABLE'].header.get('ROIDEC')
    bad = []
    n = len(c['TIME'])
    if n < 10:
        return False, dict(violated=['only %d events' % n])
    # X, Y -> header WCS -> RA, DEC
    ra_w, dec_w = w.wcs_pix2world(c['X'], c['Y'], 1)
    e = sep_arcsec(ra_w % 360., dec_w, c['RA'] % 360., c['DEC'])
    if e.max() > 0.6:     # float32 X, Y (0.002 pixel) and float32 RA near 360 (1e-5 deg)
        bad.append('X,Y through the header WCS miss RA,DEC by up to %.3f arcsec' % e.max())
    cr = [w.wcs.crval[0], w.wcs.crval[1]]
    if sep_arcsec(cr[0], cr[1], a['ra0'] % 360., a['dec0']) > 1e-6:
        bad.append('WCS reference %s is not the ROI centre (%r, %r)' % (cr, a['ra0'], a['dec0']))
    # DETX, DETY -> dithered pointing + DU rotation -> RA, DEC
    ra_d, dec_d = ref_gpd_to_sky(c['DETX'], c['DETY'], c['TIME'], a['ra0'], a['dec0'], a['du'], a['roll'], dith)
    e = sep_arcsec(ra_d % 360., dec_d, c['RA'] % 360., c['DEC'])
    if e.max() > 0.6:
        j = int(numpy.argmax(e))
        bad.append('DETX,DETY through the dithered pointing miss RA,DEC by up to %.3f arcsec (row %d, SRC_ID %d)' % (e.max(), j, src[j]))
    # measured vs true positions: PSF-scale displacement only, no systematic 1/cos(dec) error
    cel = src < 100
    if cel.any():
        dra = ((c['RA'] - c['MC_RA'] + 180.) % 360. - 180.)[cel] * math.cos(math.radians(a['dec0']))
        ddec = (c['DEC'] - c['MC_DEC'])[cel]
        r = numpy.hypot(dra, ddec) * 3600.
        if numpy.median(r) > 30. or r.max() > 600.:
            bad.append('measured minus true positions are not PSF-like: median %.1f arcsec, max %.1f' % (numpy.median(r), r.max()))
        ratio = numpy.std(dra) / max(numpy.std(ddec), 1e-12)
        if cel.sum() > 2000 and not (0.85 < ratio < 1.18):
            bad.append('PSF displacement is not isotropic in the tangent plane: σ(ΔRA·cos dec)/σ(ΔDEC) = %.3f' % ratio)
    return not bad, dict(violated=bad, n_events=n)


def o_photons(a):
    """photon lists (the xpphotonlist flavour) of a field with a steady and a pulsating point source: DETX, DETY map back to RA, DEC through the
    dithered pointing at the photon's TIME and the DU rotation, source by source"""
    import simdrive
    from astropy.io import fits
    from ixpeobssim.srcmodel.roi import xROIModel, xPointSource, xPeriodicPointSource
    from ixpeobssim.srcmodel.ephemeris import xEphemeris
    from ixpeobssim.srcmodel.spectrum import power_law
    from ixpeobssim.srcmodel.polarization import constant
    ra0, dec0 = a['ra0'], a['dec0']
    steady = xPointSource('steady', ra0 - 0.03 / math.cos(math.radians(dec0)), dec0 + 0.02, power_law(0.4, 2.), constant(0.1), constant(0.3))
    pulsar = xPeriodicPointSource('pulsar', ra0 + 0.04 / math.cos(math.radians(dec0)), dec0 - 0.015,
                                  lambda E, phase: 0.4 * (1. + 0.5 * numpy.cos(2. * numpy.pi * phase)) * E ** -2., constant(0.2), constant(1.), xEphemeris(0., 0.7, -1.e-12))
    roi = xROIModel(ra0, dec0, steady, pulsar)
    dith = (1.6, 907., 101., 449.)
    with scratch() as d:
        f, kw = simdrive.photon_list(roi, os.path.join(d, 'pl.fits'), du_id=a['du'], seed=a['seed'], duration=1500., argv=['--roll', repr(a['roll'])])
        with fits.open(f) as h:
            p = h['PHOTONS'].data
            t, detx, dety, ra, dec, sid = (numpy.array(p[k], dtype=float) for k in ('TIME', 'DETX', 'DETY', 'RA', 'DEC', 'SRC_ID'))
    rb, db = ref_gpd_to_sky(detx, dety, t, ra0, dec0, a['du'], a['roll'], tuple(kw[k] for k in ('ditherampl', 'ditherpa', 'ditherpx', 'ditherpy')))
    e = numpy.hypot((rb - ra) * math.cos(math.radians(dec0)), db - dec) * 3600.
    bad = []
    for src in roi.values():
        m = sid == src.identifier
        if m.sum() < 100:
            bad.append('%s: only %d photons' % (src.name, int(m.sum())))
        elif e[m].max() > 0.5:
            bad.append('%s: DETX, DETY through the dithered pointing at the photon time miss RA, DEC by up to %.1f arcsec' % (src.name, e[m].max()))
    return not bad, dict(violated=bad, photons=len(t))


ORACLES = dict(roundtrip=o_roundtrip, pixels=o_pixels, file=o_file, photons=o_photons)


def run_oracle(chk, name, a, nontrivial=True):
    chk.case(dict(oracle=name, args=a), nontrivial=nontrivial)
    try:
        ok, obs = ORACLES[name](a)
    except BaseException as e:
        ok, obs = False, dict(exception='%s: %s' % (type(e).__name__, e))
    if not ok:
        chk.fail('impl', 'C14 %s: %s (args %s)' % (name, obs, a), dict(oracle=name, args=a, observed=obs))


def pointings(g, k):
    pts = [(30., 45.), (359.99, -75.), (0.004, 80.), (250., -85.), (10., 0.)]
    pts += [(float(g.uniform(0, 360)), float(g.uniform(-88, 88))) for _ in range(k)]
    return pts


def explore(chk, budget=1):
    g = rng('C14-%d' % budget)
    quick = chk.tier == 'quick'
    for (ra0, dec0) in pointings(g, (3 if quick else 40) * budget):
        for du in (1, 2, 3):
            roll = float(g.choice([0., g.uniform(0, 360)]))
            dith = None if g.uniform() < 0.3 else (float(g.uniform(0.5, 3.)), float(g.uniform(300, 1200)), float(g.uniform(50, 200)), float(g.uniform(200, 600)))
            run_oracle(chk, 'roundtrip', dict(ra0=ra0, dec0=dec0, du=du, roll=roll, dither=dith, fov_deg=0.12, seed=int(g.integers(1, 10 ** 6))),
                       nontrivial=abs(dec0) > 60 or dith is not None or roll != 0.)
        run_oracle(chk, 'pixels', dict(ra0=ra0, dec0=dec0, seed=int(g.integers(1, 10 ** 6))), nontrivial=abs(dec0) > 60 or ra0 < 1 or ra0 > 359)
    files = [dict(config='toy_point_source.py', ra0=10., dec0=75., src_off=(0.03, -0.02), du=2, roll=25., dither=(1.6, 907., 101., 449.)),
             dict(config='toy_point_source_bkg.py', ra0=359.995, dec0=-40., src_off=(0., 0.), du=int(g.integers(1, 4)), roll=0., dither=(1.6, 907., 101., 449.)),
             dict(config='toy_disk.py', ra0=45., dec0=45., src_off=(0., 0.), du=int(g.integers(1, 4)), roll=float(g.uniform(0, 360)), dither=None),
             # degenerate settings: dithering switched on with zero amplitude (the pointing stays put), or with an infinitely slow pattern
             dict(config='toy_point_source.py', ra0=120., dec0=-30., src_off=(0.01, 0.02), du=int(g.integers(1, 4)), roll=200., dither=(0., 907., 101., 449.)),
             # the switches that are rarely moved: the vignetting off with the dithering on; an instrumental background under a rolled, dithered pointing
             dict(config='toy_point_source.py', ra0=200., dec0=20., src_off=(-0.02, 0.01), du=int(g.integers(1, 4)), roll=float(g.uniform(0, 360)), dither=(1.6, 907., 101., 449.), vignetting=False),
             dict(config='toy_point_source_bkg.py', ra0=80., dec0=-55., src_off=(0.01, 0.), du=int(g.integers(1, 4)), roll=float(g.uniform(20., 340.)), dither=(1.6, 907., 101., 449.))]
    if not quick:
        files += [dict(config='toy_point_source_bkg.py', ra0=float(g.uniform(0, 360)), dec0=float(g.uniform(-80, 80)), src_off=(0.02, 0.02), du=du, roll=float(g.uniform(0, 360)),
                       dither=(float(g.uniform(0.5, 3.)), 907., 101., 449.)) for du in (1, 2, 3)]
    for f in files:
        run_oracle(chk, 'file', dict(f, duration=400., seed=int(g.integers(1, 10 ** 6))))
    run_oracle(chk, 'photons', dict(ra0=float(g.uniform(5, 355)), dec0=float(g.uniform(-60, 60)), du=int(g.integers(1, 4)), roll=float(g.uniform(0, 360)), seed=int(g.integers(1, 10 ** 6))))


def main(chk):
    chk.rule = ('generated projections/rotations vs Python; sky↔detector round trips through the real mma functions for DU 1–3, random rolls, dithering on/off with random parameters and '
                'times, pointings at high declination and next to RA 0/360, checked also against an independent inverse; sky↔pixel round trip, grid centre and orientation; '
                'simulated files (point source at high declination with roll and dithering, point source + instrumental background with dithering across RA = 0, extended source): '
                'X,Y → header WCS → RA,DEC, DETX,DETY → dithered pointing and DU rotation → RA,DEC, WCS reference = ROI centre, PSF-like isotropic displacement. '
                'non-trivial = |dec| > 60° or dithering or roll ≠ 0')
    chk.assumptions = TRUSTED
    chk.lean(['IxpeVerif.Props.C14', 'IxpeVerif.Props.Audit.C14'], GEN)
    corr_gen.run(chk, GEN, n=100 if chk.tier == 'quick' else 2000, tag='C14', rtol=1e-10, atol=1e-10)
    explore(chk)
    return chk.finish(level='proof', trusted=TRUSTED, search=lambda k: explore(chk, 4))


def replay(body):
    r = body['replay']
    if r.get('oracle') in ORACLES:
        ok, obs = ORACLES[r['oracle']](r['args'])
        out('oracle %s on the recorded input: %s %s' % (r['oracle'], 'holds' if ok else 'FAILS', obs))
        return 0 if ok else 1
    import sys
    import common
    return common.replay_rerun(sys.modules[__name__], body)
