"""C15 — tabulated-pdf samplers invert their own cumulative distribution (DESIGN.md section 7, C15)."""
import math
import numpy

import rngtap
from common import out, rng, Driver, f2b, b2f

TRUSTED = ['Lean 4.33 kernel + Mathlib', 'axioms: propext, Classical.choice, Quot.sound',
           'hand model Sampler.* of the linear-spline generator tied by correspondence on Float (1e-11)',
           'FITPACK: evaluation and integration of the k = 1 spline are reproduced by the model; k = 2, 3 are not modelled (oracle only: partial)',
           'numpy.unique semantics (first index of each run of equal values)', 'numpy.random uniformity']


def gen_pdf(g, positive=True, allow_known=False):
    n = int(g.integers(3, 40))
    if g.uniform() < 0.5:
        x = numpy.cumsum(g.integers(1, 9, n)) / 8.          # non-uniform dyadic grid
    else:
        x = numpy.arange(n) * float(g.choice([0.25, 0.5, 1., 2.]))
    x = x + float(g.choice([0., -x[-1] / 2.]))                  # supports spanning zero occur
    kind = g.choice(['smooth', 'random', 'edge', 'trailing0', 'leading0'])
    if kind == 'smooth':
        y = 1. + 0.8 * numpy.sin(numpy.linspace(0, 3., n))
    elif kind == 'random':
        y = g.integers(1, 17, n) / 16.
    elif kind == 'edge':
        y = numpy.where(numpy.arange(n) < n // 2, 1., 1. / 64.)
    elif kind == 'trailing0':
        y = g.integers(1, 17, n) / 16.
        k = int(g.integers(2, max(3, n // 2)))
        y[n - k:] = 0.
        y[max(0, n - k - 1)] = max(y[max(0, n - k - 1)], 0.5)
        if n - k < 2:
            y[:2] = 1.
    else:
        y = g.integers(1, 17, n) / 16.
        y[0] = 0.                                                # a single leading zero node: the first trapezoid is still positive
    return x.astype(float), numpy.asarray(y, dtype=float), kind


def make(x, y, k=1, ext=None):
    from ixpeobssim.core.rand import xUnivariateGenerator, xUnivariateGeneratorLinear
    if ext is not None:      # the extrapolation mode of the *density* outside the grid (0 extrapolate, 1 zeros, 3 constant): the quantile machinery must not depend on it
        return xUnivariateGeneratorLinear(x, y, ext=ext) if k == 1 else xUnivariateGenerator(x, y, k=k, ext=ext)
    return xUnivariateGeneratorLinear(x, y) if k == 1 else xUnivariateGenerator(x, y, k=k)


def support(x, y):
    """[first, last] abscissa where the density is not identically zero around"""
    nz = numpy.where(y > 0)[0]
    lo = x[max(nz[0] - 1, 0)] if y[0] == 0 else x[0]
    hi = x[min(nz[-1] + 1, len(x) - 1)] if y[-1] == 0 else x[-1]
    return lo, hi


def o_generator(a):
    """the statement on a k = 1 generator: monotone ppf, end points, cdf∘ppf = id, node masses, bounded sampling"""
    x, y = numpy.array(a['x']), numpy.array(a['y'])
    if a.get('dtype'):                   # grids of channel numbers, pixel indices, single-precision columns: the same values in another type
        x = x.astype(a['dtype'])
    gen = make(x, y, 1, a.get('ext'))
    x = x.astype(float)
    u = numpy.linspace(0., 1., 1001)
    p = gen.ppf(u)
    bad = []
    if (numpy.diff(p) < -1e-12).any():
        bad.append('ppf not monotone')
    lo, hi = support(x, y)
    if abs(p[0] - x[0]) > 1e-9 * max(1., abs(x[0])) and abs(p[0] - lo) > 1e-9:
        bad.append('ppf(0) = %r is not the start of the support %r' % (float(p[0]), float(lo)))
    if abs(p[-1] - hi) > 1e-9 * max(1., abs(hi)):
        bad.append('ppf(1) = %r is not the end of the support %r' % (float(p[-1]), float(hi)))
    e = float(numpy.abs(gen.cdf(p) - u).max())
    if e > 1e-9:
        bad.append('|cdf(ppf(u)) − u| up to %.3g' % e)
    # node masses: cdf(x_i) = normalised trapezoid integral up to x_i
    c = numpy.concatenate([[0.], numpy.cumsum(0.5 * (y[1:] + y[:-1]) * numpy.diff(x))])
    e2 = float(numpy.abs(gen.cdf(x) - c / c[-1]).max())
    if e2 > 1e-10:
        bad.append('cdf at the nodes differs from the trapezoid integral by %.3g' % e2)
    # bounded sampling
    for (rvmin, rvmax) in a['bounds']:
        n = 4000
        tap = rngtap.Tap(); tap.feed((numpy.arange(n) + 0.5) / n)
        with rngtap.intercept(tap):
            s = gen.rvs_bounded(n, rvmin=rvmin, rvmax=rvmax)
        lo_b = x[0] if rvmin is None else rvmin
        hi_b = x[-1] if rvmax is None else rvmax
        tol = 1e-9 * max(1., abs(lo_b), abs(hi_b))
        nout = int(((s < lo_b - tol) | (s > hi_b + tol)).sum())
        if nout:
            bad.append('rvs_bounded(rvmin=%r, rvmax=%r): %d of %d samples outside the bounds' % (rvmin, rvmax, nout, n))
    return not bad, dict(violated=bad)


def o_smooth(a):
    """k = 1, 2, 3 on smooth strictly positive densities: cdf∘ppf = id, monotone, end points"""
    x = numpy.array(a['x'])
    y = numpy.array(a['y'])
    bad = []
    for k in (1, 2, 3):
        if len(x) <= k:
            continue
        gen = make(x, y, k)
        u = numpy.linspace(0., 1., 501)
        p = gen.ppf(u)
        if (numpy.diff(p) < -1e-12).any():
            bad.append('k=%d: ppf not monotone' % k)
        if abs(p[0] - x[0]) > 1e-9 or abs(p[-1] - x[-1]) > 1e-9:
            bad.append('k=%d: end points %r, %r' % (k, float(p[0]), float(p[-1])))
        e = float(numpy.abs(gen.cdf(p) - u).max())
        if e > 1e-9:
            bad.append('k=%d: |cdf(ppf(u)) − u| up to %.3g' % (k, e))
    return not bad, dict(violated=bad)


def o_aux(a):
    """generators with an auxiliary variable: slice by slice. The auxiliary grid may be a phase (0–1), or mission times (1.5e8 + …, spacing
    far below 1e-5 of the values); the density may be given as a callable or as a table of shape (len(rv), len(aux)), square or not"""
    from ixpeobssim.core.rand import xUnivariateAuxGenerator
    nx, na = a.get('nx', 41), a.get('na', 6)
    x = numpy.linspace(0., 10., nx)
    off, span = a.get('offset', 0.), a.get('span', 1.)
    aux = off + numpy.linspace(0., span, na)
    rel = lambda aa: (numpy.asarray(aa, dtype=float) - off) / span
    scale = a.get('scale', 1.)       # a density need not be normalised: fluxes in physical units are 1e-9, 1e-12 …
    pdf = lambda xx, aa: scale * ((1. + rel(aa)) * numpy.exp(-0.5 * ((xx - 3. - 4. * rel(aa)) / (1. + rel(aa))) ** 2) + 0.05)
    if a.get('counts'):
        # a table of counts (a two-dimensional histogram used as the density): integer values, handed over in an integer type
        pdf0 = pdf
        pdf = lambda xx, aa: numpy.round(2000. * pdf0(xx, aa) / scale)
    kx, ky = a.get('kx', 1), a.get('ky', 1)
    if a.get('coarse'):
        x = numpy.array([0., 0.5, 1., 2., 3., 4., 5., 6., 7., 8.5, 10.])
        nx = len(x)
    if a.get('table'):
        table = numpy.array([[float(pdf(xi, ai)) for ai in aux] for xi in x])          # documented layout: (len(rv), len(aux))
        if a.get('counts'):
            table = table.astype(a['counts'])
        gen = xUnivariateAuxGenerator(x, aux, table, kx=kx, ky=ky)
    else:
        gen = xUnivariateAuxGenerator(x, aux, pdf, kx=kx, ky=ky)
    bad = []
    # the quantile function is the inverse of the cumulative of the slice the generator itself hands out, whatever the spline orders
    q = numpy.array(gen.ppf.x)
    for av in aux:
        sl_ = gen.slice(av)
        xq = gen.ppf(q, numpy.full(q.shape, av))
        e1 = float(numpy.abs(sl_.build_cdf()(xq) - q).max())
        e2 = float(numpy.abs(sl_.build_ppf()(q) - xq).max())
        if e1 > 1e-9 or e2 > 1e-9 * max(1., float(numpy.abs(x).max())):
            bad.append('aux=%r (kx=%d, ky=%d): the cumulative of slice(aux) composed with ppf(., aux) misses q by %.3g on the quantile grid; slice ppf differs by %.3g' % (av, kx, ky, e1, e2))
    for av in list(aux) + [off + 0.37 * span]:
        u = numpy.linspace(0., 1., 201)
        p = gen.ppf(u, numpy.full(u.shape, av))
        if (numpy.diff(p) < -1e-9).any():
            bad.append('aux=%r: ppf not monotone in q' % av)
        if abs(p[0] - x[0]) > 1e-6 or abs(p[-1] - x[-1]) > 1e-6:
            bad.append('aux=%r: end points %r %r' % (av, float(p[0]), float(p[-1])))
        # against the slice cdf computed independently
        sl = pdf(x, av)
        c = numpy.concatenate([[0.], numpy.cumsum(0.5 * (sl[1:] + sl[:-1]) * numpy.diff(x))]); c /= c[-1]
        e = float(numpy.abs(numpy.interp(p, x, c) - u).max())
        if e > (2e-2 if av not in aux else 5e-3) * max(1., (41. / nx) ** 2) and not a.get('coarse'):       # the common quantile grid is that of the middle slice: tabulation accuracy, second order in the grid step
            bad.append('aux=%r: |cdf(ppf(u)) − u| up to %.3g' % (av, e))
        # the slice the generator hands out is the density at that value of the auxiliary variable
        s1 = gen.slice(av)(x)
        if numpy.abs(s1 - sl).max() > (0.05 if av not in aux else 1e-9) * sl.max():
            bad.append('aux=%r: slice() differs from the density at that auxiliary value by %.3g' % (av, float(numpy.abs(s1 - sl).max())))
    try:
        xUnivariateAuxGenerator(x, aux, lambda xx, aa: pdf(xx, aa) - 0.5 * (scale if not a.get('counts') else 2000.), kx=kx, ky=ky)
        bad.append('a bivariate density that is negative somewhere was accepted')
    except SystemExit:
        pass
    return not bad, dict(violated=bad)


def o_negative(a):
    x, y = numpy.array(a['x']), numpy.array(a['y'])
    try:
        make(x, y, a['k'])
        return False, dict(accepted=True)
    except SystemExit:
        return True, dict()


ORACLES = dict(generator=o_generator, smooth=o_smooth, aux=o_aux, negative=o_negative)


def run_oracle(chk, name, a, nontrivial=True):
    short = {k: (v if not isinstance(v, list) or len(v) <= 12 else v[:12] + ['…']) for k, v in a.items()}
    chk.case(dict(oracle=name, args=short), nontrivial=nontrivial)
    try:
        ok, obs = ORACLES[name](a)
    except BaseException as e:
        ok, obs = False, dict(exception='%s: %s' % (type(e).__name__, e))
    if not ok:
        chk.fail('impl', 'C15 %s: %s (args %s)' % (name, obs, short), dict(oracle=name, args=a, observed=obs))


def explore(chk, budget=1):
    g = rng('C15-%d' % budget)
    n = (60 if chk.tier == 'quick' else 1500) * budget
    drv = Driver()
    jobs = []
    for i in range(n):
        x, y, kind = gen_pdf(g)
        lo, hi = support(x, y)
        inner = sorted(float(v) for v in g.choice(x[(x >= lo) & (x <= hi)], 2, replace=False)) if ((x >= lo) & (x <= hi)).sum() >= 2 else [float(lo), float(hi)]
        bounds = [(inner[0], inner[1]), (None, inner[1]), (inner[0], None)]
        if x[0] < 0. < x[-1] and lo < 0. < hi:
            bounds += [(0.0, None), (None, 0.0)]             # a bound exactly equal to 0.0
        run_oracle(chk, 'generator', dict(x=x.tolist(), y=y.tolist(), kind=kind, bounds=bounds), nontrivial=kind != 'smooth' or len(set(numpy.diff(x))) > 1)
        if (x == numpy.round(x)).all():
            run_oracle(chk, 'generator', dict(x=x.tolist(), y=y.tolist(), kind=kind, bounds=bounds[:1], dtype=str(g.choice(['int64', 'int32', 'float32']))))
        elif i % 5 == 0:
            run_oracle(chk, 'generator', dict(x=x.tolist(), y=y.tolist(), kind=kind, bounds=bounds[:1], dtype='float32'))
        if (y > 0).all() and i % 2 == 0:
            # the extrapolation option of the density, and bounds up to a fraction of a grid step beyond the grid (a phase grid without its end point
            # sampled up to 1.0): the samples stay inside the requested bounds
            fa, fb = float(g.uniform(0.05, 0.9)), float(g.uniform(0.05, 0.9))
            beyond = [(None, float(x[-1] + fb * (x[-1] - x[-2]))), (float(x[0] - fa * (x[1] - x[0])), None), (inner[0], float(x[-1] + fb * (x[-1] - x[-2])))]
            run_oracle(chk, 'generator', dict(x=x.tolist(), y=y.tolist(), kind=kind, bounds=bounds[:2] + beyond, ext=int(g.choice([0, 1, 3]))))
        # model correspondence
        us = numpy.concatenate([[0., 1.], g.uniform(0, 1, 12)])
        xs = numpy.concatenate([[x[0], x[-1]], g.uniform(x[0], x[-1], 8)])
        gen = make(x, y, 1)
        drv.ask('sampler %d %s %d %s %d %s' % (2 * len(x), ' '.join('%d %d' % (f2b(a), f2b(b)) for a, b in zip(x, y)), len(us), ' '.join(str(f2b(v)) for v in us),
                                               len(xs), ' '.join(str(f2b(v)) for v in xs)))
        jobs.append((x, y, us, xs, gen.ppf(us), gen.cdf(xs), numpy.array(gen.ppf.x), numpy.array(gen.ppf.y)))
        if i % 4 == 0:
            xx = numpy.linspace(0., 5., int(g.integers(8, 60))) if g.uniform() < 0.5 else numpy.sort(numpy.concatenate([[0., 5.], g.uniform(0, 5, int(g.integers(8, 40)))]))
            yy = 1. + 0.7 * numpy.sin(xx * float(g.uniform(0.5, 2.))) + 0.2 * xx
            run_oracle(chk, 'smooth', dict(x=xx.tolist(), y=yy.tolist()))
        if i % 10 == 0:
            yn = y.copy()
            yn[int(g.integers(0, len(y)))] = -float(g.choice([1e-9, 0.5]))
            run_oracle(chk, 'negative', dict(x=x.tolist(), y=yn.tolist(), k=int(g.choice([1, 3])) if len(x) > 3 else 1))
    for extra in (dict(), dict(scale=1e-9), dict(scale=1e-12, table=True, nx=41, na=6), dict(offset=1.5e8, span=5000., na=11), dict(table=True, nx=41, na=6), dict(table=True, nx=41, na=41), dict(table=True, nx=24, na=24), dict(table=True, nx=16, na=16, offset=1.5e8, span=5000.), dict(table=True, nx=41, na=6, counts='int64'), dict(table=True, nx=24, na=9, counts='uint16'), dict(table=True, nx=41, na=6, counts='float32'),
                  dict(kx=1, ky=3, coarse=True), dict(kx=2, ky=2, coarse=True), dict(kx=3, ky=3), dict(kx=3, ky=1, coarse=True), dict(kx=1, ky=1, coarse=True), dict(kx=2, ky=1),
                  dict(nx=1500, na=6), dict(nx=2046, na=6, table=True)):       # random-variable grids beyond a thousand nodes
        run_oracle(chk, 'aux', dict(seed=int(g.integers(1, 10 ** 6)), **extra))
    replies = drv.run()
    for (x, y, us, xs, ip, ic, nx, ny), rep in zip(jobs, replies):
        parts = rep.split(' | ')
        mp = numpy.array([b2f(v) for v in parts[0].split()])
        mc = numpy.array([b2f(v) for v in parts[1].split()])
        nodes = numpy.array([b2f(v) for v in parts[3].split()])
        scale = max(1., float(numpy.abs(x).max()))
        if numpy.abs(mp - ip).max() > 1e-10 * scale or numpy.abs(mc - ic).max() > 1e-11 or len(nodes) != 2 * len(nx) or \
                numpy.abs(nodes[0::2] - nx).max() > 1e-11 or numpy.abs(nodes[1::2] - ny).max() > 1e-10 * scale or parts[2] != '0':
            chk.fail('correspondence', 'k = 1 sampler on x=%s pdf=%s: model ppf %s vs %s, cdf %s vs %s, %d vs %d ppf nodes' % (
                x.tolist(), y.tolist(), mp[:4], ip[:4], mc[:4], ic[:4], len(nodes) // 2, len(nx)), dict(op='sampler', x=x.tolist(), y=y.tolist()))


def known_findings(chk):
    ents = {e['id']: e for e in chk.findings if e.get('status') == 'known'}
    if 'C15-k1-zero-stretch' in ents:
        w = ents['C15-k1-zero-stretch']['witness']
        gen = make(numpy.array(w['x'], dtype=float), numpy.array(w['pdf'], dtype=float), 1)
        v = float(gen.ppf(w['u']))
        chk.known_finding(ents['C15-k1-zero-stretch'], 3. < v < 7., observed='ppf(%r) = %r' % (w['u'], v))
    if 'C15-k3-nonmonotone' in ents:
        w = ents['C15-k3-nonmonotone']['witness']
        gen = make(numpy.array(w['x'], dtype=float), numpy.array(w['pdf'], dtype=float), 3)
        p = gen.ppf(numpy.linspace(0, 1, 2001))
        chk.known_finding(ents['C15-k3-nonmonotone'], bool((numpy.diff(p) < -1e-9).any()), observed='min step %.3g' % float(numpy.diff(p).min()))


def main(chk):
    chk.rule = ('k = 1 generators on uniform and non-uniform dyadic grids (3–40 nodes, supports spanning zero) with smooth, random, sharp-edge, trailing-zero and leading-zero densities: '
                'ppf/cdf values and ppf nodes compared with the Lean model, and the statement evaluated on the implementation (monotone ppf, end points of the support, cdf∘ppf = id, '
                'node masses, bounded sampling with stratified uniforms incl. bounds exactly 0.0); k = 1, 2, 3 on smooth positive densities; auxiliary-variable generators slice by slice; '
                'negative densities refused. Interior zero stretches (k = 1) and splines that go negative (k ≥ 2) are listed findings and kept out of the main stream. '
                'non-trivial = non-uniform grid or flat stretch / sharp edge')
    chk.assumptions = TRUSTED
    chk.lean(['IxpeVerif.Props.C15', 'IxpeVerif.Props.Audit.C15'], ['build_cdf', 'build_ppf', 'rvs_bounded'])
    explore(chk)
    known_findings(chk)
    return chk.finish(level='proof', trusted=TRUSTED, search=lambda k: explore(chk, 4))


def replay(body):
    r = body['replay']
    if r.get('oracle') in ORACLES:
        ok, obs = ORACLES[r['oracle']](r['args'])
        out('oracle %s on the recorded input: %s %s' % (r['oracle'], 'holds' if ok else 'FAILS', obs))
        return 0 if ok else 1
    import sys
    import common
    return common.replay_rerun(sys.modules[__name__], body)
