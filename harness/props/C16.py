"""C16 — sampled source positions follow the declared morphology (DESIGN.md section 7, C16)."""
import os
import math
import numpy

import corr_gen
import rngtap
from common import out, rng, scratch

GEN = ['disk_rvs', 'annulus_rvs']
TRUSTED = ['Lean 4.33 kernel + Mathlib', 'axioms: propext, Classical.choice, Quot.sound', 'translator with RNG draws as parameters (validated every run)',
           'numpy.random uniformity and multivariate_normal (library)', 'astropy.wcs (library) for image-based sources and intensity maps',
           'deterministic stratified pushes of uniforms through the real samplers (numpy.random intercepted at run time, no repository change)']


def spec():
    from ixpeobssim.srcmodel.spectrum import power_law
    from ixpeobssim.srcmodel.polarization import constant
    return power_law(1., 2.), constant(0.), constant(0.)


def tangent(ra, dec, ra0, dec0):
    return ((ra - ra0 + 180.) % 360. - 180.) * math.cos(math.radians(dec0)), dec - dec0


def strat(n, g):
    """stratified uniforms in [0,1): one per cell, jittered deterministically"""
    return (numpy.arange(n) + g.uniform(0, 1, n)) / n


def o_disk(a):
    from ixpeobssim.srcmodel.roi import xUniformDisk
    g = numpy.random.default_rng(a['seed'])
    n = 20000
    u1, u2 = strat(n, g), g.permutation(strat(n, g))
    src = xUniformDisk('d', a['ra'], a['dec'], a['radius'], *spec())
    tap = rngtap.Tap(); tap.feed(u1, u2)
    with rngtap.intercept(tap):
        ra, dec = src.rvs_sky_coordinates(n)
    x, y = tangent(ra, dec, a['ra'], a['dec'])
    r2 = x * x + y * y
    e1 = float(numpy.abs(r2 - a['radius'] ** 2 * u1).max() / a['radius'] ** 2)
    th = numpy.arctan2(y, x) % (2 * math.pi)
    e2 = float(numpy.abs(numpy.angle(numpy.exp(1j * (th - 2 * math.pi * u2)))).max())
    outside = int((r2 > a['radius'] ** 2 * (1 + 1e-9)).sum())
    return e1 < 1e-9 and e2 < 1e-6 and outside == 0, dict(area_law_err=e1, azimuth_err=e2, outside=outside)


def o_annulus(a):
    from ixpeobssim.srcmodel.roi import xUniformAnnulus
    g = numpy.random.default_rng(a['seed'])
    n = 20000
    u1, u2 = strat(n, g), g.permutation(strat(n, g))
    src = xUniformAnnulus('a', a['ra'], a['dec'], a['rmin'], a['rmax'], *spec())
    tap = rngtap.Tap(); tap.feed(u1, u2)
    with rngtap.intercept(tap):
        ra, dec = src.rvs_sky_coordinates(n)
    x, y = tangent(ra, dec, a['ra'], a['dec'])
    r2 = x * x + y * y
    exp = a['rmin'] ** 2 + (a['rmax'] ** 2 - a['rmin'] ** 2) * u1
    e1 = float(numpy.abs(r2 - exp).max() / a['rmax'] ** 2)
    outside = int(((r2 > a['rmax'] ** 2 * (1 + 1e-9)) | (r2 < a['rmin'] ** 2 * (1 - 1e-9))).sum())
    frac_mid = float((numpy.sqrt(r2) < 0.5 * (a['rmin'] + a['rmax'])).mean())
    exp_mid = ((0.5 * (a['rmin'] + a['rmax'])) ** 2 - a['rmin'] ** 2) / (a['rmax'] ** 2 - a['rmin'] ** 2)
    return e1 < 1e-9 and outside == 0 and abs(frac_mid - exp_mid) < 2e-3, dict(area_law_err=e1, outside=outside, inside_mid_radius=frac_mid, area_fraction=exp_mid)


def o_point(a):
    from ixpeobssim.srcmodel.roi import xPointSource
    src = xPointSource('p', a['ra'], a['dec'], *spec())
    ra, dec = src.rvs_sky_coordinates(100)
    return bool((ra == a['ra']).all() and (dec == a['dec']).all() and len(ra) == 100), dict()


def o_gauss(a):
    """Gaussian disk: moments of the drawn positions in the tangent plane, for several draws from the *same* object (the three detector units of a
    run draw from one ROI model): every draw has the declared width"""
    from ixpeobssim.srcmodel.roi import xGaussianDisk
    src = xGaussianDisk('g', a['ra'], a['dec'], a['sigma'], *spec())
    e = 0.
    cov, mean = getattr(src, '_xGaussianDisk__cov', None), getattr(src, '_xGaussianDisk__mean', None)
    if cov is not None and mean is not None:
        c = math.cos(math.radians(a['dec']))
        e = max(abs(cov[0][0] * c * c / a['sigma'] ** 2 - 1), abs(cov[1][1] / a['sigma'] ** 2 - 1), abs(cov[0][1]), abs(cov[1][0]))
        if list(mean) != [a['ra'], a['dec']]:
            e = 1.
    numpy.random.seed(a['seed'])
    ok, draws = e < 1e-12, []
    for k in range(3):
        ra, dec = src.rvs_sky_coordinates(200000)
        x, y = tangent(ra, dec, a['ra'], a['dec'])
        sx, sy, rho = float(x.std() / a['sigma']), float(y.std() / a['sigma']), float(numpy.corrcoef(x, y)[0, 1])
        draws.append(dict(draw=k, sx_over_sigma=sx, sy_over_sigma=sy, corr=rho))
        ok = ok and abs(sx - 1) < 0.012 and abs(sy - 1) < 0.012 and abs(rho) < 0.012 and abs(x.mean()) < 0.012 * a['sigma'] and abs(y.mean()) < 0.012 * a['sigma']
    return ok, dict(cov_err=e, draws=draws)


def make_image(path, data, ra0, dec0, pix_arcsec=6., dtype=float, pix_y_arcsec=None, store=None):
    from astropy.io import fits
    ny, nx = data.shape
    h = fits.Header()
    h['CTYPE1'], h['CTYPE2'] = 'RA---TAN', 'DEC--TAN'
    h['CRPIX1'], h['CRPIX2'] = 0.5 * (nx + 1), 0.5 * (ny + 1)
    h['CRVAL1'], h['CRVAL2'] = ra0, dec0
    h['CDELT1'], h['CDELT2'] = -pix_arcsec / 3600., (pix_arcsec if pix_y_arcsec is None else pix_y_arcsec) / 3600.
    hdu = fits.PrimaryHDU(data=data.astype(dtype), header=h)
    if store == 'scaled':           # integers on disk with BSCALE / BZERO: the physical values are what a reader must see
        hdu.scale('int16', bscale=0.5, bzero=100.)
    hdu.writeto(path, overwrite=True)


def o_image(a):
    """image-based source: pixel occupancy proportional to pixel value, nothing outside the image (beyond the half-pixel randomisation)"""
    from ixpeobssim.srcmodel.roi import xExtendedSource
    from astropy import wcs as awcs
    from astropy.io import fits
    g = numpy.random.default_rng(a['seed'])
    ny, nx = a['shape']
    data = g.uniform(0.2, 1., (ny, nx))
    data[g.integers(0, ny), g.integers(0, nx)] = 3.
    dtype = float
    if a.get('profile') == 'core':
        # a single-precision image (BITPIX = -32) with a bright compact core on a faint plateau: every plateau pixel is far below
        # 1e-7 of the total, yet the plateau as a whole must receive its share of the events
        dtype = numpy.float32
        data = numpy.full((ny, nx), 2e-8) * g.uniform(0.8, 1.2, (ny, nx))
        data[ny // 3, nx // 2] = 1.
        data = data.astype(numpy.float32).astype(float)
    data[0, nx - 1] = 0.       # a pixel that must stay empty
    store = a.get('store')
    if store:
        # templates stored as integers: unsigned 16-bit (the FITS convention BZERO = 32768) or scaled 16-bit (BSCALE, BZERO)
        data = numpy.rint(data * 400.) * (1. if store == 'uint16' else 0.5)
        dtype = numpy.uint16 if store == 'uint16' else float
    with scratch() as d:
        path = os.path.join(d, 'img.fits')
        px_as, py_as = a.get('pix', (6., 6.))         # templates need not have square pixels
        make_image(path, data, a['ra'], a['dec'], dtype=dtype, pix_arcsec=px_as, pix_y_arcsec=py_as, store=store if store == 'scaled' else None)
        src = xExtendedSource('e', path, *spec())
        n = 400000
        u = strat(n, g)
        if a.get('randomize'):
            # the in-pixel randomisation spreads the events of a pixel over that pixel and no further: uniforms over (almost) the whole range
            r1, r2 = 0.02 + 0.96 * g.permutation(strat(n, g)), 0.02 + 0.96 * g.permutation(strat(n, g))
        else:
            r1 = r2 = numpy.full(n, 0.5)                                                 # pixel centres: no in-pixel randomisation
        tap = rngtap.Tap(); tap.feed(u, r1, r2)
        with rngtap.intercept(tap):
            ra, dec = src.rvs_sky_coordinates(n)
        with fits.open(path) as h:
            w = awcs.WCS(h[0].header)
    px, py = w.wcs_world2pix(ra, dec, 0)
    ix, iy = numpy.rint(px).astype(int), numpy.rint(py).astype(int)
    outside = int(((ix < 0) | (ix >= nx) | (iy < 0) | (iy >= ny)).sum())
    occ = numpy.zeros((ny, nx))
    ok = (ix >= 0) & (ix < nx) & (iy >= 0) & (iy < ny)
    numpy.add.at(occ, (iy[ok], ix[ok]), 1)
    exp = data / data.sum() * n
    err = float(numpy.abs(occ - exp).max())
    # with stratified uniforms the running count over the pixels (row-major, the order of the cumulative table) follows the running share
    cum = float(numpy.abs(numpy.cumsum(occ.ravel()) - numpy.cumsum(exp.ravel())).max())
    return outside == 0 and err <= 2. and cum <= 3., dict(outside=outside, max_abs_count_err=err, max_cumulative_count_err=cum, empty_pixel_count=float(occ[0, nx - 1]))


def o_imggen(a):
    """the sampler regenerated from the source (Gen/ImgGen.lean, run on Float by the driver) against the real xFITSImage on the same uniforms:
    the cumulative table, the pixel of every event, the coordinates after the in-pixel randomisation"""
    from common import Driver, f2b, b2f
    from ixpeobssim.srcmodel.img import xFITSImage
    g = numpy.random.default_rng(a['seed'])
    ny, nx = a['shape']
    data = g.uniform(0.1, 1., (ny, nx))
    data[g.integers(0, ny), g.integers(0, nx)] = 0.          # an empty pixel
    n = a['n']
    u = g.permutation(strat(n, g))
    u[:ny * nx] = 0.                                          # filled below with values exactly on the nodes of the cumulative table
    r1, r2 = g.uniform(0., 1., n), g.uniform(0., 1., n)
    with scratch() as d:
        path = os.path.join(d, 'img.fits')
        make_image(path, data, a['ra'], a['dec'], pix_arcsec=a['pix'][0], pix_y_arcsec=a['pix'][1])
        img = xFITSImage(path)
        stored = numpy.array(img.data, dtype=float)
        u[:ny * nx] = img.cdf                                 # exactly on a node: the pixel that ends there (side left)
        tap = rngtap.Tap(); tap.feed(u, r1, r2) if a['randomize'] else tap.feed(u)
        with rngtap.intercept(tap):
            ra, dec = img.rvs_coordinates(n, randomize=a['randomize'])
        c1, c2 = float(img.primary_hdu.header['CDELT1']), float(img.primary_hdu.header['CDELT2'])
        flat = [f2b(float(x)) for x in stored.ravel()]
        ev = []
        for i in range(n):
            ev += [f2b(float(u[i])), f2b(float(r1[i])), f2b(float(r2[i]))]
        drv = Driver()
        drv.ask('imgrvs %d %d %d %d %d %s %d %s' % (nx, 1 if a['randomize'] else 0, f2b(c1), f2b(c2), len(flat), ' '.join(map(str, flat)), len(ev), ' '.join(map(str, ev))))
        rep = [b2f(x) for x in drv.run()[0].split()]
        cdf_gen, rows = numpy.array(rep[:ny * nx]), numpy.array(rep[ny * nx:]).reshape(n, 4)
        world = img.wcs.wcs_pix2world(numpy.vstack((rows[:, 0], rows[:, 1])).transpose(), 0)
        cdf_real = numpy.array(img.cdf, dtype=float)
    bad = []
    if cdf_gen.shape != cdf_real.shape or numpy.abs(cdf_gen - cdf_real).max() > 1e-12:
        bad.append('cumulative table differs by %.3g' % float(numpy.abs(cdf_gen - cdf_real).max()))
    dra, ddec = numpy.abs(world[:, 0] + rows[:, 2] - ra), numpy.abs(world[:, 1] + rows[:, 3] - dec)
    k = int(numpy.argmax(dra + ddec))
    if dra.max() > 1e-9 or ddec.max() > 1e-9:
        bad.append('event %d (u = %r): generated (col %d, row %d) + (%.3g, %.3g) gives (%.9f, %.9f), the package (%.9f, %.9f)' % (
            k, float(u[k]), rows[k, 0], rows[k, 1], rows[k, 2], rows[k, 3], world[k, 0] + rows[k, 2], world[k, 1] + rows[k, 3], ra[k], dec[k]))
    return not bad, dict(violated=bad, events=n, max_dra=float(dra.max()), max_ddec=float(ddec.max()))


def o_map(a):
    """pixels lying wholly inside the shape receive events in proportion to the intensity map the same object reports"""
    from ixpeobssim.srcmodel.roi import xUniformDisk, xUniformAnnulus
    from ixpeobssim.utils.astro import build_wcs
    g = numpy.random.default_rng(a['seed'])
    if a['kind'] == 'disk':
        src = xUniformDisk('d', a['ra'], a['dec'], a['rmax'], *spec())
    else:
        src = xUniformAnnulus('a', a['ra'], a['dec'], a['rmin'], a['rmax'], *spec())
    offx, offy = a.get('offset', (0., 0.))            # the source need not sit at the reference point of the grid (nor on its diagonal)
    nside, pix = 40, (2.6 + 2. * max(abs(offx), abs(offy))) * a['rmax'] / 40.
    cra, cdec = a['ra'] + offx * a['rmax'] / numpy.cos(numpy.radians(a['dec'])), a['dec'] + offy * a['rmax']
    if a.get('overview'):
        pix *= 0.8          # a grid step no earlier call in this process has used for this centre
        # the same object is first asked for an overview map on a coarser grid with the same centre and number of pixels; the map it
        # reports next, on the finer grid, must be evaluated on *that* grid
        src.build_intensity_map(build_wcs(cra, cdec, nside, pix * a['overview']))
    w = build_wcs(cra, cdec, nside, pix)
    imap = src.build_intensity_map(w)
    n = 400000
    u1, u2 = strat(n, g), g.permutation(strat(n, g))
    tap = rngtap.Tap(); tap.feed(u1, u2)
    with rngtap.intercept(tap):
        ra, dec = src.rvs_sky_coordinates(n)
    px, py = w.wcs_world2pix(ra, dec, 0)
    ix, iy = numpy.rint(px).astype(int), numpy.rint(py).astype(int)
    occ = numpy.zeros((nside, nside))
    ok = (ix >= 0) & (ix < nside) & (iy >= 0) & (iy < nside)
    numpy.add.at(occ, (iy[ok], ix[ok]), 1)
    # interior pixels: all four corners strictly inside the shape (tangent-plane distance from the centre)
    yy, xx = numpy.mgrid[0:nside, 0:nside]
    sx, sy = [float(v) for v in w.wcs_world2pix(a['ra'], a['dec'], 0)]          # pixel position of the source centre
    inter = numpy.ones((nside, nside), bool)
    for dx in (-0.5, 0.5):
        for dy in (-0.5, 0.5):
            r = numpy.hypot(xx + dx - sx, yy + dy - sy) * pix
            inter &= (r < 0.97 * a['rmax']) & (r > (1.03 * a.get('rmin', 0.) if a['kind'] != 'disk' else -1.))
    if inter.sum() < 20:
        return False, dict(error='too few interior pixels')
    m = imap[inter] if imap.shape == occ.shape else None
    # orientation of the reported map is (y, x) like a FITS image
    exp = m * n
    got = occ[inter]
    rel = float(numpy.abs(got / exp.mean() - exp / exp.mean()).max())
    mean_ratio = float(got.mean() / exp.mean())
    return rel < 0.25 and abs(mean_ratio - 1.) < 0.03 and bool((m > 0).all()), dict(interior_pixels=int(inter.sum()), max_rel_dev=rel, mean_ratio=mean_ratio,
                                                                                 map_zero_in_interior=int((m <= 0).sum()))


def o_imgmap(a):
    """an image-based source: the intensity map it reports on a grid finer than (and not commensurate with) its template is proportional to the
    events it draws, pixel by pixel (every pixel of the grid lies wholly inside the template)"""
    from ixpeobssim.srcmodel.roi import xExtendedSource
    from ixpeobssim.utils.astro import build_wcs
    g = numpy.random.default_rng(a['seed'])
    ny, nx = a['shape']
    data = g.uniform(0.3, 1., (ny, nx))
    tpix = a['template_pix']
    nside, pix = a['nside'], a['pix']
    with scratch() as d:
        path = os.path.join(d, 'img.fits')
        make_image(path, data, a['ra'], a['dec'], pix_arcsec=tpix)
        src = xExtendedSource('e', path, *spec())
        w = build_wcs(a['ra'], a['dec'], nside, pix / 3600.)
        numpy.random.seed(a['seed'])
        imap = numpy.asarray(src.build_intensity_map(w), dtype=float)
        n = 400000
        tap = rngtap.Tap(); tap.feed(strat(n, g), g.permutation(strat(n, g)), g.permutation(strat(n, g)))
        with rngtap.intercept(tap):
            ra, dec = src.rvs_sky_coordinates(n)
    px, py = w.wcs_world2pix(ra, dec, 0)
    ix, iy = numpy.rint(px).astype(int), numpy.rint(py).astype(int)
    occ = numpy.zeros((nside, nside))
    ok = (ix >= 0) & (ix < nside) & (iy >= 0) & (iy < nside)
    numpy.add.at(occ, (iy[ok], ix[ok]), 1)
    if imap.shape != occ.shape:
        return False, dict(error='map of shape %s on a %d x %d grid' % (imap.shape, nside, nside))
    got, exp = occ / occ.sum(), imap / imap.sum()
    rel = float(numpy.abs(got - exp).max() / exp.mean())
    zeros = int((imap <= 0).sum())
    # block sums (4 x 4 target pixels) average the Monte Carlo noise of both sides down
    k = nside // 4
    blk = lambda m: m[:4 * k, :4 * k].reshape(k, 4, k, 4).sum(axis=(1, 3))
    relb = float(numpy.abs(blk(got) - blk(exp)).max() / blk(exp).mean())
    return zeros == 0 and rel < 0.5 and relb < 0.12, dict(map_zero_pixels=zeros, max_rel_dev=rel, max_rel_dev_blocks=relb, events_on_grid=int(ok.sum()))


def o_digitize(a):
    """intensity maps on a grid that does not contain everything: positions are binned in the pixel that contains them, positions outside the
    grid (beyond any edge) are dropped, never folded back; a point source outside the map leaves it empty"""
    from ixpeobssim.utils.astro import build_wcs, wcs_digitize
    from ixpeobssim.srcmodel.roi import xPointSource
    g = numpy.random.default_rng(a['seed'])
    nside, pix = a['nside'], a['pix']
    w = build_wcs(a['ra'], a['dec'], nside, pix)
    half = 0.5 * nside * pix
    n = 20000
    # positions over twice the extent of the map in both directions: three quarters of them are outside
    dec = a['dec'] + g.uniform(-2. * half, 2. * half, n)
    ra = a['ra'] + g.uniform(-2. * half, 2. * half, n) / numpy.cos(numpy.radians(a['dec']))
    got = numpy.array(wcs_digitize(w, ra, dec), dtype=float)
    px, py = w.wcs_world2pix(ra, dec, 0)
    ix, iy = numpy.floor(px + 0.5).astype(int), numpy.floor(py + 0.5).astype(int)
    ok = (ix >= 0) & (ix < nside) & (iy >= 0) & (iy < nside)
    exp = numpy.zeros((nside, nside))
    numpy.add.at(exp, (iy[ok], ix[ok]), 1)
    # pixels whose events sit within 1e-6 pixel of an edge are not compared
    edge = numpy.zeros((nside, nside), bool)
    near = ok & ((numpy.abs(px + 0.5 - numpy.round(px + 0.5)) < 1e-6) | (numpy.abs(py + 0.5 - numpy.round(py + 0.5)) < 1e-6))
    edge[iy[near], ix[near]] = True
    bad = []
    if got.shape != exp.shape:
        bad.append('map of shape %s for a %d x %d grid' % (got.shape, nside, nside))
    else:
        dif = (got != exp) & ~edge
        if dif.any() or abs(got.sum() - ok.sum()) > near.sum():
            j = numpy.argwhere(dif)[0] if dif.any() else (0, 0)
            bad.append('%d pixels differ from the independent binning (e.g. row %d, col %d: %d vs %d); map total %d, positions inside the grid %d' % (
                int(dif.sum()), j[0], j[1], got[j[0], j[1]], exp[j[0], j[1]], int(got.sum()), int(ok.sum())))
    for dra, ddec, inside in ((0., 0., True), (0.3 * half, 0.2 * half, True), (0., 1.4 * half, False), (0., -1.7 * half, False), (1.5 * half, 0., False), (-1.3 * half, 1.2 * half, False)):
        src = xPointSource('p', a['ra'] + dra / numpy.cos(numpy.radians(a['dec'])), a['dec'] + ddec, *spec())
        m = numpy.array(src.build_intensity_map(w), dtype=float)
        if inside and not (m.sum() == 1. and (m > 0).sum() == 1):
            bad.append('point source inside the map: %d non-zero pixels, total %r' % (int((m > 0).sum()), float(m.sum())))
        elif inside:
            qx, qy = [int(numpy.floor(float(v) + 0.5)) for v in w.wcs_world2pix(a['ra'] + dra / numpy.cos(numpy.radians(a['dec'])), a['dec'] + ddec, 0)]
            k = numpy.argwhere(m > 0)[0]
            if (int(k[0]), int(k[1])) != (qy, qx):
                bad.append('point source at pixel (row %d, col %d) shows up at row %d, col %d' % (qy, qx, k[0], k[1]))
        if not inside and m.sum() != 0.:
            k = numpy.argwhere(m > 0)[0]
            bad.append('point source outside the map (offset %.3f, %.3f deg) shows up at row %d, col %d' % (dra, ddec, k[0], k[1]))
    return not bad, dict(violated=bad, inside=int(ok.sum()), outside=int((~ok).sum()))


def o_mctruth(a):
    """the Monte Carlo sky positions kept in the event list are the sampled ones: a point source sits exactly on its position, disk events inside
    the disk — also after the PSF has displaced the measured positions"""
    import simdrive
    from ixpeobssim.srcmodel.roi import xPointSource, xUniformDisk, xROIModel
    from ixpeobssim.irf import load_irf_set, DEFAULT_IRF_NAME
    R = 30. / 3600.
    roi = xROIModel(a['ra'], a['dec'])
    dra = a.get('disk_dra', 0.05)        # offset of the disk from the field centre in the tangent plane (degrees); with a field at RA ≈ 0 the disk straddles RA = 0 / 360
    roi.add_sources(xPointSource('p', a['ra'], a['dec'], *spec()), xUniformDisk('d', a['ra'] + dra / numpy.cos(numpy.radians(a['dec'])), a['dec'] - 0.03, R, *spec()))
    # through the written file: the events that reach it have passed the detector projection and the fiducial cut
    from astropy.io import fits
    with scratch() as d:
        path = os.path.join(d, 'mc.fits')
        simdrive.simulate(simdrive.config_path('toy_point_source.py'), path, du_id=a['du'], seed=a['seed'], roi_model=roi, duration=200., vignetting=False, dithering=False, deadtime=0.)
        with fits.open(path) as h:
            src = numpy.array(h['MONTE_CARLO'].data['SRC_ID']).astype(int)
            mra, mdec = numpy.array(h['MONTE_CARLO'].data['MC_RA'], dtype=float), numpy.array(h['MONTE_CARLO'].data['MC_DEC'], dtype=float)
    bad = []
    p = src == 0
    off = numpy.hypot((mra[p] - a['ra']) * numpy.cos(numpy.radians(a['dec'])), mdec[p] - a['dec']) * 3600.
    if p.sum() and off.max() > 0.05:          # MC_RA, MC_DEC are single-precision columns
        bad.append('%d of %d point-source events have a Monte Carlo position off the source position (up to %.1f arcsec)' % (int((off > 0.05).sum()), int(p.sum()), off.max()))
    dmask = src == 1
    x, y = tangent(mra[dmask], mdec[dmask], a['ra'] + dra / numpy.cos(numpy.radians(a['dec'])), a['dec'] - 0.03)
    r = numpy.hypot(x, y)
    if dmask.sum() and (r > R + 0.05 / 3600.).any():
        bad.append('%d of %d disk events have a Monte Carlo position outside the %.0f arcsec disk (up to %.1f arcsec)' % (int((r > R * (1 + 1e-6)).sum()), int(dmask.sum()), R * 3600., r.max() * 3600.))
    # the disk is sampled whole: as many events east as west of its centre, and (same spectrum, both inside the field of view) about as many as the point source
    nd, east = int(dmask.sum()), int((x > 0).sum())
    if nd and abs(east - 0.5 * nd) > 5. * math.sqrt(0.25 * nd) + 2:
        bad.append('%d of %d disk events lie east of the disk centre' % (east, nd))
    if p.sum() and abs(nd - p.sum()) > 6. * math.sqrt(nd + p.sum()) + 0.1 * p.sum():
        bad.append('%d disk events for %d events of a point source with the same spectrum' % (nd, int(p.sum())))
    return not bad and p.sum() > 100 and dmask.sum() > 100, dict(violated=bad, point_events=int(p.sum()), disk_events=int(dmask.sum()))


ORACLES = dict(digitize=o_digitize, mctruth=o_mctruth, disk=o_disk, annulus=o_annulus, point=o_point, gauss=o_gauss, image=o_image, map=o_map, imgmap=o_imgmap, imggen=o_imggen)


def run_oracle(chk, name, a, nontrivial=True):
    chk.case(dict(oracle=name, args=a), nontrivial=nontrivial)
    try:
        ok, obs = ORACLES[name](a)
    except BaseException as e:
        ok, obs = False, dict(exception='%s: %s' % (type(e).__name__, e))
    if not ok:
        chk.fail('impl', 'C16 %s: %s (args %s)' % (name, obs, a), dict(oracle=name, args=a, observed=obs))


def centres(g, k):
    pts = [(30., 45.), (0.01, 20.), (359.98, -60.), (180., 75.), (90., -75.), (0.0, 0.0)]
    return pts + [(float(g.uniform(0, 360)), float(g.uniform(-75, 75))) for _ in range(k)]


def explore(chk, budget=1):
    g = rng('C16-%d' % budget)
    quick = chk.tier == 'quick'
    for i, (ra, dec) in enumerate(centres(g, (2 if quick else 30) * budget)):
        sd = int(g.integers(1, 10 ** 6))
        R = float(g.uniform(0.005, 0.1))
        run_oracle(chk, 'disk', dict(ra=ra, dec=dec, radius=R, seed=sd), nontrivial=abs(dec) > 30)
        rmin = float(R * g.choice([0., g.uniform(0.05, 0.9)]))
        run_oracle(chk, 'annulus', dict(ra=ra, dec=dec, rmin=rmin, rmax=R, seed=sd), nontrivial=rmin / R > 0.3)
        run_oracle(chk, 'point', dict(ra=ra, dec=dec))
        if i % 2 == 0 or not quick:
            run_oracle(chk, 'gauss', dict(ra=ra, dec=dec, sigma=float(g.uniform(0.003, 0.03)), seed=sd), nontrivial=abs(dec) > 30)
            run_oracle(chk, 'map', dict(kind='disk', ra=ra, dec=dec, rmax=0.05, seed=sd))
            run_oracle(chk, 'map', dict(kind='annulus', ra=ra, dec=dec, rmin=0.02, rmax=0.05, seed=sd))
            run_oracle(chk, 'map', dict(kind=['annulus', 'disk'][i % 4 // 2], ra=ra, dec=dec, rmin=0.02, rmax=0.05, seed=sd,
                                        offset=(float(g.choice([-0.6, 0.4, 0.7])), float(g.choice([-0.25, 0.15, 0.])))))
            run_oracle(chk, 'map', dict(kind=['disk', 'annulus'][i % 4 // 2], ra=ra, dec=dec, rmin=0.02, rmax=0.05, seed=sd, overview=float(g.choice([1.6, 2.5]))))
    for (ra, dec) in centres(g, 0)[:3 if quick else 6]:
        run_oracle(chk, 'digitize', dict(ra=ra if ra > 1. else ra + 3., dec=dec, nside=int(g.choice([20, 31, 40])), pix=float(g.uniform(2., 8.)) / 3600., seed=int(g.integers(1, 10 ** 6))))
    run_oracle(chk, 'imgmap', dict(shape=(8, 8), template_pix=16., nside=int(g.choice([24, 28])), pix=float(g.choice([3.7, 4.1])), ra=float(g.uniform(5, 355)),
                                   dec=float(g.uniform(-15, 15)), seed=int(g.integers(1, 10 ** 6))))       # low declination: the in-pixel randomisation of xFITSImage is done in RA, DEC (recorded observation)
    run_oracle(chk, 'mctruth', dict(ra=float(g.uniform(5, 355)), dec=float(g.uniform(-60, 60)), du=int(g.integers(1, 4)), seed=int(g.integers(1, 10 ** 6))))
    run_oracle(chk, 'mctruth', dict(ra=float(g.choice([0.004, 359.997])), dec=float(g.uniform(-40, 40)), disk_dra=float(g.choice([0., 0.002, -0.003])), du=int(g.integers(1, 4)),
                                    seed=int(g.integers(1, 10 ** 6))))
    run_oracle(chk, 'image', dict(shape=(128, 160) if quick else (256, 256), profile='core', ra=float(g.uniform(5, 355)), dec=float(g.uniform(-60, 60)), seed=int(g.integers(1, 10 ** 6))))
    for shape, pix in ([((6, 8), (2., 8.)), ((8, 6), (9., 3.))] if quick else [((6, 8), (2., 8.)), ((8, 6), (9., 3.)), ((7, 7), (4., 5.)), ((5, 9), (12., 2.))]):
        run_oracle(chk, 'image', dict(shape=shape, pix=pix, randomize=True, ra=float(g.uniform(5, 355)), dec=float(g.uniform(-60, 60)), seed=int(g.integers(1, 10 ** 6))))
    for shape, pix, rnd in ([((4, 7), (6., 6.), True), ((6, 3), (3., 9.), False)] if quick else [((4, 7), (6., 6.), True), ((6, 3), (3., 9.), False), ((5, 5), (8., 2.), True), ((9, 2), (4., 4.), True)]):
        run_oracle(chk, 'imggen', dict(shape=shape, pix=pix, randomize=rnd, n=1500, ra=float(g.uniform(5, 355)), dec=float(g.uniform(-60, 60)), seed=int(g.integers(1, 10 ** 6))))
    for store in ('uint16', 'scaled'):
        run_oracle(chk, 'image', dict(shape=(6, 7), store=store, ra=float(g.uniform(5, 355)), dec=float(g.uniform(-60, 60)), seed=int(g.integers(1, 10 ** 6))))
    for shape in ([(7, 7), (5, 9), (9, 5)] if quick else [(7, 7), (5, 9), (9, 5), (12, 4), (3, 11), (16, 16)]):
        run_oracle(chk, 'image', dict(shape=shape, ra=float(g.uniform(5, 355)), dec=float(g.uniform(-60, 60)), seed=int(g.integers(1, 10 ** 6))), nontrivial=shape[0] != shape[1])


def main(chk):
    chk.rule = ('generated samplers (RNG draws as parameters) vs Python; stratified uniforms pushed through the real rvs_sky_coordinates with numpy.random intercepted: '
                'disk and annulus squared radius against the area law and the azimuth, nothing outside, at centres with |dec| ≤ 75° incl. RA next to 0/360; point sources exact; '
                'Gaussian covariance and sample moments in the tangent plane; image-based sources on square and non-square images (pixel occupancy ∝ value, empty pixel stays empty); '
                'interior pixels against build_intensity_map of the same object. non-trivial = |dec| > 30°, rmin/rmax > 0.3, non-square image')
    chk.assumptions = TRUSTED
    chk.lean(['IxpeVerif.Props.C16', 'IxpeVerif.Props.C16Gen', 'IxpeVerif.Props.Audit.C16'], GEN + ['img_build_cdf', 'img_rvs_coordinates'])
    corr_gen.run(chk, GEN, n=200 if chk.tier == 'quick' else 3000, tag='C16', rtol=1e-10, atol=1e-10)
    explore(chk)
    return chk.finish(level='proof', trusted=TRUSTED, search=lambda k: explore(chk, 4))


def replay(body):
    r = body['replay']
    if r.get('oracle') in ORACLES:
        ok, obs = ORACLES[r['oracle']](r['args'])
        out('oracle %s on the recorded input: %s %s' % (r['oracle'], 'holds' if ok else 'FAILS', obs))
        return 0 if ok else 1
    import sys
    import common
    return common.replay_rerun(sys.modules[__name__], body)
