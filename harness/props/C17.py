"""C17 — pulse phase and time are consistent for periodic sources (DESIGN.md section 7, C17)."""
import os
import math
import numpy

import corr_gen
from common import out, rng, Driver, scratch, f2b, b2f

GEN = ['eph_nu', 'eph_nudot', 'eph_met_to_phase']
TRUSTED = ['Lean 4.33 kernel + Mathlib', 'axioms: propext, Classical.choice, Quot.sound', 'translator for the Taylor polynomials (validated every run)',
           'hand model Eph.fold tied by correspondence on Float', 'the spline inversion phase→time (FITPACK) is a parameter of the theorems: its accuracy is measured on every run (partial)',
           'float cancellation for large MET (the fold re-references at the window start exactly for that reason): measured envelope 5e-12·periods + 2e-7',
           'sample statistics use fixed seeds and 6σ / KS 1e-5 bands']


def gen_eph(g):
    nu0 = float(10 ** g.uniform(-1, 2.8))
    nudot = float(g.choice([0., -10 ** g.uniform(-15, -10)]))
    nuddot = float(g.choice([0., g.uniform(-1e-21, 1e-21)]))
    start = float(g.choice([0., 1.5e8, 2.4e8]) + g.uniform(0, 1e4))
    where = g.choice(['before', 'inside', 'after', 'at'])
    duration = float(10 ** g.uniform(0.5, 5.5))
    met0 = dict(before=start - float(g.uniform(1e3, 1e7)), inside=start + 0.4 * duration, after=start + duration + float(g.uniform(1e3, 1e6)), at=start)[where]
    return dict(met0=met0, nu0=nu0, nudot0=nudot, nuddot=nuddot), start, duration


def profile(kind):
    from ixpeobssim.core.rand import xUnivariateGenerator
    x = numpy.linspace(0., 1., 201)
    if kind == 'flat':
        y = numpy.ones(x.shape)
    elif kind == 'sin2':
        y = 1. + 0.8 * numpy.sin(2 * math.pi * x)
    elif kind == 'coarse':
        # a pulse profile tabulated on a few phase bins (a measured light curve): the quantile function and the cumulative must still be inverses
        x = numpy.linspace(0., 1., 11)
        y = 1. + 0.9 * numpy.cos(2 * math.pi * x)
    else:       # narrow peak at phase 0.75 on a small pedestal
        y = 0.02 + numpy.exp(-0.5 * ((x - 0.75) / 0.03) ** 2)
    return xUnivariateGenerator(x, y)


def o_roundtrip(a):
    """time -> phase -> time, with the spline inversion; folded phases in [0, 1)"""
    from ixpeobssim.srcmodel.ephemeris import xEphemeris
    eph = xEphemeris(**a['eph'])
    g = numpy.random.default_rng(a['seed'])
    t = numpy.sort(g.uniform(a['start'], a['start'] + a['duration'], 500))
    ph = eph.met_to_phase(t)
    back = eph.phase_to_met(ph, a['start'], a['duration'])
    periods = a['duration'] * a['eph']['nu0']
    err_cycles = float(numpy.abs((back - t) * a['eph']['nu0']).max())
    # a pilot window first, then a much longer one from the same start with the same ephemeris numbers (another object): the second
    # inversion is as good as the first
    D2 = 40. * a['duration']
    t2 = numpy.sort(g.uniform(a['start'], a['start'] + D2, 300))
    eph2 = xEphemeris(**a['eph'])
    back2 = eph2.phase_to_met(eph2.met_to_phase(t2), a['start'], D2)
    err2 = float(numpy.abs((back2 - t2) * a['eph']['nu0']).max())
    env2 = 5e-12 * D2 * a['eph']['nu0'] + 2e-7 + 16. * float(numpy.spacing(a['start'] + D2)) * a['eph']['nu0'] + 4. * float(numpy.spacing(numpy.abs(eph2.met_to_phase(t2)).max()))
    if err2 > max(env2, 1e-6):
        err_cycles = max(err_cycles, err2)
    if a['eph']['nudot0'] == 0. and a['eph']['nuddot'] == 0.:
        # constant frequency: the zero-order guesses behind the optional arguments are exact, so every documented way of calling the
        # inverse (window given, only its start given, nothing given) must round trip, also for events from a later part of the window
        for off in (0., 0.5, 0.9):
            ts = t[t >= a['start'] + off * a['duration']]
            if len(ts) < 3:
                continue
            phs = eph.met_to_phase(ts)
            for args in ((a['start'], a['duration']), (a['start'],), ()):
                e = float(numpy.abs((eph.phase_to_met(phs, *args) - ts) * a['eph']['nu0']).max())
                err_cycles = max(err_cycles, e)
    f = eph.fold(t, a['start'])
    f1 = eph.fold(t, a['start'], 0.3)
    inrange = bool((f >= 0).all() and (f < 1).all() and (f1 >= 0).all() and (f1 < 1).all())
    off = float(numpy.abs(((f1 - f - 0.3 + 0.5) % 1.) - 0.5).max())
    # float64 resolution of the MET itself (3e-8 s at 1.5e8 s) limits any time-domain round trip: 16 ulp(t)·ν₀ cycles (measured ≤ 6)
    # … and so does the float64 resolution of the absolute phase when the epoch is far from the window (phase ~ 1e9-1e12 cycles)
    env = 5e-12 * periods + 2e-7 + 16. * float(numpy.spacing(a['start'] + a['duration'])) * a['eph']['nu0'] + 4. * float(numpy.spacing(numpy.abs(ph).max()))
    return err_cycles <= max(env, 1e-6) and inrange and off < 1e-6, dict(roundtrip_err_cycles=err_cycles, envelope=env, in_range=inrange, offset_err=off)


def o_rvs(a):
    """generated times: sorted, inside the window, fold back to the generated phases, follow the profile, tail share"""
    from ixpeobssim.srcmodel.ephemeris import xEphemeris
    eph = xEphemeris(**a['eph'])
    prof = profile(a['profile'])
    numpy.random.seed(a['seed'])
    n = a['n']
    pp, met = eph.rvs(prof, a['start'], a['duration'], n)
    periods = eph.met_to_phase(a['start'] + a['duration']) - eph.met_to_phase(a['start'])
    bad = []
    if len(met) != n or len(pp) != n:
        bad.append('returned %d times and %d phases for %d events' % (len(met), len(pp), n))
    if (numpy.diff(met) < 0).any():
        bad.append('times not sorted')
    tol_t = 1e-6 / a['eph']['nu0'] + 1e-9 * a['duration']
    if met.min() < a['start'] - tol_t or met.max() > a['start'] + a['duration'] + tol_t:
        bad.append('times outside the window: [%r, %r]' % (met.min() - a['start'], met.max() - a['start'] - a['duration']))
    f = eph.fold(met, a['start'])
    d = numpy.abs(((f - pp + 0.5) % 1.) - 0.5)
    env = 5e-12 * periods + 2e-7 + 16. * float(numpy.spacing(a['start'] + a['duration'])) * a['eph']['nu0'] + 4. * float(numpy.spacing(abs(float(eph.met_to_phase(a['start'] + a['duration'])))))
    if d.max() > max(env, 1e-6):
        bad.append('fold(met) differs from the generated pulse phase by up to %.3g cycles (envelope %.3g)' % (d.max(), env))
    # the times follow the pulse profile: in free-running phase p = φ(t) − φ(start) ∈ [0, P] the cumulative is
    # (⌊p⌋ + cdf(frac p)) / (⌊P⌋ + cdf(frac P))  (every whole period carries one unit of profile integral)
    pfree = numpy.sort(eph.met_to_phase(met) - eph.met_to_phase(a['start']))
    pfree = numpy.clip(pfree, 0., periods)
    tot = math.floor(periods) + float(prof.cdf(periods - math.floor(periods)))
    cdf = (numpy.floor(pfree) + prof.cdf(pfree - numpy.floor(pfree))) / tot
    ks = float(max(numpy.abs(cdf - (numpy.arange(n) + 1.) / n).max(), numpy.abs(cdf - numpy.arange(n) / float(n)).max()))
    if ks > 2.6 / math.sqrt(n) + 2e-3:
        bad.append('generated times do not follow the pulse profile: KS distance %.4f (N = %d, %.2f periods)' % (ks, n, periods))
    # share of the last partial period
    rem = periods - math.floor(periods)
    if rem > 0.05 and periods < 50:
        frac = float(prof.cdf(rem))
        expected = n * frac / (math.floor(periods) + frac)
        t_last = eph.phase_to_met(numpy.array([eph.met_to_phase(a['start']) + math.floor(periods)]), a['start'], a['duration'])[0]
        got = int((met >= t_last).sum())
        sig = math.sqrt(max(expected, 1.))
        if abs(got - expected) > 6. * sig + 2.:
            bad.append('last partial period (%.3f of a period, profile integral %.4f) holds %d events, %.1f ± %.1f expected' % (rem, frac, got, expected, sig))
    return not bad, dict(violated=bad, periods=float(periods))


def o_source(a):
    """xPeriodicPointSource: phase carried alongside time through the GTI filter; xpphase PHASE column = fold with the file's own TSTART"""
    import simdrive
    from astropy.io import fits
    from ixpeobssim.bin.xpphase import xpphase, PARSER
    from ixpeobssim.srcmodel.ephemeris import xEphemeris
    from ixpeobssim.srcmodel import import_roi
    bad = []
    with scratch() as d:
        paths = []
        for i, start in enumerate(a['starts']):
            path = os.path.join(d, 'p%d.fits' % i)
            roi = import_roi(simdrive.config_path('toy_periodic_source.py'))
            src = list(roi.values())[0]
            eph = src.ephemeris
            gtis = [(start, start + 150.), (start + 260., start + 600.)]
            if start == 0.:
                gtis = [(start + 41.7, start + 150.), (start + 260., start + 600.)]       # a run starting at MET 0 exactly, the first good time later
            simdrive.simulate(simdrive.config_path('toy_periodic_source.py'), path, gtis=gtis, du_id=a['du'], seed=a['seed'] + i, roi_model=roi, start_met=start, duration=600.)
            paths.append(path)
        e = eph.dict()
        outl = xpphase(**PARSER.parse_args(paths + ['--met0', repr(e['met0']), '--nu0', repr(e['nu0']), '--nudot0', repr(e['nudot0']), '--nuddot', repr(e['nuddot'])]).__dict__)
        for p, o, start in zip(paths, outl, a['starts']):
            with fits.open(o) as h:
                t = numpy.array(h['EVENTS'].data['TIME'], dtype=float)
                ph = numpy.array(h['EVENTS'].data['PHASE'], dtype=float)
                tstart = h['EVENTS'].header['TSTART']
            # the phases the events were generated with are counted from the start of the run: that is what the PHASE column must reproduce
            # (the header TSTART the application folds with has to be that very instant)
            ref = xEphemeris(**e).fold(t, start)
            dd = numpy.abs(((ph - ref + 0.5) % 1.) - 0.5)
            if tstart != start:
                bad.append('file of the run starting at %r: TSTART = %r' % (start, tstart))
            if len(t) < 50:
                bad.append('only %d events' % len(t))
            elif dd.max() > 3e-7:
                bad.append('file starting at %r: PHASE differs from fold(TIME, TSTART) by up to %.3g' % (start, dd.max()))
            if ((ph < 0) | (ph >= 1.0000001)).any():
                bad.append('PHASE outside [0, 1)')
        # the same files folded through the pipeline wrapper with an ephemeris handed over programmatically (`**ephemeris.dict()`), as the
        # example pipelines do: an epoch before the mission reference date (negative MET with ten significant digits) and a frequency derivative
        from ixpeobssim.core import pipeline
        e2 = dict(met0=-186883200.25 - float(a['seed'] % 1000), nu0=29.946923 + 1e-7 * (a['seed'] % 97), nudot0=-3.77535e-10, nuddot=1.1147e-20)
        outl = pipeline.xpphase(*paths, suffix='pipe', overwrite=True, **e2)
        for p, o, start in zip(paths, outl, a['starts']):
            with fits.open(o) as h:
                t = numpy.array(h['EVENTS'].data['TIME'], dtype=float)
                ph = numpy.array(h['EVENTS'].data['PHASE'], dtype=float)
                tstart = h['EVENTS'].header['TSTART']
            ref = xEphemeris(**e2).fold(t, tstart)
            dd = numpy.abs(((ph - ref + 0.5) % 1.) - 0.5)
            if len(t) and dd.max() > 2e-6:      # PHASE is a float32 column; the absolute phase is ~ 1e10 cycles
                bad.append('pipeline.xpphase with met0 = %r: PHASE differs from fold(TIME, TSTART) by up to %.3g' % (e2['met0'], dd.max()))
    return not bad, dict(violated=bad)


def o_seedflow(a):
    """the pulse phase handed to the per-event models (spectrum, polarization) is the fold of the event time — through the GTI filter"""
    import simdrive
    from unittest import mock
    from ixpeobssim.irf import load_irf_set
    from ixpeobssim.srcmodel import import_roi
    from ixpeobssim.srcmodel.roi import xPeriodicPointSource
    cfg = simdrive.config_path('toy_periodic_source.py')
    roi = import_roi(cfg)
    src = [s for s in roi.values() if isinstance(s, xPeriodicPointSource)][0]
    start = a['start']
    # the first good interval may begin well after the start of the observation (SAA / occultation at the start): the phases are still
    # counted from the observation start, which is what xpphase folds with
    late = a.get('late', 0.)
    kwargs = simdrive.sim_kwargs(cfg, 'unused.fits', gtis=[(start + late, start + 100.), (start + 180., start + 400.)], start_met=start, duration=400.)
    irf_set = load_irf_set(kwargs['irfname'], a['du'])
    seen = {}
    orig = xPeriodicPointSource._rvs_phi

    def spy(self, modf, mc_energy, phase, ra, dec):
        seen['phase'] = numpy.array(phase, dtype=float)
        return orig(self, modf, mc_energy, phase, ra, dec)
    numpy.random.seed(a['seed'])
    with mock.patch.object(xPeriodicPointSource, '_rvs_phi', spy):
        el = src._rvs_seed_event_list(roi, irf_set, **kwargs)
    t = numpy.array(el.time(), dtype=float)
    if 'phase' not in seen or len(seen['phase']) != len(t) or len(t) < 100:
        return False, dict(error='phase array of length %s for %d events' % (len(seen.get('phase', [])), len(t)))
    ref = src.ephemeris.fold(t, start)
    d = numpy.abs(((seen['phase'] - ref + 0.5) % 1.) - 0.5)
    return float(d.max()) < 1e-6, dict(max_phase_mismatch=float(d.max()), events=len(t))


ORACLES = dict(roundtrip=o_roundtrip, rvs=o_rvs, source=o_source, seedflow=o_seedflow)


def run_oracle(chk, name, a, nontrivial=True):
    chk.case(dict(oracle=name, args=a), nontrivial=nontrivial)
    try:
        ok, obs = ORACLES[name](a)
    except BaseException as e:
        ok, obs = False, dict(exception='%s: %s' % (type(e).__name__, e))
    if not ok:
        chk.fail('impl', 'C17 %s: %s (args %s)' % (name, obs, a), dict(oracle=name, args=a, observed=obs))


def explore(chk, budget=1):
    from ixpeobssim.srcmodel.ephemeris import xEphemeris
    g = rng('C17-%d' % budget)
    quick = chk.tier == 'quick'
    drv = Driver()
    jobs = []
    for i in range((25 if quick else 400) * budget):
        eph, start, duration = gen_eph(g)
        nontriv = eph['nudot0'] != 0 and eph['met0'] != start
        run_oracle(chk, 'roundtrip', dict(eph=eph, start=start, duration=duration, seed=int(g.integers(1, 10 ** 6))), nontrivial=nontriv)
        t = numpy.sort(g.uniform(start, start + duration, 40))
        phi0 = float(g.choice([0., g.uniform(0, 1), -0.25, 1.5, g.uniform(-2., 3.)]))       # the offset is any real number: the fold is taken modulo one
        impl = xEphemeris(**eph).fold(t, start, phi0)
        chk.case(dict(op='fold-range', phi0=phi0, nu0=eph['nu0']), nontrivial=not (0. <= phi0 < 1.))
        if (numpy.asarray(impl) < 0.).any() or (numpy.asarray(impl) >= 1.).any():
            chk.fail('impl', 'fold with phase offset %r: folded phases span [%.4f, %.4f], not [0, 1)' % (phi0, float(numpy.min(impl)), float(numpy.max(impl))),
                     dict(oracle='fold-range', eph=eph, start=start, phi0=phi0))
        drv.ask('fold %d %d %d %d %d %d %d %s' % (f2b(eph['met0']), f2b(eph['nu0']), f2b(eph['nudot0']), f2b(eph['nuddot']), f2b(start), f2b(phi0), len(t), ' '.join(str(f2b(x)) for x in t)))
        jobs.append((eph, start, phi0, t, impl))
    # generated times
    cases = [dict(profile='peak', periods=2.5, n=200000), dict(profile='sin2', periods=3.5, n=100000), dict(profile='flat', periods=7.3, n=50000),
             dict(profile='peak', periods=1.2, n=100000), dict(profile='sin2', periods=12345.6, n=50000),
             dict(profile='coarse', periods=20. + float(g.choice([0.25, 0.35, 0.15])), n=200000), dict(profile='coarse', periods=3.3, n=100000)]
    if not quick:
        cases += [dict(profile=str(g.choice(['peak', 'sin2', 'flat'])), periods=float(10 ** g.uniform(0.1, 6)), n=50000) for _ in range(12 * budget)]
    for c in cases:
        nu0 = float(10 ** g.uniform(-1, 2))
        start = float(g.choice([0., 2.1e8]) + g.uniform(0, 1e3))
        eph = dict(met0=start - float(g.choice([0., 1234.567])), nu0=nu0, nudot0=float(g.choice([0., -1e-12])), nuddot=0.)
        run_oracle(chk, 'rvs', dict(eph=eph, start=start, duration=c['periods'] / nu0, profile=c['profile'], n=c['n'], seed=int(g.integers(1, 10 ** 6))),
                   nontrivial=abs(c['periods'] - round(c['periods'])) > 0.01)
    run_oracle(chk, 'source', dict(starts=[20000., 31234.567891, 0.], du=int(g.integers(1, 4)), seed=int(g.integers(1, 10 ** 6))))
    for start in (0., 12345.678, float(g.uniform(1e3, 1e6))):
        run_oracle(chk, 'seedflow', dict(start=start, du=int(g.integers(1, 4)), seed=int(g.integers(1, 10 ** 6))), nontrivial=start != 0.)
        run_oracle(chk, 'seedflow', dict(start=start, du=int(g.integers(1, 4)), seed=int(g.integers(1, 10 ** 6)), late=float(g.uniform(5., 60.))), nontrivial=True)
    replies = drv.run()
    for (eph, start, phi0, t, impl), rep in zip(jobs, replies):
        model = numpy.array([b2f(x) for x in rep.split()])
        d = numpy.abs(((model - impl + 0.5) % 1.) - 0.5)
        periods = (t.max() - start) * eph['nu0']
        if d.max() > 1e-9 + 1e-15 * periods * 10:
            chk.fail('correspondence', 'fold: model and implementation differ by %.3g cycles (ephemeris %s, start %r)' % (d.max(), eph, start),
                     dict(op='fold', eph=eph, start=start, phi0=phi0, max_diff=float(d.max())))


def main(chk):
    chk.rule = ('generated Taylor polynomials vs Python; fold model vs implementation (ν₀ 0.1–600 Hz, ν̇, ν̈, epoch before/inside/after/at the window, windows of 3 to 3·10⁵ s, φ₀); '
                'time↔phase round trip through the spline inversion against a measured envelope; xEphemeris.rvs for flat, sinusoidal and narrow-peak profiles over 1.2 … 1.2·10⁴ periods '
                '(sorted, inside the window, fold = generated phase, KS against the profile, share of the last partial period); a periodic source simulated on gapped GTIs at two '
                'different start times and processed by one xpphase call. non-trivial = ν̇ ≠ 0 with epoch ≠ start, non-integer number of periods')
    chk.assumptions = TRUSTED
    chk.lean(['IxpeVerif.Props.C17', 'IxpeVerif.Props.Audit.C17'], GEN + ['ephemeris_dt', 'ephemeris_nu', 'ephemeris_nudot', 'ephemeris_met_to_phase', 'ephemeris_fold'])
    corr_gen.run(chk, GEN, n=200 if chk.tier == 'quick' else 3000, tag='C17', rtol=1e-10, atol=1e-12)
    explore(chk)
    return chk.finish(level='proof', trusted=TRUSTED, search=lambda k: explore(chk, 3))


def replay(body):
    r = body['replay']
    if r.get('oracle') in ORACLES:
        ok, obs = ORACLES[r['oracle']](r['args'])
        out('oracle %s on the recorded input: %s %s' % (r['oracle'], 'holds' if ok else 'FAILS', obs))
        return 0 if ok else 1
    import sys
    import common
    return common.replay_rerun(sys.modules[__name__], body)
