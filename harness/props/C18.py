"""C18 — GTI algebra, timeline-derived GTIs and binned exposures are exact (DESIGN.md section 7, C18)."""
import os
import numpy

from common import out, rng, Driver, scratch

TICK = 2.0 ** -20
TRUSTED = ['Lean 4.33 kernel (core only)', 'axioms ⊆ {propext, Quot.sound}',
           'hand-written models (Gti.*) tied by exact correspondence on dyadic times',
           'timelines are built from synthetic epoch boundaries (object.__new__ + _calculate_epochs): the trajectory/ephemeris layer that finds the SAA and '
           'occultation boundaries is outside the model', 'numpy.searchsorted semantics', 'astropy FITS I/O for the LC EXPOSURE column']


def gen_gtis(g, nmax=6):
    n = int(g.integers(1, nmax + 1))
    t = int(g.integers(0, 2 ** 26)) * 2 ** 12
    s0 = t - int(g.integers(0, 3)) * 2 ** 15
    gtis = []
    for _ in range(n):
        t += 0 if g.uniform() < 0.15 else int(g.integers(0, 30)) * 2 ** int(g.integers(8, 20))      # abutting intervals (stop = next start) are legal
        length = int(g.integers(1, 60)) * 2 ** int(g.integers(8, 20))
        gtis.append((t, t + length))
        t += length
    stop = t + int(g.integers(0, 3)) * 2 ** 15
    return s0, stop, gtis


def gen_times(g, s0, stop, gtis, k):
    ts = [int(x) for x in g.integers(s0 - 10, stop + 10, k)]
    for a, b in gtis:                      # exactly on and next to every bound
        if g.uniform() < 0.5:
            ts += [a, b, a - 1, b + 1, a + 1, b - 1][:int(g.integers(1, 7))]
    g.shuffle(ts)
    return ts


# ------------------------------------------------------------------ xGTIList
def c_filter(chk, g, drv, jobs):
    from ixpeobssim.evt.gti import xGTIList
    s0, stop, gtis = gen_gtis(g)
    ts = gen_times(g, s0, stop, gtis, int(g.integers(0, 60)))
    r = g.uniform()
    if r < 0.2 and len(gtis) >= 2:
        # the list need not be in chronological order (a list assembled from several sources): filtering is membership in *some* interval
        gtis = [gtis[i] for i in g.permutation(len(gtis))]
    elif r < 0.35 and len(gtis) >= 1:
        # nor need its intervals be disjoint: one nested in another, or two overlapping
        a, b = gtis[int(g.integers(0, len(gtis)))]
        if b - a >= 4:
            gtis = gtis + [(a + (b - a) // 4, b - (b - a) // 4)] if g.uniform() < 0.5 else gtis + [(a + (b - a) // 2, min(stop, b + (b - a) // 2))]
    if r > 0.85:
        # a long observation whose good time misses the span by a hair (a gap of microseconds to milliseconds in hours): times in the gap are out
        s0 = int(g.integers(0, 2 ** 26)) * 2 ** 12
        span = int(g.integers(2 ** 30, 2 ** 34))
        cut = s0 + int(g.integers(span // 8, 7 * span // 8))
        gap = int(g.integers(2, 2 ** 10))
        stop = s0 + span
        gtis = [(s0, cut), (cut + gap, stop)]
        ts = [cut, cut + gap, cut + 1, cut + gap - 1, cut + gap // 2] + [int(x) for x in g.integers(s0, stop, 12)]
    gl = xGTIList(s0 * TICK, stop * TICK, *[(a * TICK, b * TICK) for a, b in gtis])
    arr = numpy.array(ts, dtype=float) * TICK
    kept, mask = gl.filter_event_times(arr)
    impl = [int(x) for x in mask]
    # the statement on the implementation: kept exactly the times inside some closed interval, order preserved
    exp = [int(any(a <= t <= b for a, b in gtis)) for t in ts]
    desc = dict(op='filter_event_times', gtis=gtis, times=ts[:12], n_times=len(ts))
    chk.case(desc, nontrivial=len(gtis) >= 2 and 0 < sum(exp) < len(ts))
    if impl != exp or list(kept) != [t * TICK for t, m in zip(ts, exp) if m]:
        chk.fail('impl', 'filter_event_times keeps %s, the closed-interval membership gives %s (gtis %s, times %s)' % (impl, exp, gtis, ts),
                 dict(oracle='filter', args=dict(s0=s0, stop=stop, gtis=gtis, times=ts), observed=impl, expected=exp))
    drv.ask('gtifilter %d %s %d %s' % (2 * len(gtis), ' '.join('%d %d' % x for x in gtis), len(ts), ' '.join(map(str, ts))))
    jobs.append(('filter', dict(s0=s0, stop=stop, gtis=gtis, times=ts), impl))


def c_complement(chk, g, drv, jobs):
    from ixpeobssim.evt.gti import xGTIList
    s0, stop, gtis = gen_gtis(g)
    gl = xGTIList(s0 * TICK, stop * TICK, *[(a * TICK, b * TICK) for a, b in gtis])
    comp = gl.complement()
    tot = gl.total_good_time()
    impl = [round(tot / TICK)] + [round(x / TICK) for iv in comp for x in iv]
    chk.case(dict(op='complement', gtis=gtis), nontrivial=len(gtis) >= 2)
    # the statement: the list and its complement tile [first start, last stop]
    tiles = sum(b - a for a, b in gtis) + sum(round((b - a) / TICK) for a, b in comp) == gtis[-1][1] - gtis[0][0]
    if not tiles or impl[0] != sum(b - a for a, b in gtis):
        chk.fail('impl', 'GTIs %s and complement %s do not tile the span / total good time %s' % (gtis, comp, tot),
                 dict(oracle='complement', args=dict(s0=s0, stop=stop, gtis=gtis), observed=impl))
    drv.ask('complement %d %s' % (2 * len(gtis), ' '.join('%d %d' % x for x in gtis)))
    jobs.append(('complement', dict(s0=s0, stop=stop, gtis=gtis), impl))


# ------------------------------------------------------------------ timelines
def gen_timeline(g):
    n = int(g.integers(2, 12))
    cuts = set(int(x) * 2 ** 12 for x in g.integers(1, 2 ** 16, n))
    if g.uniform() < 0.4:
        # two transitions a fraction of a millisecond apart (the satellite leaves the SAA as the target sets): a legitimate, if short, epoch
        for c in list(g.choice(sorted(cuts), int(g.integers(1, 3)))):
            cuts.add(int(c) + 2 * int(g.integers(1, 500)))
    cuts = sorted(cuts)
    start, stop = cuts[0], cuts[-1]
    inner = cuts[1:-1]
    saa, occ = [], []
    for c in inner:
        r = g.uniform()
        if r < 0.4:
            saa.append(c)
        elif r < 0.8:
            occ.append(c)
        else:
            saa.append(c)
            occ.append(c)
    # boundary lists may also begin before the start (observation starting inside the SAA): an odd number of leading marks
    if g.uniform() < 0.3:
        saa = [start - 2 ** 12] + saa
    if g.uniform() < 0.3:
        occ = [start - 2 ** 13] + occ
    return dict(mets=cuts, saa=saa, occ=occ)


def make_timeline(tl):
    from ixpeobssim.instrument.traj import xObservationTimeline
    obj = object.__new__(xObservationTimeline)
    obj.start_met, obj.stop_met = tl['mets'][0] * TICK, tl['mets'][-1] * TICK
    f = lambda l: numpy.array(l, dtype=float) * TICK
    obj.epochs = xObservationTimeline._calculate_epochs(f(tl['mets']), f(tl['saa']), f(tl['occ']))
    return obj


def spec_lists(tl, md, pa, pb):
    """The statement, independently: epochs neither in SAA nor occulted (resp. occulted and not in SAA), shrunk, kept iff longer."""
    def inside(bounds, t2):
        return sum(1 for b in bounds if 2 * b < t2) % 2 == 1
    gti, octi = [], []
    for a, b in zip(tl['mets'][:-1], tl['mets'][1:]):
        s, o = inside(tl['saa'], a + b), inside(tl['occ'], a + b)
        if b - a > md + pa + pb:
            if not s and not o:
                gti.append((a + pa, b - pb))
            if o and not s:
                octi.append((a + pa, b - pb))
    return gti, octi


def c_timeline(chk, g, drv, jobs):
    tl = gen_timeline(g)
    obj = make_timeline(tl)
    # a *history* of queries on the same object: results must not depend on earlier queries
    nq = int(g.integers(2, 6))
    for q in range(nq):
        md = int(g.choice([0, 0, 2 ** 12, 5 * 2 ** 12, 2 ** 16]))
        pa = int(g.choice([0, 2 ** 10, 3 * 2 ** 11, 2 ** 13]))
        pb = int(g.choice([0, 2 ** 10, 2 ** 12, 5 * 2 ** 11]))
        if q % 2 == 1 and len(tl['mets']) >= 2:
            # threshold-directed query: the minimum duration is placed on (or one tick around) duration − paddings of one of the epochs, so
            # that "longer than the minimum *plus* the paddings" is decided at its boundary (with zero and non-zero paddings)
            k = int(g.integers(0, len(tl['mets']) - 1))
            dur = tl['mets'][k + 1] - tl['mets'][k]
            if dur - pa - pb > 2:
                md = dur - pa - pb + int(g.choice([-1, 0, 0, 1]))
        try:
            gl = obj.gti_list(md * TICK, pa * TICK, pb * TICK)
            ol = obj.octi_list(md * TICK, pa * TICK, pb * TICK)
            flags = [[int(e.in_saa), int(e.occulted)] for e in obj.epochs]
            impl = [len(gl)] + [round(x / TICK) for iv in gl for x in iv] + [round(x / TICK) for iv in ol for x in iv] + \
                   [len(flags)] + [x for f in flags for x in f]
            err = None
        except BaseException as e:
            impl, err = None, '%s: %s' % (type(e).__name__, e)
        args = dict(timeline=tl, query=[md, pa, pb], query_index=q)
        both = any(tl['saa']) and any(tl['occ'])
        chk.case(dict(op='timeline', **args), nontrivial=len(tl['mets']) >= 4 and both and (pa or pb))
        eg, eo = spec_lists(tl, md, pa, pb)
        exp_head = [len(eg)] + [x for iv in eg for x in iv] + [x for iv in eo for x in iv]
        if err is not None:
            # a GTI shrunk beyond the observation bounds trips xGTIList's own assert only if the padding is negative: never here
            chk.fail('impl', 'gti_list/octi_list raised %s on %s' % (err, args), dict(oracle='timeline', args=args, error=err))
            continue
        if impl[:len(exp_head)] != exp_head or len(impl) != len(exp_head) + 1 + 2 * (len(tl['mets']) - 1):
            chk.fail('impl', 'timeline query #%d (min %d, pads %d/%d): gti+octi %s, the statement gives %s (timeline %s)' % (
                q, md, pa, pb, impl[:len(exp_head)], exp_head, tl), dict(oracle='timeline', args=args, observed=impl, expected=exp_head))
        drv.ask('timeline %d %d %d %d %s %d %s %d %s' % (md, pa, pb, len(tl['mets']), ' '.join(map(str, tl['mets'])),
                                                       len(tl['saa']), ' '.join(map(str, tl['saa'])), len(tl['occ']), ' '.join(map(str, tl['occ']))))
        jobs.append(('timeline', args, impl))


def c_trajectory(chk, g, drv, jobs, whole=None):
    """`whole` = 'occ' | 'saa': the observation window lies wholly inside one occultation / one SAA passage (no transition at all inside it: the
    search returns the whole window, the timeline has a single epoch, no GTI, and one calibration interval iff occulted).
    the trajectory layer without the ephemeris: the real `xObservationTimeline` → `timeline_mets` → `_generic_binary_search` driven by a
    trajectory whose SAA / occultation status is a known set of intervals (whole seconds, every interval and gap longer than the 100 s search
    grid); the observation window starts and stops inside or outside an epoch of either kind, in every combination"""
    from ixpeobssim.instrument import traj
    T0 = 150000000 + int(g.integers(0, 10 ** 6))
    def intervals(period, length, phase):
        return [(T0 + k * period + phase, T0 + k * period + phase + length) for k in range(-2, 8)]
    occ = intervals(int(g.integers(4000, 6000)), int(g.integers(800, 2500)) if whole != 'occ' else int(g.integers(1600, 2500)), int(g.integers(0, 3000)))
    saa = sorted((T0 + int(a), T0 + int(a) + (int(g.integers(400, 1200)) if whole != 'saa' else int(g.integers(1600, 2200))))
                 for a in g.choice(numpy.arange(0, 30000, 2500), 3, replace=False) + g.integers(0, 800))
    def inside(met, ivs):
        met = numpy.asarray(met, dtype=float)
        m = numpy.zeros(met.shape, dtype=bool)
        for lo, hi in ivs:
            m |= (met >= lo) & (met < hi)
        return m

    class Stub(traj.xIXPETrajectory):
        def __init__(self, *a, **k):
            pass
        def __del__(self):
            pass
        def in_saa(self, met):
            return inside(met, saa)
        def target_occulted(self, met, *a, **k):
            return inside(met, occ)

    def pick(kind):           # a window bound: inside an occultation, inside an SAA passage, or in the clear (never within 150 s of a transition)
        for _ in range(200):
            if kind == 'occ':
                lo, hi = occ[int(g.integers(2, 7))]
            elif kind == 'saa':
                lo, hi = saa[int(g.integers(0, len(saa)))]
            else:
                lo, hi = T0, T0 + 30000
            t = int(g.integers(lo + 150, max(lo + 151, hi - 150)))
            marks = [x for iv in occ + saa for x in iv]
            st = (bool(inside(t, occ)), bool(inside(t, saa)))
            if min(abs(t - x) for x in marks) >= 150 and st == dict(occ=(True, False), saa=(False, True), clear=(False, False))[kind]:
                return t
        return None
    k0, k1 = str(g.choice(['occ', 'saa', 'clear'])), str(g.choice(['occ', 'saa', 'clear']))
    a, b = pick(k0), pick(k1)
    if whole is not None:
        k0 = k1 = whole
        marks = [x for iv in occ + saa for x in iv]
        cands = [(lo, hi) for lo, hi in (occ[2:7] if whole == 'occ' else saa)
                 if not any(lo - 150 < x < hi + 150 for x in marks if x not in (lo, hi)) and hi - lo >= 1500]
        if not cands:
            return
        lo, hi = cands[int(g.integers(0, len(cands)))]
        a = int(g.integers(lo + 150, lo + 200))
        b = int(g.integers(hi - 200, hi - 150))
    if a is None or b is None or a == b:
        return
    start, stop = min(a, b), max(a, b)
    if stop - start < 1000:
        return
    use_saa, use_occ = bool(g.uniform() < 0.8), bool(g.uniform() < 0.9)
    args = dict(start=start, stop=stop, occ=[list(x) for x in occ], saa=[list(x) for x in saa], use_saa=use_saa, use_occ=use_occ, bounds=[k0, k1])
    orig = traj.xIXPETrajectory
    traj.xIXPETrajectory = Stub
    try:
        tl = traj.xObservationTimeline(float(start), float(stop), 45., 45., use_saa, use_occ)
        gl = [tuple(x) for x in tl.gti_list()]
        ol = [tuple(x) for x in tl.octi_list()]
        raw = {name: numpy.ravel(Stub()._generic_binary_search(float(start), float(stop), fn)) for name, fn in
               (('saa', lambda m: inside(m, saa)), ('occ', lambda m: inside(m, occ)))}
    except BaseException as e:
        chk.case(dict(op='trajectory', **args), nontrivial=True)
        chk.fail('impl', 'xObservationTimeline on a stub trajectory raised %s: %s (%s)' % (type(e).__name__, e, args), dict(oracle='trajectory', args=args, error=str(e)))
        return
    finally:
        traj.xIXPETrajectory = orig
    # the statement, brute force
    bounds = sorted({start, stop} | {t for iv in (saa if use_saa else []) + (occ if use_occ else []) for t in iv if start < t < stop})
    eg, eo = [], []
    for lo, hi in zip(bounds[:-1], bounds[1:]):
        mid = 0.5 * (lo + hi)
        s_, o_ = bool(use_saa and inside(mid, saa)), bool(use_occ and inside(mid, occ))
        if not s_ and not o_:
            eg.append((lo, hi))
        if o_ and not s_:
            eo.append((lo, hi))
    same = lambda x, y: len(x) == len(y) and all(abs(p - q) < 0.01 for u, v in zip(x, y) for p, q in zip(u, v))
    chk.case(dict(op='trajectory', start=start - T0, stop=stop - T0, bounds=[k0, k1], use_saa=use_saa, use_occ=use_occ, n_gti=len(eg)),
             nontrivial=(k0 != 'clear' or k1 != 'clear') and len(bounds) > 3)
    if not same(gl, eg) or not same(ol, eo):
        fmt = lambda l: [(round(u - T0, 3), round(v - T0, 3)) for u, v in l]
        chk.fail('impl', 'timeline from a trajectory with known SAA/occultation intervals, window starting in %s and ending in %s (saa=%s, occult=%s): GTIs %s, the '
                 'epochs neither in the SAA nor occulted are %s; calibration intervals %s, expected %s (times relative to %d)' % (
                     k0, k1, use_saa, use_occ, fmt(gl), fmt(eg), fmt(ol), fmt(eo), T0), dict(oracle='trajectory', args=args))
    # the closing step against the model: the located transitions are the true ones (to the search precision), the ends are the model's
    for name, ivs in (('saa', saa), ('occ', occ)):
        ts = sorted(t for iv in ivs for t in iv if start < t < stop)
        s0 = bool(inside(start, ivs))
        impl = [int(round(x)) for x in raw[name]]
        if any(abs(x - round(x)) > 0.002 for x in raw[name]):
            chk.fail('impl', '_generic_binary_search: transitions %s are not within the search precision of the true ones %s' % (list(raw[name]), ts), dict(oracle='trajectory', args=args))
        drv.ask('closeends %d %d %d %d %s' % (start, stop, int(s0), len(ts), ' '.join(map(str, ts))))
        jobs.append(('closeends', dict(start=start, stop=stop, s0=s0, ts=ts, kind=name), impl))


def app_timeline(chk, g):
    """the application layer: `bin/xpobssim._build_timeline` parses the six padding / minimum-duration options and forwards them to the
    timeline; with a synthetic timeline in place of the ephemeris-based one, the GTI list and the calibration intervals it returns are the
    statement's, for asymmetric paddings too"""
    from unittest import mock
    from ixpeobssim.bin import xpobssim as app
    for k in range(4 if chk.tier == 'quick' else 40):
        tl = gen_timeline(g)
        obj = make_timeline(tl)
        md, pa, pb = (int(g.choice([0, 2 ** 12, 2 ** 16])), int(g.choice([0, 2 ** 10, 3 * 2 ** 11])), int(g.choice([0, 2 ** 12, 5 * 2 ** 11])))
        cmd, ca, cb = (int(g.choice([0, 2 ** 12, 2 ** 15])), int(g.choice([2 ** 10, 2 ** 13, 3 * 2 ** 11])), int(g.choice([0, 2 ** 9, 2 ** 12])))
        argv = ['--configfile', 'x.py', '--gtiminduration', repr(md * TICK), '--gtistartpad', repr(pa * TICK), '--gtistoppad', repr(pb * TICK),
                '--onorbitcalib', 'True', '--onorbitcalminduration', repr(cmd * TICK), '--onorbitcalstartpad', repr(ca * TICK), '--onorbitcalstoppad', repr(cb * TICK)]
        kwargs = app.PARSER.parse_args(argv).__dict__
        kwargs.update(start_met=obj.start_met, stop_met=obj.stop_met)
        roi = type('R', (), dict(ra=30., dec=45.))()
        with mock.patch.object(app, 'xObservationTimeline', lambda *a, **k: obj):
            _, gl, pattern = app._build_timeline(roi, **kwargs)
        got_g = [(round(a / TICK), round(b / TICK)) for a, b in gl]
        got_o = sorted((round(r.start_met / TICK), round(r.stop_met / TICK)) for du in (1, 2, 3) for r in pattern[du])
        eg, _ = spec_lists(tl, md, pa, pb)
        _, eo = spec_lists(tl, cmd, ca, cb)
        args = dict(timeline=tl, gti=[md, pa, pb], octi=[cmd, ca, cb])
        chk.case(dict(op='xpobssim._build_timeline', **args), nontrivial=bool(eo) and ca != cb)
        if got_g != eg or got_o != sorted(eo):
            chk.fail('impl', 'xpobssim._build_timeline with GTI options (min, start pad, stop pad) = %s and calibration options %s: GTIs %s, calibration intervals %s; '
                     'the statement gives %s and %s' % ([md, pa, pb], [cmd, ca, cb], got_g, got_o, eg, sorted(eo)), dict(oracle='app-timeline', args=args))


# ------------------------------------------------------------------ light-curve exposure
def c_bingti(chk, g, drv, jobs):
    from ixpeobssim.binning.misc import xEventBinningLC
    s0, stop, gtis = gen_gtis(g, 6)
    for _ in range(4):
        mode = g.uniform()
        if mode < 0.4:      # random bin
            a, b = sorted(int(x) for x in g.integers(s0 - 2 ** 14, stop + 2 ** 14, 2))
        elif mode < 0.8:    # bin edges exactly on GTI bounds
            pts = sorted(set([x for iv in gtis for x in iv] + [s0, stop]))
            a, b = sorted(int(x) for x in g.choice(pts, 2))
        else:               # a bin straddling a whole gap: starts strictly inside one GTI, reaches past the start of the next
            i = int(g.integers(0, len(gtis)))
            j = min(len(gtis) - 1, i + int(g.integers(1, 3)))
            a = int(g.integers(gtis[i][0], gtis[i][1] + 1))
            b = int(g.integers(gtis[j][0], gtis[j][1] + 2 ** 10))
        if a >= b:
            b = a + 2 ** 10
        starts = numpy.array([x[0] for x in gtis], dtype=float) * TICK
        stops = numpy.array([x[1] for x in gtis], dtype=float) * TICK
        dt = xEventBinningLC._bin_gti(None, a * TICK, b * TICK, starts, stops)
        impl = [round(dt / TICK)]
        exp = sum(max(0, min(b, y) - max(a, x)) for x, y in gtis)
        args = dict(emin=a, emax=b, gtis=gtis)
        nover = sum(1 for x, y in gtis if min(b, y) - max(a, x) > 0)
        chk.case(dict(op='_bin_gti', **args), nontrivial=nover >= 2)
        if impl[0] != exp or abs(dt / TICK - exp) > 1e-6:
            chk.fail('impl', '_bin_gti(%d, %d) = %s ticks, the overlap with the GTIs %s is %d' % (a, b, dt / TICK, gtis, exp),
                     dict(oracle='bingti', args=args, observed=dt / TICK, expected=exp))
        drv.ask('bingti %d %d %d %s' % (a, b, 2 * len(gtis), ' '.join('%d %d' % x for x in gtis)))
        jobs.append(('bingti', args, impl))


def lc_file(chk, g):
    """EXPOSURE column of an LC written by the real xpbin on a synthetic multi-GTI file = overlap × DEADC."""
    import evfile
    from astropy.io import fits
    from ixpeobssim.bin.xpbin import xpbin, PARSER
    gtis = [(0., 300.), (500., 900.), (1000., 1400.), (1700., 2000.)]
    times = numpy.sort(numpy.concatenate([g.uniform(a, b, 40) for a, b in gtis]))
    with scratch() as d:
        path = os.path.join(d, 'ev.fits')
        evfile.write_event_file(path, times, gtis=gtis, tstart=0., tstop=2000., deadtime=0.001)
        # the default range (TSTART..TSTOP) and explicit ranges whose ends fall strictly inside a GTI, in a gap, or on a GTI bound
        ranges = [(None, None), (150., 1850.), (None, 700.), (400., None), (500., 1400.), (1100., 1300.)]
        if chk.tier != 'quick':
            ranges += [tuple(sorted(float(x) for x in g.uniform(0., 2000., 2))) for _ in range(10)]
        confs = [(tb, r) for tb in ([200, 5, 3] if chk.tier == 'quick' else [200, 50, 20, 8, 5, 3, 2, 1]) for r in (ranges if tb <= 5 else ranges[:1])]
        for tbins, (tmin, tmax) in confs:
            extra = ([] if tmin is None else ['--tmin', repr(tmin)]) + ([] if tmax is None else ['--tmax', repr(tmax)])
            o = xpbin(**PARSER.parse_args([path, '--overwrite', 'True', '--algorithm', 'LC', '--tbins', str(tbins)] + extra).__dict__)[0]
            with fits.open(o) as h:
                tab = h['RATE'].data
                deadc = h[0].header['DEADC']
                t0, dt, expo, counts = (numpy.array(tab[k], dtype=float) for k in ('TIME', 'TIMEDEL', 'EXPOSURE', 'COUNTS'))
            lo, hi = t0 - 0.5 * dt, t0 + 0.5 * dt
            exp = numpy.array([sum(max(0., min(b, y) - max(a, x)) for x, y in gtis) for a, b in zip(lo, hi)]) * deadc
            cexp = numpy.array([((times >= a) & (times < b)).sum() for a, b in zip(lo, hi)], dtype=float)
            cexp[-1] += (times == hi[-1]).sum()
            chk.case(dict(op='xpbin-LC', gtis=gtis, tbins=tbins, tmin=tmin, tmax=tmax), nontrivial=tbins < 20)
            if numpy.abs(expo - exp).max() > 1e-6 * max(1., exp.max()):
                j = int(numpy.argmax(numpy.abs(expo - exp)))
                chk.fail('impl', 'LC (tbins=%d, tmin=%s, tmax=%s) EXPOSURE[%d]=%.6f, overlap × DEADC = %.6f for bin [%.3f, %.3f]' % (tbins, tmin, tmax, j, expo[j], exp[j], lo[j], hi[j]),
                         dict(oracle='lc_file', args=dict(tbins=tbins, gtis=gtis, tmin=tmin, tmax=tmax), observed=float(expo[j]), expected=float(exp[j])))
            if not (counts == cexp).all():
                chk.fail('impl', 'LC (tbins=%d) COUNTS differ from the events in each bin' % tbins, dict(oracle='lc_file', args=dict(tbins=tbins, gtis=gtis)))
        # a two-step history: a time selection that rewrites ONTIME / LIVETIME / DEADC (the GTI extension is copied as it is), then the light
        # curve of the selected file: EXPOSURE is still overlap with the GTIs × the DEADC the file declares
        from ixpeobssim.bin.xpselect import xpselect as xsel, PARSER as SPARSER
        for (tmin, tmax) in ((350., 1500.), (None, 950.)):
            extra = ([] if tmin is None else ['--tmin', repr(tmin)]) + ([] if tmax is None else ['--tmax', repr(tmax)])
            sel = xsel(**SPARSER.parse_args([path, '--overwrite', 'True', '--ltimeupdate', 'True', '--suffix', 's%d' % int(tmax)] + extra).__dict__)[0]
            o = xpbin(**PARSER.parse_args([sel, '--overwrite', 'True', '--algorithm', 'LC', '--tbins', '6']).__dict__)[0]
            with fits.open(o) as h, fits.open(sel) as hs:
                tab = h['RATE'].data
                deadc = hs[0].header['DEADC']
                sg = [(float(x), float(y)) for x, y in zip(hs['GTI'].data['START'], hs['GTI'].data['STOP'])]
                t0, dt, expo = (numpy.array(tab[k], dtype=float) for k in ('TIME', 'TIMEDEL', 'EXPOSURE'))
            lo, hi = t0 - 0.5 * dt, t0 + 0.5 * dt
            exp = numpy.array([sum(max(0., min(b, y) - max(a, x)) for x, y in sg) for a, b in zip(lo, hi)]) * deadc
            chk.case(dict(op='xpselect-then-LC', tmin=tmin, tmax=tmax, deadc=deadc), nontrivial=True)
            if numpy.abs(expo - exp).max() > 1e-6 * max(1., exp.max()):
                j = int(numpy.argmax(numpy.abs(expo - exp)))
                chk.fail('impl', 'LC of a file selected with tmin=%s tmax=%s (--ltimeupdate): EXPOSURE[%d]=%.6f, overlap × DEADC (%.6f) = %.6f' % (tmin, tmax, j, expo[j], deadc, exp[j]),
                         dict(oracle='lc_after_select', args=dict(tmin=tmin, tmax=tmax)))


GENS = dict(filter=c_filter, complement=c_complement, timeline=c_timeline, bingti=c_bingti)


def run_cases(chk, n, tagname, budget=1):
    g = rng(tagname)
    drv = Driver()
    jobs = []
    for i in range(n * budget):
        for name in ('filter', 'complement', 'timeline', 'bingti'):
            GENS[name](chk, g, drv, jobs)
        if i % 2 == 0:
            c_trajectory(chk, g, drv, jobs)
            if i % 8 == 0:
                c_trajectory(chk, g, drv, jobs, whole='occ' if i % 16 == 0 else 'saa')
    replies = drv.run()
    for (name, args, impl), rep in zip(jobs, replies):
        model = [int(x) for x in rep.split()] if rep.strip() else []
        if model != impl:
            chk.fail('correspondence', '%s: model %s vs implementation %s on %s' % (name, model[:20], impl[:20], args),
                     dict(op=name, args=args, model=model, impl=impl))


def main(chk):
    chk.rule = ('exact comparison (dyadic times) of xGTIList.filter_event_times/complement/total_good_time, of gti_list/octi_list on synthetic timelines '
                '(random interleavings of SAA/occultation boundaries, several paddings and minimum durations, 1–4 successive queries on the same timeline object) '
                'the trajectory layer (real xObservationTimeline/_generic_binary_search on a stub trajectory with known SAA and occultation intervals, windows starting and ending inside or outside an epoch) and of _bin_gti (random bins, bins with edges on GTI bounds, bins straddling a gap) with the Lean models and with the statement transcribed '
                'independently; LC EXPOSURE through the real xpbin. non-trivial = ≥ 2 GTIs with kept and dropped times / both flags present and non-zero padding / '
                'bin overlapping ≥ 2 GTIs')
    chk.assumptions = TRUSTED
    chk.lean(['IxpeVerif.Props.C18', 'IxpeVerif.Props.Audit.C18'], ['bin_gti', 'filter_event_times', 'total_good_time', 'all_mets', 'gti_complement', 'interval_bounds', 'interval_duration', 'epoch_shrink', 'epoch_isgti', 'epoch_isocti', 'bisect_odd', 'calculate_epochs', 'filter_epochs', 'timeline_gti_list', 'timeline_octi_list'])
    n = 60 if chk.tier == 'quick' else 2000
    run_cases(chk, n, 'C18-corr')
    lc_file(chk, rng('C18-lc'))
    app_timeline(chk, rng('C18-app'))
    return chk.finish(level='proof', trusted=TRUSTED, search=lambda k: run_cases(chk, n, 'C18-search', k))


def replay(body):
    import sys
    import common
    return common.replay_rerun(sys.modules[__name__], body)
