"""C19 — what is written to FITS is what is read back (DESIGN.md section 7, C19)."""
import os
import sys
import datetime
import numpy

from common import out, rng, Driver, scratch, VERIF, seed

TRUSTED = ['Lean 4.33 kernel + Mathlib (Real.sqrt, List lemmas, omega, interval_cases)', 'axioms ⊆ {propext, Classical.choice, Quot.sound}',
           'hand-written models Nd.* (dense arrays, transposed image layout), HistIO.* (save/from_file/copy/arithmetic), Cols.* (tuple unpacking of '
           'xBinTableHDUBase.__init__, integer casts), Cal.* (proleptic Gregorian calendar on integer microseconds) tied by exact correspondence through the real '
           'classes and the files they write (bit patterns of the images, header cards, date strings)',
           'generated tables Gen.Specs (DATA_SPECS / HEADER_KEYWORDS of every HDU class, FITS_TO_NUMPY_TYPE_DICT, constants of utils/time_.py) regenerated on every run',
           'partial: the byte-level FITS encoding is astropy\'s and the float64→float32 rounding is IEEE\'s: both enter the theorems as a parameter r32 with the single '
           'hypothesis r32∘r32 = r32; CPython datetime is modelled (calendar arithmetic), not verified; they are exercised on the real files by the oracle and the correspondence']

SKIP_CARDS = ('DATE', 'CHECKSUM', 'DATASUM', 'EXTEND')     # EXTEND is a structural card astropy manages on write


def ulp(x):
    return float(numpy.spacing(abs(float(x))))


def bits(a):
    return [int(x) for x in numpy.ascontiguousarray(numpy.asarray(a, dtype='<f8')).view('<u8').ravel()]


def same_array(a, b):
    a, b = numpy.asarray(a), numpy.asarray(b)
    if a.shape != b.shape:
        return False
    if a.dtype.kind in 'fc' and b.dtype.kind in 'fc':
        return bool(numpy.array_equal(a, b, equal_nan=True))
    return bool(numpy.array_equal(a, b))


# ------------------------------------------------------------------------------------------------ histograms
LABELS = ['', 'Energy [keV]', 'x', 'Entries/bin', 'Time [s]', 'phi (rad)', 'a b  c', 'PI channel', 'Counts / s / cm$^2$']


def random_hist(g, ndim):
    from ixpeobssim.core.hist import xHistogram1d, xHistogram2d, xHistogram3d
    cls = {1: xHistogram1d, 2: xHistogram2d, 3: xHistogram3d}[ndim]
    sizes = [int(x) for x in g.choice(numpy.arange(1, 7), ndim, replace=False)]     # all different …
    if ndim == 3 and g.uniform() < 0.4:                                             # … or two equal axes (a swap of equal-length axes is silent)
        i, j = g.choice(3, 2, replace=False)
        sizes[int(i)] = sizes[int(j)]
    edges = []
    for n in sizes:
        lo = float(g.uniform(-50., 50.))
        steps = g.uniform(0.01, 3., n + 1)
        edges.append(lo + numpy.cumsum(steps))
    labels = [str(x) for x in g.choice(LABELS, ndim + 1)]
    h = cls(*edges, *labels)
    return cls, h, sizes, edges, labels


def fill_random(g, h, edges, n=None):
    n = int(g.integers(5, 200)) if n is None else n
    data = [g.uniform(e[0] - 0.5, e[-1] + 0.5, n) for e in edges]
    mode = int(g.integers(0, 6))
    if mode == 4:
        # weights that average to one in every bin: the same points twice, with weights 0.5 and 1.5 (content = entries, errors differ)
        h.fill(*data, weights=0.5)
        h.fill(*data, weights=1.5)
        return 'unit-mean weights'
    if mode == 5:
        # contents set programmatically with explicit (non-Poisson) errors: content = entries
        counts = g.integers(0, 50, h.shape).astype(float)
        h.set_content(counts, counts.copy(), errors=g.uniform(0.1, 3., h.shape) * (counts > 0))
        return 'set_content with errors'
    if mode == 0:
        h.fill(*data)
        return 'unweighted'
    if mode == 1:
        h.fill(*data, weights=g.uniform(0.1, 3., n))
        return 'weighted'
    if mode == 2:
        h.fill(*data, weights=g.normal(0., 2., n))
        return 'signed weights'
    h.fill(*data, weights=float(g.uniform(0.2, 5.)))
    return 'constant weight'


def snapshot(h):
    return dict(content=h.content.copy(), entries=h.entries.copy(), sumw2=h.sumw2.copy(), errors=h.errors().copy(),
                binning=[numpy.array(b, dtype=float) for b in h.binning], labels=list(h.labels))


def hist_diff(a, b, exact_sumw2=True, f32_binning=False):
    """first difference between two snapshots (None when equal)"""
    for k in ('content', 'entries', 'errors'):
        if not same_array(a[k], b[k]):
            return '%s differ (shape %s vs %s, max |Δ| %s)' % (k, a[k].shape, b[k].shape,
                                                              float(numpy.abs(a[k] - b[k]).max()) if a[k].shape == b[k].shape else 'n/a')
    if exact_sumw2:
        if not same_array(a['sumw2'], b['sumw2']):
            return 'sumw2 differ'
    elif a['sumw2'].shape != b['sumw2'].shape or not numpy.allclose(a['sumw2'], b['sumw2'], rtol=5e-16, atol=0.):
        return 'sumw2 differ by more than 2 ulp'
    if len(a['binning']) != len(b['binning']):
        return 'number of axes differ'
    for i, (x, y) in enumerate(zip(a['binning'], b['binning'])):
        x = x.astype(numpy.float32).astype(float) if f32_binning else x
        if not same_array(x, y):
            return 'binning of axis %d differ%s' % (i, ' (beyond single precision)' if f32_binning else '')
    if a['labels'] != b['labels']:
        return 'labels differ: %s vs %s' % (a['labels'], b['labels'])
    return None


def hist_case(chk, g, d, drv, jobs, ndim, idx):
    from astropy.io import fits
    cls, h, sizes, edges, labels = random_hist(g, ndim)
    modes = [fill_random(g, h, edges) for _ in range(int(g.integers(1, 4)))]
    ncycles = int(g.integers(2, 5))
    desc = dict(op='hist', ndim=ndim, shape=sizes, fills=modes, cycles=ncycles, labels=labels)
    chk.case(desc, nontrivial=ndim >= 2 and any(m != 'unweighted' for m in modes))
    rep = dict(oracle='hist', ndim=ndim, index=idx)
    ref = snapshot(h)
    # copy
    c = h.copy()
    dif = hist_diff(ref, snapshot(c))
    if dif:
        chk.fail('impl', '%d-d histogram %s (%s): copy() does not preserve the histogram: %s' % (ndim, sizes, modes, dif), rep)
    fill_random(g, c, edges, 50)
    dif = hist_diff(ref, snapshot(h))
    if dif:
        chk.fail('impl', '%d-d histogram %s: filling a copy changed the original: %s' % (ndim, sizes, dif), rep)
    if type(c) is not cls:
        chk.fail('impl', 'copy() of %s is a %s' % (cls.__name__, type(c).__name__), rep)
    # save / load cycles
    path = os.path.join(d, 'h%d_%d.fits' % (ndim, idx))
    h.save(path)
    with fits.open(path) as f:
        missing = [name for name in ['PRIMARY', 'ENTRIES', 'SUMW2'] + ['BINNING%d' % i for i in range(ndim)] if name not in f]
        if missing:
            # the layout on disk is not the one of the model (`HistIO.save`: content, entries, sumw2 images and one table of edges per axis)
            chk.fail('correspondence', '%d-d histogram %s (%s): save() wrote no %s extension' % (ndim, sizes, modes, ', '.join(missing)), rep)
            raw = None
        else:
            raw = {name: numpy.array(f[name].data, dtype=float) for name in ('PRIMARY', 'ENTRIES', 'SUMW2')}
            raw_edges = [numpy.array(f['BINNING%d' % i].data['EDGES']) for i in range(ndim)]
    try:
        k = cls.from_file(path)
    except Exception as e:
        chk.fail('impl', '%d-d histogram %s: from_file fails on the file save() wrote: %s: %s' % (ndim, sizes, type(e).__name__, str(e)[:120]), rep)
        return
    first = snapshot(k)
    dif = hist_diff(ref, first, exact_sumw2=False, f32_binning=True)
    if dif:
        chk.fail('impl', '%d-d histogram of shape %s (%s) saved and loaded: %s' % (ndim, sizes, modes, dif), rep)
    if type(k) is not cls:
        chk.fail('impl', 'from_file of %s gives a %s' % (cls.__name__, type(k).__name__), rep)
    cur = k
    for j in range(ncycles - 1):
        p2 = os.path.join(d, 'h%d_%d_c%d.fits' % (ndim, idx, j))
        cur.save(p2)
        cur = cls.from_file(p2)
        dif = hist_diff(first, snapshot(cur))
        if dif:
            chk.fail('impl', '%d-d histogram %s: cycle %d of save/from_file changed it: %s' % (ndim, sizes, j + 2, dif), rep)
            break
    # slices of a 2-d histogram are histograms of their own (content and entries of the slice, errors as set_content leaves them): same cycle
    if ndim == 2 and hasattr(h, 'hslice'):
        for name, sl in (('hslice', h.hslice(int(g.integers(0, h.shape[1])))), ('vslice', h.vslice(int(g.integers(0, h.shape[0]))))):
            p3 = os.path.join(d, 'h%d_%d_%s.fits' % (ndim, idx, name))
            sl.save(p3)
            dif = hist_diff(snapshot(sl), snapshot(type(sl).from_file(p3)), exact_sumw2=False, f32_binning=True)
            if dif:
                chk.fail('impl', '%s of a 2-d histogram %s (%s) saved and loaded: %s' % (name, sizes, modes, dif), rep)
    # a loaded histogram keeps working: same fill lands in the same bins
    more = [g.uniform(e[0], e[-1], 40) for e in edges]
    a, b = h.copy(), k.copy()
    a.fill(*more)
    b.fill(*more)
    edge_safe = all(numpy.abs(m[:, None] - e[None, :]).min() > 1e-4 for m, e in zip(more, edges))
    if edge_safe and not same_array(a.entries, b.entries):
        chk.fail('impl', '%d-d histogram %s: the loaded histogram bins new data differently from the original' % (ndim, sizes), rep)
    if raw is None:
        return
    # correspondence with the model: image layout, sqrt/square of sumw2, float32 edges
    for name, arr in (('PRIMARY', h.content), ('ENTRIES', h.entries), ('SUMW2', h.sumw2)):
        bb = bits(arr)
        drv.ask('hsave %d %s %d %s' % (ndim, ' '.join(map(str, arr.shape)), len(bb), ' '.join(map(str, bb))))
        jobs.append(('hsave', rep, name, (list(raw[name].shape), bits(raw[name])), sizes))
    rb = bits(raw['SUMW2'])
    drv.ask('hload %d %s %d %s 1' % (ndim, ' '.join(map(str, raw['SUMW2'].shape)), len(rb), ' '.join(map(str, rb))))
    jobs.append(('hload', rep, 'SUMW2', (list(k.sumw2.shape), bits(k.sumw2)), sizes))
    rb = bits(raw['PRIMARY'])
    drv.ask('hload %d %s %d %s 0' % (ndim, ' '.join(map(str, raw['PRIMARY'].shape)), len(rb), ' '.join(map(str, rb))))
    jobs.append(('hload', rep, 'PRIMARY', (list(k.content.shape), bits(k.content)), sizes))
    for i, e in enumerate(edges):
        drv.ask('r32 ' + ' '.join(map(str, bits(e))))
        jobs.append(('r32', rep, 'BINNING%d' % i, bits(raw_edges[i].astype(float)), sizes))


# ------------------------------------------------------------------------------------------------ column specs
def spec_classes():
    sys.path.insert(0, os.path.join(VERIF, 'translator'))
    import gen
    return gen.spec_classes()


def fits_type(fmt):
    from ixpeobssim.core.fitsio import FITS_TO_NUMPY_TYPE_DICT
    return FITS_TO_NUMPY_TYPE_DICT.get(fmt)


def column_data(g, fmt, n, wide=False):
    if fmt in ('E', 'D'):
        return g.normal(0., 1., n) * 10. ** g.integers(-3, 7, n)
    if fmt == 'I':
        return g.integers(-70000 if wide else -32768, 70000 if wide else 32768, n).astype(numpy.int64)
    if fmt == 'J':
        return g.integers(-2 ** 33 if wide else -2 ** 31, 2 ** 33 if wide else 2 ** 31, n).astype(numpy.int64)
    if fmt.startswith('A'):
        return numpy.array([''.join(g.choice(list('abcXYZ 019_'), int(g.integers(1, int(fmt[1:]) + 1)))).strip() or 'x' for _ in range(n)])
    return None


def canon_fmt(f):
    """astropy writes the ASCII-style string format A20 as 20A"""
    return f[1:] + 'A' if isinstance(f, str) and f[:1] == 'A' and f[1:].isdigit() else f


def check_cards(chk, hdu, cls, where, rep):
    """TTYPE/TFORM/TUNIT of a table HDU against the DATA_SPECS the class declares"""
    hd = hdu.header
    specs = list(cls.DATA_SPECS)
    if hd.get('TFIELDS') != len(specs):
        chk.fail('impl', '%s: %d columns written for %d declared by %s.DATA_SPECS' % (where, hd.get('TFIELDS'), len(specs), cls.__name__), rep)
        return
    for i, item in enumerate(specs):
        name, fmt = item[0], item[1]
        units = item[2] if len(item) > 2 else None
        got = (hd.get('TTYPE%d' % (i + 1)), hd.get('TFORM%d' % (i + 1)), hd.get('TUNIT%d' % (i + 1)))
        exp = (name, canon_fmt(fmt), units if units else None)
        if fmt is None:
            exp = (name, got[1], exp[2])
        if got != exp:
            chk.fail('impl', '%s: column %d is written as (name, type, unit) = %s but %s declares %s' % (where, i + 1, got, cls.__name__, exp), rep)
            return
        if len(item) > 3 and not (item[3].startswith(hd.comments['TTYPE%d' % (i + 1)]) and len(hd.comments['TTYPE%d' % (i + 1)]) >= min(len(item[3]), 30)):   # a card is 80 characters
            chk.fail('impl', '%s: the comment of column %s is %r, declared %r' % (where, name, hd.comments['TTYPE%d' % (i + 1)], item[3]), rep)
            return


def column_classes(chk, g, d, drv, jobs):
    from astropy.io import fits
    from ixpeobssim.core.fitsio import read_hdu_list_in_memory
    done, skipped = [], []
    for mn, name, cls, is_table in spec_classes():
        if not is_table:
            continue
        qual = '%s.%s' % (mn.split('.')[-2], name)
        specs = list(cls.DATA_SPECS)
        fmts = [it[1] for it in specs]
        if not specs or any(f is None or column_data(g, f, 1) is None for f in fmts):
            skipped.append(qual)
            continue
        rep = dict(oracle='columns', cls=qual)
        for variant in ('empty', 'data', 'wide-int'):
            n = int(g.integers(3, 12))
            data = None if variant == 'empty' else [column_data(g, f, n, wide=(variant == 'wide-int')) for f in fmts]
            if variant == 'wide-int' and not any(f in 'IJ' for f in fmts):
                continue
            try:
                hdu = cls(30., 45., data) if name == 'xBinTableHDUEvents' else cls(data)
            except Exception as e:
                chk.fail('impl', '%s cannot be built from %s data matching its DATA_SPECS: %s: %s' % (qual, variant, type(e).__name__, str(e)[:100]), rep)
                continue
            path = os.path.join(d, 'col_%s_%s.fits' % (qual, variant))
            fits.HDUList([fits.PrimaryHDU(), hdu]).writeto(path, overwrite=True)
            chk.case(dict(op='columns', cls=qual, variant=variant, n=0 if data is None else n, items=sorted(set(len(it) for it in specs))),
                     nontrivial=variant != 'empty' and len(set(len(it) for it in specs)) >= 1)
            with fits.open(path) as f:
                t = f[1]
                where = '%s (%s)' % (qual, variant)
                check_cards(chk, t, cls, where, rep)
                if cls.NAME is not None and t.header.get('EXTNAME') != cls.NAME:
                    chk.fail('impl', '%s: EXTNAME is %r, declared %r' % (where, t.header.get('EXTNAME'), cls.NAME), rep)
                for item in cls.HEADER_KEYWORDS:
                    if item[0] not in t.header:
                        chk.fail('impl', '%s: declared keyword %s is missing from the header' % (where, item[0]), rep)
                        break
                cards = ';'.join('%s,%s,%s' % (t.header.get('TTYPE%d' % (i + 1)), t.header.get('TFORM%d' % (i + 1)), t.header.get('TUNIT%d' % (i + 1)))
                                 for i in range(t.header['TFIELDS']))
                if variant != 'wide-int':
                    drv.ask('cards %s' % qual)
                    jobs.append(('cards', rep, qual, cards, None))
                if data is None:
                    continue
                for (item, fmt, col) in zip(specs, fmts, data):
                    got = numpy.array(t.data[item[0]])
                    tp = fits_type(fmt)
                    if tp is None:
                        ok = [str(x) for x in got] == [str(x) for x in col]
                        exp = col
                    else:
                        exp = numpy.asarray(col).astype(tp)
                        ok = same_array(got, exp) and (variant == 'wide-int' or numpy.dtype(tp).kind != 'i' or same_array(got, col))
                    if not ok:
                        chk.fail('impl', '%s: column %s (format %s) read back as %s, written %s (expected %s at the declared precision)' % (
                            where, item[0], fmt, list(got[:4]), list(col[:4]), list(exp[:4])), rep)
                        break
                    if fmt == 'E':
                        drv.ask('r32 ' + ' '.join(map(str, bits(col))))
                        jobs.append(('r32', rep, '%s.%s' % (qual, item[0]), bits(got.astype(float)), None))
                    elif fmt in 'IJ':
                        drv.ask('%s %s' % ('castj' if fmt == 'J' else 'casti', ' '.join(str(int(x)) for x in col)))
                        jobs.append(('cast', rep, '%s.%s' % (qual, item[0]), [int(x) for x in got], None))
            # read in memory and write again, twice: the stored tables do not move
            p2, p3 = path.replace('.fits', '_2.fits'), path.replace('.fits', '_3.fits')
            read_hdu_list_in_memory(path).writeto(p2, overwrite=True)
            read_hdu_list_in_memory(p2).writeto(p3, overwrite=True)
            dif = files_diff(path, p2) or files_diff(p2, p3)
            if dif:
                chk.fail('impl', '%s: reading the file in memory and writing it again changes it: %s' % (where, dif), rep)
        done.append(qual)
    chk.extra['column_classes'] = dict(checked=done, skipped_run_time_specs=skipped)


def files_diff(p1, p2, skip=SKIP_CARDS, data_only=False):
    """first difference between two FITS files, HDU by HDU (data bitwise, NaN = NaN; header cards but for the dates and checksums)"""
    from astropy.io import fits
    with fits.open(p1) as a, fits.open(p2) as b:
        if [h.name for h in a] != [h.name for h in b]:
            return 'extensions %s vs %s' % ([h.name for h in a], [h.name for h in b])
        for x, y in zip(a, b):
            if (x.data is None) != (y.data is None):
                return '%s: one file has no data' % x.name
            if x.data is not None:
                if isinstance(x, (fits.BinTableHDU,)):
                    if x.columns.names != y.columns.names:
                        return '%s: columns %s vs %s' % (x.name, x.columns.names, y.columns.names)
                    if [c.format for c in x.columns] != [c.format for c in y.columns] or [c.unit for c in x.columns] != [c.unit for c in y.columns]:
                        return '%s: column formats/units differ' % x.name
                    for n in x.columns.names:
                        if not same_array(numpy.array(x.data[n]), numpy.array(y.data[n])):
                            return '%s: column %s differs' % (x.name, n)
                else:
                    if x.data.dtype != y.data.dtype or not same_array(numpy.array(x.data), numpy.array(y.data)):
                        return '%s: image data differ (dtype %s vs %s)' % (x.name, x.data.dtype, y.data.dtype)
            if not data_only:
                ka = [(c.keyword, c.value) for c in x.header.cards if c.keyword not in skip]
                kb = [(c.keyword, c.value) for c in y.header.cards if c.keyword not in skip]
                if ka != kb:
                    da = [c for c in ka if c not in kb][:3]
                    db = [c for c in kb if c not in ka][:3]
                    return '%s: header cards differ: %s vs %s' % (x.name, da, db)
    return None


# ------------------------------------------------------------------------------------------------ event files
EPOCH = datetime.datetime(2017, 1, 1)


def parse_date(s):
    """independent reading of a DATE-OBS string: seconds since 2017-01-01T00:00:00 UTC"""
    dt = datetime.datetime.strptime(s, '%Y-%m-%dT%H:%M:%S.%f')
    delta = dt - EPOCH
    return delta.days * 86400. + delta.seconds + delta.microseconds * 1e-6


def check_event_file(chk, path, el, meta, drv, jobs, rep):
    from astropy.io import fits
    from ixpeobssim.evt.fmt import xBinTableHDUEvents, xBinTableHDUMonteCarlo, xBinTableHDUGTI, xBinTableHDURoiTable
    from ixpeobssim.evt.event import xEventFile
    from ixpeobssim.utils.time_ import string_to_met_utc
    start, duration, du = meta['start_met'], meta['duration'], meta['du_id']
    stop = start + duration
    with fits.open(path) as f:
        names = [h.name for h in f]
        for need in ('PRIMARY', 'EVENTS', 'MONTE_CARLO', 'GTI', 'ROITABLE'):
            if need not in names:
                chk.fail('impl', 'event file has no %s extension' % need, rep)
                return
        # columns at the declared precision, names / types / units
        for ext, cls in (('EVENTS', xBinTableHDUEvents), ('MONTE_CARLO', xBinTableHDUMonteCarlo), ('GTI', xBinTableHDUGTI), ('ROITABLE', xBinTableHDURoiTable)):
            check_cards(chk, f[ext], cls, 'event file %s' % ext, rep)
        n = len(f['EVENTS'].data)
        for ext, cls in (('EVENTS', xBinTableHDUEvents), ('MONTE_CARLO', xBinTableHDUMonteCarlo)):
            for item in cls.DATA_SPECS:
                name, fmt = item[0], item[1]
                mem = numpy.asarray(el[name]) if n else numpy.array([])
                got = numpy.array(f[ext].data[name])
                tp = fits_type(fmt)
                if len(got) != len(mem):
                    chk.fail('impl', 'event file %s.%s has %d rows, the event list %d' % (ext, name, len(got), len(mem)), rep)
                    return
                if n == 0:
                    continue
                if numpy.dtype(tp).kind == 'f':
                    ok = same_array(got, mem.astype(tp))
                else:
                    inr = numpy.abs(mem) < 2 ** (8 * numpy.dtype(tp).itemsize - 1) - 1
                    ok = bool((numpy.abs(got[inr] - mem[inr]) < 1.).all()) and bool((got[inr][mem[inr] == numpy.round(mem[inr])] == mem[inr][mem[inr] == numpy.round(mem[inr])]).all())
                    if (~inr).any() and not chk.known_class(dict(oracle='event-columns', column=name, overflow=True)):
                        ok = False
                if not ok:
                    j = int(numpy.argmax(got != mem.astype(tp))) if numpy.dtype(tp).kind == 'f' else 0
                    chk.fail('impl', 'event file column %s.%s (format %s): row %d read back as %r, in memory %r' % (ext, name, fmt, j, got[j], mem[j]), rep)
                    return
        # the sky-pixel columns X, Y carry the WCS of *this* file's field (TCRVLn = the ROI centre), whatever was written earlier in the process
        evh = f['EVENTS'].header
        for col, want in (('X', meta['ra']), ('Y', meta['dec'])):
            k = [i for i in range(1, evh['TFIELDS'] + 1) if evh.get('TTYPE%d' % i) == col]
            if not k or abs(float(evh.get('TCRVL%d' % k[0], float('nan'))) - want) > 1e-9:
                chk.fail('impl', 'EVENTS column %s: TCRVL%s = %r, the field centre of this file is %r' % (col, k[0] if k else '?', evh.get('TCRVL%d' % k[0]) if k else None, want), rep)
        # GTI table
        gs, ge = numpy.array(f['GTI'].data['START']), numpy.array(f['GTI'].data['STOP'])
        if not (same_array(gs, numpy.array([a for a, b in meta['gtis']], dtype=float)) and same_array(ge, numpy.array([b for a, b in meta['gtis']], dtype=float))):
            chk.fail('impl', 'GTI extension %s / %s differs from the good time intervals used %s' % (list(gs), list(ge), meta['gtis']), rep)
        ontime = float(sum(b - a for a, b in meta['gtis']))
        live_mem = float(numpy.sum(1.e-6 * numpy.asarray(el['LIVETIME'], dtype=float))) if n else 0.
        for h in f:
            hd = h.header
            w = 'event file %s header' % h.name
            for key in ('TSTART', 'TSTOP', 'TELAPSE', 'DATE-OBS', 'DATE-END', 'DETNAM', 'DET_ID', 'ONTIME', 'LIVETIME', 'DEADC', 'RA_OBJ', 'DEC_OBJ', 'OBJECT',
                        'TELESCOP', 'INSTRUME', 'TIMESYS', 'MJDREFI', 'MJDREFF'):
                if key not in hd:
                    chk.fail('impl', '%s: mandatory keyword %s is missing' % (w, key), rep)
                    return
            if hd['TSTART'] != start or hd['TSTOP'] != stop:
                chk.fail('impl', '%s: TSTART, TSTOP = %r, %r for an observation from %r to %r' % (w, hd['TSTART'], hd['TSTOP'], start, stop), rep)
            if abs((hd['TSTOP'] - hd['TSTART']) - hd['TELAPSE']) > 2. * ulp(hd['TSTOP']) + 1e-9:
                chk.fail('impl', '%s: TELAPSE = %r but TSTOP - TSTART = %r' % (w, hd['TELAPSE'], hd['TSTOP'] - hd['TSTART']), rep)
            for dk, tk in (('DATE-OBS', 'TSTART'), ('DATE-END', 'TSTOP')):
                try:
                    t = parse_date(hd[dk])
                except ValueError:
                    chk.fail('impl', '%s: %s = %r is not a %%Y-%%m-%%dT%%H:%%M:%%S.%%f date' % (w, dk, hd[dk]), rep)
                    continue
                if abs(t - hd[tk]) > 1.e-6 + 2. * ulp(hd[tk] + 1.5e9):
                    chk.fail('impl', '%s: %s = %s is %.6f s after the mission start, %s = %.6f' % (w, dk, hd[dk], t, tk, hd[tk]), rep)
                elif abs(string_to_met_utc(hd[dk]) - hd[tk]) > 1.e-6 + 2. * ulp(hd[tk] + 1.5e9):
                    chk.fail('impl', '%s: string_to_met_utc(%s) = %.6f but %s = %.6f' % (w, hd[dk], string_to_met_utc(hd[dk]), tk, hd[tk]), rep)
            if hd['DETNAM'] != 'DU%d' % du:
                chk.fail('impl', '%s: DETNAM = %r for detector unit %d' % (w, hd['DETNAM'], du), rep)
            if abs(hd['ONTIME'] - ontime) > 1e-9 * max(1., ontime):
                chk.fail('impl', '%s: ONTIME = %r, the good time intervals add up to %r' % (w, hd['ONTIME'], ontime), rep)
            if abs(hd['LIVETIME'] - live_mem) > 1e-9 * max(1., live_mem):
                chk.fail('impl', '%s: LIVETIME = %r, the event live times add up to %r' % (w, hd['LIVETIME'], live_mem), rep)
            if ontime > 0 and abs(hd['DEADC'] * hd['ONTIME'] - hd['LIVETIME']) > 1e-9 * max(1., abs(hd['LIVETIME'])):
                chk.fail('impl', '%s: DEADC * ONTIME = %r, LIVETIME = %r' % (w, hd['DEADC'] * hd['ONTIME'], hd['LIVETIME']), rep)
            if hd['RA_OBJ'] != meta['ra'] or hd['DEC_OBJ'] != meta['dec'] or hd['OBJECT'] != meta['objname']:
                chk.fail('impl', '%s: RA_OBJ, DEC_OBJ, OBJECT = %r, %r, %r, expected %r, %r, %r' % (w, hd['RA_OBJ'], hd['DEC_OBJ'], hd['OBJECT'], meta['ra'], meta['dec'], meta['objname']), rep)
        if f['MONTE_CARLO'].header.get('IRFNAME') != meta['irfname']:
            chk.fail('impl', 'MONTE_CARLO header: IRFNAME = %r, the responses used were %r' % (f['MONTE_CARLO'].header.get('IRFNAME'), meta['irfname']), rep)
        date_obs, date_end = f[0].header['DATE-OBS'], f[0].header['DATE-END']
        cols = {(e, c): numpy.array(f[e].data[c]) for e in ('EVENTS', 'MONTE_CARLO') for c in f[e].columns.names}
    # the model's date strings, for instants that are exact in microseconds
    for t, s in ((start, date_obs), (stop, date_end)):
        us = t * 1e6
        if us == int(us) and (t + 1483228800.) * 64. == int((t + 1483228800.) * 64.):
            drv.ask('date %d' % int(us))
            jobs.append(('date', rep, 'met %r' % t, s, None))
    # the package reader
    ef = xEventFile(path)
    wr = ef.wcs_reference()
    if abs(float(wr[0]) - meta['ra']) > 1e-9 or abs(float(wr[1]) - meta['dec']) > 1e-9:
        chk.fail('impl', 'xEventFile.wcs_reference() = %s for a file written for the field centre (%r, %r)' % ([float(x) for x in wr], meta['ra'], meta['dec']), rep)
    if ef.du_id() != du:
        chk.fail('impl', 'xEventFile.du_id() = %r for a file written for DU %d' % (ef.du_id(), du), rep)
    if ef.irf_name() != meta['irfname']:
        chk.fail('impl', 'xEventFile.irf_name() = %r, written %r' % (ef.irf_name(), meta['irfname']), rep)
    if ef.start_met() != start or ef.stop_met() != stop:
        chk.fail('impl', 'xEventFile start/stop %r, %r, written %r, %r' % (ef.start_met(), ef.stop_met(), start, stop), rep)
    for getter, key, kw in (('time_data', ('EVENTS', 'TIME'), {}), ('energy_data', ('MONTE_CARLO', 'MC_ENERGY'), dict(mc=True)), ('phi_data', ('EVENTS', 'PHI'), {}),
                            ('pi_data', ('EVENTS', 'PI'), {}), ('pi_data', ('MONTE_CARLO', 'MC_PI'), dict(mc=True))):
        try:
            v = numpy.array(getattr(ef, getter)(**kw))
        except Exception:
            continue
        if not same_array(v, cols[key]):
            chk.fail('impl', 'xEventFile.%s() differs from the %s column on disk' % (getter, key[1]), rep)
    # selecting everything and writing again leaves the tables as they are
    p2 = path.replace('.fits', '_all.fits')
    ef.write_fits_selected(numpy.ones(ef.num_events(), dtype=bool), p2, overwrite=True)
    with fits.open(p2) as f2:
        for (e, c), v in cols.items():
            if not same_array(numpy.array(f2[e].data[c]), v):
                chk.fail('impl', 'selecting all the events and writing the file again changes column %s.%s' % (e, c), rep)
                break
        for key in ('TSTART', 'TSTOP', 'TELAPSE', 'DATE-OBS', 'DATE-END', 'DETNAM'):
            if f2[0].header.get(key) != {'TSTART': start, 'TSTOP': stop}.get(key, f2[0].header.get(key)):
                chk.fail('impl', 'rewritten event file: %s = %r' % (key, f2[0].header.get(key)), rep)


def synthetic_event_files(chk, g, d, drv, jobs, n_files):
    import evfile
    irfs = ['ixpe:obssim20240101:v13', 'ixpe:obssim:v12', 'ixpe:obssim20230702_alpha075:v13']
    made = []
    for k in range(n_files):
        n = int(g.choice([0, 1, 5, 300, 2000]))
        start = float(int(g.integers(0, 3 * 10 ** 8)) + int(g.integers(0, 64)) / 64.) if g.uniform() < 0.7 else float(g.uniform(0., 3.e8))
        if k == 0:
            start, n = 0., 300               # a run that starts at the mission reference date exactly (MET 0.0): its products carry TSTART = 0
        # around a leap day / year end now and then
        elif g.uniform() < 0.3:
            day = (datetime.datetime(int(g.choice([2020, 2024, 2023, 2021])), int(g.choice([2, 12])), 28) - EPOCH).days
            start = float(day * 86400 + int(g.integers(0, 4 * 86400)) + int(g.integers(0, 64)) / 64.)
        duration = float(int(g.integers(100, 200000)) + int(g.integers(0, 64)) / 64.) if g.uniform() < 0.7 else float(g.uniform(100., 1.e5))
        stop = start + duration
        ngti = int(g.integers(1, 4))
        cuts = numpy.sort(g.uniform(start, stop, 2 * ngti))
        gtis = [(float(cuts[2 * i]), float(cuts[2 * i + 1])) for i in range(ngti)] if g.uniform() < 0.7 else [(start, stop)]
        du = int(g.integers(1, 4))
        irf = str(g.choice(irfs))
        ra0, dec0 = float(g.uniform(0., 360.)), float(g.uniform(-80., 80.))
        times = numpy.sort(numpy.concatenate([g.uniform(a, b, max(n // len(gtis), 1 if n else 0)) for a, b in gtis])) if n else numpy.array([])
        n = len(times)
        path = os.path.join(d, 'evt_%d.fits' % k)
        cols = dict(pi=g.integers(0, 375, n), phi=g.uniform(-numpy.pi, numpy.pi, n), ra=ra0 + g.normal(0, 0.03, n) / max(numpy.cos(numpy.radians(dec0)), 0.2),
                    dec=dec0 + g.normal(0, 0.03, n), w=g.uniform(0., 1., n), src=g.integers(0, 3, n), detx=g.uniform(-7, 7, n), dety=g.uniform(-7, 7, n),
                    mc_energy=g.uniform(1., 12., n))
        el = evfile.make_event_list(times, ra0=ra0, dec0=dec0, **cols)
        deadtime = float(g.choice([0., 0.00108]))
        tz = [None, 'JST-9', None, 'EST5EDT'][k % 4]
        with (local_timezone(tz) if tz else contextlib.nullcontext()):
            evfile.write_event_list(el, path, gtis, start, stop, nsrc=3, ra0=ra0, dec0=dec0, du_id=du, deadtime=deadtime, irfname=irf)
        meta = dict(start_met=start, duration=duration, du_id=du, irfname=irf, gtis=gtis, ra=ra0, dec=dec0, objname='synthetic')
        desc = dict(op='event-file', events=n, start_met=start, duration=duration, gtis=len(gtis), du=du, irfname=irf, deadtime=deadtime, local_time_zone=tz or 'as the machine')
        chk.case(desc, nontrivial=n > 1 and len(gtis) >= 1)
        check_event_file(chk, path, el, meta, drv, jobs, dict(oracle='event-file', index=k))
        if n > 100:
            made.append((path, meta))
    return made


def simulated_event_file(chk, g, d, drv, jobs):
    """a file written by the simulation proper (xROIModel.rvs_event_list + write_fits)"""
    from unittest import mock
    import simdrive
    from ixpeobssim.evt.event import xEventList
    from ixpeobssim.srcmodel import import_roi
    captured = {}
    orig = xEventList.write_fits

    def spy(self, *a, **kw):
        r = orig(self, *a, **kw)
        captured['el'] = self
        return r
    res = []
    for config in (['toy_point_source.py'] if chk.tier == 'quick' else ['toy_point_source.py', 'toy_periodic_source.py', 'toy_multiple_sources.py']):
        cfg = simdrive.config_path(config)
        start = float(int(g.integers(10 ** 8, 2 * 10 ** 8)) + int(g.integers(0, 64)) / 64.)
        duration = float(int(g.integers(400, 1500)))
        du = int(g.integers(1, 4))
        gtis = [(start, start + 0.45 * duration), (start + 0.5 * duration, start + duration)]
        path = os.path.join(d, 'sim_%s.fits' % config[:-3])
        roi = import_roi(cfg)
        with mock.patch.object(xEventList, 'write_fits', spy):
            simdrive.simulate(cfg, path, gtis=gtis, du_id=du, seed=int(g.integers(1, 10 ** 6)), roi_model=roi, start_met=start, duration=duration, objname='toy')
        kw = simdrive.sim_kwargs(cfg, path, gtis, start_met=start, duration=duration)
        meta = dict(start_met=start, duration=duration, du_id=du, irfname=kw['irfname'], gtis=gtis, ra=roi.ra, dec=roi.dec, objname='toy')
        el = captured['el']
        chk.case(dict(op='simulated-event-file', config=config, events=len(el['TIME']), du=du, start_met=start, duration=duration), nontrivial=True)
        check_event_file(chk, path, el, meta, drv, jobs, dict(oracle='simulated-event-file', config=config))
        res.append((path, meta))
    return res


def known_findings(chk):
    """replay the witnesses of the listed findings"""
    import evfile
    from astropy.io import fits
    for e in chk.findings:
        if e.get('status') != 'known':
            continue
        if e['id'] == 'C19-livetime-int32-overflow':
            w = e['witness']
            with scratch() as d:
                p = os.path.join(d, 'k.fits')
                evfile.write_event_file(p, w['times'], gtis=[tuple(x) for x in w['gtis']], tstart=w['tstart'], tstop=w['tstop'])
                with fits.open(p) as f:
                    col = [int(x) for x in f['EVENTS'].data['LIVETIME']]
            chk.known_finding(e, min(col) < 0 or max(col) < 2.9e9, observed=str(col))


def charging_maps(chk, g, d):
    """the CHRG_MAP extension: what create_charging_map_extension writes for (fast, slow) is what read_charging_map gives back as (fast, slow),
    with the declared columns"""
    from astropy.io import fits
    from ixpeobssim.instrument.charging import create_charging_map_extension, read_charging_map, xBinTableHDUCharging
    for k in range(2 if chk.tier == 'quick' else 10):
        n = int(g.choice([4, 9, 30]))
        fast, slow = g.uniform(0., 0.1, (n, n)), g.uniform(0.2, 0.9, (n, n))
        use_slow = k % 2 == 0
        hdu = create_charging_map_extension(fast, slow if use_slow else None)
        path = os.path.join(d, 'chrg%d.fits' % k)
        fits.HDUList([fits.PrimaryHDU(), hdu]).writeto(path, overwrite=True)
        rf, rs = read_charging_map(path)
        rep = dict(oracle='charging-map', n=n, slow_given=use_slow)
        chk.case(dict(op='charging-map', nside=n, slow_given=use_slow), nontrivial=True)
        with fits.open(path) as f:
            check_cards(chk, f['CHRG_MAP'], xBinTableHDUCharging, 'CHRG_MAP', rep)
        if not same_array(rf, fast) or not same_array(rs, slow if use_slow else numpy.zeros((n, n))):
            what = 'fast and slow maps come back swapped' if same_array(rf, slow if use_slow else numpy.zeros((n, n))) and same_array(rs, fast) else 'maps differ'
            chk.fail('impl', 'charging maps (%d x %d, slow map %s) written with create_charging_map_extension and read with read_charging_map: %s' % (
                n, n, 'given' if use_slow else 'defaulted', what), rep)


# ------------------------------------------------------------------------------------------------ binned products
ALGS = [('PHA1', []), ('PHA1Q', []), ('PHA1U', []), ('PHA1QN', []), ('PHA1UN', []), ('CMAP', ['--npix', 30, '--pixsize', 15.]),
        ('PCUBE', ['--ebins', 3]), ('PMAP', ['--npix', 6, '--pixsize', 60.]), ('PMAPCUBE', ['--npix', 5, '--pixsize', 70., '--ebins', 2]),
        ('MDPMAP', ['--npix', 6, '--pixsize', 60.]), ('MDPMAPCUBE', ['--npix', 5, '--pixsize', 70., '--ebins', 2]), ('LC', ['--tbins', 12]),
        ('ARMAP', []), ('EFLUX', []), ('PP', ['--phasebins', 8]), ('LTCUBE', [])]


def table_class(alg, ext):
    from ixpeobssim.binning import fmt
    if ext == 'SPECTRUM':
        return fmt.xBinTableHDUPHA1
    if ext == 'POLARIZATION':
        return fmt.xBinTableHDUPCUBE
    if ext == 'EBOUNDS':
        return fmt.xBinTableHDUEBOUNDS
    if ext == 'THETA_BOUNDS':
        return fmt.xBinTableHDUTHETABOUNDS
    if ext == 'RATE':
        return fmt.xBinTableHDUPP if alg == 'PP' else fmt.xBinTableHDULC
    return None


def binned_products(chk, g, d, files):
    from astropy.io import fits
    from ixpeobssim.bin.xpbin import xpbin, PARSER
    from ixpeobssim.binning import BINNING_READ_DICT
    from ixpeobssim.evt.fmt import _TIME_HEADER_KEYWORDS
    ran, failed = [], {}
    for path, meta in files:
        with fits.open(path) as f:
            evh = dict(f[0].header)
        for alg, args in ALGS:
            rep = dict(oracle='binned', alg=alg)
            src = path
            if alg == 'PP':                     # needs the PHASE column xpphase adds
                try:
                    from ixpeobssim.bin.xpphase import xpphase, PARSER as PHPARSER
                    src = xpphase(**PHPARSER.parse_args([path, '--met0', repr(meta['start_met']), '--nu0', '0.37', '--nudot0=-1e-9', '--nuddot', '0.']).__dict__)[0]
                    with fits.open(src) as f, fits.open(path) as f0:
                        for c in f0['EVENTS'].columns.names:
                            if not same_array(numpy.array(f['EVENTS'].data[c]), numpy.array(f0['EVENTS'].data[c])):
                                chk.fail('impl', 'xpphase changed column %s of the event file while adding PHASE' % c, rep)
                                break
                except BaseException as e:
                    failed[alg] = 'xpphase: %s: %s' % (type(e).__name__, str(e)[:80])
                    continue
            argv = [src, '--overwrite', 'True', '--algorithm', alg, '--irfname', meta['irfname']] + [str(a) for a in args]
            try:
                p1 = xpbin(**PARSER.parse_args(argv).__dict__)[0]
            except BaseException as e:          # algorithms that need columns / files a bare event list does not have
                failed[alg] = '%s: %s' % (type(e).__name__, str(e)[:80])
                continue
            chk.case(dict(op='binned', alg=alg, events_file=os.path.basename(path), du=meta['du_id']), nontrivial=True)
            ran.append(alg)
            with fits.open(p1) as f:
                hd = f[0].header
                for key in ['TELESCOP', 'INSTRUME', 'DETNAM'] + [k[0] for k in _TIME_HEADER_KEYWORDS]:
                    if key not in hd or hd[key] != evh[key]:
                        chk.fail('impl', '%s product: primary keyword %s = %r, in the event file it is %r' % (alg, key, hd.get(key), evh[key]), rep)
                        break
                if hd.get('BINALG') != alg:
                    chk.fail('impl', '%s product: BINALG = %r' % (alg, hd.get('BINALG')), rep)
                if abs((hd['TSTOP'] - hd['TSTART']) - hd['TELAPSE']) > 2. * ulp(hd['TSTOP']) + 1e-9:
                    chk.fail('impl', '%s product: TELAPSE = %r but TSTOP - TSTART = %r' % (alg, hd['TELAPSE'], hd['TSTOP'] - hd['TSTART']), rep)
                for h in f[1:]:
                    cls = table_class(alg, h.name)
                    if cls is not None and isinstance(h, fits.BinTableHDU):
                        check_cards(chk, h, cls, '%s product, %s extension' % (alg, h.name), rep)
            # read with the package class and write; twice
            cls = BINNING_READ_DICT[alg]
            p2, p3 = p1.replace('.fits', '_rw2.fits'), p1.replace('.fits', '_rw3.fits')
            try:
                obj = cls(p1)
                obj.write(p2, overwrite=True)
                cls(p2).write(p3, overwrite=True)
            except BaseException as e:
                chk.fail('impl', '%s product cannot be read and written again with %s: %s: %s' % (alg, cls.__name__, type(e).__name__, str(e)[:100]), rep)
                continue
            dif = files_diff(p1, p2)
            if dif:
                chk.fail('impl', '%s product read with %s and written again differs from the original: %s' % (alg, cls.__name__, dif), rep)
            # a product modified in memory (an element-wise update of one of its arrays) and written: the file holds what the object holds
            try:
                obj = cls(p1)
                names = [h.name for h in obj.hdu_list[1:] if getattr(h, 'data', None) is not None and not isinstance(h, fits.BinTableHDU)]
                if names:
                    nm = names[0]
                    arr = getattr(obj, nm)
                    arr[...] = arr * 2. + 1.                      # in place, through the attribute the class exposes
                    p4 = p1.replace('.fits', '_mod.fits')
                    obj.write(p4, overwrite=True)
                    back = cls(p4)
                    chk.case(dict(op='binned-modify-write', alg=alg, extension=nm), nontrivial=True)
                    if not same_array(numpy.array(getattr(back, nm)), numpy.array(arr)):
                        chk.fail('impl', '%s product: the %s array updated in place through %s.%s is not what write() saves (in memory max %s, on disk max %s)' % (
                            alg, nm, cls.__name__, nm, float(numpy.nanmax(arr)), float(numpy.nanmax(getattr(back, nm)))), dict(rep, step='modify-write', extension=nm))
            except BaseException as e:
                chk.fail('impl', '%s product: modifying an image array in place and writing fails: %s: %s' % (alg, type(e).__name__, str(e)[:100]), dict(rep, step='modify-write'))
            dif = files_diff(p2, p3)
            if dif:
                chk.fail('impl', '%s product: the second read/write cycle changes the file again: %s' % (alg, dif), rep)
    chk.extra['binned_algorithms'] = dict(ran=sorted(set(ran)), not_runnable_on_a_bare_event_list=failed)


import contextlib


@contextlib.contextmanager
def local_timezone(tz):
    """run a block with the process in another local time zone (DATE-OBS / DATE-END are UTC whatever the zone of the machine)"""
    import time
    old = os.environ.get('TZ')
    os.environ['TZ'] = tz
    time.tzset()
    try:
        yield
    finally:
        if old is None:
            os.environ.pop('TZ', None)
        else:
            os.environ['TZ'] = old
        time.tzset()


# ------------------------------------------------------------------------------------------------ dates
def date_cases(chk, g, drv, jobs, n):
    """met_to_string / string_to_met_utc against the calendar model on instants exact in microseconds, incl. leap days and year ends"""
    from ixpeobssim.utils.time_ import met_to_string, string_to_met_utc
    special = []
    for y in (2017, 2019, 2020, 2021, 2024, 2028, 2100):
        for (m, dd) in ((2, 28), (2, 29), (3, 1), (12, 31), (1, 1)):
            try:
                day = (datetime.datetime(y, m, dd) - EPOCH).days
            except ValueError:
                continue
            special += [day * 86400 - 1, day * 86400, day * 86400 + 86399]
    for k in range(n):
        if k < len(special) and g.uniform() < 0.8:
            sec = special[k]
        else:
            sec = int(g.integers(-10 ** 8, 3 * 10 ** 9))
        frac = int(g.integers(0, 64))
        t = sec + frac / 64.
        us = sec * 10 ** 6 + frac * 15625
        tz = [None, None, 'JST-9', 'EST5EDT', 'Europe/Rome'][k % 5]
        if tz is None:
            s = met_to_string(t)
        else:
            with local_timezone(tz):
                s = met_to_string(t)
        chk.case(dict(op='date', met=t, local_time_zone=tz or 'as the machine'), nontrivial=frac != 0)
        rep = dict(oracle='date', met=t, tz=tz)
        back = parse_date(s)
        if abs(back - t) > 1e-6:
            chk.fail('impl', 'met_to_string(%r) = %s, which is %.6f s after the mission start' % (t, s, back), rep)
        if abs(string_to_met_utc(s) - t) > 1e-6:
            chk.fail('impl', 'string_to_met_utc(met_to_string(%r)) = %r' % (t, string_to_met_utc(s)), rep)
        drv.ask('date %d' % us)
        jobs.append(('date', rep, 'met %r' % t, s, None))
        dt = EPOCH + datetime.timedelta(seconds=sec, microseconds=frac * 15625)
        drv.ask('undate %d %d %d %d %d %d %d' % (dt.year, dt.month, dt.day, dt.hour, dt.minute, dt.second, dt.microsecond))
        jobs.append(('undate', rep, s, int(round(string_to_met_utc(s) * 1e6)), None))


# ------------------------------------------------------------------------------------------------ driver
def settle(chk, drv, jobs):
    replies = drv.run()
    for (kind, rep, what, impl, extra), r in zip(jobs, replies):
        if kind == 'hsave':
            sh, data = r.split(' | ')
            model = ([int(x) for x in sh.split()], [int(x) for x in data.split()])
            if model != (impl[0], impl[1]):
                chk.fail('correspondence', 'histogram of shape %s: the %s image on disk has shape %s; the model of save() gives shape %s%s' % (
                    extra, what, impl[0], model[0], '' if model[0] != impl[0] else ' with the elements in a different order'), dict(rep, op='hsave', hdu=what))
        elif kind == 'hload':
            sh, data = r.split(' | ')
            model = ([int(x) for x in sh.split()], [int(x) for x in data.split()])
            if model != (impl[0], impl[1]):
                chk.fail('correspondence', 'histogram of shape %s: from_file returns %s of shape %s; the model of from_file gives shape %s%s' % (
                    extra, what, impl[0], model[0], '' if model[0] != impl[0] else ' with different elements'), dict(rep, op='hload', hdu=what))
        elif kind in ('r32', 'cast'):
            model = [int(x) for x in r.split()]
            if model != impl:
                chk.fail('correspondence', '%s: stored values differ from the model cast at %d of %d positions' % (what, sum(1 for a, b in zip(model, impl) if a != b), len(impl)),
                         dict(rep, op=kind, column=what))
        elif kind == 'cards':
            if r != impl:
                chk.fail('correspondence', '%s: header cards %s, the model of the constructor on the generated DATA_SPECS gives %s' % (what, impl[:300], r[:300]), dict(rep, op='cards'))
        elif kind == 'date':
            if r != impl:
                chk.fail('correspondence', '%s is written as %s, the calendar model gives %s' % (what, impl, r), dict(rep, op='date'))
        elif kind == 'undate':
            if int(r) != impl:
                chk.fail('correspondence', '%s parses to %d µs of MET, the calendar model gives %s' % (what, impl, r), dict(rep, op='undate'))


def photon_list_file(chk, g, d):
    """a photon list (the xpphotonlist flavour) written and read back: the time keywords of every HDU are mutually consistent and match the run
    (TELAPSE = TSTOP − TSTART = duration, DATE-OBS / DATE-END, ONTIME = the good time, DEADC = LIVETIME / ONTIME), the columns are the in-memory ones"""
    import simdrive
    from astropy.io import fits
    from ixpeobssim.srcmodel import import_roi
    from ixpeobssim.utils.time_ import string_to_met_utc
    roi = import_roi(simdrive.config_path('toy_point_source.py'))
    du = int(g.integers(1, 4))
    duration = float(g.choice([600., 1234.5]))
    gtis = [(0., 0.3 * duration), (0.45 * duration, 0.9 * duration)]
    rep = dict(oracle='photon-list', du=du, duration=duration)
    chk.case(dict(op='photon-list write/read', du=du, duration=duration, gtis=gtis), nontrivial=True)
    path, kw = simdrive.photon_list(roi, os.path.join(d, 'pl.fits'), du_id=du, seed=int(g.integers(1, 10 ** 6)), gtis=gtis, duration=duration)
    ontime = sum(b - a for a, b in gtis)
    with fits.open(path) as f:
        for h in f:
            hd = h.header
            w = 'photon list %s header' % h.name
            if any(k not in hd for k in ('TSTART', 'TSTOP', 'TELAPSE', 'ONTIME', 'LIVETIME', 'DEADC', 'DATE-OBS', 'DATE-END')):
                continue
            if hd['TSTART'] != kw['start_met'] or hd['TSTOP'] != kw['stop_met']:
                chk.fail('impl', '%s: TSTART, TSTOP = %r, %r for a run from %r to %r' % (w, hd['TSTART'], hd['TSTOP'], kw['start_met'], kw['stop_met']), rep)
            if abs((hd['TSTOP'] - hd['TSTART']) - hd['TELAPSE']) > 1e-6:
                chk.fail('impl', '%s: TELAPSE = %r but TSTOP - TSTART = %r' % (w, hd['TELAPSE'], hd['TSTOP'] - hd['TSTART']), rep)
            if abs(hd['ONTIME'] - ontime) > 1e-6:
                chk.fail('impl', '%s: ONTIME = %r, the good time intervals add up to %r' % (w, hd['ONTIME'], ontime), rep)
            if abs(hd['DEADC'] * hd['ONTIME'] - hd['LIVETIME']) > 1e-6 * max(1., abs(hd['LIVETIME'])):
                chk.fail('impl', '%s: DEADC * ONTIME = %r, LIVETIME = %r' % (w, hd['DEADC'] * hd['ONTIME'], hd['LIVETIME']), rep)
            for dk, tk in (('DATE-OBS', 'TSTART'), ('DATE-END', 'TSTOP')):
                if abs(string_to_met_utc(hd[dk]) - hd[tk]) > 2e-6:
                    chk.fail('impl', '%s: %s = %s is MET %.6f, %s = %.6f' % (w, dk, hd[dk], string_to_met_utc(hd[dk]), tk, hd[tk]), rep)
        gs, ge = numpy.array(f['GTI'].data['START']), numpy.array(f['GTI'].data['STOP'])
        if not (numpy.allclose(gs, [kw['start_met'] + a for a, b in gtis], atol=1e-6, rtol=0) and numpy.allclose(ge, [kw['start_met'] + b for a, b in gtis], atol=1e-6, rtol=0)):
            chk.fail('impl', 'photon list: GTI extension %s / %s differs from the good time intervals of the run' % (list(gs), list(ge)), rep)
        t = numpy.array(f['PHOTONS'].data['TIME'], dtype=float)
        sec, usec = numpy.array(f['PHOTONS'].data['SEC'], dtype=float), numpy.array(f['PHOTONS'].data['MICROSEC'], dtype=float)
        if len(t) and (numpy.abs(sec + 1e-6 * usec - t) > 1.5e-6).any():
            chk.fail('impl', 'photon list: SEC + MICROSEC differ from TIME', rep)
        ids = set(int(x) for x in f['PHOTONS'].data['SRC_ID'])
        if not ids <= set(int(x) for x in f['ROITABLE'].data['SRCID']):
            chk.fail('impl', 'photon list: SRC_ID %s not listed in the ROITABLE' % sorted(ids), rep)


def explore(chk, budget=1, tag='C19', lean=True, only=None):
    g = rng(tag)
    drv, jobs = Driver(), []
    quick = chk.tier == 'quick'
    with scratch() as d:
        if only in (None, 'hist'):
            nh = (8 if quick else 80) * budget
            idx = 0
            for ndim in (1, 2, 3):
                for _ in range(nh if ndim < 3 else 2 * nh):
                    hist_case(chk, g, d, drv, jobs, ndim, idx)
                    idx += 1
        if only in (None, 'columns'):
            for _ in range(1 if quick else 3 * budget):
                column_classes(chk, g, d, drv, jobs)
            charging_maps(chk, g, d)
        if only in (None, 'date'):
            date_cases(chk, g, drv, jobs, (120 if quick else 3000) * budget)
        files = []
        if only in (None, 'event-file', 'binned'):
            files = synthetic_event_files(chk, g, d, drv, jobs, (6 if quick else 40) * budget)
        if only in (None, 'simulated-event-file', 'binned'):
            files = simulated_event_file(chk, g, d, drv, jobs) + files
            photon_list_file(chk, g, d)
        if only in (None, 'binned'):
            binned_products(chk, g, d, files[:(2 if quick else 6)])
    if lean:
        settle(chk, drv, jobs)


def main(chk):
    chk.rule = ('1–3-d histograms of random non-cubic shapes, 1–3 fills each (unweighted, weighted, signed, constant weights), custom labels: copy (incl. independence), '
                'save/from_file ×2–4 cycles, raw images and loaded arrays against the model (bit patterns); every xBinTableHDUBase subclass of the package built empty, with '
                'random data and with out-of-range integers, written, re-read: TTYPE/TFORM/TUNIT/comments/EXTNAME/keywords against DATA_SPECS and against the model on the '
                'generated tables, values against the declared numpy type and the model casts, in-memory read + rewrite twice; synthetic event files (0–2000 events, 1–3 GTIs, '
                'all DUs, 3 IRF names, start times incl. leap days/year ends) and simulated ones: every EVENTS/MONTE_CARLO column against the in-memory event list at the '
                'declared precision, header consistency in every extension, package reader, select-all rewrite; every xpbin algorithm runnable on such a file: keyword '
                'propagation, declared columns, read/write twice with the package class compared HDU by HDU; met_to_string/string_to_met_utc against the calendar model. '
                'non-trivial = ≥ 2 axes and weighted / data present / > 1 event / fractional second')
    chk.assumptions = TRUSTED
    chk.lean(['IxpeVerif.Props.C19', 'IxpeVerif.Props.Audit.C19'], ['hist_set_errors', 'hist_errors', 'hist_set_content', 'hist_empty_copy', 'hist_copy', 'hist_hist_add', 'hist_hist_sub', 'hist_hist_mul', 'hist_save', 'hist_from_file'])
    known_findings(chk)
    explore(chk)
    return chk.finish(level='proof', trusted=TRUSTED, search=lambda k: explore(chk, 3, 'C19-search', lean=False))


def replay(body):
    """re-run the oracle group of the recorded failure with the recorded seed and report what fails now"""
    import common
    os.environ['VERIF_SEED'] = str(body.get('seed', 0))
    chk = common.Check('C19', body.get('tier', 'quick'))
    r = body.get('replay', {})
    group = r.get('oracle')
    if body.get('kind') != 'impl' or group is None:
        return common.replay_rerun(sys.modules[__name__], body)
    explore(chk, 1, 'C19', lean=False, only={'hist': 'hist', 'columns': 'columns', 'date': 'date', 'event-file': 'event-file',
                                            'simulated-event-file': 'simulated-event-file', 'binned': 'binned'}[group])
    bad = [v for v in chk.violations if v['kind'] == 'impl']
    for v in bad[:5]:
        out('still fails: ' + v['what'][:300])
    if not bad:
        out('no longer fails')
    return 1 if bad else 0
