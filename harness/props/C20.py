"""C20 — polarization-model algebra is consistent across representations (DESIGN.md section 7, C20)."""
import math
import os
import itertools
import numpy

import corr_gen
from common import out, rng, Driver, f2b, b2f, scratch

GEN = ['model_q', 'model_u', 'model_pd', 'model_pa', 'pdpa_to_xy', 'field_delta', 'radial_pa', 'tangential_pa', 'pl_integral', 'pl_norm']
TRUSTED = ['Lean 4.33 kernel + Mathlib', 'axioms: propext, Classical.choice, Quot.sound', 'translator (validated every run)',
           'hand model Pol.harmonicAddition tied by correspondence (1e-11)', 'a**b is translated as exp(b·log a) (a > 0)',
           'broadband averages use FITPACK spline integrals: checked numerically (partial)', 'float rounding outside the model']


def angdiff(a, b, period):
    d = (a - b) % period
    return min(d, period - d)


def o_roundtrip(a):
    from ixpeobssim.core.stokes import xModelStokesParameters as S
    P, ang = numpy.array(a['P']), numpy.array(a['a'])
    q, u = S.q(P, ang), S.u(P, ang)
    P2, a2 = S.polarization_degree(q, u), S.polarization_angle(q, u)
    e1 = float(numpy.abs(P2 - P).max())
    e2 = max((angdiff(float(x), float(y), math.pi) for x, y, p in zip(a2, ang, P) if p > 1e-9), default=0.)
    return e1 < 1e-12 and e2 < 1e-9, dict(max_degree_err=e1, max_angle_err_mod_pi=e2)


def stokes_sum(comps):
    F = sum(c[0] for c in comps)
    Q = sum(c[0] * c[1] * math.cos(2 * c[2]) for c in comps)
    U = sum(c[0] * c[1] * math.sin(2 * c[2]) for c in comps)
    return F, Q, U


def o_harmonic(a):
    """harmonic_addition = flux-weighted Stokes sum, for every order of the components"""
    from ixpeobssim.srcmodel.polarization import harmonic_addition
    comps = [tuple(c) for c in a['comps']]
    F0, Q0, U0 = stokes_sum(comps)
    orders = list(itertools.permutations(range(len(comps)))) if len(comps) <= 4 else [tuple(p) for p in a['orders']]
    worst = 0.
    for o in orders:
        F, m, d = harmonic_addition(*[comps[i] for i in o])
        if not all(math.isfinite(float(x)) for x in (F, m, d)):
            return False, dict(order=list(o), result=[float(F), float(m), float(d)])
        err = max(abs(F - F0), abs(F * m * math.cos(2 * d) - Q0), abs(F * m * math.sin(2 * d) - U0))
        worst = max(worst, float(err))
    # the same components as arrays over a grid of energies (flux, degree and angle per energy), combined in every order one after the other in the
    # same process with the same array objects: each order gives the Stokes sum, and the inputs are left as they were
    k = 5
    scale = numpy.linspace(0.5, 2., k)
    arrs = [(c[0] * scale, numpy.full(k, c[1]), numpy.full(k, c[2])) for c in comps]
    keep = [tuple(x.copy() for x in c) for c in arrs]
    worst_arr, touched = 0., False
    for o in orders[:6]:
        F, m, d = harmonic_addition(*[arrs[i] for i in o])
        F, m, d = (numpy.asarray(x, dtype=float) for x in (F, m, d))
        err = numpy.max([numpy.abs(F - F0 * scale).max(), numpy.abs(F * m * numpy.cos(2 * d) - Q0 * scale).max(), numpy.abs(F * m * numpy.sin(2 * d) - U0 * scale).max()])
        worst_arr = max(worst_arr, float(err))
        touched = touched or any(not numpy.array_equal(x, y) for c, c0 in zip(arrs, keep) for x, y in zip(c, c0))
    ok = worst < 1e-9 * max(1., F0) and worst_arr < 1e-9 * max(1., 2. * F0) and not touched
    return ok, dict(max_err=worst, max_err_arrays=worst_arr, input_arrays_modified=touched, orders=len(orders))


def o_component(a):
    """harmonic_component_addition at the tabulated energies"""
    from ixpeobssim.srcmodel.polarization import harmonic_component_addition
    from ixpeobssim.core.spline import xInterpolatedUnivariateSpline as Sp
    x = numpy.linspace(1., 10., 10)
    comps = []
    for (n0, idx, pd, pa) in a['comps']:
        comps.append((Sp(x, n0 * x ** (-idx)), Sp(x, numpy.full(x.shape, pd)), Sp(x, numpy.full(x.shape, pa))))
    spec, deg, ang = harmonic_component_addition(*comps)
    worst = 0.
    for e in x:
        F0, Q0, U0 = stokes_sum([(n0 * e ** (-idx), pd, pa) for (n0, idx, pd, pa) in a['comps']])
        F, m, d = float(spec(e)), float(deg(e)), float(ang(e))
        worst = max(worst, abs(F - F0), abs(F * m * math.cos(2 * d) - Q0), abs(F * m * math.sin(2 * d) - U0))
    return worst < 1e-8, dict(max_err=worst)


def o_fields(a):
    from ixpeobssim.srcmodel.polarization import xRadialPolarizationField, xTangentialPolarizationField
    r = xRadialPolarizationField(a['ra0'], a['dec0'])
    t = xTangentialPolarizationField(a['ra0'], a['dec0'])
    ra, dec = numpy.array(a['ra']), numpy.array(a['dec'])
    c = numpy.cos(t.polarization_angle(ra, dec) - r.polarization_angle(ra, dec))
    off = (numpy.abs(ra - a['ra0']) + numpy.abs(dec - a['dec0'])) > 0
    err = float(numpy.abs(c[off]).max(initial=0.))
    return err < 1e-9, dict(max_abs_cos=err)


def o_pl(a):
    """norm from an integral (energy) flux integrates back to it — closed forms, incl. the logarithmic cases"""
    from ixpeobssim.srcmodel import spectrum as sp
    bad = []
    for idx in a['indices']:
        for (emin, emax) in a['ranges']:
            try:
                n = sp.pl_norm(a['flux'], emin, emax, idx)
                back = sp.pl_integral(n, idx, emin, emax)
                ne = sp.int_eflux2pl_norm(a['eflux'], emin, emax, idx)
                backe = sp.pl_integral_flux(ne, idx, emin, emax)
            except BaseException as e:
                bad.append('index %r range (%r, %r): %s: %s' % (idx, emin, emax, type(e).__name__, e))
                continue
            if not (abs(back - a['flux']) <= 1e-9 * a['flux']):
                bad.append('index %r range (%r, %r): photon flux %r integrates back to %r' % (idx, emin, emax, a['flux'], float(back)))
            if not (abs(backe - a['eflux']) <= 1e-9 * a['eflux']):
                bad.append('index %r range (%r, %r): energy flux %r integrates back to %r' % (idx, emin, emax, a['eflux'], float(backe)))
            # and against a brute-force quadrature of the power law itself
            E = numpy.exp(numpy.linspace(math.log(emin), math.log(emax), 20001))
            quad = numpy.trapezoid(n * E ** (-idx) * E, numpy.log(E))
            if abs(quad - a['flux']) > 1e-6 * a['flux']:
                bad.append('index %r: quadrature of norm·E^-index gives %r, not %r' % (idx, float(quad), a['flux']))
    # ranges that start at zero energy: legal wherever the integral converges (index < 1 for the photon flux, index < 2 for the energy flux)
    for idx in a['indices']:
        for (_, emax) in a['ranges']:
            try:
                if idx < 0.95:
                    back = sp.pl_integral(sp.pl_norm(a['flux'], 0., emax, idx), idx, 0., emax)
                    if not (abs(back - a['flux']) <= 1e-9 * a['flux']):
                        bad.append('index %r range (0.0, %r): photon flux %r integrates back to %r' % (idx, emax, a['flux'], float(back)))
                if idx < 1.95:
                    backe = sp.pl_integral_flux(sp.int_eflux2pl_norm(a['eflux'], 0., emax, idx), idx, 0., emax)
                    if not (abs(backe - a['eflux']) <= 1e-9 * a['eflux']):
                        bad.append('index %r range (0.0, %r): energy flux %r integrates back to %r' % (idx, emax, a['eflux'], float(backe)))
            except BaseException as e:
                bad.append('index %r range (0.0, %r): %s: %s' % (idx, emax, type(e).__name__, e))
    return not bad, dict(violated=bad[:5])


def o_broadband(a):
    from ixpeobssim.srcmodel.polarization import broadband_pol_deg, broadband_pol_ang, constant
    from ixpeobssim.srcmodel.spectrum import power_law
    spec = lambda E: a['norm'] * E ** (-a['index'])
    pd = broadband_pol_deg(spec, constant(a['pd']), a['emin'], a['emax'])
    pa = broadband_pol_ang(spec, constant(a['pa']), a['emin'], a['emax'], degrees=False)
    ok = abs(pd - a['pd']) < 1e-9 and abs(pa - a['pa']) < 1e-9
    obs = dict(pd=float(pd), pa=float(pa))
    # the average of a constant is that constant for every band, spectrum and sampling the caller asks for (numerator and denominator are the
    # same integral): wide bands starting at low energy, steep spectra, coarse and fine grids
    for (e0, e1) in ((0.1, 15.), (0.1, 100.), (a['emin'], a['emax'])):
        for npts in (50, 200, 2000):
            for idx in (a['index'], 3.):
                sp = lambda E, idx=idx: a['norm'] * E ** (-idx)
                v = broadband_pol_deg(sp, constant(a['pd']), e0, e1, num_points=npts)
                w = broadband_pol_ang(sp, constant(a['pa']), e0, e1, num_points=npts, degrees=False)
                if abs(v - a['pd']) > 1e-9 or abs(w - a['pa']) > 1e-9:
                    ok = False
                    obs['band'] = 'index %r over %r-%r keV with %d points: degree %r (constant %r), angle %r (constant %r)' % (idx, e0, e1, npts, float(v), a['pd'], float(w), a['pa'])
    # … and for spectra given as tables (spline objects of the package), also when the table does not cover the whole band
    from ixpeobssim.core.spline import xInterpolatedUnivariateSpline
    for (x0, x1, npt, k) in ((1., 12., 40, 3), (1., 12., 12, 1), (1., 7., 30, 3), (3., 10., 25, 1)):
        xe = numpy.linspace(x0, x1, npt)
        tab = xInterpolatedUnivariateSpline(xe, a['norm'] * xe ** (-a['index']), k=k)
        for (e0, e1) in ((2., 8.), (4., 8.), (a['emin'], a['emax'])):
            v = broadband_pol_deg(tab, constant(a['pd']), e0, e1)
            w = broadband_pol_ang(tab, constant(a['pa']), e0, e1, degrees=False)
            if abs(v - a['pd']) > 1e-9 or abs(w - a['pa']) > 1e-9:
                ok = False
                obs['table'] = 'spectrum tabulated on %r-%r keV (%d nodes, order %d) averaged over %r-%r keV: degree %r (constant %r), angle %r (constant %r)' % (
                    x0, x1, npt, k, e0, e1, float(v), a['pd'], float(w), a['pa'])
    # Stokes parameters scaled by an intensity and normalised again, for intensities of any numeric type (counts, whole-number fluxes)
    from ixpeobssim.core.stokes import xModelStokesParameters as MSP
    for dt in ('float64', 'float32', 'int64', 'uint16'):
        I = numpy.array([0, 1, 2, 5, 40, 0, 7], dtype=dt)
        pdv = numpy.linspace(0.1, 1., len(I)) * a['pd']
        pav = numpy.full(len(I), a['pa'])
        Q, U = I * MSP.q(pdv, pav), I * MSP.u(pdv, pav)
        qn, un = MSP.normalize(Q, I), MSP.normalize(U, I)
        back = numpy.asarray(MSP.polarization_degree(qn, un), dtype=float)
        exp = numpy.where(I > 0, pdv, 0.)
        if numpy.abs(back - exp).max() > (1e-5 if dt == 'float32' else 1e-12):
            ok = False
            obs['normalize'] = 'intensities %s of type %s: degree after normalize %s, expected %s' % (I.tolist(), dt, back.tolist(), exp.tolist())
    # a constant model is that constant on every kind of grid it is evaluated on: float64, float32 and integer energies / times, scalars
    grids = [numpy.linspace(2., 8., 7), numpy.linspace(2., 8., 7).astype(numpy.float32), numpy.arange(2, 9), numpy.arange(2, 9, dtype=numpy.int32), 3, 3.5]
    for c in (a['pd'], a['pa']):
        for gE in grids:
            v = numpy.asarray(constant(c)(gE, gE), dtype=float)
            if numpy.abs(v - c).max() > 1e-12:
                ok = False
                obs['constant'] = 'constant(%r) evaluated on %s energies gives %s' % (c, getattr(gE, 'dtype', type(gE).__name__), numpy.atleast_1d(v)[:3])
    # … and so is its band average computed on an integer grid
    from ixpeobssim.srcmodel.roi import xPointSource
    src = xPointSource('p', 10., 10., power_law(a['norm'], a['index']), constant(a['pd']), constant(a['pa']))
    try:
        apd, apa = src.calculate_average_polarization(numpy.arange(2, 9), numpy.array([0.]), degrees=False)
        if abs(float(numpy.atleast_1d(apd)[0]) - a['pd']) > 1e-6 or abs(float(numpy.atleast_1d(apa)[0]) - a['pa']) > 1e-6:
            ok = False
            obs['average_on_integer_grid'] = [float(numpy.atleast_1d(apd)[0]), float(numpy.atleast_1d(apa)[0])]
    except TypeError:
        pass            # signature differences are not the point here
    return ok, obs


def o_pdamap(a):
    """sky maps of polarization degree and angle (radians, as the package documents) → Stokes maps → degree and angle at the grid nodes: the
    identity modulo 180°, also for angle maps that wind past one turn (a spiral pattern) or are negative"""
    from astropy.io import fits
    from ixpeobssim.srcmodel.polarization import xStokesSkyMap
    g = numpy.random.default_rng(a['seed'])
    ny, nx = a['shape']
    yy, xx = numpy.mgrid[0:ny, 0:nx]
    r = numpy.hypot(xx - nx / 2., yy - ny / 2.)
    pdm = 0.3 + 0.4 * xx / float(nx) + 0.1 * yy / float(ny)          # smooth maps: the interpolation between nodes is not the point here
    pam = a['pa0'] + a['k'] * r                         # radians; spans a['pa0'] … a['pa0'] + k·r_max
    h = fits.Header()
    h['CTYPE1'], h['CTYPE2'] = 'RA---TAN', 'DEC--TAN'
    h['CRPIX1'], h['CRPIX2'] = nx / 2. + 0.5, ny / 2. + 0.5
    h['CRVAL1'], h['CRVAL2'] = a['ra'], a['dec']
    h['CDELT1'], h['CDELT2'] = -6. / 3600., 6. / 3600.
    with scratch() as d:
        paths = []
        for nm, arr in (('pd', pdm), ('pa', pam)):
            mp = os.path.join(d, '%s.fits' % nm)
            fits.PrimaryHDU(data=arr, header=h).writeto(mp, overwrite=True)
            paths.append(mp)
        sm = xStokesSkyMap.load_from_pda(*paths)
        from astropy import wcs as awcs
        w = awcs.WCS(h)
        ra, dec = w.wcs_pix2world(xx.ravel().astype(float), yy.ravel().astype(float), 0)
        pd_back = numpy.asarray(sm.polarization_degree(ra, dec), dtype=float)
        pa_back = numpy.asarray(sm.polarization_angle(ra, dec), dtype=float)
    inner = ((xx > 0) & (xx < nx - 1) & (yy > 0) & (yy < ny - 1)).ravel()
    dpd = float(numpy.abs(pd_back - pdm.ravel())[inner].max())
    dd = (pa_back - pam.ravel()) % math.pi
    dpa = float(numpy.minimum(dd, math.pi - dd)[inner].max())
    return dpd < 0.08 and dpa < 0.25, dict(max_degree_err=dpd, max_angle_err_rad=dpa, angle_range=[float(pam.min()), float(pam.max())])


def o_refused(a):
    """degrees outside [0, 1] are refused by the simulator, inside accepted"""
    from ixpeobssim.irf import load_modf, DEFAULT_IRF_NAME
    modf = load_modf(DEFAULT_IRF_NAME, 1)
    e = numpy.full(len(a['degrees']), 3.)
    numpy.random.seed(1)
    try:
        modf.rvs_phi(e, numpy.array(a['degrees'], dtype=float), numpy.zeros(len(e)))
        refused = False
    except SystemExit:
        refused = True
    expected = any(p < 0 or p > 1 for p in a['degrees'])
    ok = refused == expected
    obs = dict(refused=refused, expected=expected)
    if a.get('stokes'):
        # the same refusal when the unphysical degree enters as Stokes parameters (q, u maps, tables): q² + u² > 1 must reach the sampler as
        # a degree above 1 and be refused there, not be clipped on the way
        from ixpeobssim.core.stokes import xModelStokesParameters as S
        q, u = numpy.array([x[0] for x in a['stokes']], dtype=float), numpy.array([x[1] for x in a['stokes']], dtype=float)
        pd, pa = S.polarization_degree(q, u), S.polarization_angle(q, u)
        exp2 = bool((q * q + u * u > 1.).any())
        try:
            modf.rvs_phi(numpy.full(len(q), 3.), pd, pa)
            ref2 = False
        except SystemExit:
            ref2 = True
        obs.update(stokes_refused=ref2, stokes_expected=exp2, degrees_from_stokes=[float(x) for x in pd])
        ok = ok and ref2 == exp2
    if a.get('source_layer') is not None:
        # the same refusal one layer up: a source whose degree model is unphysical (negative everywhere, negative somewhere, above 1) must not be simulated
        from ixpeobssim.srcmodel.roi import xPointSource
        from ixpeobssim.srcmodel.spectrum import power_law
        from ixpeobssim.srcmodel.polarization import constant
        kind, val = a['source_layer']
        model = {'const': constant(val), 'slope': (lambda E, t, ra=None, dec=None: val * numpy.asarray(E, dtype=float))}[kind]
        src = xPointSource('p', 10., 10., power_law(1., 2.), model, constant(0.3))
        E = numpy.linspace(2., 8., 50)
        exp3 = bool((numpy.asarray(model(E, 0. * E), dtype=float) < 0).any() or (numpy.asarray(model(E, 0. * E), dtype=float) > 1).any())
        try:
            src._rvs_phi(modf, E, 0. * E, numpy.full(50, 10.), numpy.full(50, 10.))
            ref3 = False
        except SystemExit:
            ref3 = True
        obs.update(source_refused=ref3, source_expected=exp3)
        ok = ok and ref3 == exp3
    return ok, obs


ORACLES = dict(roundtrip=o_roundtrip, harmonic=o_harmonic, component=o_component, fields=o_fields, pl=o_pl, broadband=o_broadband, refused=o_refused, pdamap=o_pdamap)


def run_oracle(chk, name, a, nontrivial=True):
    short = {k: (v if not isinstance(v, list) or len(v) <= 8 else v[:8] + ['…']) for k, v in a.items()}
    chk.case(dict(oracle=name, args=short), nontrivial=nontrivial)
    try:
        ok, obs = ORACLES[name](a)
    except BaseException as e:
        ok, obs = False, dict(exception='%s: %s' % (type(e).__name__, e))
    if not ok:
        chk.fail('impl', 'C20 %s: %s (args %s)' % (name, obs, short), dict(oracle=name, args=a, observed=obs))


def gen_comps(g):
    n = int(g.integers(1, 9))
    comps = []
    for _ in range(n):
        F = float(g.uniform(0.1, 10.))
        m = float(g.choice([0., 1., g.uniform(0, 1)], p=[0.2, 0.1, 0.7]))      # exactly unpolarized / fully polarized components included
        d = float(g.uniform(-math.pi / 2, math.pi / 2))
        comps.append((F, m, d))
    if all(c[1] == 0. for c in comps) and g.uniform() < 0.7:
        comps[0] = (comps[0][0], 0.3, comps[0][2])
    return comps


_SL = [0]


def explore(chk, budget=1):
    from ixpeobssim.srcmodel.polarization import harmonic_addition
    g = rng('C20-%d' % budget)
    n = (40 if chk.tier == 'quick' else 800) * budget
    drv = Driver()
    jobs = []
    for i in range(n):
        comps = gen_comps(g)
        orders = [tuple(int(x) for x in g.permutation(len(comps))) for _ in range(6)]
        run_oracle(chk, 'harmonic', dict(comps=comps, orders=orders), nontrivial=len(comps) >= 3 and len(set(c[2] for c in comps)) >= 3)
        drv.ask('harm %d %s' % (3 * len(comps), ' '.join('%d %d %d' % tuple(f2b(x) for x in c) for c in comps)))
        try:
            jobs.append((comps, [float(x) for x in harmonic_addition(*comps)]))
        except BaseException as e:
            jobs.append((comps, None))
        k = int(g.integers(1, 100))
        P = g.uniform(0, 1, k); P[0] = 0.; P[-1] = 1.
        run_oracle(chk, 'roundtrip', dict(P=P.tolist(), a=g.uniform(-2 * math.pi, 2 * math.pi, k).tolist()))
    for i in range(max(3, n // 10)):
        ra0, dec0 = float(g.uniform(0, 360)), float(g.uniform(-75, 75))
        k = 60
        run_oracle(chk, 'fields', dict(ra0=ra0, dec0=dec0, ra=(ra0 + g.uniform(-0.1, 0.1, k)).tolist() + [ra0, ra0 + 0.01], dec=(dec0 + g.uniform(-0.1, 0.1, k)).tolist() + [dec0 + 0.01, dec0]))
        run_oracle(chk, 'component', dict(comps=[(float(g.uniform(1, 10)), float(g.uniform(1, 3)), float(g.choice([0., g.uniform(0, 1)])), float(g.uniform(-1.5, 1.5))) for _ in range(int(g.integers(1, 5)))]))
        if i % 3 == 0:
            run_oracle(chk, 'pdamap', dict(shape=(int(g.integers(36, 48)), int(g.integers(36, 48))), pa0=float(g.choice([-1., 0., -2.5])), k=float(g.choice([0.02, 0.25, 0.3])),
                                           ra=float(g.uniform(5, 355)), dec=float(g.uniform(-60, 60)), seed=int(g.integers(1, 10 ** 6))))
        run_oracle(chk, 'broadband', dict(norm=float(g.uniform(1, 10)), index=float(g.uniform(0.5, 3)), pd=float(g.uniform(0, 1)), pa=float(g.uniform(-1.5, 1.5)),
                                          emin=float(g.uniform(1, 3)), emax=float(g.uniform(5, 10))))
        degs = g.uniform(0, 1, 5).tolist()
        r = g.uniform()
        if r < 0.3:
            degs[int(g.integers(0, 5))] = float(g.choice([1.0000001, 1.5, -1e-9, -0.2, 10.]))
        elif r < 0.5:
            degs[0], degs[1] = 0., 1.
        st = [(float(r_ * math.cos(t_)), float(r_ * math.sin(t_))) for r_, t_ in zip(g.uniform(0, 1, 4), g.uniform(0, 6.28, 4))]
        if g.uniform() < 0.5:
            st[int(g.integers(0, 4))] = [(0.8, 0.8), (1.0000001, 0.), (-0.9, 0.6), (0., -1.2)][int(g.integers(0, 4))]
        _SL[0] += 1
        sl = [('const', -0.2), ('const', -1e-9), ('slope', -0.05), ('const', 0.), ('const', 0.4), ('slope', 0.2), ('const', 1.5), ('slope', 0.1)][_SL[0] % 8]
        run_oracle(chk, 'refused', dict(degrees=degs, stokes=st, source_layer=sl))
    idx = [1., 2., 0., 3., 1.5, 2.5] + [float(x) for x in numpy.round(g.uniform(-1, 4, 4), 3)]
    run_oracle(chk, 'pl', dict(flux=float(g.uniform(0.1, 10)), eflux=float(10 ** g.uniform(-12, -9)), indices=idx,
                               ranges=[(2., 8.), (float(g.uniform(0.5, 2)), float(g.uniform(4, 12)))]))
    replies = drv.run()
    for (comps, impl), rep in zip(jobs, replies):
        model = [b2f(x) for x in rep.split()]
        if impl is None:
            continue
        F = model[0]
        same = abs(model[0] - impl[0]) <= 1e-11 * abs(F) and (abs(model[1] - impl[1]) <= 1e-9 or (math.isnan(model[1]) and math.isnan(impl[1])))
        # the angle is only defined when the combination is polarized
        if same and model[1] > 1e-9:
            same = angdiff(model[2], impl[2], math.pi) < 1e-7
        if not same:
            chk.fail('correspondence', 'harmonic_addition %s: model %s vs implementation %s' % (comps, model, impl), dict(op='harm', comps=comps, model=model, impl=impl))


def main(chk):
    chk.rule = ('generated formulas vs Python (random + special arguments); harmonic_addition on 1–8 components incl. exactly unpolarized and fully polarized ones, all '
                'permutations for n ≤ 4 and 6 random orders above, compared with the flux-weighted Stokes sum and with the Lean model; harmonic_component_addition at the nodes; '
                '(q,u) round trip for degrees incl. 0 and 1 and angles in (−2π, 2π); radial ⟂ tangential around random centres with |dec| ≤ 75°; power-law normalisations for '
                'indices incl. 1 and 2 (logarithmic cases) against closed forms and quadrature; broadband averages of constant models; the physical-range guard. '
                'non-trivial = ≥ 3 components with distinct angles')
    chk.assumptions = TRUSTED
    chk.lean(['IxpeVerif.Props.C20', 'IxpeVerif.Props.Audit.C20'], GEN + ['harmonic_addition'])
    corr_gen.run(chk, GEN, n=100 if chk.tier == 'quick' else 2000, tag='C20', rtol=1e-11)
    explore(chk)
    return chk.finish(level='proof', trusted=TRUSTED, search=lambda k: explore(chk, 5))


def replay(body):
    r = body['replay']
    if r.get('oracle') in ORACLES:
        ok, obs = ORACLES[r['oracle']](r['args'])
        out('oracle %s on the recorded input: %s %s' % (r['oracle'], 'holds' if ok else 'FAILS', obs))
        return 0 if ok else 1
    import sys
    import common
    return common.replay_rerun(sys.modules[__name__], body)
