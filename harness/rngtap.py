"""Intercept numpy.random module functions so that the package's samplers consume *chosen* uniform variates
(Kind C properties: a sampler is a deterministic transform of uniforms), and log the call sites."""
import sys
import contextlib
import numpy


class Tap:
    def __init__(self):
        self.log = []
        self.queue = []

    def feed(self, *arrays):
        self.queue.extend(numpy.asarray(a, dtype=float) for a in arrays)


@contextlib.contextmanager
def intercept(tap, poisson_mean=True):
    nr = numpy.random
    names = ('sample', 'random', 'rand', 'uniform', 'poisson', 'random_sample')
    orig = {k: getattr(nr, k) for k in names}

    def site():
        f = sys._getframe(2)
        while f is not None and 'ixpeobssim' not in f.f_code.co_filename:
            f = f.f_back
        return '%s:%d' % (f.f_code.co_filename.split('ixpeobssim/')[-1], f.f_lineno) if f else '?'

    def unit(size=None):
        n = 1 if size is None else int(numpy.prod(size))
        if tap.queue:
            u = tap.queue.pop(0)
            if len(u) != n:
                raise AssertionError('rngtap: sampler asked for %d uniforms at %s, %d were fed' % (n, site(), len(u)))
        else:
            u = orig['sample'](n)
        tap.log.append(('unit', site(), n))
        return numpy.asarray(u, dtype=float).reshape(size) if size is not None else float(u[0])

    def uniform(low=0., high=1., size=None):
        return low + (high - low) * unit(size)

    def rand(*shape):
        return unit(shape if shape else None)

    def poisson(lam=1., size=None):
        tap.log.append(('poisson', site(), float(lam) if numpy.isscalar(lam) else len(lam)))
        if poisson_mean and size is None and numpy.isscalar(lam):
            return int(numpy.rint(lam))
        return orig['poisson'](lam, size)

    nr.sample = nr.random = nr.random_sample = unit
    nr.uniform = uniform
    nr.rand = rand
    nr.poisson = poisson
    try:
        yield tap
    finally:
        for k, v in orig.items():
            setattr(nr, k, v)
