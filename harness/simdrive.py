"""Drive the simulation core (`xROIModel.rvs_event_list` + `xEventList.write_fits`) with a synthetic GTI list:
no trajectory, no JPL ephemeris (which is emptied in this sandbox)."""
import os
import numpy


def config_path(name):
    import ixpeobssim
    return os.path.join(os.path.dirname(ixpeobssim.__file__), 'config', name)


def sim_kwargs(configfile, outfile, gtis=None, **over):
    from ixpeobssim.bin.xpobssim import PARSER
    from ixpeobssim.evt.gti import xGTIList
    from ixpeobssim.instrument.fcw import xOnOrbitCalibrationPattern
    from ixpeobssim.srcmodel.calibsrc import xCalC
    kwargs = PARSER.parse_args(['--configfile', configfile]).__dict__
    kwargs.update(over)
    start = kwargs.get('start_met') or 0.
    kwargs['start_met'] = start
    kwargs['stop_met'] = start + kwargs['duration']
    if gtis is None:
        gtis = [(start, kwargs['stop_met'])]
    kwargs['gti_list'] = xGTIList(start, kwargs['stop_met'], *gtis)
    kwargs['timelinedata'] = False
    kwargs['scdata'] = False
    kwargs.setdefault('calib_pattern', None)
    if kwargs['calib_pattern'] is None:
        # `octis` (list of (start, stop)): on-orbit calibration intervals, as the timeline would provide them while the target is occulted
        kwargs['calib_pattern'] = xOnOrbitCalibrationPattern([tuple(x) for x in (kwargs.pop('octis', None) or [])], xCalC(float(kwargs.get('calibrate', 100.) or 100.)), 1)
    kwargs['outfile'] = outfile
    if kwargs.get('objname') is None:
        kwargs['objname'] = 'test'
    return kwargs


def simulate(configfile, outfile, gtis=None, du_id=1, seed=1, roi_model=None, **over):
    """Equivalent of one DU iteration of bin/xpobssim.py with the timeline replaced by `gtis`."""
    from ixpeobssim.irf import load_irf_set
    from ixpeobssim.srcmodel import import_roi
    kwargs = sim_kwargs(configfile, outfile, gtis, **over)
    if kwargs.get('charging'):
        from ixpeobssim.bin.xpobssim import _update_charging_settings
        _update_charging_settings(kwargs)
    if roi_model is None:
        roi_model = import_roi(configfile)
    numpy.random.seed(seed + du_id - 1)
    irf_set = load_irf_set(kwargs['irfname'], du_id, gray_filter=bool(kwargs.get('grayfilter')))    # as bin/xpobssim.py does
    event_list = roi_model.rvs_event_list(irf_set, **kwargs)
    # on-orbit calibration runs, exactly as the DU loop of bin/xpobssim.py adds them
    calib_runs = kwargs['calib_pattern'][du_id] if kwargs.get('onorbitcalib') else []
    if len(calib_runs) > 0:
        from ixpeobssim.evt.event import xEventList
        calib_event_list = xEventList()
        for run in calib_runs:
            _kwargs = dict(start_met=run.start_met, duration=run.duration, deadtime=kwargs.get('deadtime'))
            calib_event_list += run.calibration_source.rvs_event_list(irf_set, **_kwargs)
        if calib_event_list.num_events() > 0:
            event_list += calib_event_list
    event_list.write_fits('verif', roi_model, irf_set, **kwargs)
    return outfile


# ---------------------------------------------------------------------------------------------------------------------------------------
# The whole application: the real `ixpeobssim.bin.xpobssim.xpobssim()` — argument parser, `_prepare_simulation`, `_build_timeline`,
# `xObservationTimeline`, the calibration pattern, the loop over the detector units with its seeding, `write_fits` — with the orbit
# propagator alone replaced: a trajectory whose SAA / occultation status is a given set of intervals (no JPL ephemeris needed).
import contextlib


def stub_trajectory(saa, occ):
    """a subclass of the real xIXPETrajectory that answers `in_saa` / `target_occulted` from interval lists (absolute MET); the searches for
    the transition times, the epochs and the GTIs are the real code"""
    from ixpeobssim.instrument import traj

    def inside(met, ivs):
        met = numpy.asarray(met, dtype=float)
        m = numpy.zeros(met.shape, dtype=bool)
        for lo, hi in ivs:
            m |= (met >= lo) & (met < hi)
        return m

    class Stub(traj.xIXPETrajectory):
        def __init__(self, *a, **k):
            pass

        def __del__(self):
            pass

        def in_saa(self, met):
            return inside(met, saa)

        def target_occulted(self, met, *a, **k):
            return inside(met, occ)
    return Stub


@contextlib.contextmanager
def stubbed_orbit(saa, occ):
    from ixpeobssim.instrument import traj
    orig = traj.xIXPETrajectory
    traj.xIXPETrajectory = stub_trajectory(saa, occ)
    try:
        yield
    finally:
        traj.xIXPETrajectory = orig


def app_start_met(startdate):
    from ixpeobssim.utils.time_ import string_to_met_utc
    return string_to_met_utc(startdate, lazy=True)


def app_run(configfile, outbase, startdate='2022-04-21', duration=1000., seed=1, saa=(), occ=(), overwrite=True, extra=()):
    """run the real application; `saa`, `occ`: intervals in seconds from the start of the observation. Returns the list of output files."""
    import io
    from ixpeobssim.bin import xpobssim as app
    t0 = app_start_met(startdate)
    argv = ['--configfile', configfile, '--startdate', startdate, '--duration', repr(float(duration)), '--seed', str(int(seed)), '--outfile', outbase,
            '--scdata', 'False', '--overwrite', str(bool(overwrite))] + [str(x) for x in extra]
    with stubbed_orbit([(t0 + a, t0 + b) for a, b in saa], [(t0 + a, t0 + b) for a, b in occ]), contextlib.redirect_stdout(io.StringIO()):
        return app.xpobssim(**app.PARSER.parse_args(argv).__dict__)


# ---------------------------------------------------------------------------------------------------------------------------------------
# Photon lists (the `xpphotonlist` flavour of the simulation: `rvs_photon_list` + `xPhotonList.write_fits`), with a synthetic GTI list
def photon_list(roi_model, outfile, du_id=1, seed=1, gtis=None, duration=1000., argv=(), irf_set=None):
    """one detector unit of the xpphotonlist loop; returns (outfile, kwargs)"""
    from ixpeobssim.bin.xpphotonlist import PARSER
    from ixpeobssim.evt.gti import xGTIList
    from ixpeobssim.irf import load_irf_set
    from ixpeobssim.utils.time_ import string_to_met_utc
    kwargs = PARSER.parse_args(['--configfile', 'verif.py', '--duration', repr(float(duration))] + [str(x) for x in argv]).__dict__
    start = string_to_met_utc(kwargs['startdate'], lazy=True)
    stop = start + kwargs['duration']
    gl = [(start + a, start + b) for a, b in (gtis or [(0., duration)])]
    kwargs.update(start_met=start, stop_met=stop, scdata=False, gti_list=xGTIList(start, stop, *gl), outfile=outfile)
    numpy.random.seed(seed + du_id - 1)
    irf_set = irf_set if irf_set is not None else load_irf_set(kwargs['irfname'], du_id)
    pl = roi_model.rvs_photon_list(irf_set, **kwargs)
    pl.write_fits('verif', roi_model, irf_set, **kwargs)
    return outfile, kwargs
