"""Drive the simulation core (`xROIModel.rvs_event_list` + `xEventList.write_fits`) with a synthetic GTI list:
no trajectory, no JPL ephemeris (which is emptied in this sandbox)."""
import os
import numpy


def config_path(name):
    import ixpeobssim
    return os.path.join(os.path.dirname(ixpeobssim.__file__), 'config', name)


def sim_kwargs(configfile, outfile, gtis=None, **over):
    from ixpeobssim.bin.xpobssim import PARSER
    from ixpeobssim.evt.gti import xGTIList
    from ixpeobssim.instrument.fcw import xOnOrbitCalibrationPattern
    from ixpeobssim.srcmodel.calibsrc import xCalC
    kwargs = PARSER.parse_args(['--configfile', configfile]).__dict__
    kwargs.update(over)
    start = kwargs.get('start_met') or 0.
    kwargs['start_met'] = start
    kwargs['stop_met'] = start + kwargs['duration']
    if gtis is None:
        gtis = [(start, kwargs['stop_met'])]
    kwargs['gti_list'] = xGTIList(start, kwargs['stop_met'], *gtis)
    kwargs['timelinedata'] = False
    kwargs['scdata'] = False
    kwargs.setdefault('calib_pattern', None)
    if kwargs['calib_pattern'] is None:
        # `octis` (list of (start, stop)): on-orbit calibration intervals, as the timeline would provide them while the target is occulted
        kwargs['calib_pattern'] = xOnOrbitCalibrationPattern([tuple(x) for x in (kwargs.pop('octis', None) or [])], xCalC(float(kwargs.get('calibrate', 100.) or 100.)), 1)
    kwargs['outfile'] = outfile
    if kwargs.get('objname') is None:
        kwargs['objname'] = 'test'
    return kwargs


def simulate(configfile, outfile, gtis=None, du_id=1, seed=1, roi_model=None, **over):
    """Equivalent of one DU iteration of bin/xpobssim.py with the timeline replaced by `gtis`."""
    from ixpeobssim.irf import load_irf_set
    from ixpeobssim.srcmodel import import_roi
    kwargs = sim_kwargs(configfile, outfile, gtis, **over)
    if kwargs.get('charging'):
        from ixpeobssim.bin.xpobssim import _update_charging_settings
        _update_charging_settings(kwargs)
    if roi_model is None:
        roi_model = import_roi(configfile)
    numpy.random.seed(seed + du_id - 1)
    irf_set = load_irf_set(kwargs['irfname'], du_id, gray_filter=bool(kwargs.get('grayfilter')))    # as bin/xpobssim.py does
    event_list = roi_model.rvs_event_list(irf_set, **kwargs)
    # on-orbit calibration runs, exactly as the DU loop of bin/xpobssim.py adds them
    calib_runs = kwargs['calib_pattern'][du_id] if kwargs.get('onorbitcalib') else []
    if len(calib_runs) > 0:
        from ixpeobssim.evt.event import xEventList
        calib_event_list = xEventList()
        for run in calib_runs:
            _kwargs = dict(start_met=run.start_met, duration=run.duration, deadtime=kwargs.get('deadtime'))
            calib_event_list += run.calibration_source.rvs_event_list(irf_set, **_kwargs)
        if calib_event_list.num_events() > 0:
            event_list += calib_event_list
    event_list.write_fits('verif', roi_model, irf_set, **kwargs)
    return outfile
