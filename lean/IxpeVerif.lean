import IxpeVerif.Num
import IxpeVerif.Gen.Formulas
import IxpeVerif.Gen.Tables
import IxpeVerif.Gen.Dispatch
import IxpeVerif.RealInst
