def hello := "world"
