import IxpeVerif.Num
/-! Dispatcher of the hand-written models for the line-protocol driver. -/
namespace Driver

def step (ws : List String) : String :=
  match ws with
  | _ => "bad-op"

end Driver
