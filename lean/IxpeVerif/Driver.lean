import IxpeVerif.Num
import IxpeVerif.Model.Livetime
import IxpeVerif.Model.EventList
import IxpeVerif.Gen.Formulas
import IxpeVerif.Gen.Tables
import IxpeVerif.Model.Gti
import IxpeVerif.Model.Select
import IxpeVerif.Model.SelectKw
import IxpeVerif.Model.Channels
import IxpeVerif.Model.Hist
import IxpeVerif.Model.Kislat
import IxpeVerif.Model.Polarization
import IxpeVerif.Model.Ephemeris
import IxpeVerif.Model.Additivity
import IxpeVerif.Model.Sampler
import IxpeVerif.Model.IrfName
import IxpeVerif.Model.Calendar
import IxpeVerif.Model.NdArray
import IxpeVerif.Model.HistIO
import IxpeVerif.Model.Columns
import IxpeVerif.Gen.Specs
import IxpeVerif.Gen.Masks
import IxpeVerif.Gen.AnaGen
import IxpeVerif.Gen.ImgGen
/-! Dispatcher of the hand-written models for the line-protocol driver.  Integers travel in decimal. -/
namespace Driver

def ints (ws : List String) : List Int := ws.map String.toInt!
def showInts (xs : List Int) : String := " ".intercalate (xs.map toString)

/-- split `n x₁ … xₙ rest…` -/
def takeN (ws : List String) : List String × List String :=
  match ws with
  | n :: rest => (rest.take n.toNat!, rest.drop n.toNat!)
  | [] => ([], [])

def fbits (i : Int) : Float := Float.ofBits i.toNat.toUInt64

/-- rows with detector coordinates (as float bit patterns): the fiducial flag is the *generated*
`within_fiducial_rectangle` evaluated on Float -/
def rowsOfF (hx hy : Float) : List Int → List EvL.Row
  | t :: s :: x :: y :: g :: rest =>
    ⟨t, s, decide (Gen.within_fiducial_rectangle (fbits x) (fbits y) hx hy > 0.5), g.toNat⟩ :: rowsOfF hx hy rest
  | _ => []

def pairsOf : List Int → List (Int × Int)
  | a :: b :: rest => (a, b) :: pairsOf rest
  | _ => []

def unpairs (l : List (Int × Int)) : List Int := l.flatMap fun g => [g.1, g.2]

/-- order-preserving map from (non-NaN) IEEE doubles, given by their bit pattern, to `Int` -/
def key64 (bits : Int) : Int :=
  let b := bits.toNat
  if b ≥ 9223372036854775808 then -((b - 9223372036854775808 : Nat) : Int) else b
def key32 (x : Float32) : Int :=
  let b := x.toBits.toNat
  if b ≥ 2147483648 then -((b - 2147483648 : Nat) : Int) else b
def k32 (bits : Int) : Int := key32 (fbits bits).toFloat32
/-- energy attributed to a PI channel: the *generated* `channel_to_energy` evaluated in float32, as numpy 2 does on the
float32 PI column -/
def piKey (pi : Int) : Int := key32 (Gen.channel_to_energy (α := Float32) (Float32.ofNat pi.toNat))

def optOf (f : Int → Int) (w : String) : Option Int := if w == "N" then none else some (f w.toInt!)

def selRows : List Int → List Sel.Row
  | t :: p :: pi :: me :: s :: ms :: ir :: mir :: src :: tag :: rest =>
    -- the region flags carry the `--mask` entry in bit 1 (harness: flag + 2·inMask)
    ⟨key64 t, k32 p, piKey pi, k32 me, key64 s, key64 ms, ir % 2 != 0, mir != 0, src, tag.toNat, ir / 2 % 2 != 0⟩ :: selRows rest
  | _ => []

def errCode : Sel.Err → String
  | .timeAndPhase => "timeAndPhase" | .coneAndReg => "coneAndReg" | .tminOut => "tminOut" | .tmaxOut => "tmaxOut"
  | .tminGeTmax => "tminGeTmax" | .pminOut => "pminOut" | .pmaxOut => "pmaxOut" | .pminGePmax => "pminGePmax"

def optF (w : String) : Option Float := if w == "N" then none else some (fbits w.toInt!)
def showOptF (x : Option Float) : String := match x with | none => "N" | some v => toString v.toBits
def fw (w : String) : Float := fbits w.toInt!

def fkey (x : Float) : Int := key64 (Int.ofNat x.toBits.toNat)
def optIdx (o : Option Nat) : Int := match o with | some k => k | none => -1

/-- `_pixelize_skycoords` after the WCS call: swap the axes, add the 0.5 offset, bin on linspace(0, n, n+1) -/
def cmapIdx (nside : Nat) : List Int → List Int
  | p0 :: p1 :: rest =>
    let edges := (List.range (nside + 1)).map fun i => fkey (Float.ofNat i)
    let x := fbits p1 + 0.5
    let y := fbits p0 + 0.5
    optIdx (Hist.binIndex edges (fkey x)) :: optIdx (Hist.binIndex edges (fkey y)) :: cmapIdx nside rest
  | _ => []

def showFs (xs : List Float) : String := " ".intercalate (xs.map fun x => toString x.toBits)

def kEvents : List Int → List (Kislat.Ev Float)
  | q :: u :: e :: w :: mu :: a :: rest => ⟨fbits q, fbits u, fbits e, fbits w, fbits mu, fbits a⟩ :: kEvents rest
  | _ => []

def compsOf : List Int → List (Pol.Comp Float)
  | f :: m :: d :: rest => ⟨fbits f, fbits m, fbits d⟩ :: compsOf rest
  | _ => []

def binsOf : List Int → List (Add.Bin Float)
  | c :: i :: q :: u :: w2 :: mu :: em :: rest => ⟨c.toNat, fbits i, fbits q, fbits u, fbits w2, fbits mu, fbits em⟩ :: binsOf rest
  | _ => []

def lcsOf : List Int → List (Add.LC Float)
  | c :: e :: r :: rest => ⟨fbits c, fbits e, fbits r⟩ :: lcsOf rest
  | _ => []

/-- split a flat list into `k` consecutive chunks of length `n` -/
def chunks {β : Type} (n : Nat) : Nat → List β → List (List β)
  | 0, _ => []
  | k + 1, l => l.take n :: chunks n k (l.drop n)

/-- transpose files × bins -> bins × files -/
def column {β : Type} (files : List (List β)) (j : Nat) : List β := files.filterMap fun f => f[j]?

def fpairs : List Int → List (Float × Float)
  | a :: b :: rest => (fbits a, fbits b) :: fpairs rest
  | _ => []

def codesOf (w : String) : List Nat := if w == "-" then [] else w.toList.map Char.toNat
def strOf (l : List Nat) : String := String.ofList (l.map Char.ofNat)

def rowsOf : List Int → List EvL.Row
  | t :: s :: f :: g :: rest => ⟨t, s, f != 0, g.toNat⟩ :: rowsOf rest
  | _ => []

def step (ws : List String) : String :=
  match ws with
  -- livetime <s0> <dead> <n> starts… <m> times…
  | "livetime" :: s0 :: dead :: rest =>
    let (starts, rest) := takeN rest
    let (times, _) := takeN rest
    showInts (Livetime.livetimeColumn s0.toInt! (ints starts) (ints times) dead.toInt!)
  -- finalize <s0> <dead> <n> starts… <4m> (time src inFid tag)…   ->  tag livetime trg per kept row
  | "finalize" :: s0 :: dead :: rest =>
    let (starts, rest) := takeN rest
    let (rows, _) := takeN rest
    let out := EvL.finalize s0.toInt! dead.toInt! (ints starts) (rowsOf (ints rows))
    showInts (out.flatMap fun o => [(o.row.tag : Int), o.livetime, (o.trg : Int)])
  -- finalizef <s0> <dead> <n> starts… <hx> <hy> <5m> (time src detx dety tag)…
  | "finalizef" :: s0 :: dead :: rest =>
    let (starts, rest) := takeN rest
    match rest with
    | hx :: hy :: rest =>
      let (rows, _) := takeN rest
      let out := EvL.finalize s0.toInt! dead.toInt! (ints starts) (rowsOfF (fbits hx.toInt!) (fbits hy.toInt!) (ints rows))
      showInts (out.flatMap fun o => [(o.row.tag : Int), o.livetime, (o.trg : Int)])
    | _ => "bad-op"
  -- gtifilter <2n> (start stop)… <m> times…   -> mask bits
  | "gtifilter" :: rest =>
    let (g, rest) := takeN rest
    let (ts, _) := takeN rest
    showInts ((Gti.filterTimes (pairsOf (ints g)) (ints ts)).2.map fun b => if b then 1 else 0)
  -- complement <2n> (start stop)…   -> flat list of the gaps, then total good time
  | "complement" :: rest =>
    let (g, _) := takeN rest
    let gs := pairsOf (ints g)
    showInts (Gti.total gs :: unpairs (Gti.complement gs))
  -- timeline <minDur> <padA> <padB> <n> mets… <k> saa… <l> occ…  -> ng gti… | octi…
  | "timeline" :: md :: pa :: pb :: rest =>
    let (m, rest) := takeN rest
    let (sa, rest) := takeN rest
    let (oc, _) := takeN rest
    let eps := Gti.calcEpochs (ints sa) (ints oc) (ints m)
    let g := Gti.gtiList md.toInt! pa.toInt! pb.toInt! eps
    let o := Gti.octiList md.toInt! pa.toInt! pb.toInt! eps
    showInts ([(g.length : Int)] ++ unpairs g ++ unpairs o ++ [(eps.length : Int)] ++ eps.flatMap fun e => [if e.saa then 1 else 0, if e.occ then 1 else 0])
  -- closeends <start> <stop> <s0> <n> ts…  -> marks (the flags are those of the alternating status)
  | "closeends" :: a :: b :: s0 :: rest =>
    let (t, _) := takeN rest
    showInts (Gti.closeEnds a.toInt! b.toInt! (s0 == "1") (ints t) (Gti.entrOf (s0 == "1") t.length))
  -- bingti <emin> <emax> <2n> (start stop)…
  | "bingti" :: a :: b :: rest =>
    let (g, _) := takeN rest
    showInts [Gti.binGti a.toInt! b.toInt! (pairsOf (ints g))]
  -- select tmin tmax tinv pmin pmax pinv emin emax einv mc rad innerrad useReg reginv tstart tstop <k> srcids… <10n> rows…
  | "select" :: tmin :: tmax :: tinv :: pmin :: pmax :: pinv :: emin :: emax :: einv :: mc :: rad :: irad :: ur :: ri :: ts :: te :: rest =>
    let (src, rest) := takeN rest
    let (rows, _) := takeN rest
    let c : Sel.Cfg := { tmin := optOf key64 tmin, tmax := optOf key64 tmax, tinvert := tinv == "1",
                         pmin := optOf k32 pmin, pmax := optOf k32 pmax, pinvert := pinv == "1",
                         emin := optOf k32 emin, emax := optOf k32 emax, einvert := einv == "1", mc := mc == "1",
                         rad := optOf key64 rad, innerrad := optOf key64 irad, useReg := ur == "1" || ur == "3", reginvert := ri == "1",
                         srcids := ints src, useMask := ur == "2" || ur == "3" }
    match Sel.validate c (key64 ts.toInt!) (key64 te.toInt!) (key32 (0.0 : Float).toFloat32) (key32 (1.0 : Float).toFloat32) with
    | some e => "err " ++ errCode e
    | none => "ok " ++ showInts ((Sel.select c (selRows (ints rows))).map fun r => (r.tag : Int))
  | ["selkw", ts, te, on, lt, nt, ns, ls, tmin, tmax, pmin, pmax, sc] =>
    let k : SelKw.In Float := { tstart := fw ts, tstop := fw te, ontime := fw on, livetime := fw lt, nTotal := fw nt, nSel := fw ns,
                                ltSumSel := fw ls, tmin := optF tmin, tmax := optF tmax, pmin := optF pmin, pmax := optF pmax, ltscale := sc == "1" }
    match SelKw.keywords k with
    | none => "none"
    | some o => " ".intercalate [showOptF o.tstart, showOptF o.tstop, toString o.ontime.toBits, toString o.livetime.toBits, toString o.deadc.toBits]
  -- e2c <n> emax(f64 bits)… <m> E(f64 bits)…  -> channel per energy (searchsorted left on keys)
  | "e2c" :: rest =>
    let (b, rest) := takeN rest
    let (e, _) := takeN rest
    let keys := (ints b).map key64
    showInts ((ints e).map fun x => (Chan.searchLeft keys (key64 x) : Int))
  -- e2cgrid <n> E(eV)…  -> channel on the ideal generated grid
  | "e2cgrid" :: rest =>
    let (e, _) := takeN rest
    showInts ((ints e).map fun x => (Chan.e2cGrid Gen.energyStepEv Gen.numChannels x : Int))
  | ["rint", t] => showInts [Chan.rintHalf t.toInt!]
  -- hist <n> edges(f64 bits)… <m> values(f64 bits)…  -> bin index per value, -1 if outside
  | "hist" :: rest =>
    let (e, rest) := takeN rest
    let (v, _) := takeN rest
    let edges := (ints e).map key64
    showInts ((ints v).map fun x => optIdx (Hist.binIndex edges (key64 x)))
  -- cmap <nside> <2m> (pix0 pix1)(f64 bits)…  -> (ix, iy) per event
  | "cmap" :: ns :: rest =>
    let (v, _) := takeN rest
    showInts (cmapIdx ns.toNat! (ints v))
  -- kbin I Q U mu W2   (f64 bits)  -> per-bin outputs of calculate_stokes_errors / calculate_polarization(degrees) / mdp99 / n_eff
  | ["kbin", i, q, u, mu, w2] =>
    let (I, Q, U, MU, W2) := (fw i, fw q, fw u, fw mu, fw w2)
    let e := Kislat.stokesErrors I Q U MU W2
    let p := Kislat.polarization I Q U MU W2 true
    showFs [e.QN, e.UN, e.dI, e.dQ, e.dU, e.dQN, e.dUN, e.cov, e.pval, e.conf, p.pd, p.pdErr, p.pa, p.paErr, Kislat.mdp99 MU I W2, Kislat.nEff I W2]
  -- krow <useWeights> <acceptcorr> <emin> <emax> <6n> (q u e w mu aeff)…  -> counts, then the row of polarization_table
  | "krow" :: uw :: ac :: emin :: emax :: rest =>
    let (ev, _) := takeN rest
    let ps := Kislat.prep (uw == "1") (ac == "1") (kEvents (ints ev))
    let s := Kislat.binSums (fw emin) (fw emax) ps
    toString s.counts ++ " " ++ showFs (Kislat.row s)
  -- garow: the same input through the definitions regenerated from the vectorised source (Gen/AnaGen.lean): constructor, reductions, row
  | "garow" :: uw :: ac :: emin :: emax :: rest =>
    let (ev, _) := takeN rest
    let evs := kEvents (ints ev)
    let look (f : Kislat.Ev Float → Float) (e : Float) : Float := match evs.find? (fun v => v.e == e) with | some v => f v | none => 0.0
    let st := Gen.Ana.init (fun x => x != x) (evs.map (·.q)) (evs.map (·.u)) (evs.map (·.e)) (look (·.mu)) (look (·.aeff)) 1000.0
      (if uw == "1" then some (evs.map (·.w)) else none) (ac == "1")
    showFs (Gen.Ana.table_row st (fw emin) (fw emax) true 0.0)
  -- imgrvs ncols rand cdelt1 cdelt2 <ndata> data… <3n> (u u1 u2)…  -> the regenerated cdf, then per event: col row Δra Δdec (Gen/ImgGen.lean)
  | "imgrvs" :: nc :: rd :: c1 :: c2 :: rest =>
    let (dat, rest2) := takeN rest
    let (us, _) := takeN rest2
    let data := (ints dat).map fbits
    let cdf := Gen.Img.build_cdf data
    let ncols := nc.toNat!
    let rec go : List Float → List Float
      | u :: u1 :: u2 :: more =>
        let p := Gen.Img.rvs_coordinates cdf (data.length / ncols) ncols (fun col row => (col.toFloat, row.toFloat)) (fw c1) (fw c2) false u u1 u2
        let d := Gen.Img.rvs_coordinates cdf (data.length / ncols) ncols (fun _ _ => (0.0, 0.0)) (fw c1) (fw c2) (rd == "1") u u1 u2
        p.1 :: p.2 :: d.1 :: d.2 :: go more
      | _ => []
    showFs (cdf ++ go ((ints us).map fbits))
  -- harm <3n> (F m delta)…   -> F m delta of the combination
  | "harm" :: rest =>
    let (c, _) := takeN rest
    let r := Pol.harmonicAddition (compsOf (ints c))
    showFs [r.1, r.2.1, r.2.2]
  -- refused <n> degrees…  -> 1 if the simulator must refuse them
  | "refused" :: rest =>
    let (c, _) := takeN rest
    if Pol.degreesRefused ((ints c).map fbits) then "1" else "0"
  -- fold met0 nu0 nudot0 nuddot start phi0 <n> mets…  -> folded phases
  | "fold" :: m0 :: n0 :: n1 :: n2 :: st :: p0 :: rest =>
    let (ms, _) := takeN rest
    showFs ((ints ms).map fun t => Eph.fold (fw m0) (fw n0) (fw n1) (fw n2) (fbits t) (fw st) (fw p0))
  -- cubesum <nbins> <nfiles> <7·nbins·nfiles> (counts I Q U W2 MU EMEAN per bin, file after file)… -> per bin: counts then I Q U W2 MU EMEAN + derived
  | "cubesum" :: nb :: nf :: rest =>
    let (v, _) := takeN rest
    let files := chunks nb.toNat! nf.toNat! (binsOf (ints v))
    let outs := (List.range nb.toNat!).map fun j =>
      match Add.sumAll (column files j) with
      | none => "none"
      | some b =>
        let e := Kislat.stokesErrors b.I b.Q b.U b.MU b.W2
        let p := Kislat.polarization b.I b.Q b.U b.MU b.W2 true
        toString b.counts ++ " " ++ showFs [b.I, b.Q, b.U, b.W2, b.MU, b.EMEAN, e.QN, e.UN, e.dI, e.dQ, e.dU, p.pd, p.pdErr, p.pa, p.paErr,
                                              Kislat.mdp99 b.MU b.I b.W2, Kislat.nEff b.I b.W2]
    " | ".intercalate outs
  -- lcsum <nbins> <nfiles> <3·nbins·nfiles> (counts exposure error)… -> per bin counts exposure error
  | "lcsum" :: nb :: nf :: rest =>
    let (v, _) := takeN rest
    let files := chunks nb.toNat! nf.toNat! (lcsOf (ints v))
    let outs := (List.range nb.toNat!).map fun j =>
      match column files j with
      | [] => "none"
      | b :: bs => let r := bs.foldl Add.lcIadd b; showFs [r.counts, r.exposure, r.error]
    " | ".intercalate outs
  -- sampler <2n> (x pdf)… <m> u… <k> x…  -> ppf(u)… | cdf(x)… | negative flag | ppf nodes
  | "sampler" :: rest =>
    let (nd, rest) := takeN rest
    let (us, rest) := takeN rest
    let (xs, _) := takeN rest
    let nodes := fpairs (ints nd)
    showFs ((ints us).map fun u => Sampler.ppf nodes (fbits u)) ++ " | " ++ showFs ((ints xs).map fun x => Sampler.cdf nodes (fbits x)) ++ " | " ++
      (if Sampler.negative nodes then "1" else "0") ++ " | " ++ showFs ((Sampler.ppfNodes nodes).flatMap fun p => [p.1, p.2])
  -- irfname <base> <du> <type> <intent> <version> <simple> <gray> <weightnames,> <simpletypes,> <graytypes,>
  | ["irfname", base, du, typ, intent, ver, sflag, gflag, wn, st, gt] =>
    let spl := fun (w : String) => (w.splitOn ",").filter (· ≠ "") |>.map codesOf
    let k : IrfName.Consts := ⟨spl wn, spl st, spl gt⟩
    match IrfName.fileName k (codesOf base) du.toNat! (codesOf typ) (codesOf intent) ver.toNat! (sflag == "1") (gflag == "1") with
    | .ok f => "ok " ++ strOf f
    | .error .simpleType => "err simpleType"
    | .error .simpleIntent => "err simpleIntent"
    | .error .grayType => "err grayType"
  -- gmask time|phase <min|N> <max|N> <invert> <n> values…  -> the *generated* selection masks (translator/masks.py) on order-preserving keys
  | "gmask" :: kind :: lo :: hi :: inv :: rest =>
    let (vs, _) := takeN rest
    let f := if kind == "time" then key64 else k32
    let m := (ints vs).map fun v =>
      if kind == "time" then Gen.time_selection_mask (f v) (optOf f lo) (optOf f hi) (inv == "1")
      else Gen.phase_selection_mask (f v) (optOf f lo) (optOf f hi) (inv == "1")
    " ".intercalate (m.map fun b => if b then "1" else "0")
  -- C19 --------------------------------------------------------------------------------------------------------
  -- date <met µs>  -> DATE-OBS string of that MET with the generated epoch constant
  | ["date", us] => (Cal.metToStamp Gen.missionStartUnixTime us.toInt!).format
  -- undate y m d h mi s us -> MET µs
  | ["undate", y, m, d, h, mi, sec, us] =>
    showInts [Cal.stampToMet Gen.missionStartUnixTime ⟨y.toInt!, m.toInt!, d.toInt!, h.toInt!, mi.toInt!, sec.toInt!, us.toInt!⟩]
  -- hsave <ndim> shape… <n> bits…  -> image of `a.T`: shape… | bits…   (the primary / ENTRIES / SUMW2 HDU of `save`)
  | "hsave" :: rest =>
    let (sh, rest) := takeN rest
    let (d, _) := takeN rest
    let img := (Nd.ofFlat (sh.map String.toNat!) (ints d) 0).T.toImage
    showInts (img.shape.map Int.ofNat) ++ " | " ++ showInts img.data
  -- hload <ndim> shape… <n> bits… <sq> -> array `data.T` read back (sq = 1: through sqrt and square, as sumw2 is)
  | "hload" :: rest =>
    let (sh, rest) := takeN rest
    let (d, rest) := takeN rest
    let a := (Nd.Image.toArr ⟨sh.map String.toNat!, ints d⟩ 0).T
    let vals := if rest == ["1"] then a.flat.map fun b => let e := Float.sqrt (fbits b); Int.ofNat (e * e).toBits.toNat else a.flat
    showInts (a.shape.map Int.ofNat) ++ " | " ++ showInts vals
  -- r32 bits… -> the same doubles after a float32 round trip
  | "r32" :: rest => showInts ((ints rest).map fun b => Int.ofNat (fbits b).toFloat32.toFloat.toBits.toNat)
  | "castj" :: rest => showInts ((ints rest).map Cols.castJ)
  | "casti" :: rest => showInts ((ints rest).map Cols.castI)
  -- cards <class name> -> TTYPE,TFORM,TUNIT;… predicted from the generated DATA_SPECS through the model of the constructor
  | ["cards", cls] =>
    match Gen.specTables.find? (fun t => t.1 == codesOf cls) with
    | none => "unknown-class"
    | some t =>
      ";".intercalate (t.2.2.map fun it => match Cols.columnOf it with
        | none => "bad-item"
        | some c => let k := Cols.cards c
            strOf k.1 ++ "," ++ (match k.2.1 with | some f => strOf f | none => "None") ++ "," ++ (match k.2.2 with | some u => strOf u | none => "None"))
  | ["pikey", pi] => showInts [piKey pi.toInt!]
  | ["split", t] => let r := EvL.splitTime t.toInt!; showInts [r.1, r.2]
  | _ => "bad-op"

end Driver
