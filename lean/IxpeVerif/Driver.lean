import IxpeVerif.Num
import IxpeVerif.Model.Livetime
import IxpeVerif.Model.EventList
/-! Dispatcher of the hand-written models for the line-protocol driver.  Integers travel in decimal. -/
namespace Driver

def ints (ws : List String) : List Int := ws.map String.toInt!
def showInts (xs : List Int) : String := " ".intercalate (xs.map toString)

/-- split `n x₁ … xₙ rest…` -/
def takeN (ws : List String) : List String × List String :=
  match ws with
  | n :: rest => (rest.take n.toNat!, rest.drop n.toNat!)
  | [] => ([], [])

def rowsOf : List Int → List EvL.Row
  | t :: s :: f :: g :: rest => ⟨t, s, f != 0, g.toNat⟩ :: rowsOf rest
  | _ => []

def step (ws : List String) : String :=
  match ws with
  -- livetime <s0> <dead> <n> starts… <m> times…
  | "livetime" :: s0 :: dead :: rest =>
    let (starts, rest) := takeN rest
    let (times, _) := takeN rest
    showInts (Livetime.livetimeColumn s0.toInt! (ints starts) (ints times) dead.toInt!)
  -- finalize <s0> <dead> <n> starts… <4m> (time src inFid tag)…   ->  tag livetime trg per kept row
  | "finalize" :: s0 :: dead :: rest =>
    let (starts, rest) := takeN rest
    let (rows, _) := takeN rest
    let out := EvL.finalize s0.toInt! dead.toInt! (ints starts) (rowsOf (ints rows))
    showInts (out.flatMap fun o => [(o.row.tag : Int), o.livetime, (o.trg : Int)])
  | ["split", t] => let r := EvL.splitTime t.toInt!; showInts [r.1, r.2]
  | _ => "bad-op"

end Driver
