import IxpeVerif.Num
import IxpeVerif.Model.Livetime
import IxpeVerif.Model.EventList
import IxpeVerif.Gen.Formulas
import IxpeVerif.Model.Gti
/-! Dispatcher of the hand-written models for the line-protocol driver.  Integers travel in decimal. -/
namespace Driver

def ints (ws : List String) : List Int := ws.map String.toInt!
def showInts (xs : List Int) : String := " ".intercalate (xs.map toString)

/-- split `n x₁ … xₙ rest…` -/
def takeN (ws : List String) : List String × List String :=
  match ws with
  | n :: rest => (rest.take n.toNat!, rest.drop n.toNat!)
  | [] => ([], [])

def fbits (i : Int) : Float := Float.ofBits i.toNat.toUInt64

/-- rows with detector coordinates (as float bit patterns): the fiducial flag is the *generated*
`within_fiducial_rectangle` evaluated on Float -/
def rowsOfF (hx hy : Float) : List Int → List EvL.Row
  | t :: s :: x :: y :: g :: rest =>
    ⟨t, s, decide (Gen.within_fiducial_rectangle (fbits x) (fbits y) hx hy > 0.5), g.toNat⟩ :: rowsOfF hx hy rest
  | _ => []

def pairsOf : List Int → List (Int × Int)
  | a :: b :: rest => (a, b) :: pairsOf rest
  | _ => []

def unpairs (l : List (Int × Int)) : List Int := l.flatMap fun g => [g.1, g.2]

def rowsOf : List Int → List EvL.Row
  | t :: s :: f :: g :: rest => ⟨t, s, f != 0, g.toNat⟩ :: rowsOf rest
  | _ => []

def step (ws : List String) : String :=
  match ws with
  -- livetime <s0> <dead> <n> starts… <m> times…
  | "livetime" :: s0 :: dead :: rest =>
    let (starts, rest) := takeN rest
    let (times, _) := takeN rest
    showInts (Livetime.livetimeColumn s0.toInt! (ints starts) (ints times) dead.toInt!)
  -- finalize <s0> <dead> <n> starts… <4m> (time src inFid tag)…   ->  tag livetime trg per kept row
  | "finalize" :: s0 :: dead :: rest =>
    let (starts, rest) := takeN rest
    let (rows, _) := takeN rest
    let out := EvL.finalize s0.toInt! dead.toInt! (ints starts) (rowsOf (ints rows))
    showInts (out.flatMap fun o => [(o.row.tag : Int), o.livetime, (o.trg : Int)])
  -- finalizef <s0> <dead> <n> starts… <hx> <hy> <5m> (time src detx dety tag)…
  | "finalizef" :: s0 :: dead :: rest =>
    let (starts, rest) := takeN rest
    match rest with
    | hx :: hy :: rest =>
      let (rows, _) := takeN rest
      let out := EvL.finalize s0.toInt! dead.toInt! (ints starts) (rowsOfF (fbits hx.toInt!) (fbits hy.toInt!) (ints rows))
      showInts (out.flatMap fun o => [(o.row.tag : Int), o.livetime, (o.trg : Int)])
    | _ => "bad-op"
  -- gtifilter <2n> (start stop)… <m> times…   -> mask bits
  | "gtifilter" :: rest =>
    let (g, rest) := takeN rest
    let (ts, _) := takeN rest
    showInts ((Gti.filterTimes (pairsOf (ints g)) (ints ts)).2.map fun b => if b then 1 else 0)
  -- complement <2n> (start stop)…   -> flat list of the gaps, then total good time
  | "complement" :: rest =>
    let (g, _) := takeN rest
    let gs := pairsOf (ints g)
    showInts (Gti.total gs :: unpairs (Gti.complement gs))
  -- timeline <minDur> <padA> <padB> <n> mets… <k> saa… <l> occ…  -> ng gti… | octi…
  | "timeline" :: md :: pa :: pb :: rest =>
    let (m, rest) := takeN rest
    let (sa, rest) := takeN rest
    let (oc, _) := takeN rest
    let eps := Gti.calcEpochs (ints sa) (ints oc) (ints m)
    let g := Gti.gtiList md.toInt! pa.toInt! pb.toInt! eps
    let o := Gti.octiList md.toInt! pa.toInt! pb.toInt! eps
    showInts ([(g.length : Int)] ++ unpairs g ++ unpairs o ++ [(eps.length : Int)] ++ eps.flatMap fun e => [if e.saa then 1 else 0, if e.occ then 1 else 0])
  -- bingti <emin> <emax> <2n> (start stop)…
  | "bingti" :: a :: b :: rest =>
    let (g, _) := takeN rest
    showInts [Gti.binGti a.toInt! b.toInt! (pairsOf (ints g))]
  | ["split", t] => let r := EvL.splitTime t.toInt!; showInts [r.1, r.2]
  | _ => "bad-op"

end Driver
