import IxpeVerif.Gen.Formulas
/-! Generated: name -> Float evaluation of the generated definitions. -/
namespace Gen

def dispatch (name : String) (a : Array Float) (b : Array Bool) : Option (List Float) :=
  match name with
  | "stokes_q" => if a.size = 1 ∧ b.size = 0 then some ([(stokes_q (α := Float) a[0]!)]) else none
  | "stokes_u" => if a.size = 1 ∧ b.size = 0 then some ([(stokes_u (α := Float) a[0]!)]) else none
  | "calculate_polarization" => if a.size = 5 ∧ b.size = 1 then some (let r := (calculate_polarization (α := Float) a[0]! a[1]! a[2]! a[3]! a[4]! b[0]!); [r.1, r.2.1, r.2.2.1, r.2.2.2]) else none
  | "calculate_stokes_errors" => if a.size = 5 ∧ b.size = 0 then some (let r := (calculate_stokes_errors (α := Float) a[0]! a[1]! a[2]! a[3]! a[4]!); [r.1, r.2.1, r.2.2.1, r.2.2.2.1, r.2.2.2.2.1, r.2.2.2.2.2.1, r.2.2.2.2.2.2.1, r.2.2.2.2.2.2.2.1, r.2.2.2.2.2.2.2.2.1, r.2.2.2.2.2.2.2.2.2]) else none
  | "calculate_mdp99" => if a.size = 3 ∧ b.size = 1 then some ([(calculate_mdp99 (α := Float) a[0]! a[1]! a[2]! b[0]!)]) else none
  | "calculate_n_eff" => if a.size = 3 ∧ b.size = 0 then some (let r := (calculate_n_eff (α := Float) a[0]! a[1]! a[2]!); [r.1, r.2]) else none
  | "calculate_n_eff_scalar" => if a.size = 3 ∧ b.size = 0 then some (let r := (calculate_n_eff_scalar (α := Float) a[0]! a[1]! a[2]!); [r.1, r.2]) else none
  | "weighted_average" => if a.size = 4 ∧ b.size = 1 then some ([(weighted_average (α := Float) a[0]! a[1]! a[2]! a[3]! b[0]!)]) else none
  | "pcube_iadd" => if a.size = 14 ∧ b.size = 0 then some (let r := (pcube_iadd (α := Float) a[0]! a[1]! a[2]! a[3]! a[4]! a[5]! a[6]! a[7]! a[8]! a[9]! a[10]! a[11]! a[12]! a[13]!); [r.1, r.2.1, r.2.2.1, r.2.2.2.1, r.2.2.2.2.1, r.2.2.2.2.2.1, r.2.2.2.2.2.2]) else none
  | "lc_iadd" => if a.size = 6 ∧ b.size = 0 then some (let r := (lc_iadd (α := Float) a[0]! a[1]! a[2]! a[3]! a[4]! a[5]!); [r.1, r.2.1, r.2.2]) else none
  | "pp_iadd" => if a.size = 4 ∧ b.size = 0 then some (let r := (pp_iadd (α := Float) a[0]! a[1]! a[2]! a[3]!); [r.1, r.2]) else none
  | "pha1_iadd" => if a.size = 4 ∧ b.size = 0 then some (let r := (pha1_iadd (α := Float) a[0]! a[1]! a[2]! a[3]!); [r.1, r.2]) else none
  | "mdpcube_iadd" => if a.size = 13 ∧ b.size = 0 then some (let r := (mdpcube_iadd (α := Float) a[0]! a[1]! a[2]! a[3]! a[4]! a[5]! a[6]! a[7]! a[8]! a[9]! a[10]! a[11]! a[12]!); [r.1, r.2.1, r.2.2.1, r.2.2.2.1, r.2.2.2.2.1, r.2.2.2.2.2.1, r.2.2.2.2.2.2.1, r.2.2.2.2.2.2.2]) else none
  | "align_stokes_parameters" => if a.size = 4 ∧ b.size = 0 then some (let r := (align_stokes_parameters (α := Float) a[0]! a[1]! a[2]! a[3]!); [r.1, r.2]) else none
  | "delta_phi_ampl" => if a.size = 4 ∧ b.size = 0 then some ([(delta_phi_ampl (α := Float) a[0]! a[1]! a[2]! a[3]!)]) else none
  | "delta_phi_stokes" => if a.size = 3 ∧ b.size = 0 then some ([(delta_phi_stokes (α := Float) a[0]! a[1]! a[2]!)]) else none
  | "correct_phi_stokes" => if a.size = 3 ∧ b.size = 0 then some ([(correct_phi_stokes (α := Float) a[0]! a[1]! a[2]!)]) else none
  | "stokes_rotation_angle" => if a.size = 4 ∧ b.size = 0 then some ([(stokes_rotation_angle (α := Float) a[0]! a[1]! a[2]! a[3]!)]) else none
  | "correct_stokes_parameters" => if a.size = 4 ∧ b.size = 0 then some (let r := (correct_stokes_parameters (α := Float) a[0]! a[1]! a[2]! a[3]!); [r.1, r.2]) else none
  | "modulo_2pi" => if a.size = 1 ∧ b.size = 0 then some ([(modulo_2pi (α := Float) a[0]!)]) else none
  | "fold_angle_rad" => if a.size = 1 ∧ b.size = 0 then some ([(fold_angle_rad (α := Float) a[0]!)]) else none
  | "fold_angle_deg" => if a.size = 1 ∧ b.size = 0 then some ([(fold_angle_deg (α := Float) a[0]!)]) else none
  | "du_rotation_angle" => if a.size = 2 ∧ b.size = 0 then some ([(du_rotation_angle (α := Float) a[0]! a[1]!)]) else none
  | "rotate_detxy" => if a.size = 3 ∧ b.size = 1 then some (let r := (rotate_detxy (α := Float) a[0]! a[1]! a[2]! b[0]!); [r.1, r.2]) else none
  | "phi_to_detphi" => if a.size = 2 ∧ b.size = 0 then some ([(phi_to_detphi (α := Float) a[0]! a[1]!)]) else none
  | "detphi_to_phi" => if a.size = 2 ∧ b.size = 0 then some ([(detphi_to_phi (α := Float) a[0]! a[1]!)]) else none
  | "within_fiducial_rectangle" => if a.size = 4 ∧ b.size = 0 then some ([(within_fiducial_rectangle (α := Float) a[0]! a[1]! a[2]! a[3]!)]) else none
  | "sky_to_gpd_naive" => if a.size = 4 ∧ b.size = 0 then some (let r := (sky_to_gpd_naive (α := Float) a[0]! a[1]! a[2]! a[3]!); [r.1, r.2]) else none
  | "gpd_to_sky_naive" => if a.size = 4 ∧ b.size = 0 then some (let r := (gpd_to_sky_naive (α := Float) a[0]! a[1]! a[2]! a[3]!); [r.1, r.2]) else none
  | "sky_to_gpd_dither" => if a.size = 7 ∧ b.size = 0 then some (let r := (sky_to_gpd_dither (α := Float) a[0]! a[1]! a[2]! a[3]! a[4]! a[5]! a[6]!); [r.1, r.2]) else none
  | "gpd_to_sky_dither" => if a.size = 7 ∧ b.size = 0 then some (let r := (gpd_to_sky_dither (α := Float) a[0]! a[1]! a[2]! a[3]! a[4]! a[5]! a[6]!); [r.1, r.2]) else none
  | "apply_dithering" => if a.size = 4 ∧ b.size = 0 then some (let r := (apply_dithering (α := Float) a[0]! a[1]! a[2]! a[3]!); [r.1, r.2]) else none
  | "psf_smear" => if a.size = 4 ∧ b.size = 0 then some (let r := (psf_smear (α := Float) a[0]! a[1]! a[2]! a[3]!); [r.1, r.2]) else none
  | "model_q" => if a.size = 2 ∧ b.size = 0 then some ([(model_q (α := Float) a[0]! a[1]!)]) else none
  | "model_u" => if a.size = 2 ∧ b.size = 0 then some ([(model_u (α := Float) a[0]! a[1]!)]) else none
  | "model_pd" => if a.size = 2 ∧ b.size = 0 then some ([(model_pd (α := Float) a[0]! a[1]!)]) else none
  | "model_pa" => if a.size = 2 ∧ b.size = 0 then some ([(model_pa (α := Float) a[0]! a[1]!)]) else none
  | "pdpa_to_xy" => if a.size = 2 ∧ b.size = 0 then some (let r := (pdpa_to_xy (α := Float) a[0]! a[1]!); [r.1, r.2]) else none
  | "az_pdf" => if a.size = 2 ∧ b.size = 0 then some ([(az_pdf (α := Float) a[0]! a[1]!)]) else none
  | "az_cdf" => if a.size = 2 ∧ b.size = 0 then some ([(az_cdf (α := Float) a[0]! a[1]!)]) else none
  | "az_rvs_phi" => if a.size = 2 ∧ b.size = 0 then some ([(az_rvs_phi (α := Float) a[0]! a[1]!)]) else none
  | "energy_to_channel" => if a.size = 1 ∧ b.size = 0 then some ([(energy_to_channel (α := Float) a[0]!)]) else none
  | "channel_to_energy" => if a.size = 1 ∧ b.size = 0 then some ([(channel_to_energy (α := Float) a[0]!)]) else none
  | "split_event_time" => if a.size = 1 ∧ b.size = 0 then some (let r := (split_event_time (α := Float) a[0]!); [r.1, r.2]) else none
  | "pl_integral" => if a.size = 4 ∧ b.size = 0 then some ([(pl_integral (α := Float) a[0]! a[1]! a[2]! a[3]!)]) else none
  | "pl_norm" => if a.size = 5 ∧ b.size = 0 then some ([(pl_norm (α := Float) a[0]! a[1]! a[2]! a[3]! a[4]!)]) else none
  | "eph_nu" => if a.size = 4 ∧ b.size = 0 then some ([(eph_nu (α := Float) a[0]! a[1]! a[2]! a[3]!)]) else none
  | "eph_nudot" => if a.size = 3 ∧ b.size = 0 then some ([(eph_nudot (α := Float) a[0]! a[1]! a[2]!)]) else none
  | "eph_met_to_phase" => if a.size = 4 ∧ b.size = 0 then some ([(eph_met_to_phase (α := Float) a[0]! a[1]! a[2]! a[3]!)]) else none
  | "disk_rvs" => if a.size = 5 ∧ b.size = 0 then some (let r := (disk_rvs (α := Float) a[0]! a[1]! a[2]! a[3]! a[4]!); [r.1, r.2]) else none
  | "annulus_rvs" => if a.size = 6 ∧ b.size = 0 then some (let r := (annulus_rvs (α := Float) a[0]! a[1]! a[2]! a[3]! a[4]! a[5]!); [r.1, r.2]) else none
  | "field_delta" => if a.size = 4 ∧ b.size = 0 then some (let r := (field_delta (α := Float) a[0]! a[1]! a[2]! a[3]!); [r.1, r.2]) else none
  | "radial_pa" => if a.size = 2 ∧ b.size = 0 then some ([(radial_pa (α := Float) a[0]! a[1]!)]) else none
  | "tangential_pa" => if a.size = 2 ∧ b.size = 0 then some ([(tangential_pa (α := Float) a[0]! a[1]!)]) else none
  | _ => none

end Gen
