import IxpeVerif.RealInst
import IxpeVerif.Model.Kislat
import IxpeVerif.Model.Vec
import IxpeVerif.Lemmas.Basic
import IxpeVerif.Gen.AnaGen
/-!
# T-tie of the event-list layer of `xStokesAnalysis` (C02)

`Gen/AnaGen.lean` is the vectorised numpy code of the constructor, of the masked reductions and of the row of `polarization_table`, regenerated from
the source on lists.  Here: on arrays that are the columns of one list of events, the generated constructor yields the columns of the model
`Kislat.prep`, the generated reductions the sums of `Kislat.binSums`, the generated row the quantities of `Kislat.row` in the order of the
column names.
-/
open Real
noncomputable section
namespace AnaTie
open Kislat

variable {γ β δ ε : Type}

theorem sel_map (l : List γ) (f : γ → β) (m : γ → Bool) : Vec.sel (l.map f) (l.map m) = (l.filter m).map f := by
  induction l with
  | nil => rfl
  | cons x xs ih =>
    unfold Vec.sel at ih ⊢
    cases h : m x <;> simp [h, ih]

theorem zipWith_map_map (op : β → δ → ε) (l : List γ) (f : γ → β) (g : γ → δ) :
    List.zipWith op (l.map f) (l.map g) = l.map fun x => op (f x) (g x) := by
  induction l <;> simp_all

theorem vand_map (l : List γ) (f g : γ → Bool) : Vec.vand (l.map f) (l.map g) = l.map fun x => f x && g x := zipWith_map_map _ l f g
theorem vor_map (l : List γ) (f g : γ → Bool) : Vec.vor (l.map f) (l.map g) = l.map fun x => f x || g x := zipWith_map_map _ l f g
theorem vnot_map (l : List γ) (f : γ → Bool) : Vec.vnot (l.map f) = l.map fun x => !f x := by simp [Vec.vnot]
theorem vmul_map (l : List γ) (f g : γ → ℝ) : Vec.vmul (l.map f) (l.map g) = l.map fun x => f x * g x := zipWith_map_map _ l f g
theorem vdiv_map (l : List γ) (f g : γ → ℝ) : Vec.vdiv (l.map f) (l.map g) = l.map fun x => f x / g x := zipWith_map_map _ l f g
theorem vsq_map (l : List γ) (f : γ → ℝ) : Vec.vsq (l.map f) = l.map fun x => f x * f x := by simp [Vec.vsq]
theorem trues_length (l : List γ) : Vec.trues l.length = l.map fun _ => true := by simp [Vec.trues]
theorem full_length (l : List γ) (c : ℝ) : Vec.full l.length c = l.map fun _ => c := by simp [Vec.full]

theorem count_map_zero (l : List γ) (p : γ → Bool) (h : Vec.count (l.map p) = 0) : ∀ x ∈ l, p x = false := by
  intro x hx
  unfold Vec.count at h
  have := List.length_eq_zero_iff.mp h
  rw [List.filter_eq_nil_iff] at this
  have h2 := this (p x) (List.mem_map_of_mem hx)
  simpa using h2

/-- `if num_events > 0: mask *= …`: when no element is flagged the update is the identity anyway -/
theorem ite_count_map (l : List γ) (p : γ → Bool) (f g : γ → β) (h : ∀ x, p x = false → g x = f x) :
    (if decide (0 < Vec.count (l.map p)) = true then l.map f else l.map g) = l.map f := by
  by_cases hc : 0 < Vec.count (l.map p)
  · simp [hc]
  · simp only [hc, decide_false, Bool.false_eq_true, if_false]
    apply List.map_congr_left
    intro x hx
    exact h x (count_map_zero l p (by omega) x hx)

theorem vsum_eq (l : List ℝ) : Vec.vsum l = lsum l := rfl

theorem countR_map (l : List γ) (m : γ → Bool) : Vec.countR (α := ℝ) (l.map m) = ((l.filter m).length : ℝ) := by
  unfold Vec.countR
  rw [vsum_eq, lsum_eq_sum]
  have : ((l.map m).filter id).length = (l.filter m).length := by
    induction l with
    | nil => rfl
    | cons x xs ih => cases h : m x <;> simp [h] <;> simpa using ih
  rw [← this]
  generalize (l.map m).filter id = k
  induction k with
  | nil => simp
  | cons x xs ih =>
    simp only [List.map_cons, List.sum_cons, List.length_cons, ih]
    push_cast
    norm_num
    ring

/-- one event of the columns handed to the constructor, with the responses evaluated at its energy -/
def mkEv (modf aeff : ℝ → ℝ) (r : ℝ × ℝ × ℝ × ℝ) : Ev ℝ :=
  { q := r.1, u := r.2.1, e := r.2.2.1, w := r.2.2.2, mu := modf r.2.2.1, aeff := aeff r.2.2.1 }

/-- the analysis object built by the generated constructor from the columns (q, u, energy, weights) of `raw`; ℝ has no NaN -/
def genInit (raw : List (ℝ × ℝ × ℝ × ℝ)) (modf aeff : ℝ → ℝ) (livetime : ℝ) (useW acc : Bool) : Gen.Ana.State ℝ :=
  Gen.Ana.init (fun _ => false) (raw.map (·.1)) (raw.map (·.2.1)) (raw.map (·.2.2.1)) modf aeff livetime
    (if useW then some (raw.map (·.2.2.2)) else none) acc

/-- **the generated constructor yields the columns of the model `prep`**: for every event list, pair of response functions, weights on/off,
acceptance correction on/off -/
theorem gen_init_eq_model (raw : List (ℝ × ℝ × ℝ × ℝ)) (modf aeff : ℝ → ℝ) (livetime : ℝ) (useW acc : Bool) :
    let st := genInit raw modf aeff livetime useW acc
    let ps := prep useW acc (raw.map (mkEv modf aeff))
    st.energy = ps.map (·.e) ∧ st.w = ps.map (·.w) ∧ st.q = ps.map (·.q) ∧ st.u = ps.map (·.u) ∧ st.mu = ps.map (·.mu) := by
  intro st ps
  have hst : st = genInit raw modf aeff livetime useW acc := rfl
  unfold genInit Gen.Ana.init at hst
  simp only [List.length_map, List.map_map, Function.comp_def, trues_length, vor_map, vnot_map, vand_map] at hst
  rw [ite_count_map raw _ _ _ (by intro x; simp)] at hst
  simp only [vand_map] at hst
  rw [ite_count_map raw _ _ _ (by intro x; simp)] at hst
  simp only [sel_map, List.map_map, List.length_map, full_length, Function.comp_def] at hst
  have hps : ps = prep useW acc (raw.map (mkEv modf aeff)) := rfl
  unfold prep at hps
  simp only [List.filter_map, List.map_map, Function.comp_def, mkEv] at hps
  rw [hst, hps]
  cases useW <;> cases acc <;>
    simp only [sel_map, vdiv_map, vmul_map, Function.comp_def, List.map_map, Bool.true_and, Bool.or_self, Bool.not_false, Bool.and_true,
      Bool.false_eq_true, if_true, if_false] <;> exact ⟨rfl, rfl, rfl, rfl, rfl⟩

/-- an analysis object whose arrays are the columns of the prepared events `ps` -/
structure Cols (st : Gen.Ana.State ℝ) (ps : List (Prep ℝ)) : Prop where
  e : st.energy = ps.map (·.e)
  w : st.w = ps.map (·.w)
  q : st.q = ps.map (·.q)
  u : st.u = ps.map (·.u)
  mu : st.mu = ps.map (·.mu)

theorem gen_init_cols (raw : List (ℝ × ℝ × ℝ × ℝ)) (modf aeff : ℝ → ℝ) (livetime : ℝ) (useW acc : Bool) :
    Cols (genInit raw modf aeff livetime useW acc) (prep useW acc (raw.map (mkEv modf aeff))) := by
  obtain ⟨h1, h2, h3, h4, h5⟩ := gen_init_eq_model raw modf aeff livetime useW acc
  exact ⟨h1, h2, h3, h4, h5⟩

variable {st : Gen.Ana.State ℝ} {ps : List (Prep ℝ)}

/-- `_energy_mask`: the generated mask is the bin predicate of the model, event by event -/
theorem gen_energy_mask_eq (h : Cols st ps) (emin emax : ℝ) : Gen.Ana.energy_mask st emin emax = ps.map (inBin emin emax) := by
  unfold Gen.Ana.energy_mask inBin
  rw [h.e]
  simp only [List.map_map, Function.comp_def, vand_map]

theorem gen_sum_stokes_eq (h : Cols st ps) (m : Prep ℝ → Bool) :
    Gen.Ana.sum_stokes_parameters st (ps.map m) = ((sums (ps.filter m)).I, (sums (ps.filter m)).Q, (sums (ps.filter m)).U) := by
  unfold Gen.Ana.sum_stokes_parameters sums
  rw [h.w, h.q, h.u]
  simp only [sel_map, vsum_eq]

theorem gen_w2_eq (h : Cols st ps) (m : Prep ℝ → Bool) : Gen.Ana.w2 st (ps.map m) = (sums (ps.filter m)).W2 := by
  unfold Gen.Ana.w2 sums
  rw [h.w]
  simp only [sel_map, vsq_map, vsum_eq]

theorem gen_effective_mu_eq (h : Cols st ps) (m : Prep ℝ → Bool) :
    Gen.Ana.effective_mu st (ps.map m) = (sums (ps.filter m)).muW / (sums (ps.filter m)).I := by
  unfold Gen.Ana.effective_mu Gen.Ana.weighted_average sums
  rw [h.w, h.mu]
  simp only [sel_map, vmul_map, vsum_eq]

theorem gen_average_energy_eq (h : Cols st ps) (m : Prep ℝ → Bool) :
    Gen.Ana.average_energy st (ps.map m) = (sums (ps.filter m)).eW / (sums (ps.filter m)).I := by
  unfold Gen.Ana.average_energy Gen.Ana.weighted_average sums
  rw [h.w, h.e]
  simp only [sel_map, vmul_map, vsum_eq]

end AnaTie
end
