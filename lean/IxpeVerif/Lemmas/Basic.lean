import IxpeVerif.RealInst
import IxpeVerif.Model.Kislat
import Mathlib.Algebra.BigOperators.Group.List.Basic

/-! Small shared lemmas: the left-fold sum of the models is `List.sum` at ℝ. -/

theorem foldl_add_eq (xs : List ℝ) (a : ℝ) : xs.foldl (· + ·) a = a + xs.sum := by
  induction xs generalizing a with
  | nil => simp
  | cons x xs ih => simp [List.foldl_cons, ih, add_assoc]

theorem lsum_eq_sum (xs : List ℝ) : Kislat.lsum xs = xs.sum := by
  unfold Kislat.lsum
  rl_simp
  rw [foldl_add_eq]; norm_num
