import Mathlib.Tactic.IntervalCases
import IxpeVerif.Model.Calendar
/-! Lemmas on the calendar model (C19): the era/day-of-era conversions are mutually inverse and produce valid dates. -/
namespace Cal

/-- the year-of-era formula picks the year whose span contains the day, for every day of the 400-year era -/
theorem yoe_bounds (doe : Int) (h0 : 0 ≤ doe) (h1 : doe < 146097) :
    0 ≤ yoeOfDoe doe ∧ yoeOfDoe doe < 400 ∧ yearStart (yoeOfDoe doe) ≤ doe ∧
      (doe - yearStart (yoeOfDoe doe) ≤ 364 ∨
        ((yoeOfDoe doe + 1) % 4 = 0 ∧ ((yoeOfDoe doe + 1) % 100 ≠ 0 ∨ yoeOfDoe doe + 1 = 400) ∧ doe - yearStart (yoeOfDoe doe) = 365)) := by
  unfold yearStart yoeOfDoe
  refine ⟨by omega, by omega, ?_⟩
  have he : 0 ≤ doe / 1460 ∧ doe / 1460 ≤ 100 := by omega
  obtain ⟨e, hE⟩ : ∃ e, e = doe / 1460 := ⟨_, rfl⟩
  rw [← hE] at he
  obtain ⟨he0, he1⟩ := he
  interval_cases e <;> first
    | omega
    | (rcases (show doe / 36524 = 0 ∨ doe / 36524 = 1 ∨ doe / 36524 = 2 ∨ doe / 36524 = 3 ∨ doe / 36524 = 4 by omega)
        with h | h | h | h | h <;> omega)

theorem monthDay_spec (doy : Int) (h0 : 0 ≤ doy) (h1 : doy ≤ 365) :
    doyOfMonthDay (monthDayOfDoy doy).1 (monthDayOfDoy doy).2 = doy ∧
    1 ≤ (monthDayOfDoy doy).1 ∧ (monthDayOfDoy doy).1 ≤ 12 ∧ 1 ≤ (monthDayOfDoy doy).2 ∧ (monthDayOfDoy doy).2 ≤ 31 ∧
    ((monthDayOfDoy doy).1 ≤ 2 ↔ 306 ≤ doy) := by
  simp only [doyOfMonthDay, monthDayOfDoy]
  split_ifs <;> omega

theorem monthDay_len (doy : Int) (h0 : 0 ≤ doy) (h1 : doy ≤ 365) :
    ∃ m d, monthDayOfDoy doy = (m, d) ∧ 1 ≤ m ∧ m ≤ 12 ∧ 1 ≤ d ∧ (m ≤ 2 ↔ 306 ≤ doy) ∧ (m = 2 → d = doy - 336) ∧
      (m ≠ 2 → d ≤ (if m = 4 ∨ m = 6 ∨ m = 9 ∨ m = 11 then 30 else 31)) := by
  have hmp : 0 ≤ (5 * doy + 2) / 153 ∧ (5 * doy + 2) / 153 ≤ 11 := by omega
  obtain ⟨mp, hE⟩ : ∃ mp, mp = (5 * doy + 2) / 153 := ⟨_, rfl⟩
  rw [← hE] at hmp
  refine ⟨if mp < 10 then mp + 3 else mp - 9, doy - (153 * mp + 2) / 5 + 1, by subst hE; rfl, ?_⟩
  obtain ⟨a, b⟩ := hmp
  interval_cases mp <;> simp <;> omega

end Cal
