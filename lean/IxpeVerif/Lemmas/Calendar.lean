import Mathlib.Tactic.IntervalCases
import IxpeVerif.Model.Calendar
/-! Lemmas on the calendar model (C19): the era/day-of-era conversions are mutually inverse and produce valid dates. -/
namespace Cal

/-- the year-of-era formula picks the year whose span contains the day, for every day of the 400-year era -/
theorem yoe_bounds (doe : Int) (h0 : 0 ≤ doe) (h1 : doe < 146097) :
    0 ≤ yoeOfDoe doe ∧ yoeOfDoe doe < 400 ∧ yearStart (yoeOfDoe doe) ≤ doe ∧
      (doe - yearStart (yoeOfDoe doe) ≤ 364 ∨
        ((yoeOfDoe doe + 1) % 4 = 0 ∧ ((yoeOfDoe doe + 1) % 100 ≠ 0 ∨ yoeOfDoe doe + 1 = 400) ∧ doe - yearStart (yoeOfDoe doe) = 365)) := by
  unfold yearStart yoeOfDoe
  refine ⟨by omega, by omega, ?_⟩
  have he : 0 ≤ doe / 1460 ∧ doe / 1460 ≤ 100 := by omega
  obtain ⟨e, hE⟩ : ∃ e, e = doe / 1460 := ⟨_, rfl⟩
  rw [← hE] at he
  obtain ⟨he0, he1⟩ := he
  interval_cases e <;> first
    | omega
    | (rcases (show doe / 36524 = 0 ∨ doe / 36524 = 1 ∨ doe / 36524 = 2 ∨ doe / 36524 = 3 ∨ doe / 36524 = 4 by omega)
        with h | h | h | h | h <;> omega)

theorem monthDay_spec (doy : Int) (h0 : 0 ≤ doy) (h1 : doy ≤ 365) :
    doyOfMonthDay (monthDayOfDoy doy).1 (monthDayOfDoy doy).2 = doy ∧
    1 ≤ (monthDayOfDoy doy).1 ∧ (monthDayOfDoy doy).1 ≤ 12 ∧ 1 ≤ (monthDayOfDoy doy).2 ∧ (monthDayOfDoy doy).2 ≤ 31 ∧
    ((monthDayOfDoy doy).1 ≤ 2 ↔ 306 ≤ doy) := by
  simp only [doyOfMonthDay, monthDayOfDoy]
  split_ifs <;> omega

theorem monthDay_len (doy : Int) (h0 : 0 ≤ doy) (h1 : doy ≤ 365) :
    ∃ m d, monthDayOfDoy doy = (m, d) ∧ 1 ≤ m ∧ m ≤ 12 ∧ 1 ≤ d ∧ (m ≤ 2 ↔ 306 ≤ doy) ∧ (m = 2 → d = doy - 336) ∧
      (m ≠ 2 → d ≤ (if m = 4 ∨ m = 6 ∨ m = 9 ∨ m = 11 then 30 else 31)) := by
  have hmp : 0 ≤ (5 * doy + 2) / 153 ∧ (5 * doy + 2) / 153 ≤ 11 := by omega
  obtain ⟨mp, hE⟩ : ∃ mp, mp = (5 * doy + 2) / 153 := ⟨_, rfl⟩
  rw [← hE] at hmp
  refine ⟨if mp < 10 then mp + 3 else mp - 9, doy - (153 * mp + 2) / 5 + 1, by subst hE; rfl, ?_⟩
  obtain ⟨a, b⟩ := hmp
  interval_cases mp <;> simp <;> omega

theorem yearStart_succ (y : Int) :
    yearStart (y + 1) = yearStart y + 365 + (if (y + 1) % 4 = 0 ∧ (y + 1) % 100 ≠ 0 then 1 else 0) := by
  unfold yearStart
  split_ifs <;> omega

theorem yearStart_mono (a b : Int) (h : a ≤ b) : yearStart a ≤ yearStart b := by
  unfold yearStart; omega

/-- the year-of-era formula is the unique year whose span contains the day -/
theorem yoe_unique (doe yoe : Int) (hy0 : 0 ≤ yoe) (hy1 : yoe < 400) (h0 : yearStart yoe ≤ doe)
    (h1 : doe - yearStart yoe ≤ 364 ∨ ((yoe + 1) % 4 = 0 ∧ ((yoe + 1) % 100 ≠ 0 ∨ yoe + 1 = 400) ∧ doe - yearStart yoe = 365)) :
    yoeOfDoe doe = yoe := by
  have hd0 : 0 ≤ doe := by unfold yearStart at h0; omega
  have hd1 : doe < 146097 := by unfold yearStart at h1; omega
  obtain ⟨a0, a1, a2, a3⟩ := yoe_bounds doe hd0 hd1
  generalize yoeOfDoe doe = Y at *
  by_contra hne
  rcases Int.lt_or_gt_of_ne hne with hlt | hgt
  · -- Y < yoe
    have hm := yearStart_mono (Y + 1) yoe (by omega)
    have hs := yearStart_succ Y
    split_ifs at hs <;> omega
  · have hm := yearStart_mono (yoe + 1) Y (by omega)
    have hs := yearStart_succ yoe
    split_ifs at hs <;> omega


theorem monthDay_of_doy (m d : Int) (hm0 : 1 ≤ m) (hm1 : m ≤ 12) (hd0 : 1 ≤ d)
    (hd1 : d ≤ (if m = 2 then 29 else if m = 4 ∨ m = 6 ∨ m = 9 ∨ m = 11 then 30 else 31)) :
    monthDayOfDoy (doyOfMonthDay m d) = (m, d) ∧ 0 ≤ doyOfMonthDay m d ∧ doyOfMonthDay m d ≤ 365 ∧
      (doyOfMonthDay m d = 365 ↔ (m = 2 ∧ d = 29)) ∧ (m ≤ 2 ↔ 306 ≤ doyOfMonthDay m d) := by
  interval_cases m <;> simp [monthDayOfDoy, doyOfMonthDay] at * <;> omega


end Cal
