import IxpeVerif.Gen.Imp
import IxpeVerif.Model.Gti
import IxpeVerif.Model.EventList
import IxpeVerif.Model.Livetime
/-!
# T-tie of the discrete bookkeeping: the definitions generated from the loops and array statements of the source (`Gen/Imp.lean`,
`translator/imptrans.py`) are the hand-written models, for every input (core Lean only)

`gen_bin_gti_eq_model`, `gen_total_good_time_eq_model`, `gen_complement_eq_model`, `gen_filter_event_times_eq_model`,
`gen_apply_dead_time_eq_model`, `gen_fill_livetime_eq_model`.  The property files restate their theorems on the generated definitions.
-/
namespace ImpTie
open Gen.Imp

/-- a loop whose state carries a `break` flag: once the flag is up the state no longer moves -/
theorem foldl_broken {σ α : Type} (f : σ × Bool → α → σ × Bool) (hb : ∀ s x, f (s, true) x = (s, true)) :
    ∀ (l : List α) (s : σ), l.foldl f (s, true) = (s, true)
  | [], _ => rfl
  | x :: rest, s => by simp only [List.foldl_cons, hb]; exact foldl_broken f hb rest s

theorem bin_gti_fold (emin emax : Int) (f : Int × Bool → Int × Int → Int × Bool)
    (hb : ∀ s x, f (s, true) x = (s, true))
    (hs : ∀ dt start stop, f (dt, false) (start, stop) =
      if start ≥ emin ∧ stop ≤ emax then (dt + (stop - start), false)
      else if start ≥ emin ∧ stop > emax then (if start ≥ emax then (dt, true) else (dt + (emax - start), true))
      else if start < emin ∧ stop > emax then (dt + (emax - emin), true)
      else if start < emin ∧ stop ≤ emax then (if stop ≤ emin then (dt, false) else (dt + (stop - emin), false))
      else (dt, false)) :
    ∀ (l : List (Int × Int)) (dt : Int), (l.foldl f (dt, false)).1 = dt + Gti.binGti emin emax l := by
  intro l
  induction l with
  | nil => intro dt; simp [Gti.binGti]
  | cons g rest ih =>
    intro dt
    obtain ⟨start, stop⟩ := g
    simp only [List.foldl_cons, Gti.binGti, hs]
    split
    · rw [ih]; omega
    · split
      · split
        · rw [foldl_broken f hb]; omega
        · rw [foldl_broken f hb]
      · split
        · rw [foldl_broken f hb]
        · split
          · split
            · rw [ih]
            · rw [ih]; omega
          · rw [ih]

theorem gen_bin_gti_eq_model (emin emax : Int) (starts stops : List Int) :
    bin_gti emin emax starts stops = Gti.binGti emin emax (List.zip starts stops) := by
  unfold bin_gti Np.loop
  refine (bin_gti_fold emin emax _ ?_ ?_ (List.zip starts stops) 0).trans (by omega)
  · intro s x; rfl
  · intro dt start stop; simp

/-! ### GTI list: total, complement, filter -/

theorem gen_total_good_time_eq_model (l : List (Int × Int)) : total_good_time l = Gti.total l := rfl

theorem pairUp_dropLast (e0 : Int) : ∀ (s0 : Int) (rest : List (Int × Int)),
    Np.pairUp ((e0 :: Np.flattenPairs rest).dropLast) = Gti.complement ((s0, e0) :: rest)
  | _, [] => by simp [Np.flattenPairs, Np.pairUp, Gti.complement]
  | s0, (s1, e1) :: r => by
    have ih := pairUp_dropLast e1 s1 r
    simp only [Np.flattenPairs, List.flatMap_cons, List.cons_append, List.nil_append] at ih ⊢
    rw [List.dropLast_cons_of_ne_nil (by simp), List.dropLast_cons_of_ne_nil (by simp)]
    simp only [Np.pairUp, Gti.complement]
    rw [ih]

theorem gen_complement_eq_model (l : List (Int × Int)) : gti_complement l = Gti.complement l := by
  unfold gti_complement all_mets Np.inner
  match l with
  | [] => simp [Np.flattenPairs, Np.pairUp, Gti.complement]
  | (s0, e0) :: rest =>
    have := pairUp_dropLast e0 s0 rest
    simpa [Np.flattenPairs] using this

theorem compress_map_eq_filter (p : Int → Bool) : ∀ ts : List Int, Np.compress (ts.map p) ts = ts.filter p
  | [] => rfl
  | t :: rest => by
    simp only [List.map_cons, Np.compress, List.filter_cons, compress_map_eq_filter p rest]

theorem filter_fold (ts : List Int) : ∀ (gtis : List (Int × Int)) (m0 : Int → Bool),
    gtis.foldl (fun (mask : List Bool) ((start, stop) : Int × Int) =>
        Np.putMask mask (Np.andVV (Np.geVS ts start) (Np.leVS ts stop)) true) (ts.map m0)
      = ts.map fun t => m0 t || Gti.inSome gtis t
  | [], m0 => by simp [Gti.inSome]
  | (s, e) :: rest, m0 => by
    simp only [List.foldl_cons]
    have : Np.putMask (ts.map m0) (Np.andVV (Np.geVS ts s) (Np.leVS ts e)) true
        = ts.map fun t => m0 t || (decide (s ≤ t) && decide (t ≤ e)) := by
      simp only [Np.putMask, Np.andVV, Np.geVS, Np.leVS]
      induction ts with
      | nil => rfl
      | cons t r ih =>
        simp only [List.map_cons, List.zipWith_cons_cons, ih]
        congr 1
        cases m0 t <;> simp
    rw [this, filter_fold ts rest]
    apply List.map_congr_left
    intro t _
    simp [Gti.inSome, Bool.or_assoc]

theorem gen_filter_event_times_eq_model (gtis : List (Int × Int)) (ts : List Int) :
    filter_event_times gtis ts = Gti.filterTimes gtis ts := by
  unfold filter_event_times Np.loop Gti.filterTimes
  have h0 : Np.full (Np.len ts) false = ts.map fun _ => false := by
    simp [Np.full, Np.len]
    induction ts with
    | nil => rfl
    | cons t r ih => simp [List.replicate_succ, ih]
  have := filter_fold ts gtis (fun _ => false)
  simp only [Bool.false_or] at this
  simp only [h0]
  rw [show (List.foldl (fun (st : List Bool) (x : Int × Int) =>
        match x with
        | (start, stop) =>
          let mask := st
          let mask : List Bool := Np.putMask mask (Np.andVV (Np.geVS ts start) (Np.leVS ts stop)) true
          mask) (ts.map fun _ => false) gtis) = ts.map (Gti.inSome gtis) from this]
  rw [compress_map_eq_filter]

/-! ### `apply_dead_time`: the index loop computes the mask of the sequential veto -/

def vetoMaskGo (dead : Int) : Int → List Int → List Bool
  | _, [] => []
  | last, t :: ts => if t - last < dead then false :: vetoMaskGo dead last ts else true :: vetoMaskGo dead t ts

def vetoMask (dead : Int) : List Int → List Bool
  | [] => []
  | t :: ts => true :: vetoMaskGo dead t ts

theorem compress_vetoMaskGo (dead : Int) : ∀ (last : Int) (rows : List EvL.Row),
    Np.compress (vetoMaskGo dead last (rows.map (·.time))) rows = EvL.vetoGo dead last rows
  | _, [] => rfl
  | last, r :: rs => by
    simp only [List.map_cons, vetoMaskGo, EvL.vetoGo]
    split
    · simp [Np.compress, compress_vetoMaskGo dead last rs]
    · simp [Np.compress, compress_vetoMaskGo dead r.time rs]

theorem compress_vetoMask (dead : Int) : ∀ rows : List EvL.Row,
    Np.compress (vetoMask dead (rows.map (·.time))) rows = EvL.veto dead rows
  | [] => rfl
  | r :: rs => by simp [vetoMask, Np.compress, EvL.veto, compress_vetoMaskGo]

theorem range_cons (a b : Int) (h : a < b) : Np.range a b = a :: Np.range (a + 1) b := by
  unfold Np.range
  obtain ⟨n, hn⟩ : ∃ n : Nat, (b - a).toNat = n + 1 := ⟨(b - a).toNat - 1, by omega⟩
  have h2 : (b - (a + 1)).toNat = n := by omega
  rw [hn, h2, List.range_succ_eq_map]
  simp only [List.map_cons, List.map_map]
  congr 1
  · simp
  · apply List.map_congr_left; intro k _; simp; omega

theorem range_nil (a : Int) : Np.range a a = [] := by simp [Np.range]

theorem getI_append (pre : List Int) (t : Int) (s : List Int) : Np.getI (pre ++ t :: s) (pre.length : Int) = t := by
  unfold Np.getI Np.wrap
  have h1 : ¬ ((pre.length : Int) < -((pre ++ t :: s).length : Int) ∨ ((pre ++ t :: s).length : Int) ≤ (pre.length : Int)) := by
    simp only [List.length_append, List.length_cons]; omega
  have h2 : ¬ ((pre.length : Int) < 0) := by omega
  simp only [h1, h2, if_false, Int.toNat_natCast]
  simp [List.getD_eq_getElem?_getD]

theorem setI_append {α : Type} (pre : List α) (x v : α) (r : List α) : Np.setI (pre ++ x :: r) (pre.length : Int) v = pre ++ v :: r := by
  unfold Np.setI Np.wrap
  have h1 : ¬ ((pre.length : Int) < -((pre ++ x :: r).length : Int) ∨ ((pre ++ x :: r).length : Int) ≤ (pre.length : Int)) := by
    simp only [List.length_append, List.length_cons]; omega
  have h2 : ¬ ((pre.length : Int) < 0) := by omega
  simp only [h1, h2, if_false, Int.toNat_natCast]
  simp

theorem dead_time_fold (dead : Int) (time : List Int) (f : List Bool × Int → Int → List Bool × Int)
    (hf : ∀ good last i, f (good, last) i =
      if Np.getI time i - last < dead then (Np.setI good i false, last) else (good, Np.getI time i)) :
    ∀ (suf pre : List Int) (gpre : List Bool) (last : Int), time = pre ++ suf → gpre.length = pre.length →
      ((Np.range (pre.length : Int) ((pre.length : Int) + (suf.length : Int))).foldl f (gpre ++ List.replicate suf.length true, last)).1
        = gpre ++ vetoMaskGo dead last suf := by
  intro suf
  induction suf with
  | nil => intro pre gpre last _ _; simp [range_nil, vetoMaskGo]
  | cons t s ih =>
    intro pre gpre last ht hg
    have hlen : ((pre.length : Int) + ((t :: s).length : Int)) = (((pre ++ [t]).length : Nat) : Int) + (s.length : Int) := by
      simp only [List.length_cons, List.length_append, List.length_nil]; omega
    rw [range_cons _ _ (by simp only [List.length_cons]; omega), List.foldl_cons, hf]
    have hget : Np.getI time (pre.length : Int) = t := by rw [ht]; exact getI_append pre t s
    have ht' : time = (pre ++ [t]) ++ s := by rw [ht]; simp
    have hl1 : ((pre.length : Int) + 1) = (((pre ++ [t]).length : Nat) : Int) := by simp
    rw [hget, hl1, hlen]
    simp only [vetoMaskGo, List.length_cons, List.replicate_succ]
    split
    · rw [← hg, setI_append gpre true false]
      have := ih (pre ++ [t]) (gpre ++ [false]) last ht' (by simp [hg])
      simpa using this
    · have := ih (pre ++ [t]) (gpre ++ [true]) t ht' (by simp [hg])
      simpa using this

theorem gen_apply_dead_time_eq_mask (time : List Int) (dead : Int) : apply_dead_time time dead = vetoMask dead time := by
  unfold apply_dead_time Np.loop
  match time with
  | [] => simp [Np.len, vetoMask]
  | t0 :: rest =>
    have hne : ¬ (Np.len (t0 :: rest) = 0) := by simp [Np.len]; omega
    have e1 : Np.len (t0 :: rest) = (([t0] : List Int).length : Int) + (rest.length : Int) := by simp [Np.len]; omega
    have e2 : Np.full ((([t0] : List Int).length : Int) + (rest.length : Int)) true = [true] ++ List.replicate rest.length true := by
      have : ((([t0] : List Int).length : Int) + (rest.length : Int)).toNat = rest.length + 1 := by simp; omega
      unfold Np.full
      rw [this, List.replicate_succ]; rfl
    have e3 : Np.getI (t0 :: rest) 0 = t0 := by
      have h : ¬ ((0 : Int) < -((t0 :: rest).length : Int) ∨ ((t0 :: rest).length : Int) ≤ 0) := by simp only [List.length_cons]; omega
      unfold Np.getI Np.wrap
      rw [if_neg h]; simp
    have e4 : (1 : Int) = (([t0] : List Int).length : Int) := by simp
    simp only [hne, decide_false, Bool.false_eq_true, if_false, e3]
    rw [e1, e2]
    conv => lhs; rw [e4]
    refine (dead_time_fold dead (t0 :: rest) _ ?_ rest [t0] [true] t0 rfl rfl).trans ?_
    · intro good last i
      simp only [decide_eq_true_eq]
    · rfl

/-- **C04 T-tie**: trimming the event list with the mask computed by the generated `apply_dead_time` is the model's sequential veto -/
theorem gen_apply_dead_time_eq_model (rows : List EvL.Row) (dead : Int) :
    Np.compress (apply_dead_time (rows.map (·.time)) dead) rows = EvL.veto dead rows := by
  rw [gen_apply_dead_time_eq_mask, compress_vetoMask]

/-! ### `fill_livetime`: the vectorised numpy statements are the left fold of the line-by-line model -/

theorem diff_eq_diffs : ∀ l : List Int, Np.diff l = Livetime.diffs l
  | [] => rfl
  | [_] => rfl
  | a :: b :: rest => by simp only [Np.diff, Livetime.diffs, diff_eq_diffs (b :: rest)]

theorem setI_eq_set (dt : List Int) (k : Nat) (v : Int) :
    Np.setI dt ((k : Int) - 1) v = dt.set (if k = 0 then dt.length - 1 else k - 1) v := by
  unfold Np.setI Np.wrap
  by_cases hk : k = 0
  · subst hk
    simp only [if_true]
    by_cases hl : dt.length = 0
    · have : dt = [] := List.length_eq_zero_iff.mp hl
      subst this; simp
    · have h1 : ¬ (((0 : Nat) : Int) - 1 < -(dt.length : Int) ∨ (dt.length : Int) ≤ ((0 : Nat) : Int) - 1) := by omega
      have h2 : ((0 : Nat) : Int) - 1 < 0 := by omega
      rw [if_neg h1, if_pos h2]
      congr 1; omega
  · simp only [hk, if_false]
    by_cases hl : dt.length ≤ k - 1
    · have h1 : ((k : Int) - 1 < -(dt.length : Int) ∨ (dt.length : Int) ≤ (k : Int) - 1) := by omega
      rw [if_pos h1, List.set_eq_of_length_le hl]
    · have h1 : ¬ ((k : Int) - 1 < -(dt.length : Int) ∨ (dt.length : Int) ≤ (k : Int) - 1) := by omega
      have h2 : ¬ ((k : Int) - 1 < 0) := by omega
      rw [if_neg h1, if_neg h2]
      congr 1; omega

theorem getI_of_getElem? (met : List Int) (k : Nat) (m : Int) (h : met[k]? = some m) : Np.getI met (k : Int) = m := by
  have hk : k < met.length := by
    rcases Nat.lt_or_ge k met.length with h' | h'
    · exact h'
    · rw [List.getElem?_eq_none h'] at h; exact absurd h (by simp)
  unfold Np.getI Np.wrap
  have h1 : ¬ ((k : Int) < -(met.length : Int) ∨ (met.length : Int) ≤ (k : Int)) := by omega
  have h2 : ¬ ((k : Int) < 0) := by omega
  rw [if_neg h1, if_neg h2]
  simp [List.getD_eq_getElem?_getD, h]

theorem put_eq_fold (met : List Int) (dead : Int) : ∀ (starts dt : List Int),
    Np.put dt
        (Np.subVS (Np.compress (Np.ltVS (Np.searchsortedRight met starts) (Np.len met)) (Np.searchsortedRight met starts)) 1)
        (Np.addVS (Np.subVV (Np.take met (Np.compress (Np.ltVS (Np.searchsortedRight met starts) (Np.len met)) (Np.searchsortedRight met starts)))
          (Np.compress (Np.ltVS (Np.searchsortedRight met starts) (Np.len met)) starts)) dead)
      = starts.foldl (Livetime.stepLW met dead) dt
  | [], dt => by simp [Np.searchsortedRight, Np.ltVS, Np.compress, Np.subVS, Np.take, Np.subVV, Np.addVS, Np.put]
  | s :: rest, dt => by
    have ih := put_eq_fold met dead rest
    simp only [Np.searchsortedRight, Np.ltVS, List.map_cons] at ih ⊢
    simp only [List.foldl_cons, Livetime.stepLW]
    have hk : Np.searchRight1 met s = ((Livetime.searchRight met s : Nat) : Int) := rfl
    rw [hk]
    generalize Livetime.searchRight met s = k
    by_cases hlt : k < met.length
    · have hd : decide (((k : Nat) : Int) < Np.len met) = true := by simp [Np.len]; omega
      obtain ⟨m, hm⟩ : ∃ m, met[k]? = some m := ⟨met[k], List.getElem?_eq_getElem hlt⟩
      simp only [hd, Np.compress, if_true, Np.subVS, Np.take, Np.subVV, Np.addVS, List.map_cons, List.zipWith_cons_cons, Np.put, hm]
      rw [getI_of_getElem? met k m hm, setI_eq_set]
      exact ih _
    · have hd : decide (((k : Nat) : Int) < Np.len met) = false := by simp [Np.len]; omega
      have hn : met[k]? = none := List.getElem?_eq_none (by omega)
      simp only [hd, Np.compress, Bool.false_eq_true, if_false, hn]
      exact ih _

/-- **C05 T-tie**: the generated `fill_livetime` is the LIVETIME column of the line-by-line model, for every input
(including GTI starts before the first element, where Python's negative index wraps) -/
theorem gen_fill_livetime_eq_model (s0 : Int) (starts times : List Int) (dead : Int) :
    fill_livetime s0 starts times dead = Livetime.livetimeColumn s0 starts times dead := by
  unfold fill_livetime Livetime.livetimeColumn Livetime.fillLivetimeW
  simp only [Np.append1]
  rw [put_eq_fold, diff_eq_diffs]
  simp only [Np.floorMicro, Np.subVS, List.map_map]
  rfl

end ImpTie
