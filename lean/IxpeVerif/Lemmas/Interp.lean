import Mathlib.Tactic.Ring
import Mathlib.Tactic.Linarith
import Mathlib.Tactic.FieldSimp
import Mathlib.Tactic.Positivity
import Mathlib.Algebra.Order.Field.Basic
import Mathlib.Data.Real.Basic

namespace Interp

/-! piecewise-linear interpolation through a node list and its inverse (C15 core) -/
variable {K : Type} [Field K] [LinearOrder K] [IsStrictOrderedRing K]

def seg (x0 y0 x1 y1 t : K) : K := y0 + (y1 - y0) * (t - x0) / (x1 - x0)

def interp : List (K × K) → K → K
  | [], _ => 0
  | [(_, y)], _ => y
  | (x0, y0) :: (x1, y1) :: rest, t =>
      if t ≤ x1 then seg x0 y0 x1 y1 t else interp ((x1, y1) :: rest) t

/-- strictly increasing in both coordinates -/
def StrictChain : List (K × K) → Prop
  | [] => True
  | [_] => True
  | (x0, y0) :: (x1, y1) :: rest => x0 < x1 ∧ y0 < y1 ∧ StrictChain ((x1, y1) :: rest)

theorem seg_mono {x0 y0 x1 y1 t : K} (hx : x0 < x1) (hy : y0 < y1) (h0 : x0 ≤ t) : y0 ≤ seg x0 y0 x1 y1 t := by
  unfold seg
  have : 0 ≤ (y1 - y0) * (t - x0) / (x1 - x0) := by
    apply div_nonneg (mul_nonneg (by linarith) (by linarith)) (by linarith)
  linarith

theorem seg_strict {x0 y0 x1 y1 t : K} (hx : x0 < x1) (hy : y0 < y1) (h0 : x0 < t) : y0 < seg x0 y0 x1 y1 t := by
  unfold seg
  have : 0 < (y1 - y0) * (t - x0) / (x1 - x0) := by
    apply div_pos (mul_pos (by linarith) (by linarith)) (by linarith)
  linarith

theorem seg_le {x0 y0 x1 y1 t : K} (hx : x0 < x1) (hy : y0 < y1) (h1 : t ≤ x1) : seg x0 y0 x1 y1 t ≤ y1 := by
  unfold seg
  have hd : 0 < x1 - x0 := by linarith
  have : (y1 - y0) * (t - x0) / (x1 - x0) ≤ (y1 - y0) := by
    rw [div_le_iff₀ hd]; nlinarith
  linarith

theorem seg_inv {x0 y0 x1 y1 t : K} (hx : x0 < x1) (hy : y0 < y1) :
    seg y0 x0 y1 x1 (seg x0 y0 x1 y1 t) = t := by
  unfold seg
  have hd : x1 - x0 ≠ 0 := by linarith [sub_pos.mpr hx] |> ne_of_gt
  have he : y1 - y0 ≠ 0 := by linarith [sub_pos.mpr hy] |> ne_of_gt
  field_simp
  ring

/-- value at a point strictly right of the first node is strictly above the first ordinate -/
theorem interp_gt_first : ∀ (x0 y0 : K) (rest : List (K × K)) (t : K),
    rest ≠ [] → StrictChain ((x0, y0) :: rest) → x0 < t → y0 < interp ((x0, y0) :: rest) t
  | x0, y0, [], t, h, _, _ => absurd rfl h
  | x0, y0, (x1, y1) :: rest, t, _, hc, ht => by
    obtain ⟨hx, hy, hc'⟩ := hc
    unfold interp
    split_ifs with h
    · exact seg_strict hx hy ht
    · have h : x1 < t := lt_of_not_ge h
      cases rest with
      | nil => simp [interp]; exact hy
      | cons p rest' =>
        have := interp_gt_first x1 y1 (p :: rest') t (by simp) hc' h
        linarith

theorem interp_two (x0 y0 x1 y1 : K) (rest : List (K × K)) (t : K) :
    interp ((x0, y0) :: (x1, y1) :: rest) t =
      if t ≤ x1 then seg x0 y0 x1 y1 t else interp ((x1, y1) :: rest) t := by
  rw [interp]

theorem interp_inv : ∀ (nodes : List (K × K)) (t : K), nodes ≠ [] → StrictChain nodes →
    (∀ p, nodes.head? = some p → p.1 ≤ t) →
    (∀ p, nodes.getLast? = some p → t ≤ p.1) →
    interp (nodes.map Prod.swap) (interp nodes t) = t
  | [], t, hne, _, _, _ => absurd rfl hne
  | [(x, y)], t, _, _, h0, h1 => by
    have a := h0 (x, y) rfl; have b := h1 (x, y) rfl
    simp [interp]; exact le_antisymm a b
  | (x0, y0) :: (x1, y1) :: rest, t, _, hc, h0, h1 => by
    obtain ⟨hx, hy, hc'⟩ := hc
    have ht0 : x0 ≤ t := h0 (x0, y0) rfl
    simp only [List.map, Prod.swap]
    by_cases h : t ≤ x1
    · have hv : interp ((x0, y0) :: (x1, y1) :: rest) t = seg x0 y0 x1 y1 t := by
        rw [interp_two, if_pos h]
      rw [hv, interp_two, if_pos (seg_le hx hy h)]
      exact seg_inv hx hy
    · have hlt : x1 < t := lt_of_not_ge h
      have hv : interp ((x0, y0) :: (x1, y1) :: rest) t = interp ((x1, y1) :: rest) t := by
        rw [interp_two, if_neg h]
      cases rest with
      | nil =>
        exfalso
        have := h1 (x1, y1) rfl
        simp at this; linarith
      | cons p rest' =>
        have hgt := interp_gt_first x1 y1 (p :: rest') t (by simp) hc' hlt
        rw [hv, interp_two, if_neg (not_le.mpr hgt)]
        have := interp_inv ((x1, y1) :: p :: rest') t (by simp) hc'
          (by intro q hq; simp at hq; subst hq; exact le_of_lt hlt)
          (by intro q hq; apply h1; simpa [List.getLast?_cons_cons] using hq)
        simpa [List.map, Prod.swap] using this

end Interp
