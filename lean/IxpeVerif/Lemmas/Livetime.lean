import IxpeVerif.Model.Livetime
/-! Helper lemmas for C05 (core Lean only): the fold-with-`set` closed form, `searchsorted(side='right')` on strictly
increasing lists, the "last hit" among increasing GTI starts, and the closed form of `fillLivetime`. -/
namespace Livetime

/-- value written for GTI start `s` at slot `j`, if `s` targets that slot -/
def hit (met : List Int) (dead : Int) (j : Nat) (s : Int) : Option Int :=
  let idx := searchRight met s
  match met[idx]? with
  | none => none
  | some m => if idx - 1 = j then some (m - s + dead) else none

/-- last hit among a list of starts -/
def lastHit (met : List Int) (dead : Int) (j : Nat) : List Int → Option Int
  | [] => none
  | s :: rest => match lastHit met dead j rest with
      | some v => some v
      | none => hit met dead j s

theorem stepL_getElem? (met : List Int) (dead : Int) (dt : List Int) (s : Int) (j : Nat) (hj : j < dt.length) :
    (stepL met dead dt s)[j]? = match hit met dead j s with | some v => some v | none => dt[j]? := by
  unfold stepL hit
  cases h : met[searchRight met s]? with
  | none => simp only [h]
  | some m =>
    simp only [h]
    by_cases hi : searchRight met s - 1 = j
    · simp [hi, List.getElem?_set, hj]
    · simp [hi, List.getElem?_set]

theorem stepL_length (met : List Int) (dead : Int) (dt : List Int) (s : Int) :
    (stepL met dead dt s).length = dt.length := by
  unfold stepL; cases h : met[searchRight met s]? <;> simp only [h] <;> simp

theorem fold_getElem? (met : List Int) (dead : Int) (j : Nat) :
    ∀ (starts : List Int) (acc : List Int), j < acc.length →
    (starts.foldl (stepL met dead) acc)[j]? =
      match lastHit met dead j starts with | some v => some v | none => acc[j]?
  | [], acc, _ => by simp [lastHit]
  | s :: rest, acc, hj => by
    simp only [List.foldl_cons, lastHit]
    have hj' : j < (stepL met dead acc s).length := by rw [stepL_length]; exact hj
    rw [fold_getElem? met dead j rest _ hj']
    cases lastHit met dead j rest with
    | some v => rfl
    | none => simp only; exact stepL_getElem? met dead acc s j hj

def StrictInc : List Int → Prop
  | [] => True
  | [_] => True
  | a :: b :: rest => a < b ∧ StrictInc (b :: rest)

theorem StrictInc.tail {a : Int} {l : List Int} (h : StrictInc (a :: l)) : StrictInc l := by
  cases l with
  | nil => trivial
  | cons b r => exact h.2

/-- in a strictly increasing list every later element is larger than the head -/
theorem StrictInc.head_lt {a : Int} : ∀ {l : List Int}, StrictInc (a :: l) → ∀ x ∈ l, a < x
  | [], _, x, hx => by simp at hx
  | b :: r, h, x, hx => by
    rcases List.mem_cons.mp hx with rfl | hx'
    · exact h.1
    · have := StrictInc.head_lt (a := b) h.2 x hx'
      have := h.1
      omega

/-- (B) characterisation of numpy.searchsorted(..., side='right') on a strictly increasing list -/
theorem searchRight_spec : ∀ (met : List Int) (s : Int) (k : Nat), StrictInc met →
    (searchRight met s = k ↔
      (k ≤ met.length ∧ (∀ i v, met[i]? = some v → i < k → v ≤ s) ∧ (∀ v, met[k]? = some v → s < v)))
  | [], s, k, _ => by
    simp [searchRight]; omega
  | a :: rest, s, k, hs => by
    unfold searchRight
    by_cases ha : a ≤ s
    · simp only [List.takeWhile_cons, ha, decide_true, if_true, List.length_cons]
      cases k with
      | zero =>
        constructor
        · intro h; omega
        · rintro ⟨_, _, h3⟩
          have := h3 a (by simp); omega
      | succ k' =>
        have ih := searchRight_spec rest s k' hs.tail
        unfold searchRight at ih
        rw [Nat.add_right_cancel_iff, ih]
        constructor
        · rintro ⟨h1, h2, h3⟩
          refine ⟨by omega, ?_, ?_⟩
          · intro i v hv hik
            cases i with
            | zero => simp at hv; omega
            | succ i' => exact h2 i' v (by simpa using hv) (by omega)
          · intro v hv; exact h3 v (by simpa using hv)
        · rintro ⟨h1, h2, h3⟩
          refine ⟨by omega, ?_, ?_⟩
          · intro i v hv hik
            exact h2 (i+1) v (by simpa using hv) (by omega)
          · intro v hv; exact h3 v (by simpa using hv)
    · have hlt : s < a := by omega
      have htw : (List.takeWhile (fun x => decide (x ≤ s)) (a :: rest)).length = 0 := by
        simp [List.takeWhile_cons, ha]
      rw [htw]
      constructor
      · intro h; subst h
        refine ⟨by simp, by intro i v _ hi; omega, ?_⟩
        intro v hv; simp at hv; omega
      · rintro ⟨_, h2, _⟩
        cases k with
        | zero => rfl
        | succ k' =>
          have := h2 0 a (by simp) (by omega)
          omega


/-- monotone indexing in a strictly increasing list -/
theorem StrictInc.getElem?_le : ∀ (l : List Int), StrictInc l → ∀ (i j : Nat) (a b : Int),
    l[i]? = some a → l[j]? = some b → i ≤ j → a ≤ b
  | [], _, i, j, a, b, ha, _, _ => by simp at ha
  | x :: rest, h, i, j, a, b, ha, hb, hij => by
    cases i with
    | zero =>
      simp at ha; subst ha
      cases j with
      | zero => simp at hb; omega
      | succ j' =>
        have hb' : rest[j']? = some b := by simpa using hb
        have := StrictInc.head_lt h b (List.mem_of_getElem? hb')
        omega
    | succ i' =>
      cases j with
      | zero => omega
      | succ j' =>
        exact StrictInc.getElem?_le rest h.tail i' j' a b (by simpa using ha) (by simpa using hb) (by omega)

theorem searchRight_pos (met : List Int) (s v : Int) (h0 : met[0]? = some v) (hv : v ≤ s) :
    1 ≤ searchRight met s := by
  cases met with
  | nil => simp at h0
  | cons a rest =>
    simp at h0; subst h0
    unfold searchRight
    simp [List.takeWhile_cons, hv]

/-- a GTI start (not before the observation start) qualifies for slot j iff it lies in [previous, this) -/
theorem hit_iff (met : List Int) (dead : Int) (j : Nat) (s p t v0 : Int) (hm : StrictInc met)
    (h0 : met[0]? = some v0) (hs0 : v0 ≤ s)
    (hp : met[j]? = some p) (ht : met[j+1]? = some t) :
    hit met dead j s = if p ≤ s ∧ s < t then some (t - s + dead) else none := by
  have hpos := searchRight_pos met s v0 h0 hs0
  unfold hit
  by_cases hq : p ≤ s ∧ s < t
  · have hk : searchRight met s = j + 1 := by
      rw [searchRight_spec met s (j+1) hm]
      refine ⟨?_, ?_, ?_⟩
      · have := (List.getElem?_eq_some_iff.mp ht).1; omega
      · intro i v hv hi
        have := StrictInc.getElem?_le met hm i j v p hv hp (by omega)
        omega
      · intro v hv; rw [ht] at hv; cases hv; exact hq.2
    simp only [hk, ht, if_pos hq]; simp
  · rw [if_neg hq]
    cases hm' : met[searchRight met s]? with
    | none => simp only [hm']
    | some m =>
      simp only [hm']
      by_cases hidx : searchRight met s - 1 = j
      · exfalso
        have hspec := (searchRight_spec met s (searchRight met s) hm).mp rfl
        have hk : searchRight met s = j + 1 := by omega
        rw [hk] at hm' hspec
        rw [ht] at hm'; cases hm'
        exact hq ⟨hspec.2.1 j p hp (by omega), hspec.2.2 t ht⟩
      · simp [hidx]


/-- last qualifying start, scanning like `lastHit` -/
def lastQ (p t : Int) : List Int → Option Int
  | [] => none
  | s :: rest => match lastQ p t rest with
      | some g => some g
      | none => if p ≤ s ∧ s < t then some s else none

theorem lastHit_eq (met : List Int) (dead : Int) (j : Nat) (p t v0 : Int) (hm : StrictInc met)
    (h0 : met[0]? = some v0) (hp : met[j]? = some p) (ht : met[j+1]? = some t) :
    ∀ (starts : List Int), (∀ s ∈ starts, v0 ≤ s) →
      lastHit met dead j starts = (lastQ p t starts).map (fun g => t - g + dead)
  | [], _ => rfl
  | s :: rest, hs => by
    have ih := lastHit_eq met dead j p t v0 hm h0 hp ht rest (fun x hx => hs x (List.mem_cons_of_mem _ hx))
    simp only [lastHit, lastQ, ih]
    cases lastQ p t rest with
    | some g => rfl
    | none =>
      simp only [Option.map]
      rw [hit_iff met dead j s p t v0 hm h0 (hs s List.mem_cons_self) hp ht]
      split <;> rfl

/-- (C/D) for increasing starts the last qualifying one is the greatest start in [p, t) -/
theorem lastQ_spec (p t : Int) : ∀ (starts : List Int), StrictInc starts →
    (∀ g, lastQ p t starts = some g → g ∈ starts ∧ p ≤ g ∧ g < t ∧ ∀ s ∈ starts, s < t → s ≤ g) ∧
    (lastQ p t starts = none → ∀ s ∈ starts, ¬ (p ≤ s ∧ s < t))
  | [], _ => by simp [lastQ]
  | s :: rest, hs => by
    have ih := lastQ_spec p t rest hs.tail
    have hlt := StrictInc.head_lt hs
    simp only [lastQ]
    cases hr : lastQ p t rest with
    | some g =>
      have ⟨hg1, hg2, hg3, hg4⟩ := ih.1 g hr
      refine ⟨?_, by simp⟩
      intro g' hg'; simp at hg'; subst hg'
      refine ⟨List.mem_cons_of_mem _ hg1, hg2, hg3, ?_⟩
      intro x hx hxt
      rcases List.mem_cons.mp hx with rfl | hx'
      · have := hlt g hg1; omega
      · exact hg4 x hx' hxt
    | none =>
      have hnone := ih.2 hr
      by_cases hq : p ≤ s ∧ s < t
      · simp only [if_pos hq]
        refine ⟨?_, by simp⟩
        intro g' hg'; simp at hg'; subst hg'
        refine ⟨List.mem_cons_self, hq.1, hq.2, ?_⟩
        intro x hx hxt
        rcases List.mem_cons.mp hx with rfl | hx'
        · omega
        · exfalso
          have h1 := hlt x hx'
          exact hnone x hx' ⟨by omega, hxt⟩
      · simp only [if_neg hq]
        refine ⟨by simp, ?_⟩
        intro _ x hx
        rcases List.mem_cons.mp hx with rfl | hx'
        · exact hq
        · exact hnone x hx'

theorem diffs_getElem? : ∀ (met : List Int) (j : Nat) (p t : Int), met[j]? = some p → met[j+1]? = some t →
    (diffs met)[j]? = some (t - p)
  | [], j, p, t, hp, _ => by simp at hp
  | [a], j, p, t, _, ht => by simp at ht
  | a :: b :: rest, j, p, t, hp, ht => by
    cases j with
    | zero => simp at hp ht; subst hp; subst ht; simp [diffs]
    | succ j' =>
      simp only [diffs, List.getElem?_cons_succ]
      exact diffs_getElem? (b :: rest) j' p t (by simpa using hp) (by simpa using ht)

theorem diffs_length : ∀ (met : List Int), (diffs met).length = met.length - 1
  | [] => rfl
  | [a] => rfl
  | a :: b :: rest => by simp [diffs, diffs_length (b :: rest)]

/-- closed form of the (repaired) `fill_livetime`, slot by slot -/
theorem fill_closed_form (s0 dead : Int) (starts times : List Int) (j : Nat) (p t : Int)
    (hm : StrictInc (s0 :: times)) (hs : ∀ s ∈ starts, s0 ≤ s)
    (hp : (s0 :: times)[j]? = some p) (ht : (s0 :: times)[j+1]? = some t) :
    (fillLivetime s0 starts times dead)[j]? =
      some (match lastQ p t starts with | some g => t - g | none => t - p - dead) := by
  unfold fillLivetime
  simp only [List.getElem?_map]
  have hjlen : j < (diffs (s0 :: times)).length := by
    rw [diffs_length]
    have := (List.getElem?_eq_some_iff.mp ht).1
    simp at this ⊢; omega
  rw [fold_getElem? (s0 :: times) dead j starts _ hjlen,
      lastHit_eq (s0 :: times) dead j p t s0 hm (by simp) hp ht starts hs,
      diffs_getElem? (s0 :: times) j p t hp ht]
  cases lastQ p t starts with
  | some g => simp <;> omega
  | none => simp

end Livetime
