import Mathlib.Data.List.Forall2
import Mathlib.Data.List.GetD
import IxpeVerif.Model.NdArray
/-! Lemmas on the dense-array model: index enumeration, row-major offsets, flat buffers, transposition (C19). -/
namespace Nd
open List

theorem T_T {α} (a : Arr α) : a.T.T = a := by
  cases a; simp [Arr.T]

theorem mem_indices : ∀ (s i : List Nat), i ∈ indices s ↔ Forall₂ (· < ·) i s
  | [], i => by simp [indices]
  | n :: s, i => by
    simp only [indices, mem_flatMap, mem_range, mem_map]
    constructor
    · rintro ⟨k, hk, is, his, rfl⟩
      exact Forall₂.cons hk ((mem_indices s is).1 his)
    · intro h
      cases h with
      | cons hk hr => exact ⟨_, hk, _, (mem_indices s _).2 hr, rfl⟩

theorem range_blocks (n p : Nat) : (range n).flatMap (fun i => (range p).map (i * p + ·)) = range (n * p) := by
  induction n with
  | zero => simp
  | succ n ih =>
    rw [range_succ, flatMap_append, ih, Nat.succ_mul, range_add]
    simp

theorem indices_map_ravel : ∀ s : List Nat, (indices s).map (ravel s) = range (size s)
  | [] => by simp [indices, ravel, size]
  | n :: s => by
    simp only [indices, size, map_flatMap, map_map]
    have : ∀ i, (map (ravel (n :: s) ∘ fun x => i :: x) (indices s)) = (range (size s)).map (i * size s + ·) := by
      intro i
      rw [← indices_map_ravel s, map_map]
      rfl
    simp only [this]
    exact range_blocks n (size s)

theorem length_indices (s : List Nat) : (indices s).length = size s := by
  have := congrArg List.length (indices_map_ravel s)
  simpa using this

/-- the index tuple stored at row-major position `ravel s i` is `i` -/
theorem indices_at_ravel {s i : List Nat} (h : i ∈ indices s) : (indices s)[ravel s i]? = some i := by
  obtain ⟨k, hk, rfl⟩ := List.getElem_of_mem h
  have h1 : ((indices s).map (ravel s))[k]? = (range (size s))[k]? := by rw [indices_map_ravel]
  have hk' : k < size s := by rw [← length_indices]; exact hk
  rw [getElem?_map, getElem?_eq_getElem hk, getElem?_range hk'] at h1
  simp only [Option.map_some, Option.some.injEq] at h1
  rw [h1, getElem?_eq_getElem hk]

theorem flat_ofFlat {α} (s : List Nat) (d : List α) (x : α) (h : d.length = size s) : (ofFlat s d x).flat = d := by
  simp only [Arr.flat, ofFlat]
  have : (indices s).map (fun i => d.getD (ravel s i) x) = ((indices s).map (ravel s)).map (fun k => d.getD k x) := by
    rw [map_map]; rfl
  rw [this, indices_map_ravel, ← h]
  apply List.ext_getElem
  · simp
  · intro k h1 h2
    simp [List.getD_eq_getElem?_getD, List.getElem?_eq_getElem h2]

theorem ofFlat_flat_same {α} (a : Arr α) (x : α) : (ofFlat a.shape a.flat x).Same a := by
  refine ⟨rfl, ?_⟩
  intro i hi
  simp only [ofFlat] at hi ⊢
  simp only [Arr.flat, List.getD_eq_getElem?_getD, getElem?_map, indices_at_ravel hi, Option.map_some, Option.getD_some]

theorem Arr.Same.refl {α} (a : Arr α) : a.Same a := ⟨rfl, fun _ _ => rfl⟩
theorem Arr.Same.symm {α} {a b : Arr α} (h : a.Same b) : b.Same a := ⟨h.1.symm, fun i hi => (h.2 i (h.1 ▸ hi)).symm⟩
theorem Arr.Same.trans {α} {a b c : Arr α} (h : a.Same b) (g : b.Same c) : a.Same c :=
  ⟨h.1.trans g.1, fun i hi => (h.2 i hi).trans (g.2 i (h.1 ▸ hi))⟩

theorem Arr.Same.toImage {α} {a b : Arr α} (h : a.Same b) : a.toImage = b.toImage := by
  simp only [Arr.toImage, Arr.flat, ← h.1, Image.mk.injEq, true_and]
  exact List.map_congr_left h.2

theorem same_of_toImage {α} {a b : Arr α} (h : a.toImage = b.toImage) : a.Same b := by
  simp only [Arr.toImage, Arr.flat, Image.mk.injEq] at h
  refine ⟨h.1, ?_⟩
  rw [← h.1] at h
  exact fun i hi => List.map_inj_left.1 h.2 i hi

theorem Arr.Same.T {α} {a b : Arr α} (h : a.Same b) : a.T.Same b.T := by
  refine ⟨by simp [Arr.T, h.1], ?_⟩
  intro i hi
  simp only [Arr.T] at hi ⊢
  apply h.2
  rw [mem_indices] at hi ⊢
  rw [← forall₂_reverse_iff]; simpa using hi

theorem Arr.Same.map {α β} (f : α → β) {a b : Arr α} (h : a.Same b) : (a.map f).Same (b.map f) :=
  ⟨h.1, fun i hi => by simp only [Arr.map]; rw [h.2 i hi]⟩

/-- **Transposed image save/load**: writing `a.T` as an image and reading `data.T` back gives `a`, for every shape. -/
theorem load_save_image {α} (a : Arr α) (x : α) : ((a.T.toImage).toArr x).T.Same a := by
  have := (ofFlat_flat_same a.T x).T
  rw [T_T] at this
  exact this

end Nd
