import IxpeVerif.RealInst
import IxpeVerif.Model.Sampler
import IxpeVerif.Gen.ImpR
/-!
# T-tie of the tabulated-pdf sampler (C15): `build_cdf`, `build_ppf` (core/spline.py) and `rvs_bounded` (core/rand.py) regenerated from the source
(`Gen/ImpR.lean`) are the nodes and the bounded variate of the hand model `Sampler.*`, over ℝ.

`build_ppf` de-duplicates the cumulative integrals *before* it normalises them and then reads the abscissae through the index array; the model
de-duplicates the normalised (quantile, abscissa) pairs.  The two agree because dividing by a non-zero total neither merges nor splits runs of equal
values, and the index of the first element of a run is the position of its abscissa.
-/
open Real
noncomputable section
namespace SamplerTie
open Sampler

theorem le_antisymm_iff_div (a b t : ℝ) (ht : t ≠ 0) : (a / t ≤ b / t ∧ b / t ≤ a / t) ↔ (a ≤ b ∧ b ≤ a) := by
  constructor
  · rintro ⟨h1, h2⟩
    have h : a / t = b / t := le_antisymm h1 h2
    have : a = b := by
      have := congrArg (· * t) h
      simpa [div_mul_cancel₀ _ ht] using this
    exact ⟨this.le, this.ge⟩
  · rintro ⟨h1, h2⟩
    have : a = b := le_antisymm h1 h2
    subst this
    exact ⟨le_refl _, le_refl _⟩

/-- the run de-duplication of the generated code on the values `c`, carried to the normalised (quantile, abscissa) pairs of the model: `xs` is the
whole abscissa array, `i` the position of the head of the rest, `x0 = xs[i0]` the abscissa of the element that opens the current run -/
theorem uniqueGo_pairs (t : ℝ) (ht : t ≠ 0) (xs : List ℝ) :
    ∀ (rest : List ℝ) (c0 : ℝ) (i0 i : Nat), i + rest.length = xs.length →
      dedupGo (c0 / t) (xs.getD i0 0.0) ((rest.map (· / t)).zip (xs.drop i)) =
        List.zip ((NpR.uniqueGo c0 i0 i rest).1.map (· / t)) (NpR.takeIdx xs (NpR.uniqueGo c0 i0 i rest).2)
  | [], c0, i0, i, _ => by
    simp [dedupGo, NpR.uniqueGo, NpR.takeIdx]
  | c1 :: rest, c0, i0, i, hlen => by
    have hi : i < xs.length := by simp at hlen; omega
    have hdrop : xs.drop i = xs.getD i 0.0 :: xs.drop (i + 1) := by
      rw [List.drop_eq_getElem_cons hi]; simp [List.getD_eq_getElem?_getD, hi]
    have hlen' : (i + 1) + rest.length = xs.length := by simp at hlen; omega
    simp only [List.map_cons, hdrop, List.zip_cons_cons, dedupGo, NpR.uniqueGo]
    rl_simp
    by_cases h : c0 ≤ c1 ∧ c1 ≤ c0
    · have h' : c0 / t ≤ c1 / t ∧ c1 / t ≤ c0 / t := (le_antisymm_iff_div c0 c1 t ht).mpr h
      simp only [h, h', and_self, if_true]
      exact uniqueGo_pairs t ht xs rest c0 i0 (i + 1) hlen'
    · have h' : ¬ (c0 / t ≤ c1 / t ∧ c1 / t ≤ c0 / t) := fun hh => h ((le_antisymm_iff_div c0 c1 t ht).mp hh)
      simp only [h, h', if_false]
      rw [uniqueGo_pairs t ht xs rest c1 i (i + 1) hlen']
      simp [NpR.takeIdx]

theorem uniqueGo_ne_nil : ∀ (rest : List ℝ) (c0 : ℝ) (i0 i : Nat), (NpR.uniqueGo c0 i0 i rest).1 ≠ []
  | [], c0, i0, i => by simp [NpR.uniqueGo]
  | c1 :: rest, c0, i0, i => by
    simp only [NpR.uniqueGo]
    split
    · exact uniqueGo_ne_nil rest c0 i0 (i + 1)
    · simp

/-- the last of the distinct values is the last value -/
theorem uniqueGo_last : ∀ (rest : List ℝ) (c0 : ℝ) (i0 i : Nat),
    (NpR.uniqueGo c0 i0 i rest).1.getLast? = (c0 :: rest).getLast?
  | [], c0, i0, i => by simp [NpR.uniqueGo]
  | c1 :: rest, c0, i0, i => by
    simp only [NpR.uniqueGo]
    rl_simp
    by_cases h : c0 ≤ c1 ∧ c1 ≤ c0
    · have : c0 = c1 := le_antisymm h.1 h.2
      simp only [h, and_self, if_true]
      rw [uniqueGo_last rest c0 i0 (i + 1), this]
      simp [List.getLast?_cons_cons]
    · simp only [h, if_false]
      have ne : (NpR.uniqueGo c1 i (i + 1) rest).1 ≠ [] := uniqueGo_ne_nil rest c1 i (i + 1)
      rw [List.getLast?_cons_of_ne_nil ne] <;> try exact ne
      rw [uniqueGo_last rest c1 i (i + 1)]
      simp [List.getLast?_cons_cons]

theorem last_unique (c : List ℝ) : NpR.last (NpR.uniqueFirst c).1 = NpR.last c := by
  cases c with
  | nil => rfl
  | cons c0 rest => simp only [NpR.last, NpR.uniqueFirst, uniqueGo_last]

theorem cumTrap_length : ∀ (acc : ℝ) (nodes : List (ℝ × ℝ)), (cumTrap acc nodes).length = nodes.length
  | _, [] => rfl
  | _, [_] => rfl
  | acc, (x0, y0) :: (x1, y1) :: rest => by
    simp only [cumTrap, List.length_cons]
    rw [cumTrap_length _ ((x1, y1) :: rest)]
    simp

/-- **the generated `build_ppf` yields the quantile nodes of the model**, for every tabulated density whose integral does not vanish: the
cumulative integrals being the cumulative trapezoids of the k = 1 spline -/
theorem gen_build_ppf_eq_model (nodes : List (ℝ × ℝ)) (ht : total (cumTrap 0.0 nodes) ≠ 0) :
    List.zip (Gen.ImpR.build_ppf (nodes.map (·.1)) (cumTrap 0.0 nodes)).1 (Gen.ImpR.build_ppf (nodes.map (·.1)) (cumTrap 0.0 nodes)).2
      = ppfNodes nodes := by
  unfold Gen.ImpR.build_ppf ppfNodes
  simp only
  cases nodes with
  | nil => simp [cumTrap, NpR.uniqueFirst, NpR.divVS, NpR.takeIdx, dedupFirst]
  | cons n0 rest =>
    have hlen := cumTrap_length 0.0 (n0 :: rest)
    cases hc : cumTrap 0.0 (n0 :: rest) with
    | nil => rw [hc] at hlen; simp at hlen
    | cons c0 crest =>
      rw [hc] at hlen ht
      have htot : NpR.last (NpR.uniqueFirst (c0 :: crest)).1 = total (c0 :: crest) := by
        rw [last_unique]; simp only [NpR.last, total]
        cases h : (c0 :: crest).getLast? with
        | none => simp at h
        | some v => simp
      rw [htot]
      simp only [NpR.uniqueFirst, NpR.divVS, List.map_cons, List.zip_cons_cons, dedupFirst]
      have hl : 1 + crest.length = (n0.1 :: rest.map (·.1)).length := by simp at hlen ⊢; omega
      have := uniqueGo_pairs (total (c0 :: crest)) ht (n0.1 :: rest.map (·.1)) crest c0 0 1 hl
      simpa using this.symm

/-- the generated `build_cdf` yields the cumulative nodes of the model -/
theorem gen_build_cdf_eq_model (nodes : List (ℝ × ℝ)) (hne : nodes ≠ []) :
    List.zip (Gen.ImpR.build_cdf (nodes.map (·.1)) (cumTrap 0.0 nodes)).1 (Gen.ImpR.build_cdf (nodes.map (·.1)) (cumTrap 0.0 nodes)).2
      = cdfNodes nodes := by
  unfold Gen.ImpR.build_cdf cdfNodes
  simp only [NpR.divVS]
  have : NpR.last (cumTrap 0.0 nodes) = total (cumTrap 0.0 nodes) := by
    have hlen := cumTrap_length 0.0 nodes
    simp only [NpR.last, total]
    cases h : (cumTrap 0.0 nodes).getLast? with
    | none =>
      have : cumTrap 0.0 nodes = [] := List.getLast?_eq_none_iff.mp h
      rw [this] at hlen
      exact absurd (List.length_eq_zero_iff.mp hlen.symm) hne
    | some v => simp
  rw [this]

/-- **the generated `rvs_bounded` hands the quantile function the bounded variate of the model** -/
theorem gen_rvs_bounded_eq_model (nodes : List (ℝ × ℝ)) (rvmin rvmax : Option ℝ) (u : ℝ) :
    Gen.ImpR.rvs_bounded (cdf nodes) (ppf nodes) rvmin rvmax u = ppf nodes (boundedU nodes rvmin rvmax u) := by
  unfold Gen.ImpR.rvs_bounded boundedU
  cases rvmin <;> cases rvmax <;> rfl

end SamplerTie
end
