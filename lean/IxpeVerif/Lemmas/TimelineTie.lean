import IxpeVerif.Gen.Imp
import IxpeVerif.Model.Gti
/-!
# T-tie of the observation timeline (C18): the definitions generated from `instrument/traj.py` and `utils/time_.py`
(`xTimeInterval.bounds/duration`, `xTimelineEpoch.shrink/isgti/isocti`, `xObservationTimeline._bisect_odd/_calculate_epochs/filter_epochs/
gti_list/octi_list`) are the hand-written models of `Model/Gti.lean`, for every input (core Lean only).

The generated code works on the record `Np.Epoch` (field names of the source); `conv` maps it to the model's `Gti.Epoch`.
`_bisect_odd` uses `searchsorted` (the number of *leading* elements below the value): equal to the model's count of *all* elements below
the value on a sorted array.  `_calculate_epochs` bisects at `0.5 * (start + stop)`: on ticks the midpoint is exact when the marks are even.
-/
namespace TimelineTie
open Gen.Imp

def conv (e : Np.Epoch) : Gti.Epoch := ⟨e.start_met, e.stop_met, e.in_saa, e.occulted⟩

/-! ### `filter_epochs`, `gti_list`, `octi_list` -/

theorem gen_filter_epochs_eq_model (eps : List Np.Epoch) (m a b : Int) :
    (filter_epochs eps m a b).map conv = Gti.filterEpochs m a b (eps.map conv) := by
  unfold filter_epochs Gti.filterEpochs interval_duration
  simp only [List.map_id', List.filter_map, Function.comp_def, conv]
  congr 1
  apply List.filter_congr
  intro e _
  have : m + (a + b) = m + a + b := by omega
  simp [this]

theorem gen_gti_list_eq_model (eps : List Np.Epoch) (m a b : Int) :
    timeline_gti_list eps m a b = Gti.gtiList m a b (eps.map conv) := by
  unfold timeline_gti_list filter_epochs Gti.gtiList interval_duration interval_bounds epoch_shrink epoch_isgti
  simp only [List.map_id', List.filter_filter, List.filter_map, List.map_map, Function.comp_def, conv]
  congr 1
  apply List.filter_congr
  intro e _
  have : m + (a + b) = m + a + b := by omega
  simp only [this]
  cases e.in_saa <;> cases e.occulted <;> simp

theorem gen_octi_list_eq_model (eps : List Np.Epoch) (m a b : Int) :
    timeline_octi_list eps m a b = Gti.octiList m a b (eps.map conv) := by
  unfold timeline_octi_list filter_epochs Gti.octiList interval_duration interval_bounds epoch_shrink epoch_isocti
  simp only [List.map_id', List.filter_filter, List.filter_map, List.map_map, Function.comp_def, conv]
  congr 1
  apply List.filter_congr
  intro e _
  have : m + (a + b) = m + a + b := by omega
  simp only [this]
  cases e.in_saa <;> cases e.occulted <;> simp

/-! ### `_bisect_odd` -/

/-- on a sorted array the elements below `v` are exactly the leading ones -/
theorem takeWhile_eq_filter_of_sorted : ∀ (l : List Int) (v : Int), l.Pairwise (· ≤ ·) →
    l.takeWhile (fun x => decide (x < v)) = l.filter (fun x => decide (x < v))
  | [], _, _ => rfl
  | x :: rest, v, h => by
    rw [List.pairwise_cons] at h
    by_cases hx : x < v
    · simp only [List.takeWhile_cons, List.filter_cons, hx, decide_true, if_true]
      rw [takeWhile_eq_filter_of_sorted rest v h.2]
    · simp only [List.takeWhile_cons, List.filter_cons, hx, decide_false]
      symm
      simp only [Bool.false_eq_true, if_false]
      apply List.filter_eq_nil_iff.mpr
      intro y hy
      have := h.1 y hy
      simp; omega

theorem gen_bisect_odd_eq_model (arr : List Int) (v : Int) (hs : arr.Pairwise (· ≤ ·)) :
    bisect_odd arr v = Gti.bisectOdd arr v := by
  unfold bisect_odd Gti.bisectOdd Np.searchLeft1
  rw [takeWhile_eq_filter_of_sorted arr v hs]
  generalize (arr.filter fun x => decide (x < v)).length = n
  have h2 : ((n : Int) % 2 = 1) ↔ (n % 2 = 1) := by omega
  by_cases h : n % 2 = 1
  · simp [h, h2.mpr h]
  · have : ¬ ((n : Int) % 2 = 1) := fun hh => h (h2.mp hh)
    simp [h, this]

/-- at an even doubled time the bisection of the model on doubled times is the bisection at the half -/
theorem bisectOdd2_even (arr : List Int) (t : Int) : Gti.bisectOdd2 arr (2 * t) = Gti.bisectOdd arr t := by
  unfold Gti.bisectOdd2 Gti.bisectOdd
  have : (arr.filter fun a => decide (2 * a < 2 * t)) = (arr.filter fun a => decide (a < t)) := by
    apply List.filter_congr
    intro a _
    have : (2 * a < 2 * t) ↔ (a < t) := by omega
    simp [this]
  rw [this]

/-! ### `_calculate_epochs` -/

/-- one step of the generated loop body, for the epoch between two consecutive even marks -/
theorem step_eq (saa occ : List Int) (hsaa : saa.Pairwise (· ≤ ·)) (hocc : occ.Pairwise (· ≤ ·)) (a b : Int)
    (ha : a % 2 = 0) (hb : b % 2 = 0) :
    conv (Np.Epoch.mk a b (bisect_odd saa (Np.half (a + b))) (bisect_odd occ (Np.half (a + b)))) =
      ⟨a, b, Gti.bisectOdd2 saa (a + b), Gti.bisectOdd2 occ (a + b)⟩ := by
  have h2 : a + b = 2 * Np.half (a + b) := by unfold Np.half; omega
  rw [gen_bisect_odd_eq_model saa _ hsaa, gen_bisect_odd_eq_model occ _ hocc]
  conv => rhs; rw [h2]
  rw [bisectOdd2_even, bisectOdd2_even]
  simp only [conv]


/-- a loop that appends one element per iteration is a `map` -/
theorem foldl_append_map {α β : Type} (f : α → β) : ∀ (l : List α) (acc : List β),
    l.foldl (fun st x => st ++ [f x]) acc = acc ++ l.map f
  | [], acc => by simp
  | x :: rest, acc => by rw [List.foldl_cons, foldl_append_map f rest]; simp

/-- `(start, mets[i + 1]) for i, start in enumerate(mets[:-1])` are the consecutive pairs of marks -/
theorem enumerate_pairs (mets : List Int) :
    (Np.enumerate (Np.init mets)).map (fun p => (p.2, Np.getI mets (p.1 + 1))) = List.zip mets.dropLast (mets.drop 1) := by
  apply List.ext_getElem
  · simp [Np.enumerate, Np.init]
  · intro i h1 h2
    simp [Np.enumerate, Np.init] at h1 h2 ⊢
    unfold Np.getI Np.wrap
    have hlt : i + 1 < mets.length := by omega
    have h3 : ¬ (((i : Int) + 1 < -(mets.length : Int)) ∨ ((mets.length : Int) ≤ (i : Int) + 1)) := by omega
    have h4 : ¬ ((i : Int) + 1 < 0) := by omega
    simp only [h3, h4, if_false]
    have : ((i : Int) + 1).toNat = i + 1 := by omega
    rw [this]
    simp [List.getD_eq_getElem?_getD, hlt]

/-- the consecutive pairs of marks, turned into epochs, are the model's `calcEpochs` -/
theorem pairs_calc (saa occ : List Int) : ∀ mets : List Int,
    (List.zip mets.dropLast (mets.drop 1)).map (fun p => (⟨p.1, p.2, Gti.bisectOdd2 saa (p.1 + p.2), Gti.bisectOdd2 occ (p.1 + p.2)⟩ : Gti.Epoch)) =
      Gti.calcEpochs saa occ mets
  | [] => rfl
  | [_] => rfl
  | a :: b :: rest => by
    have ih := pairs_calc saa occ (b :: rest)
    simp only [List.dropLast_cons_cons, List.drop_succ_cons, List.drop_zero, List.zip_cons_cons, List.map_cons, Gti.calcEpochs] at ih ⊢
    rw [← ih]

theorem gen_calculate_epochs_eq_model (mets saa occ : List Int) (heven : ∀ m ∈ mets, m % 2 = 0)
    (hsaa : saa.Pairwise (· ≤ ·)) (hocc : occ.Pairwise (· ≤ ·)) :
    (calculate_epochs mets saa occ).map conv = Gti.calcEpochs saa occ mets := by
  unfold calculate_epochs Np.loop
  have hfold := foldl_append_map (fun (p : Int × Int) =>
    Np.Epoch.mk p.2 (Np.getI mets (p.1 + 1)) (bisect_odd saa (Np.half (p.2 + Np.getI mets (p.1 + 1))))
      (bisect_odd occ (Np.half (p.2 + Np.getI mets (p.1 + 1))))) (Np.enumerate (Np.init mets)) []
  simp only [List.nil_append] at hfold
  show List.map conv (List.foldl (fun st (x : Int × Int) => st ++ [Np.Epoch.mk x.2 (Np.getI mets (x.1 + 1))
    (bisect_odd saa (Np.half (x.2 + Np.getI mets (x.1 + 1)))) (bisect_odd occ (Np.half (x.2 + Np.getI mets (x.1 + 1))))]) []
    (Np.enumerate (Np.init mets))) = _
  rw [hfold]
  rw [← pairs_calc saa occ mets, ← enumerate_pairs mets, List.map_map, List.map_map]
  apply List.map_congr_left
  intro p hp
  simp only [Function.comp_def]
  have hmem : p.2 ∈ mets ∧ Np.getI mets (p.1 + 1) ∈ mets := by
    have hz : (p.2, Np.getI mets (p.1 + 1)) ∈ List.zip mets.dropLast (mets.drop 1) := by
      rw [← enumerate_pairs mets]; exact List.mem_map.mpr ⟨p, hp, rfl⟩
    have := List.of_mem_zip hz
    exact ⟨List.dropLast_subset _ this.1, List.drop_subset _ _ this.2⟩
  exact step_eq saa occ hsaa hocc _ _ (heven _ hmem.1) (heven _ hmem.2)

end TimelineTie
