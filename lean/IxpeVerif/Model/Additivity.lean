import IxpeVerif.Num
import IxpeVerif.Model.Kislat
/-!
# C07 — hand-written model of the summation of binned products (ixpeobssim/binning/base.py, polarization.py, misc.py)

* `wAvg2` = `xBinnedFileBase._weighted_average` with its four branches (both / only first / only second / neither weight positive),
* `iadd` = `xBinnedPolarizationCube.__iadd__` on COUNTS, I, Q, U, W2 and the intensity-weighted MU, E_MEAN
  (the derived columns are then recomputed from these by `Kislat.stokesErrors/polarization/mdp99/nEff`, C02),
* `lcIadd` = `xBinnedLightCurve.__iadd__` (rate-preserving exposure handling),
* `quad` = the quadrature error sum of the count spectra and pulse profiles.
-/
open RealLike
namespace Add

structure Bin (α : Type) where
  counts : Nat
  I : α
  Q : α
  U : α
  W2 : α
  MU : α
  EMEAN : α

variable {α : Type} [RealLike α]

def wAvg2 (v1 w1 v2 w2 : α) : α :=
  if (0.0 : α) < w1 ∧ (0.0 : α) < w2 then (v1 * w1 + v2 * w2) / (w1 + w2)
  else if (0.0 : α) < w1 then v1 else if (0.0 : α) < w2 then v2 else 0.0

def iadd (a b : Bin α) : Bin α :=
  { counts := a.counts + b.counts, I := a.I + b.I, Q := a.Q + b.Q, U := a.U + b.U, W2 := a.W2 + b.W2,
    MU := wAvg2 a.MU a.I b.MU b.I, EMEAN := wAvg2 a.EMEAN a.I b.EMEAN b.I }

/-- the cube row of a list of (prepared, already masked) events -/
def binOf (ps : List (Kislat.Prep α)) : Bin α :=
  let s := Kislat.sums ps
  { counts := s.counts, I := s.I, Q := s.Q, U := s.U, W2 := s.W2, MU := s.muW / s.I, EMEAN := s.eW / s.I }

/-- `reduce(__iadd__)` over the files -/
def sumAll : List (Bin α) → Option (Bin α)
  | [] => none
  | b :: rest => some (rest.foldl iadd b)

structure LC (α : Type) where
  counts : α
  exposure : α
  error : α

/-- `xBinnedLightCurve.__iadd__` for one time bin -/
def lcIadd (a b : LC α) : LC α :=
  let w1 : α := if a.exposure ≤ 0.0 ∧ 0.0 ≤ a.exposure then 0.0 else 0.5 * (1.0 + b.exposure / a.exposure)
  let w2 : α := if b.exposure ≤ 0.0 ∧ 0.0 ≤ b.exposure then 0.0 else 0.5 * (1.0 + a.exposure / b.exposure)
  { counts := a.counts * w1 + b.counts * w2, exposure := 0.5 * (a.exposure + b.exposure),
    error := sqrt (a.error * a.error * (w1 * w1) + b.error * b.error * (w2 * w2)) }

def quad (a b : α) : α := sqrt (a * a + b * b)

end Add
