/-!
# Memoisation (C11, C03, C12, C16): when is a cache invisible?

A function `f : A → B` is called through a table keyed by `key : A → K`: on a hit the stored value is returned, on a miss `f a` is
computed and stored under `key a`.  The table starts empty and lives as long as the process (module-level dict, attribute, `lru_cache`).
No imports.
-/
namespace Cache

variable {A B K : Type} [DecidableEq K]

def lookup (tbl : List (K × B)) (k : K) : Option B := (tbl.find? fun e => e.1 = k).map (·.2)

/-- one call through the cache: the value returned and the table afterwards -/
def call (f : A → B) (key : A → K) (tbl : List (K × B)) (a : A) : B × List (K × B) :=
  match lookup tbl (key a) with
  | some b => (b, tbl)
  | none => (f a, (key a, f a) :: tbl)

/-- the table after a history of calls -/
def after (f : A → B) (key : A → K) : List A → List (K × B)
  | [] => []
  | a :: hist => (call f key (after f key hist) a).2

/-- every entry of a table built by calls is `(key x, f x)` for some earlier argument `x` -/
def Honest (f : A → B) (key : A → K) (tbl : List (K × B)) : Prop := ∀ e ∈ tbl, ∃ x, e = (key x, f x)

end Cache
