/-!
# Calendar arithmetic behind DATE-OBS / DATE-END (C19)

`utils/time_.py`: `met_to_string(met) = datetime.fromtimestamp(met + MISSION_START_UNIX_TIME, UTC)
.strftime('%Y-%m-%dT%H:%M:%S.%f')` and `string_to_met_utc(s) = strptime(s).replace(tzinfo=UTC)
.timestamp() - MISSION_START_UNIX_TIME`.  The model works on integer microseconds (what `datetime`
stores) and on the proleptic Gregorian calendar (what `datetime` implements); the day ↔ civil-date
conversions are the classical era/day-of-era algorithms.  Everything is `Int` arithmetic, so the
definitions run in the driver and are decided by `omega` in the proofs.  No imports.
-/

namespace Cal

/-- year of the 400-year era from the day of the era (0 … 146096) -/
def yoeOfDoe (doe : Int) : Int := (doe - doe / 1460 + doe / 36524 - doe / 146096) / 365

/-- first day (of the era) of year `yoe` of the era; eras start on 1 March -/
def yearStart (yoe : Int) : Int := 365 * yoe + yoe / 4 - yoe / 100

/-- day of the (March-based) year ↦ (month, day) -/
def monthDayOfDoy (doy : Int) : Int × Int :=
  let mp := (5 * doy + 2) / 153
  (if mp < 10 then mp + 3 else mp - 9, doy - (153 * mp + 2) / 5 + 1)

/-- (month, day) ↦ day of the (March-based) year -/
def doyOfMonthDay (m d : Int) : Int := (153 * (if m > 2 then m - 3 else m + 9) + 2) / 5 + d - 1

/-- days since 1970-01-01 ↦ (year, month, day) -/
def civilFromDays (z : Int) : Int × Int × Int :=
  let z := z + 719468
  let era := z / 146097
  let doe := z % 146097
  let yoe := yoeOfDoe doe
  let md := monthDayOfDoy (doe - yearStart yoe)
  (yoe + era * 400 + (if md.1 ≤ 2 then 1 else 0), md.1, md.2)

/-- (year, month, day) ↦ days since 1970-01-01 -/
def daysFromCivil (y m d : Int) : Int :=
  let y := if m ≤ 2 then y - 1 else y
  y / 400 * 146097 + (yearStart (y % 400) + doyOfMonthDay m d) - 719468

def isLeap (y : Int) : Bool := y % 4 = 0 ∧ (y % 100 ≠ 0 ∨ y % 400 = 0)

def daysInMonth (y m : Int) : Int :=
  if m = 2 then (if isLeap y then 29 else 28)
  else if m = 4 ∨ m = 6 ∨ m = 9 ∨ m = 11 then 30 else 31

/-- the fields `datetime` keeps -/
structure Stamp where
  year : Int
  month : Int
  day : Int
  hour : Int
  minute : Int
  second : Int
  micro : Int
deriving DecidableEq, Repr

def usPerDay : Int := 86400000000

/-- microseconds since the Unix epoch ↦ UTC fields (`datetime.fromtimestamp(·, UTC)`) -/
def stampOfUnixUs (t : Int) : Stamp :=
  let days := t / usPerDay
  let r := t % usPerDay
  let (y, m, d) := civilFromDays days
  { year := y, month := m, day := d, hour := r / 3600000000, minute := r % 3600000000 / 60000000,
    second := r % 60000000 / 1000000, micro := r % 1000000 }

/-- UTC fields ↦ microseconds since the Unix epoch (`(dt - epoch).total_seconds()`, kept in µs) -/
def unixUsOfStamp (s : Stamp) : Int :=
  daysFromCivil s.year s.month s.day * usPerDay + s.hour * 3600000000 + s.minute * 60000000 + s.second * 1000000 + s.micro

/-- a well-formed stamp, as `strptime` accepts it -/
def Stamp.Valid (s : Stamp) : Prop :=
  1 ≤ s.month ∧ s.month ≤ 12 ∧ 1 ≤ s.day ∧ s.day ≤ daysInMonth s.year s.month ∧
  0 ≤ s.hour ∧ s.hour < 24 ∧ 0 ≤ s.minute ∧ s.minute < 60 ∧ 0 ≤ s.second ∧ s.second < 60 ∧
  0 ≤ s.micro ∧ s.micro < 1000000

/-- `met_to_string` on integer microseconds of MET, `epoch` = MISSION_START_UNIX_TIME (seconds) -/
def metToStamp (epoch : Int) (metUs : Int) : Stamp := stampOfUnixUs (metUs + epoch * 1000000)

/-- `string_to_met_utc` -/
def stampToMet (epoch : Int) (s : Stamp) : Int := unixUsOfStamp s - epoch * 1000000

/-! ### `%Y-%m-%dT%H:%M:%S.%f` -/

def pad (w : Nat) (n : Int) : String :=
  let s := toString n.toNat
  String.ofList (List.replicate (w - s.length) '0') ++ s

def Stamp.format (s : Stamp) : String :=
  pad 4 s.year ++ "-" ++ pad 2 s.month ++ "-" ++ pad 2 s.day ++ "T" ++ pad 2 s.hour ++ ":" ++ pad 2 s.minute ++ ":" ++
    pad 2 s.second ++ "." ++ pad 6 s.micro

end Cal
