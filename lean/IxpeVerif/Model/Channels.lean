/-!
# C13 — hand-written model of the channel search (`xEnergyDispersionBounds.energy_to_channel`, ixpeobssim/irf/rmf.py)

`numpy.searchsorted(self.emax, energy, side='left')` on order-preserving integer keys of the (float32) upper bounds and
of the energies; `gridFrom s c0 n` is the ideal 40 eV grid of upper bounds `s·(c0+1), s·(c0+2), …` in eV.
-/
namespace Chan

def searchLeft (a : List Int) (v : Int) : Nat := (a.takeWhile (· < v)).length

def gridFrom (s : Int) (c0 : Int) : Nat → List Int
  | 0 => []
  | n + 1 => s * (c0 + 1) :: gridFrom s (c0 + 1) n

/-- channel of an energy on the ideal grid of `n` channels of width `s` starting at 0 -/
def e2cGrid (s : Int) (n : Nat) (E : Int) : Nat := searchLeft (gridFrom s 0 n) E

/-- numpy.rint (round half to even) on a value given as a multiple of 1/2: `twice = 2·v` -/
def rintHalf (twice : Int) : Int :=
  if twice % 2 = 0 then twice / 2
  else if (twice / 2) % 2 = 0 then twice / 2 else twice / 2 + 1

end Chan
