/-!
# C19 — declared column specs and the casts behind the FITS format codes (core/fitsio.py)

`xBinTableHDUBase.__init__` walks `DATA_SPECS`, whose items are `(name, format)`, `(name, format, units)` or
`(name, format, units, comment)`, and builds one `fits.Column(name, format, units, array=…)` each.
astropy writes `TTYPEn = name`, `TFORMn = format` and `TUNITn = units` when `units` is a non-empty string.
The data are cast to the numpy type of the format code (`FITS_TO_NUMPY_TYPE_DICT`): `E` float32, `D` float64,
`I` int16, `J` int32.  Strings are lists of character codes (fast in the kernel).  No imports.
-/
namespace Cols

abbrev Str := List Nat

/-- one item of `DATA_SPECS`: the tuple as written in the source (2, 3 or 4 fields; `none` is Python's `None`) -/
abbrev SpecItem := List (Option Str)

structure Column where
  name : Str
  format : Option Str
  units : Option Str
  comment : Option Str
deriving DecidableEq, Repr

/-- the tuple unpacking of `xBinTableHDUBase.__init__`; items of any other length are not handled by the code -/
def columnOf (item : SpecItem) : Option Column :=
  match item with
  | [some n, f, u, c] => some ⟨n, f, u, c⟩
  | [some n, f, u] => some ⟨n, f, u, none⟩
  | [some n, f] => some ⟨n, f, none, none⟩
  | _ => none

/-- `'A20'`-like string formats: an `A` followed by digits -/
def isStringFormat (f : Str) : Bool :=
  match f with
  | 65 :: ds => ds.all fun d => decide (48 ≤ d ∧ d ≤ 57)
  | _ => false

/-- astropy writes the ASCII-style `A20` as the binary-table form `20A` -/
def canonFormat (f : Str) : Str := if isStringFormat f then f.drop 1 ++ [65] else f

/-- the header cards astropy derives from a column: (TTYPE, TFORM, TUNIT if any); a format of `None` at class level is
filled in by the constructor of the few classes that do so (`xBinTableHDUMATRIX`) -/
def cards (c : Column) : Str × Option Str × Option Str :=
  (c.name, c.format.map canonFormat, match c.units with | some u => if u = [] then none else some u | none => none)

/-- the declared units of an item: the third field, whatever the length of the tuple -/
def declaredUnits (item : SpecItem) : Option Str := (item.getD 2 none)

def fmtE : Str := [69]
def fmtD : Str := [68]
def fmtI : Str := [73]
def fmtJ : Str := [74]

def vectorFormat (f : Str) : Bool :=
  match f.reverse with
  | c :: ds => (c == 69 || c == 68 || c == 73 || c == 74) && !ds.isEmpty && ds.all fun d => decide (48 ≤ d ∧ d ≤ 57)
  | [] => false

/-- formats this package declares: scalar E D I J, strings, and the vector forms `nE`/`nD`/`nI`/`nJ` of the response files -/
def knownFormat (f : Str) : Bool :=
  f == fmtE || f == fmtD || f == fmtI || f == fmtJ || isStringFormat f || vectorFormat f

/-- a spec table is well formed: every item unpacks, names are distinct and non-empty, formats are known -/
def tableWF (t : List SpecItem) : Bool :=
  t.all (fun it => (columnOf it).isSome) &&
  (t.filterMap columnOf).all (fun c => !c.name.isEmpty && (match c.format with | some f => knownFormat f | none => true)) &&
  decide ((t.filterMap columnOf).map (·.name)).Nodup

/-! ### integer casts (`astype(numpy.int32)` / `int16` wrap around, two's complement) -/

def wrap (bits : Nat) (x : Int) : Int := (x + 2 ^ (bits - 1)) % 2 ^ bits - 2 ^ (bits - 1)
def castJ (x : Int) : Int := wrap 32 x
def castI (x : Int) : Int := wrap 16 x

end Cols
