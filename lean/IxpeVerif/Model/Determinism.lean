/-!
# C11 — effect model of a seeded application

An application is a list of effects against a world made of the global PRNG state, OS entropy, and the cache of response
objects.  `seed s` = `numpy.random.seed(s)`; `draw` = any module-level `numpy.random` function (global stream); `fresh` = a
draw from an unseeded independent generator (`numpy.random.default_rng()` without arguments, OS entropy); `load k` = a cached
response read; `mutate k` = an in-place modification of a cached object.  The PRNG is abstract (any deterministic
`init`/`next`).
-/
namespace Det

structure Prng where
  S : Type
  init : Nat → S
  next : S → Nat × S

inductive Eff
  | seed (s : Nat)
  | draw
  | fresh
  | load (key : Nat)
  | mutate (key : Nat)
  deriving DecidableEq

structure World (P : Prng) where
  rng : P.S
  entropy : Nat → Nat
  ectr : Nat
  cache : Nat → Option Nat

/-- files on disk: the same in both worlds -/
abbrev Files := Nat → Nat

def step {P : Prng} (files : Files) (w : World P) : Eff → Nat × World P
  | .seed s => (0, { w with rng := P.init s })
  | .draw => let (v, r) := P.next w.rng; (v, { w with rng := r })
  | .fresh => (w.entropy w.ectr, { w with ectr := w.ectr + 1 })
  | .load k => match w.cache k with
      | some v => (v, w)
      | none => (files k, { w with cache := fun j => if j = k then some (files k) else w.cache j })
  | .mutate k => (0, { w with cache := fun j => if j = k then (w.cache k).map (· + 1) else w.cache j })

def run {P : Prng} (files : Files) : World P → List Eff → List Nat
  | _, [] => []
  | w, e :: es => let (v, w') := step files w e; v :: run files w' es

end Det
