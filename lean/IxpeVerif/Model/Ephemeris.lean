import IxpeVerif.Num
import IxpeVerif.Gen.Formulas
/-!
# C17 — hand-written model of `xEphemeris.fold` on top of the generated Taylor polynomials

`fold(met, start_met, phi0)`: re-reference the ephemeris at `start_met` (ν and ν̇ evaluated there with the generated
`eph_nu`, `eph_nudot`), evaluate the generated `eph_met_to_phase` at `met − start_met`, add `phi0`, take `numpy.mod(·, 1)`.
-/
open RealLike
namespace Eph

variable {α : Type} [RealLike α]

def phaseAt (met0 nu0 nudot0 nuddot t : α) : α := Gen.eph_met_to_phase nu0 nudot0 nuddot (t - met0)

def fold (met0 nu0 nudot0 nuddot met start phi0 : α) : α :=
  let nuS := Gen.eph_nu nu0 nudot0 nuddot (start - met0)
  let nudotS := Gen.eph_nudot nudot0 nuddot (start - met0)
  let phase := Gen.eph_met_to_phase nuS nudotS nuddot (met - start)
  let x := phase + phi0
  x - floor (x / 1.0) * 1.0

end Eph
