import IxpeVerif.Model.Livetime
/-!
# C04 — hand-written model of `xEventList._finalize` (ixpeobssim/evt/event.py)

`finalize = apply_fiducial_area → sort (by time) → apply_dead_time (if deadtime > 0) → fill_livetime → fill_trigger_id`
on rows `(time, src, inFid, tag)` with `Int` ticks of 2⁻²⁰ s.  `inFid` is the value of
`within_fiducial_rectangle(DETX, DETY)` (generated definition `Gen.within_fiducial_rectangle`, C06/C14);
`tag` identifies the input row so that the correspondence can check that EVENTS and MONTE_CARLO stay aligned.
`numpy.argsort` is not stable: the model sorts with the stable `mergeSort`, and the generators avoid equal times
across rows (ties are a measure-zero event in the simulator; recorded in the trusted base).
-/
namespace EvL

structure Row where
  time : Int
  src : Int
  inFid : Bool
  tag : Nat
  deriving DecidableEq, Repr

def leT (a b : Row) : Bool := a.time ≤ b.time

/-- sequential, non-paralysable dead-time veto (`apply_dead_time`): an event is dropped iff it is closer than `dead`
to the last *kept* event -/
def vetoGo (dead : Int) : Int → List Row → List Row
  | _, [] => []
  | last, r :: rs => if r.time - last < dead then vetoGo dead last rs else r :: vetoGo dead r.time rs

def veto (dead : Int) : List Row → List Row
  | [] => []
  | r :: rs => r :: vetoGo dead r.time rs

def finalizeRows (dead : Int) (rows : List Row) : List Row :=
  let cut := rows.filter (·.inFid)
  let sorted := cut.mergeSort leT
  if dead > 0 then veto dead sorted else sorted

structure Out where
  row : Row
  livetime : Int      -- µs
  trg : Nat
  deriving Repr

def zip3 : List Row → List Int → Nat → List Out
  | r :: rs, l :: ls, k => ⟨r, l, k⟩ :: zip3 rs ls (k + 1)
  | _, _, _ => []

/-- the whole `_finalize`; `s0` = observation start, `starts` = GTI starts -/
def finalize (s0 dead : Int) (starts : List Int) (rows : List Row) : List Out :=
  let kept := finalizeRows dead rows
  zip3 kept (Livetime.livetimeColumn s0 starts (kept.map (·.time)) dead) 1

/-- `split_event_time` on ticks: (⌊t⌋ seconds, ⌊(t − ⌊t⌋)·10⁶⌋ µs) -/
def splitTime (t : Int) : Int × Int :=
  let sec := t / 1048576
  (sec, Livetime.toMicro (t - sec * 1048576))

end EvL
