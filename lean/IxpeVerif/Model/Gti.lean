/-!
# C18 / C03 — hand-written models of the GTI algebra (core Lean only, `Int` ticks)

* `xGTIList.filter_event_times`, `complement`, `total_good_time`   (ixpeobssim/evt/gti.py)
* `xObservationTimeline._bisect_odd/_calculate_epochs/filter_epochs/gti_list/octi_list`, `xTimelineEpoch.shrink/isgti/isocti`
  (ixpeobssim/instrument/traj.py)
* `xEventBinningLC._bin_gti` with its break/continue structure   (ixpeobssim/binning/misc.py)
-/
namespace Gti

abbrev Ivl := Int × Int

def inSome (gtis : List Ivl) (t : Int) : Bool := gtis.any fun g => decide (g.1 ≤ t) && decide (t ≤ g.2)

/-- xGTIList.filter_event_times: times kept and the mask -/
def filterTimes (gtis : List Ivl) (ts : List Int) : List Int × List Bool :=
  (ts.filter (inSome gtis), ts.map (inSome gtis))

/-- xGTIList.complement: pair the inner bounds -/
def complement : List Ivl → List Ivl
  | (_, e0) :: (s1, e1) :: rest => (e0, s1) :: complement ((s1, e1) :: rest)
  | _ => []

def total (l : List Ivl) : Int := (l.map fun g => g.2 - g.1).foldl (· + ·) 0

structure Epoch where
  start : Int
  stop : Int
  saa : Bool
  occ : Bool
  deriving Repr, DecidableEq

/-- `_bisect_odd(array, value)` = `searchsorted(array, value) % 2 == 1` evaluated at the epoch centre
`(start + stop)/2`: with everything doubled, the number of elements `a` with `2a < start + stop`. -/
def bisectOdd2 (arr : List Int) (twice : Int) : Bool := (arr.filter fun a => decide (2 * a < twice)).length % 2 == 1

/-- `_bisect_odd(array, value)` at a time that is not one of the marks -/
def bisectOdd (arr : List Int) (t : Int) : Bool := (arr.filter fun a => decide (a < t)).length % 2 == 1

/-- the flags `function(met + precision)` of an alternating status with value `s0` at the window start: right after the i-th transition
(counting from 0) the status has flipped i + 1 times -/
def entrOf (s0 : Bool) (n : Nat) : List Bool := (List.range n).map fun i => if i % 2 == 0 then !s0 else s0

/-- the end of `xIXPETrajectory._generic_binary_search`: `ts` are the transition times located inside the window, `entr` the status right
after each of them; no transition at all: the whole window or nothing; otherwise a leading exit gets the window start in front and a trailing
entrance gets the window stop at the end, so that the marks can be read in pairs (and by `_bisect_odd`) -/
def closeEnds (start stop : Int) (s0 : Bool) (ts : List Int) (entr : List Bool) : List Int :=
  if ts.isEmpty then (if s0 then [start, stop] else [])
  else (if entr.head? = some false then [start] else []) ++ ts ++ (if entr.getLast? = some true then [stop] else [])

/-- `_calculate_epochs(mets, saa_mets, occult_mets)` -/
def calcEpochs (saa occ : List Int) : List Int → List Epoch
  | a :: b :: rest => ⟨a, b, bisectOdd2 saa (a + b), bisectOdd2 occ (a + b)⟩ :: calcEpochs saa occ (b :: rest)
  | _ => []

def filterEpochs (minDur padA padB : Int) (eps : List Epoch) : List Epoch :=
  eps.filter fun e => decide (e.stop - e.start > minDur + padA + padB)

/-- xObservationTimeline.gti_list (with the padding applied to the bounds, i.e. the repaired code) -/
def gtiList (minDur padA padB : Int) (eps : List Epoch) : List Ivl :=
  (eps.filter fun e => decide (e.stop - e.start > minDur + padA + padB) && !e.saa && !e.occ).map
    fun e => (e.start + padA, e.stop - padB)

/-- xObservationTimeline.octi_list: occulted and not in the SAA -/
def octiList (minDur padA padB : Int) (eps : List Epoch) : List Ivl :=
  (eps.filter fun e => decide (e.stop - e.start > minDur + padA + padB) && e.occ && !e.saa).map
    fun e => (e.start + padA, e.stop - padB)

/-- xEventBinningLC._bin_gti -/
def binGti (emin emax : Int) : List (Int × Int) → Int
  | [] => 0
  | (start, stop) :: rest =>
    if start ≥ emin ∧ stop ≤ emax then (stop - start) + binGti emin emax rest
    else if start ≥ emin ∧ stop > emax then
      if start ≥ emax then 0            -- break
      else (emax - start)               -- add, break
    else if start < emin ∧ stop > emax then (emax - emin)   -- add, break
    else if start < emin ∧ stop ≤ emax then
      if stop ≤ emin then binGti emin emax rest             -- continue
      else (stop - emin) + binGti emin emax rest
    else binGti emin emax rest

def overlap (emin emax : Int) (g : Int × Int) : Int := max 0 (min emax g.2 - max emin g.1)

def sumOverlap (emin emax : Int) : List (Int × Int) → Int
  | [] => 0
  | g :: rest => overlap emin emax g + sumOverlap emin emax rest

end Gti
