/-!
# C18 / C03 — hand-written models of the GTI algebra (core Lean only, `Int` ticks)

* `xGTIList.filter_event_times`, `complement`, `total_good_time`   (ixpeobssim/evt/gti.py)
* `xObservationTimeline._bisect_odd/_calculate_epochs/filter_epochs/gti_list/octi_list`, `xTimelineEpoch.shrink/isgti/isocti`
  (ixpeobssim/instrument/traj.py)
* `xEventBinningLC._bin_gti` with its break/continue structure   (ixpeobssim/binning/misc.py)
-/
namespace Gti

abbrev Ivl := Int × Int

def inSome (gtis : List Ivl) (t : Int) : Bool := gtis.any fun g => decide (g.1 ≤ t) && decide (t ≤ g.2)

/-- xGTIList.filter_event_times: times kept and the mask -/
def filterTimes (gtis : List Ivl) (ts : List Int) : List Int × List Bool :=
  (ts.filter (inSome gtis), ts.map (inSome gtis))

/-- xGTIList.complement: pair the inner bounds -/
def complement : List Ivl → List Ivl
  | (_, e0) :: (s1, e1) :: rest => (e0, s1) :: complement ((s1, e1) :: rest)
  | _ => []

def total (l : List Ivl) : Int := (l.map fun g => g.2 - g.1).foldl (· + ·) 0

structure Epoch where
  start : Int
  stop : Int
  saa : Bool
  occ : Bool
  deriving Repr, DecidableEq

/-- `_bisect_odd(array, value)` = `searchsorted(array, value) % 2 == 1` evaluated at the epoch centre
`(start + stop)/2`: with everything doubled, the number of elements `a` with `2a < start + stop`. -/
def bisectOdd2 (arr : List Int) (twice : Int) : Bool := (arr.filter fun a => decide (2 * a < twice)).length % 2 == 1

/-- `_calculate_epochs(mets, saa_mets, occult_mets)` -/
def calcEpochs (saa occ : List Int) : List Int → List Epoch
  | a :: b :: rest => ⟨a, b, bisectOdd2 saa (a + b), bisectOdd2 occ (a + b)⟩ :: calcEpochs saa occ (b :: rest)
  | _ => []

def filterEpochs (minDur padA padB : Int) (eps : List Epoch) : List Epoch :=
  eps.filter fun e => decide (e.stop - e.start > minDur + padA + padB)

/-- xObservationTimeline.gti_list (with the padding applied to the bounds, i.e. the repaired code) -/
def gtiList (minDur padA padB : Int) (eps : List Epoch) : List Ivl :=
  (eps.filter fun e => decide (e.stop - e.start > minDur + padA + padB) && !e.saa && !e.occ).map
    fun e => (e.start + padA, e.stop - padB)

/-- xObservationTimeline.octi_list: occulted and not in the SAA -/
def octiList (minDur padA padB : Int) (eps : List Epoch) : List Ivl :=
  (eps.filter fun e => decide (e.stop - e.start > minDur + padA + padB) && e.occ && !e.saa).map
    fun e => (e.start + padA, e.stop - padB)

/-- xEventBinningLC._bin_gti -/
def binGti (emin emax : Int) : List (Int × Int) → Int
  | [] => 0
  | (start, stop) :: rest =>
    if start ≥ emin ∧ stop ≤ emax then (stop - start) + binGti emin emax rest
    else if start ≥ emin ∧ stop > emax then
      if start ≥ emax then 0            -- break
      else (emax - start)               -- add, break
    else if start < emin ∧ stop > emax then (emax - emin)   -- add, break
    else if start < emin ∧ stop ≤ emax then
      if stop ≤ emin then binGti emin emax rest             -- continue
      else (stop - emin) + binGti emin emax rest
    else binGti emin emax rest

def overlap (emin emax : Int) (g : Int × Int) : Int := max 0 (min emax g.2 - max emin g.1)

def sumOverlap (emin emax : Int) : List (Int × Int) → Int
  | [] => 0
  | g :: rest => overlap emin emax g + sumOverlap emin emax rest

end Gti
