/-!
# C08 — hand-written model of numpy.histogram bin assignment (used by every binning algorithm of xpbin)

Values and edges are order-preserving integer keys of the floating-point numbers the code histograms (the driver maps
IEEE doubles monotonically to `Int`), so the model is exact, including values exactly on an edge.
Bins are `[e_i, e_{i+1})` except the last, which is closed — numpy's rule.
-/
namespace Hist

/-- index of the bin containing x, for edges e0 :: rest (sorted); none if outside [e0, e_last] -/
def binIndexGo : Int → List Int → Int → Nat → Option Nat
  | _, [], _, _ => none
  | lo, [hi], x, i => if lo ≤ x ∧ x ≤ hi then some i else none          -- last bin closed
  | lo, hi :: hi' :: rest, x, i =>
      if x < lo then none
      else if x < hi then some i
      else binIndexGo hi (hi' :: rest) x (i + 1)

def binIndex : List Int → Int → Option Nat
  | [], _ => none
  | e0 :: rest, x => binIndexGo e0 rest x 0

/-- per-bin counts -/
def hist (edges : List Int) (xs : List Int) : List Nat :=
  (List.range (edges.length - 1)).map fun i => (xs.filter fun x => binIndex edges x == some i).length

/-- the half-integer channel edges of the PHA1 algorithms, doubled: 2c₀−1, 2c₀+1, … (n+1 entries) -/
def chanEdges (c0 : Int) : Nat → List Int
  | 0 => [2 * c0 - 1]
  | n + 1 => (2 * c0 - 1) :: chanEdges (c0 + 1) n

end Hist
