import IxpeVerif.Num
import IxpeVerif.Model.NdArray
/-!
# C19 — `xHistogramBase` persistence, copy and arithmetic (core/hist.py)

State of a histogram: binning (one edge array per axis), labels (one per axis plus the content label),
and three arrays of the same shape: `content`, `entries`, `sumw2`.  `errors() = sqrt(sumw2)`;
`set_errors(e)` stores `e**2`.  `save` writes the three arrays transposed as images, the edges as
single-precision (`format='E'`) columns and the labels as keywords; `from_file` reads them back,
transposes again, rebuilds the object from edges and labels and calls
`set_content(content, entries, sqrt(sumw2))`.  `r32` is the float64→float32→float64 rounding of the
`E` column.
-/
namespace HistIO
open Nd

structure Hist (α : Type) where
  binning : List (List α)
  labels : List String
  content : Arr α
  entries : Arr α
  sumw2 : Arr α

/-- what `save` puts on disk -/
structure File (α : Type) where
  primary : Image α
  entries : Image α
  sumw2 : Image α
  binning : List (List α)
  labels : List String

variable {α : Type} [RealLike α]

/-- `tuple(len(bins) - 1 for bins in binning)` -/
def shapeOf (binning : List (List α)) : List Nat := binning.map fun b => b.length - 1

def zeros (shape : List Nat) : Arr α := ⟨shape, fun _ => 0.0⟩

/-- `cls(*edges, *labels)` -/
def new (binning : List (List α)) (labels : List String) : Hist α :=
  { binning := binning, labels := labels, content := zeros (shapeOf binning), entries := zeros (shapeOf binning),
    sumw2 := zeros (shapeOf binning) }

def Hist.errors (h : Hist α) : Arr α := h.sumw2.map RealLike.sqrt

/-- `self.sumw2 = errors**2.` -/
def Hist.setErrors (h : Hist α) (e : Arr α) : Hist α := { h with sumw2 := e.map fun x => x * x }

/-- `set_content(content, entries=None, errors=None)` -/
def Hist.setContent (h : Hist α) (content : Arr α) (entries : Option (Arr α)) (errors : Option (Arr α)) : Hist α :=
  let h := { h with content := content }
  let h := match entries with | some e => { h with entries := e } | none => h
  match errors with | some e => h.setErrors e | none => h

def Hist.emptyCopy (h : Hist α) : Hist α := new h.binning h.labels

/-- `copy()` on the current tree: content, entries *and* sumw2 -/
def Hist.copy (h : Hist α) : Hist α :=
  let k := h.emptyCopy.setContent h.content (some h.entries) none
  { k with sumw2 := h.sumw2 }

/-- `copy()` before the repair (fix 4): the errors were left at zero -/
def Hist.copyOld (h : Hist α) : Hist α := h.emptyCopy.setContent h.content (some h.entries) none

def Hist.save (r32 : α → α) (h : Hist α) : File α :=
  { primary := h.content.T.toImage, entries := h.entries.T.toImage, sumw2 := h.sumw2.T.toImage,
    binning := h.binning.map (·.map r32), labels := h.labels }

def load (f : File α) : Hist α :=
  let content := (f.primary.toArr 0.0).T
  let entries := (f.entries.toArr 0.0).T
  let errors := ((f.sumw2.toArr 0.0).T).map RealLike.sqrt
  (new f.binning f.labels).setContent content (some entries) (some errors)

/-- a loader that moves the first axis last instead of reversing all axes (identical to `.T` in 1-d and 2-d) -/
def loadMoveaxis (f : File α) : Hist α :=
  let content := (f.primary.toArr 0.0).moveFirstToLast
  let entries := (f.entries.toArr 0.0).moveFirstToLast
  let errors := ((f.sumw2.toArr 0.0).moveFirstToLast).map RealLike.sqrt
  (new f.binning f.labels).setContent content (some entries) (some errors)

/-- `__add__`, `__sub__`: `set_content(c1 ± c2, e1 + e2, sqrt(s1 + s2))` -/
def Hist.add (h k : Hist α) : Hist α :=
  h.emptyCopy.setContent (h.content.zip (· + ·) k.content) (some (h.entries.zip (· + ·) k.entries))
    (some ((h.sumw2.zip (· + ·) k.sumw2).map RealLike.sqrt))
def Hist.sub (h k : Hist α) : Hist α :=
  h.emptyCopy.setContent (h.content.zip (· - ·) k.content) (some (h.entries.zip (· + ·) k.entries))
    (some ((h.sumw2.zip (· + ·) k.sumw2).map RealLike.sqrt))
/-- `__mul__` by a scalar: `set_content(c * v, entries, errors() * v)` -/
def Hist.scale (h : Hist α) (v : α) : Hist α :=
  h.emptyCopy.setContent (h.content.map (· * v)) (some h.entries) (some (h.errors.map (· * v)))

/-- one weighted entry into the bin `idx` (the effect of `fill` for one event landing inside the binning) -/
def Hist.fillOne (h : Hist α) (idx : List Nat) (w : α) : Hist α :=
  let bump (a : Arr α) (x : α) : Arr α := ⟨a.shape, fun i => if i = idx then a.get i + x else a.get i⟩
  { h with content := bump h.content w, entries := bump h.entries 1.0, sumw2 := bump h.sumw2 (w * w) }

/-- two histograms are indistinguishable through the public interface -/
def Hist.Same (h k : Hist α) : Prop :=
  h.binning = k.binning ∧ h.labels = k.labels ∧ h.content.Same k.content ∧ h.entries.Same k.entries ∧ h.sumw2.Same k.sumw2

/-- the three arrays have the shape the binning dictates -/
def Hist.WF (h : Hist α) : Prop :=
  h.content.shape = shapeOf h.binning ∧ h.entries.shape = shapeOf h.binning ∧ h.sumw2.shape = shapeOf h.binning

end HistIO
