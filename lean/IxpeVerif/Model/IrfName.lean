/-!
# C12 — hand-written model of the response-file name composition (ixpeobssim/irf/caldb.py)

`irf_file_name` on lists of character codes with structurally recursive helpers (so that the kernel can evaluate it on the whole generated
CALDB listing).  This is the *repaired* code: from version 13 on the gray-filter marker is appended to the full intent,
before that it is inserted after the stem of the intent.
-/
namespace IrfName

/-! string constants as character codes -/
def sGray : List Nat := [95, 103, 114, 97, 121]   -- "_gray"
def sSimple : List Nat := [115, 105, 109, 112, 108, 101]   -- "simple"
def sAlpha : List Nat := [95, 97, 108, 112, 104, 97, 48, 55, 53]   -- "_alpha075"
def sD : List Nat := [95, 100]   -- "_d"
def sV : List Nat := [95, 118]   -- "_v"
def sFits : List Nat := [46, 102, 105, 116, 115]   -- ".fits"
def sArf : List Nat := [97, 114, 102]   -- "arf"
def sMrf : List Nat := [109, 114, 102]   -- "mrf"
def sRmf : List Nat := [114, 109, 102]   -- "rmf"
def sModf : List Nat := [109, 111, 100, 102]   -- "modf"
def sMfact : List Nat := [109, 102, 97, 99, 116]   -- "mfact"

def isPrefix : List Nat → List Nat → Bool
  | [], _ => true
  | _ :: _, [] => false
  | a :: as, b :: bs => a == b && isPrefix as bs

/-- `str.replace(old, new)` for non-empty `old` (fuel = length + 1) -/
def replaceAllAux (old new : List Nat) : Nat → List Nat → List Nat
  | 0, s => s
  | _, [] => []
  | fuel + 1, c :: cs =>
      if isPrefix old (c :: cs) then new ++ replaceAllAux old new fuel ((c :: cs).drop old.length)
      else c :: replaceAllAux old new fuel cs

/-- Python `s.replace(old, new)`; for an empty `old` Python inserts `new` before every character and at the end -/
def replaceAll (s old new : List Nat) : List Nat :=
  if old.isEmpty then new ++ s.flatMap (fun c => c :: new) else replaceAllAux old new (s.length + 1) s

def hasInfix (pat : List Nat) : List Nat → Bool
  | [] => pat.isEmpty
  | c :: cs => isPrefix pat (c :: cs) || hasInfix pat cs

def endsWith (s suf : List Nat) : Bool := isPrefix suf.reverse s.reverse

def stripUnderscore (s : List Nat) : List Nat :=
  ((s.dropWhile (· == 95)).reverse.dropWhile (· == 95)).reverse

/-- character codes: strings are lists of code points (Nat literals are fast in the kernel) -/
def digitChar (n : Nat) : Nat := 48 + n % 10

/-- `'%03d' % n` for n < 1000 -/
def pad3 (n : Nat) : List Nat := [digitChar (n / 100), digitChar (n / 10 % 10), digitChar (n % 10)]

inductive Err | simpleType | simpleIntent | grayType
  deriving DecidableEq, Repr

structure Consts where
  weightNames : List (List Nat)
  simpleTypes : List (List Nat)
  grayTypes : List (List Nat)

def grayIntent (k : Consts) (intent : List Nat) (version : Nat) : List Nat :=
  if version ≥ 13 then intent ++ sGray
  else
    let i1 := replaceAll intent sSimple []
    let i2 := k.weightNames.foldl (fun acc w => replaceAll acc w []) i1
    let stem := stripUnderscore i2
    replaceAll intent stem (stem ++ sGray)

/-- `irf_file_name(base, du_id, irf_type, intent, version, simple_weighting, gray_filter)` -/
def fileName (k : Consts) (base : List Nat) (du : Nat) (typ intent : List Nat) (version : Nat) (simple gray : Bool) :
    Except Err (List Nat) :=
  if simple && !k.simpleTypes.contains typ then .error .simpleType
  else if simple && !endsWith intent sAlpha then .error .simpleIntent
  else
    let intent1 := if simple then intent ++ sSimple else intent
    if gray && !k.grayTypes.contains typ then .error .grayType
    else
      let intent2 := if gray then grayIntent k intent1 version else intent1
      let head := base ++ sD ++ [digitChar du] ++ [95] ++ intent2
      if typ == sArf || typ == sMrf || typ == sRmf then
        .ok (head ++ sV ++ pad3 version ++ [46] ++ typ)
      else
        let t := if typ == sModf then sMfact else typ
        .ok (head ++ [95] ++ t ++ sV ++ pad3 version ++ sFits)

end IrfName

/-! ### the string operations the generated name composition (`Gen/IrfNameGen.lean`, translator/strtrans.py) is written in -/
namespace Str

/-- `s.replace(old, new)` -/
def replace (s old new : List Nat) : List Nat := IrfName.replaceAll s old new
/-- `s.strip('_')` -/
def stripUnderscore (s : List Nat) : List Nat := IrfName.stripUnderscore s
/-- `s.endswith(suf)` -/
def endswith (s suf : List Nat) : Bool := IrfName.endsWith s suf

def digits : Nat → Nat → List Nat
  | 0, _ => []
  | fuel + 1, n => if n < 10 then [48 + n] else digits fuel (n / 10) ++ [48 + n % 10]

/-- `'%d' % n` for a non-negative integer -/
def dec (n : Nat) : List Nat := digits (n + 1) n

/-- `'%0wd' % n` for a non-negative integer: zero-padded to at least `w` characters -/
def decPad (w n : Nat) : List Nat := List.replicate (w - (dec n).length) 48 ++ dec n

end Str
