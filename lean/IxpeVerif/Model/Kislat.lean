import IxpeVerif.Num
/-!
# C02 — hand-written model of `ixpeobssim/evt/kislat2015.py` (`xStokesAnalysis`)

Per-bin part: `calculate_stokes_errors`, `calculate_polarization` (with the two-pass masks and the
`m > 0` guard on the angle error), `calculate_mdp99`, `calculate_n_eff`.
Event part: the constructor (`0 ≤ E ≤ 15 keV` filter, weights, acceptance correction, division by the
per-event modulation factor), the `(emin, emax]` energy mask, the sums and the weighted averages,
and the row of `polarization_table` in FITS column order.

Every division sits under the code's own mask; outside the masks the code's defaults (0, −1, 1)
are returned.  The response functions enter as per-event values `mu`, `aeff` (parameters).
`SIGNIF = norm.ppf(0.5·CONFID + 0.5)` is an external function (scipy) applied by the harness.
Tied to the code by the correspondence check `harness/props/C02.py`.
-/
open RealLike
namespace Kislat

section
variable {α : Type} [RealLike α]

def lsum (xs : List α) : α := xs.foldl (· + ·) 0.0

structure StokesErr (α : Type) where
  QN : α
  UN : α
  dI : α
  dQ : α
  dU : α
  dQN : α
  dUN : α
  cov : α
  pval : α
  conf : α
  defined : Bool

/-- `xStokesAnalysis.calculate_stokes_errors` for one bin (SIGNIF excluded) -/
def stokesErrors (I Q U mu W2 : α) : StokesErr α :=
  let dI := sqrt W2
  let m1 : Bool := decide ((0.0 : α) < I)
  let QN := if m1 then Q / I else 0.0
  let UN := if m1 then U / I else 0.0
  let m2 : Bool := m1 && decide ((QN * mu) * (QN * mu) ≤ (2.0 : α)) && decide ((UN * mu) * (UN * mu) ≤ (2.0 : α))
  let W2N := W2 / (I * I)
  let dQN := if m2 then sqrt (W2N * (2.0 / (mu * mu) - QN * QN)) else 0.0
  let dUN := if m2 then sqrt (W2N * (2.0 / (mu * mu) - UN * UN)) else 0.0
  let cov := if m2 then -(W2N) * QN * UN else 0.0
  let dQ := I * dQN
  let dU := I * dUN
  let pval := if m2 then exp (-(0.5 : α) * (Q * Q / (dQ * dQ) + U * U / (dU * dU))) else -(1.0 : α)
  let conf := if m2 then 1.0 - pval else -(1.0 : α)
  { QN, UN, dI, dQ, dU, dQN, dUN, cov, pval, conf, defined := m2 }

structure Pol (α : Type) where
  pd : α
  pdErr : α
  pa : α
  paErr : α

/-- `xStokesAnalysis.calculate_polarization` for one bin -/
def polarization (I Q U mu W2 : α) (degrees : Bool) : Pol α :=
  let m1 : Bool := decide ((1.0 : α) < I)
  let pd := if m1 then sqrt (Q * Q + U * U) / I else 0.0
  let m := pd * mu
  let m2 : Bool := m1 && decide (m * m < (2.0 : α)) && decide ((0.0 : α) < mu)
  let errScale := if m2 then sqrt (W2 / I) else 1.0
  let pdErr := if m2 then errScale * sqrt ((2.0 - m * m) / ((I - 1.0) * (mu * mu))) else 0.0
  let pa := if m2 then 0.5 * atan2 U Q else 0.0
  let paErr := if m2 && decide ((0.0 : α) < m) then errScale / (m * sqrt (2.0 * (I - 1.0))) else 0.0
  let k : α := if degrees then 180.0 / pi else 1.0
  { pd, pdErr, pa := pa * k, paErr := paErr * k }

/-- `xStokesAnalysis.calculate_mdp99` (clip = True) -/
def mdp99 (mu I W2 : α) : α :=
  let v := if (0.0 : α) < I ∧ (0.0 : α) < mu then 4.29 * sqrt W2 / (mu * I) else 1.0
  if v < 0.0 then 0.0 else if (1.0 : α) < v then 1.0 else v

/-- `xStokesAnalysis.calculate_n_eff`, first component -/
def nEff (I W2 : α) : α := if (0.0 : α) < I then I * I / W2 else 0.0

/-- One event as seen by the constructor: Stokes parameters, energy, weight, and the responses
evaluated at its energy. -/
structure Ev (α : Type) where
  q : α
  u : α
  e : α
  w : α
  mu : α
  aeff : α

/-- the constructor: energy filter, weights, acceptance correction, division by μ(E) -/
structure Prep (α : Type) where
  e : α
  w : α
  q : α
  u : α
  mu : α

def prep (useWeights acceptcorr : Bool) (evs : List (Ev α)) : List (Prep α) :=
  (evs.filter fun ev => decide ((0.0 : α) ≤ ev.e) && decide (ev.e ≤ (15.0 : α))).map fun ev =>
    let w0 : α := if useWeights then ev.w else 1.0
    let w : α := if acceptcorr then w0 / ev.aeff else w0
    { e := ev.e, w := w, q := ev.q * (w / ev.mu), u := ev.u * (w / ev.mu), mu := ev.mu }

/-- `_energy_mask`: `emin < E ≤ emax` -/
def inBin (emin emax : α) (p : Prep α) : Bool := decide (emin < p.e) && decide (p.e ≤ emax)

structure Sums (α : Type) where
  counts : Nat
  I : α
  Q : α
  U : α
  W2 : α
  muW : α     -- Σ μᵢ wᵢ
  eW : α      -- Σ Eᵢ wᵢ

def sums (ps : List (Prep α)) : Sums α :=
  { counts := ps.length
    I := lsum (ps.map (·.w))
    Q := lsum (ps.map (·.q))
    U := lsum (ps.map (·.u))
    W2 := lsum (ps.map fun p => p.w * p.w)
    muW := lsum (ps.map fun p => p.mu * p.w)
    eW := lsum (ps.map fun p => p.e * p.w) }

def binSums (emin emax : α) (ps : List (Prep α)) : Sums α := sums (ps.filter (inBin emin emax))

/-- the numeric columns of one `polarization_table` row, in FITS order after ENERG_LO/ENERG_HI:
E_MEAN, COUNTS (separately), MU, W2, N_EFF, MDP_99, I, I_ERR, Q, Q_ERR, U, U_ERR, QN, QN_ERR, UN, UN_ERR,
QUN_COV, PD, PD_ERR, PA, PA_ERR, P_VALUE, CONFID.  (FRAC_W = N_EFF / COUNTS is formed by the harness.) -/
def row (s : Sums α) : List α :=
  let mu := s.muW / s.I
  let emean := s.eW / s.I
  let e := stokesErrors s.I s.Q s.U mu s.W2
  let p := polarization s.I s.Q s.U mu s.W2 true
  [emean, mu, s.W2, nEff s.I s.W2, mdp99 mu s.I s.W2, s.I, e.dI, s.Q, e.dQ, s.U, e.dU,
   e.QN, e.dQN, e.UN, e.dUN, e.cov, p.pd, p.pdErr, p.pa, p.paErr, e.pval, e.conf]

end
end Kislat
