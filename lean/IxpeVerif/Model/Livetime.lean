/-!
# C05 — hand-written model of `xEventList.fill_livetime` (ixpeobssim/evt/event.py)

Times are `Int` ticks of 2⁻²⁰ s (see DESIGN.md §3.2: on such inputs every float64 operation the code performs is exact, so
the correspondence check compares exactly).  `fillLivetime s0 starts times dead` is the code line by line:

  met  = append(start_met, time)                     -- `s0 :: times`
  idx  = searchsorted(met, start_mets, side='right') -- `searchRight`
  mask = idx < len(met)                              -- GTIs without a later event are skipped (`met[idx]? = none`)
  dt   = diff(met)                                   -- `diffs`
  dt[idx - 1] = met[idx] - start_mets + deadtime     -- fancy-index assignment, *last assignment wins* = left fold with `set`
  dt  -= deadtime
  dt   = floor(dt * 1e6)                             -- `toMicro` (ticks -> µs, floor)

`stepLW`/`fillLivetimeW` additionally reproduce Python's negative-index wrap-around for `idx = 0` (`dt[-1]` is the last
slot); `Props/C05.lean` proves that it cannot occur when no GTI starts before the observation start (which
`xGTIList.append_gti` asserts), so that both coincide.
-/
namespace Livetime

def searchRight (a : List Int) (v : Int) : Nat := (a.takeWhile (· ≤ v)).length

def diffs : List Int → List Int
  | a :: b :: rest => (b - a) :: diffs (b :: rest)
  | _ => []

def stepL (met : List Int) (dead : Int) (dt : List Int) (s : Int) : List Int :=
  let idx := searchRight met s
  match met[idx]? with
  | none => dt
  | some m => dt.set (idx - 1) (m - s + dead)

def fillLivetime (s0 : Int) (starts times : List Int) (dead : Int) : List Int :=
  let met := s0 :: times
  (starts.foldl (stepL met dead) (diffs met)).map (· - dead)

/-- faithful variant: `dt[idx - 1]` with `idx = 0` is Python's `dt[-1]` -/
def stepLW (met : List Int) (dead : Int) (dt : List Int) (s : Int) : List Int :=
  let idx := searchRight met s
  match met[idx]? with
  | none => dt
  | some m => dt.set (if idx = 0 then dt.length - 1 else idx - 1) (m - s + dead)

def fillLivetimeW (s0 : Int) (starts times : List Int) (dead : Int) : List Int :=
  let met := s0 :: times
  (starts.foldl (stepLW met dead) (diffs met)).map (· - dead)

/-- ticks of 2⁻²⁰ s to microseconds, floor (`numpy.floor(dt * 1.e6)`): ⌊dt·10⁶/2²⁰⌋ = ⌊dt·15625/16384⌋ -/
def toMicro (dt : Int) : Int := dt * 15625 / 16384

/-- the LIVETIME column in µs -/
def livetimeColumn (s0 : Int) (starts times : List Int) (dead : Int) : List Int :=
  (fillLivetimeW s0 starts times dead).map toMicro

/-- header quantities: Σ LIVETIME (µs) and ONTIME (ticks) -/
def livetimeSum (col : List Int) : Int := col.foldl (· + ·) 0
def ontime (gtis : List (Int × Int)) : Int := (gtis.map fun g => g.2 - g.1).foldl (· + ·) 0

end Livetime
