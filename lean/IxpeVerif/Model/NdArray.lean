/-!
# Dense n-dimensional arrays and the FITS image layout (C19)

`xHistogramBase.save` writes `content.T`, `entries.T`, `sumw2.T` as FITS images and `from_file`
reads `data.T` back.  A numpy array is modelled by its shape and its index function; `.T` reverses
the axes (`a.T[i] = a[reverse i]`), which is exactly what numpy does with the strides.  What goes
to disk is the row-major enumeration of the elements (`flat`) together with the shape; what comes
back is rebuilt from that flat buffer with row-major index arithmetic (`ofFlat`).  No imports.
-/

namespace Nd

structure Arr (α : Type) where
  shape : List Nat
  get : List Nat → α

/-- all the index tuples of an array of the given shape, in row-major (C) order -/
def indices : List Nat → List (List Nat)
  | [] => [[]]
  | n :: s => (List.range n).flatMap fun i => (indices s).map (i :: ·)

/-- number of elements -/
def size : List Nat → Nat
  | [] => 1
  | n :: s => n * size s

/-- row-major offset of an index tuple -/
def ravel : List Nat → List Nat → Nat
  | _ :: s, i :: is => i * size s + ravel s is
  | _, _ => 0

/-- the buffer numpy hands to the FITS writer: elements in row-major order -/
def Arr.flat {α} (a : Arr α) : List α := (indices a.shape).map a.get

/-- an array rebuilt from a flat row-major buffer -/
def ofFlat {α} (shape : List Nat) (d : List α) (dflt : α) : Arr α :=
  ⟨shape, fun i => d.getD (ravel shape i) dflt⟩

/-- `numpy.ndarray.T`: all axes reversed -/
def Arr.T {α} (a : Arr α) : Arr α := ⟨a.shape.reverse, fun i => a.get i.reverse⟩

/-- `numpy.moveaxis(a, 0, -1)`: first axis becomes the last (what a wrong loader could use) -/
def Arr.moveFirstToLast {α} (a : Arr α) : Arr α :=
  ⟨a.shape.drop 1 ++ a.shape.take 1, fun i => a.get (i.drop (i.length - 1) ++ i.take (i.length - 1))⟩

/-- pointwise map / zip (numpy broadcasting of same-shape operands) -/
def Arr.map {α β} (f : α → β) (a : Arr α) : Arr β := ⟨a.shape, fun i => f (a.get i)⟩
def Arr.zip {α β γ} (f : α → β → γ) (a : Arr α) (b : Arr β) : Arr γ := ⟨a.shape, fun i => f (a.get i) (b.get i)⟩

/-- a FITS image HDU as astropy presents it: numpy shape + row-major data -/
structure Image (α : Type) where
  shape : List Nat
  data : List α
deriving DecidableEq, Repr

def Arr.toImage {α} (a : Arr α) : Image α := ⟨a.shape, a.flat⟩
def Image.toArr {α} (m : Image α) (dflt : α) : Arr α := ofFlat m.shape m.data dflt

/-- two arrays are the same numpy array: same shape, same elements at every valid index -/
def Arr.Same {α} (a b : Arr α) : Prop := a.shape = b.shape ∧ ∀ i ∈ indices a.shape, a.get i = b.get i

end Nd
