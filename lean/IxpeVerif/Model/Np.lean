/-!
# `Np` — the fragment of numpy / Python list semantics that the *imperative* translator (`translator/imptrans.py`) targets

Import-free.  Arrays of times are `List Int` (ticks of 2⁻²⁰ s, DESIGN.md §3.2), boolean masks are `List Bool`, index arrays are `List Int`
(Python indices may be negative: `wrap`).  Each definition states the numpy operation it stands for; that numpy implements this
semantics is in the trusted base and is what the exact correspondence (C-tie) of the functions proved equal to the generated code exercises.

Out-of-range reads return a default (`0`/`false`) where Python raises `IndexError`: the generated definitions are proved equal to hand models
that have no such default, and `Props/` states in-range lemmas where a read is guarded by a mask in the source.
-/
namespace Np

/-- `len(a)` -/
def len {α : Type} (a : List α) : Int := (a.length : Int)

/-- Python index normalisation: a negative index counts from the end -/
def wrap (n : Nat) (i : Int) : Nat := if i < 0 then (i + n).toNat else i.toNat

/-- `a[i]` for a scalar index (IndexError ↦ 0) -/
def getI (a : List Int) (i : Int) : Int :=
  if i < -(a.length : Int) ∨ (a.length : Int) ≤ i then 0 else a.getD (wrap a.length i) 0

/-- `numpy.append(x, a)` with a scalar first argument -/
def append1 (x : Int) (a : List Int) : List Int := x :: a

/-- `numpy.searchsorted(a, v, side='right')` on a sorted array: the number of leading elements `≤ v` -/
def searchRight1 (a : List Int) (v : Int) : Int := ((a.takeWhile (· ≤ v)).length : Int)
def searchsortedRight (a v : List Int) : List Int := v.map (searchRight1 a)

/-- `numpy.searchsorted(a, v)` (`side='left'`) on a sorted array: the number of leading elements `< v` -/
def searchLeft1 (a : List Int) (v : Int) : Int := ((a.takeWhile (· < v)).length : Int)
def searchsortedLeft (a v : List Int) : List Int := v.map (searchLeft1 a)

/-- `numpy.diff(a)` -/
def diff : List Int → List Int
  | a :: b :: rest => (b - a) :: diff (b :: rest)
  | _ => []

/-- elementwise comparisons array ∘ scalar -/
def ltVS (a : List Int) (s : Int) : List Bool := a.map fun x => decide (x < s)
def leVS (a : List Int) (s : Int) : List Bool := a.map fun x => decide (x ≤ s)
def gtVS (a : List Int) (s : Int) : List Bool := a.map fun x => decide (x > s)
def geVS (a : List Int) (s : Int) : List Bool := a.map fun x => decide (x ≥ s)

/-- `numpy.logical_and(a, b)`, `numpy.logical_not(a)` -/
def andVV (a b : List Bool) : List Bool := List.zipWith (· && ·) a b
def notV (a : List Bool) : List Bool := a.map (!·)

/-- `a[mask]` (boolean-mask indexing) -/
def compress {α : Type} : List Bool → List α → List α
  | m :: ms, x :: xs => if m then x :: compress ms xs else compress ms xs
  | _, _ => []

/-- `a[idx]` (integer-array indexing) -/
def take (a : List Int) (idx : List Int) : List Int := idx.map (getI a)

/-- `a[i] = v` for a scalar index -/
def setI {α : Type} (a : List α) (i : Int) (v : α) : List α :=
  if i < -(a.length : Int) ∨ (a.length : Int) ≤ i then a else a.set (wrap a.length i) v

/-- `a[idx] = vals` (integer-array assignment): performed in order, so that for a repeated index the last value wins -/
def put (a : List Int) : List Int → List Int → List Int
  | i :: is, v :: vs => put (setI a i v) is vs
  | _, _ => a

/-- `a[mask] = v` for a boolean mask and a scalar value -/
def putMask {α : Type} (a : List α) (mask : List Bool) (v : α) : List α :=
  List.zipWith (fun x m => if m then v else x) a mask

/-- arithmetic: array ∘ scalar, array ∘ array -/
def addVS (a : List Int) (s : Int) : List Int := a.map (· + s)
def subVS (a : List Int) (s : Int) : List Int := a.map (· - s)
def addVV (a b : List Int) : List Int := List.zipWith (· + ·) a b
def subVV (a b : List Int) : List Int := List.zipWith (· - ·) a b

/-- `numpy.ones/zeros(a.shape, dtype=bool)` -/
def full {α : Type} (n : Int) (v : α) : List α := List.replicate n.toNat v

/-- `range(a, b)` -/
def range (a b : Int) : List Int := (List.range (b - a).toNat).map fun (k : Nat) => a + (k : Int)

/-- `sum(...)` of a list of numbers -/
def sum (a : List Int) : Int := a.foldl (· + ·) 0

/-- ticks of 2⁻²⁰ s to microseconds, floor: `numpy.floor(x * 1.e6)` with `x` in seconds = ticks / 2²⁰, i.e. ⌊ticks·15625/16384⌋ -/
def floorMicro1 (x : Int) : Int := x * 15625 / 16384
def floorMicro (a : List Int) : List Int := a.map floorMicro1

/-- `a[1:-1]`, `a[:-1]`, `a[1:]` -/
def inner {α : Type} (a : List α) : List α := (a.drop 1).dropLast
def init {α : Type} (a : List α) : List α := a.dropLast
def tail {α : Type} (a : List α) : List α := a.drop 1

/-- `sum([[s, e] for s, e in l], [])` -/
def flattenPairs (l : List (Int × Int)) : List Int := l.flatMap fun p => [p.1, p.2]

/-- the iterator idiom `it = iter(a); [(x, next(it)) for x in it]`: consecutive elements read in pairs (a trailing odd element raises
`StopIteration` inside the comprehension, which Python ≥ 3.7 turns into `RuntimeError`: dropped here, unreachable for an even length) -/
def pairUp : List Int → List (Int × Int)
  | a :: b :: rest => (a, b) :: pairUp rest
  | _ => []

/-- the record of `xTimelineEpoch` (instrument/traj.py), fields named as in the source -/
structure Epoch where
  start_met : Int
  stop_met : Int
  in_saa : Bool
  occulted : Bool
  deriving Repr, DecidableEq

/-- `0.5 * x` on ticks: exact when `x` is even (the epoch centre of two even marks) -/
def half (x : Int) : Int := x / 2

/-- `enumerate(a)` -/
def enumerate (a : List Int) : List (Int × Int) := (List.range a.length).zip a |>.map fun p => ((p.1 : Int), p.2)

end Np
