import IxpeVerif.Num
/-!
# `NpR` — the fragment of numpy semantics on *real* arrays that `translator/realimp.py` targets (import-free apart from the scalar class)

Each definition states the numpy operation it stands for; out-of-range reads return `0.0` where Python raises `IndexError`.
-/
namespace NpR
variable {α : Type} [RealLike α]

/-- `a[-1]` -/
def last (l : List α) : α := l.getLast?.getD 0.0
/-- `a[0]` -/
def first (l : List α) : α := l.head?.getD 0.0
/-- `a / s` (array over scalar) -/
def divVS (l : List α) (s : α) : List α := l.map (· / s)
/-- `x[idx]` for an array of indices -/
def takeIdx (x : List α) (idx : List Nat) : List α := idx.map fun i => x.getD i 0.0

/-- the runs of equal values of a non-decreasing array: the first element of each run and its index (`c0` at `i0` opens the current run, `i` is
the index of the head of the rest) -/
def uniqueGo (c0 : α) (i0 : Nat) : Nat → List α → List α × List Nat
  | _, [] => ([c0], [i0])
  | i, c1 :: rest =>
    if c0 ≤ c1 ∧ c1 ≤ c0 then uniqueGo c0 i0 (i + 1) rest
    else ((c0 :: (uniqueGo c1 i (i + 1) rest).1), (i0 :: (uniqueGo c1 i (i + 1) rest).2))

/-- `numpy.unique(c, return_index=True)` on a non-decreasing array: (distinct values, index of the first occurrence of each) -/
def uniqueFirst : List α → List α × List Nat
  | [] => ([], [])
  | c0 :: rest => uniqueGo c0 0 1 rest

end NpR
