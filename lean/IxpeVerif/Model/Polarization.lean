import IxpeVerif.Num
import IxpeVerif.Model.Kislat
/-!
# C20 — hand-written model of `harmonic_addition` (ixpeobssim/srcmodel/polarization.py)

The loop over `(F_i, m_i, δ_i)` components; the double loop for `A²`.  (Python accumulates `A²` in one running sum over
all (i, j) pairs; the model sums row by row — same real number, floating-point difference ≤ a few ulp.)
Also the physical-range guard of `xModulationFactor.rvs_phi`.
-/
open RealLike
namespace Pol

structure Comp (α : Type) where
  F : α
  m : α
  d : α

variable {α : Type} [RealLike α]

def amp (c : Comp α) : α := c.F * c.m

def harmonicAddition (ps : List (Comp α)) : α × α × α :=
  let F := Kislat.lsum (ps.map (·.F))
  let num := Kislat.lsum (ps.map fun c => amp c * sin (2.0 * c.d))
  let den := Kislat.lsum (ps.map fun c => amp c * cos (2.0 * c.d))
  let Asq := Kislat.lsum (ps.map fun ci => Kislat.lsum (ps.map fun cj => amp ci * amp cj * cos (2.0 * (ci.d - cj.d))))
  let delta := 0.5 * atan2 num den
  let A := sqrt Asq
  (F, A / F, delta)

/-- `xModulationFactor.rvs_phi`: abort iff some polarization degree is < 0 or > 1 -/
def degreesRefused (ps : List α) : Bool := ps.any fun p => decide (p < (0.0 : α)) || decide ((1.0 : α) < p)

end Pol
