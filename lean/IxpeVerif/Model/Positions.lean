import IxpeVerif.Num
/-!
# C16 — small hand-written models next to the generated samplers

* the covariance of `xGaussianDisk.__init__` (diag((σ/cos dec)², σ²)),
* `numpy.unravel_index(pixel, (nrows, ncols))` of `xFITSImage.rvs_coordinates` (row-major),
* the pixel look-up `numpy.searchsorted(cdf, u)` is `Chan.searchLeft` (Model/Channels.lean).
-/
open RealLike
namespace Pos

variable {α : Type} [RealLike α]

def gaussCov (sigma dec : α) : α × α :=
  let c := cos (dec * (pi / 180.0))
  ((sigma / c) * (sigma / c), sigma * sigma)

/-- row-major unravel: (row, col) -/
def unravel (ncols : Nat) (p : Nat) : Nat × Nat := (p / ncols, p % ncols)

end Pos
