import IxpeVerif.Num
/-!
# C03 — hand-written model of the count-spectrum composition and of the hit-or-miss vignetting

`xCountSpectrum.__init__` + `xSourceSpectrum._pdf` (ixpeobssim/srcmodel/spectrum.py): the tabulated function is
`trans(E) · conv(E·(1+z), t)` with `conv(E', t) = scale · aeff(E'/(1+z)) · S(E', t)` (no transmission factor when the column
density is ≤ 0).  `S`, `aeff`, `trans` are parameters (the spectral model, the effective-area spline, the ISM transmission).
`apply_vignetting_base`: an event survives iff `u ≤ vign(E, θ)` with `u` uniform in [0, 1).
-/
open RealLike
namespace Rates

variable {α : Type} [RealLike α]

def conv (S : α → α → α) (aeff : α → α) (scale z : α) (E' t : α) : α := scale * aeff (E' / (1.0 + z)) * S E' t

def countSpectrum (S : α → α → α) (aeff : α → α) (trans : Option (α → α)) (scale z : α) (E t : α) : α :=
  let pdf := conv S aeff scale z (E * (1.0 + z)) t
  match trans with
  | none => pdf
  | some T => T E * pdf

def vignKeep (v u : α) : Bool := decide (u ≤ v)

end Rates
