import IxpeVerif.Num
/-!
# C15 — hand-written model of the k = 1 tabulated-pdf sampler (ixpeobssim/core/spline.py, core/rand.py)

`xUnivariateGenerator` with a linear spline (`xUnivariateGeneratorLinear`, and every `build_cdf/build_ppf`, which always
use linear splines for the cdf and the ppf):

* `cumTrap`   — `[self.integral(xmin, x_i) for x_i in self.x]`: cumulative trapezoids of the piecewise-linear pdf,
* `dedupFirst`— `numpy.unique(_x, return_index=True)` on the (non-decreasing) cumulative values: first index of each run,
* `ppfNodes`  — quantile nodes `(c_i / c_last, x_i)` after de-duplication; `ppf` = linear interpolation through them,
* `cdfNodes`  — `(x_i, c_i / c_last)`; `cdf` = linear interpolation,
* `boundedU`  — `rvs_bounded`: the uniform variate is drawn in `[cdf(rvmin), cdf(rvmax)]`,
* `negative`  — the constructor's guard: abort iff some tabulated value is negative.
-/
open RealLike
namespace Sampler

variable {α : Type} [RealLike α]

def seg (x0 y0 x1 y1 t : α) : α := y0 + (y1 - y0) * (t - x0) / (x1 - x0)

/-- linear interpolation through the nodes (evaluation inside the node range) -/
def interp : List (α × α) → α → α
  | [], _ => 0.0
  | [(_, y)], _ => y
  | (x0, y0) :: (x1, y1) :: rest, t =>
      if t ≤ x1 then seg x0 y0 x1 y1 t else interp ((x1, y1) :: rest) t

def cumTrap : α → List (α × α) → List α
  | acc, (x0, y0) :: (x1, y1) :: rest => acc :: cumTrap (acc + (y0 + y1) / 2.0 * (x1 - x0)) ((x1, y1) :: rest)
  | acc, [_] => [acc]
  | _, [] => []

def dedupGo (c0 x0 : α) : List (α × α) → List (α × α)
  | [] => [(c0, x0)]
  | (c1, x1) :: rest => if c0 ≤ c1 ∧ c1 ≤ c0 then dedupGo c0 x0 rest else (c0, x0) :: dedupGo c1 x1 rest

/-- numpy.unique(c, return_index=True) on a non-decreasing list: keep the first of each run -/
def dedupFirst : List (α × α) → List (α × α)
  | [] => []
  | (c0, x0) :: rest => dedupGo c0 x0 rest

def total (c : List α) : α := c.getLast?.getD 1.0

def ppfNodes (nodes : List (α × α)) : List (α × α) :=
  let c := cumTrap 0.0 nodes
  dedupFirst ((c.map (· / total c)).zip (nodes.map (·.1)))

def ppf (nodes : List (α × α)) (u : α) : α := interp (ppfNodes nodes) u

def cdfNodes (nodes : List (α × α)) : List (α × α) :=
  let c := cumTrap 0.0 nodes
  (nodes.map (·.1)).zip (c.map (· / total c))

def cdf (nodes : List (α × α)) (x : α) : α := interp (cdfNodes nodes) x

/-- `rvs_bounded`: the variate `u ∈ [0,1)` is mapped to `umin + (umax − umin)·u` -/
def boundedU (nodes : List (α × α)) (rvmin rvmax : Option α) (u : α) : α :=
  let umin : α := match rvmin with | none => 0.0 | some v => cdf nodes v
  let umax : α := match rvmax with | none => 1.0 | some v => cdf nodes v
  umin + (umax - umin) * u

def negative (nodes : List (α × α)) : Bool := nodes.any fun p => decide (p.2 < (0.0 : α))

end Sampler
