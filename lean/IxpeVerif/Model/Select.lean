/-!
# C09 / C10 — hand-written model of `xEventSelect` (ixpeobssim/evt/subselect.py)

Rows carry, for every criterion, an integer *key* that is an order-preserving image of the floating-point value the code
compares (the driver maps IEEE doubles / singles monotonically to `Int`; energies from PI channels are computed in
float32 by the generated `channel_to_energy`, exactly as numpy 2 does).  So every comparison the code performs is a
comparison of keys, and the model is exact.

`mask` is the conjunction the code builds in `select()`:
time `[tmin, tmax)` (or, if no time bound is given, phase `[phasemin, phasemax)`), each optionally inverted (or, if neither is given, the
boolean array of `--mask`); energy
`[emin, emax)` on the PI-channel centre or on the Monte Carlo energy, optionally inverted; closed cone/annulus radii on
the separation; region flag (optionally inverted); every listed source id (they are *and*-ed).
`validate` is `_validate()` (first failing rule).
-/
namespace Sel

structure Row where
  time : Int
  phase : Int
  energy : Int
  mcEnergy : Int
  sep : Int
  mcSep : Int
  inReg : Bool
  mcInReg : Bool
  src : Int
  tag : Nat
  /-- the entry of the boolean array handed over with `--mask` (direct selection) -/
  inMask : Bool := true
  deriving Repr, DecidableEq

structure Cfg where
  tmin : Option Int := none
  tmax : Option Int := none
  tinvert : Bool := false
  pmin : Option Int := none
  pmax : Option Int := none
  pinvert : Bool := false
  emin : Option Int := none
  emax : Option Int := none
  einvert : Bool := false
  mc : Bool := false
  rad : Option Int := none
  innerrad : Option Int := none
  useReg : Bool := false
  reginvert : Bool := false
  srcids : List Int := []
  /-- `--mask <file>`: select with a boolean array read from a file (used when neither a time nor a phase bound is given) -/
  useMask : Bool := false
  deriving Repr

/-- `x >= bound` if the bound is given -/
def geOpt (b : Option Int) (x : Int) : Bool := match b with | none => true | some v => decide (v ≤ x)
/-- `x < bound` if the bound is given -/
def ltOpt (b : Option Int) (x : Int) : Bool := match b with | none => true | some v => decide (x < v)
/-- `x <= bound` if the bound is given -/
def leOpt (b : Option Int) (x : Int) : Bool := match b with | none => true | some v => decide (x ≤ v)

def timeSelected (c : Cfg) : Bool := c.tmin.isSome || c.tmax.isSome
def phaseSelected (c : Cfg) : Bool := c.pmin.isSome || c.pmax.isSome

def timeMask (c : Cfg) (r : Row) : Bool := xor (geOpt c.tmin r.time && ltOpt c.tmax r.time) c.tinvert
def phaseMask (c : Cfg) (r : Row) : Bool := xor (geOpt c.pmin r.phase && ltOpt c.pmax r.phase) c.pinvert

/-- the time/phase stage of `select()` -/
def firstMask (c : Cfg) (r : Row) : Bool :=
  if timeSelected c then timeMask c r else if phaseSelected c then phaseMask c r else if c.useMask then r.inMask else true

def energyMask (c : Cfg) (r : Row) : Bool :=
  let e := if c.mc then r.mcEnergy else r.energy
  xor (geOpt c.emin e && ltOpt c.emax e) c.einvert

def coneMask (c : Cfg) (r : Row) : Bool :=
  let s := if c.mc then r.mcSep else r.sep
  leOpt c.rad s && geOpt c.innerrad s

def regMask (c : Cfg) (r : Row) : Bool :=
  if c.useReg then xor (if c.mc then r.mcInReg else r.inReg) c.reginvert else true

def srcMask (c : Cfg) (r : Row) : Bool := c.srcids.all (· == r.src)

def mask (c : Cfg) (r : Row) : Bool :=
  firstMask c r && energyMask c r && coneMask c r && regMask c r && srcMask c r

/-- the rows of the output file (EVENTS and MONTE_CARLO are columns of the same rows) -/
def select (c : Cfg) (rows : List Row) : List Row := rows.filter (mask c)

inductive Err
  | timeAndPhase | coneAndReg | tminOut | tmaxOut | tminGeTmax | pminOut | pmaxOut | pminGePmax
  deriving Repr, DecidableEq

def outside (b : Option Int) (lo hi : Int) : Bool := match b with | some v => decide (v < lo ∨ hi < v) | none => false
def notOrdered (a b : Option Int) : Bool := match a, b with | some x, some y => decide (y ≤ x) | _, _ => false

/-- `_validate()`: first rule that fails. `tstart`, `tstop` are the header keywords; `p0`, `p1` the keys of 0. and 1. -/
def validate (c : Cfg) (tstart tstop p0 p1 : Int) : Option Err :=
  if timeSelected c && phaseSelected c then some .timeAndPhase
  else if (c.rad.isSome || c.innerrad.isSome) && c.useReg then some .coneAndReg
  else if outside c.tmin tstart tstop then some .tminOut
  else if outside c.tmax tstart tstop then some .tmaxOut
  else if notOrdered c.tmin c.tmax then some .tminGeTmax
  else if outside c.pmin p0 p1 then some .pminOut
  else if outside c.pmax p0 p1 then some .pmaxOut
  else if notOrdered c.pmin c.pmax then some .pminGePmax
  else none

end Sel
