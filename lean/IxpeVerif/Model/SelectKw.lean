import IxpeVerif.Num
/-!
# C10 — hand-written model of `xEventSelect._time_header_keywords` (ixpeobssim/evt/subselect.py)

Inputs: the header keywords of the input file, the total number of events, the number of selected events and the sum of
their LIVETIME (in seconds), the optional bounds and the livetime algorithm.  Output: the keywords written to the PRIMARY,
EVENTS and GTI headers (`TSTART`/`TSTOP` are only written for a time selection).
-/
open RealLike
namespace SelKw

structure In (α : Type) where
  tstart : α
  tstop : α
  ontime : α
  livetime : α
  nTotal : α
  nSel : α
  ltSumSel : α
  tmin : Option α
  tmax : Option α
  pmin : Option α
  pmax : Option α
  ltscale : Bool

structure Out (α : Type) where
  tstart : Option α
  tstop : Option α
  ontime : α
  livetime : α
  deadc : α

variable {α : Type} [RealLike α]

/-- `average_deadtime_per_event` -/
def avgDeadtime (k : In α) : α := (k.ontime - k.livetime) / k.nTotal

def timeSelected (k : In α) : Bool := k.tmin.isSome || k.tmax.isSome
def phaseSelected (k : In α) : Bool := k.pmin.isSome || k.pmax.isSome

/-- `_time_header_keywords` (ltimeupdate = True); `none` when neither a time nor a phase selection is active -/
def keywords (k : In α) : Option (Out α) :=
  if timeSelected k then
    let tstart := k.tmin.getD k.tstart
    let tstop := k.tmax.getD k.tstop
    let ontime := tstop - tstart
    let scaled := ontime - avgDeadtime k * k.nSel
    let lt := if k.ltscale then scaled else k.ltSumSel
    some { tstart := some tstart, tstop := some tstop, ontime := ontime, livetime := lt, deadc := lt / ontime }
  else if phaseSelected k then
    let pmin : α := k.pmin.getD 0.0
    let pmax : α := k.pmax.getD 1.0
    let ontime := k.ontime * (pmax - pmin)
    let scaled := ontime - avgDeadtime k * k.nSel
    let lt := if k.ltscale then scaled else k.ltSumSel
    some { tstart := none, tstop := none, ontime := ontime, livetime := lt, deadc := lt / ontime }
  else none

end SelKw
