import IxpeVerif.Num
/-!
# Vectorised numpy code on lists

The vocabulary of `translator/vectrans.py` (the event-list layer of `xStokesAnalysis`): arrays are lists, masks are lists of Booleans, fancy
indexing with a mask is `sel`, the pointwise operations are `zipWith`, `numpy.sum` is the left fold from 0.
-/
open RealLike
namespace Vec

variable {α : Type} [RealLike α] {β : Type}

/-- `a[mask]` -/
def sel (xs : List β) (m : List Bool) : List β := (xs.zip m).filterMap fun p => if p.2 then some p.1 else none

def vmul (a b : List α) : List α := List.zipWith (· * ·) a b
def vdiv (a b : List α) : List α := List.zipWith (· / ·) a b
def vadd (a b : List α) : List α := List.zipWith (· + ·) a b
def vsub (a b : List α) : List α := List.zipWith (· - ·) a b
def vsq (a : List α) : List α := a.map fun x => x * x
def vand (a b : List Bool) : List Bool := List.zipWith (· && ·) a b
def vor (a b : List Bool) : List Bool := List.zipWith (· || ·) a b
def vnot (a : List Bool) : List Bool := a.map (!·)
def trues (n : Nat) : List Bool := List.replicate n true
def full (n : Nat) (c : α) : List α := List.replicate n c
/-- `numpy.sum` -/
def vsum (a : List α) : α := a.foldl (· + ·) 0.0
/-- `mask.sum()` -/
def count (m : List Bool) : Nat := (m.filter id).length
/-- `numpy.count_nonzero(mask)` where a real number is needed -/
def countR (m : List Bool) : α := vsum ((m.filter id).map fun _ => (1.0 : α))

end Vec
