/-!
# Scalar interface shared by every real-valued model

One definition, two interpretations: a model function is written once, polymorphic in
`α` with `[RealLike α]`.  Instantiated at `Float` (this file) it is executable and is what the
correspondence harness runs against numpy; instantiated at `ℝ` (`RealInst.lean`, Mathlib) it is
what the theorems are about.  This file imports nothing, so that the line-protocol driver
(`Main.lean`) never touches Mathlib.

Rules (found the hard way, see DESIGN.md §3.1): models use only scientific literals
(`2.0`, `0.5`); no `OfNat` instance is derived from the class.
-/

class RealLike (α : Type) extends Add α, Sub α, Mul α, Div α, Neg α, LT α, LE α, OfScientific α where
  sqrt : α → α
  sin : α → α
  cos : α → α
  exp : α → α
  log : α → α
  floor : α → α
  atan2 : α → α → α
  pi : α
  decLt : DecidableRel (α := α) (· < ·)
  decLe : DecidableRel (α := α) (· ≤ ·)

attribute [instance 10] RealLike.toAdd RealLike.toSub RealLike.toMul RealLike.toDiv RealLike.toNeg
  RealLike.toLT RealLike.toLE RealLike.toOfScientific

namespace RealLike
instance (priority := 10) (α) [RealLike α] : DecidableRel (α := α) (· < ·) := RealLike.decLt
instance (priority := 10) (α) [RealLike α] : DecidableRel (α := α) (· ≤ ·) := RealLike.decLe
end RealLike

instance : RealLike Float where
  sqrt := Float.sqrt
  sin := Float.sin
  cos := Float.cos
  exp := Float.exp
  log := Float.log
  floor := Float.floor
  atan2 := Float.atan2
  pi := 3.141592653589793
  decLt := fun a b => Float.decLt a b
  decLe := fun a b => Float.decLe a b

/-- single precision, used for the pieces numpy carries out in float32 (PI-channel energies, C09/C13): a Python float
literal is first a double and is then cast to float32, hence the double rounding in `OfScientific` -/
instance : RealLike Float32 where
  sqrt := Float32.sqrt
  sin := Float32.sin
  cos := Float32.cos
  exp := Float32.exp
  log := Float32.log
  floor := Float32.floor
  atan2 := Float32.atan2
  pi := (3.141592653589793 : Float).toFloat32
  ofScientific := fun m s e => (OfScientific.ofScientific m s e : Float).toFloat32
  decLt := fun a b => Float32.decLt a b
  decLe := fun a b => Float32.decLe a b
