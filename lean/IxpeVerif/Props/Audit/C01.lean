import IxpeVerif.Props.StateAuditDefs
/-! # C01: every memoisation / carried-state site in the part of the package this property depends on has been audited -/
namespace StateAudit.C01

/-- kernel-decided on the table regenerated from the tree on every run (`translator/cachesites.py`); the scope is `StateAudit.scopeC01` -/
theorem state_sites_audited : auditedIn scopeC01 = true := by decide +kernel

end StateAudit.C01
