import IxpeVerif.Props.StateAuditDefs
/-! # C04: every memoisation / carried-state site in the part of the package this property depends on has been audited -/
namespace StateAudit.C04

/-- kernel-decided on the table regenerated from the tree on every run (`translator/cachesites.py`); the scope is `StateAudit.scopeC04` -/
theorem state_sites_audited : auditedIn scopeC04 = true := by decide +kernel

end StateAudit.C04
