import IxpeVerif.Props.StateAuditDefs
/-! # C05: every memoisation / carried-state site in the part of the package this property depends on has been audited -/
namespace StateAudit.C05

/-- kernel-decided on the table regenerated from the tree on every run (`translator/cachesites.py`); the scope is `StateAudit.scopeC05` -/
theorem state_sites_audited : auditedIn scopeC05 = true := by decide +kernel

end StateAudit.C05
