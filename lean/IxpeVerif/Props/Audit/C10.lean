import IxpeVerif.Props.StateAuditDefs
/-! # C10: every memoisation / carried-state site in the part of the package this property depends on has been audited -/
namespace StateAudit.C10

/-- kernel-decided on the table regenerated from the tree on every run (`translator/cachesites.py`); the scope is `StateAudit.scopeC10` -/
theorem state_sites_audited : auditedIn scopeC10 = true := by decide +kernel

end StateAudit.C10
