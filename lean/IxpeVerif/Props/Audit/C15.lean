import IxpeVerif.Props.StateAuditDefs
/-! # C15: every memoisation / carried-state site in the part of the package this property depends on has been audited -/
namespace StateAudit.C15

/-- kernel-decided on the table regenerated from the tree on every run (`translator/cachesites.py`); the scope is `StateAudit.scopeC15` -/
theorem state_sites_audited : auditedIn scopeC15 = true := by decide +kernel

end StateAudit.C15
