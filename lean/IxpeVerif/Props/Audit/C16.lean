import IxpeVerif.Props.StateAuditDefs
/-! # C16: every memoisation / carried-state site in the part of the package this property depends on has been audited -/
namespace StateAudit.C16

/-- kernel-decided on the table regenerated from the tree on every run (`translator/cachesites.py`); the scope is `StateAudit.scopeC16` -/
theorem state_sites_audited : auditedIn scopeC16 = true := by decide +kernel

end StateAudit.C16
