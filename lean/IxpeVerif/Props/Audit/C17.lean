import IxpeVerif.Props.StateAuditDefs
/-! # C17: every memoisation / carried-state site in the part of the package this property depends on has been audited -/
namespace StateAudit.C17

/-- kernel-decided on the table regenerated from the tree on every run (`translator/cachesites.py`); the scope is `StateAudit.scopeC17` -/
theorem state_sites_audited : auditedIn scopeC17 = true := by decide +kernel

end StateAudit.C17
