import IxpeVerif.Props.StateAuditDefs
/-! # C20: every memoisation / carried-state site in the part of the package this property depends on has been audited -/
namespace StateAudit.C20

/-- kernel-decided on the table regenerated from the tree on every run (`translator/cachesites.py`); the scope is `StateAudit.scopeC20` -/
theorem state_sites_audited : auditedIn scopeC20 = true := by decide +kernel

end StateAudit.C20
