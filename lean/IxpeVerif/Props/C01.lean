import IxpeVerif.RealInst
import IxpeVerif.Gen.Formulas
import Mathlib.Analysis.SpecialFunctions.Integrals.Basic
import Mathlib.Analysis.SpecialFunctions.Trigonometric.Deriv
import Mathlib.MeasureTheory.Integral.IntervalIntegral.FundThmCalculus
import Mathlib.Analysis.Calculus.Deriv.MeanValue
/-!
# C01 — simulated photoelectron angles encode the model polarization

About the generated `Gen.az_pdf`, `Gen.az_cdf` (xAzimuthalResponseGenerator.pdf/cdf), `Gen.az_rvs_phi` (the phase shift and
fold of `rvs_phi`, with the inverse-cdf draw `x ∈ [−π, π]` as a parameter) and `Gen.stokes_q/u`, at ℝ.
The numerically inverted 200 × 200 ppf table is not modelled: the sampling-law theorem takes its inversion accuracy ε as a
hypothesis and the harness measures ε on the real generator on every run (partial).
-/
open Real intervalIntegral
noncomputable section
namespace C01

theorem az_pdf_real (phi m : ℝ) : Gen.az_pdf phi m = (1 + m * Real.cos (2 * phi)) / (2 * π) := by
  simp only [Gen.az_pdf]; rl_simp; norm_num
theorem az_cdf_real (phi m : ℝ) : Gen.az_cdf phi m = 1 / 2 + (phi + 1 / 2 * m * Real.sin (2 * phi)) / (2 * π) := by
  simp only [Gen.az_cdf]; rl_simp; norm_num
theorem az_fold_real (phi0 x : ℝ) : Gen.az_rvs_phi phi0 x = (x + phi0) - (⌊(x + phi0) / (2 * π)⌋ : ℝ) * (2 * π) - π := by
  simp only [Gen.az_rvs_phi]; rl_simp; norm_num
theorem stokes_q_real (phi : ℝ) : Gen.stokes_q phi = 2 * Real.cos (2 * phi) := by
  simp only [Gen.stokes_q]; rl_simp; norm_num
theorem stokes_u_real (phi : ℝ) : Gen.stokes_u phi = 2 * Real.sin (2 * phi) := by
  simp only [Gen.stokes_u]; rl_simp; norm_num

/-- the analytic cdf is the integral of the pdf: d/dφ cdf = pdf -/
theorem az_cdf_hasDerivAt (m phi : ℝ) : HasDerivAt (fun x => Gen.az_cdf x m) (Gen.az_pdf phi m) phi := by
  have h1 : HasDerivAt (fun x : ℝ => Real.sin (2 * x)) (Real.cos (2 * phi) * (2 * 1)) phi :=
    ((hasDerivAt_id phi).const_mul (2:ℝ)).sin
  have h := (((hasDerivAt_id phi).add (h1.const_mul (1 / 2 * m))).div_const (2 * π)).const_add (1 / 2 : ℝ)
  have key : Gen.az_pdf phi m = (1 + 1 / 2 * m * (Real.cos (2 * phi) * (2 * 1))) / (2 * π) := by
    rw [az_pdf_real]; ring
  rw [key]
  have hf : (fun x => Gen.az_cdf x m) = fun x => 1 / 2 + (id x + 1 / 2 * m * Real.sin (2 * x)) / (2 * π) := by
    funext x; rw [az_cdf_real]; rfl
  rw [hf]
  exact h

/-- normalisation: cdf(−π) = 0, cdf(π) = 1 -/
theorem az_cdf_endpoints (m : ℝ) : Gen.az_cdf (-π) m = 0 ∧ Gen.az_cdf π m = 1 := by
  rw [az_cdf_real, az_cdf_real]
  have hpi : (2 * π) ≠ 0 := by positivity
  have s1 : Real.sin (2 * π) = 0 := Real.sin_two_pi
  have s2 : Real.sin (2 * -π) = 0 := by rw [mul_neg, Real.sin_neg, Real.sin_two_pi, neg_zero]
  rw [s1, s2]
  constructor <;> field_simp <;> ring

theorem az_pdf_nonneg (m phi : ℝ) (h0 : 0 ≤ m) (h1 : m ≤ 1) : 0 ≤ Gen.az_pdf phi m := by
  rw [az_pdf_real]
  have := Real.neg_one_le_cos (2 * phi)
  have hp : 0 < 2 * π := by positivity
  apply div_nonneg _ hp.le
  nlinarith

theorem az_pdf_pos (m phi : ℝ) (h0 : 0 ≤ m) (h1 : m < 1) : 0 < Gen.az_pdf phi m := by
  rw [az_pdf_real]
  have := Real.neg_one_le_cos (2 * phi)
  have hp : 0 < 2 * π := by positivity
  apply div_pos _ hp
  nlinarith

/-- for m < 1 the cdf is strictly increasing, hence invertible: the quantile function exists and is unique -/
theorem az_cdf_strictMono (m : ℝ) (h0 : 0 ≤ m) (h1 : m < 1) : StrictMono fun x => Gen.az_cdf x m := by
  apply strictMono_of_deriv_pos
  intro x
  rw [(az_cdf_hasDerivAt m x).deriv]
  exact az_pdf_pos m x h0 h1

/-! ### the phase shift and fold keep the 2φ harmonics: sign and phase convention -/

theorem az_fold_cos2 (x phi0 : ℝ) : Real.cos (2 * (Gen.az_rvs_phi phi0 x - phi0)) = Real.cos (2 * x) := by
  rw [az_fold_real]
  set k : ℤ := ⌊(x + phi0) / (2 * π)⌋
  have : 2 * ((x + phi0) - (k : ℝ) * (2 * π) - π - phi0) = 2 * x - ((2 * k + 1 : ℤ) : ℝ) * (2 * π) := by
    push_cast; ring
  rw [this, Real.cos_sub_int_mul_two_pi]

theorem az_fold_sin2 (x phi0 : ℝ) : Real.sin (2 * (Gen.az_rvs_phi phi0 x - phi0)) = Real.sin (2 * x) := by
  rw [az_fold_real]
  set k : ℤ := ⌊(x + phi0) / (2 * π)⌋
  have : 2 * ((x + phi0) - (k : ℝ) * (2 * π) - π - phi0) = 2 * x - ((2 * k + 1 : ℤ) : ℝ) * (2 * π) := by
    push_cast; ring
  rw [this, Real.sin_sub_int_mul_two_pi]

/-- the written angle lies in [−π, π) -/
theorem az_fold_range (x phi0 : ℝ) : -π ≤ Gen.az_rvs_phi phi0 x ∧ Gen.az_rvs_phi phi0 x < π := by
  rw [az_fold_real]
  have hp : 0 < 2 * π := by positivity
  have h1 := Int.floor_le ((x + phi0) / (2 * π))
  have h2 := Int.lt_floor_add_one ((x + phi0) / (2 * π))
  rw [le_div_iff₀ hp] at h1
  rw [div_lt_iff₀ hp] at h2
  constructor <;> nlinarith

/-- so the event-by-event Stokes parameters of the written angle are those of the unshifted draw rotated by the model
angle: q = 2cos 2(x + φ₀), u = 2 sin 2(x + φ₀) -/
theorem stokes_of_fold (x phi0 : ℝ) :
    Gen.stokes_q (Gen.az_rvs_phi phi0 x) = 2 * Real.cos (2 * (x + phi0)) ∧
    Gen.stokes_u (Gen.az_rvs_phi phi0 x) = 2 * Real.sin (2 * (x + phi0)) := by
  rw [stokes_q_real, stokes_u_real]
  have hc := az_fold_cos2 x phi0
  have hs := az_fold_sin2 x phi0
  set y := Gen.az_rvs_phi phi0 x
  have e : 2 * y = 2 * (y - phi0) + 2 * phi0 := by ring
  have e' : 2 * (x + phi0) = 2 * x + 2 * phi0 := by ring
  constructor
  · rw [e, Real.cos_add, hc, hs, e', Real.cos_add]
  · rw [e, Real.sin_add, hc, hs, e', Real.sin_add]

/-- Q = 2cos 2φ, U = 2 sin 2φ columns: Q² + U² = 4 -/
theorem stokes_cols_norm (phi : ℝ) : Gen.stokes_q phi ^ 2 + Gen.stokes_u phi ^ 2 = 4 := by
  rw [stokes_q_real, stokes_u_real]
  have := Real.cos_sq_add_sin_sq (2 * phi)
  nlinarith

/-! ### the Stokes estimators average to m cos 2φ₀ and m sin 2φ₀ -/

def FQ (m phi0 phi : ℝ) : ℝ := (Real.sin (2 * phi) + m * (phi * Real.cos (2 * phi0) + Real.sin (4 * phi - 2 * phi0) / 4)) / (2 * π)
def FU (m phi0 phi : ℝ) : ℝ := (-Real.cos (2 * phi) + m * (phi * Real.sin (2 * phi0) - Real.cos (4 * phi - 2 * phi0) / 4)) / (2 * π)

theorem FQ_deriv (m phi0 phi : ℝ) : HasDerivAt (FQ m phi0) (Gen.az_pdf (phi - phi0) m * Gen.stokes_q phi) phi := by
  have h1 : HasDerivAt (fun x : ℝ => Real.sin (2 * x)) (Real.cos (2 * phi) * (2 * 1)) phi :=
    ((hasDerivAt_id phi).const_mul (2:ℝ)).sin
  have h2 : HasDerivAt (fun x : ℝ => Real.sin (4 * x - 2 * phi0)) (Real.cos (4 * phi - 2 * phi0) * (4 * 1)) phi :=
    (((hasDerivAt_id phi).const_mul (4:ℝ)).sub_const (2 * phi0)).sin
  have h3 : HasDerivAt (fun x : ℝ => x * Real.cos (2 * phi0)) (Real.cos (2 * phi0)) phi := by
    simpa using (hasDerivAt_id phi).mul_const (Real.cos (2 * phi0))
  have h := ((h1.add ((h3.add (h2.div_const 4)).const_mul m)).div_const (2 * π))
  have key : Gen.az_pdf (phi - phi0) m * Gen.stokes_q phi =
      (Real.cos (2 * phi) * (2 * 1) + m * (Real.cos (2 * phi0) + Real.cos (4 * phi - 2 * phi0) * (4 * 1) / 4)) / (2 * π) := by
    rw [az_pdf_real, stokes_q_real]
    have hpi : (2 * π) ≠ 0 := by positivity
    have e : (4 : ℝ) * phi - 2 * phi0 = 2 * phi + 2 * (phi - phi0) := by ring
    have e2 : (2 : ℝ) * phi0 = 2 * phi - 2 * (phi - phi0) := by ring
    rw [e, e2, Real.cos_add, Real.cos_sub]
    field_simp
    ring
  rw [key]
  exact h

theorem FU_deriv (m phi0 phi : ℝ) : HasDerivAt (FU m phi0) (Gen.az_pdf (phi - phi0) m * Gen.stokes_u phi) phi := by
  have h1 : HasDerivAt (fun x : ℝ => -Real.cos (2 * x)) (-(-Real.sin (2 * phi) * (2 * 1))) phi :=
    (((hasDerivAt_id phi).const_mul (2:ℝ)).cos).neg
  have h2 : HasDerivAt (fun x : ℝ => Real.cos (4 * x - 2 * phi0)) (-Real.sin (4 * phi - 2 * phi0) * (4 * 1)) phi :=
    (((hasDerivAt_id phi).const_mul (4:ℝ)).sub_const (2 * phi0)).cos
  have h3 : HasDerivAt (fun x : ℝ => x * Real.sin (2 * phi0)) (Real.sin (2 * phi0)) phi := by
    simpa using (hasDerivAt_id phi).mul_const (Real.sin (2 * phi0))
  have h := ((h1.add ((h3.sub (h2.div_const 4)).const_mul m)).div_const (2 * π))
  have key : Gen.az_pdf (phi - phi0) m * Gen.stokes_u phi =
      (-(-Real.sin (2 * phi) * (2 * 1)) + m * (Real.sin (2 * phi0) - -Real.sin (4 * phi - 2 * phi0) * (4 * 1) / 4)) / (2 * π) := by
    rw [az_pdf_real, stokes_u_real]
    have hpi : (2 * π) ≠ 0 := by positivity
    have e : (4 : ℝ) * phi - 2 * phi0 = 2 * phi + 2 * (phi - phi0) := by ring
    have e2 : (2 : ℝ) * phi0 = 2 * phi - 2 * (phi - phi0) := by ring
    rw [e, e2, Real.sin_add, Real.sin_sub]
    field_simp
    ring
  rw [key]
  exact h

/-- E[2cos 2φ] = m cos 2φ₀ for angles distributed as (1 + m cos 2(φ − φ₀))/2π on [−π, π] -/
theorem az_mean_q (m phi0 : ℝ) :
    ∫ phi in (-π)..π, Gen.az_pdf (phi - phi0) m * Gen.stokes_q phi = m * Real.cos (2 * phi0) := by
  have hc : Continuous fun phi => Gen.az_pdf (phi - phi0) m * Gen.stokes_q phi := by
    have : (fun phi => Gen.az_pdf (phi - phi0) m * Gen.stokes_q phi) = fun phi => (1 + m * Real.cos (2 * (phi - phi0))) / (2 * π) * (2 * Real.cos (2 * phi)) := by
      funext phi; rw [az_pdf_real, stokes_q_real]
    rw [this]; fun_prop
  rw [integral_eq_sub_of_hasDerivAt (fun x _ => FQ_deriv m phi0 x) (hc.intervalIntegrable _ _)]
  unfold FQ
  have hpi : (2 * π) ≠ 0 := by positivity
  have s1 : Real.sin (2 * π) = 0 := Real.sin_two_pi
  have s2 : Real.sin (2 * -π) = 0 := by rw [mul_neg, Real.sin_neg, Real.sin_two_pi, neg_zero]
  have s3 : Real.sin (4 * π - 2 * phi0) = Real.sin (4 * -π - 2 * phi0) := by
    have : (4 : ℝ) * π - 2 * phi0 = (4 * -π - 2 * phi0) + 4 * (2 * π) := by ring
    rw [this]
    simpa using Real.sin_add_nat_mul_two_pi (4 * -π - 2 * phi0) 4
  rw [s1, s2, s3]
  field_simp
  ring

/-- E[2 sin 2φ] = m sin 2φ₀ -/
theorem az_mean_u (m phi0 : ℝ) :
    ∫ phi in (-π)..π, Gen.az_pdf (phi - phi0) m * Gen.stokes_u phi = m * Real.sin (2 * phi0) := by
  have hc : Continuous fun phi => Gen.az_pdf (phi - phi0) m * Gen.stokes_u phi := by
    have : (fun phi => Gen.az_pdf (phi - phi0) m * Gen.stokes_u phi) = fun phi => (1 + m * Real.cos (2 * (phi - phi0))) / (2 * π) * (2 * Real.sin (2 * phi)) := by
      funext phi; rw [az_pdf_real, stokes_u_real]
    rw [this]; fun_prop
  rw [integral_eq_sub_of_hasDerivAt (fun x _ => FU_deriv m phi0 x) (hc.intervalIntegrable _ _)]
  unfold FU
  have hpi : (2 * π) ≠ 0 := by positivity
  have s1 : Real.cos (2 * π) = 1 := Real.cos_two_pi
  have s2 : Real.cos (2 * -π) = 1 := by rw [mul_neg, Real.cos_neg, Real.cos_two_pi]
  have s3 : Real.cos (4 * π - 2 * phi0) = Real.cos (4 * -π - 2 * phi0) := by
    have : (4 : ℝ) * π - 2 * phi0 = (4 * -π - 2 * phi0) + 4 * (2 * π) := by ring
    rw [this]
    simpa using Real.cos_add_nat_mul_two_pi (4 * -π - 2 * phi0) 4
  rw [s1, s2, s3]
  field_simp
  ring

/-! ### inverse-transform sampling -/

/-- exact inversion: if `F` is strictly increasing and `F (G u) = u`, then `G u ≤ x ↔ u ≤ F x`, i.e. for uniform `u` the
sample `G u` has cumulative distribution `F` -/
theorem inverse_transform (F G : ℝ → ℝ) (hF : StrictMono F) (u x : ℝ) (h : F (G u) = u) : G u ≤ x ↔ u ≤ F x := by
  rw [← hF.le_iff_le, h]

/-- tabulated inversion with accuracy ε: the law of the sample is within ε of `F` in sup norm -/
theorem inverse_transform_eps (F G : ℝ → ℝ) (hF : StrictMono F) (eps u x : ℝ) (h : |F (G u) - u| ≤ eps) :
    (G u ≤ x → u ≤ F x + eps) ∧ (u ≤ F x - eps → G u ≤ x) := by
  rw [abs_le] at h
  constructor
  · intro hx
    have := hF.monotone hx
    linarith [h.1]
  · intro hu
    by_contra hc
    have := hF (not_le.mp hc)
    linarith [h.2]

/-- the azimuthal sampler: with the table inverting the analytic cdf within ε, the sample law is within ε of the target -/
theorem az_sampling_law (m eps : ℝ) (h0 : 0 ≤ m) (h1 : m < 1) (ppf : ℝ → ℝ) (u x : ℝ)
    (h : |Gen.az_cdf (ppf u) m - u| ≤ eps) :
    (ppf u ≤ x → u ≤ Gen.az_cdf x m + eps) ∧ (u ≤ Gen.az_cdf x m - eps → ppf u ≤ x) :=
  inverse_transform_eps (fun y => Gen.az_cdf y m) ppf (az_cdf_strictMono m h0 h1) eps u x h

end C01
end
