import IxpeVerif.RealInst
import IxpeVerif.Model.Kislat
import IxpeVerif.Lemmas.Basic
import IxpeVerif.Gen.Formulas
import IxpeVerif.Lemmas.AnaTie
/-!
# C02 — polarization cubes implement the Kislat et al. (2015) estimator

Range and definedness theorems about the per-bin model `Kislat.*` at ℝ (tied to `xStokesAnalysis` by the correspondence
`harness/props/C02.py`, static methods and FITS columns), and the published formulae under the masks.
-/
open Real
noncomputable section
namespace C02
open Kislat

/-- PD ≥ 0 in every branch -/
theorem pd_nonneg (I Q U mu W2 : ℝ) (deg : Bool) : 0 ≤ (polarization I Q U mu W2 deg).pd := by
  unfold polarization
  rl_simp
  split_ifs with h
  · have hI : (0:ℝ) < I := by
      have : (1.0:ℝ) < I := by simpa using h
      norm_num at this; linarith
    exact div_nonneg (Real.sqrt_nonneg _) hI.le
  · norm_num

theorem half_arg_deg (x : ℝ) (h : |x| ≤ π) : |0.5 * x * (180.0 / π)| ≤ 90 := by
  have hp := Real.pi_pos
  have e : (0.5 : ℝ) * x * (180.0 / π) = x * (90 / π) := by norm_num; ring
  rw [e, abs_mul, abs_of_pos (by positivity : (0:ℝ) < 90 / π)]
  calc |x| * (90 / π) ≤ π * (90 / π) := by
        apply mul_le_mul_of_nonneg_right h (by positivity)
    _ = 90 := by field_simp

/-- |PA| ≤ 90° -/
theorem pa_abs_le_90 (I Q U mu W2 : ℝ) : |(polarization I Q U mu W2 true).pa| ≤ 90 := by
  unfold polarization
  rl_simp
  split_ifs
  all_goals first
    | exact half_arg_deg _ (Complex.abs_arg_le_pi _)
    | (norm_num)

/-- 0 ≤ MDP_99 ≤ 1 -/
theorem mdp_in_unit (mu I W2 : ℝ) : 0 ≤ mdp99 mu I W2 ∧ mdp99 mu I W2 ≤ 1 := by
  unfold mdp99
  rl_simp
  split_ifs <;> constructor <;> norm_num at * <;> linarith

/-- a bin without events (I = 0) reports zero polarization, MDP_99 = 1 and N_EFF = 0 whatever MU is (no branch divides) -/
theorem empty_bin (Q U mu W2 : ℝ) (deg : Bool) :
    (polarization 0 Q U mu W2 deg).pd = 0 ∧ (polarization 0 Q U mu W2 deg).pa = 0 ∧
    (polarization 0 Q U mu W2 deg).pdErr = 0 ∧ (polarization 0 Q U mu W2 deg).paErr = 0 ∧ mdp99 mu 0 W2 = 1 ∧ nEff (0:ℝ) W2 = 0 := by
  unfold polarization mdp99 nEff
  rl_simp
  norm_num

/-- the errors are non-negative in every branch -/
theorem pol_errs_nonneg (I Q U mu W2 : ℝ) (deg : Bool) :
    0 ≤ (polarization I Q U mu W2 deg).pdErr ∧ 0 ≤ (polarization I Q U mu W2 deg).paErr := by
  have hk : (0:ℝ) ≤ (if deg = true then (180.0:ℝ) / π else 1.0) := by
    split_ifs <;> [positivity; norm_num]
  unfold polarization
  rl_simp
  constructor
  · split_ifs <;> first | positivity | norm_num
  · apply mul_nonneg _ hk
    by_cases hI : (1.0:ℝ) < I
    · simp only [hI, decide_true, Bool.true_and, if_true]
      split_ifs with h1 h2
      · simp only [Bool.and_eq_true, decide_eq_true_eq] at h1
        exact div_nonneg (Real.sqrt_nonneg _) (mul_nonneg (le_of_lt (by have := h1.2; norm_num at this; exact this)) (Real.sqrt_nonneg _))
      · simp only [Bool.and_eq_true, decide_eq_true_eq] at h1
        exact div_nonneg (by norm_num) (mul_nonneg (le_of_lt (by have := h1.2; norm_num at this; exact this)) (Real.sqrt_nonneg _))
      · norm_num
    · simp [hI]; norm_num

/-- Stokes errors: dI, dQN, dUN, dQ, dU ≥ 0 (I ≥ 0) -/
theorem stokes_errs_nonneg (I Q U mu W2 : ℝ) (hI : 0 ≤ I) :
    0 ≤ (stokesErrors I Q U mu W2).dI ∧ 0 ≤ (stokesErrors I Q U mu W2).dQN ∧ 0 ≤ (stokesErrors I Q U mu W2).dUN ∧
    0 ≤ (stokesErrors I Q U mu W2).dQ ∧ 0 ≤ (stokesErrors I Q U mu W2).dU := by
  unfold stokesErrors
  rl_simp
  refine ⟨Real.sqrt_nonneg _, ?_, ?_, ?_, ?_⟩
  · split_ifs <;> first | exact Real.sqrt_nonneg _ | norm_num
  · split_ifs <;> first | exact Real.sqrt_nonneg _ | norm_num
  · apply mul_nonneg hI; split_ifs <;> first | exact Real.sqrt_nonneg _ | norm_num
  · apply mul_nonneg hI; split_ifs <;> first | exact Real.sqrt_nonneg _ | norm_num

/-- under the code's masks (I > 1, (PD·μ)² < 2, μ > 0) the outputs are the published formulae
(eqs. 21, 36, 22, 37 of Kislat et al. 2015, with the package's factor-2 convention) -/
theorem polarization_eq_published (I Q U mu W2 : ℝ) (hI : 1 < I) (hmu : 0 < mu)
    (hm : (Real.sqrt (Q * Q + U * U) / I * mu) * (Real.sqrt (Q * Q + U * U) / I * mu) < 2)
    (hpos : 0 < Real.sqrt (Q * Q + U * U) / I * mu) :
    let p := polarization I Q U mu W2 false
    let m := Real.sqrt (Q * Q + U * U) / I * mu
    p.pd = Real.sqrt (Q * Q + U * U) / I ∧
    p.pdErr = Real.sqrt (W2 / I) * Real.sqrt ((2 - m * m) / ((I - 1) * (mu * mu))) ∧
    p.pa = 0.5 * Complex.arg ⟨Q, U⟩ ∧
    p.paErr = Real.sqrt (W2 / I) / (m * Real.sqrt (2 * (I - 1))) := by
  have h1 : (1.0:ℝ) < I := by norm_num; exact hI
  have h2 : (0.0:ℝ) < mu := by norm_num; exact hmu
  have h3 : (Real.sqrt (Q * Q + U * U) / I * mu) * (Real.sqrt (Q * Q + U * U) / I * mu) < (2.0:ℝ) := by norm_num; exact hm
  have h4 : (0.0:ℝ) < Real.sqrt (Q * Q + U * U) / I * mu := by norm_num; exact hpos
  simp only [polarization]
  rl_simp
  simp only [h1, h2, h3, h4, decide_true, Bool.and_self, if_true]
  norm_num

/-- MDP_99 = 4.29 √W2 / (μ I), clipped to [0, 1] (eq. A.8) -/
theorem mdp_eq_published (mu I W2 : ℝ) (hI : 0 < I) (hmu : 0 < mu) (hle : 4.29 * Real.sqrt W2 / (mu * I) ≤ 1) :
    mdp99 mu I W2 = 4.29 * Real.sqrt W2 / (mu * I) := by
  have hnn : (0:ℝ) ≤ 4.29 * Real.sqrt W2 / (mu * I) := by positivity
  have h1 : (0.0:ℝ) < I := by norm_num; exact hI
  have h2 : (0.0:ℝ) < mu := by norm_num; exact hmu
  unfold mdp99
  rl_simp
  simp only [h1, h2, and_self, if_true]
  split_ifs with a b
  · norm_num at a; linarith
  · norm_num at b; linarith
  · rfl

/-- N_EFF = I²/W2 ≤ COUNTS-like bound is not claimed; what is: N_EFF ≥ 0 -/
theorem neff_nonneg (I W2 : ℝ) (hW : 0 ≤ W2) : 0 ≤ nEff I W2 := by
  unfold nEff; rl_simp
  split_ifs
  · exact div_nonneg (mul_self_nonneg I) hW
  · norm_num

/-- the `(emin, emax]` masks of adjacent energy bins partition the merged bin: the sums COUNTS, I, Q, U, W2 of a merged
bin are the sums over its parts -/
theorem adjacent_bins_partition (a b c : ℝ) (hab : a ≤ b) (hbc : b ≤ c) (p : Prep ℝ) :
    (inBin a c p = (inBin a b p || inBin b c p)) ∧ ¬ (inBin a b p = true ∧ inBin b c p = true) := by
  unfold inBin
  rl_simp
  constructor
  · by_cases h1 : a < p.e <;> by_cases h2 : p.e ≤ b <;> by_cases h3 : b < p.e <;> by_cases h4 : p.e ≤ c <;>
      simp [h1, h2, h3, h4] <;> linarith
  · simp; intro _ h2 h3; linarith

/-- non-vacuity of `polarization_eq_published` -/
example : (1:ℝ) < 100 ∧ (0:ℝ) < 0.3 ∧ (Real.sqrt (30 * 30 + 0 * 0) / 100 * 0.3) * (Real.sqrt (30 * 30 + 0 * 0) / 100 * 0.3) < 2 := by
  have : Real.sqrt (30 * 30 + 0 * 0) = 30 := by
    rw [show (30:ℝ) * 30 + 0 * 0 = 30 ^ 2 by norm_num]; exact Real.sqrt_sq (by norm_num)
  rw [this]; norm_num

/-! ### T-tie: the definitions regenerated from `kislat2015.py` on every run *are* the model the theorems above speak about

`Gen.calculate_polarization`, `Gen.calculate_stokes_errors`, `Gen.calculate_mdp99`, `Gen.calculate_n_eff` are the translator's per-element
reading of the masked-array code (`x[mask] = e` ↦ `if mask then e else x`).  These equalities make every theorem of this file (and the
rotation theorems of C06 that use `Kislat.polarization`) a statement about the current source: an edit of a formula or of a mask in the
Python breaks one of them. -/

theorem gen_polarization_eq_model (I Q U mu W2 : ℝ) (d : Bool) :
    Gen.calculate_polarization I Q U mu W2 d =
      ((polarization I Q U mu W2 d).pd, (polarization I Q U mu W2 d).pdErr, (polarization I Q U mu W2 d).pa, (polarization I Q U mu W2 d).paErr) := by
  unfold Gen.calculate_polarization polarization
  rl_simp
  by_cases h1 : (1.0 : ℝ) < I <;> by_cases h2 : (0.0 : ℝ) < mu <;>
    by_cases h3 : √(Q * Q + U * U) / I * mu * (√(Q * Q + U * U) / I * mu) < (2.0 : ℝ) <;>
    by_cases h4 : (0.0 : ℝ) < √(Q * Q + U * U) / I * mu <;> cases d <;> simp [h1, h2, h3, h4] <;> norm_num

theorem gen_stokes_errors_eq_model (I Q U mu W2 : ℝ) :
    Gen.calculate_stokes_errors I Q U mu W2 =
      (let s := stokesErrors I Q U mu W2; (s.QN, s.UN, s.dI, s.dQ, s.dU, s.dQN, s.dUN, s.cov, s.pval, s.conf)) := by
  unfold Gen.calculate_stokes_errors stokesErrors
  rl_simp
  by_cases h1 : (0.0 : ℝ) < I <;>
    by_cases h2 : Q / I * mu * (Q / I * mu) ≤ (2.0 : ℝ) <;> by_cases h3 : U / I * mu * (U / I * mu) ≤ (2.0 : ℝ) <;> simp [h1, h2, h3]

theorem gen_mdp_eq_model (mu I W2 : ℝ) : Gen.calculate_mdp99 mu I W2 true = mdp99 mu I W2 := by
  unfold Gen.calculate_mdp99 mdp99
  rl_simp
  by_cases h1 : (0.0 : ℝ) < I ∧ (0.0 : ℝ) < mu <;> simp [h1]

theorem gen_neff_eq_model (c I W2 : ℝ) : (Gen.calculate_n_eff c I W2).1 = nEff I W2 := by
  unfold Gen.calculate_n_eff nEff
  rl_simp
  by_cases h1 : (0.0 : ℝ) < I <;> simp [h1]

/-- the scalar path of `calculate_n_eff` (counts a Python number, as in `polarization_table`): the same N_EFF, and FRAC_W = N_EFF / COUNTS -/
theorem gen_neff_scalar_eq_model (c I W2 : ℝ) :
    Gen.calculate_n_eff_scalar c I W2 = (nEff I W2, nEff I W2 / c) := by
  unfold Gen.calculate_n_eff_scalar nEff
  rl_simp
  by_cases h1 : (0.0 : ℝ) < I <;> simp [h1]

/-- the headline ranges, restated on the generated code -/
theorem gen_ranges (I Q U mu W2 : ℝ) :
    0 ≤ (Gen.calculate_polarization I Q U mu W2 true).1 ∧ |(Gen.calculate_polarization I Q U mu W2 true).2.2.1| ≤ 90 ∧
      0 ≤ Gen.calculate_mdp99 mu I W2 true ∧ Gen.calculate_mdp99 mu I W2 true ≤ 1 := by
  rw [gen_polarization_eq_model, gen_mdp_eq_model]
  exact ⟨pd_nonneg I Q U mu W2 true, pa_abs_le_90 I Q U mu W2, (mdp_in_unit mu I W2).1, (mdp_in_unit mu I W2).2⟩

/-! ## T-tie of the event-list layer (translator/vectrans.py → `Gen/AnaGen.lean`)

The constructor of `xStokesAnalysis` (energy filter, weights, acceptance correction, division by μ(E)), the masked reductions and the row of
`polarization_table`, regenerated from the vectorised source, against `Kislat.prep / binSums / row`. -/

/-- **the generated constructor yields the prepared events of the model**, column by column, for every event list, responses, weights on/off,
acceptance correction on/off (ℝ has no NaN: the first filter of the constructor is the identity) -/
theorem gen_init_eq_model (raw : List (ℝ × ℝ × ℝ × ℝ)) (modf aeff : ℝ → ℝ) (livetime : ℝ) (useW acc : Bool) :
    AnaTie.Cols (AnaTie.genInit raw modf aeff livetime useW acc) (prep useW acc (raw.map (AnaTie.mkEv modf aeff))) :=
  AnaTie.gen_init_cols raw modf aeff livetime useW acc

/-- **the generated row of `polarization_table` is the row of the model, in the order of the column names**: on an analysis object whose arrays are
the columns of `ps`, for every bin -/
theorem gen_table_row_eq_model {st : Gen.Ana.State ℝ} {ps : List (Prep ℝ)} (h : AnaTie.Cols st ps) (emin emax sig : ℝ) :
    List.zip Gen.Ana.table_columns (Gen.Ana.table_row st emin emax true sig) =
      (let s := binSums emin emax ps
       let mu := s.muW / s.I
       let e := stokesErrors s.I s.Q s.U mu s.W2
       let p := polarization s.I s.Q s.U mu s.W2 true
       [("ENERG_LO", emin), ("ENERG_HI", emax), ("E_MEAN", s.eW / s.I), ("COUNTS", (s.counts : ℝ)), ("MU", mu), ("W2", s.W2), ("N_EFF", nEff s.I s.W2),
        ("FRAC_W", nEff s.I s.W2 / (s.counts : ℝ)), ("MDP_99", mdp99 mu s.I s.W2), ("I", s.I), ("I_ERR", e.dI), ("Q", s.Q), ("Q_ERR", e.dQ),
        ("U", s.U), ("U_ERR", e.dU), ("QN", e.QN), ("QN_ERR", e.dQN), ("UN", e.UN), ("UN_ERR", e.dUN), ("QUN_COV", e.cov), ("PD", p.pd),
        ("PD_ERR", p.pdErr), ("PA", p.pa), ("PA_ERR", p.paErr), ("P_VALUE", e.pval), ("CONFID", e.conf), ("SIGNIF", sig)]) := by
  unfold Gen.Ana.table_row Gen.Ana.table_columns
  rw [AnaTie.gen_energy_mask_eq h]
  simp only [AnaTie.gen_average_energy_eq h, AnaTie.gen_effective_mu_eq h, AnaTie.countR_map, AnaTie.gen_w2_eq h, AnaTie.gen_sum_stokes_eq h,
    gen_stokes_errors_eq_model, gen_mdp_eq_model, gen_polarization_eq_model, gen_neff_scalar_eq_model]
  rfl

/-- the numeric columns of the model row are those of the generated row, read by name -/
theorem gen_table_row_model_row {st : Gen.Ana.State ℝ} {ps : List (Prep ℝ)} (h : AnaTie.Cols st ps) (emin emax sig : ℝ) :
    ((List.zip Gen.Ana.table_columns (Gen.Ana.table_row st emin emax true sig)).filter
        fun p => !(["ENERG_LO", "ENERG_HI", "COUNTS", "FRAC_W", "SIGNIF"].contains p.1)).map (·.2) = row (binSums emin emax ps) := by
  rw [gen_table_row_eq_model h]
  simp [row]

/-- end to end: columns of a file → generated constructor → generated row = the model row of the prepared events -/
theorem gen_analysis_eq_model (raw : List (ℝ × ℝ × ℝ × ℝ)) (modf aeff : ℝ → ℝ) (livetime : ℝ) (useW acc : Bool) (emin emax sig : ℝ) :
    ((List.zip Gen.Ana.table_columns (Gen.Ana.table_row (AnaTie.genInit raw modf aeff livetime useW acc) emin emax true sig)).filter
        fun p => !(["ENERG_LO", "ENERG_HI", "COUNTS", "FRAC_W", "SIGNIF"].contains p.1)).map (·.2) =
      row (binSums emin emax (prep useW acc (raw.map (AnaTie.mkEv modf aeff)))) :=
  gen_table_row_model_row (gen_init_eq_model raw modf aeff livetime useW acc) emin emax sig

end C02
end
