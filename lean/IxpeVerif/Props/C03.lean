import IxpeVerif.RealInst
import IxpeVerif.Model.Rates
import IxpeVerif.Model.Gti
import IxpeVerif.Gen.RatesGen
import IxpeVerif.Props.C01
import IxpeVerif.Props.C18
import Mathlib.MeasureTheory.Measure.Lebesgue.Basic
/-!
# C03 — event rates, times and energies follow spectrum × effective area

Pointwise count spectrum, GTI filtering (shared with C18), vignetting acceptance probability, and the sampling laws as
instances of the inverse-transform lemmas of C01.  FITPACK integration/inversion (`light_curve.norm()`, the ppf tables) and
the Poisson generator are not modelled: measured by the harness on every run / trusted (partial).
-/
open Real MeasureTheory
noncomputable section
namespace C03
open Rates

/-- the tabulated count spectrum is S(E(1+z), t) · T(E) · Aeff(E) · scale: the spectrum at the *source-frame* energy, the
absorption and the effective area at the *observed* energy -/
theorem count_spectrum_pointwise (S : ℝ → ℝ → ℝ) (aeff T : ℝ → ℝ) (scale z E t : ℝ) (hz : -1 < z) :
    countSpectrum S aeff (some T) scale z E t = T E * (scale * aeff E * S (E * (1 + z)) t) := by
  simp only [countSpectrum, conv]; rl_simp
  have e : (1.0:ℝ) = 1 := by norm_num
  simp only [e]
  have : 1 + z ≠ 0 := by linarith
  rw [mul_div_assoc, div_self this, mul_one]

/-- without absorption (column density ≤ 0) -/
theorem count_spectrum_unabsorbed (S : ℝ → ℝ → ℝ) (aeff : ℝ → ℝ) (scale z E t : ℝ) (hz : -1 < z) :
    countSpectrum S aeff none scale z E t = scale * aeff E * S (E * (1 + z)) t := by
  simp only [countSpectrum, conv]; rl_simp
  have e : (1.0:ℝ) = 1 := by norm_num
  simp only [e]
  have : 1 + z ≠ 0 := by linarith
  rw [mul_div_assoc, div_self this, mul_one]

/-- no redshift: the familiar S · T · Aeff -/
theorem count_spectrum_z0 (S : ℝ → ℝ → ℝ) (aeff T : ℝ → ℝ) (scale E t : ℝ) :
    countSpectrum S aeff (some T) scale 0 E t = T E * (scale * aeff E * S E t) := by
  rw [count_spectrum_pointwise S aeff T scale 0 E t (by norm_num)]; simp

/-- events outside the good time intervals are removed and nothing else; order preserved (re-export of C18) -/
theorem gti_filter_exact (gtis : List Gti.Ivl) (ts : List Int) (t : Int) :
    t ∈ (Gti.filterTimes gtis ts).1 ↔ t ∈ ts ∧ ∃ g ∈ gtis, g.1 ≤ t ∧ t ≤ g.2 := Gti.filter_exact gtis ts t

theorem gti_filter_sublist (gtis : List Gti.Ivl) (ts : List Int) : ((Gti.filterTimes gtis ts).1).Sublist ts :=
  Gti.filter_sublist gtis ts

/-- the same on the definition regenerated from the loop of `xGTIList.filter_event_times` (T-tie, `Gen/Imp.lean`) -/
theorem gen_gti_filter_exact (gtis : List Gti.Ivl) (ts : List Int) (t : Int) :
    t ∈ (Gen.Imp.filter_event_times gtis ts).1 ↔ t ∈ ts ∧ ∃ g ∈ gtis, g.1 ≤ t ∧ t ≤ g.2 := Gti.gen_filter_exact gtis ts t

theorem gen_gti_filter_sublist (gtis : List Gti.Ivl) (ts : List Int) : ((Gen.Imp.filter_event_times gtis ts).1).Sublist ts :=
  Gti.gen_filter_sublist gtis ts

/-- hit-or-miss vignetting: the set of uniform variates in [0, 1) for which the event survives has length min(1, max(0, v)),
i.e. an event at off-axis angle θ survives with probability min(1, vign(E, θ)) -/
theorem vignetting_keep_prob (v : ℝ) :
    volume {u : ℝ | 0 ≤ u ∧ u < 1 ∧ vignKeep v u = true} = ENNReal.ofReal (min 1 (max 0 v)) := by
  simp only [vignKeep, decide_eq_true_eq]; rl_simp
  by_cases h0 : v < 0
  · have : {u : ℝ | 0 ≤ u ∧ u < 1 ∧ u ≤ v} = ∅ := by
      ext u; simp; intro a _; linarith
    rw [this, max_eq_left (le_of_lt h0)]; simp
  · simp only [not_lt] at h0
    by_cases h1 : v < 1
    · have : {u : ℝ | 0 ≤ u ∧ u < 1 ∧ u ≤ v} = Set.Icc 0 v := by
        ext u; simp; intro _ c; linarith
      rw [this, Real.volume_Icc, max_eq_right h0, min_eq_right (le_of_lt h1)]; simp
    · simp only [not_lt] at h1
      have : {u : ℝ | 0 ≤ u ∧ u < 1 ∧ u ≤ v} = Set.Ico 0 1 := by
        ext u; simp; intro _ b; linarith
      rw [this, Real.volume_Ico, max_eq_right h0, min_eq_left h1]; simp

/-- event times: sampled by inverse cdf from the energy-integrated count rate — if the light-curve ppf inverts the normalised
cumulative rate `F` within ε, the law of the times is within ε of `F` -/
theorem time_sampling_law (F ppf : ℝ → ℝ) (hF : StrictMono F) (eps u t : ℝ) (h : |F (ppf u) - u| ≤ eps) :
    (ppf u ≤ t → u ≤ F t + eps) ∧ (u ≤ F t - eps → ppf u ≤ t) :=
  C01.inverse_transform_eps F ppf hF eps u t h

/-- true energies at a given time: the same statement slice by slice (`F` is the normalised cumulative count spectrum at
that time) -/
theorem energy_sampling_law (F : ℝ → ℝ → ℝ) (ppf : ℝ → ℝ → ℝ) (t : ℝ) (hF : StrictMono (F t)) (eps u E : ℝ)
    (h : |F t (ppf t u) - u| ≤ eps) : (ppf t u ≤ E → u ≤ F t E + eps) ∧ (u ≤ F t E - eps → ppf t u ≤ E) :=
  C01.inverse_transform_eps (F t) (ppf t) hF eps u E h

/-! ## T-tie of the count-spectrum glue and of the vignetting rule (translator/lamtrans.py → `Gen/RatesGen.lean`)

`xSourceSpectrum._pdf`, the `conv` closure of `xCountSpectrum.__init__` and the arguments that connect them are closures over callables: they are
regenerated as Lean functions on functions. -/

/-- **what the regenerated `xCountSpectrum.__init__` tabulates is the count spectrum of the model**: for every source spectrum, effective area,
transmission, column density, redshift and scale factor -/
theorem gen_count_pdf_eq_model (S : ℝ → ℝ → ℝ) (aeff T : ℝ → ℝ) (nH z scale E t : ℝ) :
    Gen.Rates.count_pdf S aeff T nH z scale E t = countSpectrum S aeff (if nH ≤ 0 then none else some T) scale z E t := by
  unfold Gen.Rates.count_pdf Gen.Rates.source_pdf Gen.Rates.count_conv countSpectrum conv
  rl_simp
  have e : ((0.0 : ℝ) = 0) := by norm_num
  by_cases h : nH ≤ 0
  · simp [h, e]
  · simp [h, e]

/-- … so, on the current source: the source spectrum is read at the source-frame energy E (1 + z), the effective area and the absorption at the
observed energy E -/
theorem gen_count_pdf_pointwise (S : ℝ → ℝ → ℝ) (aeff T : ℝ → ℝ) (nH z scale E t : ℝ) (hz : -1 < z) (hn : 0 < nH) :
    Gen.Rates.count_pdf S aeff T nH z scale E t = T E * (scale * aeff E * S (E * (1 + z)) t) := by
  rw [gen_count_pdf_eq_model, if_neg (not_le.mpr hn)]
  exact count_spectrum_pointwise S aeff T scale z E t hz

theorem gen_count_pdf_unabsorbed (S : ℝ → ℝ → ℝ) (aeff T : ℝ → ℝ) (nH z scale E t : ℝ) (hz : -1 < z) (hn : nH ≤ 0) :
    Gen.Rates.count_pdf S aeff T nH z scale E t = scale * aeff E * S (E * (1 + z)) t := by
  rw [gen_count_pdf_eq_model, if_pos hn]
  exact count_spectrum_unabsorbed S aeff scale z E t hz

/-- the regenerated vignetting rule is the hit-or-miss of the model at the vignetting evaluated at the true energy and at the off-axis angle in
arcminutes -/
theorem gen_vign_keep_eq_model (vign : ℝ → ℝ → ℝ) (energy sep u : ℝ) :
    Gen.Rates.vign_keep vign energy sep u = vignKeep (vign energy (sep * 60)) u := by
  unfold Gen.Rates.vign_keep Gen.Rates.degrees_to_arcmin vignKeep
  rl_simp
  norm_num

/-- … hence an event at off-axis angle θ (degrees) survives with probability min(1, max(0, vign(E, 60 θ))) -/
theorem gen_vign_keep_prob (vign : ℝ → ℝ → ℝ) (energy sep : ℝ) :
    MeasureTheory.volume {u : ℝ | 0 ≤ u ∧ u < 1 ∧ Gen.Rates.vign_keep vign energy sep u = true} =
      ENNReal.ofReal (min 1 (max 0 (vign energy (sep * 60)))) := by
  simp only [gen_vign_keep_eq_model]
  exact vignetting_keep_prob _

end C03
end
