import IxpeVerif.Model.EventList
import IxpeVerif.Props.C05
import IxpeVerif.Lemmas.ImpTie
import IxpeVerif.Gen.Skel
/-!
# C04 — simulated event lists are temporally well-formed (core Lean only)

Statements about `EvL.finalize`, the model of `xEventList._finalize`
(fiducial cut → sort → dead-time veto → livetime → trigger id), tied to the code by the exact correspondence
`harness/props/C04.py` on rows carrying tags.
-/
namespace EvL

theorem vetoGo_sublist (dead : Int) : ∀ (last : Int) (rs : List Row), (vetoGo dead last rs).Sublist rs
  | _, [] => List.Sublist.slnil
  | last, r :: rs => by
    simp only [vetoGo]
    split
    · exact (vetoGo_sublist dead last rs).cons _
    · exact (vetoGo_sublist dead r.time rs).cons₂ _

theorem veto_sublist (dead : Int) : ∀ rs : List Row, (veto dead rs).Sublist rs
  | [] => List.Sublist.slnil
  | r :: rs => (vetoGo_sublist dead r.time rs).cons₂ _

/-- Nothing is invented, every output row is an input row unchanged (so EVENTS and MONTE_CARLO, which are columns of
the same rows, stay aligned), and everything kept lies inside the fiducial rectangle. -/
theorem finalize_mem (dead : Int) (rows : List Row) (r : Row) (h : r ∈ finalizeRows dead rows) :
    r ∈ rows ∧ r.inFid = true := by
  unfold finalizeRows at h
  simp only at h
  have hs : r ∈ (rows.filter (·.inFid)).mergeSort leT := by
    split at h
    · exact (veto_sublist dead _).subset h
    · exact h
  have := (List.mergeSort_perm (rows.filter (·.inFid)) leT).mem_iff.mp hs
  simpa using this

theorem sorted_mergeSort (rows : List Row) : (rows.mergeSort leT).Pairwise (fun a b => a.time ≤ b.time) := by
  have hsorted : (rows.mergeSort leT).Pairwise (fun a b => leT a b = true) :=
    List.pairwise_mergeSort (le := leT)
      (by intro a b c hab hbc; simp [leT] at *; omega)
      (by intro a b; simp [leT]; omega) _
  exact hsorted.imp (by intro a b h; simpa [leT] using h)

/-- Events are written in non-decreasing time order. -/
theorem finalize_sorted (dead : Int) (rows : List Row) :
    (finalizeRows dead rows).Pairwise (fun a b => a.time ≤ b.time) := by
  unfold finalizeRows
  simp only
  split
  · exact (sorted_mergeSort _).sublist (veto_sublist dead _)
  · exact sorted_mergeSort _

/-- consecutive elements at least `d` apart -/
def Spaced (d : Int) : List Row → Prop
  | [] => True
  | [_] => True
  | a :: b :: rest => b.time - a.time ≥ d ∧ Spaced d (b :: rest)

theorem vetoGo_spaced (dead : Int) (last : Row) (ts : List Row) :
    Spaced dead (last :: vetoGo dead last.time ts) := by
  induction ts generalizing last with
  | nil => simp [vetoGo, Spaced]
  | cons t ts ih =>
    simp only [vetoGo]
    split
    · exact ih last
    · rename_i h
      show t.time - last.time ≥ dead ∧ Spaced dead (t :: vetoGo dead t.time ts)
      exact ⟨by omega, ih t⟩

theorem veto_spaced (dead : Int) (ts : List Row) : Spaced dead (veto dead ts) := by
  cases ts with
  | nil => simp [veto, Spaced]
  | cons t ts => exact vetoGo_spaced dead t ts

/-- Consecutive recorded events are at least one dead time apart. -/
theorem finalize_spaced (dead : Int) (rows : List Row) (hd : 0 < dead) : Spaced dead (finalizeRows dead rows) := by
  unfold finalizeRows
  simp only [hd, if_true]
  exact veto_spaced dead _

/-- Non-paralysable semantics: the veto keeps the first event, and an event is dropped only if it lies within one
dead time of the last *kept* event (`vetoGo` carries exactly the last kept time). -/
theorem vetoGo_head_kept (dead last : Int) (r : Row) (rs : List Row) (h : dead ≤ r.time - last) :
    vetoGo dead last (r :: rs) = r :: vetoGo dead r.time rs := by
  simp only [vetoGo]; split
  · omega
  · rfl

theorem vetoGo_head_dropped (dead last : Int) (r : Row) (rs : List Row) (h : r.time - last < dead) :
    vetoGo dead last (r :: rs) = vetoGo dead last rs := by
  simp only [vetoGo]; split
  · rfl
  · omega

/-! ### trigger identifiers and livetime column run alongside the kept rows -/

theorem zip3_length : ∀ (rs : List Row) (ls : List Int) (k : Nat), rs.length = ls.length →
    (zip3 rs ls k).length = rs.length
  | [], [], _, _ => rfl
  | [], _ :: _, _, h => by simp at h
  | _ :: _, [], _, h => by simp at h
  | r :: rs, l :: ls, k, h => by
    simp only [zip3, List.length_cons]
    rw [zip3_length rs ls (k + 1) (by simpa using h)]

theorem zip3_get : ∀ (rs : List Row) (ls : List Int) (k i : Nat) (o : Out), (zip3 rs ls k)[i]? = some o →
    rs[i]? = some o.row ∧ ls[i]? = some o.livetime ∧ o.trg = k + i
  | [], _, _, _, _, h => by simp [zip3] at h
  | _ :: _, [], _, _, _, h => by simp [zip3] at h
  | r :: rs, l :: ls, k, i, o, h => by
    cases i with
    | zero => simp [zip3] at h; subst h; simp
    | succ i' =>
      simp only [zip3, List.getElem?_cons_succ] at h
      have := zip3_get rs ls (k + 1) i' o h
      simp only [List.getElem?_cons_succ]
      exact ⟨this.1, this.2.1, by omega⟩

theorem livetimeColumn_length (s0 dead : Int) (starts times : List Int) (hs : ∀ s ∈ starts, s0 ≤ s) :
    (Livetime.livetimeColumn s0 starts times dead).length = times.length := by
  unfold Livetime.livetimeColumn
  rw [List.length_map, Livetime.fillLivetimeW_eq s0 dead starts times hs, Livetime.livetime_total]

/-- The written table has one row per kept event, in the kept order, with TRG_ID running 1..N. -/
theorem finalize_rows_and_trg (s0 dead : Int) (starts : List Int) (rows : List Row) (hs : ∀ s ∈ starts, s0 ≤ s) :
    (finalize s0 dead starts rows).length = (finalizeRows dead rows).length ∧
    ∀ i o, (finalize s0 dead starts rows)[i]? = some o → (finalizeRows dead rows)[i]? = some o.row ∧ o.trg = i + 1 := by
  unfold finalize
  simp only
  constructor
  · apply zip3_length
    rw [livetimeColumn_length _ _ _ _ hs, List.length_map]
  · intro i o h
    have := zip3_get _ _ 1 i o h
    exact ⟨this.1, by omega⟩

/-! ### order of concatenation of the components is irrelevant (distinct event times) -/

theorem mergeSort_perm_eq (l₁ l₂ : List Row) (hp : l₁.Perm l₂)
    (hd : ∀ a ∈ l₁, ∀ b ∈ l₁, a.time = b.time → a = b) : l₁.mergeSort leT = l₂.mergeSort leT := by
  have h1 := sorted_mergeSort l₁
  have h2 := sorted_mergeSort l₂
  have p1 := List.mergeSort_perm l₁ leT
  have p2 := List.mergeSort_perm l₂ leT
  have pp : (l₁.mergeSort leT).Perm (l₂.mergeSort leT) := p1.trans (hp.trans p2.symm)
  apply List.Perm.eq_of_pairwise (le := fun a b => a.time ≤ b.time) _ h1 h2 pp
  intro a b ha hb hab hba
  have ha' : a ∈ l₁ := p1.mem_iff.mp ha
  have hb' : b ∈ l₁ := hp.mem_iff.mpr (p2.mem_iff.mp hb)
  exact hd a ha' b hb' (by omega)

/-- Whatever the order in which component event lists are concatenated, the finalized list is the same
(events with pairwise distinct times — ties have probability zero in the simulator). -/
theorem concat_order_irrelevant (dead : Int) (rows₁ rows₂ : List Row) (hp : rows₁.Perm rows₂)
    (hd : ∀ a ∈ rows₁, ∀ b ∈ rows₁, a.time = b.time → a = b) :
    finalizeRows dead rows₁ = finalizeRows dead rows₂ := by
  unfold finalizeRows
  simp only
  have hf : (rows₁.filter (·.inFid)).Perm (rows₂.filter (·.inFid)) := hp.filter _
  have := mergeSort_perm_eq _ _ hf (by
    intro a ha b hb; exact hd a (List.mem_filter.mp ha).1 b (List.mem_filter.mp hb).1)
  rw [this]

/-! ### floor split of the time stamp -/

/-- SEC and MICROSEC are the floor split of TIME: 0 ≤ µs < 10⁶ and sec + µs·10⁻⁶ ≤ t < sec + (µs+1)·10⁻⁶
(in ticks of 2⁻²⁰ s: 1 s = 1048576 ticks, 1 µs = 16384/15625 ticks). -/
theorem split_time_spec (t : Int) :
    let (sec, us) := splitTime t
    0 ≤ us ∧ us < 1000000 ∧
    (sec * 1048576 * 15625 + us * 16384 ≤ t * 15625) ∧ (t * 15625 < sec * 1048576 * 15625 + (us + 1) * 16384) := by
  simp only [splitTime, Livetime.toMicro]
  omega

/-- non-vacuity / regression example (on a sorted list, `mergeSort` does not reduce in the kernel): dead time 3 keeps
the events at 1 and 5 and drops those at 2 and 7 -/
example : (veto 3 [⟨1,1,true,2⟩, ⟨2,0,true,3⟩, ⟨5,0,true,1⟩, ⟨7,1,true,5⟩]).map (·.tag) = [2, 1] := by decide

/-! ### T-tie: the dead-time loop regenerated from the source (`Gen/Imp.lean`) -/

/-- trimming the event list with the mask computed by the generated `apply_dead_time` (the `for i in range(1, n)` loop of the source) is the
sequential non-paralysable veto of the model -/
theorem gen_apply_dead_time_eq_model (rows : List Row) (dead : Int) :
    Np.compress (Gen.Imp.apply_dead_time (rows.map (·.time)) dead) rows = veto dead rows := ImpTie.gen_apply_dead_time_eq_model rows dead

/-- **consecutive recorded events are at least one dead time apart, on the current source** -/
theorem gen_dead_time_spaced (rows : List Row) (dead : Int) :
    Spaced dead (Np.compress (Gen.Imp.apply_dead_time (rows.map (·.time)) dead) rows) := by
  rw [gen_apply_dead_time_eq_model]; exact veto_spaced dead rows

/-- the trimmed list is a sublist of the input: nothing is reordered or invented by the veto -/
theorem gen_dead_time_sublist (rows : List Row) (dead : Int) :
    (Np.compress (Gen.Imp.apply_dead_time (rows.map (·.time)) dead) rows).Sublist rows := by
  rw [gen_apply_dead_time_eq_model]; exact veto_sublist dead rows

example : Gen.Imp.apply_dead_time [0, 3, 5, 11, 12, 30] 5 = [true, false, true, true, false, true] ∧ Gen.Imp.apply_dead_time [] 5 = [] := by decide

/-! ### T-tie of the orchestration: `_finalize` regenerated as a composition of the methods it calls (`Gen/Skel.lean`, translator/skeltrans.py)

The state of the model: the rows, the LIVETIME column once filled, the first trigger identifier once assigned.  Each method of the event list is
modelled by the function below that carries its name; the generated skeleton composes them in the order, under the guards and with the arguments
of the source. -/

structure St where
  rows : List Row
  lt : List Int := []
  trg0 : Nat := 0

/-- the models of the methods `_finalize` calls (`apply_charging` does not touch the columns the property speaks of; the GTI list is handed over as
the observation start and the interval starts, which is what `fill_livetime` reads from it) -/
def modelOps : Gen.Skel.FinalizeOps St (Int × List Int) where
  num_events st := (st.rows.length : Int)
  apply_fiducial_area st := { st with rows := st.rows.filter (·.inFid) }
  sort st := { st with rows := st.rows.mergeSort leT }
  apply_charging st := st
  apply_dead_time st dead := { st with rows := veto dead st.rows }
  fill_livetime st g dead := { st with lt := Livetime.livetimeColumn g.1 g.2 (st.rows.map (·.time)) dead }
  fill_trigger_id st := { st with trg0 := 1 }

/-- the table the state stands for -/
def St.table (st : St) : List Out := zip3 st.rows st.lt st.trg0

/-- **the generated `_finalize` composes the models of its steps into the model of the whole**, for every event list, dead time and GTI list:
an empty list is left alone; otherwise fiducial cut, sort, veto iff the dead time is positive, livetime with the GTI list and the dead time of the
call, trigger identifiers — in this order -/
theorem gen_finalize_eq_model (s0 dead : Int) (starts : List Int) (rows : List Row) :
    (Gen.Skel.finalize modelOps false dead (s0, starts) { rows := rows }).table = finalize s0 dead starts rows := by
  unfold Gen.Skel.finalize finalize finalizeRows St.table
  cases rows with
  | nil => simp [modelOps, zip3, veto]
  | cons r rest =>
    have hne : ¬ (((r :: rest).length : Int) = 0) := by simp; omega
    simp only [modelOps, hne, decide_false, Bool.false_eq_true, if_false]
    by_cases hd : dead > 0
    · simp [hd]
    · simp [hd]

/-- the headline statements on the generated orchestration: sorted, spaced by the dead time, inside the fiducial area -/
theorem gen_finalize_rows (s0 dead : Int) (starts : List Int) (rows : List Row) (hne : rows ≠ []) :
    (Gen.Skel.finalize modelOps false dead (s0, starts) { rows := rows }).rows = finalizeRows dead rows := by
  unfold Gen.Skel.finalize finalizeRows
  cases rows with
  | nil => exact absurd rfl hne
  | cons r rest =>
    have h0 : ¬ (((r :: rest).length : Int) = 0) := by simp; omega
    simp only [modelOps, h0, decide_false, Bool.false_eq_true, if_false]
    by_cases hd : dead > 0
    · simp [hd]
    · simp [hd]

end EvL
