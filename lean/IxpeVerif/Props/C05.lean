import IxpeVerif.Lemmas.Livetime
import IxpeVerif.Lemmas.ImpTie
/-!
# C05 — livetime and dead-time bookkeeping is exact (core Lean only; axioms ⊆ {propext})

Statements are about `Livetime.fillLivetime(W)`, the line-by-line model of the repaired `xEventList.fill_livetime`,
tied to the code by the exact correspondence check `harness/props/C05.py` (dyadic times, no tolerance).
-/
namespace Livetime

/-- C05 specification: time since the later of (previous + dead) and the start `g` of the event's GTI.
    `g` is the greatest GTI start below `t`; `hgap` is "a previous event lying before `g` lies at least one
    dead time before it" (GTI gaps ≥ dead time); for the first event of the file `p = s0` and `hfirst` applies. -/
theorem livetime_eq_spec (s0 dead : Int) (starts times : List Int) (j : Nat) (p t g : Int)
    (hm : StrictInc (s0 :: times)) (hst : StrictInc starts) (hs : ∀ s ∈ starts, s0 ≤ s) (hd : 0 ≤ dead)
    (hp : (s0 :: times)[j]? = some p) (ht : (s0 :: times)[j+1]? = some t)
    (hg : g ∈ starts ∧ g < t ∧ ∀ s ∈ starts, s < t → s ≤ g)
    (hgap : p ≤ g → p + dead ≤ g ∨ j = 0) :
    (fillLivetime s0 starts times dead)[j]? =
      some (if j = 0 then t - g else t - max (p + dead) g) := by
  rw [fill_closed_form s0 dead starts times j p t hm hs hp ht]
  have hspec := lastQ_spec p t starts hst
  have hp0 : j = 0 → p = s0 := by intro h; subst h; simpa using hp.symm
  cases hq : lastQ p t starts with
  | some g' =>
    have ⟨h1, h2, h3, h4⟩ := hspec.1 g' hq
    have hgg : g' = g := by
      have a := h4 g hg.1 hg.2.1
      have b := hg.2.2 g' h1 h3
      omega
    subst hgg
    simp only
    split
    · rfl
    · rename_i hj
      rcases hgap h2 with h | h
      · congr 1; omega
      · exact absurd h hj
  | none =>
    have hno := hspec.2 hq g hg.1
    simp only
    split
    · rename_i hj
      exfalso; apply hno
      exact ⟨by rw [hp0 hj]; exact hs g hg.1, hg.2.1⟩
    · congr 1
      have : ¬ (p ≤ g) := fun h => hno ⟨h, hg.2.1⟩
      omega

/-! ### the faithful (wrap-around) model coincides with the one the specification is proved for -/

theorem stepLW_eq (s0 : Int) (times : List Int) (dead : Int) (dt : List Int) (s : Int) (h : s0 ≤ s) :
    stepLW (s0 :: times) dead dt s = stepL (s0 :: times) dead dt s := by
  have hpos := searchRight_pos (s0 :: times) s s0 (by simp) h
  unfold stepLW stepL
  have : ¬ (searchRight (s0 :: times) s = 0) := by omega
  simp only [this, if_false]

theorem foldl_stepLW_eq (s0 : Int) (times : List Int) (dead : Int) :
    ∀ (starts : List Int) (acc : List Int), (∀ s ∈ starts, s0 ≤ s) →
      starts.foldl (stepLW (s0 :: times) dead) acc = starts.foldl (stepL (s0 :: times) dead) acc
  | [], _, _ => rfl
  | s :: rest, acc, hs => by
    simp only [List.foldl_cons]
    rw [stepLW_eq s0 times dead acc s (hs s List.mem_cons_self)]
    exact foldl_stepLW_eq s0 times dead rest _ (fun x hx => hs x (List.mem_cons_of_mem _ hx))

/-- No GTI starts before the observation start (asserted by `xGTIList.append_gti`) ⇒ the Python negative-index
wrap-around is never taken. -/
theorem fillLivetimeW_eq (s0 dead : Int) (starts times : List Int) (hs : ∀ s ∈ starts, s0 ≤ s) :
    fillLivetimeW s0 starts times dead = fillLivetime s0 starts times dead := by
  unfold fillLivetimeW fillLivetime
  simp only [foldl_stepLW_eq s0 times dead starts _ hs]

/-! ### totality: one LIVETIME value per event, whatever the placement of events and GTIs -/

theorem foldl_stepL_length (met : List Int) (dead : Int) :
    ∀ (starts acc : List Int), (starts.foldl (stepL met dead) acc).length = acc.length
  | [], _ => rfl
  | s :: rest, acc => by
    simp only [List.foldl_cons]
    rw [foldl_stepL_length met dead rest, stepL_length]

/-- The (repaired) routine is total and fills exactly one value per event — including GTIs that contain no events
(leading, middle or trailing). -/
theorem livetime_total (s0 dead : Int) (starts times : List Int) :
    (fillLivetime s0 starts times dead).length = times.length := by
  unfold fillLivetime
  simp only [List.length_map, foldl_stepL_length, diffs_length, List.length_cons]
  omega

/-! ### consequences of the specification -/

/-- Under the specification's hypotheses, and events at least one dead time apart (which `apply_dead_time`
guarantees, C04), every livetime is non-negative. -/
theorem livetime_nonneg (s0 dead : Int) (starts times : List Int) (j : Nat) (p t g v : Int)
    (hm : StrictInc (s0 :: times)) (hst : StrictInc starts) (hs : ∀ s ∈ starts, s0 ≤ s) (hd : 0 ≤ dead)
    (hp : (s0 :: times)[j]? = some p) (ht : (s0 :: times)[j+1]? = some t)
    (hg : g ∈ starts ∧ g < t ∧ ∀ s ∈ starts, s < t → s ≤ g)
    (hgap : p ≤ g → p + dead ≤ g ∨ j = 0)
    (hspaced : j ≠ 0 → p + dead ≤ t)
    (hv : (fillLivetime s0 starts times dead)[j]? = some v) : 0 ≤ v := by
  rw [livetime_eq_spec s0 dead starts times j p t g hm hst hs hd hp ht hg hgap] at hv
  cases hv
  split
  · omega
  · rename_i hj
    have := hspaced hj
    omega

/-- floor to microseconds: monotone, non-negative on non-negative input, never rounds up -/
theorem toMicro_nonneg (dt : Int) (h : 0 ≤ dt) : 0 ≤ toMicro dt := by
  unfold toMicro; omega

theorem toMicro_floor (dt : Int) : toMicro dt * 16384 ≤ dt * 15625 ∧ dt * 15625 < (toMicro dt + 1) * 16384 := by
  unfold toMicro; omega

theorem toMicro_mono (a b : Int) (h : a ≤ b) : toMicro a ≤ toMicro b := by
  unfold toMicro; omega

/-! ### proved counterexample for the known finding C05-gap-shorter-than-deadtime

With a GTI gap shorter than the dead time the code measures from the GTI start although `previous + dead` is
later: dead = 5, GTIs [0,10], [12,20], events at 9 and 15 → 3 instead of 1.  (Hypothesis `hgap` of
`livetime_eq_spec` excludes exactly this.) -/
theorem gap_shorter_than_deadtime_fails :
    fillLivetime 0 [0, 12] [9, 15] 5 = [9, 3] ∧ (15 - max (9 + 5) 12 : Int) = 1 := by decide

/-- non-vacuity of `livetime_eq_spec`: a middle-empty-GTI layout that meets all hypotheses -/
example : fillLivetime 0 [0, 12000, 20000] [1000, 2000, 24000] 500 = [1000, 500, 4000] := by decide

end Livetime

namespace Livetime
/-! ### proved counterexample for the known finding C05-event-exactly-on-gti-start

An event exactly on a GTI start is treated as preceding that GTI (`searchsorted(side='right')`): dead = 1,
GTIs [0,10], [20,30], events 5, 20, 25 → [5, 14, 5] where the specification gives [5, 0, 4].
(`hg : g < t` in `livetime_eq_spec` excludes exactly this.) -/
theorem event_on_gti_start_fails :
    fillLivetime 0 [0, 20] [5, 20, 25] 1 = [5, 14, 5] ∧ ((20 - max (5 + 1) 20 : Int) = 0 ∧ (25 - max (20 + 1) 20 : Int) = 4) := by
  decide
/-! ### T-tie: the array statements of `fill_livetime` regenerated from the source (`Gen/Imp.lean`) -/

/-- the generated definition (append, searchsorted, mask, diff, fancy-index assignment, subtraction, floor — in the order of the source) is the
LIVETIME column of the line-by-line model, for every input -/
theorem gen_fill_livetime_eq_model (s0 : Int) (starts times : List Int) (dead : Int) :
    Gen.Imp.fill_livetime s0 starts times dead = livetimeColumn s0 starts times dead := ImpTie.gen_fill_livetime_eq_model s0 starts times dead

/-- **C05 on the current source**: the value the generated `fill_livetime` writes for event `j` is the time (floored to µs) since the later of the
previous event plus one dead time and the start of the event's good time interval -/
theorem gen_livetime_eq_spec (s0 dead : Int) (starts times : List Int) (j : Nat) (p t g : Int)
    (hm : StrictInc (s0 :: times)) (hst : StrictInc starts) (hs : ∀ s ∈ starts, s0 ≤ s) (hd : 0 ≤ dead)
    (hp : (s0 :: times)[j]? = some p) (ht : (s0 :: times)[j+1]? = some t)
    (hg : g ∈ starts ∧ g < t ∧ ∀ s ∈ starts, s < t → s ≤ g)
    (hgap : p ≤ g → p + dead ≤ g ∨ j = 0) :
    (Gen.Imp.fill_livetime s0 starts times dead)[j]? = some (toMicro (if j = 0 then t - g else t - max (p + dead) g)) := by
  rw [gen_fill_livetime_eq_model, livetimeColumn, fillLivetimeW_eq s0 dead starts times hs, List.getElem?_map,
    livetime_eq_spec s0 dead starts times j p t g hm hst hs hd hp ht hg hgap]
  rfl

example : Gen.Imp.fill_livetime 0 [0, 2097152] [1048576, 3145728] 0 = [1000000, 1000000] := by decide

end Livetime
