import IxpeVerif.RealInst
import IxpeVerif.Gen.Formulas
import IxpeVerif.Gen.Tables
import IxpeVerif.Model.Kislat
import IxpeVerif.Lemmas.Basic
import Mathlib.Analysis.SpecialFunctions.Trigonometric.Angle

/-!
# C06 — polarization results are rotation-covariant; Stokes and angle pictures agree

All statements are about the *generated* definitions (`Gen.*`, regenerated from /repo on every run)
instantiated at ℝ, and about the hand-written `Kislat.polarization` (tied by correspondence, C02).
-/
open Real
noncomputable section
namespace C06

/-- Aligning Stokes parameters to a model direction φ₀ = recomputing them from φ − φ₀. -/
theorem align_eq_rotate (phi phi0 : ℝ) :
    Gen.align_stokes_parameters (Gen.stokes_q phi) (Gen.stokes_u phi) (Gen.stokes_q phi0) (Gen.stokes_u phi0)
      = (Gen.stokes_q (phi - phi0), Gen.stokes_u (phi - phi0)) := by
  simp only [Gen.align_stokes_parameters, Gen.stokes_q, Gen.stokes_u]
  rl_simp
  have h1 : (2.0:ℝ) * (phi - phi0) = 2.0 * phi - 2.0 * phi0 := by norm_num; ring
  rw [h1, Real.cos_sub, Real.sin_sub]
  ext <;> norm_num <;> ring

/-- The Stokes-space rotation angle is twice the angle-space correction. -/
theorem stokes_rotation_is_twice_delta (phi qs us : ℝ) :
    Gen.stokes_rotation_angle (Gen.stokes_q phi) (Gen.stokes_u phi) qs us = 2 * Gen.delta_phi_stokes phi qs us := by
  simp only [Gen.stokes_rotation_angle, Gen.stokes_q, Gen.stokes_u, Gen.delta_phi_stokes]
  rl_simp
  norm_num; ring

/-- Spurious-modulation correction: Stokes space = angle space. -/
theorem correct_stokes_eq_angle (phi qs us : ℝ) :
    Gen.correct_stokes_parameters (Gen.stokes_q phi) (Gen.stokes_u phi) qs us
      = (Gen.stokes_q (Gen.correct_phi_stokes phi qs us), Gen.stokes_u (Gen.correct_phi_stokes phi qs us)) := by
  have hd := stokes_rotation_is_twice_delta phi qs us
  simp only [Gen.correct_stokes_parameters, Gen.correct_phi_stokes]
  rw [hd]
  simp only [Gen.stokes_q, Gen.stokes_u]
  rl_simp
  have h1 : (2.0:ℝ) * (phi + Gen.delta_phi_stokes phi qs us) = 2.0 * phi + 2 * Gen.delta_phi_stokes phi qs us := by
    norm_num; ring
  rw [h1, Real.cos_add, Real.sin_add]
  ext <;> norm_num <;> ring

/-- The amplitude / phase flavour of the angle-space correction is the Stokes flavour at (q_s, u_s) = A (cos 2φ_s, sin 2φ_s), for **every** amplitude —
negative ones included (a fit of the modulation curve may return one; the sign is carried by the direction (q_s, u_s)). -/
theorem delta_phi_ampl_eq_stokes (phi A ph : ℝ) :
    Gen.delta_phi_ampl phi A ph 2 = Gen.delta_phi_stokes phi (A * Real.cos (2 * ph)) (A * Real.sin (2 * ph)) := by
  simp only [Gen.delta_phi_ampl, Gen.delta_phi_stokes]
  rl_simp
  have e : (2:ℝ) * (phi - ph) = 2 * phi - 2 * ph := by ring
  have e2 : (2.0:ℝ) = 2 := by norm_num
  rw [e2, e, Real.sin_sub]
  norm_num
  ring

/-- `modulo_2pi` at ℝ is the single fold. -/
theorem modulo_2pi_real (x : ℝ) :
    Gen.modulo_2pi x = if x < -π then x + 2 * π else if π < x then x - 2 * π else x := by
  simp only [Gen.modulo_2pi]
  rl_simp
  have hp := Real.pi_pos
  split_ifs <;> norm_num <;> linarith

/-- `detphi_to_phi ∘ phi_to_detphi = id` on (−π, π), for every rotation angle. -/
theorem detphi_roundtrip (phi rho : ℝ) (h1 : -π < phi) (h2 : phi < π) :
    Gen.detphi_to_phi (Gen.phi_to_detphi phi rho) rho = phi := by
  simp only [Gen.detphi_to_phi, Gen.phi_to_detphi, modulo_2pi_real]
  rl_simp
  have hp := Real.pi_pos
  split_ifs <;> linarith

/-- … and in the other direction. -/
theorem phi_roundtrip (detphi rho : ℝ) (h1 : -π < detphi) (h2 : detphi < π) :
    Gen.phi_to_detphi (Gen.detphi_to_phi detphi rho) rho = detphi := by
  simp only [Gen.detphi_to_phi, Gen.phi_to_detphi, modulo_2pi_real]
  rl_simp
  have hp := Real.pi_pos
  split_ifs <;> linarith

/-- The detector angle is in [−π, π] when |ρ| ≤ 2π. -/
theorem detphi_range (phi rho : ℝ) (h1 : -π ≤ phi) (h2 : phi ≤ π) (h3 : |rho| ≤ 2 * π) :
    -π ≤ Gen.phi_to_detphi phi rho ∧ Gen.phi_to_detphi phi rho ≤ π := by
  simp only [Gen.phi_to_detphi, modulo_2pi_real]
  have hp := Real.pi_pos
  rw [abs_le] at h3
  split_ifs <;> constructor <;> linarith

/-- For every DU of the generated table and every roll angle in [0, 360) the rotation angle used by the
conversions satisfies |ρ| ≤ 2π (so that `detphi_range` applies). -/
theorem du_angle_bound (d : Int) (hd : d ∈ Gen.duRotationDeg) (roll : ℝ) (h0 : 0 ≤ roll) (h1 : roll < 360) :
    |Gen.du_rotation_angle roll ((d : ℝ) * (π / 180))| ≤ 2 * π := by
  have hp := Real.pi_pos
  have hd' : d = 109 ∨ d = 229 ∨ d = 349 := by simpa [Gen.duRotationDeg] using hd
  simp only [Gen.du_rotation_angle, modulo_2pi_real]
  rl_simp
  have e : ∀ x : ℝ, x * (π / (180.0:ℝ)) = x * π / 180 := by intro x; norm_num; ring
  rw [e]
  rw [abs_le]
  rcases hd' with rfl | rfl | rfl <;> push_cast <;> split_ifs <;> constructor <;> nlinarith

/-! ### rotating every photoelectron direction by `d` -/

/-- weighted Stokes sums of a list of (coefficient, angle) pairs -/
def sumQ (evs : List (ℝ × ℝ)) : ℝ := (evs.map fun e => e.1 * Gen.stokes_q e.2).sum
def sumU (evs : List (ℝ × ℝ)) : ℝ := (evs.map fun e => e.1 * Gen.stokes_u e.2).sum
def rotate (d : ℝ) (evs : List (ℝ × ℝ)) : List (ℝ × ℝ) := evs.map fun e => (e.1, e.2 + d)

theorem stokes_q_add (phi d : ℝ) :
    Gen.stokes_q (phi + d) = Gen.stokes_q phi * cos (2 * d) - Gen.stokes_u phi * sin (2 * d) := by
  simp only [Gen.stokes_q, Gen.stokes_u]; rl_simp
  have e : (2.0:ℝ) = 2 := by norm_num
  simp only [e]
  have : (2:ℝ) * (phi + d) = 2 * phi + 2 * d := by ring
  rw [this, Real.cos_add]; ring

theorem stokes_u_add (phi d : ℝ) :
    Gen.stokes_u (phi + d) = Gen.stokes_q phi * sin (2 * d) + Gen.stokes_u phi * cos (2 * d) := by
  simp only [Gen.stokes_q, Gen.stokes_u]; rl_simp
  have e : (2.0:ℝ) = 2 := by norm_num
  simp only [e]
  have : (2:ℝ) * (phi + d) = 2 * phi + 2 * d := by ring
  rw [this, Real.sin_add]; ring

/-- Σ of the rotated (q, u) = R(2d) applied to (Q, U): any weights / per-event 1/μ factors. -/
theorem rotate_events_sums (d : ℝ) (evs : List (ℝ × ℝ)) :
    sumQ (rotate d evs) = sumQ evs * cos (2 * d) - sumU evs * sin (2 * d) ∧
    sumU (rotate d evs) = sumQ evs * sin (2 * d) + sumU evs * cos (2 * d) := by
  induction evs with
  | nil => simp [sumQ, sumU, rotate]
  | cons e es ih =>
    obtain ⟨ihq, ihu⟩ := ih
    have hq : sumQ (rotate d (e :: es)) = e.1 * Gen.stokes_q (e.2 + d) + sumQ (rotate d es) := by
      simp [sumQ, rotate]
    have hu : sumU (rotate d (e :: es)) = e.1 * Gen.stokes_u (e.2 + d) + sumU (rotate d es) := by
      simp [sumU, rotate]
    have hq0 : sumQ (e :: es) = e.1 * Gen.stokes_q e.2 + sumQ es := by simp [sumQ]
    have hu0 : sumU (e :: es) = e.1 * Gen.stokes_u e.2 + sumU es := by simp [sumU]
    rw [hq, hu, hq0, hu0, ihq, ihu, stokes_q_add, stokes_u_add]
    constructor <;> ring

theorem arg_rot_aux (Q U c s t : ℝ) (hc : c = Real.cos t) (hs : s = Real.sin t) (h : (⟨Q, U⟩ : ℂ) ≠ 0) :
    ∃ k : ℤ, Complex.arg ⟨Q * c - U * s, Q * s + U * c⟩ = Complex.arg ⟨Q, U⟩ + t + k * (2 * π) := by
  set z : ℂ := ⟨Q, U⟩
  set w : ℂ := ⟨c, s⟩
  have hw : w ≠ 0 := by
    intro h0
    have hre : c = 0 := congrArg Complex.re h0
    have him : s = 0 := congrArg Complex.im h0
    have := Real.cos_sq_add_sin_sq t
    rw [← hc, ← hs, hre, him] at this; norm_num at this
  have hz' : (⟨Q * c - U * s, Q * s + U * c⟩ : ℂ) = z * w := by
    apply Complex.ext <;> simp [z, w]
  have hwarg : ((Complex.arg w : ℝ) : Real.Angle) = (t : Real.Angle) := by
    have := Complex.arg_cos_add_sin_mul_I_coe_angle (t : Real.Angle)
    have e : w = ((Real.Angle.cos (t : Real.Angle) : ℝ) : ℂ) + ((Real.Angle.sin (t : Real.Angle) : ℝ) : ℂ) * Complex.I := by
      apply Complex.ext <;> simp [w, Real.Angle.cos_coe, Real.Angle.sin_coe, hc, hs, ← Complex.ofReal_cos, ← Complex.ofReal_sin]
    rw [e]; exact this
  have hang : ((Complex.arg (z * w) : ℝ) : Real.Angle) = ((Complex.arg z + t : ℝ) : Real.Angle) := by
    rw [Complex.arg_mul_coe_angle h hw, Real.Angle.coe_add, hwarg]
  rw [hz']
  rw [Real.Angle.angle_eq_iff_two_pi_dvd_sub] at hang
  obtain ⟨k, hk⟩ := hang
  exact ⟨k, by linarith⟩

/-- Rotating every photoelectron direction by `d` changes the measured polarization angle
(`0.5·arctan2(U, Q)`, radians) by `d` modulo π — whenever the sample is not exactly unpolarized. -/
theorem pa_rotation_covariant (d : ℝ) (evs : List (ℝ × ℝ)) (h : sumQ evs ≠ 0 ∨ sumU evs ≠ 0) :
    ∃ k : ℤ, Gen.model_pa (sumQ (rotate d evs)) (sumU (rotate d evs))
      = Gen.model_pa (sumQ evs) (sumU evs) + d + k * π := by
  obtain ⟨hq, hu⟩ := rotate_events_sums d evs
  rw [hq, hu]
  simp only [Gen.model_pa]; rl_simp
  have hne : (⟨sumQ evs, sumU evs⟩ : ℂ) ≠ 0 := by
    intro h0
    have a := congrArg Complex.re h0; have b := congrArg Complex.im h0
    simp at a b; rcases h with h | h <;> contradiction
  obtain ⟨k, hk⟩ := arg_rot_aux (sumQ evs) (sumU evs) _ _ (2 * d) rfl rfl hne
  exact ⟨k, by rw [hk]; norm_num; ring⟩

/-- Q² + U² is invariant. -/
theorem qu_norm_invariant (d : ℝ) (evs : List (ℝ × ℝ)) :
    sumQ (rotate d evs) * sumQ (rotate d evs) + sumU (rotate d evs) * sumU (rotate d evs)
      = sumQ evs * sumQ evs + sumU evs * sumU evs := by
  obtain ⟨hq, hu⟩ := rotate_events_sums d evs
  rw [hq, hu]
  have := Real.cos_sq_add_sin_sq (2 * d)
  nlinarith [this]

/-- PD, PD_ERR and PA_ERR (the polarization errors) of the cube row depend on (Q, U) only through Q² + U²:
so they, with I, W2, MU, MDP_99, N_EFF, COUNTS (which do not involve Q, U at all), are unchanged by the rotation. -/
theorem pol_depends_on_norm (I Q U Q' U' mu W2 : ℝ) (deg : Bool) (h : Q' * Q' + U' * U' = Q * Q + U * U) :
    (Kislat.polarization I Q' U' mu W2 deg).pd = (Kislat.polarization I Q U mu W2 deg).pd ∧
    (Kislat.polarization I Q' U' mu W2 deg).pdErr = (Kislat.polarization I Q U mu W2 deg).pdErr ∧
    (Kislat.polarization I Q' U' mu W2 deg).paErr = (Kislat.polarization I Q U mu W2 deg).paErr := by
  unfold Kislat.polarization
  rl_simp
  simp only [h]
  exact ⟨trivial, trivial, trivial⟩

theorem pd_rotation_invariant (d I mu W2 : ℝ) (deg : Bool) (evs : List (ℝ × ℝ)) :
    (Kislat.polarization I (sumQ (rotate d evs)) (sumU (rotate d evs)) mu W2 deg).pd
      = (Kislat.polarization I (sumQ evs) (sumU evs) mu W2 deg).pd ∧
    (Kislat.polarization I (sumQ (rotate d evs)) (sumU (rotate d evs)) mu W2 deg).pdErr
      = (Kislat.polarization I (sumQ evs) (sumU evs) mu W2 deg).pdErr ∧
    (Kislat.polarization I (sumQ (rotate d evs)) (sumU (rotate d evs)) mu W2 deg).paErr
      = (Kislat.polarization I (sumQ evs) (sumU evs) mu W2 deg).paErr :=
  pol_depends_on_norm _ _ _ _ _ _ _ _ (qu_norm_invariant d evs)

/-- non-vacuity: a sample that satisfies the hypothesis of `pa_rotation_covariant` -/
example : sumQ [((1:ℝ), (0:ℝ))] ≠ 0 ∨ sumU [((1:ℝ), (0:ℝ))] ≠ 0 := by
  left; simp [sumQ, Gen.stokes_q]; rl_simp; norm_num

end C06
end
