import IxpeVerif.Props.C02
import IxpeVerif.Props.C06
/-!
# C06 on the generated event-list layer: rotation covariance of the summed Stokes parameters

Rotating every event's (q, u) by the angle 2d — what a rotation of the photoelectron angles by d does to `2 cos 2φ, 2 sin 2φ` — rotates the Q, U
that the *generated* constructor and reductions of `xStokesAnalysis` produce for any energy bin by 2d and leaves I, W2, the counts, the effective
modulation factor and the mean energy as they are: weights, the acceptance correction and the event-by-event division by μ(E) do not break the
covariance.
-/
open Real
noncomputable section
namespace C06Gen
open Kislat

/-- the event columns with (q, u) rotated by 2d -/
def rot (d : ℝ) (r : ℝ × ℝ × ℝ × ℝ) : ℝ × ℝ × ℝ × ℝ :=
  (r.1 * cos (2 * d) - r.2.1 * sin (2 * d), r.1 * sin (2 * d) + r.2.1 * cos (2 * d), r.2.2.1, r.2.2.2)

theorem sum_lin (l : List (Prep ℝ)) (f g : Prep ℝ → ℝ) (c s : ℝ) :
    (l.map fun p => f p * c + g p * s).sum = (l.map f).sum * c + (l.map g).sum * s := by
  induction l with
  | nil => simp
  | cons p ps ih => simp only [List.map_cons, List.sum_cons, ih]; ring

/-- the prepared events of the rotated columns: energies, weights, μ unchanged; (q, u) rotated -/
theorem prep_rot (useW acc : Bool) (modf aeff : ℝ → ℝ) (d : ℝ) (raw : List (ℝ × ℝ × ℝ × ℝ)) :
    prep useW acc ((raw.map (rot d)).map (AnaTie.mkEv modf aeff)) =
      (prep useW acc (raw.map (AnaTie.mkEv modf aeff))).map fun p =>
        { p with q := p.q * cos (2 * d) - p.u * sin (2 * d), u := p.q * sin (2 * d) + p.u * cos (2 * d) } := by
  unfold prep
  simp only [List.map_map, List.filter_map, Function.comp_def, AnaTie.mkEv, rot]
  apply List.map_congr_left
  intro r _
  simp only [Prep.mk.injEq, true_and]
  refine ⟨?_, ?_, trivial⟩ <;> ring

variable (raw : List (ℝ × ℝ × ℝ × ℝ)) (modf aeff : ℝ → ℝ) (livetime : ℝ) (useW acc : Bool)

/-- **rotation covariance on the generated code**, bin by bin -/
theorem gen_rotation_covariant (d a b : ℝ) :
    let st := AnaTie.genInit raw modf aeff livetime useW acc
    let st' := AnaTie.genInit (raw.map (rot d)) modf aeff livetime useW acc
    let S := Gen.Ana.sum_stokes_parameters st (Gen.Ana.energy_mask st a b)
    Gen.Ana.sum_stokes_parameters st' (Gen.Ana.energy_mask st' a b) =
        (S.1, S.2.1 * cos (2 * d) - S.2.2 * sin (2 * d), S.2.1 * sin (2 * d) + S.2.2 * cos (2 * d)) ∧
      Gen.Ana.w2 st' (Gen.Ana.energy_mask st' a b) = Gen.Ana.w2 st (Gen.Ana.energy_mask st a b) ∧
      Gen.Ana.effective_mu st' (Gen.Ana.energy_mask st' a b) = Gen.Ana.effective_mu st (Gen.Ana.energy_mask st a b) ∧
      Gen.Ana.average_energy st' (Gen.Ana.energy_mask st' a b) = Gen.Ana.average_energy st (Gen.Ana.energy_mask st a b) ∧
      Vec.countR (α := ℝ) (Gen.Ana.energy_mask st' a b) = Vec.countR (α := ℝ) (Gen.Ana.energy_mask st a b) := by
  dsimp only
  have h := C02.gen_init_eq_model raw modf aeff livetime useW acc
  have h' := C02.gen_init_eq_model (raw.map (rot d)) modf aeff livetime useW acc
  rw [prep_rot] at h'
  simp only [AnaTie.gen_energy_mask_eq h', AnaTie.gen_sum_stokes_eq h', AnaTie.gen_w2_eq h', AnaTie.gen_effective_mu_eq h', AnaTie.gen_average_energy_eq h',
    AnaTie.gen_energy_mask_eq h, AnaTie.gen_w2_eq h, AnaTie.gen_effective_mu_eq h, AnaTie.gen_average_energy_eq h, AnaTie.countR_map, AnaTie.gen_sum_stokes_eq h]
  -- the bin predicate reads the energy only
  have hf : ∀ (l : List (Prep ℝ)) (g : Prep ℝ → Prep ℝ), (∀ p, (g p).e = p.e) → (l.map g).filter (inBin a b) = (l.filter (inBin a b)).map g := by
    intro l g hg
    rw [List.filter_map]
    congr 1
    apply List.filter_congr
    intro p _
    simp [inBin, hg p]
  rw [hf _ (fun p => { p with q := p.q * cos (2 * d) - p.u * sin (2 * d), u := p.q * sin (2 * d) + p.u * cos (2 * d) }) (fun p => rfl)]
  simp only [sums, List.map_map, Function.comp_def, List.length_map, lsum_eq_sum]
  have e1 := sum_lin ((prep useW acc (raw.map (AnaTie.mkEv modf aeff))).filter (inBin a b)) (·.q) (·.u) (cos (2 * d)) (-sin (2 * d))
  have e2 := sum_lin ((prep useW acc (raw.map (AnaTie.mkEv modf aeff))).filter (inBin a b)) (·.q) (·.u) (sin (2 * d)) (cos (2 * d))
  simp only [mul_neg, ← sub_eq_add_neg] at e1
  simp only [e1, e2, and_self, and_true]

/-- … hence the columns of the generated `polarization_table` row that do not involve the direction — E_MEAN, COUNTS, MU, W2, N_EFF, FRAC_W, MDP_99,
I, I_ERR — and PD, PD_ERR, PA_ERR, which see (Q, U) only through Q² + U², are the same for the rotated events -/
theorem gen_row_rotation_invariant (d a b sig : ℝ) (name : String)
    (hn : name ∈ ["E_MEAN", "COUNTS", "MU", "W2", "N_EFF", "FRAC_W", "MDP_99", "I", "I_ERR", "PD", "PD_ERR", "PA_ERR"]) :
    (List.zip Gen.Ana.table_columns (Gen.Ana.table_row (AnaTie.genInit (raw.map (rot d)) modf aeff livetime useW acc) a b true sig)).lookup name =
      (List.zip Gen.Ana.table_columns (Gen.Ana.table_row (AnaTie.genInit raw modf aeff livetime useW acc) a b true sig)).lookup name := by
  have h := C02.gen_init_eq_model raw modf aeff livetime useW acc
  have h' := C02.gen_init_eq_model (raw.map (rot d)) modf aeff livetime useW acc
  obtain ⟨hS, hW, hM, hE, hC⟩ := gen_rotation_covariant raw modf aeff livetime useW acc d a b
  simp only [AnaTie.gen_energy_mask_eq h, AnaTie.gen_energy_mask_eq h', AnaTie.gen_sum_stokes_eq h, AnaTie.gen_sum_stokes_eq h', AnaTie.gen_w2_eq h,
    AnaTie.gen_w2_eq h', AnaTie.gen_effective_mu_eq h, AnaTie.gen_effective_mu_eq h', AnaTie.gen_average_energy_eq h, AnaTie.gen_average_energy_eq h',
    AnaTie.countR_map, Prod.mk.injEq] at hS hW hM hE hC
  obtain ⟨hI, hQ, hU⟩ := hS
  rw [C02.gen_table_row_eq_model h', C02.gen_table_row_eq_model h]
  dsimp only [binSums]
  have hcnt : (sums ((prep useW acc ((raw.map (rot d)).map (AnaTie.mkEv modf aeff))).filter (inBin a b))).counts =
      (sums ((prep useW acc (raw.map (AnaTie.mkEv modf aeff))).filter (inBin a b))).counts := by
    have : ((sums ((prep useW acc ((raw.map (rot d)).map (AnaTie.mkEv modf aeff))).filter (inBin a b))).counts : ℝ) =
        (sums ((prep useW acc (raw.map (AnaTie.mkEv modf aeff))).filter (inBin a b))).counts := hC
    exact_mod_cast this
  have hnorm : (sums ((prep useW acc ((raw.map (rot d)).map (AnaTie.mkEv modf aeff))).filter (inBin a b))).Q *
        (sums ((prep useW acc ((raw.map (rot d)).map (AnaTie.mkEv modf aeff))).filter (inBin a b))).Q +
      (sums ((prep useW acc ((raw.map (rot d)).map (AnaTie.mkEv modf aeff))).filter (inBin a b))).U *
        (sums ((prep useW acc ((raw.map (rot d)).map (AnaTie.mkEv modf aeff))).filter (inBin a b))).U =
      (sums ((prep useW acc (raw.map (AnaTie.mkEv modf aeff))).filter (inBin a b))).Q * (sums ((prep useW acc (raw.map (AnaTie.mkEv modf aeff))).filter (inBin a b))).Q +
      (sums ((prep useW acc (raw.map (AnaTie.mkEv modf aeff))).filter (inBin a b))).U * (sums ((prep useW acc (raw.map (AnaTie.mkEv modf aeff))).filter (inBin a b))).U := by
    rw [hQ, hU]
    have := Real.cos_sq_add_sin_sq (2 * d)
    nlinarith [this]
  obtain ⟨p1, p2, p3⟩ := C06.pol_depends_on_norm (sums ((prep useW acc (raw.map (AnaTie.mkEv modf aeff))).filter (inBin a b))).I _ _ _ _
    ((sums ((prep useW acc (raw.map (AnaTie.mkEv modf aeff))).filter (inBin a b))).muW / (sums ((prep useW acc (raw.map (AnaTie.mkEv modf aeff))).filter (inBin a b))).I)
    (sums ((prep useW acc (raw.map (AnaTie.mkEv modf aeff))).filter (inBin a b))).W2 true hnorm
  rw [hM, hE, hW, hI, hcnt]
  simp only [List.mem_cons, List.mem_nil_iff, or_false] at hn
  simp only [List.map_map] at p1 p2 p3
  rcases hn with rfl | rfl | rfl | rfl | rfl | rfl | rfl | rfl | rfl | rfl | rfl | rfl <;>
    simp [List.lookup, stokesErrors, p1, p2, p3]

end C06Gen
end
