import IxpeVerif.RealInst
import IxpeVerif.Model.Additivity
import IxpeVerif.Lemmas.Basic
import IxpeVerif.Gen.Formulas
/-!
# C07 — binned products are additive: summing files equals binning merged events

About `Add.*` at ℝ (tied to the real `xBinned*` classes by `harness/props/C07.py`).
-/
open Real
noncomputable section
namespace C07
open Add

theorem wAvg2_real (v1 w1 v2 w2 : ℝ) : wAvg2 v1 w1 v2 w2 =
    if 0 < w1 ∧ 0 < w2 then (v1 * w1 + v2 * w2) / (w1 + w2) else if 0 < w1 then v1 else if 0 < w2 then v2 else 0 := by
  simp only [wAvg2]; rl_simp
  have e : (0.0:ℝ) = 0 := by norm_num
  simp only [e]

/-- In all four branches the intensity-weighted moment is additive: MU'·I' = MU₁·I₁ + MU₂·I₂ (non-negative intensities) -/
theorem moment_additive (v1 w1 v2 w2 : ℝ) (h1 : 0 ≤ w1) (h2 : 0 ≤ w2) :
    wAvg2 v1 w1 v2 w2 * (w1 + w2) = v1 * w1 + v2 * w2 := by
  rw [wAvg2_real]
  split_ifs with a b c
  · have : w1 + w2 ≠ 0 := by linarith [a.1, a.2]
    field_simp
  · have : w2 = 0 := by
      by_contra hne; exact a ⟨b, lt_of_le_of_ne h2 (Ne.symm hne)⟩
    subst this; ring
  · have : w1 = 0 := le_antisymm (not_lt.mp b) h1
    subst this; ring
  · have e1 : w1 = 0 := le_antisymm (not_lt.mp b) h1
    have e2 : w2 = 0 := le_antisymm (not_lt.mp c) h2
    subst e1; subst e2; ring

/-- the weighted average does not depend on which file comes first -/
theorem wAvg2_comm (v1 w1 v2 w2 : ℝ) : wAvg2 v1 w1 v2 w2 = wAvg2 v2 w2 v1 w1 := by
  rw [wAvg2_real, wAvg2_real]
  by_cases a : 0 < w1 <;> by_cases b : 0 < w2 <;> simp [a, b, add_comm]

theorem iadd_comm (a b : Bin ℝ) : iadd a b = iadd b a := by
  simp only [iadd]
  rw [wAvg2_comm a.MU a.I b.MU b.I, wAvg2_comm a.EMEAN a.I b.EMEAN b.I]
  simp only [Nat.add_comm a.counts, add_comm a.I, add_comm a.Q, add_comm a.U, add_comm a.W2]

/-- additive columns and moments of a running sum over any list of files (non-negative intensities):
COUNTS, I, Q, U, W2 are the plain sums, and MU·I, E_MEAN·I the sums of the per-file moments -/
theorem fold_sums (bs : List (Bin ℝ)) (b0 : Bin ℝ) (h0 : 0 ≤ b0.I) (hb : ∀ b ∈ bs, 0 ≤ b.I) :
    let r := bs.foldl iadd b0
    r.I = b0.I + (bs.map (·.I)).sum ∧ r.Q = b0.Q + (bs.map (·.Q)).sum ∧ r.U = b0.U + (bs.map (·.U)).sum ∧
    r.W2 = b0.W2 + (bs.map (·.W2)).sum ∧ r.counts = b0.counts + (bs.map (·.counts)).sum ∧
    r.MU * r.I = b0.MU * b0.I + (bs.map fun b => b.MU * b.I).sum ∧
    r.EMEAN * r.I = b0.EMEAN * b0.I + (bs.map fun b => b.EMEAN * b.I).sum := by
  induction bs generalizing b0 with
  | nil => simp
  | cons b rest ih =>
    have hbI : 0 ≤ b.I := hb b List.mem_cons_self
    have hI : 0 ≤ (iadd b0 b).I := by simp only [iadd]; linarith
    have := ih (iadd b0 b) hI (fun x hx => hb x (List.mem_cons_of_mem _ hx))
    simp only [List.foldl_cons, List.map_cons, List.sum_cons] at this ⊢
    obtain ⟨h1, h2, h3, h4, h5, h6, h7⟩ := this
    refine ⟨?_, ?_, ?_, ?_, ?_, ?_, ?_⟩
    · rw [h1]; simp only [iadd]; ring
    · rw [h2]; simp only [iadd]; ring
    · rw [h3]; simp only [iadd]; ring
    · rw [h4]; simp only [iadd]; ring
    · rw [h5]; simp only [iadd]; omega
    · rw [h6]; simp only [iadd]; rw [moment_additive _ _ _ _ h0 hbI]; ring
    · rw [h7]; simp only [iadd]; rw [moment_additive _ _ _ _ h0 hbI]; ring

/-- Order and grouping of the files are irrelevant for every additive column and moment, hence (total I > 0) for MU and
E_MEAN themselves and for every derived column, which are functions of (COUNTS, I, Q, U, W2, MU) only. -/
theorem sum_perm_invariant (b0 c0 : Bin ℝ) (bs cs : List (Bin ℝ)) (hp : (b0 :: bs).Perm (c0 :: cs))
    (hb : ∀ b ∈ b0 :: bs, 0 ≤ b.I) (hpos : 0 < (bs.foldl iadd b0).I) :
    let r := bs.foldl iadd b0
    let s := cs.foldl iadd c0
    r.I = s.I ∧ r.Q = s.Q ∧ r.U = s.U ∧ r.W2 = s.W2 ∧ r.counts = s.counts ∧ r.MU = s.MU ∧ r.EMEAN = s.EMEAN := by
  have hc : ∀ b ∈ c0 :: cs, 0 ≤ b.I := fun b hb' => hb b (hp.mem_iff.mpr hb')
  have R := fold_sums bs b0 (hb b0 List.mem_cons_self) (fun b h => hb b (List.mem_cons_of_mem _ h))
  have S := fold_sums cs c0 (hc c0 List.mem_cons_self) (fun b h => hc b (List.mem_cons_of_mem _ h))
  simp only at R S ⊢
  have sI := (hp.map (·.I)).sum_eq
  have sQ := (hp.map (·.Q)).sum_eq
  have sU := (hp.map (·.U)).sum_eq
  have sW := (hp.map (·.W2)).sum_eq
  have sC := (hp.map (·.counts)).sum_eq
  have sM := (hp.map fun b => b.MU * b.I).sum_eq
  have sE := (hp.map fun b => b.EMEAN * b.I).sum_eq
  simp only [List.map_cons, List.sum_cons] at sI sQ sU sW sC sM sE
  have eI : (bs.foldl iadd b0).I = (cs.foldl iadd c0).I := by rw [R.1, S.1]; exact sI
  refine ⟨eI, by rw [R.2.1, S.2.1]; exact sQ, by rw [R.2.2.1, S.2.2.1]; exact sU, by rw [R.2.2.2.1, S.2.2.2.1]; exact sW,
    by rw [R.2.2.2.2.1, S.2.2.2.2.1]; exact sC, ?_, ?_⟩
  · have h := R.2.2.2.2.2.1
    have h' := S.2.2.2.2.2.1
    rw [← eI] at h'
    have : (bs.foldl iadd b0).MU * (bs.foldl iadd b0).I = (cs.foldl iadd c0).MU * (bs.foldl iadd b0).I := by rw [h, h']; exact sM
    exact mul_right_cancel₀ (ne_of_gt hpos) this
  · have h := R.2.2.2.2.2.2
    have h' := S.2.2.2.2.2.2
    rw [← eI] at h'
    have : (bs.foldl iadd b0).EMEAN * (bs.foldl iadd b0).I = (cs.foldl iadd c0).EMEAN * (bs.foldl iadd b0).I := by rw [h, h']; exact sE
    exact mul_right_cancel₀ (ne_of_gt hpos) this

/-! ### summing two parts = binning the merged events -/

theorem sum_w_pos : ∀ (ps : List (Kislat.Prep ℝ)), (∀ p ∈ ps, 0 < p.w) → ps ≠ [] → 0 < (ps.map (·.w)).sum
  | [], _, h => absurd rfl h
  | [e], hw, _ => by simpa using hw e (by simp)
  | e :: e' :: rest, hw, _ => by
    have := sum_w_pos (e' :: rest) (fun x hx => hw x (List.mem_cons_of_mem _ hx)) (by simp)
    have h0 := hw e (by simp)
    simp only [List.map_cons, List.sum_cons] at this ⊢
    linarith

theorem binOf_real (ps : List (Kislat.Prep ℝ)) : binOf ps =
    { counts := ps.length, I := (ps.map (·.w)).sum, Q := (ps.map (·.q)).sum, U := (ps.map (·.u)).sum,
      W2 := (ps.map fun p => p.w * p.w).sum, MU := (ps.map fun p => p.mu * p.w).sum / (ps.map (·.w)).sum,
      EMEAN := (ps.map fun p => p.e * p.w).sum / (ps.map (·.w)).sum } := by
  simp only [binOf, Kislat.sums, lsum_eq_sum]

/-- both parts hold events: every stored additive column and both averages of the sum equal those of the merged events -/
theorem bin_append (e1 e2 : List (Kislat.Prep ℝ)) (h1 : ∀ e ∈ e1, 0 < e.w) (h2 : ∀ e ∈ e2, 0 < e.w)
    (n1 : e1 ≠ []) (n2 : e2 ≠ []) : binOf (e1 ++ e2) = iadd (binOf e1) (binOf e2) := by
  have p1 := sum_w_pos e1 h1 n1
  have p2 := sum_w_pos e2 h2 n2
  rw [binOf_real, binOf_real, binOf_real]
  simp only [iadd, wAvg2_real, List.map_append, List.sum_append, List.length_append, if_pos (And.intro p1 p2)]
  congr 1
  · field_simp
  · field_simp

/-- a part that is empty in the bin leaves the other part unchanged (branches `mask1 ∧ ¬mask2`, `¬mask1 ∧ mask2`) -/
theorem iadd_empty_right (e1 : List (Kislat.Prep ℝ)) (h1 : ∀ e ∈ e1, 0 < e.w) (n1 : e1 ≠ []) (junkMu junkE : ℝ) :
    iadd (binOf e1) { counts := 0, I := 0, Q := 0, U := 0, W2 := 0, MU := junkMu, EMEAN := junkE } = binOf e1 := by
  have p1 := sum_w_pos e1 h1 n1
  rw [binOf_real]
  simp [iadd, wAvg2_real, p1]

/-! ### light curves, count spectra, pulse profiles -/

/-- the summed light curve has exactly the sum of the rates (positive exposures) -/
theorem lc_rate_additive (a b : LC ℝ) (h1 : 0 < a.exposure) (h2 : 0 < b.exposure) :
    (lcIadd a b).counts / (lcIadd a b).exposure = a.counts / a.exposure + b.counts / b.exposure := by
  simp only [lcIadd]; rl_simp
  have e0 : (0.0:ℝ) = 0 := by norm_num
  have e5 : (0.5:ℝ) = 1 / 2 := by norm_num
  have e1 : (1.0:ℝ) = 1 := by norm_num
  simp only [e0, e5, e1]
  have n1 : ¬ (a.exposure ≤ 0 ∧ 0 ≤ a.exposure) := by intro h; linarith [h.1]
  have n2 : ¬ (b.exposure ≤ 0 ∧ 0 ≤ b.exposure) := by intro h; linarith [h.1]
  simp only [n1, n2, if_false]
  have : a.exposure + b.exposure ≠ 0 := by positivity
  field_simp; ring

/-- a bin with zero exposure in one file contributes nothing: the rate of the other file survives -/
theorem lc_zero_exposure (a b : LC ℝ) (h1 : 0 < a.exposure) (h2 : b.exposure = 0) :
    (lcIadd a b).counts / (lcIadd a b).exposure = a.counts / a.exposure := by
  simp only [lcIadd]; rl_simp
  have e0 : (0.0:ℝ) = 0 := by norm_num
  have e5 : (0.5:ℝ) = 1 / 2 := by norm_num
  have e1 : (1.0:ℝ) = 1 := by norm_num
  simp only [e0, e5, e1, h2]
  have n1 : ¬ (a.exposure ≤ 0 ∧ 0 ≤ a.exposure) := by intro h; linarith [h.1]
  simp only [n1, if_false, le_refl, and_self, if_true]
  field_simp
  ring

/-- quadrature error sums are order and grouping independent -/
theorem quad_comm (a b : ℝ) : quad a b = quad b a := by
  simp only [quad]; rl_simp; rw [add_comm]

theorem quad_assoc (a b c : ℝ) : quad (quad a b) c = quad a (quad b c) := by
  simp only [quad]; rl_simp
  rw [Real.mul_self_sqrt (add_nonneg (mul_self_nonneg a) (mul_self_nonneg b)), Real.mul_self_sqrt (add_nonneg (mul_self_nonneg b) (mul_self_nonneg c))]
  ring_nf

/-- non-vacuity: two single-event parts -/
example : (∀ e ∈ [(⟨3, 1, 0.5, 0.2, 0.3⟩ : Kislat.Prep ℝ)], 0 < e.w) ∧ [(⟨3, 1, 0.5, 0.2, 0.3⟩ : Kislat.Prep ℝ)] ≠ [] := by
  constructor
  · intro e he; simp at he; subst he; norm_num
  · simp

/-! ### T-tie: `xBinnedFileBase._weighted_average`, regenerated from `binning/base.py` on every run, is `wAvg2`

(the three explicit branches of the masked-array code, read per bin; the weight of the second file is tested for positivity *before*
it is inverted for a subtraction) -/
theorem gen_weighted_average_eq_model (v1 w1 v2 w2 : ℝ) : Gen.weighted_average v1 w1 v2 w2 false = wAvg2 v1 w1 v2 w2 := by
  unfold Gen.weighted_average wAvg2
  rl_simp
  by_cases h1 : (0.0 : ℝ) < w1 <;> by_cases h2 : (0.0 : ℝ) < w2 <;> simp [h1, h2]

/-- an empty bin on either side never contaminates the average: whatever value the empty side carries (NaN in the real files) is not read -/
theorem gen_weighted_average_ignores_empty (v1 w1 v2 x : ℝ) (h1 : 0 < w1) :
    Gen.weighted_average v1 w1 v2 0 false = v1 ∧ Gen.weighted_average v1 w1 x 0 false = v1 ∧ Gen.weighted_average v2 0 v1 w1 false = v1 := by
  simp only [gen_weighted_average_eq_model, wAvg2_real]
  refine ⟨?_, ?_, ?_⟩ <;> simp [h1]

/-- T-tie: `xBinnedLightCurve.__iadd__` (a method that updates COUNTS, EXPOSURE, ERROR of `self`), regenerated on every run, is `lcIadd` -/
theorem gen_lc_iadd_eq_model (a b : LC ℝ) :
    Gen.lc_iadd b.exposure a.exposure a.counts b.counts a.error b.error =
      ((lcIadd a b).counts, (lcIadd a b).exposure, (lcIadd a b).error) := by
  unfold Gen.lc_iadd lcIadd
  rl_simp

/-- T-tie: `xBinnedPolarizationCube.__iadd__`, regenerated on every run, is `iadd` (the averages are taken with the weights *before* the
intensities are summed; COUNTS is a real number on the Python side) -/
theorem gen_pcube_iadd_eq_model (a b : Bin ℝ) :
    Gen.pcube_iadd a.EMEAN a.I b.EMEAN b.I a.MU b.MU (a.counts : ℝ) (b.counts : ℝ) a.W2 b.W2 a.Q b.Q a.U b.U =
      ((iadd a b).EMEAN, (iadd a b).MU, (((iadd a b).counts : ℕ) : ℝ), (iadd a b).W2, (iadd a b).I, (iadd a b).Q, (iadd a b).U) := by
  unfold Gen.pcube_iadd iadd
  simp only [gen_weighted_average_eq_model]
  rl_simp
  push_cast
  rfl

/-- T-tie: `xBinnedPulseProfile.__iadd__`: counts add, errors add in quadrature -/
theorem gen_pp_iadd_eq_model (c1 c2 e1 e2 : ℝ) : Gen.pp_iadd c1 c2 e1 e2 = (c1 + c2, quad e1 e2) := by
  unfold Gen.pp_iadd quad
  rl_simp

/-- T-tie: `xBinnedCountSpectrum.__iadd__`: rates add, statistical errors add in quadrature -/
theorem gen_pha1_iadd_eq_model (r1 r2 e1 e2 : ℝ) : Gen.pha1_iadd r1 r2 e1 e2 = (r1 + r2, quad e1 e2) := by
  unfold Gen.pha1_iadd quad
  rl_simp

/-- the sum of pulse profiles / count spectra does not depend on the order or the grouping of the files -/
theorem gen_pp_iadd_comm (c1 c2 e1 e2 : ℝ) : Gen.pp_iadd c1 c2 e1 e2 = Gen.pp_iadd c2 c1 e2 e1 := by
  rw [gen_pp_iadd_eq_model, gen_pp_iadd_eq_model, quad_comm, add_comm]

theorem gen_pp_iadd_assoc (c1 c2 c3 e1 e2 e3 : ℝ) :
    Gen.pp_iadd (Gen.pp_iadd c1 c2 e1 e2).1 c3 (Gen.pp_iadd c1 c2 e1 e2).2 e3 =
      Gen.pp_iadd c1 (Gen.pp_iadd c2 c3 e2 e3).1 e1 (Gen.pp_iadd c2 c3 e2 e3).2 := by
  simp only [gen_pp_iadd_eq_model, quad_assoc, add_assoc]

/-- T-tie: `xBinnedMDPMapCube.__iadd__`, one pixel of one layer: the five accumulated quantities are those of the cube sum `iadd`, and the three
derived ones are recomputed from the *summed* quantities with the per-bin functions (`mdp99`, `nEff`, N_EFF / COUNTS where I > 0) -/
theorem gen_mdpcube_iadd_eq_model (a b : Bin ℝ) (x y z : ℝ) :
    Gen.mdpcube_iadd a.EMEAN a.I b.EMEAN b.I (a.counts : ℝ) (b.counts : ℝ) a.MU b.MU a.W2 b.W2 x y z =
      (let s := iadd a b
       (s.EMEAN, ((s.counts : ℕ) : ℝ), s.MU, s.W2, s.I, Kislat.mdp99 s.MU s.I s.W2, Kislat.nEff s.I s.W2,
        if (0.0 : ℝ) < s.I then Kislat.nEff s.I s.W2 / ((s.counts : ℕ) : ℝ) else 0.0)) := by
  unfold Gen.mdpcube_iadd iadd
  simp only [gen_weighted_average_eq_model]
  unfold Gen.calculate_n_eff Gen.calculate_mdp99 Kislat.nEff Kislat.mdp99
  rl_simp
  push_cast
  by_cases h : (0.0 : ℝ) < a.I + b.I <;> by_cases h2 : (0.0 : ℝ) < wAvg2 a.MU a.I b.MU b.I <;> simp [h, h2]

end C07
end
