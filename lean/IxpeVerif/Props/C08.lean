import IxpeVerif.Model.Hist
import Mathlib.Algebra.BigOperators.Group.List.Basic
import Mathlib.Tactic.Ring
/-!
# C08 — binning conserves events and is consistent under bin refinement
-/
namespace Hist

def StrictSorted : List Int → Prop
  | [] => True
  | [_] => True
  | a :: b :: rest => a < b ∧ StrictSorted (b :: rest)

/-- the i-th bin as a predicate -/
def inBin (edges : List Int) (i : Nat) (x : Int) : Prop :=
  match edges[i]?, edges[i+1]? with
  | some lo, some hi => lo ≤ x ∧ (x < hi ∨ (edges[i+2]? = none ∧ x = hi))
  | _, _ => False

theorem binIndexGo_sound : ∀ (lo : Int) (rest : List Int) (x : Int) (i k : Nat),
    StrictSorted (lo :: rest) → binIndexGo lo rest x i = some k →
    i ≤ k ∧ inBin (lo :: rest) (k - i) x
  | lo, [], x, i, k, _, h => by simp [binIndexGo] at h
  | lo, [hi], x, i, k, _, h => by
    simp only [binIndexGo] at h
    split at h
    · rename_i hx; cases h
      refine ⟨Nat.le_refl _, ?_⟩
      simp [inBin]; omega
    · cases h
  | lo, hi :: hi' :: rest, x, i, k, hs, h => by
    simp only [binIndexGo] at h
    split at h
    · cases h
    · split at h
      · rename_i h1 h2; cases h
        refine ⟨Nat.le_refl _, ?_⟩
        simp [inBin]; omega
      · rename_i h1 h2
        have ih := binIndexGo_sound hi (hi' :: rest) x (i+1) k hs.2 h
        refine ⟨by omega, ?_⟩
        have hk : k - i = (k - (i+1)) + 1 := by omega
        rw [hk]
        have := ih.2
        simp only [inBin, List.getElem?_cons_succ] at this ⊢
        exact this

/-- total on the covered range: every x in [e0, e_last] gets a bin -/
theorem binIndexGo_total : ∀ (lo : Int) (rest : List Int) (x : Int) (i : Nat) (last : Int),
    rest ≠ [] → (lo :: rest).getLast? = some last → lo ≤ x → x ≤ last →
    (binIndexGo lo rest x i).isSome
  | lo, [], _, _, _, h, _, _, _ => absurd rfl h
  | lo, [hi], x, i, last, _, hl, h0, h1 => by
    simp at hl; subst hl
    simp [binIndexGo, h0, h1]
  | lo, hi :: hi' :: rest, x, i, last, _, hl, h0, h1 => by
    simp only [binIndexGo]
    split
    · omega
    · split
      · simp
      · rename_i h2 h3
        exact binIndexGo_total hi (hi' :: rest) x (i+1) last (by simp) (by simpa [List.getLast?_cons_cons] using hl) (by omega) h1

/-- (emin, emax] masks of adjacent bins partition the merged bin (PCUBE energy mask) -/
theorem mask_adjacent_partition (a b c x : Int) (hab : a ≤ b) (hbc : b ≤ c) :
    (a < x ∧ x ≤ c) ↔ ((a < x ∧ x ≤ b) ∨ (b < x ∧ x ≤ c)) := by omega


/-- [a,b) ∪ [b,c) = [a,c): merging adjacent numpy bins adds their contents -/
theorem halfopen_adjacent_partition (a b c x : Int) (hab : a ≤ b) (hbc : b ≤ c) :
    (a ≤ x ∧ x < c) ↔ ((a ≤ x ∧ x < b) ∨ (b ≤ x ∧ x < c)) := by omega

/-- … and the two are disjoint: an event is never counted twice -/
theorem adjacent_disjoint (a b c x : Int) : ¬ ((a ≤ x ∧ x < b) ∧ (b ≤ x ∧ x < c)) ∧ ¬ ((a < x ∧ x ≤ b) ∧ (b < x ∧ x ≤ c)) := by omega

/-! ### every event inside the binned domain is counted exactly once -/

theorem binIndex_lt (edges : List Int) (x : Int) (k : Nat) (hs : StrictSorted edges) (h : binIndex edges x = some k) :
    k < edges.length - 1 := by
  cases edges with
  | nil => simp [binIndex] at h
  | cons e0 rest =>
    have := binIndexGo_sound e0 rest x 0 k hs h
    have hin := this.2
    simp only [inBin, Nat.sub_zero] at hin
    cases h1 : (e0 :: rest)[k + 1]? with
    | none => simp [h1] at hin
    | some v =>
      have := (List.getElem?_eq_some_iff.mp h1).1
      simp at this ⊢; omega

theorem indicator_sum (n k : Nat) :
    ((List.range n).map fun i => if k = i then 1 else 0).sum = if k < n then 1 else 0 := by
  induction n with
  | zero => simp
  | succ n ih =>
    rw [List.range_succ, List.map_append, List.sum_append, ih]
    by_cases h1 : k < n
    · have : k ≠ n := by omega
      simp [h1, this]; omega
    · by_cases h2 : k = n
      · subst h2; simp
      · have : ¬ k < n + 1 := by omega
        simp [h1, h2, this]

/-- Σ of the per-bin counts = number of values inside [first edge, last edge]: nothing lost, nothing counted twice -/
theorem hist_total (edges : List Int) (xs : List Int) (hs : StrictSorted edges) :
    (hist edges xs).sum = (xs.filter fun x => (binIndex edges x).isSome).length := by
  unfold hist
  induction xs with
  | nil => simp
  | cons x xs ih =>
    simp only [List.filter_cons]
    have hsplit : ((List.range (edges.length - 1)).map fun i =>
        (if (binIndex edges x == some i) = true then x :: xs.filter (fun x => binIndex edges x == some i)
          else xs.filter (fun x => binIndex edges x == some i)).length) =
        (List.range (edges.length - 1)).map fun i =>
          (if binIndex edges x = some i then 1 else 0) + (xs.filter fun x => binIndex edges x == some i).length := by
      apply List.map_congr_left
      intro i _
      by_cases h : binIndex edges x = some i
      · simp [h]; omega
      · simp [h]
    rw [hsplit, List.sum_map_add, ih]
    cases hb : binIndex edges x with
    | none => simp
    | some k =>
      have hk := binIndex_lt edges x k hs hb
      have := indicator_sum (edges.length - 1) k
      simp only [hk, if_true] at this
      simp only [Option.isSome_some, if_true, List.length_cons, Option.some.injEq]
      rw [this]; omega

/-! ### PHA1: a valid channel lands in its own bin, an invalid one in none -/

theorem chanEdges_ne_nil (c0 : Int) (n : Nat) : ∃ e es, chanEdges c0 n = e :: es := by
  cases n with
  | zero => exact ⟨_, _, rfl⟩
  | succ n => exact ⟨_, _, rfl⟩

theorem chanEdges_bin (n : Nat) (c0 pi : Int) (i : Nat) (h0 : c0 ≤ pi) (h1 : pi < c0 + (n + 1)) :
    binIndexGo (2 * c0 - 1) (chanEdges (c0 + 1) n) (2 * pi) i = some (i + (pi - c0).toNat) := by
  induction n generalizing c0 i with
  | zero =>
    have : pi = c0 := by omega
    subst this
    have a1 : 2 * pi - 1 ≤ 2 * pi ∧ 2 * pi ≤ 2 * (pi + 1) - 1 := by omega
    simp [chanEdges, binIndexGo, a1]
  | succ n ih =>
    obtain ⟨e, es, hes⟩ := chanEdges_ne_nil (c0 + 1 + 1) n
    have hunf : chanEdges (c0 + 1) (n + 1) = (2 * (c0 + 1) - 1) :: e :: es := by
      show (2 * (c0 + 1) - 1) :: chanEdges (c0 + 1 + 1) n = _
      rw [hes]
    rw [hunf]
    simp only [binIndexGo]
    by_cases h : pi = c0
    · subst h
      have a1 : ¬ (2 * pi < 2 * pi - 1) := by omega
      have a2 : 2 * pi < 2 * (pi + 1) - 1 := by omega
      simp [a1, a2]
    · have a1 : ¬ (2 * pi < 2 * c0 - 1) := by omega
      have a2 : ¬ (2 * pi < 2 * (c0 + 1) - 1) := by omega
      simp only [a1, a2, if_false]
      have := ih (c0 + 1) (i + 1) (by omega) (by omega)
      rw [hes] at this
      rw [this]
      congr 1; omega

/-- channel `pi ∈ [0, n]` is counted in bin `pi` of the `linspace(0, n+1, n+2) − 0.5` binning (doubled: 2·pi vs odd edges) -/
theorem pha_valid_channel (n : Nat) (pi : Int) (h0 : 0 ≤ pi) (h1 : pi < n + 1) :
    binIndex (chanEdges 0 (n + 1)) (2 * pi) = some pi.toNat := by
  have := chanEdges_bin n 0 pi 0 h0 (by omega)
  show binIndexGo (2 * 0 - 1) (chanEdges (0 + 1) n) (2 * pi) 0 = _
  simpa using this

/-- an invalid (negative) channel is not counted -/
theorem pha_negative_channel (n : Nat) (pi : Int) (h : pi < 0) : binIndex (chanEdges 0 (n + 1)) (2 * pi) = none := by
  show binIndexGo (2 * 0 - 1) (chanEdges (0 + 1) n) (2 * pi) 0 = none
  obtain ⟨e, es, hes⟩ := chanEdges_ne_nil (0 + 1) n
  rw [hes]
  cases es with
  | nil =>
    simp only [binIndexGo]
    split
    · omega
    · rfl
  | cons e' es' =>
    simp only [binIndexGo]
    split
    · rfl
    · omega

example : binIndex (chanEdges 0 3) (2 * 2) = some 2 ∧ binIndex (chanEdges 0 3) (2 * 3) = none ∧ (hist [0, 10, 20, 30] [-1, 0, 5, 10, 29, 30, 31]) = [2, 1, 2] := by
  decide

end Hist
