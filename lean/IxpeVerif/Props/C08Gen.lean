import IxpeVerif.Props.C02
/-!
# C08 on the generated event-list layer: refinement of the energy binning

"Cube COUNTS / I / Q / U / W2 summed over adjacent energy bins equal those of the merged bin", stated about the definitions regenerated from
`xStokesAnalysis._energy_mask`, `_sum_stokes_parameters`, `W2` and `numpy.count_nonzero(mask)` (`Gen/AnaGen.lean`), on any analysis object the
generated constructor can build.
-/
open Real
noncomputable section
namespace C08Gen
open Kislat

/-- a sum over a merged bin is the sum over its two parts, for any per-event quantity -/
theorem lsum_filter_adjacent (ps : List (Prep ℝ)) (f : Prep ℝ → ℝ) (a b c : ℝ) (hab : a ≤ b) (hbc : b ≤ c) :
    lsum ((ps.filter (inBin a c)).map f) = lsum ((ps.filter (inBin a b)).map f) + lsum ((ps.filter (inBin b c)).map f) := by
  simp only [lsum_eq_sum]
  induction ps with
  | nil => simp
  | cons p ps ih =>
    obtain ⟨h1, h2⟩ := C02.adjacent_bins_partition a b c hab hbc p
    simp only [List.filter_cons, h1]
    cases hx : inBin a b p <;> cases hy : inBin b c p
    · simpa using ih
    · simp [ih]; ring
    · simp [ih]; ring
    · exact absurd ⟨hx, hy⟩ h2

theorem length_filter_adjacent (ps : List (Prep ℝ)) (a b c : ℝ) (hab : a ≤ b) (hbc : b ≤ c) :
    (ps.filter (inBin a c)).length = (ps.filter (inBin a b)).length + (ps.filter (inBin b c)).length := by
  induction ps with
  | nil => simp
  | cons p ps ih =>
    obtain ⟨h1, h2⟩ := C02.adjacent_bins_partition a b c hab hbc p
    simp only [List.filter_cons, h1]
    cases hx : inBin a b p <;> cases hy : inBin b c p
    · simpa using ih
    · simp [ih]; omega
    · simp [ih]; omega
    · exact absurd ⟨hx, hy⟩ h2

variable {st : Gen.Ana.State ℝ} {ps : List (Prep ℝ)}

/-- **refinement on the generated code**: I, Q, U, W2 and COUNTS of the bin (a, c] are the sums of those of (a, b] and (b, c] -/
theorem gen_adjacent_bins_additive (h : AnaTie.Cols st ps) (a b c : ℝ) (hab : a ≤ b) (hbc : b ≤ c) :
    Gen.Ana.sum_stokes_parameters st (Gen.Ana.energy_mask st a c) =
        ((Gen.Ana.sum_stokes_parameters st (Gen.Ana.energy_mask st a b)).1 + (Gen.Ana.sum_stokes_parameters st (Gen.Ana.energy_mask st b c)).1,
         (Gen.Ana.sum_stokes_parameters st (Gen.Ana.energy_mask st a b)).2.1 + (Gen.Ana.sum_stokes_parameters st (Gen.Ana.energy_mask st b c)).2.1,
         (Gen.Ana.sum_stokes_parameters st (Gen.Ana.energy_mask st a b)).2.2 + (Gen.Ana.sum_stokes_parameters st (Gen.Ana.energy_mask st b c)).2.2) ∧
      Gen.Ana.w2 st (Gen.Ana.energy_mask st a c) = Gen.Ana.w2 st (Gen.Ana.energy_mask st a b) + Gen.Ana.w2 st (Gen.Ana.energy_mask st b c) ∧
      Vec.countR (α := ℝ) (Gen.Ana.energy_mask st a c) =
        Vec.countR (α := ℝ) (Gen.Ana.energy_mask st a b) + Vec.countR (α := ℝ) (Gen.Ana.energy_mask st b c) := by
  simp only [AnaTie.gen_energy_mask_eq h, AnaTie.gen_sum_stokes_eq h, AnaTie.gen_w2_eq h, AnaTie.countR_map, sums]
  refine ⟨?_, ?_, ?_⟩
  · rw [lsum_filter_adjacent ps _ a b c hab hbc, lsum_filter_adjacent ps (·.q) a b c hab hbc, lsum_filter_adjacent ps (·.u) a b c hab hbc]
  · exact lsum_filter_adjacent ps _ a b c hab hbc
  · rw [length_filter_adjacent ps a b c hab hbc]; push_cast; rfl

/-- … in particular on the object the generated constructor builds from the columns of any event list -/
theorem gen_adjacent_bins_additive_init (raw : List (ℝ × ℝ × ℝ × ℝ)) (modf aeff : ℝ → ℝ) (livetime : ℝ) (useW acc : Bool) (a b c : ℝ) (hab : a ≤ b) (hbc : b ≤ c) :
    let st := AnaTie.genInit raw modf aeff livetime useW acc
    Gen.Ana.w2 st (Gen.Ana.energy_mask st a c) = Gen.Ana.w2 st (Gen.Ana.energy_mask st a b) + Gen.Ana.w2 st (Gen.Ana.energy_mask st b c) :=
  (gen_adjacent_bins_additive (C02.gen_init_eq_model raw modf aeff livetime useW acc) a b c hab hbc).2.1

/-- an event with energy exactly on the common edge `b` belongs to the lower bin (and to it alone) -/
theorem gen_edge_event_lower (a b c : ℝ) (hab : a < b) (p : Prep ℝ) (he : p.e = b) :
    inBin a b p = true ∧ inBin b c p = false := by
  unfold inBin
  rl_simp
  simp [he, hab]

end C08Gen
end
