import IxpeVerif.Model.Select
import IxpeVerif.Gen.Masks
import IxpeVerif.Gen.SelectGen
/-!
# C09 — xpselect keeps exactly the rows that satisfy the requested predicate (core Lean only)
-/
namespace Sel

/-- the output holds exactly the input rows satisfying the predicate -/
theorem select_iff_predicate (c : Cfg) (rows : List Row) (r : Row) :
    r ∈ select c rows ↔ r ∈ rows ∧ mask c r = true := by
  simp [select, List.mem_filter]

/-- … in the original order, rows untouched (EVENTS and MONTE_CARLO are filtered identically because a row carries both) -/
theorem select_sublist (c : Cfg) (rows : List Row) : (select c rows).Sublist rows := List.filter_sublist

/-- the documented bounds: closed lower and open upper bounds in time -/
theorem time_bounds (c : Cfg) (r : Row) (a b : Int) (h1 : c.tmin = some a) (h2 : c.tmax = some b) (h3 : c.tinvert = false) :
    timeMask c r = true ↔ a ≤ r.time ∧ r.time < b := by
  simp [timeMask, geOpt, ltOpt, h1, h2, h3]

theorem phase_bounds (c : Cfg) (r : Row) (a b : Int) (h1 : c.pmin = some a) (h2 : c.pmax = some b) (h3 : c.pinvert = false) :
    phaseMask c r = true ↔ a ≤ r.phase ∧ r.phase < b := by
  simp [phaseMask, geOpt, ltOpt, h1, h2, h3]

theorem energy_bounds (c : Cfg) (r : Row) (a b : Int) (h1 : c.emin = some a) (h2 : c.emax = some b) (h3 : c.einvert = false)
    (h4 : c.mc = false) : energyMask c r = true ↔ a ≤ r.energy ∧ r.energy < b := by
  simp [energyMask, geOpt, ltOpt, h1, h2, h3, h4]

/-- closed radii -/
theorem cone_bounds (c : Cfg) (r : Row) (a b : Int) (h1 : c.innerrad = some a) (h2 : c.rad = some b) (h4 : c.mc = false) :
    coneMask c r = true ↔ a ≤ r.sep ∧ r.sep ≤ b := by
  simp [coneMask, geOpt, leOpt, h1, h2, h4]; omega

/-! ### a selection and its inverse partition the input -/

theorem time_invert_partition (c : Cfg) (r : Row) (ht : timeSelected c = true) :
    mask { c with tinvert := !c.tinvert } r = (!firstMask c r && energyMask c r && coneMask c r && regMask c r && srcMask c r) := by
  simp only [mask, firstMask, timeSelected] at *
  simp only [ht, if_true, timeMask, energyMask, coneMask, regMask, srcMask]
  cases c.tinvert <;> simp

theorem phase_invert_partition (c : Cfg) (r : Row) (ht : timeSelected c = false) (hp : phaseSelected c = true) :
    mask { c with pinvert := !c.pinvert } r = (!firstMask c r && energyMask c r && coneMask c r && regMask c r && srcMask c r) := by
  simp only [mask, firstMask, timeSelected, phaseSelected] at *
  simp only [ht, hp, if_true, phaseMask, energyMask, coneMask, regMask, srcMask]
  cases c.pinvert <;> simp

theorem energy_invert_partition (c : Cfg) (r : Row) :
    mask { c with einvert := !c.einvert } r = (firstMask c r && !energyMask c r && coneMask c r && regMask c r && srcMask c r) := by
  simp only [mask, firstMask, timeSelected, phaseSelected, timeMask, phaseMask, energyMask, coneMask, regMask, srcMask]
  cases c.einvert <;> simp

/-- generic consequence: two masks that differ by the negation of one factor select disjoint row sets whose union is what
the remaining factors select, in particular the row counts add up -/
theorem partition_length (p q : Row → Bool) (rows : List Row) :
    (rows.filter fun r => p r && q r).length + (rows.filter fun r => !p r && q r).length = (rows.filter q).length := by
  induction rows with
  | nil => rfl
  | cons r rs ih =>
    simp only [List.filter_cons]
    cases hp : p r <;> cases hq : q r <;> simp [ih] <;> omega

/-! ### adjacent intervals partition their union -/

theorem adjacent_time_partition (c : Cfg) (r : Row) (a b d : Int) (hab : a ≤ b) (hbd : b ≤ d) (hi : c.tinvert = false) :
    (timeMask { c with tmin := some a, tmax := some d } r =
      (timeMask { c with tmin := some a, tmax := some b } r || timeMask { c with tmin := some b, tmax := some d } r)) ∧
    ¬ (timeMask { c with tmin := some a, tmax := some b } r = true ∧ timeMask { c with tmin := some b, tmax := some d } r = true) := by
  simp only [timeMask, geOpt, ltOpt, hi, Bool.xor_false]
  constructor
  · by_cases h1 : a ≤ r.time <;> by_cases h2 : r.time < b <;> by_cases h3 : b ≤ r.time <;> by_cases h4 : r.time < d <;>
      simp [h1, h2, h3, h4] <;> omega
  · simp; omega

theorem adjacent_energy_partition (c : Cfg) (r : Row) (a b d : Int) (hab : a ≤ b) (hbd : b ≤ d) (hi : c.einvert = false) :
    (energyMask { c with emin := some a, emax := some d } r =
      (energyMask { c with emin := some a, emax := some b } r || energyMask { c with emin := some b, emax := some d } r)) ∧
    ¬ (energyMask { c with emin := some a, emax := some b } r = true ∧ energyMask { c with emin := some b, emax := some d } r = true) := by
  simp only [energyMask, geOpt, ltOpt, hi, Bool.xor_false]
  generalize (if c.mc then r.mcEnergy else r.energy) = e
  constructor
  · by_cases h1 : a ≤ e <;> by_cases h2 : e < b <;> by_cases h3 : b ≤ e <;> by_cases h4 : e < d <;>
      simp [h1, h2, h3, h4] <;> omega
  · simp; omega

/-! ### chaining selections equals their conjunction -/

theorem chain_eq_conj (c₁ c₂ : Cfg) (rows : List Row) :
    select c₂ (select c₁ rows) = rows.filter fun r => mask c₁ r && mask c₂ r := by
  simp only [select, List.filter_filter]
  apply List.filter_congr
  intro r _; exact Bool.and_comm _ _

theorem chain_comm (c₁ c₂ : Cfg) (rows : List Row) : select c₂ (select c₁ rows) = select c₁ (select c₂ rows) := by
  rw [chain_eq_conj, chain_eq_conj]
  apply List.filter_congr
  intro r _; exact Bool.and_comm _ _

/-- several source ids are *and*-ed by the code: two different ids select nothing (recorded observation, not a defect:
the documentation does not define the list case) -/
theorem two_srcids_select_nothing (c : Cfg) (r : Row) (a b : Int) (hab : a ≠ b) (h : c.srcids = [a, b]) : srcMask c r = false := by
  simp only [srcMask, h, List.all_cons, List.all_nil, Bool.and_true]
  by_cases h1 : a = r.src
  · subst h1; simp; exact fun h => hab h.symm
  · simp [h1]

/-! ### direct selection with a boolean array (`--mask`) -/

/-- with `--mask` and no time or phase bound the first stage is the entry of the array: a row is kept iff its entry is set and it passes every
other requested criterion; in particular the array alone selects exactly the rows whose entry is set -/
theorem direct_mask_spec (c : Cfg) (r : Row) (ht : timeSelected c = false) (hp : phaseSelected c = false) (hm : c.useMask = true) :
    mask c r = (r.inMask && energyMask c r && coneMask c r && regMask c r && srcMask c r) := by
  simp [mask, firstMask, ht, hp, hm]

theorem direct_mask_alone (rows : List Row) :
    select { useMask := true } rows = rows.filter (·.inMask) := by
  unfold select
  congr 1
  funext r
  simp [mask, firstMask, timeSelected, phaseSelected, energyMask, coneMask, regMask, srcMask, geOpt, ltOpt, leOpt]

/-- a time (or phase) selection takes precedence: the array is then not read at all -/
theorem direct_mask_ignored_with_time (c : Cfg) (r : Row) (ht : timeSelected c = true) :
    mask c r = mask { c with useMask := false } r := by
  have ht' : timeSelected { c with useMask := false } = true := ht
  simp only [mask, firstMask, ht, ht', if_true]
  rfl

/-! ### validation -/

/-- a configuration that passes `_validate` has its time bounds inside [TSTART, TSTOP] and properly ordered -/
theorem validate_time_ok (c : Cfg) (tstart tstop p0 p1 : Int) (h : validate c tstart tstop p0 p1 = none) :
    (∀ a, c.tmin = some a → tstart ≤ a ∧ a ≤ tstop) ∧ (∀ b, c.tmax = some b → tstart ≤ b ∧ b ≤ tstop) ∧
    (∀ a b, c.tmin = some a → c.tmax = some b → a < b) ∧ ¬ (timeSelected c = true ∧ phaseSelected c = true) := by
  unfold validate at h
  split at h; · cases h
  rename_i h0
  split at h; · cases h
  split at h; · cases h
  rename_i h2
  split at h; · cases h
  rename_i h3
  split at h; · cases h
  rename_i h4
  refine ⟨?_, ?_, ?_, ?_⟩
  · intro a ha; simp [outside, ha] at h2; omega
  · intro b hb; simp [outside, hb] at h3; omega
  · intro a b ha hb; simp [notOrdered, ha, hb] at h4; omega
  · simpa using h0

/-! ### T-tie: the mask methods regenerated from `subselect.py` on every run (translator/masks.py) are the model's time and phase masks -/
theorem gen_time_mask_eq_model (c : Cfg) (r : Row) : Gen.time_selection_mask r.time c.tmin c.tmax c.tinvert = timeMask c r := by
  unfold Gen.time_selection_mask timeMask geOpt ltOpt
  cases c.tmin <;> cases c.tmax <;> cases c.tinvert <;> simp

theorem gen_phase_mask_eq_model (c : Cfg) (r : Row) : Gen.phase_selection_mask r.phase c.pmin c.pmax c.pinvert = phaseMask c r := by
  unfold Gen.phase_selection_mask phaseMask geOpt ltOpt
  cases c.pmin <;> cases c.pmax <;> cases c.pinvert <;> simp

/-! ### T-tie of `select()`: the mask the method assembles stage by stage, regenerated from the source and read for one row (`Gen/SelectGen.lean`,
translator/selecttrans.py), is the model's `mask` -/

/-- **the generated `select()` keeps a row iff the model's mask holds**, for every configuration and every row: first stage (time, else phase,
else the boolean array, else everything), energy window on the measured or Monte Carlo energy with its inversion, closed cone / annulus radii,
region with its inversion, every listed source identifier -/
theorem energy_stage (emin emax : Option Int) (einvert : Bool) (e : Int) :
    Gen.invIf einvert (Gen.optAnd emax (fun b => decide (e < b)) (Gen.optAnd emin (fun b => decide (b ≤ e)) true)) =
      xor (geOpt emin e && ltOpt emax e) einvert := by
  cases emin <;> cases emax <;> cases einvert <;> simp [Gen.invIf, Gen.optAnd, geOpt, ltOpt]

theorem cone_stage (rad innerrad : Option Int) (x : Int) (m : Bool) :
    (if (rad.isSome || innerrad.isSome) = true then Gen.optAnd innerrad (fun b => decide (b ≤ x)) (Gen.optAnd rad (fun b => decide (x ≤ b)) m) else m) =
      (m && (leOpt rad x && geOpt innerrad x)) := by
  cases rad <;> cases innerrad <;> simp [Gen.optAnd, leOpt, geOpt, Bool.and_assoc]

theorem reg_stage (useReg reginvert x m : Bool) :
    (if useReg = true then (m && Gen.invIf reginvert x) else m) = (m && (if useReg = true then xor x reginvert else true)) := by
  cases useReg <;> cases reginvert <;> cases x <;> simp [Gen.invIf]

theorem gen_select_row_eq_model (c : Cfg) (r : Row) :
    Gen.select_row r.time r.phase r.energy r.mcEnergy r.sep r.mcSep r.inReg r.mcInReg r.inMask r.src c.tmin c.tmax c.tinvert c.pmin c.pmax c.pinvert
      c.emin c.emax c.einvert c.mc c.rad c.innerrad c.useReg c.reginvert c.srcids c.useMask = mask c r := by
  simp only [Gen.select_row, gen_time_mask_eq_model, gen_phase_mask_eq_model, energy_stage, cone_stage, reg_stage]
  simp only [mask, firstMask, timeSelected, phaseSelected, energyMask, coneMask, regMask, srcMask, Bool.and_assoc]
  rfl

/-- **xpselect keeps exactly the rows that satisfy the predicate, on the current source** -/
theorem gen_select_iff (c : Cfg) (rows : List Row) (r : Row) :
    r ∈ rows.filter (fun r => Gen.select_row r.time r.phase r.energy r.mcEnergy r.sep r.mcSep r.inReg r.mcInReg r.inMask r.src c.tmin c.tmax c.tinvert c.pmin c.pmax c.pinvert
      c.emin c.emax c.einvert c.mc c.rad c.innerrad c.useReg c.reginvert c.srcids c.useMask) ↔ r ∈ select c rows := by
  simp only [select, List.mem_filter, gen_select_row_eq_model]

/-- non-vacuity: a two-sided window on a concrete file passes validation and keeps the boundary row at tmin, drops the one at tmax -/
example : validate { tmin := some 2, tmax := some 5 } 0 10 0 100 = none ∧
    (select { tmin := some 2, tmax := some 5 } [⟨2,0,0,0,0,0,false,false,0,1,true⟩, ⟨5,0,0,0,0,0,false,false,0,2,true⟩]).map (·.tag) = [1] := by
  decide

end Sel
