import IxpeVerif.RealInst
import IxpeVerif.Model.SelectKw
import IxpeVerif.Gen.ImpR
/-!
# C10 — xpselect propagates time keywords as documented

About `SelKw.keywords` at ℝ, the model of `_time_header_keywords` tied to the code by `harness/props/C10.py`
(five keywords × three headers compared on real `xEventSelect.select()` runs).  The validation hypotheses are exactly what
`_validate` enforces (theorem `Sel.validate_time_ok`, C09).
-/
noncomputable section
namespace SelKw

/-- A time selection sets TSTART to max(TSTART, tmin) and TSTOP to min(TSTOP, tmax); a missing bound leaves the original
value; ONTIME is their difference.  (`tmin`, `tmax` validated inside [TSTART, TSTOP].) -/
theorem time_kw_spec (k : In ℝ) (ht : timeSelected k = true)
    (hmin : ∀ a, k.tmin = some a → k.tstart ≤ a ∧ a ≤ k.tstop) (hmax : ∀ b, k.tmax = some b → k.tstart ≤ b ∧ b ≤ k.tstop) :
    ∃ o, keywords k = some o ∧
      o.tstart = some (match k.tmin with | some a => max k.tstart a | none => k.tstart) ∧
      o.tstop = some (match k.tmax with | some b => min k.tstop b | none => k.tstop) ∧
      o.ontime = (match k.tmax with | some b => min k.tstop b | none => k.tstop)
               - (match k.tmin with | some a => max k.tstart a | none => k.tstart) := by
  unfold keywords
  simp only [ht, if_true]
  refine ⟨_, rfl, ?_, ?_, ?_⟩
  · cases h : k.tmin with
    | none => simp
    | some a => simp [max_eq_right (hmin a h).1]
  · cases h : k.tmax with
    | none => simp
    | some b => simp [min_eq_right (hmax b h).2]
  · rl_simp
    cases h : k.tmin with
    | none =>
      cases h' : k.tmax with
      | none => simp
      | some b => simp [min_eq_right (hmax b h').2]
    | some a =>
      cases h' : k.tmax with
      | none => simp [max_eq_right (hmin a h).1]
      | some b => simp [max_eq_right (hmin a h).1, min_eq_right (hmax b h').2]

/-- A phase selection leaves TSTART/TSTOP alone and scales ONTIME by the selected phase fraction (missing bounds 0 and 1). -/
theorem phase_kw_spec (k : In ℝ) (ht : timeSelected k = false) (hp : phaseSelected k = true) :
    ∃ o, keywords k = some o ∧ o.tstart = none ∧ o.tstop = none ∧
      o.ontime = k.ontime * ((match k.pmax with | some b => b | none => 1) - (match k.pmin with | some a => a | none => 0)) := by
  unfold keywords
  simp only [ht, hp, if_true, Bool.false_eq_true, if_false]
  refine ⟨_, rfl, rfl, rfl, ?_⟩
  rl_simp
  cases k.pmin <;> cases k.pmax <;> simp <;> norm_num

/-- LTSUM: LIVETIME is the sum of the selected events' LIVETIME -/
theorem ltsum_spec (k : In ℝ) (o : Out ℝ) (h : keywords k = some o) (hl : k.ltscale = false) :
    o.livetime = k.ltSumSel ∧ o.deadc = o.livetime / o.ontime := by
  unfold keywords at h
  split at h
  · cases h; simp [hl]
  · split at h
    · cases h; simp [hl]
    · cases h

/-- LTSCALE: LIVETIME is ONTIME minus the average dead time per event ((ONTIME₀ − LIVETIME₀)/N₀) times the selected count -/
theorem ltscale_spec (k : In ℝ) (o : Out ℝ) (h : keywords k = some o) (hl : k.ltscale = true) :
    o.livetime = o.ontime - (k.ontime - k.livetime) / k.nTotal * k.nSel ∧ o.deadc = o.livetime / o.ontime := by
  unfold keywords at h
  split at h
  · cases h; simp [hl, avgDeadtime]
  · split at h
    · cases h; simp [hl, avgDeadtime]
    · cases h

/-- whenever some livetime is left and the window is non-degenerate, 0 < DEADC; and DEADC ≤ 1 as long as the livetime does
not exceed the new ONTIME -/
theorem deadc_range (k : In ℝ) (o : Out ℝ) (h : keywords k = some o) (hon : 0 < o.ontime) (hl : 0 < o.livetime)
    (hle : o.livetime ≤ o.ontime) : 0 < o.deadc ∧ o.deadc ≤ 1 := by
  have hd : o.deadc = o.livetime / o.ontime := by
    cases hb : k.ltscale
    · exact (ltsum_spec k o h hb).2
    · exact (ltscale_spec k o h hb).2
  rw [hd]
  exact ⟨div_pos hl hon, (div_le_one hon).mpr hle⟩

/-- non-vacuity: a one-sided window -/
def exampleIn : In ℝ :=
  { tstart := 0, tstop := 100, ontime := 80, livetime := 70, nTotal := 10, nSel := 4, ltSumSel := 30
    tmin := some 20, tmax := none, pmin := none, pmax := none, ltscale := true }

example : timeSelected exampleIn = true ∧ (∀ a, exampleIn.tmin = some a → exampleIn.tstart ≤ a ∧ a ≤ exampleIn.tstop) := by
  simp [timeSelected, exampleIn]; norm_num

/-! ### T-tie: `_time_header_keywords`, `time_selected`, `phase_selected` (evt/subselect.py) and `average_deadtime_per_event` (evt/event.py)
regenerated from the source (`Gen/ImpR.lean`, translator/realimp.py) are the model -/

/-- the model's output as the insertion-ordered dictionary the code builds -/
def toDict (o : Out ℝ) : List (String × ℝ) :=
  (match o.tstart, o.tstop with
    | some a, some b => [("TSTART", a), ("TSTOP", b)]
    | _, _ => []) ++ [("ONTIME", o.ontime), ("LIVETIME", o.livetime), ("DEADC", o.deadc)]

def algName (ltscale : Bool) : String := if ltscale then "LTSCALE" else "LTSUM"

theorem gen_time_selected_eq_model (k : In ℝ) : Gen.ImpR.time_selected k.tmin k.tmax = timeSelected k := rfl
theorem gen_phase_selected_eq_model (k : In ℝ) : Gen.ImpR.phase_selected k.pmin k.pmax = phaseSelected k := rfl
theorem gen_average_deadtime_eq_model (k : In ℝ) : Gen.ImpR.average_deadtime_per_event k.ontime k.livetime k.nTotal = avgDeadtime k := rfl

/-- **the generated `_time_header_keywords` is the model**, for both livetime algorithms and every combination of present / missing bounds:
the dictionary built by the source (TSTART, TSTOP, ONTIME for a time selection; ONTIME for a phase selection; then LIVETIME, DEADC) holds the
model's values under the same keys, and the code fails (a name never bound) exactly where the model returns `none` -/
theorem gen_time_header_keywords_eq_model (k : In ℝ) :
    Gen.ImpR.time_header_keywords k.tmin k.tmax k.pmin k.pmax (algName k.ltscale) k.tstart k.tstop k.ontime
      (Gen.ImpR.average_deadtime_per_event k.ontime k.livetime k.nTotal) k.nSel k.ltSumSel = (keywords k).map toDict := by
  obtain ⟨tstart, tstop, ontime, livetime, nTotal, nSel, ltSumSel, tmin, tmax, pmin, pmax, ltscale⟩ := k
  have hne : ("LTSCALE" == "LTSUM") = false := by decide
  cases tmin <;> cases tmax <;> cases pmin <;> cases pmax <;> cases ltscale <;>
    simp [Gen.ImpR.time_header_keywords, Gen.ImpR.time_selected, Gen.ImpR.phase_selected, Gen.ImpR.average_deadtime_per_event, keywords,
      timeSelected, phaseSelected, avgDeadtime, toDict, algName, Np.dset, hne]

/-- the documented keywords, on the current source (time selection): the dictionary written to the three headers -/
theorem gen_time_kw_spec (k : In ℝ) (ht : timeSelected k = true)
    (hmin : ∀ a, k.tmin = some a → k.tstart ≤ a ∧ a ≤ k.tstop) (hmax : ∀ b, k.tmax = some b → k.tstart ≤ b ∧ b ≤ k.tstop) :
    ∃ o, Gen.ImpR.time_header_keywords k.tmin k.tmax k.pmin k.pmax (algName k.ltscale) k.tstart k.tstop k.ontime
        (Gen.ImpR.average_deadtime_per_event k.ontime k.livetime k.nTotal) k.nSel k.ltSumSel = some (toDict o) ∧
      o.tstart = some (match k.tmin with | some a => max k.tstart a | none => k.tstart) ∧
      o.tstop = some (match k.tmax with | some b => min k.tstop b | none => k.tstop) ∧
      o.ontime = (match k.tmax with | some b => min k.tstop b | none => k.tstop)
               - (match k.tmin with | some a => max k.tstart a | none => k.tstart) ∧
      o.deadc = o.livetime / o.ontime := by
  obtain ⟨o, ho, h1, h2, h3⟩ := time_kw_spec k ht hmin hmax
  refine ⟨o, by rw [gen_time_header_keywords_eq_model, ho]; rfl, h1, h2, h3, ?_⟩
  cases hb : k.ltscale
  · exact (ltsum_spec k o ho hb).2
  · exact (ltscale_spec k o ho hb).2

end SelKw
end
