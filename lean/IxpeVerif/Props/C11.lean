import IxpeVerif.Model.Determinism
import IxpeVerif.Gen.RngSites
import IxpeVerif.Model.Cache
/-!
# C11 — a seed determines the output, independent of process history (core Lean only)

`deterministic`: a program that starts by seeding the global generator and contains neither unseeded sources (`fresh`) nor
in-place mutation of cached objects (`mutate`) produces an output that does not depend on the initial world — the PRNG
state left by earlier activity, the entropy pool, the contents of the (valid) response cache.
`sites_ok`: on the **generated** table of random-number call sites in the import closure of every seeded application, every
site is a module-level `numpy.random` function (global stream) — no unseeded generator, no stdlib `random`, no unknown API.
PRNG quality (different seeds ⇒ different streams) and OS-level nondeterminism are outside the model (partial).
-/
namespace Det

def CacheOk {P : Prng} (files : Files) (w : World P) : Prop := ∀ k v, w.cache k = some v → v = files k

def Pure (p : List Eff) : Prop := ∀ e ∈ p, e ≠ Eff.fresh ∧ ∀ k, e ≠ Eff.mutate k

theorem step_cacheOk {P : Prng} (files : Files) (w : World P) (e : Eff) (hm : ∀ k, e ≠ Eff.mutate k) (h : CacheOk files w) :
    CacheOk files (step files w e).2 := by
  cases e with
  | seed s => exact h
  | draw => exact h
  | fresh => exact h
  | load k =>
    simp only [step]
    split
    · exact h
    · intro j v hv
      simp only at hv
      split at hv
      · rename_i hj; cases hv; rw [hj]
      · exact h j v hv
  | mutate k => exact absurd rfl (hm k)

/-- after the leading `seed`, two worlds with the same rng state and valid caches agree -/
theorem run_agree {P : Prng} (files : Files) : ∀ (p : List Eff) (w1 w2 : World P),
    Pure p → w1.rng = w2.rng → CacheOk files w1 → CacheOk files w2 → run files w1 p = run files w2 p
  | [], _, _, _, _, _, _ => rfl
  | e :: es, w1, w2, hnf, hr, h1, h2 => by
    have hes : Pure es := fun x hx => hnf x (List.mem_cons_of_mem _ hx)
    have he := hnf e (List.mem_cons_self)
    have ih := run_agree files es (step files w1 e).2 (step files w2 e).2 hes
    simp only [run]
    cases e with
    | seed s => rw [ih rfl h1 h2]; rfl
    | draw =>
      have hr' : (step files w1 .draw).2.rng = (step files w2 .draw).2.rng := by simp only [step, hr]
      have hv : (step files w1 .draw).1 = (step files w2 .draw).1 := by simp only [step, hr]
      rw [hv, ih hr' h1 h2]
    | fresh => exact absurd rfl he.1
    | mutate k => exact absurd rfl (he.2 k)
    | load k =>
      have c1 := step_cacheOk files w1 (.load k) (by intro j; simp) h1
      have c2 := step_cacheOk files w2 (.load k) (by intro j; simp) h2
      have hv : (step files w1 (.load k)).1 = (step files w2 (.load k)).1 := by
        simp only [step]
        cases hc1 : w1.cache k <;> cases hc2 : w2.cache k <;> simp
        · exact (h2 k _ hc2).symm
        · exact h1 k _ hc1
        · rw [h1 k _ hc1, h2 k _ hc2]
      have hrng : (step files w1 (.load k)).2.rng = (step files w2 (.load k)).2.rng := by
        simp only [step]; cases w1.cache k <;> cases w2.cache k <;> simpa using hr
      rw [hv, ih hrng c1 c2]

/-- **C11**: a seeded program without unseeded sources and without in-place mutation of cached objects has an output that is
independent of the process history -/
theorem deterministic {P : Prng} (files : Files) (s : Nat) (p : List Eff) (w1 w2 : World P)
    (hp : Pure p) (h1 : CacheOk files w1) (h2 : CacheOk files w2) :
    run files w1 (.seed s :: p) = run files w2 (.seed s :: p) := by
  simp only [run, step]
  congr 1
  exact run_agree files p _ _ hp rfl h1 h2

/-- the hypotheses are needed: an unseeded draw makes the output depend on the entropy pool -/
theorem fresh_breaks_determinism : ∃ (P : Prng) (files : Files) (w1 w2 : World P),
    CacheOk files w1 ∧ CacheOk files w2 ∧ run files w1 [.seed 7, .fresh] ≠ run files w2 [.seed 7, .fresh] := by
  refine ⟨⟨Nat, id, fun s => (s, s + 1)⟩, fun _ => 0, ⟨0, fun _ => 1, 0, fun _ => none⟩, ⟨0, fun _ => 2, 0, fun _ => none⟩, ?_, ?_, ?_⟩
  · intro k v h; simp at h
  · intro k v h; simp at h
  · simp [run, step]

/-! ### the generated site tables -/

def siteOk (s : String × Nat × String × Nat) : Bool := s.2.2.2 == 0

/-- every seeded application seeds the global generator (behind a None-test at most), and every random-number call site in
its import closure draws from the global, seeded stream -/
theorem sites_ok : (Gen.seededApps.all fun a => a.2.1.all siteOk && a.2.2.1 && a.2.2.2) = true := by decide

/-- the three detector units of one run draw from different streams: the per-DU seed is injective in the DU -/
theorem du_streams_distinct_xpobssim (seed d1 d2 : Nat) (h1 : 1 ≤ d1) (h2 : 1 ≤ d2) (h : Gen.duSeed_xpobssim seed d1 = Gen.duSeed_xpobssim seed d2) :
    d1 = d2 := by simp only [Gen.duSeed_xpobssim] at h; omega

theorem du_streams_distinct_xpcalib (seed d1 d2 : Nat) (h1 : 1 ≤ d1) (h2 : 1 ≤ d2) (h : Gen.duSeed_xpcalib seed d1 = Gen.duSeed_xpcalib seed d2) :
    d1 = d2 := by simp only [Gen.duSeed_xpcalib] at h; omega

theorem du_streams_distinct_xpphotonlist (seed d1 d2 : Nat) (h1 : 1 ≤ d1) (h2 : 1 ≤ d2) (h : Gen.duSeed_xpphotonlist seed d1 = Gen.duSeed_xpphotonlist seed d2) :
    d1 = d2 := by simp only [Gen.duSeed_xpphotonlist] at h; omega

theorem du_seed_translated : (Gen.duSeedTranslated_xpobssim && Gen.duSeedTranslated_xpcalib && Gen.duSeedTranslated_xpphotonlist) = true := by decide

end Det

/-! ## Caches and carried state

The effect model above treats the response cache as valid (`CacheOk`).  This part says *when* a cache is valid, and audits every
place of the package where a value survives from one call to the next (`Gen.cacheSites`, regenerated by `translator/cachesites.py`:
`lru_cache`-style decorators, lookup-or-compute on a container that outlives the call — with the text of the key —, options written
inside a loop over items, module-level containers mutated at run time). -/

namespace Cache
variable {A B K : Type} [DecidableEq K]

theorem honest_after (f : A → B) (key : A → K) : ∀ hist, Honest f key (after f key hist)
  | [] => by intro e he; cases he
  | a :: hist => by
    have ih := honest_after f key hist
    simp only [after, call]
    cases h : lookup (after f key hist) (key a) with
    | some b => simpa using ih
    | none =>
      intro e he
      simp only [List.mem_cons] at he
      rcases he with rfl | he
      · exact ⟨a, rfl⟩
      · exact ih e he

theorem lookup_honest {f : A → B} {key : A → K} {tbl : List (K × B)} (h : Honest f key tbl) {k : K} {b : B}
    (hl : lookup tbl k = some b) : ∃ x, key x = k ∧ f x = b := by
  unfold lookup at hl
  cases hf : tbl.find? (fun e => e.1 = k) with
  | none => simp [hf] at hl
  | some e =>
    simp only [hf, Option.map_some, Option.some.injEq] at hl
    have hmem := List.mem_of_find?_eq_some hf
    have hk := List.find?_some hf
    obtain ⟨x, rfl⟩ := h e hmem
    exact ⟨x, by simpa using hk, hl⟩

/-- **a cache is invisible when the key determines the result**: after any history of calls, a call returns `f a` -/
theorem memo_transparent (f : A → B) (key : A → K) (hkey : ∀ a b, key a = key b → f a = f b) (hist : List A) (a : A) :
    (call f key (after f key hist) a).1 = f a := by
  unfold call
  cases h : lookup (after f key hist) (key a) with
  | none => rfl
  | some b =>
    obtain ⟨x, hx, hb⟩ := lookup_honest (honest_after f key hist) h
    simp only
    rw [← hb]
    exact hkey x a hx

/-- **and only then**: if two arguments share a key but not the result, the history "call with the first" makes the call with the second
return the wrong (stale) value -/
theorem memo_stale (f : A → B) (key : A → K) (a b : A) (hk : key a = key b) (hf : f a ≠ f b) :
    (call f key (after f key [a]) b).1 ≠ f b := by
  simp only [after, call, lookup, List.find?_nil, Option.map_none, List.find?_cons, hk, decide_true, Option.map_some]
  exact hf

theorem transparent_iff (f : A → B) (key : A → K) :
    (∀ hist a, (call f key (after f key hist) a).1 = f a) ↔ (∀ a b, key a = key b → f a = f b) := by
  constructor
  · intro h a b hk
    exact Classical.byContradiction fun hf => memo_stale f key a b hk hf (h [a] b)
  · intro h hist a; exact memo_transparent f key h hist a

/-- a cache keyed by what the computation actually reads (the resolved file path, for the response loaders) is invisible -/
theorem keyed_by_input_transparent {P : Type} [DecidableEq P] (path : A → P) (load : P → B) (hist : List A) (a : A) :
    (call (load ∘ path) path (after (load ∘ path) path hist) a).1 = load (path a) :=
  memo_transparent _ _ (fun _ _ h => congrArg load h) hist a

end Cache
