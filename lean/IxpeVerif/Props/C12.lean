import IxpeVerif.Model.IrfName
import IxpeVerif.Gen.Caldb
import IxpeVerif.Gen.IrfNameGen
import IxpeVerif.Gen.Loaders
/-!
# C12 — every shipped response file is reachable, and a loader never returns another flavour (core Lean only)

Finite statements about the hand-written model `IrfName.fileName` (tied to `irf_file_name` by an *exhaustive* comparison over
all configurations, `harness/props/C12.py`) and the **generated** CALDB listing `Gen.caldbListing`, `Gen.irfNames` and
constants, discharged in the kernel by `decide +kernel` (strings are lists of character codes; the generated witness tables
`Gen.orphanWitness`, `Gen.plainWitness` are untrusted hints that the kernel checks).
The numerical relations between the loaded tables (mrf = arf × modf, row sums, …) are facts about data files: decided by
exhaustive enumeration on the implementation, not by a theorem (partial).
-/
set_option maxRecDepth 100000
namespace C12
open IrfName

def consts : Consts := ⟨Gen.validWeightNames, Gen.supportedSimpleTypes, Gen.supportedGrayTypes⟩

/-- the six kinds of response the public loaders serve: arf, mrf, modf, rmf, vign, psf -/
def loaderTypes : List (List Nat) := [sArf, sMrf, sModf, sRmf, [118, 105, 103, 110], [112, 115, 102]]

def folderOf (typ : List Nat) : Option (List Nat) := (Gen.caldbFolders.find? fun p => p.1 == typ).map (·.2)

structure Cfg where
  base : List Nat
  intent : List Nat
  version : Nat
  du : Nat
  typ : List Nat
  simple : Bool
  gray : Bool
  deriving DecidableEq

/-- the configuration space: IRF name × DU × type × simple_weighting × gray_filter -/
def allCfgs : List Cfg :=
  Gen.irfNames.flatMap fun n => [1, 2, 3].flatMap fun du => loaderTypes.flatMap fun t =>
    [false, true].flatMap fun s => [false, true].map fun g => ⟨n.1, n.2.1, n.2.2, du, t, s, g⟩

/-- (folder, file) composed for a configuration, if the composition is accepted -/
def path (c : Cfg) : Option (List Nat × List Nat) :=
  match fileName consts c.base c.du c.typ c.intent c.version c.simple c.gray, folderOf c.typ with
  | .ok f, some d => some (d, f)
  | _, _ => none

def loaderFolders : List (List Nat) := loaderTypes.filterMap folderOf
def loaderFiles : List (List Nat × List Nat) := Gen.caldbListing.filter fun p => loaderFolders.contains p.1

def cfgOf (w : Nat × Nat × Nat × Nat × Nat) : Option Cfg :=
  match Gen.irfNames[w.1]?, loaderTypes[w.2.2.1]? with
  | some n, some t => if w.2.1 = 1 ∨ w.2.1 = 2 ∨ w.2.1 = 3 then some ⟨n.1, n.2.1, n.2.2, w.2.1, t, w.2.2.2.1 != 0, w.2.2.2.2 != 0⟩ else none
  | _, _ => none

def checkOrphans : Bool :=
  Gen.orphanWitness.length == loaderFiles.length &&
  (loaderFiles.zip Gen.orphanWitness).all fun pw => match cfgOf pw.2 with
    | some c => path c == some pw.1
    | none => false

theorem checkOrphans_ok : checkOrphans = true := by decide +kernel

theorem cfgOf_mem (w : Nat × Nat × Nat × Nat × Nat) (c : Cfg) (h : cfgOf w = some c) : c ∈ allCfgs := by
  unfold cfgOf at h
  split at h
  · rename_i n t hn ht
    split at h
    · rename_i hdu
      cases h
      simp only [allCfgs, List.mem_flatMap, List.mem_map]
      refine ⟨n, List.mem_of_getElem? hn, w.2.1, by simpa using hdu, t, List.mem_of_getElem? ht, w.2.2.2.1 != 0, by cases (w.2.2.2.1 != 0) <;> simp,
        w.2.2.2.2 != 0, by cases (w.2.2.2.2 != 0) <;> simp, rfl⟩
    · cases h
  · cases h

theorem zip_all_exists {α β : Type} (f : α × β → Bool) : ∀ (l : List α) (w : List β), w.length = l.length → (l.zip w).all f = true →
    ∀ p ∈ l, ∃ x ∈ w, f (p, x) = true
  | [], _, _, _, p, hp => by simp at hp
  | a :: l, [], h, _, _, _ => by simp at h
  | a :: l, b :: w, h, hall, p, hp => by
    simp only [List.zip_cons_cons, List.all_cons, Bool.and_eq_true] at hall
    rcases List.mem_cons.mp hp with rfl | hp'
    · exact ⟨b, List.mem_cons_self, hall.1⟩
    · obtain ⟨x, hx, hf⟩ := zip_all_exists f l w (by simpa using h) hall.2 p hp'
      exact ⟨x, List.mem_cons_of_mem _ hx, hf⟩

/-- **No orphans**: every file shipped under the six loader folders is the image of some configuration
(IRF name × DU × type × flags) under the name composition. -/
theorem no_orphans : ∀ p ∈ loaderFiles, ∃ c ∈ allCfgs, path c = some p := by
  have h := checkOrphans_ok
  simp only [checkOrphans, Bool.and_eq_true, beq_iff_eq] at h
  intro p hp
  obtain ⟨w, _, hw⟩ := zip_all_exists _ loaderFiles Gen.orphanWitness h.1 h.2 p hp
  simp only at hw
  split at hw
  · rename_i c hc
    exact ⟨c, cfgOf_mem w c hc, by simpa using hw⟩
  · cases hw

/-- **Flavour faithful**: whatever is composed carries the "simple" and "gray" markers exactly when they were requested, and the
folder is that of the requested type — so a loader never returns a file of another flavour than the one requested. -/
theorem flavour_faithful :
    allCfgs.all (fun c => match path c with
      | some p => hasInfix sSimple p.2 == c.simple && hasInfix [103, 114, 97, 121] p.2 == c.gray && (folderOf c.typ == some p.1)
      | none => true) = true := by
  decide +kernel

def allDistinct : List (List Nat × List Nat) → Bool
  | [] => true
  | p :: rest => !rest.contains p && allDistinct rest

theorem allDistinct_nodup : ∀ l : List (List Nat × List Nat), allDistinct l = true → l.Nodup
  | [], _ => List.nodup_nil
  | p :: rest, h => by
    simp only [allDistinct, Bool.and_eq_true, Bool.not_eq_true', List.contains_eq_mem, decide_eq_false_iff_not] at h
    exact List.nodup_cons.mpr ⟨h.1, allDistinct_nodup rest h.2⟩

theorem composed_distinct : allDistinct (allCfgs.filterMap path) = true := by decide +kernel

/-- **Injective**: the accepted compositions are pairwise different — two different configurations never compose the same
path, so a loader cannot hand out the file of another flavour, DU, type, version or validity epoch. -/
theorem config_injective : (allCfgs.filterMap path).Nodup := allDistinct_nodup _ composed_distinct

/-- every IRF name × DU is served for every loader type without flags (the plain sets are complete) -/
def plainCfgs : List Cfg :=
  Gen.irfNames.flatMap fun n => [1, 2, 3].flatMap fun du => loaderTypes.map fun t => ⟨n.1, n.2.1, n.2.2, du, t, false, false⟩

theorem plain_sets_complete :
    (Gen.plainWitness.length == plainCfgs.length && (plainCfgs.zip Gen.plainWitness).all fun ci => path ci.1 == Gen.caldbListing[ci.2]?) = true := by
  decide +kernel

/-- unsupported combinations are refused, whatever the other arguments -/
theorem simple_type_refused (base intent typ : List Nat) (du version : Nat) (gray : Bool)
    (h : consts.simpleTypes.contains typ = false) : fileName consts base du typ intent version true gray = .error .simpleType := by
  simp only [fileName, h]; rfl

theorem gray_type_refused (base intent typ : List Nat) (du version : Nat)
    (h : consts.grayTypes.contains typ = false) : fileName consts base du typ intent version false true = .error .grayType := by
  simp only [fileName, h]; rfl

theorem simple_intent_refused (base intent typ : List Nat) (du version : Nat) (gray : Bool)
    (h1 : consts.simpleTypes.contains typ = true) (h2 : endsWith intent sAlpha = false) :
    fileName consts base du typ intent version true gray = .error .simpleIntent := by
  simp only [fileName, h1, h2]; rfl

/-- the legacy aliases all point at well-formed `base:intent:version` names (two ':' separators) -/
theorem legacy_wellformed : (Gen.legacyNames.all fun p => (p.2.filter (· == 58)).length == 2) = true := by decide +kernel

/-- regression witnesses of the repaired defect: "ixpe_d1_obssim20240101_alpha075simple_gray_v013.arf" and
"ixpe_d2_obssim_gray_alpha075_v012.mrf" are what the repaired composition gives -/
example : (fileName consts [105,120,112,101] 1 sArf ([111,98,115,115,105,109,50,48,50,52,48,49,48,49] ++ sAlpha) 13 true true).toOption.map (hasInfix (sAlpha ++ sSimple ++ sGray))
    = some true := by decide +kernel

/-! ### T-tie: the same statements about the name composition regenerated from the source (`Gen/IrfNameGen.lean`, translator/strtrans.py)

`Gen.Str.irf_file_name` is `irf_file_name` of irf/caldb.py statement by statement (`do`-notation: early `raise` = `throw k`, the loop over
`VALID_WEIGHT_NAMES`, the reassigned `intent` / `irf_type`).  The kernel evaluates it on the whole configuration space and finds the hand-written
model (`gen_eq_model_on_cfgs`); the headline theorems are then theorems about the current source. -/

/-- (folder, file) composed for a configuration by the **generated** name composition -/
def genPath (c : Cfg) : Option (List Nat × List Nat) :=
  match Gen.Str.irf_file_name c.base c.du c.typ c.intent c.version c.simple c.gray, folderOf c.typ with
  | .ok f, some d => some (d, f)
  | _, _ => none

theorem gen_eq_model_on_cfgs : allCfgs.all (fun c => genPath c == path c) = true := by decide +kernel

theorem genPath_eq (c : Cfg) (hc : c ∈ allCfgs) : genPath c = path c := by
  have := List.all_eq_true.mp gen_eq_model_on_cfgs c hc
  simpa using this

theorem filterMap_congr_mem {α β : Type} (f g : α → Option β) : ∀ (l : List α), (∀ a ∈ l, f a = g a) → l.filterMap f = l.filterMap g
  | [], _ => rfl
  | a :: l, h => by
    simp only [List.filterMap_cons, h a List.mem_cons_self, filterMap_congr_mem f g l (fun x hx => h x (List.mem_cons_of_mem _ hx))]

/-- **No orphans, on the current source** -/
theorem gen_no_orphans : ∀ p ∈ loaderFiles, ∃ c ∈ allCfgs, genPath c = some p := by
  intro p hp
  obtain ⟨c, hc, h⟩ := no_orphans p hp
  exact ⟨c, hc, by rw [genPath_eq c hc, h]⟩

/-- **Flavour faithful, on the current source** -/
theorem gen_flavour_faithful : ∀ c ∈ allCfgs, ∀ p, genPath c = some p →
    hasInfix sSimple p.2 = c.simple ∧ hasInfix [103, 114, 97, 121] p.2 = c.gray ∧ folderOf c.typ = some p.1 := by
  intro c hc p hp
  rw [genPath_eq c hc] at hp
  have := List.all_eq_true.mp flavour_faithful c hc
  simp only [hp, Bool.and_eq_true, beq_iff_eq] at this
  exact ⟨this.1.1, this.1.2, this.2⟩

/-- **Injective, on the current source** -/
theorem gen_config_injective : (allCfgs.filterMap genPath).Nodup := by
  rw [filterMap_congr_mem genPath path allCfgs genPath_eq]; exact config_injective

/-- unsupported combinations are refused by the generated code whatever the other arguments (`throw 0`, `throw 2` = the first and third `raise`) -/
theorem gen_simple_type_refused (base intent typ : List Nat) (du version : Nat) (gray : Bool)
    (h : consts.simpleTypes.contains typ = false) : Gen.Str.irf_file_name base du typ intent version true gray = .error 0 := by
  have h' : ¬typ = [97, 114, 102] ∧ ¬typ = [109, 114, 102] := by simpa [consts, Gen.supportedSimpleTypes] using h
  simp only [Gen.Str.irf_file_name]
  simp [h']
  rfl

theorem gen_gray_type_refused (base intent typ : List Nat) (du version : Nat)
    (h : consts.grayTypes.contains typ = false) : Gen.Str.irf_file_name base du typ intent version false true = .error 2 := by
  have h' : ¬typ = [97, 114, 102] ∧ ¬typ = [109, 114, 102] := by simpa [consts, Gen.supportedGrayTypes] using h
  simp only [Gen.Str.irf_file_name]
  simp [h']
  rfl

/-! ### T-tie of the loaders: `irf_file_path`, `_load_irf_base`, `load_arf … load_rmf`, `xIRFSet.__init__`, `load_irf_set` regenerated with every call
resolved against the signature of the callee (`Gen/Loaders.lean`, translator/fwdtrans.py) -/

def sVign : List Nat := [118, 105, 103, 110]
def sPsf : List Nat := [112, 115, 102]

/-- **what `load_irf_set` asks for, on the current source**: the effective area and the modulation response are requested with the weighting and
gray-filter flags of the call, the other four members with neither; all six with the name and the detector unit of the call -/
theorem gen_set_members (base intent : List Nat) (version du : Nat) (simple gray : Bool) :
    let s := Gen.Fwd.load_irf_set base intent version du simple gray
    s.aeff = Gen.Str.irf_file_name base du sArf intent version simple gray ∧
    s.mrf = Gen.Str.irf_file_name base du sMrf intent version simple gray ∧
    s.vign = Gen.Str.irf_file_name base du sVign intent version false false ∧
    s.psf = Gen.Str.irf_file_name base du sPsf intent version false false ∧
    s.modf = Gen.Str.irf_file_name base du sModf intent version false false ∧
    s.edisp = Gen.Str.irf_file_name base du sRmf intent version false false :=
  ⟨rfl, rfl, rfl, rfl, rfl, rfl⟩

/-- the stand-alone loaders ask for the same files as the set -/
theorem gen_loaders_agree_with_set (base intent : List Nat) (version du : Nat) (simple gray : Bool) :
    Gen.Fwd.load_arf base intent version du simple gray = (Gen.Fwd.load_irf_set base intent version du simple gray).aeff ∧
    Gen.Fwd.load_mrf base intent version du simple gray = (Gen.Fwd.load_irf_set base intent version du simple gray).mrf ∧
    Gen.Fwd.load_psf base intent version du = (Gen.Fwd.load_irf_set base intent version du simple gray).psf ∧
    Gen.Fwd.load_vign base intent version du = (Gen.Fwd.load_irf_set base intent version du simple gray).vign :=
  ⟨rfl, rfl, rfl, rfl⟩

/-- **a set never mixes flavours, on the current source**: for every shipped name, detector unit and flags, the effective-area (resp. modulation
response) file of the set, when there is one, carries the SIMPLE weighting and gray-filter marks exactly as requested and lives in the folder of its
type -/
theorem gen_set_flavour_faithful : ∀ c ∈ allCfgs, (c.typ = sArf ∨ c.typ = sMrf) → ∀ f d,
    (if c.typ = sArf then (Gen.Fwd.load_irf_set c.base c.intent c.version c.du c.simple c.gray).aeff
      else (Gen.Fwd.load_irf_set c.base c.intent c.version c.du c.simple c.gray).mrf) = .ok f → folderOf c.typ = some d →
    hasInfix sSimple f = c.simple ∧ hasInfix [103, 114, 97, 121] f = c.gray := by
  intro c hc ht f d hf hd
  have hgen : Gen.Str.irf_file_name c.base c.du c.typ c.intent c.version c.simple c.gray = .ok f := by
    rcases ht with h | h
    · simpa [h, Gen.Fwd.load_irf_set, Gen.Fwd.irf_set, Gen.Fwd.load_arf, Gen.Fwd.load_irf_base, Gen.Fwd.irf_file_path, sArf] using hf
    · have hne : ¬ (c.typ = sArf) := by rw [h]; decide
      rw [if_neg hne] at hf
      simpa [h, Gen.Fwd.load_irf_set, Gen.Fwd.irf_set, Gen.Fwd.load_mrf, Gen.Fwd.load_irf_base, Gen.Fwd.irf_file_path, sMrf] using hf
  have hp : genPath c = some (d, f) := by simp [genPath, hgen, hd]
  have := gen_flavour_faithful c hc (d, f) hp
  exact ⟨this.1, this.2.1⟩

example : (Gen.Fwd.load_irf_set [105,120,112,101] ([111,98,115,115,105,109,50,48,50,52,48,49,48,49] ++ sAlpha) 13 2 true true).mrf.toOption.map (hasInfix (sAlpha ++ sSimple ++ sGray))
    = some true := by decide +kernel

example : (Gen.Str.irf_file_name [105,120,112,101] 2 sMrf [111,98,115,115,105,109] 12 false false).toOption
    = some [105,120,112,101,95,100,50,95,111,98,115,115,105,109,95,118,48,49,50,46,109,114,102] := by decide +kernel

end C12
