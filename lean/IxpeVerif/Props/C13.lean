import IxpeVerif.RealInst
import IxpeVerif.Model.Channels
import IxpeVerif.Gen.Formulas
import IxpeVerif.Gen.Tables
import Mathlib.Algebra.Order.Round
/-!
# C13 — energy, pulse height and channel columns form one consistent chain

Discrete part (core): the binary search on the upper bounds returns the channel whose bounds `(s·c, s·(c+1)]` contain the
energy, for the step and channel count of the *generated* table (`Gen.energyStepEv`, `Gen.numChannels`).
Real part: the package-level conversions `Gen.energy_to_channel` / `Gen.channel_to_energy` (regenerated from
`irf/ebounds.py`) are mutual inverses up to the half-channel offset, the pre-digitisation energy lies inside the rounded
channel, and the channel centre lies strictly inside its channel.
-/
namespace Chan

/-- On the ideal grid starting at channel `c0`, an energy in `(s·c, s·(c+1)]` is found in channel `c` (here for the
generated step; `omega` needs the numeral). -/
theorem searchLeft_grid (c0 : Int) (n : Nat) (E c : Int) (h1 : Gen.energyStepEv * c < E) (h2 : E ≤ Gen.energyStepEv * (c + 1))
    (hc0 : c0 ≤ c) (hcn : c < c0 + n) :
    (searchLeft (gridFrom Gen.energyStepEv c0 n) E : Int) = c - c0 := by
  induction n generalizing c0 with
  | zero => omega
  | succ n ih =>
    simp only [Gen.energyStepEv] at *
    unfold gridFrom searchLeft
    by_cases hlt : c0 < c
    · have hh : 40 * (c0 + 1) < E := by omega
      simp only [List.takeWhile_cons, hh, decide_true, if_true, List.length_cons]
      have := ih (c0 + 1) (by omega) (by omega)
      unfold searchLeft at this
      omega
    · have hc : c0 = c := by omega
      subst hc
      have hh : ¬ (40 * (c0 + 1) < E) := by omega
      simp [List.takeWhile_cons, hh]

/-- MC_PI/MC_PHA (and PI for unconvolved components): the channel whose bounds contain the energy, for all 375 channels. -/
theorem e2c_contains (E c : Int) (h1 : Gen.energyStepEv * c < E) (h2 : E ≤ Gen.energyStepEv * (c + 1)) (h0 : 0 ≤ c)
    (hn : c < Gen.numChannels) : (e2cGrid Gen.energyStepEv Gen.numChannels E : Int) = c := by
  have := searchLeft_grid 0 Gen.numChannels E c h1 h2 h0 (by omega)
  unfold e2cGrid; omega

/-- … and every result is a valid channel 0..374 (energies above the last bound saturate at 375 = invalid, and are
excluded by `hE`). -/
theorem e2c_in_range (E : Int) (h0 : 0 < E) (hE : E ≤ Gen.piEnergyMaxEv) :
    (e2cGrid Gen.energyStepEv Gen.numChannels E : Int) ≤ Gen.tlmax ∧ Gen.tlmin ≤ (e2cGrid Gen.energyStepEv Gen.numChannels E : Int) := by
  simp only [Gen.piEnergyMaxEv, Gen.tlmax, Gen.tlmin] at *
  have hc : ∃ c : Int, 40 * c < E ∧ E ≤ 40 * (c + 1) := ⟨(E - 1) / 40, by omega, by omega⟩
  obtain ⟨c, h1, h2⟩ := hc
  have := e2c_contains E c (by simpa [Gen.energyStepEv] using h1) (by simpa [Gen.energyStepEv] using h2) (by omega)
    (by simp [Gen.numChannels]; omega)
  omega

/-- the table is self-consistent: 375 channels of 40 eV cover exactly 0–15 keV -/
theorem table_consistent : Gen.energyStepEv * Gen.numChannels = Gen.piEnergyMaxEv - Gen.piEnergyMinEv ∧
    Gen.tlmax = Gen.numChannels - 1 ∧ Gen.tlmin = 0 := by decide

/-- numpy.rint is within half a channel -/
theorem rintHalf_close (t : Int) : 2 * rintHalf t - t ≤ 1 ∧ t - 2 * rintHalf t ≤ 1 := by
  unfold rintHalf; split
  · omega
  · split <;> omega

end Chan

noncomputable section
namespace C13

/-- the step in keV as the generated definitions use it -/
theorem c2e_real (c : ℝ) : Gen.channel_to_energy c = c * 0.04 + 0.02 := by
  simp only [Gen.channel_to_energy]; rl_simp; norm_num

theorem e2c_real (E : ℝ) : Gen.energy_to_channel E = E / 0.04 := by
  simp only [Gen.energy_to_channel]; rl_simp; norm_num

/-- package-level pair: energy→channel after channel→energy is the channel plus one half, so the floor gives it back -/
theorem pkg_roundtrip (c : ℤ) : ⌊Gen.energy_to_channel (Gen.channel_to_energy (c : ℝ))⌋ = c := by
  rw [c2e_real, e2c_real]
  have : ((c : ℝ) * 0.04 + 0.02) / 0.04 = c + 0.5 := by norm_num; ring
  rw [this, Int.floor_eq_iff]
  constructor <;> norm_num

/-- the package-level channel of an energy contains it: ⌊E/0.04⌋ = c ↔ 0.04c ≤ E < 0.04(c+1) -/
theorem pkg_channel_contains (E : ℝ) (c : ℤ) : ⌊Gen.energy_to_channel E⌋ = c ↔ 0.04 * (c : ℝ) ≤ E ∧ E < 0.04 * ((c : ℝ) + 1) := by
  rw [e2c_real, Int.floor_eq_iff, le_div_iff₀ (by norm_num : (0:ℝ) < 0.04), div_lt_iff₀ (by norm_num : (0:ℝ) < 0.04)]
  constructor <;> rintro ⟨a, b⟩ <;> constructor <;> linarith

/-- ENERGY (the smeared value before digitisation, converted with the channel-centre line) lies inside the bounds of the
channel PHA = PI it is rounded to — for any rounding to a nearest integer, in particular numpy's half-to-even `rint` -/
theorem digitized_energy_in_channel (v : ℝ) (r : ℤ) (hr : |v - r| ≤ 1 / 2) :
    0.04 * (r : ℝ) ≤ Gen.channel_to_energy v ∧ Gen.channel_to_energy v ≤ 0.04 * ((r : ℝ) + 1) := by
  rw [c2e_real]
  rw [abs_le] at hr
  constructor <;> nlinarith [hr.1, hr.2]

theorem round_is_nearest (v : ℝ) : |v - (round v : ℝ)| ≤ 1 / 2 := abs_sub_round v

/-- the energy the analysis attributes to an event (the centre of its PI channel) lies strictly inside that channel,
so the response-matrix search maps it back to the same channel -/
theorem centre_in_channel (c : ℤ) :
    0.04 * (c : ℝ) < Gen.channel_to_energy (c : ℝ) ∧ Gen.channel_to_energy (c : ℝ) < 0.04 * ((c : ℝ) + 1) := by
  rw [c2e_real]; constructor <;> nlinarith

end C13
end
