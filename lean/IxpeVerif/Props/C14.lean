import IxpeVerif.RealInst
import IxpeVerif.Gen.Formulas
import Mathlib.Tactic.LinearCombination
/-!
# C14 — sky, detector and pixel coordinates of an event agree in every frame

About the generated `Gen.sky_to_gpd_naive`, `Gen.gpd_to_sky_naive`, `Gen.rotate_detxy`, `Gen.sky_to_gpd_dither`,
`Gen.gpd_to_sky_dither`, `Gen.psf_smear` (regenerated from instrument/mma.py, instrument/gpd.py, irf/psf.py) at ℝ.
`rho` is the DU rotation angle (clocking + roll, `du_rotation_angle`), `(dra, ddec)` the dithering offset at the event time
(`_dithering_delta`): both arbitrary, so the statements hold for every DU, roll, dithering setting and time.
The WCS (astropy/wcslib) is a library: its round trip is measured by the harness, not proved (partial).
-/
open Real
noncomputable section
namespace C14

/-- `rotate_detxy(…, inverse=True)` undoes `rotate_detxy(…)` for every rotation angle -/
theorem rotate_inverse (x y rho : ℝ) :
    Gen.rotate_detxy (Gen.rotate_detxy x y rho false).1 (Gen.rotate_detxy x y rho false).2 rho true = (x, y) := by
  have h := Real.cos_sq_add_sin_sq rho
  simp only [Gen.rotate_detxy]; rl_simp
  simp only [Real.cos_neg, Real.sin_neg, if_true, Bool.false_eq_true, if_false]
  ext
  · simp; linear_combination x * h
  · simp; linear_combination y * h

theorem rotate_forward (x y rho : ℝ) :
    Gen.rotate_detxy (Gen.rotate_detxy x y rho true).1 (Gen.rotate_detxy x y rho true).2 rho false = (x, y) := by
  have h := Real.cos_sq_add_sin_sq rho
  simp only [Gen.rotate_detxy]; rl_simp
  simp only [Real.cos_neg, Real.sin_neg, if_true, Bool.false_eq_true, if_false]
  ext
  · simp; linear_combination x * h
  · simp; linear_combination y * h

/-- rotation preserves the distance from the detector centre (so the fiducial circle / field of view is DU independent) -/
theorem rotate_norm (x y rho : ℝ) (b : Bool) :
    (Gen.rotate_detxy x y rho b).1 ^ 2 + (Gen.rotate_detxy x y rho b).2 ^ 2 = x ^ 2 + y ^ 2 := by
  have h := Real.cos_sq_add_sin_sq rho
  simp only [Gen.rotate_detxy]; rl_simp
  cases b <;> simp only [Real.cos_neg, Real.sin_neg, if_true, Bool.false_eq_true, if_false] <;> nlinarith [h]

/-- tangent-plane projection and its inverse (pointing not at a pole) -/
theorem naive_roundtrip (ra dec ra0 dec0 : ℝ) (hc : Real.cos (dec0 * (π / 180)) ≠ 0) :
    Gen.gpd_to_sky_naive (Gen.sky_to_gpd_naive ra dec ra0 dec0).1 (Gen.sky_to_gpd_naive ra dec ra0 dec0).2 ra0 dec0 = (ra, dec) := by
  have hpi : π ≠ 0 := Real.pi_ne_zero
  simp only [Gen.gpd_to_sky_naive, Gen.sky_to_gpd_naive]; rl_simp
  have e : (180.0:ℝ) = 180 := by norm_num
  simp only [e] at *
  generalize Real.cos (dec0 * (π / 180)) = c at *
  ext <;> simp <;> field_simp <;> ring

theorem naive_roundtrip_det (detx dety ra0 dec0 : ℝ) (hc : Real.cos (dec0 * (π / 180)) ≠ 0) :
    Gen.sky_to_gpd_naive (Gen.gpd_to_sky_naive detx dety ra0 dec0).1 (Gen.gpd_to_sky_naive detx dety ra0 dec0).2 ra0 dec0 = (detx, dety) := by
  have hpi : π ≠ 0 := Real.pi_ne_zero
  simp only [Gen.gpd_to_sky_naive, Gen.sky_to_gpd_naive]; rl_simp
  have e : (180.0:ℝ) = 180 := by norm_num
  simp only [e] at *
  generalize Real.cos (dec0 * (π / 180)) = c at *
  ext <;> simp <;> field_simp <;> ring

/-- `gpd_to_sky ∘ sky_to_gpd = id` with dithering on: any DU angle, any dithering offsets (hence any time and dithering
parameters), any pointing away from the poles -/
theorem sky_det_roundtrip (ra dec ra0 dec0 dra ddec rho : ℝ) (hc : Real.cos (dec0 * (π / 180)) ≠ 0) :
    Gen.gpd_to_sky_dither (Gen.sky_to_gpd_dither ra dec ra0 dec0 dra ddec rho).1 (Gen.sky_to_gpd_dither ra dec ra0 dec0 dra ddec rho).2
      ra0 dec0 rho dra ddec = (ra, dec) := by
  have hpi : π ≠ 0 := Real.pi_ne_zero
  have h := Real.cos_sq_add_sin_sq rho
  simp only [Gen.gpd_to_sky_dither, Gen.sky_to_gpd_dither, Gen.rotate_detxy, Gen.gpd_to_sky_naive, Gen.sky_to_gpd_naive]
  rl_simp
  simp only [Real.cos_neg, Real.sin_neg, if_true, Bool.false_eq_true, if_false]
  have e : (180.0:ℝ) = 180 := by norm_num
  have e0 : (0.0:ℝ) = 0 := by norm_num
  simp only [e, e0, zero_mul, Real.cos_zero, sub_zero, mul_one] at *
  have hx : ∀ a b : ℝ, Real.cos rho * (Real.cos rho * a - Real.sin rho * b) - -Real.sin rho * (Real.sin rho * a + Real.cos rho * b) = a := by
    intro a b; linear_combination a * h
  have hy : ∀ a b : ℝ, -Real.sin rho * (Real.cos rho * a - Real.sin rho * b) + Real.cos rho * (Real.sin rho * a + Real.cos rho * b) = b := by
    intro a b; linear_combination b * h
  simp only [hx, hy]
  generalize Real.cos (dec0 * (π / 180)) = c at *
  ext <;> simp <;> field_simp <;> ring

/-- measured sky positions differ from the true ones only by the PSF displacement, scaled by 1/cos(dec) in right ascension -/
theorem psf_displacement (ra dec dra ddec : ℝ) :
    (Gen.psf_smear ra dec dra ddec).1 - ra = dra / Real.cos (dec * (π / 180)) ∧ (Gen.psf_smear ra dec dra ddec).2 - dec = ddec := by
  simp only [Gen.psf_smear]; rl_simp
  have e : (180.0:ℝ) = 180 := by norm_num
  simp only [e]
  constructor <;> ring

/-- the dithered pointing used by `convolve_event_list` is the nominal pointing displaced by the dithering offset, with
the same 1/cos(dec) convention -/
theorem dithered_pointing (ra0 dec0 dra ddec : ℝ) :
    Gen.apply_dithering ra0 dec0 dra ddec = (ra0 + dra / Real.cos (dec0 * (π / 180)), dec0 + ddec) := by
  simp only [Gen.apply_dithering]; rl_simp
  have e : (180.0:ℝ) = 180 := by norm_num
  simp only [e]

/-- the pointing direction itself projects to the detector centre (before DU rotation) -/
theorem pointing_is_centre (ra0 dec0 : ℝ) : Gen.sky_to_gpd_naive ra0 dec0 ra0 dec0 = (0, 0) := by
  simp only [Gen.sky_to_gpd_naive]; rl_simp
  ext <;> simp

/-- non-vacuity: declination 45° is not a pole -/
example : Real.cos (45 * (π / 180)) ≠ 0 := by
  have : (45:ℝ) * (π / 180) = π / 4 := by ring
  rw [this, Real.cos_pi_div_four]; positivity

end C14
end
