import IxpeVerif.RealInst
import IxpeVerif.Model.Sampler
import IxpeVerif.Lemmas.Interp
import IxpeVerif.Lemmas.SamplerTie
/-!
# C15 — tabulated-pdf samplers invert their own cumulative distribution (k = 1)

About `Sampler.*` at ℝ, the model of the linear-spline generator, through the general piecewise-linear lemmas of
`Lemmas/Interp.lean` (`interp_inv`: interpolation through strictly increasing nodes composed with the swapped interpolation is
the identity).  `Z nodes` is the list of (quantile, abscissa) nodes before de-duplication.
Splines of order k ≥ 2 (FITPACK) are not modelled: decided by the oracle only (partial).
-/
open Real
noncomputable section
namespace C15
open Sampler

theorem interp_bridge : ∀ (nodes : List (ℝ × ℝ)) (t : ℝ), Sampler.interp nodes t = Interp.interp nodes t
  | [], t => by simp only [Sampler.interp, Interp.interp]; norm_num
  | [(_, y)], t => rfl
  | (x0, y0) :: (x1, y1) :: rest, t => by
    simp only [Sampler.interp, Interp.interp, Sampler.seg, Interp.seg]
    rl_simp
    rw [interp_bridge ((x1, y1) :: rest) t]

/-- the (quantile, abscissa) nodes before de-duplication -/
def Z (nodes : List (ℝ × ℝ)) : List (ℝ × ℝ) :=
  ((cumTrap 0.0 nodes).map (· / total (cumTrap 0.0 nodes))).zip (nodes.map (·.1))

theorem dedupGo_of_strict : ∀ (c0 x0 : ℝ) (l : List (ℝ × ℝ)), Interp.StrictChain ((c0, x0) :: l) →
    dedupGo c0 x0 l = (c0, x0) :: l
  | c0, x0, [], _ => rfl
  | c0, x0, (c1, x1) :: rest, h => by
    have hne : ¬ (c0 ≤ c1 ∧ c1 ≤ c0) := by intro hh; have := h.1; linarith [hh.2]
    simp only [dedupGo]
    rl_simp
    simp only [hne, if_false]
    rw [dedupGo_of_strict c1 x1 rest h.2.2]

/-- `numpy.unique` removes nothing when the cumulative values strictly increase -/
theorem dedupFirst_of_strict : ∀ (l : List (ℝ × ℝ)), Interp.StrictChain l → dedupFirst l = l
  | [], _ => rfl
  | (c0, x0) :: rest, h => dedupGo_of_strict c0 x0 rest h

theorem zip_swap (a b : List ℝ) : (a.zip b).map Prod.swap = b.zip a := by
  induction a generalizing b with
  | nil => simp
  | cons x xs ih => cases b with
    | nil => simp
    | cons y ys => simp [ih]

theorem ppf_eq (nodes : List (ℝ × ℝ)) (hs : Interp.StrictChain (Z nodes)) (u : ℝ) :
    ppf nodes u = Interp.interp (Z nodes) u := by
  simp only [ppf, ppfNodes, interp_bridge]
  have : dedupFirst (((cumTrap 0.0 nodes).map (· / total (cumTrap 0.0 nodes))).zip (nodes.map (·.1))) = Z nodes :=
    dedupFirst_of_strict _ hs
  rw [this]

theorem cdf_eq (nodes : List (ℝ × ℝ)) (x : ℝ) : cdf nodes x = Interp.interp ((Z nodes).map Prod.swap) x := by
  simp only [cdf, cdfNodes, interp_bridge, Z, zip_swap]

/-- **cdf ∘ ppf = id** on [0, 1] for every tabulated density whose cumulative values strictly increase with the abscissa
(true as soon as every trapezoid is positive) -/
theorem cdf_ppf_id (nodes : List (ℝ × ℝ)) (u : ℝ) (hs : Interp.StrictChain (Z nodes)) (hne : Z nodes ≠ [])
    (h0 : ∀ p, (Z nodes).head? = some p → p.1 ≤ u) (h1 : ∀ p, (Z nodes).getLast? = some p → u ≤ p.1) :
    cdf nodes (ppf nodes u) = u := by
  rw [ppf_eq nodes hs, cdf_eq]
  exact Interp.interp_inv _ u hne hs h0 h1

/-- swapping the columns of a strictly increasing chain gives a strictly increasing chain -/
theorem strictChain_swap : ∀ (l : List (ℝ × ℝ)), Interp.StrictChain l → Interp.StrictChain (l.map Prod.swap)
  | [], _ => trivial
  | [_], _ => trivial
  | (a, b) :: (c, d) :: rest, h => ⟨h.2.1, h.1, strictChain_swap ((c, d) :: rest) h.2.2⟩

/-- **ppf ∘ cdf = id** on the support -/
theorem ppf_cdf_id (nodes : List (ℝ × ℝ)) (x : ℝ) (hs : Interp.StrictChain (Z nodes)) (hne : Z nodes ≠ [])
    (h0 : ∀ p, (Z nodes).head? = some p → p.2 ≤ x) (h1 : ∀ p, (Z nodes).getLast? = some p → x ≤ p.2) :
    ppf nodes (cdf nodes x) = x := by
  rw [ppf_eq nodes hs, cdf_eq]
  have hs' := strictChain_swap _ hs
  have := Interp.interp_inv ((Z nodes).map Prod.swap) x (by simpa using hne) hs'
    (by intro p hp; cases hz : Z nodes with
        | nil => exact absurd hz hne
        | cons q rest => rw [hz] at hp; simp at hp; subst hp; exact h0 q (by rw [hz]; rfl))
    (by intro p hp
        rw [List.getLast?_map] at hp
        cases hl : (Z nodes).getLast? with
        | none => rw [hl] at hp; simp at hp
        | some q => rw [hl] at hp; simp at hp; subst hp; exact h1 q hl)
  simpa [List.map_map] using this

/-- the quantile function maps the ends of [0, 1] to the ends of the support -/
theorem interp_first (p : ℝ × ℝ) (rest : List (ℝ × ℝ)) (h : Interp.StrictChain (p :: rest)) : Interp.interp (p :: rest) p.1 = p.2 := by
  cases rest with
  | nil => rfl
  | cons q rest' =>
    obtain ⟨x0, y0⟩ := p
    obtain ⟨x1, y1⟩ := q
    have hx : x0 ≤ x1 := le_of_lt h.1
    simp only [Interp.interp, hx, if_true, Interp.seg]
    have : x1 - x0 ≠ 0 := by linarith [h.1]
    field_simp; ring

theorem strictChain_last_gt : ∀ (x1 y1 : ℝ) (rest : List (ℝ × ℝ)) (p : ℝ × ℝ), rest ≠ [] → Interp.StrictChain ((x1, y1) :: rest) →
    ((x1, y1) :: rest).getLast? = some p → x1 < p.1
  | _, _, [], _, h, _, _ => absurd rfl h
  | x1, y1, [(x2, y2)], p, _, hc, hl => by simp at hl; subst hl; exact hc.1
  | x1, y1, (x2, y2) :: q :: rest, p, _, hc, hl => by
    have := strictChain_last_gt x2 y2 (q :: rest) p (by simp) hc.2.2 (by simpa [List.getLast?_cons_cons] using hl)
    exact lt_trans hc.1 this

theorem interp_last : ∀ (l : List (ℝ × ℝ)) (p : ℝ × ℝ), Interp.StrictChain l → l.getLast? = some p → Interp.interp l p.1 = p.2
  | [], p, _, h => by simp at h
  | [q], p, _, h => by simp at h; subst h; rfl
  | (x0, y0) :: (x1, y1) :: rest, p, hc, h => by
    have hl : ((x1, y1) :: rest).getLast? = some p := by simpa [List.getLast?_cons_cons] using h
    by_cases hr : rest = []
    · subst hr
      simp at hl; subst hl
      simp only [Interp.interp, le_refl, if_true, Interp.seg]
      have : x1 - x0 ≠ 0 := by linarith [hc.1]
      field_simp; ring
    · have ih := interp_last ((x1, y1) :: rest) p hc.2.2 hl
      have hgt : x1 < p.1 := by
        have := strictChain_last_gt x1 y1 rest p hr hc.2.2 hl
        exact this
      simp only [Interp.interp, not_le.mpr hgt, if_false]
      exact ih

theorem ppf_endpoints (nodes : List (ℝ × ℝ)) (hs : Interp.StrictChain (Z nodes)) (a b : ℝ × ℝ) (rest : List (ℝ × ℝ))
    (hz : Z nodes = a :: rest) (hl : (Z nodes).getLast? = some b) :
    ppf nodes a.1 = a.2 ∧ ppf nodes b.1 = b.2 := by
  rw [ppf_eq nodes hs, ppf_eq nodes hs]
  constructor
  · rw [hz]; exact interp_first a rest (hz ▸ hs)
  · exact interp_last _ b hs hl

/-- linear interpolation through strictly increasing nodes is non-decreasing (to the right of the first node) -/
theorem interp_mono : ∀ (l : List (ℝ × ℝ)), Interp.StrictChain l → ∀ t t' : ℝ, t ≤ t' →
    (∀ p, l.head? = some p → p.1 ≤ t) → Interp.interp l t ≤ Interp.interp l t'
  | [], _, _, _, _, _ => le_refl _
  | [_], _, _, _, _, _ => le_refl _
  | (x0, y0) :: (x1, y1) :: rest, hc, t, t', htt, h0 => by
    have hx0 : x0 ≤ t := h0 (x0, y0) rfl
    obtain ⟨hx, hy, hc'⟩ := hc
    by_cases h1 : t' ≤ x1
    · have h1' : t ≤ x1 := le_trans htt h1
      simp only [Interp.interp, h1, h1', if_true, Interp.seg]
      have hd : 0 < x1 - x0 := by linarith
      have : (y1 - y0) * (t - x0) / (x1 - x0) ≤ (y1 - y0) * (t' - x0) / (x1 - x0) := by
        apply div_le_div_of_nonneg_right _ (le_of_lt hd)
        apply mul_le_mul_of_nonneg_left _ (by linarith)
        linarith
      linarith
    · have h1' : x1 < t' := not_le.mp h1
      by_cases h2 : t ≤ x1
      · simp only [Interp.interp, h1, h2, if_true, if_false]
        have hle : Interp.seg x0 y0 x1 y1 t ≤ y1 := Interp.seg_le hx hy h2
        cases rest with
        | nil => simpa [Interp.interp] using hle
        | cons q rest' =>
          have := Interp.interp_gt_first x1 y1 (q :: rest') t' (by simp) hc' h1'
          linarith
      · have h2' : x1 < t := not_le.mp h2
        simp only [Interp.interp, h1, h2, if_false]
        exact interp_mono ((x1, y1) :: rest) hc' t t' htt (by intro p hp; simp at hp; subst hp; exact le_of_lt h2')

/-- the quantile function is non-decreasing -/
theorem ppf_mono (nodes : List (ℝ × ℝ)) (hs : Interp.StrictChain (Z nodes)) (u u' : ℝ) (h : u ≤ u')
    (h0 : ∀ p, (Z nodes).head? = some p → p.1 ≤ u) : ppf nodes u ≤ ppf nodes u' := by
  rw [ppf_eq nodes hs, ppf_eq nodes hs]
  exact interp_mono _ hs u u' h h0

/-- bounded sampling only returns values inside the requested bounds: for `cdf(rvmin) ≤ u' ≤ cdf(rvmax)` the sample
`ppf(u')` lies in `[rvmin, rvmax]` (bounds inside the support) -/
theorem bounded_in_bounds (nodes : List (ℝ × ℝ)) (hs : Interp.StrictChain (Z nodes)) (hne : Z nodes ≠ []) (lo hi u' : ℝ)
    (hlo0 : ∀ p, (Z nodes).head? = some p → p.2 ≤ lo) (hlo1 : ∀ p, (Z nodes).getLast? = some p → lo ≤ p.2)
    (hhi0 : ∀ p, (Z nodes).head? = some p → p.2 ≤ hi) (hhi1 : ∀ p, (Z nodes).getLast? = some p → hi ≤ p.2)
    (hq0 : ∀ p, (Z nodes).head? = some p → p.1 ≤ cdf nodes lo)
    (h1 : cdf nodes lo ≤ u') (h2 : u' ≤ cdf nodes hi) :
    lo ≤ ppf nodes u' ∧ ppf nodes u' ≤ hi := by
  have a := ppf_cdf_id nodes lo hs hne hlo0 hlo1
  have b := ppf_cdf_id nodes hi hs hne hhi0 hhi1
  constructor
  · rw [← a]; exact ppf_mono nodes hs _ _ h1 hq0
  · rw [← b]; exact ppf_mono nodes hs _ _ h2 (fun p hp => le_trans (hq0 p hp) h1)

/-- densities that are negative anywhere are rejected -/
theorem negative_rejected (nodes : List (ℝ × ℝ)) : negative nodes = true ↔ ∃ p ∈ nodes, p.2 < 0 := by
  simp only [negative, List.any_eq_true, decide_eq_true_eq]
  rl_simp
  constructor
  · rintro ⟨p, hp, h⟩; exact ⟨p, hp, by norm_num at h; exact h⟩
  · rintro ⟨p, hp, h⟩; exact ⟨p, hp, by norm_num; exact h⟩

/-! ### the known finding C15-k1-zero-stretch as a theorem about the model -/

/-- the pdf 1,1,1,0,0,0,0,0,1,1,1 on 0..10 -/
def gapPdf : List (ℝ × ℝ) := [(0,1),(1,1),(2,1),(3,0),(4,0),(5,0),(6,0),(7,0),(8,1),(9,1),(10,1)]

theorem gap_nodes : ppfNodes gapPdf = [(0,0),(1/5,1),(2/5,2),(1/2,3),(3/5,8),(4/5,9),(1,10)] := by
  simp only [ppfNodes, gapPdf, cumTrap, total, dedupFirst, dedupGo, List.map, List.zip, List.zipWith, List.getLast?_cons_cons,
    List.getLast?_singleton, Option.getD]
  rl_simp
  norm_num

/-- a quantile strictly inside (0.5, 0.6) lands in the stretch [3, 7] where the density is identically zero -/
theorem zero_stretch_fails : ppf gapPdf (11/20) = 11/2 ∧ (4 : ℝ) < 11/2 ∧ (11/2 : ℝ) < 7 := by
  refine ⟨?_, by norm_num, by norm_num⟩
  simp only [ppf, gap_nodes, Sampler.interp, Sampler.seg]
  rl_simp
  norm_num

/-! ### T-tie: `build_cdf`, `build_ppf` (core/spline.py) and `rvs_bounded` (core/rand.py) regenerated from the source (`Gen/ImpR.lean`) -/

/-- the quantile function the generated code builds: linear interpolation through the nodes `build_ppf` returns, the integrals of the density being
the cumulative trapezoids of the k = 1 spline -/
def genPpf (nodes : List (ℝ × ℝ)) (u : ℝ) : ℝ :=
  Sampler.interp (List.zip (Gen.ImpR.build_ppf (nodes.map (·.1)) (cumTrap 0.0 nodes)).1 (Gen.ImpR.build_ppf (nodes.map (·.1)) (cumTrap 0.0 nodes)).2) u
/-- the cumulative function the generated code builds -/
def genCdf (nodes : List (ℝ × ℝ)) (x : ℝ) : ℝ :=
  Sampler.interp (List.zip (Gen.ImpR.build_cdf (nodes.map (·.1)) (cumTrap 0.0 nodes)).1 (Gen.ImpR.build_cdf (nodes.map (·.1)) (cumTrap 0.0 nodes)).2) x

theorem gen_build_ppf_eq_model (nodes : List (ℝ × ℝ)) (ht : total (cumTrap 0.0 nodes) ≠ 0) :
    List.zip (Gen.ImpR.build_ppf (nodes.map (·.1)) (cumTrap 0.0 nodes)).1 (Gen.ImpR.build_ppf (nodes.map (·.1)) (cumTrap 0.0 nodes)).2 = ppfNodes nodes :=
  SamplerTie.gen_build_ppf_eq_model nodes ht

theorem gen_build_cdf_eq_model (nodes : List (ℝ × ℝ)) (hne : nodes ≠ []) :
    List.zip (Gen.ImpR.build_cdf (nodes.map (·.1)) (cumTrap 0.0 nodes)).1 (Gen.ImpR.build_cdf (nodes.map (·.1)) (cumTrap 0.0 nodes)).2 = cdfNodes nodes :=
  SamplerTie.gen_build_cdf_eq_model nodes hne

theorem genPpf_eq (nodes : List (ℝ × ℝ)) (ht : total (cumTrap 0.0 nodes) ≠ 0) (u : ℝ) : genPpf nodes u = ppf nodes u := by
  unfold genPpf ppf; rw [SamplerTie.gen_build_ppf_eq_model nodes ht]

theorem genCdf_eq (nodes : List (ℝ × ℝ)) (hne : nodes ≠ []) (x : ℝ) : genCdf nodes x = cdf nodes x := by
  unfold genCdf cdf; rw [SamplerTie.gen_build_cdf_eq_model nodes hne]

/-- **the quantile function composes with the cumulative function to the identity, on the current source** -/
theorem gen_cdf_ppf_id (nodes : List (ℝ × ℝ)) (u : ℝ) (ht : total (cumTrap 0.0 nodes) ≠ 0) (hn : nodes ≠ [])
    (hs : Interp.StrictChain (Z nodes)) (hne : Z nodes ≠ [])
    (h0 : ∀ p, (Z nodes).head? = some p → p.1 ≤ u) (h1 : ∀ p, (Z nodes).getLast? = some p → u ≤ p.1) :
    genCdf nodes (genPpf nodes u) = u := by
  rw [genPpf_eq nodes ht, genCdf_eq nodes hn]; exact cdf_ppf_id nodes u hs hne h0 h1

theorem gen_ppf_cdf_id (nodes : List (ℝ × ℝ)) (x : ℝ) (ht : total (cumTrap 0.0 nodes) ≠ 0) (hn : nodes ≠ [])
    (hs : Interp.StrictChain (Z nodes)) (hne : Z nodes ≠ [])
    (h0 : ∀ p, (Z nodes).head? = some p → p.2 ≤ x) (h1 : ∀ p, (Z nodes).getLast? = some p → x ≤ p.2) :
    genPpf nodes (genCdf nodes x) = x := by
  rw [genCdf_eq nodes hn, genPpf_eq nodes ht]; exact ppf_cdf_id nodes x hs hne h0 h1

/-- **the generated quantile function is non-decreasing** -/
theorem gen_ppf_mono (nodes : List (ℝ × ℝ)) (ht : total (cumTrap 0.0 nodes) ≠ 0) (hs : Interp.StrictChain (Z nodes)) (u u' : ℝ) (h : u ≤ u')
    (h0 : ∀ p, (Z nodes).head? = some p → p.1 ≤ u) : genPpf nodes u ≤ genPpf nodes u' := by
  rw [genPpf_eq nodes ht, genPpf_eq nodes ht]; exact ppf_mono nodes hs u u' h h0

/-- **bounded sampling, on the current source**: the generated `rvs_bounded`, run with the generated cumulative and quantile functions, evaluates the
quantile function at the bounded variate of the model — so, for bounds inside the support, the value lies between the bounds -/
theorem gen_rvs_bounded_eq_model (nodes : List (ℝ × ℝ)) (rvmin rvmax : Option ℝ) (u : ℝ) :
    Gen.ImpR.rvs_bounded (cdf nodes) (ppf nodes) rvmin rvmax u = ppf nodes (boundedU nodes rvmin rvmax u) :=
  SamplerTie.gen_rvs_bounded_eq_model nodes rvmin rvmax u

theorem gen_bounded_in_bounds (nodes : List (ℝ × ℝ)) (hs : Interp.StrictChain (Z nodes)) (hne : Z nodes ≠ []) (lo hi u : ℝ)
    (hlo0 : ∀ p, (Z nodes).head? = some p → p.2 ≤ lo) (hlo1 : ∀ p, (Z nodes).getLast? = some p → lo ≤ p.2)
    (hhi0 : ∀ p, (Z nodes).head? = some p → p.2 ≤ hi) (hhi1 : ∀ p, (Z nodes).getLast? = some p → hi ≤ p.2)
    (hq0 : ∀ p, (Z nodes).head? = some p → p.1 ≤ cdf nodes lo) (hle : cdf nodes lo ≤ cdf nodes hi) (hu0 : 0 ≤ u) (hu1 : u ≤ 1) :
    lo ≤ Gen.ImpR.rvs_bounded (cdf nodes) (ppf nodes) (some lo) (some hi) u ∧ Gen.ImpR.rvs_bounded (cdf nodes) (ppf nodes) (some lo) (some hi) u ≤ hi := by
  rw [gen_rvs_bounded_eq_model]
  apply bounded_in_bounds nodes hs hne lo hi _ hlo0 hlo1 hhi0 hhi1 hq0
  · simp only [boundedU]; rl_simp; nlinarith
  · simp only [boundedU]; rl_simp; nlinarith

end C15
end

namespace C15
open Sampler
/-- non-vacuity: a strictly positive tabulated density meets the hypothesis of `cdf_ppf_id` -/
example : Interp.StrictChain (Z [(0,1),(1,2),(2,1)]) ∧ Z [(0,1),(1,2),(2,1)] ≠ [] := by
  have : Z [(0,1),(1,2),(2,1)] = [(0,0),(1/2,1),(1,2)] := by
    simp only [Z, cumTrap, total, List.map, List.zip, List.zipWith, List.getLast?_cons_cons, List.getLast?_singleton, Option.getD]
    rl_simp
    norm_num
  rw [this]
  refine ⟨⟨by norm_num, by norm_num, by norm_num, by norm_num, trivial⟩, by simp⟩
end C15
