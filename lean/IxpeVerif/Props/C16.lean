import IxpeVerif.RealInst
import IxpeVerif.Gen.Formulas
import IxpeVerif.Model.Positions
import IxpeVerif.Model.Channels
import IxpeVerif.Lemmas.Livetime
/-!
# C16 — sampled source positions follow the declared morphology

The bodies of `xUniformDisk/xUniformAnnulus.rvs_sky_coordinates` are regenerated from /repo with the two RNG draws turned
into parameters `u1 ∈ [0,1)`, `theta`: "samples are uniform over the shape" is then the statement that the squared
tangent-plane radius is an affine function of `u1` (area law) for every `theta`, and "nowhere outside it" a bound.
`tx`, `ty` are the tangent-plane offsets (Δra·cos dec, Δdec).
-/
open Real
noncomputable section
namespace C16

def tx (p : ℝ × ℝ) (ra dec : ℝ) : ℝ := (p.1 - ra) * Real.cos (dec * (π / 180))
def ty (p : ℝ × ℝ) (dec : ℝ) : ℝ := p.2 - dec

theorem disk_offsets (R ra dec u theta : ℝ) (hc : Real.cos (dec * (π / 180)) ≠ 0) :
    tx (Gen.disk_rvs R ra dec u theta) ra dec = R * Real.sqrt u * Real.cos theta ∧
    ty (Gen.disk_rvs R ra dec u theta) dec = R * Real.sqrt u * Real.sin theta := by
  simp only [tx, ty, Gen.disk_rvs]; rl_simp
  have e : (180.0:ℝ) = 180 := by norm_num
  simp only [e]
  generalize Real.cos (dec * (π / 180)) = c at *
  constructor
  · field_simp; ring
  · ring

/-- disk: squared tangent-plane radius = R²·u — uniform in area, for every azimuth -/
theorem disk_radial_law (R ra dec u theta : ℝ) (hc : Real.cos (dec * (π / 180)) ≠ 0) (hu : 0 ≤ u) :
    tx (Gen.disk_rvs R ra dec u theta) ra dec ^ 2 + ty (Gen.disk_rvs R ra dec u theta) dec ^ 2 = R ^ 2 * u := by
  obtain ⟨h1, h2⟩ := disk_offsets R ra dec u theta hc
  rw [h1, h2]
  have hcs := Real.cos_sq_add_sin_sq theta
  have hs := Real.sq_sqrt hu
  have : (R * Real.sqrt u * Real.cos theta) ^ 2 + (R * Real.sqrt u * Real.sin theta) ^ 2
      = R ^ 2 * Real.sqrt u ^ 2 * (Real.cos theta ^ 2 + Real.sin theta ^ 2) := by ring
  rw [this, hcs, hs]; ring

/-- … and nowhere outside the disk -/
theorem disk_inside (R ra dec u theta : ℝ) (hc : Real.cos (dec * (π / 180)) ≠ 0) (hu : 0 ≤ u) (hu1 : u ≤ 1) :
    tx (Gen.disk_rvs R ra dec u theta) ra dec ^ 2 + ty (Gen.disk_rvs R ra dec u theta) dec ^ 2 ≤ R ^ 2 := by
  rw [disk_radial_law R ra dec u theta hc hu]
  nlinarith [sq_nonneg R]

theorem annulus_offsets (a b ra dec u theta : ℝ) (hc : Real.cos (dec * (π / 180)) ≠ 0) :
    tx (Gen.annulus_rvs a b ra dec u theta) ra dec = Real.sqrt (a * a + (b * b - a * a) * u) * Real.cos theta ∧
    ty (Gen.annulus_rvs a b ra dec u theta) dec = Real.sqrt (a * a + (b * b - a * a) * u) * Real.sin theta := by
  simp only [tx, ty, Gen.annulus_rvs]; rl_simp
  have e : (180.0:ℝ) = 180 := by norm_num
  simp only [e]
  generalize Real.cos (dec * (π / 180)) = c at *
  constructor
  · field_simp; ring
  · ring

/-- annulus: squared radius = rmin² + (rmax² − rmin²)·u — uniform in area -/
theorem annulus_radial_law (a b ra dec u theta : ℝ) (hc : Real.cos (dec * (π / 180)) ≠ 0) (ha : 0 ≤ a) (hab : a ≤ b) (hu : 0 ≤ u) :
    tx (Gen.annulus_rvs a b ra dec u theta) ra dec ^ 2 + ty (Gen.annulus_rvs a b ra dec u theta) dec ^ 2
      = a ^ 2 + (b ^ 2 - a ^ 2) * u := by
  obtain ⟨h1, h2⟩ := annulus_offsets a b ra dec u theta hc
  rw [h1, h2]
  have hnn : 0 ≤ a * a + (b * b - a * a) * u := by nlinarith [mul_nonneg ha ha, mul_le_mul hab hab ha (le_trans ha hab)]
  have hcs := Real.cos_sq_add_sin_sq theta
  have hs := Real.sq_sqrt hnn
  have : (Real.sqrt (a * a + (b * b - a * a) * u) * Real.cos theta) ^ 2 + (Real.sqrt (a * a + (b * b - a * a) * u) * Real.sin theta) ^ 2
      = Real.sqrt (a * a + (b * b - a * a) * u) ^ 2 * (Real.cos theta ^ 2 + Real.sin theta ^ 2) := by ring
  rw [this, hcs, hs]; ring

/-- … and nowhere outside the annulus -/
theorem annulus_inside (a b ra dec u theta : ℝ) (hc : Real.cos (dec * (π / 180)) ≠ 0) (ha : 0 ≤ a) (hab : a ≤ b) (hu : 0 ≤ u) (hu1 : u ≤ 1) :
    a ^ 2 ≤ tx (Gen.annulus_rvs a b ra dec u theta) ra dec ^ 2 + ty (Gen.annulus_rvs a b ra dec u theta) dec ^ 2 ∧
    tx (Gen.annulus_rvs a b ra dec u theta) ra dec ^ 2 + ty (Gen.annulus_rvs a b ra dec u theta) dec ^ 2 ≤ b ^ 2 := by
  rw [annulus_radial_law a b ra dec u theta hc ha hab hu]
  have : 0 ≤ b ^ 2 - a ^ 2 := by nlinarith [mul_le_mul hab hab ha (le_trans ha hab)]
  constructor <;> nlinarith

/-- regression witness for the repaired defect: the former law r = rmin + (rmax − rmin)√u is not the area law -/
theorem annulus_old_law_fails : ∃ a b u : ℝ, 0 < a ∧ a < b ∧ 0 ≤ u ∧ u ≤ 1 ∧
    ((a + (b - a) * Real.sqrt u) ^ 2 - a ^ 2) / (b ^ 2 - a ^ 2) ≠ u := by
  refine ⟨1, 2, 1/4, by norm_num, by norm_num, by norm_num, by norm_num, ?_⟩
  have : Real.sqrt (1/4 : ℝ) = 1/2 := by
    rw [show (1/4 : ℝ) = (1/2)^2 by norm_num, Real.sqrt_sq (by norm_num)]
  rw [this]; norm_num

/-- Gaussian disk: the covariance diag((σ/cos dec)², σ²) is isotropic with variance σ² in the tangent plane -/
theorem gauss_tangent_isotropic (sigma dec : ℝ) (hc : Real.cos (dec * (π / 180)) ≠ 0) :
    (Pos.gaussCov sigma dec).1 * Real.cos (dec * (π / 180)) ^ 2 = sigma ^ 2 ∧ (Pos.gaussCov sigma dec).2 = sigma ^ 2 := by
  simp only [Pos.gaussCov]; rl_simp
  have e : (180.0:ℝ) = 180 := by norm_num
  simp only [e]
  generalize Real.cos (dec * (π / 180)) = c at *
  constructor
  · field_simp
  · ring

/-! ### image-based sources: pixel look-up and unravelling -/

theorem searchLeft_eq_searchRight (a : List Int) (v : Int) : Chan.searchLeft a v = Livetime.searchRight a (v - 1) := by
  unfold Chan.searchLeft Livetime.searchRight
  congr 2
  funext x
  simp only [decide_eq_decide]
  omega

/-- `searchsorted(cdf, u)` returns pixel `i` exactly for `u ∈ (cdf[i−1], cdf[i]]`: an interval whose length is the pixel's
share `dᵢ/Σd` of the image, so pixels receive events in proportion to their value (cdf strictly increasing, i.e. positive pixels) -/
theorem image_pixel_interval (cdf : List Int) (u : Int) (k : Nat) (hs : Livetime.StrictInc cdf) :
    Chan.searchLeft cdf u = k ↔
      (k ≤ cdf.length ∧ (∀ i v, cdf[i]? = some v → i < k → v < u) ∧ (∀ v, cdf[k]? = some v → u ≤ v)) := by
  rw [searchLeft_eq_searchRight, Livetime.searchRight_spec cdf (u - 1) k hs]
  constructor
  · rintro ⟨h1, h2, h3⟩
    exact ⟨h1, fun i v hv hi => by have := h2 i v hv hi; omega, fun v hv => by have := h3 v hv; omega⟩
  · rintro ⟨h1, h2, h3⟩
    exact ⟨h1, fun i v hv hi => by have := h2 i v hv hi; omega, fun v hv => by have := h3 v hv; omega⟩

/-- row-major unravelling is a bijection onto the pixel grid (the number of *columns* is the divisor) -/
theorem unravel_spec (ncols p : Nat) (h : 0 < ncols) :
    (Pos.unravel ncols p).1 * ncols + (Pos.unravel ncols p).2 = p ∧ (Pos.unravel ncols p).2 < ncols := by
  simp only [Pos.unravel]
  exact ⟨Nat.div_add_mod' p ncols, Nat.mod_lt p h⟩

theorem unravel_row_lt (nrows ncols p : Nat) (h : p < nrows * ncols) : (Pos.unravel ncols p).1 < nrows := by
  simp only [Pos.unravel]
  exact Nat.div_lt_of_lt_mul (by rw [Nat.mul_comm]; exact h)

example : Pos.unravel 9 22 = (2, 4) := by decide

end C16
end
