import IxpeVerif.RealInst
import IxpeVerif.Model.Positions
import IxpeVerif.Gen.ImgGen
import IxpeVerif.Lemmas.Basic
import Mathlib.Tactic.Linarith
/-!
# C16 on the regenerated image sampler (`xFITSImage._build_cdf`, `rvs_coordinates`; translator/lamtrans.py → `Gen/ImgGen.lean`)

One event: the uniform variate `u` selects the pixel whose interval of the normalised cumulative sum contains it, the serial index is unravelled
row-major, the WCS is asked for (column, row), and the position is then moved by at most half a pixel on each axis.
-/
open Real
noncomputable section
namespace C16Gen

/-- `numpy.searchsorted(cdf, u)` = k  iff  the first k entries are below u and entry k (if any) is not: for any array -/
theorem gen_search_spec (cdf : List ℝ) (u : ℝ) (k : Nat) :
    Gen.Img.searchLeft cdf u = k ↔
      (k ≤ cdf.length ∧ (∀ i v, cdf[i]? = some v → i < k → v < u) ∧ (∀ v, cdf[k]? = some v → u ≤ v)) := by
  unfold Gen.Img.searchLeft
  induction cdf generalizing k with
  | nil =>
    simp only [List.takeWhile_nil, List.length_nil, Nat.le_zero_eq]
    constructor
    · intro h; subst h; simp
    · intro h; exact h.1.symm
  | cons x xs ih =>
    by_cases hx : x < u
    · simp only [List.takeWhile_cons, hx, decide_true, if_true, List.length_cons]
      cases k with
      | zero =>
        constructor
        · intro h; omega
        · rintro ⟨_, _, h3⟩
          have := h3 x (by simp)
          linarith
      | succ k =>
        rw [Nat.succ_inj, ih k]
        constructor
        · rintro ⟨h1, h2, h3⟩
          refine ⟨by omega, ?_, ?_⟩
          · intro i v hv hi
            cases i with
            | zero => simp at hv; subst hv; exact hx
            | succ i => exact h2 i v (by simpa using hv) (by omega)
          · intro v hv; exact h3 v (by simpa using hv)
        · rintro ⟨h1, h2, h3⟩
          refine ⟨by omega, ?_, ?_⟩
          · intro i v hv hi; exact h2 (i + 1) v (by simpa using hv) (by omega)
          · intro v hv; exact h3 v (by simpa using hv)
    · simp only [List.takeWhile_cons, hx, decide_false, Bool.false_eq_true, if_false, List.length_nil]
      constructor
      · intro h; subst h
        refine ⟨by omega, ?_, ?_⟩
        · intro i v _ hi; omega
        · intro v hv; simp at hv; subst hv; linarith
      · rintro ⟨_, h2, _⟩
        by_contra hk
        have : 0 < k := by omega
        exact hx (h2 0 x (by simp) this)

/-- **the regenerated sampler, without randomisation, returns the world coordinates of (column, row) of the row-major unravelling of the selected
pixel** — the number of columns is the divisor, and the WCS is asked for (column, row), not (row, column) -/
theorem gen_rvs_pixel (cdf : List ℝ) (nrows ncols : Nat) (w : Nat → Nat → ℝ × ℝ) (c1 c2 u u1 u2 : ℝ) :
    Gen.Img.rvs_coordinates cdf nrows ncols w c1 c2 false u u1 u2 =
      w (Pos.unravel ncols (Gen.Img.searchLeft cdf u)).2 (Pos.unravel ncols (Gen.Img.searchLeft cdf u)).1 := by
  simp [Gen.Img.rvs_coordinates, Pos.unravel]

/-- with the randomisation: each coordinate is moved by (2 uᵢ − 1) · CDELTᵢ / 2, RA with CDELT1 and the first extra variate, DEC with CDELT2 and
the second -/
theorem gen_rvs_randomized (cdf : List ℝ) (nrows ncols : Nat) (w : Nat → Nat → ℝ × ℝ) (c1 c2 u u1 u2 : ℝ) :
    Gen.Img.rvs_coordinates cdf nrows ncols w c1 c2 true u u1 u2 =
      ((Gen.Img.rvs_coordinates cdf nrows ncols w c1 c2 false u u1 u2).1 + (2 * u1 - 1) * (c1 / 2),
       (Gen.Img.rvs_coordinates cdf nrows ncols w c1 c2 false u u1 u2).2 + (2 * u2 - 1) * (c2 / 2)) := by
  simp only [Gen.Img.rvs_coordinates]
  rl_simp
  simp only [if_true, Bool.false_eq_true, if_false, Prod.mk.injEq]
  constructor <;> norm_num <;> ring

/-- … so the event stays within half a pixel of the pixel centre on each axis -/
theorem gen_rvs_within_pixel (cdf : List ℝ) (nrows ncols : Nat) (w : Nat → Nat → ℝ × ℝ) (c1 c2 u u1 u2 : ℝ)
    (h1 : 0 ≤ u1 ∧ u1 ≤ 1) (h2 : 0 ≤ u2 ∧ u2 ≤ 1) :
    |(Gen.Img.rvs_coordinates cdf nrows ncols w c1 c2 true u u1 u2).1 - (Gen.Img.rvs_coordinates cdf nrows ncols w c1 c2 false u u1 u2).1| ≤ |c1| / 2 ∧
    |(Gen.Img.rvs_coordinates cdf nrows ncols w c1 c2 true u u1 u2).2 - (Gen.Img.rvs_coordinates cdf nrows ncols w c1 c2 false u u1 u2).2| ≤ |c2| / 2 := by
  rw [gen_rvs_randomized]
  simp only [add_sub_cancel_left]
  have key : ∀ (v c : ℝ), 0 ≤ v → v ≤ 1 → |(2 * v - 1) * (c / 2)| ≤ |c| / 2 := by
    intro v c hv0 hv1
    rw [abs_mul, abs_div, abs_two]
    have : |2 * v - 1| ≤ 1 := by rw [abs_le]; constructor <;> linarith
    calc |2 * v - 1| * (|c| / 2) ≤ 1 * (|c| / 2) := by
          apply mul_le_mul_of_nonneg_right this; positivity
      _ = |c| / 2 := by ring
  exact ⟨key u1 c1 h1.1 h1.2, key u2 c2 h2.1 h2.2⟩

/-- `numpy.cumsum`: entry i is the accumulated value plus the sum of the first i + 1 entries -/
theorem cumsum_get (data : List ℝ) (acc : ℝ) (i : Nat) (hi : i < data.length) :
    (Gen.Img.cumsum acc data)[i]? = some (acc + (data.take (i + 1)).sum) := by
  induction data generalizing acc i with
  | nil => simp at hi
  | cons x xs ih =>
    cases i with
    | zero => simp [Gen.Img.cumsum]
    | succ i =>
      simp only [Gen.Img.cumsum, List.getElem?_cons_succ, List.take_succ_cons, List.sum_cons]
      rw [ih (acc + x) i (by simpa using hi)]
      congr 1; ring

theorem cumsum_length (data : List ℝ) (acc : ℝ) : (Gen.Img.cumsum acc data).length = data.length := by
  induction data generalizing acc with
  | nil => rfl
  | cons x xs ih => simp [Gen.Img.cumsum, ih]

/-- **the regenerated `_build_cdf`**: entry i is the share of the image carried by the pixels up to i (row-major), so that pixel i owns an interval
of length dataᵢ / Σ data -/
theorem gen_build_cdf_get (data : List ℝ) (i : Nat) (hi : i < data.length) :
    (Gen.Img.build_cdf data)[i]? = some ((data.take (i + 1)).sum / data.sum) := by
  unfold Gen.Img.build_cdf
  have hlast : (Gen.Img.cumsum (0.0 : ℝ) data).getLast?.getD (0.0 : ℝ) = data.sum := by
    have hl := cumsum_length data (0.0 : ℝ)
    have hne : data.length - 1 < data.length := by omega
    rw [List.getLast?_eq_getElem?, hl, cumsum_get data _ (data.length - 1) hne]
    have : data.length - 1 + 1 = data.length := by omega
    simp only [this, List.take_length, Option.getD_some]
    norm_num
  simp only [hlast, List.getElem?_map, cumsum_get data _ i hi, Option.map_some]
  norm_num

theorem gen_pixel_share (data : List ℝ) (i : Nat) (hi : i + 1 < data.length) (a b : ℝ)
    (ha : (Gen.Img.build_cdf data)[i]? = some a) (hb : (Gen.Img.build_cdf data)[i + 1]? = some b) :
    b - a = data[i + 1] / data.sum := by
  rw [gen_build_cdf_get data i (by omega)] at ha
  rw [gen_build_cdf_get data (i + 1) hi] at hb
  simp only [Option.some.injEq] at ha hb
  subst ha hb
  rw [List.take_add_one (i := i + 1), List.sum_append]
  simp [List.getElem?_eq_getElem hi]
  ring

example : Gen.Img.searchLeft [(0.25 : ℝ), 0.5, 1.0] 0.3 = 1 := by
  rw [gen_search_spec]
  refine ⟨by simp, ?_, ?_⟩
  · intro i v hv hi
    have : i = 0 := by omega
    subst this; simp at hv; subst hv; norm_num
  · intro v hv; simp at hv; subst hv; norm_num

end C16Gen
end
