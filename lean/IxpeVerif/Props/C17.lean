import IxpeVerif.RealInst
import IxpeVerif.Model.Ephemeris
import IxpeVerif.Gen.ImpR
/-!
# C17 — pulse phase and time are consistent for periodic sources

About `Eph.fold` / `Eph.phaseAt` (hand-written on the generated Taylor polynomials) at ℝ.
The spline inversion phase→time (`phase_to_met`, FITPACK) is a parameter `inv` with the hypothesis that it inverts the
Taylor phase; its accuracy is measured by the harness (partial).
-/
open Real
noncomputable section
namespace C17
open Eph

theorem phaseAt_real (met0 nu0 nud nudd t : ℝ) :
    phaseAt met0 nu0 nud nudd t = nu0 * (t - met0) + nud * (t - met0) ^ 2 / 2 + nudd * (t - met0) ^ 3 / 6 := by
  simp only [phaseAt, Gen.eph_met_to_phase]; rl_simp; norm_num; ring

/-- the re-referenced expansion used by `fold` is exactly φ(t) − φ(start): folding does not depend on the epoch -/
theorem fold_is_fract (met0 nu0 nud nudd met start phi0 : ℝ) :
    fold met0 nu0 nud nudd met start phi0
      = Int.fract (phaseAt met0 nu0 nud nudd met - phaseAt met0 nu0 nud nudd start + phi0) := by
  have key : Gen.eph_met_to_phase (Gen.eph_nu nu0 nud nudd (start - met0)) (Gen.eph_nudot nud nudd (start - met0)) nudd (met - start)
      = phaseAt met0 nu0 nud nudd met - phaseAt met0 nu0 nud nudd start := by
    simp only [phaseAt, Gen.eph_met_to_phase, Gen.eph_nu, Gen.eph_nudot]; rl_simp; norm_num; ring
  simp only [fold, key]; rl_simp
  have e1 : (1.0:ℝ) = 1 := by norm_num
  simp only [e1, div_one, mul_one]
  rw [Int.fract]

/-- folded phases lie in [0, 1) -/
theorem fold_range (met0 nu0 nud nudd met start phi0 : ℝ) :
    0 ≤ fold met0 nu0 nud nudd met start phi0 ∧ fold met0 nu0 nud nudd met start phi0 < 1 := by
  rw [fold_is_fract]; exact ⟨Int.fract_nonneg _, Int.fract_lt_one _⟩

/-- time → phase → time and phase → time → phase are identities for any exact inverse of the Taylor phase -/
theorem roundtrip (met0 nu0 nud nudd : ℝ) (inv : ℝ → ℝ) (h : ∀ p, phaseAt met0 nu0 nud nudd (inv p) = p)
    (hinj : Function.Injective (phaseAt met0 nu0 nud nudd)) (t : ℝ) : inv (phaseAt met0 nu0 nud nudd t) = t :=
  hinj (h _)

/-- Folding the times generated for a periodic source reproduces the pulse phases they were generated with:
`met = inv(φ(start) + k + ψ)` with `k` whole periods and pulse phase `ψ ∈ [0, 1)` folds back to `ψ`. -/
theorem rvs_fold_roundtrip (met0 nu0 nud nudd start psi : ℝ) (k : ℤ) (inv : ℝ → ℝ)
    (h : ∀ p, phaseAt met0 nu0 nud nudd (inv p) = p) (h0 : 0 ≤ psi) (h1 : psi < 1) :
    fold met0 nu0 nud nudd (inv (phaseAt met0 nu0 nud nudd start + k + psi)) start 0 = psi := by
  rw [fold_is_fract, h]
  have : phaseAt met0 nu0 nud nudd start + ↑k + psi - phaseAt met0 nu0 nud nudd start + 0 = psi + k := by ring
  rw [this, Int.fract_add_intCast, Int.fract_eq_iff]
  exact ⟨h0, h1, 0, by simp⟩

/-- a phase offset φ₀ shifts the folded phase (mod 1) -/
theorem fold_offset (met0 nu0 nud nudd met start phi0 : ℝ) :
    fold met0 nu0 nud nudd met start phi0 = Int.fract (fold met0 nu0 nud nudd met start 0 + phi0) := by
  rw [fold_is_fract, fold_is_fract]
  simp only [add_zero]
  set x := phaseAt met0 nu0 nud nudd met - phaseAt met0 nu0 nud nudd start
  have : Int.fract x + phi0 = x + phi0 - (⌊x⌋ : ℝ) := by rw [Int.fract]; ring
  rw [this, Int.fract_sub_intCast]

/-- generated times lie inside the window when the inverse is monotone: phases between φ(start) and φ(stop) map between start and stop -/
theorem rvs_in_window (met0 nu0 nud nudd start stop : ℝ) (inv : ℝ → ℝ) (hmono : Monotone inv)
    (hs : inv (phaseAt met0 nu0 nud nudd start) = start) (he : inv (phaseAt met0 nu0 nud nudd stop) = stop)
    (p : ℝ) (h0 : phaseAt met0 nu0 nud nudd start ≤ p) (h1 : p ≤ phaseAt met0 nu0 nud nudd stop) :
    start ≤ inv p ∧ inv p ≤ stop := by
  exact ⟨hs ▸ hmono h0, he ▸ hmono h1⟩

/-- Share of the events in the last partial period: with `P` whole periods and profile integral `f = cdf(rem)` over the
remainder, giving the tail `N·f/(P + f)` events makes the expected count per unit of profile integral the same in the tail
as in a whole period — i.e. the generated times follow the pulse profile. -/
theorem tail_share (N P f : ℝ) (hP : 0 < P) (hf : 0 < f) :
    (N - N * f / (P + f)) / P = (N * f / (P + f)) / f := by
  have : P + f ≠ 0 := by positivity
  field_simp; ring

/-- regression witness of the repaired defect: the former share N·rem/Δφ is only right when cdf(rem) = rem -/
theorem tail_share_old_fails : ∃ N P r f : ℝ, 0 < P ∧ 0 < f ∧ (N - N * r / (P + r)) / P ≠ (N * r / (P + r)) / f := by
  refine ⟨7, 3, 1/2, 1/100, by norm_num, by norm_num, by norm_num⟩

/-! ### T-tie of the methods: `_dt`, `nu`, `nudot`, `met_to_phase`, `fold` regenerated with their calls to each other (`Gen/ImpR.lean`) -/

/-- the generated `met_to_phase` (which calls the generated `_dt`) is the Taylor phase of the model -/
theorem gen_met_to_phase_eq_model (met0 nu0 nud nudd t : ℝ) :
    Gen.ImpR.ephemeris_met_to_phase met0 nu0 nud nudd t = phaseAt met0 nu0 nud nudd t := by
  simp only [Gen.ImpR.ephemeris_met_to_phase, Gen.ImpR.ephemeris_dt, phaseAt, Gen.eph_met_to_phase]

/-- **the generated `fold` is the model**: re-reference at `start_met` through the generated `nu`, `nudot`, evaluate the generated `met_to_phase`
of the re-referenced ephemeris, add the offset, take the value modulo one -/
theorem gen_fold_eq_model (met0 nu0 nud nudd met start phi0 : ℝ) :
    Gen.ImpR.ephemeris_fold met0 nu0 nud nudd met start phi0 = fold met0 nu0 nud nudd met start phi0 := by
  simp only [Gen.ImpR.ephemeris_fold, Gen.ImpR.ephemeris_met_to_phase, Gen.ImpR.ephemeris_nu, Gen.ImpR.ephemeris_nudot, Gen.ImpR.ephemeris_dt, fold,
    Gen.eph_met_to_phase, Gen.eph_nu, Gen.eph_nudot]
  rl_simp
  have e1 : (1.0:ℝ) = 1 := by norm_num
  simp only [e1, div_one, mul_one]

/-- the headline statements on the current source: the fold is the fractional part of φ(t) − φ(start) + φ₀ for every epoch, lies in [0, 1) … -/
theorem gen_fold_is_fract (met0 nu0 nud nudd met start phi0 : ℝ) :
    Gen.ImpR.ephemeris_fold met0 nu0 nud nudd met start phi0
      = Int.fract (Gen.ImpR.ephemeris_met_to_phase met0 nu0 nud nudd met - Gen.ImpR.ephemeris_met_to_phase met0 nu0 nud nudd start + phi0) := by
  rw [gen_fold_eq_model, gen_met_to_phase_eq_model, gen_met_to_phase_eq_model]; exact fold_is_fract ..

theorem gen_fold_range (met0 nu0 nud nudd met start phi0 : ℝ) :
    0 ≤ Gen.ImpR.ephemeris_fold met0 nu0 nud nudd met start phi0 ∧ Gen.ImpR.ephemeris_fold met0 nu0 nud nudd met start phi0 < 1 := by
  rw [gen_fold_eq_model]; exact fold_range ..

/-- … and folding the times generated for a periodic source (any exact inverse of the generated phase) gives back the pulse phases -/
theorem gen_rvs_fold_roundtrip (met0 nu0 nud nudd start psi : ℝ) (k : ℤ) (inv : ℝ → ℝ)
    (h : ∀ p, Gen.ImpR.ephemeris_met_to_phase met0 nu0 nud nudd (inv p) = p) (h0 : 0 ≤ psi) (h1 : psi < 1) :
    Gen.ImpR.ephemeris_fold met0 nu0 nud nudd (inv (Gen.ImpR.ephemeris_met_to_phase met0 nu0 nud nudd start + k + psi)) start 0 = psi := by
  simp only [gen_fold_eq_model, gen_met_to_phase_eq_model] at h ⊢
  exact rvs_fold_roundtrip met0 nu0 nud nudd start psi k inv h h0 h1

/-- non-vacuity of the inverse hypothesis: a constant-frequency ephemeris has the exact inverse p ↦ met0 + p/ν₀ -/
example (met0 nu0 : ℝ) (h : nu0 ≠ 0) : ∀ p, phaseAt met0 nu0 0 0 (met0 + p / nu0) = p := by
  intro p; rw [phaseAt_real]; field_simp; ring

end C17
end
