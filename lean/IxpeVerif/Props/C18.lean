import IxpeVerif.Model.Gti
import IxpeVerif.Lemmas.ImpTie
import IxpeVerif.Lemmas.TimelineTie
/-!
# C18 — GTI algebra, timeline-derived GTIs and binned exposures are exact (core Lean only)
-/
namespace Gti

theorem filter_exact (gtis : List Ivl) (ts : List Int) (t : Int) :
    t ∈ (filterTimes gtis ts).1 ↔ t ∈ ts ∧ ∃ g ∈ gtis, g.1 ≤ t ∧ t ≤ g.2 := by
  simp [filterTimes, inSome, List.mem_filter]

theorem filter_sublist (gtis : List Ivl) (ts : List Int) : ((filterTimes gtis ts).1).Sublist ts :=
  List.filter_sublist

theorem mask_aligned (gtis : List Ivl) (ts : List Int) :
    (filterTimes gtis ts).2.length = ts.length ∧
    (filterTimes gtis ts).1 = (ts.zip (filterTimes gtis ts).2).filterMap (fun p => if p.2 then some p.1 else none) := by
  constructor
  · simp [filterTimes]
  · simp only [filterTimes]
    induction ts with
    | nil => simp
    | cons t rest ih =>
      simp only [List.filter_cons, List.map_cons, List.zip_cons_cons, List.filterMap_cons]
      cases h : inSome gtis t <;> simp [ih]

theorem foldl_add_init (l : List Int) (a : Int) : l.foldl (· + ·) a = a + l.foldl (· + ·) 0 := by
  induction l generalizing a with
  | nil => simp
  | cons x xs ih => simp only [List.foldl_cons]; rw [ih (a + x), ih (0 + x)]; omega

/-- the list and its complement tile the span between the first start and the last stop -/
theorem complement_tiles : ∀ (l : List Ivl) (s e : Int), l.head? = some (s, e) →
    ∀ last, l.getLast? = some last → total l + total (complement l) = last.2 - s
  | [], _, _, h, _, _ => by simp at h
  | [(s0, e0)], s, e, h, last, hl => by
    simp at h hl; obtain ⟨rfl, rfl⟩ := h; subst hl
    simp [total, complement]
  | (s0, e0) :: (s1, e1) :: rest, s, e, h, last, hl => by
    simp at h; obtain ⟨rfl, rfl⟩ := h
    have ih := complement_tiles ((s1, e1) :: rest) s1 e1 rfl last (by simpa [List.getLast?_cons_cons] using hl)
    simp only [total, complement, List.map_cons, List.foldl_cons] at ih ⊢
    rw [foldl_add_init _ (0 + (e1 - s1))] at ih
    rw [foldl_add_init _ (0 + (e0 - s0) + (e1 - s1)), foldl_add_init _ (0 + (s1 - e0))]
    omega

theorem gti_list_spec (minDur padA padB : Int) (eps : List Epoch) (g : Ivl) :
    g ∈ gtiList minDur padA padB eps ↔
      ∃ e ∈ eps, e.saa = false ∧ e.occ = false ∧ e.stop - e.start > minDur + padA + padB ∧
        g = (e.start + padA, e.stop - padB) := by
  simp only [gtiList, List.mem_map, List.mem_filter]
  constructor
  · rintro ⟨e, ⟨he, hc⟩, rfl⟩
    simp at hc
    exact ⟨e, he, hc.1.2, hc.2, hc.1.1, rfl⟩
  · rintro ⟨e, he, h1, h2, h3, rfl⟩
    exact ⟨e, ⟨he, by simp [h1, h2, h3]⟩, rfl⟩

/-- shrunk GTIs keep a positive duration larger than the minimum -/
theorem gti_list_duration (minDur padA padB : Int) (eps : List Epoch) (g : Ivl)
    (h : g ∈ gtiList minDur padA padB eps) : g.2 - g.1 > minDur := by
  obtain ⟨e, _, _, _, h3, rfl⟩ := (gti_list_spec minDur padA padB eps g).mp h
  simp; omega

/-- sorted, disjoint, well-formed GTIs -/
def GtiOk : List (Int × Int) → Prop
  | [] => True
  | [g] => g.1 < g.2
  | g :: h :: rest => g.1 < g.2 ∧ g.2 ≤ h.1 ∧ GtiOk (h :: rest)

theorem GtiOk.tail {g : Int × Int} {rest : List (Int × Int)} (h : GtiOk (g :: rest)) : GtiOk rest := by
  cases rest with
  | nil => trivial
  | cons a r => exact h.2.2

theorem GtiOk.head {g : Int × Int} {rest : List (Int × Int)} (h : GtiOk (g :: rest)) : g.1 < g.2 := by
  cases rest with
  | nil => exact h
  | cons a r => exact h.1

/-- once a GTI starts at or after `b`, nothing later overlaps a bin ending at `b` -/
theorem sumOverlap_after (emin emax b : Int) (hb : emax ≤ b) :
    ∀ (l : List (Int × Int)), GtiOk l → (∀ g, l.head? = some g → b ≤ g.1) → sumOverlap emin emax l = 0
  | [], _, _ => rfl
  | [g], hok, hh => by
    have := hh g rfl
    simp [sumOverlap, overlap]; omega
  | g :: h :: rest, hok, hh => by
    have h1 := hh g rfl
    have ih := sumOverlap_after emin emax b hb (h :: rest) hok.2.2 (by intro x hx; simp at hx; subst hx; have := hok.1; have := hok.2.1; omega)
    simp only [sumOverlap] at ih ⊢
    rw [ih]; simp [overlap]; omega

theorem binGti_eq (emin emax : Int) (hbin : emin < emax) :
    ∀ (l : List (Int × Int)), GtiOk l → binGti emin emax l = sumOverlap emin emax l
  | [], _ => rfl
  | (start, stop) :: rest, hok => by
    have hlt : start < stop := hok.head
    have ih := binGti_eq emin emax hbin rest hok.tail
    have hafter : emax ≤ stop → sumOverlap emin emax rest = 0 := by
      intro hs
      apply sumOverlap_after emin emax stop hs rest hok.tail
      intro g hg
      cases rest with
      | nil => simp at hg
      | cons a r => simp at hg; subst hg; exact hok.2.1
    simp only [binGti, sumOverlap, overlap]
    rw [ih]
    by_cases hs : emax ≤ stop
    · have h0 := hafter hs
      rw [h0]
      grind
    · grind


/-- `octi_list`: occulted ∧ not in the SAA, shrunk by the paddings, kept iff longer than min + paddings -/
theorem octi_list_spec (minDur padA padB : Int) (eps : List Epoch) (g : Ivl) :
    g ∈ octiList minDur padA padB eps ↔
      ∃ e ∈ eps, e.occ = true ∧ e.saa = false ∧ e.stop - e.start > minDur + padA + padB ∧
        g = (e.start + padA, e.stop - padB) := by
  simp only [octiList, List.mem_map, List.mem_filter]
  constructor
  · rintro ⟨e, ⟨he, hc⟩, rfl⟩
    simp at hc
    exact ⟨e, he, hc.1.2, hc.2, hc.1.1, rfl⟩
  · rintro ⟨e, he, h1, h2, h3, rfl⟩
    exact ⟨e, ⟨he, by simp [h1, h2, h3]⟩, rfl⟩

/-- The flag assigned by bisecting at the epoch centre is the flag of *every* interior point of the epoch, provided no
SAA/occultation boundary lies strictly inside the epoch (which holds because the epoch boundaries are the sorted union
of all those boundaries). `t2`, `c2` are doubled times strictly inside (2·start, 2·stop). -/
theorem epoch_flags_constant (arr : List Int) (s e t2 c2 : Int)
    (hno : ∀ a ∈ arr, a ≤ s ∨ e ≤ a) (ht : 2 * s < t2 ∧ t2 < 2 * e) (hc : 2 * s < c2 ∧ c2 < 2 * e) :
    bisectOdd2 arr t2 = bisectOdd2 arr c2 := by
  unfold bisectOdd2
  have : (arr.filter fun a => decide (2 * a < t2)) = (arr.filter fun a => decide (2 * a < c2)) := by
    apply List.filter_congr
    intro a ha
    rcases hno a ha with h | h
    · have h1 : 2 * a < t2 := by omega
      have h2 : 2 * a < c2 := by omega
      simp [h1, h2]
    · have h1 : ¬ 2 * a < t2 := by omega
      have h2 : ¬ 2 * a < c2 := by omega
      simp [h1, h2]
  rw [this]

/-- the epochs produced by `_calculate_epochs` tile the list of boundaries: consecutive epochs share a bound -/
theorem calcEpochs_length (saa occ : List Int) : ∀ mets : List Int, (calcEpochs saa occ mets).length = mets.length - 1
  | [] => rfl
  | [_] => rfl
  | a :: b :: rest => by simp [calcEpochs, calcEpochs_length saa occ (b :: rest)]

/-! ### the trajectory layer: closing the transition list (`_generic_binary_search`) -/

theorem entrOf_head (s0 : Bool) (n : Nat) (hn : 0 < n) : (entrOf s0 n).head? = some (!s0) := by
  cases n with
  | zero => omega
  | succ k => simp [entrOf, List.range_succ_eq_map]

theorem entrOf_last (s0 : Bool) (n : Nat) (hn : 0 < n) : (entrOf s0 n).getLast? = some (if n % 2 = 1 then !s0 else s0) := by
  cases n with
  | zero => omega
  | succ k =>
    simp only [entrOf, List.range_succ, List.map_append, List.map_cons, List.map_nil, List.getLast?_append, List.getLast?_singleton]
    simp
    by_cases h : k % 2 = 0
    · have : (k + 1) % 2 = 1 := by omega
      simp [h, this]
    · have h2 : (k + 1) % 2 = 0 := by omega
      simp [h, h2]

/-- **the closed transition list encodes the status**: for every time `t` of the window that is not a mark, `_bisect_odd` on the closed list
says "inside" exactly when the alternating status that is `s0` at the window start, and flips at each located transition, is true at `t` -/
theorem close_ends_bisect (start stop : Int) (s0 : Bool) (ts : List Int) (t : Int) (hne : ts ≠ []) (h1 : start < t) (h2 : t ≤ stop) :
    bisectOdd (closeEnds start stop s0 ts (entrOf s0 ts.length)) t = (s0 ^^ bisectOdd ts t) := by
  have hn : 0 < ts.length := List.length_pos_iff.mpr hne
  have he : ts.isEmpty = false := by cases ts <;> simp_all
  simp only [closeEnds, he, entrOf_head s0 _ hn, entrOf_last s0 _ hn, bisectOdd]
  have hs : ¬ stop < t := by omega
  cases s0 <;> by_cases hp : ts.length % 2 = 1 <;> simp [hp, h1, hs]
  all_goals
    generalize (List.filter (fun a => decide (a < t)) ts).length = k
    rcases Nat.mod_two_eq_zero_or_one k with h | h <;> simp [h, Nat.add_mod]

/-- … and it always has an even number of marks: it can be read as (entrance, exit) pairs -/
theorem close_ends_even (start stop : Int) (s0 : Bool) (ts : List Int) :
    (closeEnds start stop s0 ts (entrOf s0 ts.length)).length % 2 = 0 := by
  by_cases hne : ts = []
  · subst hne; cases s0 <;> simp [closeEnds]
  · have hn : 0 < ts.length := List.length_pos_iff.mpr hne
    have he : ts.isEmpty = false := by cases ts <;> simp_all
    simp only [closeEnds, he, entrOf_head s0 _ hn, entrOf_last s0 _ hn]
    cases s0 <;> by_cases hp : ts.length % 2 = 1 <;> simp [hp] <;> omega

/-- closing only "when the number of transitions is odd" (a plausible simplification) is wrong: a window that starts and ends inside an
epoch has an even number of transitions and needs both ends -/
theorem close_ends_needs_both : closeEnds 0 100 true [10, 20] (entrOf true 2) = [0, 10, 20, 100] ∧
    bisectOdd [10, 20] 5 = false := by decide

/-- `_bin_gti` is only correct on sorted GTIs: an out-of-order list loses exposure (the `break`) -/
theorem bin_gti_needs_sorted : binGti 0 10 [(5, 20), (1, 3)] = 5 ∧ sumOverlap 0 10 [(5, 20), (1, 3)] = 7 := by decide

/-- non-vacuity: a bin straddling two GTIs and a gap -/
example : GtiOk [(0, 300), (500, 900), (1000, 1400)] ∧ binGti 200 1200 [(0, 300), (500, 900), (1000, 1400)] = 700 := by
  refine ⟨by simp [GtiOk], by decide⟩

/-! ### T-tie: the same statements about the definitions regenerated from the source (`Gen/Imp.lean`) -/

/-- the loop of `xEventBinningLC._bin_gti`, translated with its `break`/`continue` structure, is the model -/
theorem gen_bin_gti_eq_model (emin emax : Int) (starts stops : List Int) :
    Gen.Imp.bin_gti emin emax starts stops = binGti emin emax (List.zip starts stops) := ImpTie.gen_bin_gti_eq_model emin emax starts stops

/-- **exposure of a light-curve bin, on the current source**: for sorted disjoint GTIs the loop returns the total overlap of the bin with the GTIs -/
theorem gen_bin_gti_eq_overlap (emin emax : Int) (hbin : emin < emax) (starts stops : List Int) (hok : GtiOk (List.zip starts stops)) :
    Gen.Imp.bin_gti emin emax starts stops = sumOverlap emin emax (List.zip starts stops) := by
  rw [gen_bin_gti_eq_model, binGti_eq emin emax hbin _ hok]

theorem gen_filter_event_times_eq_model (gtis : List Ivl) (ts : List Int) :
    Gen.Imp.filter_event_times gtis ts = filterTimes gtis ts := ImpTie.gen_filter_event_times_eq_model gtis ts

/-- **filtering by a GTI list keeps exactly the times inside some interval, on the current source** -/
theorem gen_filter_exact (gtis : List Ivl) (ts : List Int) (t : Int) :
    t ∈ (Gen.Imp.filter_event_times gtis ts).1 ↔ t ∈ ts ∧ ∃ g ∈ gtis, g.1 ≤ t ∧ t ≤ g.2 := by
  rw [gen_filter_event_times_eq_model]; exact filter_exact gtis ts t

theorem gen_filter_sublist (gtis : List Ivl) (ts : List Int) : ((Gen.Imp.filter_event_times gtis ts).1).Sublist ts := by
  rw [gen_filter_event_times_eq_model]; exact filter_sublist gtis ts

theorem gen_complement_eq_model (l : List Ivl) : Gen.Imp.gti_complement l = complement l := ImpTie.gen_complement_eq_model l

theorem gen_total_good_time_eq_model (l : List Ivl) : Gen.Imp.total_good_time l = total l := ImpTie.gen_total_good_time_eq_model l

/-- **the list and its complement tile the span, on the current source** (`total_good_time`, `complement`, `all_mets` as generated) -/
theorem gen_complement_tiles (l : List Ivl) (s e : Int) (h : l.head? = some (s, e)) (last : Ivl) (hl : l.getLast? = some last) :
    Gen.Imp.total_good_time l + Gen.Imp.total_good_time (Gen.Imp.gti_complement l) = last.2 - s := by
  rw [gen_complement_eq_model, gen_total_good_time_eq_model, gen_total_good_time_eq_model]
  exact complement_tiles l s e h last hl

example : Gen.Imp.bin_gti 0 10 [1, 5, 12] [3, 11, 20] = 7 ∧ Gen.Imp.gti_complement [(0, 3), (5, 8), (9, 12)] = [(3, 5), (8, 9)] ∧
    Gen.Imp.filter_event_times [(0, 3), (5, 8)] [1, 4, 5, 9] = ([1, 5], [true, false, true, false]) := by decide

/-! ### T-tie of the observation timeline: `xTimelineEpoch.shrink/isgti/isocti`, `xTimeInterval.bounds/duration`,
`xObservationTimeline._bisect_odd/_calculate_epochs/filter_epochs/gti_list/octi_list` regenerated from `instrument/traj.py` and `utils/time_.py` -/

/-- the generated `gti_list` (filter by duration, keep the epochs that are neither in the SAA nor occulted, shrink, take the bounds) is the model -/
theorem gen_timeline_gti_list_eq_model (eps : List Np.Epoch) (m a b : Int) :
    Gen.Imp.timeline_gti_list eps m a b = gtiList m a b (eps.map TimelineTie.conv) := TimelineTie.gen_gti_list_eq_model eps m a b

theorem gen_timeline_octi_list_eq_model (eps : List Np.Epoch) (m a b : Int) :
    Gen.Imp.timeline_octi_list eps m a b = octiList m a b (eps.map TimelineTie.conv) := TimelineTie.gen_octi_list_eq_model eps m a b

theorem gen_filter_epochs_eq_model (eps : List Np.Epoch) (m a b : Int) :
    (Gen.Imp.filter_epochs eps m a b).map TimelineTie.conv = filterEpochs m a b (eps.map TimelineTie.conv) :=
  TimelineTie.gen_filter_epochs_eq_model eps m a b

/-- `_bisect_odd` (a `searchsorted`) is the parity of the number of marks below the value, on a sorted array of marks -/
theorem gen_bisect_odd_eq_model (arr : List Int) (v : Int) (hs : arr.Pairwise (· ≤ ·)) :
    Gen.Imp.bisect_odd arr v = bisectOdd arr v := TimelineTie.gen_bisect_odd_eq_model arr v hs

/-- the loop of `_calculate_epochs` (enumerate, index `i + 1`, bisection at `0.5 * (start + stop)`) is the model, for even marks (the midpoint
is then exact on ticks) and sorted SAA / occultation marks -/
theorem gen_calculate_epochs_eq_model (mets saa occ : List Int) (heven : ∀ m ∈ mets, m % 2 = 0)
    (hsaa : saa.Pairwise (· ≤ ·)) (hocc : occ.Pairwise (· ≤ ·)) :
    (Gen.Imp.calculate_epochs mets saa occ).map TimelineTie.conv = calcEpochs saa occ mets :=
  TimelineTie.gen_calculate_epochs_eq_model mets saa occ heven hsaa hocc

/-- **timeline-derived GTIs, on the current source**: an interval is returned iff it is an epoch that is neither in the SAA nor occulted, longer
than the minimum duration plus the paddings, shrunk by the start / stop padding -/
theorem gen_gti_list_spec (eps : List Np.Epoch) (m a b : Int) (g : Ivl) :
    g ∈ Gen.Imp.timeline_gti_list eps m a b ↔
      ∃ e ∈ eps, e.in_saa = false ∧ e.occulted = false ∧ e.stop_met - e.start_met > m + a + b ∧ g = (e.start_met + a, e.stop_met - b) := by
  rw [gen_timeline_gti_list_eq_model, gti_list_spec]
  constructor
  · rintro ⟨e', he', h⟩
    obtain ⟨e, he, rfl⟩ := List.mem_map.mp he'
    exact ⟨e, he, h⟩
  · rintro ⟨e, he, h⟩
    exact ⟨TimelineTie.conv e, List.mem_map.mpr ⟨e, he, rfl⟩, h⟩

/-- **calibration intervals, on the current source**: occulted and not in the SAA -/
theorem gen_octi_list_spec (eps : List Np.Epoch) (m a b : Int) (g : Ivl) :
    g ∈ Gen.Imp.timeline_octi_list eps m a b ↔
      ∃ e ∈ eps, e.occulted = true ∧ e.in_saa = false ∧ e.stop_met - e.start_met > m + a + b ∧ g = (e.start_met + a, e.stop_met - b) := by
  rw [gen_timeline_octi_list_eq_model, octi_list_spec]
  constructor
  · rintro ⟨e', he', h⟩
    obtain ⟨e, he, rfl⟩ := List.mem_map.mp he'
    exact ⟨e, he, h⟩
  · rintro ⟨e, he, h⟩
    exact ⟨TimelineTie.conv e, List.mem_map.mpr ⟨e, he, rfl⟩, h⟩

/-- every GTI of the generated `gti_list` is longer than the requested minimum duration -/
theorem gen_gti_list_duration (eps : List Np.Epoch) (m a b : Int) (g : Ivl) (h : g ∈ Gen.Imp.timeline_gti_list eps m a b) : g.2 - g.1 > m := by
  rw [gen_timeline_gti_list_eq_model] at h; exact gti_list_duration m a b _ g h

/-- the generated chain marks → epochs → GTIs on a concrete timeline: SAA during [40, 60], occultation during [20, 50] and [80, 100] -/
example : Gen.Imp.timeline_gti_list (Gen.Imp.calculate_epochs [0, 20, 40, 50, 60, 80, 100, 120] [40, 60] [20, 50, 80, 100]) 5 2 4 = [(2, 16), (62, 76), (102, 116)] ∧
    Gen.Imp.timeline_octi_list (Gen.Imp.calculate_epochs [0, 20, 40, 50, 60, 80, 100, 120] [40, 60] [20, 50, 80, 100]) 5 2 4 = [(22, 36), (82, 96)] := by decide

end Gti
