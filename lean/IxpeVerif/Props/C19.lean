import IxpeVerif.RealInst
import IxpeVerif.Lemmas.NdArray
import IxpeVerif.Lemmas.Calendar
import IxpeVerif.Model.HistIO
import IxpeVerif.Model.Columns
import IxpeVerif.Gen.Specs
import IxpeVerif.Gen.HistGen
import Mathlib.Logic.Function.Iterate

/-!
# C19 — what is written to FITS is what is read back

Property theorems only; helper lemmas live in `Lemmas/NdArray.lean` and `Lemmas/Calendar.lean`.

* histograms: `save`/`from_file` with the transposed images, for every dimensionality and shape; `copy`; arithmetic;
  the invariant `sumw2 ≥ 0` that the load theorem needs, for every reachable histogram;
* column specs: the generated `DATA_SPECS` tables are well formed; the tuple unpacking of `xBinTableHDUBase.__init__`
  keeps name, format and units of 2-, 3- and 4-field items; integer casts; idempotence of a rewrite;
* header: `TELAPSE = TSTOP − TSTART`; `DATE-OBS`/`DATE-END` are the calendar images of `TSTART`/`TSTOP` and parse back
  to them, for every instant (proleptic Gregorian calendar on integer microseconds); the mission epoch constants agree.

Byte-level FITS encoding is astropy's and single-precision rounding is IEEE's: both enter as parameters (`r32`) with
the one property used (idempotence) stated as a hypothesis; the correspondence check exercises them on the real files.
-/

namespace C19
open Nd HistIO Cols Cal

/-! ## Histograms (core/hist.py) -/

theorem same_map_sq_sqrt (a : Arr ℝ) (h : ∀ i ∈ indices a.shape, 0 ≤ a.get i) :
    ((a.map RealLike.sqrt).map fun x => x * x).Same a := by
  refine ⟨rfl, fun i hi => ?_⟩
  simp only [Arr.map, rl_sqrt]
  exact Real.mul_self_sqrt (h i hi)

/-- **Save then load gives the histogram back**, for every number of axes and every shape: content and entries
exactly, `sumw2` because `(√x)² = x` on non-negative sums of squared weights, labels exactly, the binning at the
declared single precision of the `EDGES` column. -/
theorem hist_load_save (r32 : ℝ → ℝ) (h : Hist ℝ) (hs : ∀ i ∈ indices h.sumw2.shape, 0 ≤ h.sumw2.get i) :
    (load (h.save r32)).Same { h with binning := h.binning.map (·.map r32) } := by
  refine ⟨rfl, rfl, load_save_image _ _, load_save_image _ _, ?_⟩
  simp only [load, Hist.save, Hist.setContent, Hist.setErrors, new]
  have h1 : ((h.sumw2.T.toImage.toArr (0.0 : ℝ)).T).Same h.sumw2 := load_save_image _ _
  exact ((h1.map RealLike.sqrt).map _).trans (same_map_sq_sqrt _ hs)

/-- the errors come back too (they are what `from_file` hands to `set_content`) -/
theorem hist_load_save_errors (r32 : ℝ → ℝ) (h : Hist ℝ) (hs : ∀ i ∈ indices h.sumw2.shape, 0 ≤ h.sumw2.get i) :
    (load (h.save r32)).errors.Same h.errors :=
  (hist_load_save r32 h hs).2.2.2.2.map _

/-- what is written depends only on the observable state -/
theorem save_congr (r32 : ℝ → ℝ) {h k : Hist ℝ} (e : h.Same k) : h.save r32 = k.save r32 := by
  obtain ⟨e1, e2, e3, e4, e5⟩ := e
  simp only [Hist.save, e1, e2, e3.T.toImage, e4.T.toImage, e5.T.toImage]

theorem load_sumw2_nonneg (f : File ℝ) : ∀ i ∈ indices (load f).sumw2.shape, 0 ≤ (load f).sumw2.get i := by
  intro i _
  simp only [load, Hist.setContent, Hist.setErrors, new, Arr.map]
  exact mul_self_nonneg _

/-- **Any number of save/load cycles**: after the first cycle nothing changes any more (the first one rounds the
edges to single precision, which is idempotent). -/
theorem hist_cycles_stable (r32 : ℝ → ℝ) (hr : ∀ x, r32 (r32 x) = r32 x) (h : Hist ℝ) (n : ℕ) :
    ((fun k => load (k.save r32))^[n + 1] h).Same (load (h.save r32)) := by
  induction n with
  | zero => exact ⟨rfl, rfl, Arr.Same.refl _, Arr.Same.refl _, Arr.Same.refl _⟩
  | succ n ih =>
    rw [Function.iterate_succ_apply']
    have e := save_congr r32 ih
    rw [e]
    have h2 := hist_load_save r32 (load (h.save r32)) (load_sumw2_nonneg _)
    refine ⟨?_, h2.2.1, h2.2.2.1, h2.2.2.2.1, h2.2.2.2.2⟩
    rw [h2.1]
    simp only [load, Hist.save, Hist.setContent, Hist.setErrors, new, List.map_map]
    congr 1
    funext l
    simp only [Function.comp, List.map_map]
    congr 1
    funext x
    exact hr x

/-- **copy** keeps content, entries, errors, binning and labels (after repair 4 of known_findings.json) -/
theorem hist_copy_eq {α} [RealLike α] (h : Hist α) : h.copy = h := by
  cases h; rfl

/-- the copy made before the repair lost the errors: witness -/
theorem hist_copy_old_drops_errors :
    ∃ h : Hist ℝ, h.sumw2.get [0] = 4 ∧ h.copyOld.sumw2.get [0] = 0 := by
  refine ⟨{ binning := [[0, 1]], labels := [], content := ⟨[1], fun _ => 2⟩, entries := ⟨[1], fun _ => 1⟩,
            sumw2 := ⟨[1], fun _ => 4⟩ }, rfl, ?_⟩
  simp only [Hist.copyOld, Hist.emptyCopy, Hist.setContent, new, zeros]
  rl_simp
  norm_num

/-- sums: `sumw2` adds (through `√(s₁+s₂)` and back) -/
theorem hist_add_sumw2 (h k : Hist ℝ) (i : List ℕ) (h1 : 0 ≤ h.sumw2.get i) (h2 : 0 ≤ k.sumw2.get i) :
    (h.add k).sumw2.get i = h.sumw2.get i + k.sumw2.get i ∧ (h.add k).content.get i = h.content.get i + k.content.get i ∧
      (h.add k).entries.get i = h.entries.get i + k.entries.get i ∧
      (h.sub k).content.get i = h.content.get i - k.content.get i ∧ (h.sub k).sumw2.get i = h.sumw2.get i + k.sumw2.get i := by
  simp only [Hist.add, Hist.sub, Hist.emptyCopy, Hist.setContent, Hist.setErrors, new, Arr.map, Arr.zip]
  rl_simp
  refine ⟨Real.mul_self_sqrt (add_nonneg h1 h2), trivial, trivial, trivial, Real.mul_self_sqrt (add_nonneg h1 h2)⟩

/-- scaling by `v` multiplies the content by `v` and `sumw2` by `v²` -/
theorem hist_scale (h : Hist ℝ) (v : ℝ) (i : List ℕ) (h1 : 0 ≤ h.sumw2.get i) :
    (h.scale v).content.get i = h.content.get i * v ∧ (h.scale v).sumw2.get i = h.sumw2.get i * v ^ 2 ∧
      (h.scale v).entries.get i = h.entries.get i := by
  simp only [Hist.scale, Hist.emptyCopy, Hist.setContent, Hist.setErrors, Hist.errors, new, Arr.map]
  rl_simp
  refine ⟨trivial, ?_, trivial⟩
  have := Real.mul_self_sqrt h1
  calc √(h.sumw2.get i) * v * (√(h.sumw2.get i) * v) = (√(h.sumw2.get i) * √(h.sumw2.get i)) * v ^ 2 := by ring
    _ = _ := by rw [this]

/-! ### T-tie: the methods of `xHistogramBase` regenerated from core/hist.py (`Gen/HistGen.lean`, translator/histtrans.py) are the model -/

theorem gen_set_errors_eq_model {α} [RealLike α] (h : Hist α) (e : Arr α) : Gen.Hist.set_errors h e = h.setErrors e := rfl
theorem gen_errors_eq_model {α} [RealLike α] (h : Hist α) : Gen.Hist.errors h = h.errors := rfl
theorem gen_set_content_eq_model {α} [RealLike α] (h : Hist α) (c : Arr α) (en er : Option (Arr α)) :
    Gen.Hist.set_content h c en er = h.setContent c en er := by
  cases en <;> cases er <;> rfl
theorem gen_empty_copy_eq_model {α} [RealLike α] (h : Hist α) : Gen.Hist.empty_copy h = h.emptyCopy := rfl
theorem gen_copy_eq_model {α} [RealLike α] (h : Hist α) : Gen.Hist.copy h = h.copy := rfl
theorem gen_add_eq_model {α} [RealLike α] (h k : Hist α) : Gen.Hist.hist_add h k = h.add k := rfl
theorem gen_sub_eq_model {α} [RealLike α] (h k : Hist α) : Gen.Hist.hist_sub h k = h.sub k := rfl
theorem gen_mul_eq_model {α} [RealLike α] (h : Hist α) (v : α) : Gen.Hist.hist_mul h v = h.scale v := rfl
theorem gen_save_eq_model {α} [RealLike α] (r32 : α → α) (h : Hist α) : Gen.Hist.save r32 h = h.save r32 := rfl
theorem gen_from_file_eq_model {α} [RealLike α] (f : File α) : Gen.Hist.from_file f = load f := rfl

/-- **save then load gives the histogram back, on the current source** (every number of axes, every shape) -/
theorem gen_hist_load_save (r32 : ℝ → ℝ) (h : Hist ℝ) (hs : ∀ i ∈ indices h.sumw2.shape, 0 ≤ h.sumw2.get i) :
    (Gen.Hist.from_file (Gen.Hist.save r32 h)).Same { h with binning := h.binning.map (·.map r32) } := by
  rw [gen_save_eq_model, gen_from_file_eq_model]; exact hist_load_save r32 h hs

/-- any number of save / load cycles, on the current source -/
theorem gen_hist_cycles_stable (r32 : ℝ → ℝ) (hr : ∀ x, r32 (r32 x) = r32 x) (h : Hist ℝ) (n : ℕ) :
    ((fun k => Gen.Hist.from_file (Gen.Hist.save r32 k))^[n + 1] h).Same (Gen.Hist.from_file (Gen.Hist.save r32 h)) := by
  have e : (fun k : Hist ℝ => Gen.Hist.from_file (Gen.Hist.save r32 k)) = fun k => load (k.save r32) := rfl
  rw [e, gen_save_eq_model, gen_from_file_eq_model]; exact hist_cycles_stable r32 hr h n

/-- a copy is the histogram, errors included, on the current source -/
theorem gen_hist_copy_eq {α} [RealLike α] (h : Hist α) : Gen.Hist.copy h = h := by
  rw [gen_copy_eq_model]; exact hist_copy_eq h


/-- **every reachable histogram has `sumw2 ≥ 0`** (so `hist_load_save` applies to it): a new histogram followed by any
sequence of weighted fills -/
theorem reachable_sumw2_nonneg (b : List (List ℝ)) (l : List String) (fills : List (List ℕ × ℝ)) (i : List ℕ) :
    0 ≤ ((fills.foldl (fun h f => h.fillOne f.1 f.2) (new b l)).sumw2.get i) := by
  suffices H : ∀ h : Hist ℝ, (∀ i, 0 ≤ h.sumw2.get i) → ∀ i, 0 ≤ (fills.foldl (fun h f => h.fillOne f.1 f.2) h).sumw2.get i by
    apply H
    intro j
    simp only [new, zeros]
    rl_simp
    norm_num
  induction fills with
  | nil => intro h hh j; exact hh j
  | cons f fs ih =>
    intro h hh j
    apply ih
    intro j
    simp only [Hist.fillOne]
    split
    · rl_simp; exact add_nonneg (hh j) (mul_self_nonneg _)
    · exact hh j

/-- weighted fill: content, entries and sumw2 of the hit bin move by `w`, `1`, `w²`; every other bin is untouched -/
theorem fill_effect (h : Hist ℝ) (idx : List ℕ) (w : ℝ) (j : List ℕ) :
    (h.fillOne idx w).content.get j = h.content.get j + (if j = idx then w else 0) ∧
    (h.fillOne idx w).entries.get j = h.entries.get j + (if j = idx then 1 else 0) ∧
    (h.fillOne idx w).sumw2.get j = h.sumw2.get j + (if j = idx then w ^ 2 else 0) := by
  simp only [Hist.fillOne]
  by_cases hj : j = idx
  · simp only [hj, if_true]; rl_simp; norm_num; ring
  · simp only [hj, if_false, add_zero, and_self]

/-! ### the layout matters: a loader that moves one axis instead of reversing all of them -/

/-- in two dimensions `moveaxis(a, 0, -1)` *is* the transpose — which is why a 2-d persistency test cannot tell -/
theorem moveaxis_eq_T_2d {α} (a : Arr α) (n m : ℕ) (hs : a.shape = [n, m]) : a.moveFirstToLast.Same a.T := by
  refine ⟨by simp [Arr.moveFirstToLast, Arr.T, hs], ?_⟩
  intro i hi
  simp only [Arr.moveFirstToLast, hs] at hi
  rw [mem_indices] at hi
  obtain ⟨x, y, rfl⟩ : ∃ x y, i = [x, y] := by
    cases hi with
    | cons _ h2 => cases h2 with
      | cons _ h3 => cases h3; exact ⟨_, _, rfl⟩
  simp [Arr.moveFirstToLast, Arr.T]

/-- in three dimensions it is not: a 2×3×4 histogram saved and loaded that way comes back scrambled -/
theorem moveaxis_loader_fails_3d :
    ((((ofFlat [2, 3, 4] (List.range 24) 0).T.toImage).toArr 0).moveFirstToLast).toImage ≠
      (ofFlat [2, 3, 4] (List.range 24) 0).toImage := by decide

/-- …while the real loader returns it (instance of `load_save_image`, evaluated) -/
example : ((((ofFlat [2, 3, 4] (List.range 24) 0).T.toImage).toArr 0).T).toImage = (ofFlat [2, 3, 4] (List.range 24) 0).toImage := by
  decide

/-- the flat buffer of an array rebuilt from a flat buffer is that buffer (what `astropy` reads is what was written) -/
theorem image_roundtrip {α} (m : Image α) (x : α) (h : m.data.length = size m.shape) : (m.toArr x).toImage = m := by
  cases m with
  | mk s d =>
    simp only [Image.toArr, Arr.toImage] at *
    rw [flat_ofFlat _ _ _ h]
    rfl

/-! ## Column specs (core/fitsio.py, */fmt.py) -/

def kw (s : String) : List ℕ := s.toList.map Char.toNat

/-- **every declared table is well formed**: items have 2–4 fields, names are non-empty and distinct within a table,
formats are FITS codes this package knows (generated tables, decided by the kernel) -/
theorem spec_tables_wf : Gen.specTables.all (fun t => tableWF t.2.2) = true := by decide +kernel

/-- the only class-level item without a format is the `MATRIX` column of the response-matrix writer (set at run time) -/
theorem formats_declared :
    (Gen.specTables.filter fun t => (t.2.2.filterMap columnOf).any fun c => c.format.isNone).map (·.1) =
      [kw "irfgen.xBinTableHDUMATRIX"] := by decide +kernel

/-- **names, types and units survive the unpacking**, whatever the length of the item -/
theorem columns_faithful (item : SpecItem) (c : Column) (h : columnOf item = some c) :
    some c.name = item.getD 0 none ∧ c.format = item.getD 1 none ∧ c.units = declaredUnits item := by
  unfold columnOf at h
  split at h <;> simp_all [declaredUnits]
  all_goals (subst h; simp)

/-- three-field items keep their units (the case a length test written as `> 3` would lose) -/
theorem three_field_units (n f u : Str) : (columnOf [some n, some f, some u]).map (·.units) = some (some u) := rfl

/-- a `TUNIT` card is written exactly for the non-empty declared units -/
theorem tunit_iff (c : Column) (u : Str) : (cards c).2.2 = some u ↔ c.units = some u ∧ u ≠ [] := by
  unfold cards
  cases hc : c.units with
  | none => simp
  | some v =>
    by_cases hv : v = []
    · subst hv
      simp only [if_true, Option.some.injEq, ne_eq]
      constructor
      · intro h; cases h
      · rintro ⟨h1, h2⟩; exact absurd h1.symm h2
    · simp only [hv, if_false, Option.some.injEq, ne_eq]
      constructor
      · intro h; subst h; exact ⟨rfl, hv⟩
      · intro h; exact h.1

/-- `FITS_TO_NUMPY_TYPE_DICT` is the table the casts of this model implement: E/D floats of 32/64 bits, I/J integers of 16/32 -/
theorem fits_numpy_types : Gen.fitsNumpyTypes = [(fmtE, 0, 32), (fmtD, 0, 64), (fmtI, 1, 16), (fmtJ, 1, 32)] := by decide

theorem wrap_range (x : Int) : -2147483648 ≤ castJ x ∧ castJ x < 2147483648 ∧ -32768 ≤ castI x ∧ castI x < 32768 := by
  simp only [castJ, castI, wrap]; omega

theorem wrap_id (x : Int) : (castJ x = x ↔ -2147483648 ≤ x ∧ x < 2147483648) ∧ (castI x = x ↔ -32768 ≤ x ∧ x < 32768) := by
  simp only [castJ, castI, wrap]; omega

theorem wrap_idem (x : Int) : castJ (castJ x) = castJ x ∧ castI (castI x) = castI x := by
  simp only [castJ, castI, wrap]; omega

/-- a live time of more than 2³¹ µs does not fit the declared `J` column (known finding C05-livetime-int32-overflow) -/
theorem livetime_overflow_witness : castJ 3000000000 ≠ 3000000000 := by decide

/-- **re-writing is idempotent**: a column written through a cast `r` with `r ∘ r = r`, read back (the stored values)
and written again gives the same stored values; any number of times -/
theorem rewrite_idempotent {α} (r : α → α) (hr : ∀ x, r (r x) = r x) (col : List α) (n : ℕ) :
    (fun c => c.map r)^[n + 1] col = col.map r := by
  induction n with
  | zero => rfl
  | succ n ih =>
    rw [Function.iterate_succ_apply', ih, List.map_map]
    exact List.map_congr_left fun x _ => hr x

theorem rewrite_idempotent_int (col : List Int) (n : ℕ) :
    (fun c => c.map castJ)^[n + 1] col = col.map castJ ∧ (fun c => c.map castI)^[n + 1] col = col.map castI :=
  ⟨rewrite_idempotent _ (fun x => (wrap_idem x).1) _ _, rewrite_idempotent _ (fun x => (wrap_idem x).2) _ _⟩

/-! ### mandatory keywords are declared for every extension of an event file -/

def mandatory : List (List ℕ) :=
  [kw "TELESCOP", kw "INSTRUME", kw "DETNAM", kw "DET_ID", kw "TSTART", kw "TSTOP", kw "DATE-OBS", kw "DATE-END", kw "TELAPSE",
   kw "TIMESYS", kw "TIMEUNIT", kw "TIMEREF", kw "MJDREFI", kw "MJDREFF", kw "TIMEZERO", kw "ONTIME", kw "LIVETIME", kw "DEADC",
   kw "RA_OBJ", kw "DEC_OBJ", kw "RA_PNT", kw "DEC_PNT", kw "OBJECT"]

def eventFileClasses : List (List ℕ) :=
  [kw "evt.xLvl2PrimaryHDU", kw "evt.xBinTableHDUEvents", kw "evt.xBinTableHDUMonteCarlo", kw "evt.xBinTableHDUGTI",
   kw "evt.xBinTableHDURoiTable", kw "evt.xBinTableHDUSpacecraftData", kw "evt.xBinTableHDUTimeline", kw "evt.xBinTableHDUOCTI"]

theorem mandatory_keywords_declared :
    eventFileClasses.all (fun c => match Gen.keywordTables.lookup c with
      | some ks => mandatory.all fun k => ks.contains k
      | none => false) = true := by decide +kernel

theorem irfname_declared : (Gen.keywordTables.lookup (kw "evt.xBinTableHDUMonteCarlo")).map (·.contains (kw "IRFNAME")) = some true := by
  decide +kernel

/-! ## Header arithmetic and dates (evt/event.py `write_fits`, evt/fmt.py, utils/time_.py) -/

/-- the time keywords `write_fits` computes -/
structure TimeKeys (α : Type) where
  tstart : α
  tstop : α
  telapse : α
  ontime : α
  livetime : α
  deadc : α

/-- `stop_met = start_met + duration`, `deadtime_correction = livetime_sum / ontime` -/
def timeKeys {α} [RealLike α] (start duration ontime livetime : α) : TimeKeys α :=
  ⟨start, start + duration, duration, ontime, livetime, livetime / ontime⟩

/-- **TELAPSE = TSTOP − TSTART**, and `DEADC · ONTIME = LIVETIME` -/
theorem telapse_spec (start duration ontime livetime : ℝ) (h : ontime ≠ 0) :
    (timeKeys start duration ontime livetime).tstop - (timeKeys start duration ontime livetime).tstart =
      (timeKeys start duration ontime livetime).telapse ∧
    (timeKeys start duration ontime livetime).deadc * (timeKeys start duration ontime livetime).ontime =
      (timeKeys start duration ontime livetime).livetime := by
  simp only [timeKeys]
  rl_simp
  exact ⟨by ring, by field_simp⟩

/-- days ↦ civil date ↦ days is the identity, for every day -/
theorem days_civil_roundtrip (z : Int) :
    daysFromCivil (civilFromDays z).1 (civilFromDays z).2.1 (civilFromDays z).2.2 = z := by
  obtain ⟨hy0, hy1, hd0, hd1⟩ := yoe_bounds ((z + 719468) % 146097) (by omega) (by omega)
  obtain ⟨hr, hm0, hm1, _, _, hm⟩ := monthDay_spec _
    (by omega : 0 ≤ (z + 719468) % 146097 - yearStart (yoeOfDoe ((z + 719468) % 146097))) (by omega)
  have key : ∀ y : Int, y = yoeOfDoe ((z + 719468) % 146097) + (z + 719468) / 146097 * 400 →
      y / 400 * 146097 + (yearStart (y % 400) + ((z + 719468) % 146097 - yearStart (yoeOfDoe ((z + 719468) % 146097)))) - 719468 = z := by
    intro y hy
    have e1 : y % 400 = yoeOfDoe ((z + 719468) % 146097) := by omega
    rw [e1]; omega
  simp only [civilFromDays, daysFromCivil]
  rw [hr]
  split_ifs <;> apply key <;> omega

/-- the civil date produced for any day is a real date: month 1–12, day within the month, leap years included -/
theorem civil_valid (z : Int) :
    1 ≤ (civilFromDays z).2.1 ∧ (civilFromDays z).2.1 ≤ 12 ∧ 1 ≤ (civilFromDays z).2.2 ∧
      (civilFromDays z).2.2 ≤ daysInMonth (civilFromDays z).1 (civilFromDays z).2.1 := by
  obtain ⟨hy0, hy1, hd0, hd1⟩ := yoe_bounds ((z + 719468) % 146097) (by omega) (by omega)
  obtain ⟨m, d, hmd, hm0, hm1, hdd, hm, h2, hn2⟩ := monthDay_len
    ((z + 719468) % 146097 - yearStart (yoeOfDoe ((z + 719468) % 146097))) (by omega) (by omega)
  simp only [civilFromDays, hmd, daysInMonth, isLeap]
  refine ⟨hm0, hm1, hdd, ?_⟩
  split_ifs with c1 c2 c3 c4 c5
  all_goals first
    | (have := h2 c1; simp only [decide_eq_true_eq] at *; omega)
    | (have := hn2 c1; simp only [*, if_true, if_false] at this; omega)

/-- civil date ↦ days ↦ civil date is the identity on valid dates -/
theorem civil_days_roundtrip (y m d : Int) (hm0 : 1 ≤ m) (hm1 : m ≤ 12) (hd0 : 1 ≤ d) (hd1 : d ≤ daysInMonth y m) :
    civilFromDays (daysFromCivil y m d) = (y, m, d) := by
  have hlen : d ≤ (if m = 2 then 29 else if m = 4 ∨ m = 6 ∨ m = 9 ∨ m = 11 then 30 else 31) := by
    unfold daysInMonth at hd1
    split_ifs at hd1 ⊢ <;> omega
  obtain ⟨hmd, hdoy0, hdoy1, hfeb, hjf⟩ := monthDay_of_doy m d hm0 hm1 hd0 hlen
  -- the year of the era and the day of the era
  obtain ⟨y0, hy0⟩ : ∃ y0, y0 = (if m ≤ 2 then y - 1 else y) := ⟨_, rfl⟩
  have hleap : doyOfMonthDay m d = 365 → ((y0 % 400 + 1) % 4 = 0 ∧ ((y0 % 400 + 1) % 100 ≠ 0 ∨ y0 % 400 + 1 = 400)) := by
    intro h
    obtain ⟨rfl, rfl⟩ := hfeb.1 h
    simp only [daysInMonth, isLeap, if_true] at hd1
    have hy : y0 = y - 1 := by simpa using hy0
    by_cases hl : (y % 4 = 0 ∧ (y % 100 ≠ 0 ∨ y % 400 = 0))
    · obtain ⟨h4, h100⟩ := hl
      subst hy
      refine ⟨by omega, ?_⟩
      rcases h100 with h | h
      · left; omega
      · right; omega
    · simp [hl] at hd1
  have hyoe := yoe_unique (yearStart (y0 % 400) + doyOfMonthDay m d) (y0 % 400) (by omega) (by omega) (by omega)
    (by
      by_cases h365 : doyOfMonthDay m d = 365
      · right; have := hleap h365; omega
      · left; omega)
  have hdoe0 : 0 ≤ yearStart (y0 % 400) + doyOfMonthDay m d := by unfold yearStart; omega
  have hdoe1 : yearStart (y0 % 400) + doyOfMonthDay m d < 146097 := by
    by_cases h365 : doyOfMonthDay m d = 365
    · have := hleap h365; unfold yearStart; omega
    · unfold yearStart; omega
  have hz : daysFromCivil y m d + 719468 = y0 / 400 * 146097 + (yearStart (y0 % 400) + doyOfMonthDay m d) := by
    simp only [daysFromCivil, ← hy0]; omega
  have hq : (daysFromCivil y m d + 719468) / 146097 = y0 / 400 := by rw [hz]; omega
  have hr : (daysFromCivil y m d + 719468) % 146097 = yearStart (y0 % 400) + doyOfMonthDay m d := by rw [hz]; omega
  simp only [civilFromDays, hq, hr, hyoe]
  have e : yearStart (y0 % 400) + doyOfMonthDay m d - yearStart (y0 % 400) = doyOfMonthDay m d := by omega
  rw [e, hmd]
  simp only [Prod.mk.injEq, and_true]
  split_ifs at hy0 ⊢ <;> omega


/-- fields ↦ instant ↦ fields is the identity on valid stamps: `met_to_string (string_to_met_utc s) = s` -/
theorem stamp_unix_roundtrip (s : Stamp) (hv : s.Valid) : stampOfUnixUs (unixUsOfStamp s) = s := by
  obtain ⟨h1, h2, h3, h4, h5, h6, h7, h8, h9, h10, h11, h12⟩ := hv
  have hq : unixUsOfStamp s / usPerDay = daysFromCivil s.year s.month s.day := by
    simp only [unixUsOfStamp, usPerDay]; omega
  have hr : unixUsOfStamp s % usPerDay = s.hour * 3600000000 + s.minute * 60000000 + s.second * 1000000 + s.micro := by
    simp only [unixUsOfStamp, usPerDay]; omega
  simp only [stampOfUnixUs, hq, hr, civil_days_roundtrip s.year s.month s.day h1 h2 h3 h4]
  cases s
  simp only [Stamp.mk.injEq, true_and] at *
  omega

theorem date_string_roundtrip (epoch : Int) (s : Stamp) (hv : s.Valid) : metToStamp epoch (stampToMet epoch s) = s := by
  simp only [metToStamp, stampToMet]
  rw [show unixUsOfStamp s - epoch * 1000000 + epoch * 1000000 = unixUsOfStamp s by omega]
  exact stamp_unix_roundtrip s hv

/-- instant ↦ fields ↦ instant is the identity, for every microsecond -/
theorem unix_stamp_roundtrip (t : Int) : unixUsOfStamp (stampOfUnixUs t) = t := by
  simp only [unixUsOfStamp, stampOfUnixUs, usPerDay]
  rw [days_civil_roundtrip]
  omega

/-- the fields are valid (so `strptime` accepts the string `strftime` produced) -/
theorem stamp_valid (t : Int) : (stampOfUnixUs t).Valid := by
  obtain ⟨a, b, c, d⟩ := civil_valid (t / usPerDay)
  simp only [Stamp.Valid, stampOfUnixUs, usPerDay] at *
  refine ⟨a, b, c, d, ?_⟩
  omega

/-- **DATE-OBS / DATE-END match TSTART / TSTOP**: the string written for a MET parses back to that MET (to the
microsecond `datetime` keeps), whatever the epoch constant -/
theorem date_matches_met (epoch t : Int) : stampToMet epoch (metToStamp epoch t) = t := by
  simp only [stampToMet, metToStamp, unix_stamp_roundtrip]; omega

/-- **DATE-END − DATE-OBS = TELAPSE** -/
theorem date_span (epoch start duration : Int) :
    stampToMet epoch (metToStamp epoch (start + duration)) - stampToMet epoch (metToStamp epoch start) = duration := by
  rw [date_matches_met, date_matches_met]; omega

/-- two different instants never get the same date string fields -/
theorem date_injective (epoch t₁ t₂ : Int) (h : metToStamp epoch t₁ = metToStamp epoch t₂) : t₁ = t₂ := by
  have := congrArg (stampToMet epoch) h
  rwa [date_matches_met, date_matches_met] at this

/-- the epoch constants of `utils/time_.py` agree with each other: `MISSION_START_UNIX_TIME` is midnight of
`MISSION_START_DATETIME`, which is MJD `MISSION_START_MJD` (generated constants) -/
theorem mission_epoch_consistent :
    ∃ y m d, Gen.missionStartDatetime = [y, m, d, 0, 0, 0, 0] ∧
      unixUsOfStamp ⟨y, m, d, 0, 0, 0, 0⟩ = Gen.missionStartUnixTime * 1000000 ∧
      daysFromCivil y m d + 40587 = Gen.missionStartMjd :=
  ⟨2017, 1, 1, by decide, by decide, by decide⟩

/-- MET 0 is written as the mission start date -/
example : (metToStamp Gen.missionStartUnixTime 0).format = "2017-01-01T00:00:00.000000" := by decide

/-- the format string is the one the model renders -/
theorem datetime_fmt : Gen.datetimeFmt = "%Y-%m-%dT%H:%M:%S.%f".toList.map Char.toNat := by decide

/-! ### non-vacuity -/

example : ∃ h : Hist ℝ, h.WF ∧ (∀ i ∈ indices h.sumw2.shape, 0 ≤ h.sumw2.get i) ∧ h.sumw2.get [0, 1, 2] = 4 :=
  ⟨{ binning := [[0, 1, 2], [0, 1, 2, 3], [0, 1, 2, 3, 4]], labels := ["a", "b", "c", "d"], content := ⟨[2, 3, 4], fun _ => 2⟩,
     entries := ⟨[2, 3, 4], fun _ => 1⟩, sumw2 := ⟨[2, 3, 4], fun _ => 4⟩ },
   ⟨rfl, rfl, rfl⟩, fun _ _ => by norm_num, rfl⟩

example : (stampOfUnixUs 1709164799999999) = ⟨2024, 2, 28, 23, 59, 59, 999999⟩ ∧
    (stampOfUnixUs 1709164800000000) = ⟨2024, 2, 29, 0, 0, 0, 0⟩ ∧ (stampOfUnixUs (-1)) = ⟨1969, 12, 31, 23, 59, 59, 999999⟩ := by
  decide

end C19
