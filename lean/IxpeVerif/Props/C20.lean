import IxpeVerif.RealInst
import IxpeVerif.Gen.Formulas
import IxpeVerif.Gen.ImpR
import IxpeVerif.Model.Polarization
import IxpeVerif.Lemmas.Basic
import Mathlib.Analysis.SpecialFunctions.Trigonometric.Angle
import Mathlib.Algebra.BigOperators.Ring.List
/-!
# C20 — polarization-model algebra is consistent across representations

About the generated `Gen.model_q/u/pd/pa`, `Gen.radial_pa/tangential_pa`, `Gen.pl_norm/pl_integral` (translator) and the
hand-written `Pol.harmonicAddition` (correspondence), all at ℝ.
-/
open Real
noncomputable section
namespace C20

/-! ### (degree, angle) → (q, u) → (degree, angle) -/

theorem model_q_real (P a : ℝ) : Gen.model_q P a = P * Real.cos (2 * a) := by
  simp only [Gen.model_q]; rl_simp; norm_num
theorem model_u_real (P a : ℝ) : Gen.model_u P a = P * Real.sin (2 * a) := by
  simp only [Gen.model_u]; rl_simp; norm_num

theorem qu_pd_roundtrip (P a : ℝ) (hP : 0 ≤ P) : Gen.model_pd (Gen.model_q P a) (Gen.model_u P a) = P := by
  rw [model_q_real, model_u_real]
  simp only [Gen.model_pd]; rl_simp
  have : P * Real.cos (2*a) * (P * Real.cos (2*a)) + P * Real.sin (2*a) * (P * Real.sin (2*a)) = P ^ 2 := by
    have := Real.cos_sq_add_sin_sq (2*a); nlinarith
  rw [this, Real.sqrt_sq hP]

theorem qu_complex (P a : ℝ) : (⟨P * Real.cos (2*a), P * Real.sin (2*a)⟩ : ℂ)
    = (P : ℂ) * (Complex.cos ((2*a : ℝ) : ℂ) + Complex.sin ((2*a : ℝ) : ℂ) * Complex.I) := by
  apply Complex.ext <;>
    simp only [Complex.mul_re, Complex.mul_im, Complex.add_re, Complex.add_im, Complex.ofReal_re, Complex.ofReal_im,
      Complex.cos_ofReal_re, Complex.sin_ofReal_re, Complex.cos_ofReal_im, Complex.sin_ofReal_im,
      Complex.I_re, Complex.I_im] <;> ring

/-- the angle comes back exactly when 2a ∈ (−π, π] -/
theorem qu_pa_roundtrip (P a : ℝ) (hP : 0 < P) (h1 : -π < 2*a) (h2 : 2*a ≤ π) :
    Gen.model_pa (Gen.model_q P a) (Gen.model_u P a) = a := by
  rw [model_q_real, model_u_real]
  simp only [Gen.model_pa]; rl_simp
  rw [qu_complex, Complex.arg_mul_cos_add_sin_mul_I hP ⟨h1, h2⟩]; norm_num; ring

/-- … and modulo 180° for every angle -/
theorem qu_pa_roundtrip_mod_pi (P a : ℝ) (hP : 0 < P) :
    ∃ k : ℤ, Gen.model_pa (Gen.model_q P a) (Gen.model_u P a) = a + k * π := by
  rw [model_q_real, model_u_real]
  simp only [Gen.model_pa]; rl_simp
  have h := Complex.arg_mul_cos_add_sin_mul_I_coe_angle hP ((2 * a : ℝ) : Real.Angle)
  have e : (⟨P * Real.cos (2*a), P * Real.sin (2*a)⟩ : ℂ)
      = (P : ℂ) * (((Real.Angle.cos ((2 * a : ℝ) : Real.Angle) : ℝ) : ℂ) + ((Real.Angle.sin ((2 * a : ℝ) : Real.Angle) : ℝ) : ℂ) * Complex.I) := by
    apply Complex.ext <;> simp [Real.Angle.cos_coe, Real.Angle.sin_coe, ← Complex.ofReal_cos, ← Complex.ofReal_sin, ← Complex.ofReal_mul]
  rw [e]
  rw [Real.Angle.angle_eq_iff_two_pi_dvd_sub] at h
  obtain ⟨k, hk⟩ := h
  refine ⟨k, ?_⟩
  have : Complex.arg ((P : ℂ) * (((Real.Angle.cos ((2 * a : ℝ) : Real.Angle) : ℝ) : ℂ) + ((Real.Angle.sin ((2 * a : ℝ) : Real.Angle) : ℝ) : ℂ) * Complex.I))
      = 2 * a + 2 * π * k := by linarith
  rw [this]; norm_num; ring

/-! ### harmonic addition = flux-weighted sum of the Stokes vectors -/

abbrev Comp := Pol.Comp ℝ
def Fsum (ps : List Comp) : ℝ := (ps.map (·.F)).sum
def Csum (ps : List Comp) : ℝ := (ps.map fun c => c.F * c.m * Real.cos (2 * c.d)).sum
def Ssum (ps : List Comp) : ℝ := (ps.map fun c => c.F * c.m * Real.sin (2 * c.d)).sum
def Asq (ps : List Comp) : ℝ :=
  (ps.map fun ci => (ps.map fun cj => (ci.F * ci.m) * (cj.F * cj.m) * Real.cos (2 * (ci.d - cj.d))).sum).sum

theorem inner_sum (ci : Comp) (ps : List Comp) :
    (ps.map fun cj => (ci.F * ci.m) * (cj.F * cj.m) * Real.cos (2 * (ci.d - cj.d))).sum
      = (ci.F * ci.m) * Real.cos (2 * ci.d) * Csum ps + (ci.F * ci.m) * Real.sin (2 * ci.d) * Ssum ps := by
  unfold Csum Ssum
  induction ps with
  | nil => simp
  | cons c rest ih =>
    simp only [List.map_cons, List.sum_cons, ih]
    have : (2 : ℝ) * (ci.d - c.d) = 2 * ci.d - 2 * c.d := by ring
    rw [this, Real.cos_sub]; ring

/-- the double loop computes |Σ Stokes vectors|² -/
theorem Asq_eq (ps : List Comp) : Asq ps = Csum ps ^ 2 + Ssum ps ^ 2 := by
  unfold Asq
  simp only [inner_sum]
  have : ∀ (l : List Comp) (a b : ℝ),
      (l.map fun ci => (ci.F * ci.m) * Real.cos (2 * ci.d) * a + (ci.F * ci.m) * Real.sin (2 * ci.d) * b).sum
        = Csum l * a + Ssum l * b := by
    intro l a b
    unfold Csum Ssum
    induction l with
    | nil => simp
    | cons c rest ih => simp only [List.map_cons, List.sum_cons, ih]; ring
  rw [this]; ring

/-- over ℝ the radicand is never negative (in floats a cancellation can give √(−ε): runtime behaviour) -/
theorem Asq_nonneg (ps : List Comp) : 0 ≤ Asq ps := by rw [Asq_eq]; positivity

/-- what the model returns, in Mathlib terms -/
theorem harmonicAddition_real (ps : List Comp) :
    Pol.harmonicAddition ps = (Fsum ps, Real.sqrt (Asq ps) / Fsum ps, 0.5 * Complex.arg ⟨Csum ps, Ssum ps⟩) := by
  have e2 : (2.0:ℝ) = 2 := by norm_num
  simp only [Pol.harmonicAddition, Pol.amp]
  rl_simp
  simp only [lsum_eq_sum, e2, Fsum, Asq, Csum, Ssum]

/-- The combined (F, m, δ) reproduce the flux-weighted Stokes sum: F·m·cos 2δ = Σ Fᵢmᵢcos 2δᵢ and the same with sin. -/
theorem harmonic_addition_is_stokes_sum (ps : List Comp) (hF : Fsum ps ≠ 0) (hA : (⟨Csum ps, Ssum ps⟩ : ℂ) ≠ 0) :
    let r := Pol.harmonicAddition ps
    r.1 = Fsum ps ∧ r.1 * r.2.1 * Real.cos (2 * r.2.2) = Csum ps ∧ r.1 * r.2.1 * Real.sin (2 * r.2.2) = Ssum ps := by
  simp only [harmonicAddition_real]
  set z : ℂ := ⟨Csum ps, Ssum ps⟩
  have hn : Real.sqrt (Asq ps) = ‖z‖ := by
    rw [Asq_eq, Complex.norm_def, Complex.normSq_mk]; congr 1; ring
  have hpos : 0 < ‖z‖ := norm_pos_iff.mpr hA
  have h2d : 2 * ((0.5:ℝ) * Complex.arg z) = Complex.arg z := by norm_num; ring
  have hc := Complex.cos_arg hA
  have hs := Complex.sin_arg z
  refine ⟨trivial, ?_, ?_⟩
  · rw [h2d, hn, hc]; field_simp; simp [z]
  · rw [h2d, hn, hs]; field_simp; simp [z]

/-- independence of the component order -/
theorem harmonic_perm_invariant {p q : List Comp} (h : p.Perm q) : Pol.harmonicAddition p = Pol.harmonicAddition q := by
  rw [harmonicAddition_real, harmonicAddition_real]
  have hF : Fsum p = Fsum q := (h.map _).sum_eq
  have hC : Csum p = Csum q := (h.map _).sum_eq
  have hS : Ssum p = Ssum q := (h.map _).sum_eq
  rw [Asq_eq, Asq_eq, hF, hC, hS]

/-! ### T-tie: the loops of `harmonic_addition` regenerated from the source (`Gen/ImpR.lean`, translator/realimp.py) -/

def toT (c : Comp) : ℝ × ℝ × ℝ := (c.F, c.m, c.d)

/-- the inner loop over `j` adds the cross terms of component `i` to the running `A²` -/
theorem inner_fold (Ai di : ℝ) (g : ℝ → ℝ × ℝ × ℝ → ℝ)
    (hg : ∀ a Fj mj dj, g a (Fj, mj, dj) = a + Ai * (Fj * mj) * Real.cos (2 * (di - dj))) :
    ∀ (l : List Comp) (a : ℝ), (l.map toT).foldl g a = a + (l.map fun cj => Ai * (cj.F * cj.m) * Real.cos (2 * (di - cj.d))).sum
  | [], a => by simp
  | c :: rest, a => by
    simp only [List.map_cons, List.foldl_cons, List.sum_cons, toT, hg]
    rw [inner_fold Ai di g hg rest]; ring

/-- the outer loop over `i`: flux, numerator, denominator and `A²` after the components of `l`, the inner loop running over all of `P` -/
theorem outer_fold (P : List Comp) (f : ℝ × ℝ × ℝ × ℝ → ℝ × ℝ × ℝ → ℝ × ℝ × ℝ × ℝ)
    (hf : ∀ F n d A Fi mi di, f (F, n, d, A) (Fi, mi, di) =
      (F + Fi, n + Fi * mi * Real.sin (2 * di), d + Fi * mi * Real.cos (2 * di),
        A + (P.map fun cj => (Fi * mi) * (cj.F * cj.m) * Real.cos (2 * (di - cj.d))).sum)) :
    ∀ (l : List Comp) (F n d A : ℝ), (l.map toT).foldl f (F, n, d, A) =
      (F + Fsum l, n + Ssum l, d + Csum l,
        A + (l.map fun ci => (P.map fun cj => (ci.F * ci.m) * (cj.F * cj.m) * Real.cos (2 * (ci.d - cj.d))).sum).sum)
  | [], F, n, d, A => by simp [Fsum, Ssum, Csum]
  | c :: rest, F, n, d, A => by
    simp only [List.map_cons, List.foldl_cons, toT, hf]
    rw [outer_fold P f hf rest]
    simp only [Fsum, Ssum, Csum, List.map_cons, List.sum_cons, toT]
    refine Prod.ext ?_ (Prod.ext ?_ (Prod.ext ?_ ?_)) <;> simp only <;> ring

/-- **the generated `harmonic_addition` is the model**: the accumulators and the double loop of the source, translated statement by statement,
return the model's (F, A/F, ½ atan2) for every list of components -/
theorem gen_harmonic_addition_eq_model (ps : List Comp) :
    Gen.ImpR.harmonic_addition (ps.map toT) = Pol.harmonicAddition ps := by
  rw [harmonicAddition_real]
  have e2 : (2.0:ℝ) = 2 := by norm_num
  have e0 : (0.0:ℝ) = 0 := by norm_num
  simp only [Gen.ImpR.harmonic_addition, Np.loopR]
  rl_simp
  simp only [e2, e0]
  rw [outer_fold ps _ ?_ ps 0 0 0 0]
  · simp only [zero_add, Asq]
  · intro F n d A Fi mi di
    simp only
    rw [inner_fold (Fi * mi) di _ (fun a Fj mj dj => rfl) ps A]

/-- the headline statement on the current source: the generated routine returns the flux-weighted sum of the Stokes vectors -/
theorem gen_harmonic_addition_is_stokes_sum (ps : List Comp) (hF : Fsum ps ≠ 0) (hA : (⟨Csum ps, Ssum ps⟩ : ℂ) ≠ 0) :
    let r := Gen.ImpR.harmonic_addition (ps.map toT)
    r.1 = Fsum ps ∧ r.1 * r.2.1 * Real.cos (2 * r.2.2) = Csum ps ∧ r.1 * r.2.1 * Real.sin (2 * r.2.2) = Ssum ps := by
  rw [gen_harmonic_addition_eq_model]; exact harmonic_addition_is_stokes_sum ps hF hA

/-- … independent of the order of the components -/
theorem gen_harmonic_perm_invariant {p q : List Comp} (h : p.Perm q) :
    Gen.ImpR.harmonic_addition (p.map toT) = Gen.ImpR.harmonic_addition (q.map toT) := by
  rw [gen_harmonic_addition_eq_model, gen_harmonic_addition_eq_model]; exact harmonic_perm_invariant h

/-! ### radial and tangential fields are everywhere orthogonal -/

theorem radial_tangential_orthogonal (dx dy : ℝ) (h : dx ≠ 0 ∨ dy ≠ 0) :
    Real.cos (Gen.tangential_pa dx dy - Gen.radial_pa dx dy) = 0 := by
  simp only [Gen.tangential_pa, Gen.radial_pa]; rl_simp
  have hr : (⟨dy, dx⟩ : ℂ) ≠ 0 := by
    intro h0; have a := congrArg Complex.re h0; have b := congrArg Complex.im h0
    simp at a b; rcases h with h | h <;> contradiction
  have ht : (⟨-dx, dy⟩ : ℂ) ≠ 0 := by
    intro h0; have a := congrArg Complex.re h0; have b := congrArg Complex.im h0
    simp at a b; rcases h with h | h <;> contradiction
  rw [Real.cos_sub, Complex.cos_arg ht, Complex.cos_arg hr, Complex.sin_arg, Complex.sin_arg]
  have n1 : ‖(⟨-dx, dy⟩ : ℂ)‖ ≠ 0 := norm_ne_zero_iff.mpr ht
  have n2 : ‖(⟨dy, dx⟩ : ℂ)‖ ≠ 0 := norm_ne_zero_iff.mpr hr
  simp only
  field_simp
  ring

/-! ### power-law normalisations integrate back to the flux (including the logarithmic case) -/

theorem pl_roundtrip (I emin emax index p : ℝ) (h0 : 0 < emin) (h1 : emin < emax) :
    Gen.pl_integral (Gen.pl_norm I emin emax index p) (index - p) emin emax = I := by
  have hlog : Real.log emin < Real.log emax := Real.log_lt_log h0 h1
  simp only [Gen.pl_integral, Gen.pl_norm]; rl_simp
  have e1 : (1.0:ℝ) = 1 := by norm_num
  have e0 : (0.0:ℝ) = 0 := by norm_num
  simp only [e1, e0]
  by_cases hb : 1 + p - index = 0
  · have c1 : index - p ≤ 1 ∧ 1 ≤ index - p := by constructor <;> linarith
    have c2 : (1 + p - index ≤ 0 ∧ 0 ≤ 1 + p - index) := by constructor <;> linarith
    simp only [c1, c2, and_self, not_true_eq_false, if_true, if_false]
    have hl : Real.log (emax / emin) ≠ 0 := by
      rw [Real.log_div (ne_of_gt (lt_trans h0 h1)) (ne_of_gt h0)]; linarith
    field_simp
  · have c1 : ¬ (index - p ≤ 1 ∧ 1 ≤ index - p) := by
      rintro ⟨a, b⟩; apply hb; linarith
    have c2 : ¬ (1 + p - index ≤ 0 ∧ 0 ≤ 1 + p - index) := by
      rintro ⟨a, b⟩; apply hb; linarith
    simp only [c1, c2, not_false_eq_true, if_true, if_false]
    have hβ : 1 - (index - p) = 1 + p - index := by ring
    rw [hβ]
    have hD : Real.exp ((1 + p - index) * Real.log emax) - Real.exp ((1 + p - index) * Real.log emin) ≠ 0 := by
      intro h
      have := Real.exp_injective (sub_eq_zero.mp h)
      have : (1 + p - index) * (Real.log emax - Real.log emin) = 0 := by linarith
      rcases mul_eq_zero.mp this with h | h
      · exact hb h
      · linarith
    field_simp

/-! ### polarization degrees outside [0, 1] are refused -/

theorem degrees_refused_iff (ps : List ℝ) : Pol.degreesRefused ps = true ↔ ∃ p ∈ ps, p < 0 ∨ 1 < p := by
  simp only [Pol.degreesRefused, List.any_eq_true, Bool.or_eq_true, decide_eq_true_eq]
  rl_simp
  constructor
  · rintro ⟨p, hp, h⟩; exact ⟨p, hp, by norm_num at h; exact h⟩
  · rintro ⟨p, hp, h⟩; exact ⟨p, hp, by norm_num; exact h⟩

/-- non-vacuity of the harmonic-addition hypotheses -/
example : Fsum [⟨1, 0.5, 0⟩, ⟨2, 0, 0⟩] ≠ 0 ∧ Csum [⟨1, 0.5, 0⟩, ⟨2, 0, 0⟩] ≠ 0 := by
  simp [Fsum, Csum]; norm_num

end C20
end
