import IxpeVerif.Props.StateAuditDefs
/-! # Audit of memoisation and carried state over the whole package (C11); definitions and reasons in `StateAuditDefs.lean`. Core only. -/

namespace StateAudit

/-- **every memoisation / carried-state site of the current tree has been audited** (kernel-decided on the generated table): a new cache, a
changed cache key, an option written inside a loop over items, or a new module-level container filled at run time makes this fail until
it is looked at -/
theorem cache_sites_audited : Gen.cacheSites.all (fun s => auditedSites.contains s) = true := by decide +kernel

/-- the response cache keeps its key: the resolved path of exactly the requested flavour -/
theorem irf_cache_key_is_resolved_path :
    Gen.cacheSites.contains (cs "ixpeobssim/irf/__init__.py", cs "_load_irf_base", cs "dict", cs "__CACHE",
      cs "file_path := irf_file_path(irf_name, du_id, irf_type, caldb_path, True, simple_weighting, gray_filter)") = true := by decide +kernel

end StateAudit
