import IxpeVerif.Gen.CacheSites
/-!
# Audit of memoisation and carried state (shared by the properties that quantify over histories of calls: C03 C05 C06 C07 C10 C11 C12 C16 C19)

`Gen.cacheSites` is regenerated on every run by `translator/cachesites.py`: `lru_cache`-style decorators, lookup-or-compute on a container
that outlives the call (with the text of the key and of the expressions the key is assigned from), lazily computed attributes, mutable default
arguments written in the body, options written inside a loop over items, module-level containers mutated at run time.  `Cache.transparent_iff`
(Props/C11.lean) says when such a site is invisible: exactly when the key determines the result.  The list below is what exists on the audited
tree, each with the reason it cannot make a result depend on the history; the theorem is decided by the kernel on the generated table. Core only.
-/

namespace StateAudit

def cs (s : String) : List Nat := s.toList.map Char.toNat

/-- the sites that exist on the audited tree, each with the reason it cannot make an output depend on the history:
* `irf.__CACHE` is keyed by the resolved file path, which is all the loader reads (`Cache.keyed_by_input_transparent`; the path determines
  name, DU, type and flags by `C12.config_injective`);
* `irfgen.xcom.__CACHE` (cross-section tables by identifier) and the `irfgen`, `spm`, `clustering`, `xpsimfmt` loops fill arrays handed in by
  the caller for that purpose: response generation and level-1 tools, outside the seeded applications' outputs;
* `kwargs['outfile']` in the per-DU loops of `xpobssim`, `xpcalib`, `xpphotonlist` is overwritten at the top of every iteration before use;
* `_get_ephemeris` loops over option *names* of one call, not over items;
* `xBinnedFileBase.__setattr__` mirrors an attribute into the object's own data dictionary (no result is reused);
* `STORE_OBJECT_POOL` keeps matplotlib widgets alive (plotting);
* the fit-model classes of `core/modeling.py` rename their own class (`__name__`) for display: fitting/plotting layer, no data product;
* `xBinTableHDUMATRIX.__init__` writes the run-time MATRIX format into the class-level `DATA_SPECS` (response generation; the last writer wins, and
  every instance rewrites it before use). -/
def auditedSites : List (List Nat × List Nat × List Nat × List Nat × List Nat) := [
  (cs "ixpeobssim/bin/xpcalib.py", cs "xpcalib", cs "loop-carried", cs "kwargs", cs "'outfile'"),
  (cs "ixpeobssim/bin/xpobssim.py", cs "xpobssim", cs "loop-carried", cs "kwargs", cs "'outfile'"),
  (cs "ixpeobssim/bin/xpphase.py", cs "_get_ephemeris", cs "loop-carried", cs "kwargs", cs "key"),
  (cs "ixpeobssim/bin/xpphotonlist.py", cs "xpphotonlist", cs "loop-carried", cs "kwargs", cs "'outfile'"),
  (cs "ixpeobssim/bin/xpsimfmt.py", cs "_strip_hdu_list_base", cs "loop-carried", cs "hdu_list", cs "ext_name"),
  (cs "ixpeobssim/binning/base.py", cs "__setattr__", cs "dict", cs "_data_dict", cs "name"),
  (cs "ixpeobssim/core/modeling.py", cs "_model.__init__", cs "class-attr-assign", cs "__name__", cs "self.__class__"),
  (cs "ixpeobssim/core/modeling.py", cs "xFitModelBase.__add__", cs "class-attr-assign", cs "__name__", cs "self.__class__"),
  (cs "ixpeobssim/core/modeling.py", cs "xFitModelBase.__init__", cs "class-attr-assign", cs "__name__", cs "self.__class__"),
  (cs "ixpeobssim/evt/clustering.py", cs "run", cs "loop-carried", cs "output_ids", cs "cluster_mask"),
  (cs "ixpeobssim/irf/__init__.py", cs "_load_irf_base", cs "dict", cs "__CACHE",
   cs "file_path := irf_file_path(irf_name, du_id, irf_type, caldb_path, True, simple_weighting, gray_filter)"),
  (cs "ixpeobssim/irf/spm.py", cs "_rebin_array", cs "loop-carried", cs "a", cs "sel"),
  (cs "ixpeobssim/irfgen/ixpesim.py", cs "_adjust_to_calibration_data", cs "loop-carried", cs "modf", cs "(i, :)"),
  (cs "ixpeobssim/irfgen/fmt.py", cs "xBinTableHDUMATRIX.__init__", cs "class-state", cs "DATA_SPECS", cs "item store"),
  (cs "ixpeobssim/irfgen/xcom.py", cs "load_xsection_data", cs "dict", cs "__CACHE", cs "identifier"),
  (cs "ixpeobssim/utils/matplotlib_.py", cs "add_slider", cs "global-state", cs "STORE_OBJECT_POOL", cs "append"),
  (cs "ixpeobssim/utils/matplotlib_.py", cs "draggable_colorbar", cs "global-state", cs "STORE_OBJECT_POOL", cs "append")]

/-- **every memoisation / carried-state site of the current tree has been audited** (kernel-decided on the generated table): a new cache, a
changed cache key, an option written inside a loop over items, or a new module-level container filled at run time makes this fail until
it is looked at -/
theorem cache_sites_audited : Gen.cacheSites.all (fun s => auditedSites.contains s) = true := by decide +kernel

/-- the response cache keeps its key: the resolved path of exactly the requested flavour -/
theorem irf_cache_key_is_resolved_path :
    Gen.cacheSites.contains (cs "ixpeobssim/irf/__init__.py", cs "_load_irf_base", cs "dict", cs "__CACHE",
      cs "file_path := irf_file_path(irf_name, du_id, irf_type, caldb_path, True, simple_weighting, gray_filter)") = true := by decide +kernel

end StateAudit
