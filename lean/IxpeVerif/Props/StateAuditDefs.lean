import IxpeVerif.Gen.CacheSites
/-!
# Audit of memoisation and carried state: the audited list and the per-property scopes (theorems in `Props/StateAudit.lean` — whole package, C11 — and `Props/Audit/Cxx.lean` — the part of the package each property depends on)

`Gen.cacheSites` is regenerated on every run by `translator/cachesites.py`: `lru_cache`-style decorators, lookup-or-compute on a container
that outlives the call (with the text of the key and of the expressions the key is assigned from), lazily computed attributes, mutable default
arguments written in the body, options written inside a loop over items, module-level containers mutated at run time.  `Cache.transparent_iff`
(Props/C11.lean) says when such a site is invisible: exactly when the key determines the result.  The list below is what exists on the audited
tree, each with the reason it cannot make a result depend on the history; the theorem is decided by the kernel on the generated table. Core only.
-/

namespace StateAudit

def cs (s : String) : List Nat := s.toList.map Char.toNat

/-- the sites that exist on the audited tree, each with the reason it cannot make an output depend on the history:
* `irf.__CACHE` is keyed by the resolved file path, which is all the loader reads (`Cache.keyed_by_input_transparent`; the path determines
  name, DU, type and flags by `C12.config_injective`);
* `irfgen.xcom.__CACHE` (cross-section tables by identifier) and the `irfgen`, `spm`, `clustering`, `xpsimfmt` loops fill arrays handed in by
  the caller for that purpose: response generation and level-1 tools, outside the seeded applications' outputs;
* `kwargs['outfile']` in the per-DU loops of `xpobssim`, `xpcalib`, `xpphotonlist` is overwritten at the top of every iteration before use;
* `_get_ephemeris` loops over option *names* of one call, not over items;
* `xBinnedFileBase.__setattr__` mirrors an attribute into the object's own data dictionary (no result is reused);
* `STORE_OBJECT_POOL` keeps matplotlib widgets alive (plotting);
* the fit-model classes of `core/modeling.py` rename their own class (`__name__`) for display: fitting/plotting layer, no data product;
* `xBinTableHDUMATRIX.__init__` writes the run-time MATRIX format into the class-level `DATA_SPECS` (response generation; the last writer wins, and
  every instance rewrites it before use). -/
def auditedSites : List (List Nat × List Nat × List Nat × List Nat × List Nat) := [
  (cs "ixpeobssim/bin/xpcalib.py", cs "xpcalib", cs "loop-carried", cs "kwargs", cs "'outfile'"),
  (cs "ixpeobssim/bin/xpobssim.py", cs "xpobssim", cs "loop-carried", cs "kwargs", cs "'outfile'"),
  (cs "ixpeobssim/bin/xpphase.py", cs "_get_ephemeris", cs "loop-carried", cs "kwargs", cs "key"),
  (cs "ixpeobssim/bin/xpphotonlist.py", cs "xpphotonlist", cs "loop-carried", cs "kwargs", cs "'outfile'"),
  (cs "ixpeobssim/bin/xpsimfmt.py", cs "_strip_hdu_list_base", cs "loop-carried", cs "hdu_list", cs "ext_name"),
  (cs "ixpeobssim/binning/base.py", cs "__setattr__", cs "dict", cs "_data_dict", cs "name"),
  (cs "ixpeobssim/core/modeling.py", cs "_model.__init__", cs "class-attr-assign", cs "__name__", cs "self.__class__"),
  (cs "ixpeobssim/core/modeling.py", cs "xFitModelBase.__add__", cs "class-attr-assign", cs "__name__", cs "self.__class__"),
  (cs "ixpeobssim/core/modeling.py", cs "xFitModelBase.__init__", cs "class-attr-assign", cs "__name__", cs "self.__class__"),
  (cs "ixpeobssim/evt/clustering.py", cs "run", cs "loop-carried", cs "output_ids", cs "cluster_mask"),
  (cs "ixpeobssim/irf/__init__.py", cs "_load_irf_base", cs "dict", cs "__CACHE",
   cs "file_path := irf_file_path(irf_name, du_id, irf_type, caldb_path, True, simple_weighting, gray_filter)"),
  (cs "ixpeobssim/irf/spm.py", cs "_rebin_array", cs "loop-carried", cs "a", cs "sel"),
  (cs "ixpeobssim/irfgen/ixpesim.py", cs "_adjust_to_calibration_data", cs "loop-carried", cs "modf", cs "(i, :)"),
  (cs "ixpeobssim/irfgen/fmt.py", cs "xBinTableHDUMATRIX.__init__", cs "class-state", cs "DATA_SPECS", cs "item store"),
  (cs "ixpeobssim/irfgen/xcom.py", cs "load_xsection_data", cs "dict", cs "__CACHE", cs "identifier"),
  (cs "ixpeobssim/utils/matplotlib_.py", cs "add_slider", cs "global-state", cs "STORE_OBJECT_POOL", cs "append"),
  (cs "ixpeobssim/utils/matplotlib_.py", cs "draggable_colorbar", cs "global-state", cs "STORE_OBJECT_POOL", cs "append")]

/-- a site lies in a scope (a list of path prefixes) -/
def inScope (scope : List (List Nat)) (s : List Nat × List Nat × List Nat × List Nat × List Nat) : Bool := scope.any fun p => p.isPrefixOf s.1

/-- every site of the current tree that lies in the scope is in the audited list -/
def auditedIn (scope : List (List Nat)) : Bool := (Gen.cacheSites.filter (inScope scope)).all fun s => auditedSites.contains s

/-! the part of the package each property's outputs pass through (anchor files of the property and the layers between them and the entry points
the checks drive); C11 quantifies over the whole process history and audits the whole package -/
def scopeC01 : List (List Nat) := [cs "ixpeobssim/irf/", cs "ixpeobssim/core/rand.py", cs "ixpeobssim/core/spline.py", cs "ixpeobssim/srcmodel/", cs "ixpeobssim/evt/"]
def scopeC02 : List (List Nat) := [cs "ixpeobssim/evt/", cs "ixpeobssim/binning/", cs "ixpeobssim/irf/", cs "ixpeobssim/core/stokes.py"]
def scopeC03 : List (List Nat) := [cs "ixpeobssim/srcmodel/", cs "ixpeobssim/irf/", cs "ixpeobssim/core/", cs "ixpeobssim/evt/"]
def scopeC04 : List (List Nat) := [cs "ixpeobssim/evt/", cs "ixpeobssim/srcmodel/", cs "ixpeobssim/instrument/"]
def scopeC05 : List (List Nat) := [cs "ixpeobssim/evt/", cs "ixpeobssim/srcmodel/calibsrc.py", cs "ixpeobssim/instrument/"]
def scopeC06 : List (List Nat) := [cs "ixpeobssim/evt/", cs "ixpeobssim/bin/xpstokesalign.py", cs "ixpeobssim/instrument/", cs "ixpeobssim/binning/polarization.py", cs "ixpeobssim/binning/base.py", cs "ixpeobssim/core/stokes.py", cs "ixpeobssim/srcmodel/polarization.py"]
def scopeC07 : List (List Nat) := [cs "ixpeobssim/binning/", cs "ixpeobssim/core/fitsio.py", cs "ixpeobssim/core/hist.py", cs "ixpeobssim/evt/kislat2015.py", cs "ixpeobssim/bin/xpbin.py"]
def scopeC08 : List (List Nat) := [cs "ixpeobssim/binning/", cs "ixpeobssim/evt/", cs "ixpeobssim/core/hist.py", cs "ixpeobssim/utils/astro.py", cs "ixpeobssim/bin/xpbin.py"]
def scopeC09 : List (List Nat) := [cs "ixpeobssim/evt/", cs "ixpeobssim/core/pipeline.py", cs "ixpeobssim/utils/astro.py", cs "ixpeobssim/bin/xpselect.py"]
def scopeC10 : List (List Nat) := [cs "ixpeobssim/evt/", cs "ixpeobssim/core/pipeline.py", cs "ixpeobssim/bin/xpselect.py"]
def scopeC12 : List (List Nat) := [cs "ixpeobssim/irf/"]
def scopeC13 : List (List Nat) := [cs "ixpeobssim/evt/", cs "ixpeobssim/irf/", cs "ixpeobssim/instrument/charging.py", cs "ixpeobssim/binning/"]
def scopeC14 : List (List Nat) := [cs "ixpeobssim/instrument/", cs "ixpeobssim/evt/fmt.py", cs "ixpeobssim/evt/event.py", cs "ixpeobssim/srcmodel/", cs "ixpeobssim/utils/astro.py", cs "ixpeobssim/irf/psf.py"]
def scopeC15 : List (List Nat) := [cs "ixpeobssim/core/"]
def scopeC16 : List (List Nat) := [cs "ixpeobssim/srcmodel/", cs "ixpeobssim/utils/astro.py", cs "ixpeobssim/irf/psf.py", cs "ixpeobssim/instrument/mma.py"]
def scopeC17 : List (List Nat) := [cs "ixpeobssim/srcmodel/ephemeris.py", cs "ixpeobssim/srcmodel/roi.py", cs "ixpeobssim/bin/xpphase.py", cs "ixpeobssim/core/pipeline.py", cs "ixpeobssim/evt/event.py", cs "ixpeobssim/core/spline.py"]
def scopeC18 : List (List Nat) := [cs "ixpeobssim/evt/gti.py", cs "ixpeobssim/evt/event.py", cs "ixpeobssim/instrument/traj.py", cs "ixpeobssim/binning/misc.py", cs "ixpeobssim/binning/base.py", cs "ixpeobssim/bin/xpobssim.py"]
def scopeC19 : List (List Nat) := [cs "ixpeobssim/evt/fmt.py", cs "ixpeobssim/evt/event.py", cs "ixpeobssim/core/fitsio.py", cs "ixpeobssim/core/hist.py", cs "ixpeobssim/binning/", cs "ixpeobssim/instrument/charging.py", cs "ixpeobssim/utils/time_.py", cs "ixpeobssim/irf/base.py", cs "ixpeobssim/irf/__init__.py"]
def scopeC20 : List (List Nat) := [cs "ixpeobssim/srcmodel/polarization.py", cs "ixpeobssim/srcmodel/spectrum.py", cs "ixpeobssim/srcmodel/roi.py", cs "ixpeobssim/core/stokes.py", cs "ixpeobssim/irf/modf.py"]

end StateAudit
