import IxpeVerif.Num
import Mathlib.Analysis.SpecialFunctions.Trigonometric.Basic
import Mathlib.Analysis.SpecialFunctions.Complex.Arg
import Mathlib.Analysis.SpecialFunctions.Sqrt
import Mathlib.Analysis.SpecialFunctions.Exp
import Mathlib.Analysis.SpecialFunctions.Log.Basic
import Mathlib.Algebra.Order.Archimedean.Real.Basic
import Mathlib.Algebra.Order.Floor.Ring
import Mathlib.Tactic.Ring
import Mathlib.Tactic.Linarith
import Mathlib.Tactic.Positivity
import Mathlib.Tactic.FieldSimp
import Mathlib.Tactic.NormNum.OfScientific

/-!
# The ℝ interpretation of `RealLike`, and the bridge simp set

`atan2 y x := Complex.arg ⟨x, y⟩` (the principal argument, in (−π, π], which is numpy's
`arctan2` convention including `arctan2 0 0 = 0`); `floor x := ⌊x⌋` cast back.

Every proof about a polymorphic model starts with `simp only [<defs>, rl]` which rewrites the
class projections into Mathlib's own operations on ℝ, leaving a pure Mathlib goal.
-/

noncomputable section

def Real.atan2' (y x : ℝ) : ℝ := Complex.arg ⟨x, y⟩

instance instRealLikeReal : RealLike ℝ where
  sqrt := Real.sqrt
  sin := Real.sin
  cos := Real.cos
  exp := Real.exp
  log := Real.log
  floor := fun x => (⌊x⌋ : ℝ)
  atan2 := Real.atan2'
  pi := Real.pi
  decLt := fun _ _ => Classical.propDecidable _
  decLe := fun _ _ => Classical.propDecidable _

theorem rl_cos (x : ℝ) : RealLike.cos x = Real.cos x := rfl
theorem rl_sin (x : ℝ) : RealLike.sin x = Real.sin x := rfl
theorem rl_sqrt (x : ℝ) : RealLike.sqrt x = Real.sqrt x := rfl
theorem rl_exp (x : ℝ) : RealLike.exp x = Real.exp x := rfl
theorem rl_log (x : ℝ) : RealLike.log x = Real.log x := rfl
theorem rl_floor (x : ℝ) : RealLike.floor x = (⌊x⌋ : ℝ) := rfl
theorem rl_atan2 (y x : ℝ) : RealLike.atan2 y x = Complex.arg ⟨x, y⟩ := rfl
theorem rl_pi : (RealLike.pi : ℝ) = Real.pi := rfl
theorem rl_add (a b : ℝ) : @HAdd.hAdd ℝ ℝ ℝ (@instHAdd ℝ RealLike.toAdd) a b = a + b := rfl
theorem rl_sub (a b : ℝ) : @HSub.hSub ℝ ℝ ℝ (@instHSub ℝ RealLike.toSub) a b = a - b := rfl
theorem rl_mul (a b : ℝ) : @HMul.hMul ℝ ℝ ℝ (@instHMul ℝ RealLike.toMul) a b = a * b := rfl
theorem rl_div (a b : ℝ) : @HDiv.hDiv ℝ ℝ ℝ (@instHDiv ℝ RealLike.toDiv) a b = a / b := rfl
theorem rl_neg (a : ℝ) : @Neg.neg ℝ RealLike.toNeg a = -a := rfl
theorem rl_lt (a b : ℝ) : @LT.lt ℝ RealLike.toLT a b ↔ a < b := Iff.rfl
theorem rl_le (a b : ℝ) : @LE.le ℝ RealLike.toLE a b ↔ a ≤ b := Iff.rfl
theorem rl_sci (m : ℕ) (s : Bool) (e : ℕ) :
    @OfScientific.ofScientific ℝ RealLike.toOfScientific m s e = (OfScientific.ofScientific m s e : ℝ) := rfl

/-- the bridge simp set -/
macro "rl_simp" loc:(Lean.Parser.Tactic.location)? : tactic =>
  `(tactic| simp only [rl_cos, rl_sin, rl_sqrt, rl_exp, rl_log, rl_floor, rl_atan2, rl_pi, rl_add, rl_sub,
      rl_mul, rl_div, rl_neg, rl_lt, rl_le, rl_sci] $[$loc]?)

end
