import IxpeVerif.Gen.Dispatch
import IxpeVerif.Driver
/-!
Line-protocol driver (imports models and generated definitions only — never Mathlib).
One request per line, one reply per line.  Doubles travel as decimal UInt64 bit patterns.
  gen <name> <n> a₁ … aₙ <k> b₁ … bₖ      -> generated formula on Float
  <op> …                                    -> hand-written models, see IxpeVerif/Driver.lean
-/

def parseF (s : String) : Float := Float.ofBits (s.toNat!.toUInt64)
def showF (x : Float) : String := toString x.toBits

def genStep (ws : List String) : String :=
  match ws with
  | name :: n :: rest =>
    let n := n.toNat!
    let a := (rest.take n).map parseF |>.toArray
    match rest.drop n with
    | k :: rest2 =>
      let b := (rest2.take k.toNat!).map (· == "1") |>.toArray
      match Gen.dispatch name a b with
      | some out => " ".intercalate (out.map showF)
      | none => "bad-op"
    | _ => "bad-op"
  | _ => "bad-op"

def step (line : String) : String :=
  match (line.trimAscii.toString.splitOn " ").filter (· ≠ "") with
  | "gen" :: ws => genStep ws
  | ws => Driver.step ws

partial def loop (h : IO.FS.Stream) (out : IO.FS.Stream) : IO Unit := do
  let line ← h.getLine
  if line.isEmpty then return ()
  out.putStrLn (step line)
  loop h out

def main : IO Unit := do
  let out ← IO.getStdout
  loop (← IO.getStdin) out
