#!/bin/sh
# Build the whole Lean project (models, generated definitions, proofs) from files on disk only.
set -e
cd "$(dirname "$0")"
PYTHONPATH=/repo /venv/bin/python translator/gen.py >/dev/null 2>&1 || true
cd lean && lake build
