#!/bin/bash
# usage: confirm_mutant.sh <Cxx> <mk> [srcdir]   -- independent confirmation of a seeded defect in a scratch worktree
# (demo passes on pristine, fails on mutated; pinned suite on the mutated tree keeps every stable_pass test)
P=$1; M=$2; SRC=${3:-/tmp/mut/out/$P/$M}
WT=/tmp/confirm_wt/${P}_${M}
OUT=/tmp/mut/confirm/${P}_${M}.json
mkdir -p /tmp/confirm_wt /tmp/mut/confirm
git -C /repo worktree remove --force $WT 2>/dev/null
git -C /repo worktree add -q --detach $WT HEAD || exit 2
cd $WT
PYTHONPATH=$WT timeout 1800 /venv/bin/python $SRC/demo.py > /tmp/mut/confirm/${P}_${M}.pristine.log 2>&1; RC0=$?
git apply $SRC/patch.diff; APPLY=$?
PYTHONPATH=$WT timeout 1800 /venv/bin/python $SRC/demo.py > /tmp/mut/confirm/${P}_${M}.mutated.log 2>&1; RC1=$?
PYTHONPATH=$WT timeout 3000 /venv/bin/python -m pytest -q -p no:cacheprovider --timeout=900 --continue-on-collection-errors --junitxml=/tmp/mut/confirm/${P}_${M}.junit.xml > /tmp/mut/confirm/${P}_${M}.pytest.log 2>&1
python3 - <<PY
import json, xml.etree.ElementTree as ET
b=json.load(open('/root/.vp/BASELINE.json'))
passed=set()
for tc in ET.parse('/tmp/mut/confirm/${P}_${M}.junit.xml').iter('testcase'):
    if not any(c.tag in('failure','error','skipped') for c in tc): passed.add(tc.get('classname')+'::'+tc.get('name'))
sp=set(b['stable_pass'])
res=dict(property='$P', mutant='$M', apply_rc=$APPLY, demo_pristine_rc=$RC0, demo_mutated_rc=$RC1, suite_passed=len(passed), stable_missing=sorted(sp-passed),
         confirmed=($APPLY==0 and $RC0==0 and $RC1==1 and not (sp-passed)))
json.dump(res, open('$OUT','w'), indent=1); print(res)
PY
cd /; git -C /repo worktree remove --force $WT
