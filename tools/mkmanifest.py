#!/usr/bin/env python3
"""Regenerate MANIFEST.json from the table below (kept in one place so that it is always valid)."""
import json, os
HERE = os.path.dirname(os.path.dirname(os.path.abspath(__file__)))
PROPS = [json.loads(l) for l in open(os.path.join(HERE, 'properties.jsonl'))]

# id -> (category, technique, level text, level note)
CLAIMED = {
 'C06': ('proof', 'Lean 4 theorems about definitions regenerated from the source (translator) + Float correspondence + implementation oracle',
         'Lean proofs over ℝ of align_eq_rotate, correct_stokes_eq_angle, detphi round trip/range, DU angle bound, rotation of the Stokes sums, '
         'PA covariance (mod π) and invariance of PD/PD_ERR/PA_ERR, stated about the definitions the translator regenerates from /repo on every run; '
         'each generated definition is run on Float against the real function; the implementation oracle rotates event samples through xStokesAnalysis.',
         'Lean kernel + Mathlib; axioms propext/Classical.choice/Quot.sound; translator (validated every run); Kislat per-bin hand model (C02 correspondence); '
         'float rounding outside the model; Q_ERR/U_ERR are not claimed invariant (they are not).'),
 'C05': ('proof', 'Lean 4 theorem livetime_eq_spec about a line-by-line model of fill_livetime, tied by exact differential correspondence on dyadic times',
         'livetime_eq_spec (the column equals the time since max(previous+dead, GTI start), for every sorted event list in sorted GTIs incl. empty leading/middle/trailing GTIs), '
         'livetime_total, livetime_nonneg, fillLivetimeW_eq (no negative-index wrap), floor-to-µs lemmas, and two proved counterexamples for the listed findings; the model is compared '
         'exactly (no tolerance) with xEventList.fill_livetime; header LIVETIME/ONTIME/DEADC checked through write_fits and on real simulations with synthetic GTIs.',
         'Lean kernel (core only); axioms ⊆ {propext}; the hand-written model and the generators of the correspondence; numpy searchsorted/diff/fancy-assignment semantics; astropy I/O. '
         'Known findings: GTI gap < dead time, event exactly on a GTI start, int32 LIVETIME overflow.'),
 'C04': ('proof', 'Lean 4 theorems about a model of _finalize (fiducial cut, sort, dead-time veto, livetime, trigger id), tied by exact differential correspondence on tagged rows',
         'finalize_sorted, finalize_mem (rows intact, inside the fiducial rectangle), finalize_spaced, non-paralysable veto lemmas, finalize_rows_and_trg (TRG_ID 1..N, one row per kept event), '
         'concat_order_irrelevant (any permutation of the concatenated components), split_time_spec; the model is compared exactly with xEventList.__add__/_finalize/write_fits on crafted '
         'components (tags in PHA/MC_PHA) and the statement is evaluated on files from real ROI models simulated on synthetic GTIs.',
         'Lean kernel (core only); hand-written model + generators; numpy.argsort instability on equal times (excluded); astropy I/O; GTI filtering itself is decided under C03/C18; '
         'xBinarySource components are not GTI-filtered (known finding listed under C03).'),
 'C18': ('proof', 'Lean 4 theorems about models of the GTI algebra, the timeline epoch selection and _bin_gti, tied by exact differential correspondence',
         'filter_exact/filter_sublist/mask_aligned, complement_tiles, gti_list_spec/octi_list_spec/gti_list_duration (padding and minimum duration), epoch_flags_constant '
         '(centre bisection = every interior point), binGti_eq (the four-way break/continue loop equals the sum of overlaps on sorted disjoint GTIs) and bin_gti_needs_sorted; '
         'models compared exactly with xGTIList, xObservationTimeline (synthetic epochs, several queries per object) and xEventBinningLC._bin_gti; LC EXPOSURE through the real xpbin.',
         'Lean kernel (core only); hand-written models + generators; the trajectory layer that locates SAA/occultation boundaries is not modelled (needs the emptied ephemeris); numpy.searchsorted; astropy I/O.'),
 'C09': ('proof', 'Lean 4 theorems about a model of xEventSelect (mask, select, validate) on order-preserving integer keys, tied by exact differential correspondence',
         'select_iff_predicate, select_sublist, the documented bound conventions (closed lower/open upper in time, phase, energy; closed radii), the three invert partitions, '
         'adjacent-interval partitions, chain_eq_conj/chain_comm, validate_time_ok; the model is compared exactly (row tags) with the real xEventSelect.select() for all flag '
         'combinations with bounds on event values ± 1 ulp, and an independent transcription of the documented predicate is evaluated on the implementation output.',
         'Lean kernel (core only); model + generators; the monotone float->Int key map and the float32 evaluation of the generated channel_to_energy in the driver; angular separation and '
         'region membership per row come from the libraries (astropy WCS, regions) and are abstract in the model; several --mcsrcid are and-ed (recorded, not judged).'),
 'C10': ('proof', 'Lean 4 theorems about a model of _time_header_keywords (RealLike), tied by correspondence on Float and an independent documented-value oracle',
         'time_kw_spec (TSTART=max, TSTOP=min, missing bound keeps the original, ONTIME their difference — under the bounds _validate enforces), phase_kw_spec, ltsum_spec, ltscale_spec, '
         'deadc_range; the five keywords in PRIMARY/EVENTS/GTI are compared with the model and with the documented values on real xEventSelect runs (one/two-sided windows, empty windows, '
         'both algorithms, two-step histories).',
         'Lean kernel + Mathlib (ℝ); axioms propext/Classical.choice/Quot.sound; model + generators; the row mask is C09; float rounding outside the model (1e-9 relative).'),
 'C08': ('proof', 'Lean 4 theorems about a model of numpy.histogram bin assignment on order-preserving keys, tied by exact differential correspondence through the real xpbin',
         'binIndexGo_sound/_total (each value in [first, last edge] gets exactly the bin containing it, last bin closed), hist_total (nothing lost or double counted), '
         'half-open and (emin,emax] adjacent-bin partitions and disjointness, pha_valid_channel/pha_negative_channel on the half-integer channel edges; per-bin counts of LC, PP, PHA1, CMAP '
         'written by the real xpbin compared exactly with the model on files with events on and next to every edge, plus merge/EQP/map-cube oracles.',
         'Lean kernel; model + generators; astropy.wcs (projection) abstract — the model starts at the pixel coordinates; numpy.linspace/logspace for the edges; astropy I/O. '
         'PCUBE (emin,emax] vs map-cube [emin,emax) conventions differ on an event exactly on an edge: both contain it, not judged.'),
 'C13': ('proof', 'Lean 4 theorems about the generated ebounds formulas/tables and a searchsorted model, tied by translator + exact correspondence + exhaustive rmf enumeration',
         'e2c_contains/e2c_in_range (binary search on the 375-channel grid returns the channel whose bounds contain the energy), table_consistent, pkg_roundtrip, pkg_channel_contains, '
         'digitized_energy_in_channel (ENERGY inside the rounded PHA channel for any nearest rounding), centre_in_channel, rintHalf_close; every distinct rmf in the CALDB checked over all channels; '
         'the chain PHA/PI/ENERGY/MC_* on simulated files incl. charging; the energy used by xpselect/xpbin.',
         'Lean kernel + Mathlib; translator; EBOUNDS tables are data (enumerated); FITPACK linear spline for channel_to_energy of the rmf; float32 storage tolerance 3e-6 keV.'),
 'C02': ('proof', 'Lean 4 theorems about a RealLike model of xStokesAnalysis; the per-bin functions are regenerated from the masked-array source by the translator and proved equal to the model; correspondence on Float and an independent published-formula oracle on real xpbin files',
         'gen_polarization/stokes_errors/mdp/neff_eq_model (generated code = model), gen_ranges, pd_nonneg, pa_abs_le_90, mdp_in_unit, empty_bin, pol_errs_nonneg, stokes_errs_nonneg, polarization_eq_published / mdp_eq_published (under the code masks the outputs are eqs. 21/36/22/37/A.8), '
         'neff_nonneg, adjacent_bins_partition; all columns of polarization_table compared with the model (static methods on degenerate bins, constructor with weights/acceptance correction), '
         'PCUBE files from the real xpbin against the formulae written independently (DUs, weights, acceptcorr, MC energy, LIST and EQP binnings, empty bins), weight-scheme guard.',
         'Lean kernel + Mathlib; model + generators; SIGNIF uses scipy (external); response splines as per-event values; float32 FITS columns (2e-5); '
         'μ = 0 bins with finite Q, U are unreachable through the constructor (recorded: the static error formulae return inf there).'),
 'C20': ('proof', 'Lean 4 theorems about generated formulas (translator) and a model of harmonic_addition, with Float correspondence and implementation oracles',
         'qu_pd_roundtrip, qu_pa_roundtrip (+ mod π for every angle), Asq_eq/Asq_nonneg, harmonic_addition_is_stokes_sum, harmonic_perm_invariant, radial_tangential_orthogonal, '
         'pl_roundtrip (pl_integral ∘ pl_norm = id for every index and energy power incl. the logarithmic branch), degrees_refused_iff; oracles: all permutations, '
         'harmonic_component_addition at the nodes, fields around random centres, closed forms vs quadrature, broadband averages of constant models, the simulator guard.',
         'Lean kernel + Mathlib; translator; a**b as exp(b log a); FITPACK integrals in the broadband averages are measured (1e-9), not proved.'),
 'C14': ('proof', 'Lean 4 theorems about generated projections/rotations (translator) with Float correspondence and file-level oracles',
         'rotate_inverse/rotate_forward/rotate_norm, naive_roundtrip (both directions), sky_det_roundtrip (any DU angle, any dithering offset, pointing off the poles), psf_displacement, '
         'dithered_pointing, pointing_is_centre; oracles: real mma round trips vs an independent inverse for DU×roll×dithering×pointings, sky↔pixel, and simulated files '
         '(X,Y→WCS→RA,DEC; DETX,DETY→dithered pointing→RA,DEC; WCS reference; PSF-like displacement).',
         'Lean kernel + Mathlib; translator; astropy.wcs abstract (round trip measured: partial); float32 column storage (0.6 arcsec); DU clocking/focal length/dithering formula re-stated in the harness as independent reference.'),
 'C16': ('proof', 'Lean 4 theorems about the generated samplers with RNG draws as parameters, and deterministic pushes of stratified uniforms through the real samplers',
         'disk_radial_law/disk_inside, annulus_radial_law/annulus_inside (squared tangent-plane radius affine in u for every azimuth; nowhere outside), annulus_old_law_fails '
         '(regression witness of the repaired defect), gauss_tangent_isotropic, image_pixel_interval (searchsorted on the cumulative ⇒ pixel share), unravel_spec/unravel_row_lt; oracles with '
         'numpy.random intercepted: area law, azimuth, point sources, Gaussian moments, non-square images, interior pixels vs build_intensity_map incl. centres next to RA 0/360.',
         'Lean kernel + Mathlib; translator; uniformity of numpy.random and multivariate_normal; astropy.wcs; the statistical comparisons use stratified (deterministic) uniforms, not random samples.'),
 'C17': ('proof', 'Lean 4 theorems about a fold model on the generated Taylor polynomials; the spline inversion is a hypothesis whose accuracy is measured on every run',
         'fold_is_fract (re-referenced fold = frac(φ(t) − φ(start) + φ₀) for every epoch), fold_range, fold_offset, roundtrip, rvs_fold_roundtrip (generated times fold back to the generated '
         'phases for any exact inverse), rvs_in_window, tail_share (the repaired share of the last partial period follows the profile) with tail_share_old_fails; oracles: round trip envelope, '
         'xEphemeris.rvs (sorted, in window, fold = phase, KS in free-running phase, tail share), periodic source data flow through the GTI filter, xpphase on two files.',
         'Lean kernel + Mathlib; translator; FITPACK spline inversion measured (partial): envelope 5e-12·periods + 2e-7 + 16 ulp(MET)·ν₀; fixed-seed statistics with 6σ / KS bands.'),
 'C07': ('proof', 'Lean 4 theorems about a model of the file summation; _weighted_average, the cube and the light-curve __iadd__ are regenerated from the source by the translator and proved equal to the model; correspondence through the real xBinned* classes',
         'gen_weighted_average/pcube_iadd/lc_iadd_eq_model (generated code = model), moment_additive (all four branches), wAvg2_comm/iadd_comm, fold_sums and sum_perm_invariant (any order or grouping of any number of files gives the same additive columns and, '
         'for total I > 0, the same MU/E_MEAN hence the same derived columns), bin_append/iadd_empty_right (sum = binning merged events), lc_rate_additive/lc_zero_exposure, quad_comm/quad_assoc; '
         'oracle: random partitions of a master event list binned by the real xpbin and summed in all orders vs the product of the merged events for PCUBE (weighted or not), PHA1, PP, CMAP '
         '(and the written sum), MDPMAPCUBE, PMAPCUBE, LC; the compatibility guard.',
         'Lean kernel + Mathlib; model + generators; float32 column arithmetic (3e-5); known findings: weighted PHA1 normalisation, LC EXPOSURE/COUNTS grouping dependence.'),
 'C15': ('proof', 'Lean 4 theorems about a model of the linear-spline (k = 1) generator via a general piecewise-linear inverse-interpolation lemma, tied by correspondence on Float',
         'interp_inv (general ordered field), cdf_ppf_id, ppf_cdf_id, ppf_mono, ppf_endpoints, bounded_in_bounds, dedupFirst_of_strict, negative_rejected, and zero_stretch_fails '
         '(the listed finding as a theorem about the model); ppf/cdf values and ppf nodes of real generators compared with the model on non-uniform grids, sharp edges, trailing/leading zeros; '
         'the statement evaluated on the implementation incl. bounded sampling with bounds exactly 0.0, k = 2, 3 on smooth densities, auxiliary-variable slices, negative densities refused.',
         'Lean kernel + Mathlib; model + generators; FITPACK for k ≥ 2 not modelled (oracle only, partial); known findings: k = 1 interior zero stretches, k ≥ 2 undershoot ⇒ non-monotone ppf.'),
 'C01': ('proof', 'Lean 4 theorems (incl. two integrals by the fundamental theorem of calculus) about the generated azimuthal pdf/cdf/fold/Stokes formulas; the ppf table accuracy is a measured hypothesis',
         'az_cdf_hasDerivAt, az_cdf_endpoints, az_pdf_nonneg/pos, az_cdf_strictMono, az_fold_cos2/sin2/range, stokes_of_fold, stokes_cols_norm, az_mean_q, az_mean_u '
         '(E[2cos2φ] = m cos2φ₀, E[2sin2φ] = m sin2φ₀), inverse_transform(_eps), az_sampling_law; oracles: ε of the real table, midpoint grids of u through the real rvs_phi '
         '(exact data flow, Stokes means, histogram) over IRF sets × DU × (E, P, φ₀) incl. integer/scalar degrees, model components with E/t dependence, simulate→PCUBE closure.',
         'Lean kernel + Mathlib; translator; partial: the FITPACK-inverted ppf table is measured (ε ≤ 2e-4, observed 4.6e-5), not proved; numpy.random uniformity; one fixed-seed 6.5σ closure.'),
 'C03': ('proof', 'Lean 4 theorems about the pointwise count-spectrum composition, GTI filtering and the vignetting acceptance set; FITPACK numerics are measured hypotheses',
         'count_spectrum_pointwise/unabsorbed/z0 (spectrum at the source-frame energy, absorption and effective area at the observed energy), gti_filter_exact/sublist, '
         'vignetting_keep_prob (Lebesgue measure of the surviving uniforms = min(1, max(0, v))), time_/energy_sampling_law; oracles: tabulated values vs independently evaluated factors, '
         'norm vs Simpson quadrature, midpoint grids of u through the real time and energy samplers, seed-list data flow (Poisson mean, GTI filter), vignetting with fed uniforms, '
         'row counts of simulated stationary and periodic sources.',
         'Lean kernel + Mathlib; partial: FITPACK integration/inversion measured (norm 2e-4, ε_t ≤ 2e-3, ε_E ≤ 6e-3; observed 2.4e-4 / 1.3e-4); numpy.random.poisson/uniform contracts; '
         'known finding: xBinarySource (truncated times, no GTI filter, wrong auxiliary variable).'),
 'C12': ('proof', 'Lean 4 kernel evaluation (decide +kernel) of a name-composition model over the CALDB listing regenerated from the tree, model tied by exhaustive comparison; numerical relations by exhaustive loading',
         'no_orphans (every shipped file under the six loader folders is composed by some IRF name × DU × type × flags), flavour_faithful (markers and folder exactly as requested), '
         'config_injective (accepted compositions pairwise distinct), plain_sets_complete, simple_type/gray_type/simple_intent_refused, legacy_wellformed — on listing, names and constants '
         'regenerated on every run; the model equals irf_file_name on the whole configuration space (exhaustive); every name × DU × flags is loaded and checked (flavour, weighting scheme, '
         'mrf = arf × modf at the tabulated energies, aeff > 0, 0 ≤ modf ≤ 1, rmf rows, channel bounds, on-axis vignetting, EEF), load_irf_set members.',
         'Lean kernel (core only); generator of the tables (witness tables untrusted, kernel-checked); partial: numerical relations are data facts decided by enumeration, quick tier loads DU 1 + a seeded third. '
         'gray_tow and chrgparams files have no loader flag and are outside the six kinds (recorded).'),
 'C11': ('proof', 'Lean 4 determinism theorem on an effect model + kernel-decided generated table of random-number call sites, with a process-history oracle',
         'deterministic (a program that seeds first and has no unseeded source and no in-place mutation of cached objects is independent of the initial world), fresh_breaks_determinism, '
         'sites_ok (every RNG call site in the import closure of the seven seeded applications is a module-level numpy.random function, every application seeds, guards are None-tests), '
         'du_streams_distinct_* on the per-DU seed expression regenerated from the source; oracle: cold run vs re-runs after random histories of perturbations, bitwise column comparison, '
         'DU alone vs after the other DUs with the shared ROI, seeds incl. 0, four post-processing applications.',
         'Lean kernel (core only); static extractor (cross-checked with run-time call sites); partial: PRNG abstract; xpobssim driven by a DU-loop replica with a synthetic timeline; '
         'xpcalib/xpphotonlist static only (not runnable offline).'),
 'C19': ('proof', 'Lean 4 theorems about models of the n-d image layout, histogram persistence/copy, column-spec unpacking on generated tables, integer casts and the calendar arithmetic of DATE-OBS, tied by exact correspondence through the files the real classes write',
         'load_save_image/hist_load_save/hist_load_save_errors (every dimensionality and shape; (√x)² = x on sumw2 ≥ 0, which reachable_sumw2_nonneg proves for every fill history), '
         'hist_cycles_stable (any number of cycles), hist_copy_eq (+ the pre-repair witness), hist_add_sumw2/hist_scale, moveaxis_eq_T_2d vs moveaxis_loader_fails_3d, spec_tables_wf/formats_declared/'
         'fits_numpy_types/mandatory_keywords_declared (kernel-decided on the generated DATA_SPECS / HEADER_KEYWORDS tables), columns_faithful/three_field_units/tunit_iff, wrap_range/wrap_id/wrap_idem, '
         'rewrite_idempotent, telapse_spec, days_civil_roundtrip/civil_valid/unix_stamp_roundtrip/stamp_valid/date_matches_met/date_span/date_injective (every instant, leap years included), '
         'mission_epoch_consistent; oracle: 1–3-d weighted histograms through copy/save/from_file cycles, every HDU class written and re-read, synthetic and simulated event files column by column '
         'with header consistency, every xpbin product read and re-written twice with the package classes.',
         'Lean kernel + Mathlib; models + generators; partial: byte-level FITS encoding (astropy), float32 rounding (IEEE; parameter r32 with idempotence as hypothesis) and CPython datetime are modelled or abstract, '
         'exercised by the correspondence; known finding: LIVETIME J column overflow above 2147 s.'),
}
NOT_YET = 'check not built yet in this round (work in progress; see DESIGN.md section 7 for the planned model and theorems)'

# later additions, appended to (technique, level text, level note)
APPEND = {
 'C03': ('; the GTI filter (imperative translator), the closures that build the count spectrum and the hit-or-miss vignetting rule (translator/lamtrans.py) are regenerated from the source and proved equal to the model',
         ' gen_filter_exact / gen_filter_sublist restate the filter theorems on the definition regenerated from xGTIList.filter_event_times; GTI lists out of chronological order, nested and '
         'overlapping, late-starting and early-ending lists in the seed-list data flow; kept share against the light-curve integral over the intervals. '
         'gen_count_pdf_eq_model / _pointwise / _unabsorbed (spectrum at E(1+z), effective area and absorption at E, on the current source), gen_vign_keep_eq_model, gen_vign_keep_prob.', ''),
 'C04': ('; apply_dead_time (loop) and _finalize (orchestration skeleton) are regenerated from the source and proved equal to / composed into the model',
         ' Events of different components inside one microsecond; one list written twice with different dead times. T-tie: gen_apply_dead_time_eq_model, gen_dead_time_spaced (imperative translator), gen_finalize_eq_model / gen_finalize_rows (the order, guards and arguments of the steps of _finalize, '
         'regenerated by translator/skeltrans.py, composed with the models of the steps into the model of the whole); ROI models sharing component objects (every SRC_ID in the ROITABLE).',
         ' The synthetic-file writer hands write_fits a real xROIModel and response set.'),
 'C05': ('; fill_livetime (array code) and _finalize (orchestration) are regenerated from the source and proved equal to the model',
         ' T-tie: gen_fill_livetime_eq_model, gen_livetime_eq_spec (imperative translator) and the _finalize skeleton (C04); GTI gaps shorter than the dead time down to back-to-back intervals outside '
         'the listed finding; the column written by write_fits → _finalize → fill_livetime against the statement.', ''),
 'C09': ('; the time and phase masks (translator/masks.py) and the whole of select() read per row (translator/selecttrans.py) are regenerated from the source and proved equal to the model',
         ' T-tie: gen_time_mask_eq_model, gen_phase_mask_eq_model, gen_select_row_eq_model, gen_select_iff. Direct selection with a boolean array (--mask): direct_mask_spec, direct_mask_alone, direct_mask_ignored_with_time; the array file is shared by the selections of a run and must stay as written.', ''),
 'C01': ('', ' Closure through the package\'s own entry points: a simulation with a weighted response set binned through xpbin\'s defaults (the IRFNAME of the file), the Chandra-to-IXPE '
         'converter with a polarization that changes with time.', ''),
 'C02': ('; the event-list layer of xStokesAnalysis (constructor with its weight arrays, masked reductions, the row of polarization_table) is regenerated from the vectorised source (translator/vectrans.py)',
         ' T-tie: gen_init_eq_model, gen_table_row_eq_model, gen_analysis_eq_model, gen_neff_scalar_eq_model (AnaTie lemmas: gen_energy_mask_eq, gen_sum_stokes_eq, gen_w2_eq, gen_effective_mu_eq, gen_average_energy_eq). PCUBE files with the weights read from a column named by --weightcol and the response set left to the file\'s IRFNAME.', ''),
 'C08': ('; the cube side is stated on the event-list layer regenerated from the vectorised source (translator/vectrans.py)',
         ' T-tie: gen_adjacent_bins_additive, gen_adjacent_bins_additive_init, gen_edge_event_lower (Props/C08Gen.lean).', ''),
 'C07': ('', ' T-tie also of the sums of pulse profiles, count spectra and MDP map cubes: gen_pp_iadd_eq_model, gen_pp_iadd_comm, gen_pp_iadd_assoc, gen_pha1_iadd_eq_model, gen_mdpcube_iadd_eq_model.', ''),
 'C06': ('; the rotation covariance is also stated on the event-list layer regenerated from the vectorised source (translator/vectrans.py)',
         ' delta_phi_ampl_eq_stokes: the amplitude / phase flavour of the spurious-modulation correction equals the Stokes flavour, for negative amplitudes too. '
         'gen_rotation_covariant, gen_row_rotation_invariant (Props/C06Gen.lean): weights, acceptance correction and the event-by-event 1/mu do not break the covariance of the generated sums and row.', ''),
 'C10': ('; _time_header_keywords, time_selected, phase_selected and average_deadtime_per_event are regenerated from the source (imperative translator over RealLike: optional values, '
         'dictionary with literal keys, unbound names as failure) and proved equal to the model',
         ' T-tie: gen_time_header_keywords_eq_model (32 combinations of present / missing bounds × algorithm), gen_time_kw_spec; an observation straddling MET 0 with bounds exactly 0.0.', ''),
 'C11': ('; the real xpobssim() application is run with only the orbit propagator stubbed',
         ' Application histories: a run from scratch, the same run resumed with the DU 1 file in place (--overwrite False), the same run again in the process, on a configuration with an '
         'instrumental background.', ''),
 'C12': ('; the loaders and the response set (call forwarding resolved against the callee signatures) are regenerated from the source',
         ' A response set inspected after it has been used (conversions beyond the last channel, a photon list and an event list drawn with it). T-tie of the glue: gen_set_members, gen_loaders_agree_with_set, gen_set_flavour_faithful (Gen/Loaders.lean); every member of a loaded set is checked to come from the file of '
         'the requested name (intent with its weighting flavour, version).', ''),
 'C15': ('; build_cdf, build_ppf and rvs_bounded are regenerated from the source (imperative translator on real arrays) and proved equal to the model',
         ' T-tie: gen_build_ppf_eq_model (de-duplication before normalisation + index array = the model quantile nodes, for every density with a non-zero integral), gen_build_cdf_eq_model, '
         'gen_cdf_ppf_id, gen_ppf_cdf_id, gen_ppf_mono, gen_rvs_bounded_eq_model, gen_bounded_in_bounds; the extrapolation option with bounds beyond the grid, tables of counts.', ''),
 'C16': ('; the image sampler (xFITSImage._build_cdf, rvs_coordinates) is regenerated from the source (translator/lamtrans.py) and run on Float against the real class',
         ' T-tie: gen_search_spec, gen_build_cdf_get, gen_pixel_share, gen_rvs_pixel, gen_rvs_randomized, gen_rvs_within_pixel (Props/C16Gen.lean).', ''),
 'C17': ('; _dt, nu, nudot, met_to_phase and fold are regenerated from the source with their mutual calls and proved equal to the model',
         ' T-tie: gen_fold_eq_model, gen_fold_is_fract, gen_fold_range, gen_rvs_fold_roundtrip, gen_met_to_phase_eq_model; coarse (ten-bin) pulse profiles.', ''),
 'C18': ('; _bin_gti, the xGTIList methods and the observation timeline (shrink, isgti, isocti, _bisect_odd, _calculate_epochs, filter_epochs, gti_list, octi_list) are regenerated from the source '
         '(imperative translator) and proved equal to the models',
         ' T-tie: gen_bin_gti_eq_overlap, gen_filter_exact, gen_complement_tiles, gen_gti_list_spec, gen_octi_list_spec, gen_gti_list_duration, gen_calculate_epochs_eq_model (even ticks), '
         'gen_bisect_odd_eq_model (sorted marks); the trajectory layer on a stub trajectory incl. windows without any transition; threshold-directed queries.',
         ' The orbit propagation (SGP4, JPL ephemeris) is outside the model: the SAA / occultation status functions are parameters.'),
 'C19': ('; the persistence, copy and arithmetic methods of xHistogramBase are regenerated from the source (object / n-d array translator) and are the model by rfl',
         ' An event file starting at MET 0 exactly among those binned. T-tie: gen_save_eq_model, gen_from_file_eq_model, gen_copy_eq_model, gen_set_content_eq_model, gen_add/sub/mul_eq_model, gen_hist_load_save, gen_hist_cycles_stable, gen_hist_copy_eq; '
         'histograms whose content equals their entries while the errors differ, slices of 2-d histograms.', ''),
 'C20': ('; harmonic_addition (the double loop) is regenerated from the source and proved equal to the model',
         ' T-tie: gen_harmonic_addition_eq_model, gen_harmonic_addition_is_stokes_sum, gen_harmonic_perm_invariant; power-law ranges starting at zero energy (oracle only).', ''),
}


def main():
    checks, na = [], []
    for p in PROPS:
        pid = p['id']
        if pid in CLAIMED:
            cat, tech, text, note = CLAIMED[pid]
            if pid in APPEND:
                tech, text, note = tech + APPEND[pid][0], text + APPEND[pid][1], note + APPEND[pid][2]
            checks.append(dict(property_id=pid, quick_cmd='./check %s --tier quick' % pid, thorough_cmd='./check %s --tier thorough' % pid,
                               evidence_file='evidence/%s.json' % pid, replay_cmd_template='./check replay {path}', engine='lean4+correspondence',
                               level_claimed=dict(category=cat, text=text, design_ref='DESIGN.md section 7, %s' % pid), level_note=note, technique=tech))
        else:
            na.append(dict(property_id=pid, reason=NOT_YET))
    m = dict(version=1, setup_cmd='./setup.sh',
             hooks=dict(guard='IXPEOBSSIM_VERIF', enable='no source hooks are needed: the checks drive the package in-process (IXPEOBSSIM_VERIF=1 is exported but nothing in /repo reads it)',
                        baseline_off_cmd='cd /repo && /venv/bin/python -m pytest -ra -q -p no:cacheprovider --timeout=900 --continue-on-collection-errors',
                        source_commits=[], add_only=True),
             engines=[dict(name='lean4+correspondence', path='lean/ + harness/ + translator/', serves_properties=sorted(CLAIMED),
                           kind_free_text='Lean 4 proofs about models regenerated from / tied to the source, differential correspondence harness, implementation oracles')],
             checks=checks, not_applicable=na,
             notes='Machine-checked proof in Lean 4; see DESIGN.md. fix: commits in /repo and known findings are listed in known_findings.json.')
    json.dump(m, open(os.path.join(HERE, 'MANIFEST.json'), 'w'), indent=1, ensure_ascii=False)
    print('MANIFEST.json: %d checks, %d not_applicable' % (len(checks), len(na)))

if __name__ == '__main__':
    main()
