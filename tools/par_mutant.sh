#!/bin/bash
# usage: par_mutant.sh <Cxx> <mk> <srcdir> [checks (comma separated, default the property's own)] [tier]
# Confirms a delivered change independently (demo on pristine and changed scratch worktrees, pinned suite on the changed tree) and runs the
# committed checks against it WITHOUT touching /repo: a scratch worktree of /repo with the patch applied is handed to a scratch copy of /verif
# through IXPE_REPO, so that several changes can be processed at the same time. Results: /tmp/mut/confirm/<Cxx>_<mk>.json and
# /tmp/mut/detect/<Cxx>_<mk>.json; everything else is removed.
P=$1; M=$2; SRC=$3; CHECKS=${4:-$P}; TIER=${5:-quick}
ID=${P}_${M}
BASE=/tmp/mt/$ID
mkdir -p /tmp/mut/confirm /tmp/mut/detect /tmp/mt
rm -rf $BASE; mkdir -p $BASE
git -C /repo worktree remove --force $BASE/repo 2>/dev/null
git -C /repo worktree add -q --detach $BASE/repo HEAD || exit 2
cd $BASE/repo
if [ -z "$SKIP_CONFIRM" ]; then
PYTHONPATH=$BASE/repo timeout 1800 /venv/bin/python $SRC/demo.py > /tmp/mut/confirm/$ID.pristine.log 2>&1; RC0=$?
fi
git apply $SRC/patch.diff; APPLY=$?
if [ -z "$SKIP_CONFIRM" ]; then
PYTHONPATH=$BASE/repo timeout 1800 /venv/bin/python $SRC/demo.py > /tmp/mut/confirm/$ID.mutated.log 2>&1; RC1=$?
PYTHONPATH=$BASE/repo timeout 3000 /venv/bin/python -m pytest -q -p no:cacheprovider --timeout=900 --continue-on-collection-errors --junitxml=/tmp/mut/confirm/$ID.junit.xml > /tmp/mut/confirm/$ID.pytest.log 2>&1
python3 - <<PY
import json, xml.etree.ElementTree as ET
b=json.load(open('/root/.vp/BASELINE.json'))
passed=set()
for tc in ET.parse('/tmp/mut/confirm/$ID.junit.xml').iter('testcase'):
    if not any(c.tag in('failure','error','skipped') for c in tc): passed.add(tc.get('classname')+'::'+tc.get('name'))
sp=set(b['stable_pass'])
res=dict(property='$P', mutant='$M', apply_rc=$APPLY, demo_pristine_rc=$RC0, demo_mutated_rc=$RC1, suite_passed=len(passed), stable_missing=sorted(sp-passed),
         confirmed=($APPLY==0 and $RC0==0 and $RC1==1 and not (sp-passed)))
json.dump(res, open('/tmp/mut/confirm/$ID.json','w'), indent=1); print(res)
PY
fi
# the committed checks against the changed tree
rsync -a --exclude .git --exclude replays /verif/ $BASE/verif/
mkdir -p $BASE/verif/replays
cd $BASE/verif
python3 - <<PY
import subprocess, json, os
res={}
for c in '$CHECKS'.split(','):
    p=subprocess.run(['./check', c, '--tier', '$TIER'], cwd='$BASE/verif', capture_output=True, text=True, env=dict(os.environ, IXPE_REPO='$BASE/repo'))
    lines=[l for l in p.stdout.split('\n') if l.startswith(('VIOLATION','OK ','FAIL ','ERROR','  ','KNOWN'))]
    res[c]=dict(rc=p.returncode, lines=lines[:8], tail=p.stdout[-1500:] if p.returncode not in (0,1) else '')
    print(c, 'rc=%d'%p.returncode); print('\n'.join(lines[:8]))
json.dump(res, open('/tmp/mut/detect/$ID.json','w'), indent=1)
PY
cd /
git -C /repo worktree remove --force $BASE/repo
rm -rf $BASE
