#!/venv/bin/python
"""Record the digests of the anchored source files of /repo (translator/source_pins.json): the tree on which the correspondence and the
oracles of every property were last calibrated. `Check.finish` raises the search budget of the quick tier when a digest differs."""
import os, sys, json
if os.path.realpath(sys.executable) != os.path.realpath('/venv/bin/python') and os.path.exists('/venv/bin/python'):
    os.execv('/venv/bin/python', ['/venv/bin/python'] + sys.argv)      # ast.dump differs between interpreter versions: pin with the one the checks run under
sys.path.insert(0, os.path.join(os.path.dirname(os.path.abspath(__file__)), '..', 'harness'))
import common
json.dump(common.source_digests(None), open(common.PINS, 'w'), indent=1, sort_keys=True)
print('pinned %d files' % len(json.load(open(common.PINS))))
