#!/usr/bin/env python3
"""usage: try_mutant.py <Cxx> <mk> [--src DIR] [--checks C05,C04] [--tier quick] [--keep]
Applies a seeded defect to /repo, runs the named checks (default: the property's own), reverts, prints the verdict lines.
With --keep (and a confirmation record under /tmp/mut/confirm) copies it to /verif/seeded/<Cxx>-<mk>/ with meta.json."""
import sys, os, json, subprocess, shutil, argparse
ap = argparse.ArgumentParser()
ap.add_argument('prop'); ap.add_argument('mut'); ap.add_argument('--src'); ap.add_argument('--checks'); ap.add_argument('--tier', default='quick'); ap.add_argument('--keep', action='store_true')
a = ap.parse_args()
src = a.src or '/tmp/mut/out/%s/%s' % (a.prop, a.mut)
if not os.path.exists(src):
    src = '/verif/seeded/%s-%s' % (a.prop, a.mut)
checks = (a.checks or a.prop).split(',')
assert subprocess.run(['git', '-C', '/repo', 'status', '--porcelain'], capture_output=True, text=True).stdout.strip() == '', '/repo not clean'
subprocess.run(['git', '-C', '/repo', 'apply', os.path.join(src, 'patch.diff')], check=True)
res = {}
try:
    for c in checks:
        p = subprocess.run(['./check', c, '--tier', a.tier], cwd='/verif', capture_output=True, text=True)
        lines = [l for l in p.stdout.split('\n') if l.startswith(('VIOLATION', 'OK ', 'FAIL ', 'ERROR', '  '))]
        res[c] = dict(rc=p.returncode, lines=lines[:6])
        print(c, 'rc=%d' % p.returncode); print('\n'.join(lines[:6]))
finally:
    subprocess.run(['git', '-C', '/repo', 'checkout', '--', '.'], check=True)
if a.keep:
    dst = '/verif/seeded/%s-%s' % (a.prop, a.mut)
    os.makedirs(dst, exist_ok=True)
    if os.path.abspath(src) != dst:
        for f in ('patch.diff', 'demo.py'):
            shutil.copy(os.path.join(src, f), dst)
    meta = json.load(open(os.path.join(src, 'meta.json')))
    conf = '/tmp/mut/confirm/%s_%s.json' % (a.prop, a.mut)
    if os.path.exists(conf):
        meta['confirmed_independently'] = json.load(open(conf))
    meta.setdefault('detection', {}).update({'%s/%s' % (c, a.tier): dict(rc=r['rc'], verdict=[l for l in r['lines'] if l.startswith('VIOLATION')][:1], detail=[l.strip() for l in r['lines'] if l.startswith('  ')][:1]) for c, r in res.items()})
    meta['what_was_run'] = 'tools/confirm_mutant.sh (demo on pristine + mutated scratch worktree, pinned suite on the mutated tree); tools/try_mutant.py (git -C /repo apply; ./check; git -C /repo checkout -- .)'
    json.dump(meta, open(os.path.join(dst, 'meta.json'), 'w'), indent=1)
    print('kept in', dst)
