#!/bin/bash
# usage: try_patch.sh <patch.diff> <Cxx> [tier]  -- apply a seeded change to /repo, run one check, undo (never leaves /repo modified)
P=$1; C=$2; T=${3:-quick}
cd /repo && git diff --quiet || { echo "/repo is not clean"; exit 2; }
git -C /repo apply $P || exit 2
cd /verif && ./check $C --tier $T 2>&1 | grep -v "^>>>" | tail -${4:-6}
git -C /repo checkout -- . ; git -C /repo clean -fdq -- ixpeobssim >/dev/null 2>&1
git -C /repo status --short
# the generated Lean files and the evidence now describe the changed tree: bring them back to /repo as it is
cd /verif && /venv/bin/python translator/gen.py >/dev/null 2>&1; git -C /verif checkout -- evidence 2>/dev/null
